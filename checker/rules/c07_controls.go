package rules

func init() {
	c := func(id, rule, file, old, new, key string) {
		AddControl(Control{ID: id, Prop: "C07", Rule: rule, File: file, Old: old, New: new, ExpectKey: key})
	}
	const binjq = "pkg/interp/binary.jq"
	const intjq = "pkg/interp/internal.jq"
	const enc = "internal/colorjson/encoder.go"
	const interp = "pkg/interp/interp.go"

	// C07.shadow
	c("c07-shadow-new-def", "C07.shadow", "pkg/interp/funcs.jq", "def intdiv(a; b): _intdiv(a; b);", "def intdiv(a; b): _intdiv(a; b);\ndef ascii_downcase: .;", "ascii_downcase/0")
	c("c07-shadow-twice", "C07.shadow", "pkg/interp/funcs.jq", "def intdiv(a; b): _intdiv(a; b);", "def intdiv(a; b): _intdiv(a; b);\ndef test($val): false;", "test/1")

	// C07.orig
	c("c07-orig-alias-swapped", "C07.orig", binjq, "def _orig_test($regex; $flags): test($regex; $flags);", "def _orig_test($regex; $flags): test($flags; $regex);", "test/2:alias")
	c("c07-orig-forgotten", "C07.orig", binjq, "def explode: _binary_or_orig([.[range(.size)]]; _orig_explode);", "def explode: _binary_or_orig([.[range(.size)]]; [.[range(.size)]]);", "explode/0:override")
	c("c07-orig-dispatch-flipped", "C07.orig", binjq, "if _exttype == \"binary\" then bfn\n  else fn\n  end;", "if _exttype == \"binary\" then fn\n  else bfn\n  end;", "_binary_or_orig/2")
	c("c07-orig-alias-after", "C07.orig", binjq, "def _orig_explode: explode;\ndef explode: _binary_or_orig([.[range(.size)]]; _orig_explode);", "def explode: _binary_or_orig([.[range(.size)]]; _orig_explode);\ndef _orig_explode: explode;", "explode/0:alias")
	c("c07-orig-bytes-drops-fn", "C07.orig", binjq, "    | bfn\n    );\n    fn\n  );", "    | bfn\n    );\n    bfn\n  );", "_bytes_or_orig/2")

	// C07.samedef
	c("c07-samedef-inputs", "C07.samedef", "pkg/interp/init.jq", "def inputs: _repeat_break(input);", "def inputs: repeat(input);", "inputs/0")
	c("c07-samedef-helper", "C07.samedef", intjq, "def _repeat_break(f):\n  try repeat(f)\n  catch\n    if . == \"break\" then empty\n    else error\n    end;", "def _repeat_break(f):\n  try repeat(f)\n  catch\n    if . == \"break\" then empty\n    else empty\n    end;", "inputs/0")

	// C07.split
	c("c07-split2-swapped", "C07.split", binjq, "def split($regex; $flags): [splits($regex; $flags)];", "def split($regex; $flags): [splits($flags; $regex)];", "split/2")
	c("c07-split1-unquoted", "C07.split", binjq, "def split($val): [splits($val | _re_quote_meta)];", "def split($val): [splits($val)];", "split/1")

	// C07.quotemeta
	c("c07-quote-drop-pipe", "C07.quotemeta", binjq, "\\\\)\\\\|\\\\[", "\\\\)\\\\[", "covers:\"|\"")
	c("c07-quote-replacement", "C07.quotemeta", binjq, "\\\\$\\\\)])\"; \"\\\\\\(.c)\");", "\\\\$\\\\)])\"; \"\\(.c)\");", "shape")

	// C07.passthru
	c("c07-pass-stderr", "C07.passthru", intjq, "def stderr: printerr, .;", "def stderr: printerr;", "stderr/0")
	c("c07-pass-debug1-noempty", "C07.passthru", intjq, "def debug(f): (f | debug | empty), .;", "def debug(f): (f | debug), .;", "debug/1")
	c("c07-pass-debug0-format", "C07.passthru", intjq, "def debug: ([\"DEBUG:\", .] | tojson | printerrln), .;", "def debug: ([\"DEBUG\", .] | tojson | printerrln), .;", "debug/0:message")
	c("c07-pass-printer-leaks", "C07.passthru", intjq, "def printerr: tostring | _stderr;", "def printerr: tostring | (_stderr, .);", "stderr/0")

	// C07.exttype
	c("c07-exttype-plain", "C07.exttype", interp, "\treturn gojq.TypeOf(c)\n}\n\nfunc (i *Interp) _stdioFdName", "\treturn \"binary\"\n}\n\nfunc (i *Interp) _stdioFdName", "_exttype/0")
	c("c07-exttype-other-binary", "C07.exttype", "pkg/interp/decode.go", "func (decodeValueBase) ExtType() string { return \"decode_value\" }", "func (decodeValueBase) ExtType() string { return \"binary\" }", "ExtType:")

	// C07.tojson
	c("c07-tojson-indent", "C07.tojson", "format/json/json.jq", "def tojson: _to_json(null);", "def tojson: _to_json({indent: 2});", "tojson/0")
	c("c07-tojson-indent-floor", "C07.tojson", "format/json/json.go", "min(max(0, opts.Indent), maxIndent)", "min(max(2, opts.Indent), maxIndent)", "_to_json/1:options.Indent")
	c("c07-tojson-usenumber", "C07.tojson", "format/json/json.go", "\tjd.UseNumber()\n", "", "UseNumber")
	c("c07-tojson-normalize", "C07.tojson", "format/json/json.go", "s.Actual = gojq.NormalizeNumbers(vs[0])", "s.Actual = vs[0]", "Normalize")
	c("c07-tojson-wrong-value", "C07.tojson", "format/json/json.go", "cj.Marshal(c, bb)", "cj.Marshal(opts, bb)", "marshal-input")

	// C07.json
	c("c07-json-1e21", "C07.json", enc, "x < 1e-6 || x >= 1e21", "x < 1e-6 || x > 1e21", "float: choose")
	c("c07-json-nan", "C07.json", enc, "if math.IsNaN(f) {", "if math.IsInf(f, 0) {", "float:")
	c("c07-json-clamp", "C07.json", enc, "if f >= math.MaxFloat64 {\n\t\tf = math.MaxFloat64", "if f >= math.MaxFloat64 {\n\t\tf = math.MaxFloat32", "float: clamp")
	c("c07-json-expclean", "C07.json", enc, "buf[n-2] == '0' {", "buf[n-2] == '1' {", "float: store")
	c("c07-json-escape-f", "C07.json", enc, "\t\t\tcase '\\f':\n\t\t\t\te.w.WriteString(`\\f`)\n", "", "string:")
	c("c07-json-hex", "C07.json", enc, "hex[b&0xF]", "hex[b&0x7]", "string:")
	c("c07-json-runeerror", "C07.json", enc, "c == utf8.RuneError && size == 1", "c == utf8.RuneError && size == 3", "string:")
	c("c07-json-base", "C07.json", enc, "strconv.AppendInt(e.buf[:0], int64(v), 10)", "strconv.AppendInt(e.buf[:0], int64(v), 16)", "value:")
	c("c07-json-key-order", "C07.json", enc, "return cmp.Compare(a.key, b.key)", "return cmp.Compare(b.key, a.key)", "keys ascending")
	c("c07-json-comma", "C07.json", enc, "if i > 0 {\n\t\t\te.writeByte(',', e.opts.Colors.Array)", "if i > 1 {\n\t\t\te.writeByte(',', e.opts.Colors.Array)", "array:")
	c("c07-json-colon-space", "C07.json", enc, "if e.opts.Indent != 0 {\n\t\t\te.w.WriteByte(' ')\n\t\t}", "e.w.WriteByte(' ')", "object:")
	c("c07-json-key-value-order", "C07.json", enc, "\t\te.encodeString(kv.key, e.opts.Colors.ObjectKey)\n\t\te.writeByte(':', e.opts.Colors.Object)", "\t\te.writeByte(':', e.opts.Colors.Object)\n\t\te.encodeString(kv.key, e.opts.Colors.ObjectKey)", "object: order")

	c("c07-json-colour-path", "C07.json", enc, "\t\te.setColor(e.w, color)\n\t\te.w.Write(bs)", "\t\te.setColor(e.w, color)\n\t\te.w.Write(bs[1:])", "[colour table set")

	// C07.eval
	c("c07-eval-arity-swapped", "C07.eval", interp, "gojq.WithFunction(f.Name, f.MinArity, f.MaxArity, f.FuncFn))", "gojq.WithFunction(f.Name, f.MaxArity, f.MinArity, f.FuncFn))", "register:WithFunction")
	c("c07-eval-input-dropped", "C07.eval", interp, "iter := gc.RunWithContext(runCtx, c, variableValues...)", "iter := gc.RunWithContext(runCtx, nil, variableValues...)", "run:input")
	c("c07-eval-wrapper", "C07.eval", interp, "\t\t\trunCtxCancelFn()\n\t\t}\n\t\treturn v, ok\n", "\t\t\trunCtxCancelFn()\n\t\t}\n\t\treturn v, ok && v != nil\n", "wrapper:transparent")
	c("c07-eval-values-order", "C07.eval", interp, "variableValues = append(variableValues, v)", "variableValues = append([]any{v}, variableValues...)", "variables:paired")
	c("c07-eval-extra-option", "C07.eval", interp, "compilerOpts = append(compilerOpts, gojq.WithVariables(variableNames))", "compilerOpts = append(compilerOpts, gojq.WithVariables(variableNames), gojq.WithInputIter(gojq.NewIter()))", "option:WithInputIter")

	// ---- round 3 (self-review by mutation)
	const jsongo = "format/json/json.go"
	c("c07-shadow-go-registration", "C07.shadow", interp, "RegisterFunc0(\"history\", (*Interp).history)", "RegisterFunc0(\"floor\", (*Interp).history)", "go:floor/0")
	c("c07-orig-drop-flags", "C07.orig", binjq, "_orig_splits($regex; $flags));", "_orig_splits($regex));", "splits/2:override")
	c("c07-orig-inverted-wrong", "C07.orig", binjq, "if _exttype == \"binary\" then bfn", "if _exttype != \"binary\" then bfn", "_binary_or_orig/2")
	c("c07-orig-after-pipe", "C07.orig", binjq, "def explode: _binary_or_orig([.[range(.size)]]; _orig_explode);", "def explode: tostring | _binary_or_orig([.[range(.size)]]; _orig_explode);", "explode/0:override")

	// C07.stdio
	c("c07-stdio-debug-newline", "C07.stdio", intjq, "def debug: ([\"DEBUG:\", .] | tojson | printerrln), .;", "def debug: ([\"DEBUG:\", .] | tojson | printerr), .;", "debug/0:writes")
	c("c07-stdio-newline-first", "C07.stdio", intjq, "def printerrln: ., \"\\n\" | printerr;", "def printerrln: \"\\n\", . | printerr;", "debug/0:writes")
	c("c07-stdio-stream", "C07.stdio", intjq, "def _stderr: _stdio(\"stderr\");", "def _stderr: _stdio(\"stdout\");", "stderr/0:writes")
	c("c07-stdio-fd-table", "C07.stdio", interp, "case \"stderr\":\n\t\treturn i.OS.Stderr(), nil", "case \"stderr\":\n\t\treturn i.OS.Stdout(), nil", "fd:stderr")
	c("c07-stdio-fprintln", "C07.stdio", interp, "if _, err := fmt.Fprint(w, c); err != nil {", "if _, err := fmt.Fprintln(w, c); err != nil {", "go:_stdio_write/1:value")
	c("c07-stdio-other-value", "C07.stdio", interp, "if _, err := fmt.Fprint(w, c); err != nil {", "if _, err := fmt.Fprint(w, fdName); err != nil {", "go:_stdio_write/1:value")
	c("c07-stdio-guard", "C07.stdio", interp, "if i.EvalInstance.IsCompleting {\n\t\treturn gojq.NewIter()\n\t}\n\n\tif _, err := fmt.Fprint", "if !i.EvalInstance.IsCompleting {\n\t\treturn gojq.NewIter()\n\t}\n\n\tif _, err := fmt.Fprint", "go:_stdio_write/1:guards")

	// C07.scan
	c("c07-scan-start-not-reset", "C07.scan", enc, "\t\t\ti++\n\t\t\tstart = i\n\t\t\tcontinue\n\t\t}\n\t\tc, size", "\t\t\ti++\n\t\t\tcontinue\n\t\t}\n\t\tc, size", "string: round byte/replace")
	c("c07-scan-rune-skip", "C07.scan", enc, "\t\t\te.w.WriteString(`\\ufffd`)\n\t\t\ti += size", "\t\t\te.w.WriteString(`\\ufffd`)\n\t\t\ti += 2", "string: round rune/replace")
	c("c07-scan-rune-inc", "C07.scan", enc, "\t\t\tcontinue\n\t\t}\n\t\ti += size\n\t}", "\t\t\tcontinue\n\t\t}\n\t\ti++\n\t}", "string: round rune/keep")
	c("c07-scan-pending-guard", "C07.scan", enc, "\t\t\tif start < i {\n\t\t\t\te.w.WriteString(s[start:i])\n\t\t\t}\n\t\t\tswitch b {", "\t\t\tif start > i {\n\t\t\t\te.w.WriteString(s[start:i])\n\t\t\t}\n\t\t\tswitch b {", "string: round byte/replace")
	c("c07-scan-replacement-first", "C07.scan", enc, "\t\t\tif start < i {\n\t\t\t\te.w.WriteString(s[start:i])\n\t\t\t}\n\t\t\te.w.WriteString(`\\ufffd`)", "\t\t\te.w.WriteString(`\\ufffd`)\n\t\t\tif start < i {\n\t\t\t\te.w.WriteString(s[start:i])\n\t\t\t}", "string: round rune/replace")
	c("c07-scan-tail", "C07.scan", enc, "if start < len(s) {\n\t\te.w.WriteString(s[start:])", "if start < len(s) {\n\t\te.w.WriteString(s[len(s):])", "string: tail")
	c("c07-scan-init", "C07.scan", enc, "\tstart := 0\n", "\tstart := 1\n", "string: init")
	c("c07-scan-quote", "C07.scan", enc, "\t\te.w.WriteString(s[start:])\n\t}\n\te.w.WriteByte('\"')", "\t\te.w.WriteString(s[start:])\n\t\te.w.WriteByte('\"')\n\t}", "string: quotes")

	// C07.json: buffer plumbing, pairs, which datum is encoded
	c("c07-json-flush-reset-only", "C07.json", enc, "if e.w.Len() > 8*1024 {\n\t\treturn e.flush()\n\t}", "if e.w.Len() > 8*1024 {\n\t\te.w.Reset()\n\t}", "flush: only place")
	c("c07-json-flush-no-reset", "C07.json", enc, "_, err := e.out.Write(e.w.Bytes())\n\te.w.Reset()\n\treturn err", "_, err := e.out.Write(e.w.Bytes())\n\treturn err", "flush: empties")
	c("c07-json-marshal-no-flush", "C07.json", enc, "if ferr := e.flush(); ferr != nil && err == nil {\n\t\terr = ferr\n\t}\n\treturn err", "return err", "Marshal: flushes")
	c("c07-json-pairs-counter", "C07.json", enc, "\t\tkvs[i] = keyVal{k, v}\n\t\ti++\n", "\t\tkvs[i] = keyVal{k, v}\n", "object: pairs")
	c("c07-json-sort-copy", "C07.json", enc, "slices.SortFunc(kvs, func(a, b keyVal) int {", "slices.SortFunc(slices.Clone(kvs), func(a, b keyVal) int {", "object: pairs")
	c("c07-json-encode-key-as-value", "C07.json", enc, "if err := e.encode(kv.val); err != nil {", "if err := e.encode(kv.key); err != nil {", "object: encode:value")
	c("c07-json-comma-ne", "C07.json", enc, "if i > 0 {\n\t\t\te.writeByte(',', e.opts.Colors.Array)", "if i >= 0 {\n\t\t\te.writeByte(',', e.opts.Colors.Array)", "array: emit 44")

	// C07.eval
	c("c07-eval-environ", "C07.eval", interp, "gojq.WithEnvironLoader(ni.OS.Environ)", "gojq.WithEnvironLoader(func() []string { return nil })", "option:WithEnvironLoader:source")
	c("c07-eval-environ-impl", "C07.eval", "pkg/cli/cli.go", "func (*stdOS) Environ() []string { return os.Environ() }", "func (*stdOS) Environ() []string { return nil }", "environ:")
	c("c07-eval-compile-opts", "C07.eval", interp, "gc, err := gojq.Compile(gq, compilerOpts...)", "gc, err := gojq.Compile(gq, funcCompilerOpts...)", "compile:options")
	c("c07-eval-vars-skip-null", "C07.eval", interp, "\tfor k, v := range i.slurps() {\n\t\tvariableNames = append(", "\tfor k, v := range i.slurps() {\n\t\tif v == nil {\n\t\t\tcontinue\n\t\t}\n\t\tvariableNames = append(", "variables:all")
	c("c07-eval-vars-two-loops", "C07.eval", interp, "\tfor k, v := range i.slurps() {\n\t\tvariableNames = append(variableNames, \"$\"+k)\n\t\tvariableValues = append(variableValues, v)\n\t}", "\tfor k := range i.slurps() {\n\t\tvariableNames = append(variableNames, \"$\"+k)\n\t}\n\tfor _, v := range i.slurps() {\n\t\tvariableValues = append(variableValues, v)\n\t}", "variables:paired")

	// C07.tojson
	c("c07-tojson-default-indent", "C07.tojson", jsongo, "func toJSON(_ *interp.Interp, c any, opts ToJSONOpts) any {\n\tcj := makeEncoder(opts)", "func toJSON(_ *interp.Interp, c any, opts ToJSONOpts) any {\n\tif opts.Indent == 0 {\n\t\topts.Indent = 2\n\t}\n\tcj := makeEncoder(opts)", "options.unmodified")
	c("c07-tojson-truncated-input", "C07.tojson", jsongo, "bitio.NewIOReader(d.RawLen(d.Len()))", "bitio.NewIOReader(d.RawLen(d.Len() - 8))", "whole-input")

	// C07.fromjson, C07.haltprint (imported rules), C07.haltstream
	c("c07-fromjson-eof-and", "C07.fromjson", jsongo, "if !lines && (len(vs) != 1 || !foundEOF) {", "if !lines && (len(vs) != 1 && !foundEOF) {", "json:eof")
	c("c07-fromjson-lines-mode", "C07.fromjson", jsongo, "return decodeJSONEx(d, false)", "return decodeJSONEx(d, true)", "json:mode")
	c("c07-haltprint-wrapped", "C07.haltprint", interp, "bs, _ := gojq.Marshal(haltErrV)", "bs, _ := gojq.Marshal([]any{haltErrV})", "halt-print:json")
	c("c07-haltstream-stdout", "C07.haltstream", interp, "if _, err := i.OS.Stderr().Write(bs); err != nil {", "if _, err := i.OS.Stdout().Write(bs); err != nil {", "halt-write")

	// ---- round 4: the query rewrite every program goes through (borrowed rules)
	const evaljq = "pkg/interp/eval.jq"
	c("c07-rewrite-skip-ident", "C07.rewrite", evaljq, "    | if $opts.catch_query then\n", "    | if $opts.catch_query and (_query_is_ident | not) then\n", "stage:missing:try")
	c("c07-rewrite-no-parens", "C07.rewrite", evaljq, "            | _query_query\n", "", "try:paren")
	c("c07-perinput-skip-ident", "C07.perinput", evaljq, "    | if $opts.catch_query then\n", "    | if $opts.catch_query and (_query_is_ident | not) then\n", "rewrite:try-inside-inputs")
	c("c07-perinput-inputs-inside-try", "C07.perinput", evaljq, "_query_pipe($opts.input_query; .)", "_query_pipe(.; $opts.input_query)", "rewrite:try-inside-inputs")
	c("c07-perinput-handler-raises", "C07.perinput", "pkg/interp/init.jq", "  | (_error_str([input_filename // empty]) | printerrln)\n  );", "  | (_error_str([input_filename // empty]) | printerrln)\n  | error\n  );", "on_expr_error:continues")

	// ---- round 5: module loader path rewriting
	c("c07-modpaths-wrong-field", "C07.modpaths", interp, "qi.ImportPath = rewritePath(basePath, qi.ImportPath)", "qi.ImportPath = rewritePath(basePath, qi.IncludePath)", "import:ImportPath")
	c("c07-modpaths-guard", "C07.modpaths", interp, "if qi.ImportPath != \"\" {", "if qi.IncludePath != \"\" {", "import:ImportPath:guard")
	c("c07-modpaths-join-swapped", "C07.modpaths", interp, "return path.Join(base, includePath)", "return path.Join(includePath, base)", ":join")
	c("c07-modpaths-base", "C07.modpaths", interp, "basePath := path.Dir(name)", "basePath := path.Base(name)", ":base")
}
