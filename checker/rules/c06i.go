package rules

import (
	"fmt"
	"go/token"
	"go/types"
	"strings"

	"golang.org/x/tools/go/ssa"

	"fqverif/fw"
)

// ---------------------------------------------------------------------------
// C06.nilres: a pointer result that the callee returns as nil on its failure path is tested before use
//
// decode(), the TryFieldFormat* family and similar helpers return (nil, ..., err) when no format
// matched. The callers (the Field* wrappers, decoders, interp._decode) get a decode error to report only
// if they look at the pointer (or the error) first; dereferencing it is a nil-pointer fault that ends fq.
// Obligation, per call site of an fq function that has `return nil` for a pointer-to-struct result: every
// use that dereferences the result (field access, load, call of a method that does not test its receiver,
// passing it to a function that dereferences the parameter on entry) is dominated by result != nil, or by
// err == nil for the error returned by the same call when every nil return of the callee comes with a
// non-nil error.

var nilResExceptions = map[string]string{}

// c06NilReturns: result indexes of fn (pointer to struct) that are the nil constant on some return, and
// whether every such return carries a non-constant (non-nil) error in the last result.
func c06NilReturns(fn *ssa.Function) (idxs map[int]bool, errContract bool) {
	return c06NilReturnsD(fn, 0)
}

func c06NilReturnsD(fn *ssa.Function, depth int) (idxs map[int]bool, errContract bool) {
	idxs = map[int]bool{}
	if fn == nil || len(fn.Blocks) == 0 {
		return idxs, false
	}
	res := fn.Signature.Results()
	errIdx := -1
	if res.Len() > 0 && types.Identical(res.At(res.Len()-1).Type(), types.Universe.Lookup("error").Type()) {
		errIdx = res.Len() - 1
	}
	errContract = errIdx >= 0
	fw.EachInstr(fn, func(ins ssa.Instruction) {
		ret, ok := ins.(*ssa.Return)
		if !ok {
			return
		}
		for i, rv := range ret.Results {
			pt, isPtr := rv.Type().Underlying().(*types.Pointer)
			if !isPtr {
				continue
			}
			if _, isStruct := pt.Elem().Underlying().(*types.Struct); !isStruct {
				continue
			}
			c, isC := rv.(*ssa.Const)
			if !isC || !c.IsNil() {
				// `return f(...)`: the result is whatever f returns
				if ex, isEx := rv.(*ssa.Extract); isEx && depth < 2 {
					if call, isCall := ex.Tuple.(*ssa.Call); isCall {
						if cal := call.Common().StaticCallee(); cal != nil && fw.InFq(cal) && cal != fn {
							sub, subErr := c06NilReturnsD(cal, depth+1)
							var subErrV ssa.Value
							if call.Referrers() != nil {
								for _, rf := range *call.Referrers() {
									if e2, ok := rf.(*ssa.Extract); ok && e2.Index == cal.Signature.Results().Len()-1 && e2 != ex {
										subErrV = e2
									}
								}
							}
							if sub[ex.Index] && !c06GuardedNonNil(rv, subErrV, subErr, ret.Block()) {
								idxs[i] = true
								// the error forwarded from the same call keeps the contract
								fwdErr := false
								if errIdx >= 0 {
									if ee, ok := ret.Results[errIdx].(*ssa.Extract); ok && ee.Tuple == ex.Tuple && ee.Index == cal.Signature.Results().Len()-1 {
										fwdErr = subErr
									}
								}
								if !fwdErr {
									errContract = false
								}
							}
						}
					}
				}
				continue
			}
			idxs[i] = true
			if errIdx >= 0 {
				if ec, isEC := ret.Results[errIdx].(*ssa.Const); isEC && ec.IsNil() {
					errContract = false
				}
			}
		}
	})
	return idxs, errContract
}

var c06DerefMemo = map[*ssa.Parameter]int{}

// c06DerefsParam: the function never compares parameter par with nil and dereferences it (itself, or by
// handing it to such a function, up to 6 levels).
func c06DerefsParam(par *ssa.Parameter, depth int) bool {
	if v, ok := c06DerefMemo[par]; ok {
		return v == 1
	}
	c06DerefMemo[par] = 0
	fn := par.Parent()
	if fn == nil || len(fn.Blocks) == 0 || par.Referrers() == nil {
		return false
	}
	// the parameter and, when a closure captures it, the loads of the local it is spilled into
	vals := []ssa.Value{par}
	for _, rf := range *par.Referrers() {
		if st, ok := rf.(*ssa.Store); ok && st.Val == ssa.Value(par) {
			if al, ok := st.Addr.(*ssa.Alloc); ok && al.Referrers() != nil {
				for _, r2 := range *al.Referrers() {
					if ld, ok := r2.(*ssa.UnOp); ok && ld.Op == token.MUL && ld.X == ssa.Value(al) {
						vals = append(vals, ld)
					}
				}
			}
		}
	}
	// loop variables initialised with the parameter (phi with the parameter as an incoming value)
	for _, rf := range *par.Referrers() {
		if ph, ok := rf.(*ssa.Phi); ok {
			vals = append(vals, ph)
		}
	}
	// any nil test of the parameter makes the function nil-aware
	for _, v := range vals {
		if v.Referrers() == nil {
			continue
		}
		for _, rf := range *v.Referrers() {
			if bo, ok := rf.(*ssa.BinOp); ok && (bo.Op == token.EQL || bo.Op == token.NEQ) && (isNilConst(bo.X) || isNilConst(bo.Y)) {
				return false
			}
		}
	}
	res := false
	for _, v := range vals {
		if v.Referrers() == nil {
			continue
		}
		for _, rf := range *v.Referrers() {
			switch x := rf.(type) {
			case *ssa.FieldAddr:
				res = res || x.X == v
			case *ssa.UnOp:
				res = res || (x.Op == token.MUL && x.X == v)
			case ssa.CallInstruction:
				if depth < 6 {
					if cal := x.Common().StaticCallee(); cal != nil && fw.InFq(cal) {
						for i, a := range x.Common().Args {
							if a == v && i < len(cal.Params) && c06DerefsParam(cal.Params[i], depth+1) {
								res = true
							}
						}
					}
				}
			}
		}
	}
	if res {
		c06DerefMemo[par] = 1
	}
	return res
}

func c06NilRes(r *fw.Run, p *fw.Program) {
	ru := r.Rule("C06.nilres", "at every call of an fq function that returns the nil constant for a pointer-to-struct result on some path (decode(), TryFieldFormat*, lookups), each dereferencing use of that result in decoder code, pkg/decode and pkg/interp is dominated by a result != nil test, or by err == nil of the same call when the callee's nil returns always carry an error", 300)
	type info struct {
		idxs map[int]bool
		errC bool
	}
	memo := map[*ssa.Function]*info{}
	for _, fn := range p.FqFunctions() {
		pr := pkgRel(fn)
		if !strings.HasPrefix(pr, "format") && pr != "pkg/decode" && pr != "pkg/interp" {
			continue
		}
		if !linkedPackages(p)[fw.FnPkgPath(fn)] {
			continue
		}
		ord := map[string]int{}
		for _, ci := range fw.CallsIn(fn) {
			call, ok := ci.(*ssa.Call)
			if !ok {
				continue
			}
			cal := call.Common().StaticCallee()
			if cal == nil || !fw.InFq(cal) || len(cal.Blocks) == 0 {
				continue
			}
			in := memo[cal]
			if in == nil {
				ix, ec := c06NilReturns(cal)
				in = &info{ix, ec}
				memo[cal] = in
			}
			if len(in.idxs) == 0 || call.Referrers() == nil {
				continue
			}
			// result values
			results := map[int]ssa.Value{}
			if cal.Signature.Results().Len() == 1 {
				results[0] = call
			} else {
				for _, rf := range *call.Referrers() {
					if ex, ok := rf.(*ssa.Extract); ok {
						results[ex.Index] = ex
					}
				}
			}
			errV := results[cal.Signature.Results().Len()-1]
			for i := range in.idxs {
				rv := results[i]
				if rv == nil || rv.Referrers() == nil {
					continue
				}
				var derefs []ssa.Instruction
				for _, use := range *rv.Referrers() {
					switch x := use.(type) {
					case *ssa.FieldAddr:
						if x.X == rv {
							derefs = append(derefs, x)
						}
					case *ssa.UnOp:
						if x.Op == token.MUL && x.X == rv {
							derefs = append(derefs, x)
						}
					case ssa.CallInstruction:
						c2 := x.Common().StaticCallee()
						if c2 == nil || !fw.InFq(c2) {
							continue
						}
						for ai, a := range x.Common().Args {
							if a == rv && ai < len(c2.Params) && c06DerefsParam(c2.Params[ai], 0) {
								derefs = append(derefs, x)
							}
						}
					}
				}
				// the result kept in a local that closures capture (a cell assigned once): every load of
				// the cell, here and in the closures, is the result; a dereference of a load needs a nil
				// test of a load of the same cell (or of the result) before it
				cellBad, cellPos, cellN := c06NilResCell(p, rv, errV, in.errC)
				if len(derefs) == 0 && cellN == 0 {
					continue
				}
				name := fw.ShortFn(cal)
				ord[name]++
				key := fmt.Sprintf("%s|%s#%d|%d", fw.ShortFn(fn), name, i, ord[name])
				bad := ""
				badPos := ""
				for _, use := range derefs {
					guarded := c06GuardedNonNil(rv, errV, in.errC, use.Block())
					if !guarded && bad == "" {
						bad = "result #" + fmt.Sprint(i) + " of " + name + " (nil on its failure path) is dereferenced without a dominating nil test"
						badPos = p.Rel(use.Pos())
					}
				}
				if bad == "" && cellBad != "" {
					bad = "result #" + fmt.Sprint(i) + " of " + name + " (nil on its failure path), kept in a captured local, " + cellBad
					badPos = cellPos
				}
				if bad != "" && c06FieldGetOfOwnField(call) {
					ru.Ok(key, p.Rel(call.Pos()), "FieldGet of a constant name that a dominating Field* call on the same decoder added")
					continue
				}
				if bad == "" {
					ru.Ok(key, p.Rel(call.Pos()), fmt.Sprintf("%d dereferencing uses, all under a nil / error test", len(derefs)))
					continue
				}
				if reason, ok := nilResExceptions[key]; ok {
					ru.Except(key, badPos, reason)
					continue
				}
				ru.Fail(key, badPos, bad+": when no format matches (or the lookup fails) fq dies with a nil pointer dereference instead of reporting the decode error")
			}
		}
	}
}

// c06FieldGetOfOwnField: call is d.FieldGet("name") and a Field* call on the same decoder value with the
// same constant name precedes it on all paths (the field exists, the lookup cannot fail).
func c06FieldGetOfOwnField(call *ssa.Call) bool {
	cal := call.Common().StaticCallee()
	if cal == nil || cal.Name() != "FieldGet" || cal.Signature.Recv() == nil || !isDecodeD(cal.Signature.Recv().Type()) || len(call.Common().Args) < 2 {
		return false
	}
	name, ok := constString(call.Common().Args[1])
	if !ok {
		return false
	}
	d := call.Common().Args[0]
	for _, c := range fw.CallsIn(call.Parent()) {
		c2 := c.Common().StaticCallee()
		if c2 == nil || c2.Signature.Recv() == nil || !isDecodeD(c2.Signature.Recv().Type()) || !strings.HasPrefix(c2.Name(), "Field") || c2.Name() == "FieldGet" {
			continue
		}
		args := c.Common().Args
		if len(args) < 2 || args[0] != d {
			continue
		}
		if n2, ok := constString(args[1]); ok && n2 == name && precedesOnAllPaths(c, call) {
			return true
		}
	}
	return false
}

// c06GuardedNonNil: at block b the guards establish rv != nil, or (when the callee's nil returns always
// carry an error) errV == nil.
func c06GuardedNonNil(rv, errV ssa.Value, errContract bool, b *ssa.BasicBlock) bool {
	for _, g := range c06Guards(b) {
		g = g.Normalize()
		bo, ok := g.Cond.(*ssa.BinOp)
		if !ok || (bo.Op != token.EQL && bo.Op != token.NEQ) {
			continue
		}
		var other ssa.Value
		if isNilConst(bo.Y) {
			other = bo.X
		} else if isNilConst(bo.X) {
			other = bo.Y
		} else {
			continue
		}
		nonNil := (bo.Op == token.NEQ) == g.True
		if other == rv && nonNil {
			return true
		}
		if errContract && errV != nil && other == errV && !nonNil && errV != rv {
			return true
		}
	}
	return false
}

// c06NilResCell: rv is stored into a local cell (an Alloc, because closures capture the variable) that
// has no other store in the function or in the closures capturing it. Returns a description of the
// first unguarded dereference of a load of the cell (in the function or in a closure), its position,
// and the number of dereferencing loads found.
func c06NilResCell(p *fw.Program, rv, errV ssa.Value, errContract bool) (bad, pos string, n int) {
	var cell *ssa.Alloc
	for _, rf := range *rv.Referrers() {
		if st, ok := rf.(*ssa.Store); ok && st.Val == rv {
			if al, ok := st.Addr.(*ssa.Alloc); ok {
				cell = al
			}
		}
	}
	if cell == nil || cell.Referrers() == nil {
		return "", "", 0
	}
	// the cell and the free variables it is bound to in closures
	cells := []ssa.Value{cell}
	for _, rf := range *cell.Referrers() {
		if mc, ok := rf.(*ssa.MakeClosure); ok {
			f, _ := mc.Fn.(*ssa.Function)
			if f == nil {
				return "", "", 0
			}
			for bi, b := range mc.Bindings {
				if b == ssa.Value(cell) && bi < len(f.FreeVars) {
					cells = append(cells, f.FreeVars[bi])
				}
			}
		}
	}
	stores := 0
	loads := map[ssa.Value]bool{}
	for _, c := range cells {
		if c.Referrers() == nil {
			continue
		}
		for _, rf := range *c.Referrers() {
			switch x := rf.(type) {
			case *ssa.Store:
				if x.Addr == c {
					stores++
				} else {
					return "", "", 0 // the cell's address escapes
				}
			case *ssa.UnOp:
				if x.Op == token.MUL && x.X == c {
					loads[x] = true
				}
			case *ssa.MakeClosure, *ssa.DebugRef:
			default:
				return "", "", 0
			}
		}
	}
	if stores != 1 {
		return "", "", 0
	}
	guarded := func(b *ssa.BasicBlock) bool {
		for _, g := range c06Guards(b) {
			g = g.Normalize()
			bo, ok := g.Cond.(*ssa.BinOp)
			if !ok || (bo.Op != token.EQL && bo.Op != token.NEQ) {
				continue
			}
			var other ssa.Value
			if isNilConst(bo.Y) {
				other = bo.X
			} else if isNilConst(bo.X) {
				other = bo.Y
			} else {
				continue
			}
			if (loads[other] || other == rv) && (bo.Op == token.NEQ) == g.True {
				return true
			}
			if errContract && errV != nil && other == errV && errV != rv && (bo.Op == token.EQL) == g.True {
				return true
			}
		}
		return false
	}
	for ld := range loads {
		if ld.Referrers() == nil {
			continue
		}
		for _, use := range *ld.Referrers() {
			deref := false
			switch x := use.(type) {
			case *ssa.FieldAddr:
				deref = x.X == ld
			case *ssa.UnOp:
				deref = x.Op == token.MUL && x.X == ld
			}
			if !deref {
				continue
			}
			n++
			if !guarded(use.Block()) {
				// a closure created only under the test inherits it
				if fn := use.Parent(); fn != nil && fn.Parent() != nil {
					ok := false
					for _, rf := range *cell.Referrers() {
						if mc, isMC := rf.(*ssa.MakeClosure); isMC && mc.Fn == ssa.Value(fn) && guarded(mc.Block()) {
							ok = true
						}
					}
					if ok {
						continue
					}
				}
				if bad == "" || p.Rel(use.Pos()) < pos {
					bad = "is dereferenced without a dominating nil test"
					pos = p.Rel(use.Pos())
				}
			}
		}
	}
	return bad, pos, n
}
