package rules

import (
	"fmt"
	"go/ast"
	"go/token"
	"go/types"
	"os"
	"regexp"
	"strconv"
	"strings"

	"golang.org/x/tools/go/ssa"

	"fqverif/fw"
)

// ---------------------------------------------------------------------------
// reader result intervals

var readerWidthRe = regexp.MustCompile(`^(Try)?(Field)?(U|S)(\d+)(LE|BE)?$`)
var readerVarRe = regexp.MustCompile(`^(Try)?(Field)?(U|S)(LE|BE|E)?$`)

func isDecodeD(t types.Type) bool {
	return strings.HasSuffix(types.TypeString(t, nil), "pkg/decode.D")
}

// readerCallRange gives the interval of the integer result of a decode.D reader call from its width.
func readerCallRange(c *ssa.Call, idx int) (fw.Interval, bool) {
	callee := c.Common().StaticCallee()
	if callee == nil || callee.Signature.Recv() == nil || !isDecodeD(callee.Signature.Recv().Type()) || idx != 0 {
		return fw.Interval{}, false
	}
	name := callee.Name()
	if m := readerWidthRe.FindStringSubmatch(name); m != nil {
		n, _ := strconv.Atoi(m[4])
		return widthRange(m[3] == "S", n)
	}
	if m := readerVarRe.FindStringSubmatch(name); m != nil {
		// U(nBits) / FieldU(name, nBits)
		args := c.Common().Args
		for _, a := range args[1:] {
			if k, ok := a.(*ssa.Const); ok && k.Value != nil && isIntT(k.Type()) {
				return widthRange(m[3] == "S", int(k.Int64()))
			}
		}
	}
	return fw.Interval{}, false
}

func widthRange(signed bool, n int) (fw.Interval, bool) {
	if n <= 0 || n >= 63 {
		if !signed && n >= 63 {
			return fw.AtLeast(0), true
		}
		return fw.Interval{}, false
	}
	if signed {
		return fw.Range(-(int64(1) << uint(n-1)), int64(1)<<uint(n-1)-1), true
	}
	return fw.Range(0, int64(1)<<uint(n)-1), true
}

// isReaderCall reports whether c is a call of a numeric decode.D reader.
func isReaderCall(c *ssa.Call) bool {
	callee := c.Common().StaticCallee()
	if callee == nil || callee.Signature.Recv() == nil || !isDecodeD(callee.Signature.Recv().Type()) {
		return false
	}
	n := callee.Name()
	return readerWidthRe.MatchString(n) || readerVarRe.MatchString(n) || regexp.MustCompile(`^(Try)?(Field)?(U|S)LEB128$|^(Field)?(Uint|Sint)Fn$|^(Field)?Unary$`).MatchString(n)
}

// ---------------------------------------------------------------------------
// C06.table

// tableLen returns the constant length of a package-level slice/array variable initialised with a literal.
func tableLen(p *fw.Program, g *ssa.Global) (int64, bool) {
	pt, ok := g.Type().Underlying().(*types.Pointer)
	if !ok {
		return 0, false
	}
	switch t := pt.Elem().Underlying().(type) {
	case *types.Array:
		return t.Len(), true
	case *types.Slice:
		// find the initialising store in the package initialiser: *g = slice(alloc [N]T)
		init := g.Pkg.Func("init")
		if init == nil {
			return 0, false
		}
		var n int64 = -1
		cnt := 0
		fw.EachInstr(init, func(ins ssa.Instruction) {
			st, ok := ins.(*ssa.Store)
			if !ok || st.Addr != ssa.Value(g) {
				return
			}
			cnt++
			if sl, ok := st.Val.(*ssa.Slice); ok && sl.Low == nil && sl.High == nil {
				if apt, ok := sl.X.Type().Underlying().(*types.Pointer); ok {
					if at, ok := apt.Elem().Underlying().(*types.Array); ok {
						n = at.Len()
					}
				}
			}
		})
		if cnt == 1 && n >= 0 {
			return n, true
		}
	}
	return 0, false
}

func c06Table(r *fw.Run, p *fw.Program, reach map[*ssa.Function]bool) {
	ru := r.Rule("C06.table", "an index into a package-level constant-length table by a value whose range is known from reader widths / masks stays below the table length, or is dominated by a bounds test whose failing arm does not continue", 3)
	nSites := 0
	for _, fn := range p.FqFunctions() {
		if !reach[fn] || !strings.HasPrefix(pkgRel(fn), "format") {
			continue
		}
		var env *fw.IntervalEnv
		ord := map[string]int{}
		fw.EachInstr(fn, func(ins ssa.Instruction) {
			var xs, idx ssa.Value
			switch y := ins.(type) {
			case *ssa.Index:
				xs, idx = y.X, y.Index
			case *ssa.IndexAddr:
				xs, idx = y.X, y.Index
			default:
				return
			}
			// container is a load of (or the address of) a package-level table
			var g *ssa.Global
			switch x := xs.(type) {
			case *ssa.UnOp:
				g, _ = x.X.(*ssa.Global)
			case *ssa.Global:
				g = x
			}
			if g == nil || !strings.HasPrefix(g.Pkg.Pkg.Path(), fw.Mod) {
				return
			}
			n, ok := tableLen(p, g)
			if !ok {
				return
			}
			nSites++
			if k, isC := idx.(*ssa.Const); isC && k.Value != nil {
				if k.Int64() >= n || k.Int64() < 0 {
					ru.Fail(fmt.Sprintf("%s|%s|const", fw.ShortFn(fn), g.Name()), p.Rel(ins.Pos()), fmt.Sprintf("constant index %d outside table %s of length %d", k.Int64(), g.Name(), n))
				}
				return
			}
			if env == nil {
				env = fw.NewIntervalEnv(fn)
				env.CallRange = readerCallRange
			}
			env.AtomConst = map[string]int64{"len(" + g.Pkg.Pkg.Name() + "." + g.Name() + ")": n}
			iv := env.At(idx, ins.Block())
			if iv.HiInf && iv.LoInf {
				if os.Getenv("C06_EXPLORE") != "" {
					fmt.Printf("EXPLORE table-index unknown range: %s %s[%s] len %d at %s\n", fw.ShortFn(fn), g.Name(), env.Poly.Of(idx).String(), n, p.Rel(ins.Pos()))
				}
				return // range unknown: not this rule's class
			}
			ord[g.Name()]++
			key := fmt.Sprintf("%s|%s|%d", fw.ShortFn(fn), g.Name(), ord[g.Name()])
			okHi := !iv.HiInf && iv.Hi < n
			okLo := !iv.LoInf && iv.Lo >= 0
			if iv.HiInf {
				// lower bound known only: cannot decide the upper bound; not this rule's class
				if okLo {
					if os.Getenv("C06_EXPLORE") != "" {
						fmt.Printf("EXPLORE table-index no upper bound: %s %s[%s] len %d at %s\n", fw.ShortFn(fn), g.Name(), env.Poly.Of(idx).String(), n, p.Rel(ins.Pos()))
					}
					return
				}
			}
			if okHi && okLo {
				ru.Ok(key, p.Rel(ins.Pos()), fmt.Sprintf("index in [%d,%d] < len %d", iv.Lo, iv.Hi, n))
				return
			}
			ru.Fail(key, p.Rel(ins.Pos()), fmt.Sprintf("index into table %s (length %d) by a value in [%s,%s]: an input can select an entry past the end (index out of range kills fq)", g.Name(), n, loStr(iv), hiStr(iv)))
		})
	}
	ru.Ok("scan", "", fmt.Sprintf("%d indexed accesses of package-level constant-length tables in decoder code examined", nSites))
	r.Notes["C06.table.sites"] = nSites
}

func loStr(iv fw.Interval) string {
	if iv.LoInf {
		return "-inf"
	}
	return fmt.Sprint(iv.Lo)
}

// ---------------------------------------------------------------------------
// C06.idx: reader-derived index / slice bound / make length that is never validated

// derivedFromReader: v is (through conversions and arithmetic with constants, phis, locals) the result of a reader call.
func derivedFromReader(v ssa.Value, depth int, seen map[ssa.Value]bool) *ssa.Call {
	if depth > 8 || seen[v] {
		return nil
	}
	seen[v] = true
	switch x := v.(type) {
	case *ssa.Convert:
		return derivedFromReader(x.X, depth+1, seen)
	case *ssa.ChangeType:
		return derivedFromReader(x.X, depth+1, seen)
	case *ssa.BinOp:
		switch x.Op {
		case token.ADD, token.SUB, token.MUL, token.SHL:
			if _, ok := x.Y.(*ssa.Const); ok {
				return derivedFromReader(x.X, depth+1, seen)
			}
			if _, ok := x.X.(*ssa.Const); ok {
				return derivedFromReader(x.Y, depth+1, seen)
			}
		}
	case *ssa.Call:
		if isReaderCall(x) {
			return x
		}
	case *ssa.Extract:
		if c, ok := x.Tuple.(*ssa.Call); ok && x.Index == 0 && isReaderCall(c) {
			return c
		}
	case *ssa.Phi:
		var c *ssa.Call
		for _, e := range x.Edges {
			if _, ok := e.(*ssa.Const); ok {
				continue
			}
			cc := derivedFromReader(e, depth+1, seen)
			if cc == nil {
				return nil
			}
			c = cc
		}
		return c
	case *ssa.UnOp:
		if x.Op != token.MUL {
			return nil
		}
		addr := x.X
		if fv, ok := addr.(*ssa.FreeVar); ok {
			vals, _ := freeVarBindings(fv.Parent(), fv)
			if len(vals) == 1 {
				addr = vals[0]
			}
		}
		if a, ok := addr.(*ssa.Alloc); ok && a.Referrers() != nil {
			var c *ssa.Call
			n := 0
			visit := func(st *ssa.Store) bool {
				if _, ok := st.Val.(*ssa.Const); ok {
					return true
				}
				cc := derivedFromReader(st.Val, depth+1, seen)
				if cc == nil {
					return false
				}
				c = cc
				n++
				return true
			}
			for _, r := range *a.Referrers() {
				switch y := r.(type) {
				case *ssa.Store:
					if y.Addr == ssa.Value(a) && !visit(y) {
						return nil
					}
				case *ssa.MakeClosure:
					for i, b := range y.Bindings {
						if b != ssa.Value(a) {
							continue
						}
						fvv := y.Fn.(*ssa.Function).FreeVars[i]
						if fvv.Referrers() == nil {
							continue
						}
						for _, rr := range *fvv.Referrers() {
							if st, ok := rr.(*ssa.Store); ok && st.Addr == ssa.Value(fvv) && !visit(st) {
								return nil
							}
						}
					}
				}
			}
			if n >= 1 {
				return c
			}
		}
	}
	return nil
}

func valueSources(v ssa.Value, out map[ssa.Value]bool, depth int) {
	if depth > 8 || out[v] {
		return
	}
	out[v] = true
	switch x := v.(type) {
	case *ssa.Convert:
		valueSources(x.X, out, depth+1)
	case *ssa.ChangeType:
		valueSources(x.X, out, depth+1)
	case *ssa.BinOp:
		valueSources(x.X, out, depth+1)
		valueSources(x.Y, out, depth+1)
	case *ssa.Phi:
		for _, e := range x.Edges {
			valueSources(e, out, depth+1)
		}
	case *ssa.UnOp:
		if x.Op == token.MUL {
			// loads of the same local: treat the address as the source
			out[x.X] = true
		}
	}
}

var idxExceptions = map[string]string{
	"format/jpeg.jpegDecode$1$1$5$2|make len|1": "allocation size from a 32-bit count (extended XMP full_length): non-negative on 64-bit int; the later copy offset is validated against it",
}

func c06Idx(r *fw.Run, p *fw.Program, reach map[*ssa.Function]bool) {
	ru := r.Rule("C06.idx", "an index, slice bound or make length that derives directly from a decode reader result is validated in the function (comparison, min/max, or a read of that many bits/bytes that precedes the use on all paths) before it is used on a container of non-constant length", 4)
	nSites := 0
	for _, fn := range p.FqFunctions() {
		if !strings.HasPrefix(pkgRel(fn), "format") {
			continue
		}
		// values that are compared / clamped / used as a validating read length anywhere in the function (incl. enclosing functions)
		compared := map[ssa.Value]bool{}
		readValidated := map[ssa.Value][]ssa.Instruction{}
		for f := fn; f != nil; f = f.Parent() {
			fw.EachInstr(f, func(ins ssa.Instruction) {
				switch x := ins.(type) {
				case *ssa.BinOp:
					switch x.Op {
					case token.LSS, token.LEQ, token.GTR, token.GEQ, token.EQL, token.NEQ:
						valueSources(x.X, compared, 0)
						valueSources(x.Y, compared, 0)
					}
				case *ssa.Call:
					cc := x.Common()
					if b, ok := cc.Value.(*ssa.Builtin); ok && (b.Name() == "min" || b.Name() == "max") {
						for _, a := range cc.Args {
							valueSources(a, compared, 0)
						}
					}
					if callee := cc.StaticCallee(); callee != nil && callee.Signature.Recv() != nil && isDecodeD(callee.Signature.Recv().Type()) {
						switch callee.Name() {
						case "FieldRawLen", "RawLen", "BytesLen", "FramedFn", "FieldUTF8", "FieldFormatLen", "LimitedFn", "SeekRel":
							// a read of that many bits/bytes validates the count (negative / past the end is a
							// recoverable error) - for what comes after it
							for _, a := range cc.Args[1:] {
								if isIntT(a.Type()) {
									tmp := map[ssa.Value]bool{}
									valueSources(a, tmp, 0)
									for s := range tmp {
										readValidated[s] = append(readValidated[s], x)
									}
								}
							}
						}
					}
				}
			})
		}
		ord := map[string]int{}
		check := func(ins ssa.Instruction, what string, v ssa.Value, cont ssa.Value) {
			if v == nil {
				return
			}
			if _, ok := v.(*ssa.Const); ok {
				return
			}
			if _, ok := cont.Type().Underlying().(*types.Map); ok {
				return
			}
			c := derivedFromReader(v, 0, map[ssa.Value]bool{})
			if c == nil {
				return
			}
			nSites++
			ord[what]++
			key := fmt.Sprintf("%s|%s|%d", fw.ShortFn(fn), what, ord[what])
			srcs := map[ssa.Value]bool{}
			valueSources(v, srcs, 0)
			// a signed operand whose reader can deliver a value that is negative after conversion (signed reader,
			// 64-bit unsigned reader, LEB128, custom reader function) must also be proved >= 0 where it is used:
			// an upper-bound test alone lets the wrapped value through
			needLo := false
			if !isUnsignedT(v.Type()) {
				if rng, ok := readerCallRange(c, 0); !ok || !rng.NonNeg() || rng.HiInf {
					needLo = true
				}
			}
			for s := range srcs {
				if compared[s] {
					if needLo {
						lenv := fw.NewIntervalEnv(fn)
						lenv.CallRange = readerCallRange
						if !c06ProvedNonNeg(lenv, v, ins.Block()) {
							if reason, ok := idxExceptions[key]; ok {
								ru.Except(key, p.Rel(ins.Pos()), reason)
								return
							}
							ru.Fail(key, p.Rel(ins.Pos()), fmt.Sprintf("%s by the result of %s() converted to a signed integer: the operand is compared in the function but not proved >= 0 where it is used, so a value that is negative after the conversion (2^63 and above, or a negative signed read) passes an upper-bound test and faults (slice bounds / index out of range, makeslice: len out of range)", what, c.Common().StaticCallee().Name()))
							return
						}
					}
					if what == "index" || what == "slice low" || what == "slice high" {
						penv := c06NewPolyEnv(fn)
						rel := fw.LE
						if what == "index" {
							rel = fw.LT
						}
						if !c06ProvedInside(penv, cont, v, rel, ins.Block()) {
							if reason, ok := idxExceptions[key]; ok {
								ru.Except(key, p.Rel(ins.Pos()), reason)
								return
							}
							ru.Fail(key, p.Rel(ins.Pos()), fmt.Sprintf("%s by the result of %s(): the operand is compared in the function, but no dominating test whose failing arm stops relates it to the length of the container it is used on (wrong length, or a test that does not stop the decode)", what, c.Common().StaticCallee().Name()))
							return
						}
					}
					ru.Ok(key, p.Rel(ins.Pos()), "operand validated in the function")
					return
				}
				for _, v := range readValidated[s] {
					if v.Parent() != fn || precedesOnAllPaths(v, ins) {
						ru.Ok(key, p.Rel(ins.Pos()), "a read of that many bits precedes the use")
						return
					}
				}
			}
			// interval proof (index into fixed table etc.)
			env := fw.NewIntervalEnv(fn)
			env.CallRange = readerCallRange
			if what == "index" {
				if n, ok := containerConstLen(cont); ok {
					if iv := env.At(v, ins.Block()); !iv.HiInf && iv.Hi < n && iv.NonNeg() {
						ru.Ok(key, p.Rel(ins.Pos()), "index range below constant container length")
						return
					}
				}
			}
			if reason, ok := idxExceptions[key]; ok {
				ru.Except(key, p.Rel(ins.Pos()), reason)
				return
			}
			ru.Fail(key, p.Rel(ins.Pos()), fmt.Sprintf("%s by the result of %s() that is never validated in the function: an input controls an out-of-range/negative value (runtime fault kills fq)", what, c.Common().StaticCallee().Name()))
		}
		fw.EachInstr(fn, func(ins ssa.Instruction) {
			switch x := ins.(type) {
			case *ssa.IndexAddr:
				check(x, "index", x.Index, x.X)
			case *ssa.Index:
				check(x, "index", x.Index, x.X)
			case *ssa.Slice:
				check(x, "slice low", x.Low, x.X)
				check(x, "slice high", x.High, x.X)
			case *ssa.MakeSlice:
				check(x, "make len", x.Len, x)
			}
		})
	}
	ru.Ok("scan", "", fmt.Sprintf("%d reader-derived index/slice/make operands in decoder code examined", nSites))
	r.Notes["C06.idx.sites"] = nSites
}

func containerConstLen(v ssa.Value) (int64, bool) {
	t := v.Type()
	if pt, ok := t.Underlying().(*types.Pointer); ok {
		t = pt.Elem()
	}
	if at, ok := t.Underlying().(*types.Array); ok {
		return at.Len(), true
	}
	return 0, false
}

// ---------------------------------------------------------------------------
// C06.force: guards of fault sites must not fail through d.Errorf (which continues under --force)

func c06Force(r *fw.Run, p *fw.Program) {
	ru := r.Rule("C06.force", "a validity test whose failing arm is d.Errorf (a no-op under force) does not guard a shift, index, slice bound, make size or division on the tested value: such guards must fail through d.Fatalf", 1)
	errorf := p.Fn("(*pkg/decode.D).Errorf")
	if errorf == nil {
		ru.Undecided("anchor", "", "(*decode.D).Errorf not found")
		return
	}
	nGuards := 0
	for _, fn := range p.FqFunctions() {
		if !strings.HasPrefix(pkgRel(fn), "format") && pkgRel(fn) != "pkg/decode" {
			continue
		}
		ord := 0
		for _, b := range fn.Blocks {
			ifi, ok := b.Instrs[len(b.Instrs)-1].(*ssa.If)
			if !ok {
				continue
			}
			// an arm that only calls Errorf and falls through
			for ai, arm := range b.Succs {
				if len(arm.Preds) != 1 || !armIsErrorfOnly(arm, errorf) {
					continue
				}
				nGuards++
				bo, ok := ifi.Cond.(*ssa.BinOp)
				if !ok {
					continue
				}
				tested := map[ssa.Value]bool{}
				valueSources(bo.X, tested, 0)
				valueSources(bo.Y, tested, 0)
				_ = ai
				relationalGuard := bo.Op == token.LSS || bo.Op == token.LEQ || bo.Op == token.GTR || bo.Op == token.GEQ
				// fault sites after the join that use a tested value
				for _, nb := range fn.Blocks {
					if nb == arm || !b.Dominates(nb) || nb == b {
						continue
					}
					for _, ins := range nb.Instrs {
						// a closure created under the test: its body runs with the rejected value too. Accesses in it to
						// the container whose length the test is about need their own real guard.
						if mc, isMC := ins.(*ssa.MakeClosure); isMC && relationalGuard {
							lenPaths := map[string]bool{}
							for v := range tested {
								if call, ok := v.(*ssa.Call); ok && fw.IsBuiltinCall(call, "len") {
									if ap, ok := fw.AccessPath(call.Common().Args[0]); ok {
										lenPaths[strings.TrimPrefix(ap, "local:")] = true
									}
								}
							}
							if len(lenPaths) > 0 {
								for _, cf := range fw.WithClosures(mc.Fn.(*ssa.Function)) {
									var penv *fw.PolyEnv
									fw.EachInstr(cf, func(ci ssa.Instruction) {
										var cont, idx ssa.Value
										switch y := ci.(type) {
										case *ssa.IndexAddr:
											cont, idx = y.X, y.Index
										case *ssa.Index:
											cont, idx = y.X, y.Index
										default:
											return
										}
										if _, isC := idx.(*ssa.Const); isC {
											return
										}
										ap, ok := fw.AccessPath(cont)
										if !ok || !lenPaths[strings.TrimPrefix(ap, "local:")] {
											return
										}
										if penv == nil {
											penv = c06NewPolyEnv(cf)
										}
										la, _ := c06LenAtom(penv, cont)
										if c06ProvedInside(penv, cont, idx, fw.LT, ci.Block()) || c06CounterBelow(penv, idx, la) || c06RangeIndexOf(idx, cont) {
											return
										}
										ord++
										key := fmt.Sprintf("%s|index in %s|%d", fw.ShortFn(fn), fw.ShortFn(cf), ord)
										ru.Fail(key, p.Rel(ci.Pos()), fmt.Sprintf("index into %s in a closure created under a length test of %s that fails through d.Errorf (%s), which returns under --force: the access runs with the rejected length", ap, ap, p.Rel(ifi.Pos())))
									})
								}
							}
						}
						// the tested value handed to a callee that uses the parameter at a fault site without its own proof
						if ci, isCall := ins.(ssa.CallInstruction); isCall && relationalGuard {
							for _, callee := range resolveLocalCallees(ci, fn) {
								args := ci.Common().Args
								off := 0
								if len(callee.Params) == len(args)+1 {
									off = 1 // bound receiver
								}
								for ai2, a := range args {
									if _, isC := a.(*ssa.Const); isC {
										continue
									}
									srcs := map[ssa.Value]bool{}
									valueSources(a, srcs, 0)
									hit := false
									for s := range srcs {
										if _, isC := s.(*ssa.Const); !isC && tested[s] {
											hit = true
										}
									}
									if !hit || ai2+off >= len(callee.Params) {
										continue
									}
									// already proved at the call site by a real guard?
									envc := fw.NewIntervalEnv(fn)
									envc.CallRange = readerCallRange
									if what2 := paramFaultUse(callee, callee.Params[ai2+off]); what2 != "" {
										if (what2 == "shift count" || what2 == "make size") && envc.ProvedNonNeg(a, nb) {
											continue
										}
										ord++
										key := fmt.Sprintf("%s|%s via %s|%d", fw.ShortFn(fn), what2, fw.ShortFn(callee), ord)
										ru.Fail(key, p.Rel(ins.Pos()), fmt.Sprintf("value passed to %s, where it is used as %s, is only protected by a test that fails through d.Errorf (%s), which returns under --force", fw.ShortFn(callee), what2, p.Rel(bo.Pos())))
									}
								}
							}
						}
						var operands []ssa.Value
						var container ssa.Value
						what := ""
						switch x := ins.(type) {
						case *ssa.BinOp:
							switch x.Op {
							case token.SHL, token.SHR:
								if !isUnsignedT(x.Y.Type()) {
									operands, what = []ssa.Value{x.Y}, "shift count"
								}
							case token.QUO, token.REM:
								if isIntT(x.Type()) {
									operands, what = []ssa.Value{x.Y}, "divisor"
								}
							}
						case *ssa.IndexAddr:
							operands, what, container = []ssa.Value{x.Index}, "index", x.X
						case *ssa.Index:
							if _, isMap := x.X.Type().Underlying().(*types.Map); !isMap {
								operands, what, container = []ssa.Value{x.Index}, "index", x.X
							}
						case *ssa.Slice:
							operands, what, container = []ssa.Value{x.Low, x.High}, "slice bound", x.X
						case *ssa.MakeSlice:
							operands, what = []ssa.Value{x.Len}, "make size"
						}
						for _, o := range operands {
							if o == nil {
								continue
							}
							if _, isC := o.(*ssa.Const); isC {
								continue
							}
							srcs := map[ssa.Value]bool{}
							valueSources(o, srcs, 0)
							hit := false
							for s := range srcs {
								if _, isC := s.(*ssa.Const); isC {
									continue
								}
								if tested[s] {
									hit = true
								}
							}
							if !hit && container != nil && (what == "index" || what == "slice bound") && c06TestsLenOf(tested, container) {
								// the Errorf test is about the length of the very container indexed here (`if len(x) < n
								// { d.Errorf }` before a loop over n): it protects the access unless a real guard does
								switch container.Type().Underlying().(type) {
								case *types.Slice, *types.Basic:
									penv := c06NewPolyEnv(fn)
									rel := fw.LT
									if what != "index" {
										rel = fw.LE
									}
									inside := c06ProvedInside(penv, container, o, rel, nb)
									if !inside && what == "index" {
										if _, isPhi := stripIntConv(o).(*ssa.Phi); isPhi {
											la, _ := c06LenAtom(penv, container)
											inside = c06CounterBelow(penv, o, la)
										}
									}
									if !inside && c06RangeIndexOf(o, container) {
										inside = true
									}
									hit = !inside
								}
							}
							if !hit {
								continue
							}
							// only a bounds/sign test can be what protects an index, slice bound, size or shift
							relational := bo.Op == token.LSS || bo.Op == token.LEQ || bo.Op == token.GTR || bo.Op == token.GEQ
							if what != "divisor" && !relational {
								continue
							}
							// is the operand otherwise proved by a real (no-return) guard?
							env := fw.NewIntervalEnv(fn)
							env.CallRange = readerCallRange
							if what == "shift count" || what == "make size" {
								if env.ProvedNonNeg(o, nb) {
									continue
								}
							}
							if what == "divisor" && env.ProvedNonZero(o, nb) {
								continue
							}
							ord++
							key := fmt.Sprintf("%s|%s|%d", fw.ShortFn(fn), what, ord)
							ru.Fail(key, p.Rel(ins.Pos()), fmt.Sprintf("%s is only protected by a test that fails through d.Errorf (%s), which returns under --force: the runtime fault is reachable with -o force=true", what, p.Rel(ifi.Pos())))
						}
					}
				}
			}
		}
	}
	ru.Ok("scan", "", fmt.Sprintf("%d tests whose failing arm is only d.Errorf examined", nGuards))
	r.Notes["C06.force.errorf_guards"] = nGuards
}

func armIsErrorfOnly(arm *ssa.BasicBlock, errorf *ssa.Function) bool {
	has := false
	for _, ins := range arm.Instrs {
		switch x := ins.(type) {
		case *ssa.Call:
			if x.Common().StaticCallee() == errorf {
				has = true
			} else if fw.CurrentNR != nil && fw.CurrentNR.Is(x.Common().StaticCallee()) {
				return false
			}
		case *ssa.Panic, *ssa.Return:
			return false
		}
	}
	if _, ok := arm.Instrs[len(arm.Instrs)-1].(*ssa.Jump); !ok {
		return false
	}
	return has
}

// ---------------------------------------------------------------------------
// C06.outtype: the format out-value contract

type fmtReg struct {
	own    types.Object   // the format's own group variable (format.X)
	groups []types.Object // additional groups
	decode types.Object   // DecodeFn function object
	deps   []fmtDep
	pos    token.Pos
}

type fmtDep struct {
	groups []types.Object
	out    types.Object
}

// collectFormatRegs parses every interp.RegisterFormat(G, &decode.Format{...}) call.
func collectFormatRegs(p *fw.Program) []fmtReg {
	var regs []fmtReg
	for _, pk := range p.Roots {
		info := pk.TypesInfo
		for _, f := range pk.Syntax {
			ast.Inspect(f, func(n ast.Node) bool {
				call, ok := n.(*ast.CallExpr)
				if !ok || len(call.Args) != 2 {
					return true
				}
				sel, ok := call.Fun.(*ast.SelectorExpr)
				if !ok || sel.Sel.Name != "RegisterFormat" {
					return true
				}
				if o := info.Uses[sel.Sel]; o == nil || o.Pkg() == nil || o.Pkg().Path() != fw.Mod+"/pkg/interp" {
					return true
				}
				reg := fmtReg{pos: call.Pos(), own: exprObj(info, call.Args[0])}
				lit := compositeOf(call.Args[1])
				if lit == nil {
					return true
				}
				for _, el := range lit.Elts {
					kv, ok := el.(*ast.KeyValueExpr)
					if !ok {
						continue
					}
					k, _ := kv.Key.(*ast.Ident)
					if k == nil {
						continue
					}
					switch k.Name {
					case "DecodeFn":
						reg.decode = exprObj(info, kv.Value)
					case "Groups":
						if cl := compositeOf(kv.Value); cl != nil {
							for _, g := range cl.Elts {
								reg.groups = append(reg.groups, exprObj(info, g))
							}
						}
					case "Dependencies":
						if cl := compositeOf(kv.Value); cl != nil {
							for _, d := range cl.Elts {
								dl := compositeOf(d)
								if dl == nil {
									continue
								}
								var dep fmtDep
								for _, de := range dl.Elts {
									dkv, ok := de.(*ast.KeyValueExpr)
									if !ok {
										continue
									}
									dk, _ := dkv.Key.(*ast.Ident)
									if dk == nil {
										continue
									}
									switch dk.Name {
									case "Groups":
										if gl := compositeOf(dkv.Value); gl != nil {
											for _, g := range gl.Elts {
												dep.groups = append(dep.groups, exprObj(info, g))
											}
										}
									case "Out":
										dep.out = exprObj(info, dkv.Value)
									}
								}
								reg.deps = append(reg.deps, dep)
							}
						}
					}
				}
				regs = append(regs, reg)
				return true
			})
		}
	}
	return regs
}

func compositeOf(e ast.Expr) *ast.CompositeLit {
	for {
		switch x := e.(type) {
		case *ast.UnaryExpr:
			e = x.X
		case *ast.ParenExpr:
			e = x.X
		case *ast.CompositeLit:
			return x
		default:
			return nil
		}
	}
}

func exprObj(info *types.Info, e ast.Expr) types.Object {
	for {
		switch x := e.(type) {
		case *ast.UnaryExpr:
			e = x.X
		case *ast.ParenExpr:
			e = x.X
		case *ast.Ident:
			return info.Uses[x]
		case *ast.SelectorExpr:
			return info.Uses[x.Sel]
		default:
			return nil
		}
	}
}

func c06OutType(r *fw.Run, p *fw.Program) {
	ru := r.Rule("C06.outtype", "for every site that asserts the out value of a sub-format decode to a format.*Out type (and panics otherwise), every format registered into the dependency's groups returns exactly that type on every return path of its DecodeFn", 15)
	regs := collectFormatRegs(p)
	r.Notes["formats_registered"] = len(regs)
	if len(regs) < 100 {
		ru.Undecided("registrations", "", fmt.Sprintf("only %d RegisterFormat calls parsed", len(regs)))
		return
	}
	members := map[types.Object][]fmtReg{}
	outVar := map[types.Object][]types.Object{} // out group var -> source groups
	for _, rg := range regs {
		if rg.own != nil {
			members[rg.own] = append(members[rg.own], rg)
		}
		for _, g := range rg.groups {
			if g != nil {
				members[g] = append(members[g], rg)
			}
		}
		for _, d := range rg.deps {
			if d.out != nil {
				outVar[d.out] = append(outVar[d.out], d.groups...)
			}
		}
	}
	for _, fn := range p.FqFunctions() {
		if !strings.HasPrefix(pkgRel(fn), "format") {
			continue
		}
		ord := 0
		fw.EachInstr(fn, func(ins ssa.Instruction) {
			pn, ok := ins.(*ssa.Panic)
			if !ok {
				return
			}
			// failed comma-ok assertion to a format.*Out type guarding this panic
			var ta *ssa.TypeAssert
			for _, g := range fw.Guards(pn.Block()) {
				g = g.Normalize()
				ex, ok := g.Cond.(*ssa.Extract)
				if !ok || g.True || ex.Index != 1 {
					continue
				}
				if t, ok := ex.Tuple.(*ssa.TypeAssert); ok {
					if n, ok := t.AssertedType.(*types.Named); ok && n.Obj().Pkg() != nil && n.Obj().Pkg().Path() == fw.Mod+"/format" {
						ta = t
					}
				}
			}
			if ta == nil {
				return
			}
			ord++
			key := fmt.Sprintf("%s|%s|%d", fw.ShortFn(fn), shortType(ta.AssertedType), ord)
			// the asserted value comes from a sub-format decode call with a *decode.Group argument
			call := decodeCallOf(ta.X, 0)
			if call == nil {
				ru.Except(key, p.Rel(pn.Pos()), "asserted value does not come directly from a sub-format decode call in this function (internal plumbing of out values)")
				return
			}
			// only the decode API functions that fail (d.IOPanic / d.Fatalf) when no format of the group decodes
			// hand back the decoded format's out value on every return; the Try* and *OrRaw variants return a
			// nil out value for input the group rejects, and the assertion's panic is then reachable by input
			if cn := call.Common().StaticCallee().Name(); (strings.HasPrefix(cn, "Try") || strings.Contains(cn, "OrRaw")) && !c06OutNonNilGuard(pn.Block(), call, ta.X, strings.Contains(cn, "OrRaw")) {
				ru.Fail(key, p.Rel(pn.Pos()), "the out value asserted to "+shortType(ta.AssertedType)+" comes from (*decode.D)."+cn+", which returns a nil out value when no format of the group decodes the input: the panic after the failed assertion is an unrecoverable crash on malformed input (use the failing variant, or handle !ok without panicking)")
				return
			}
			var groupObj types.Object
			for _, a := range call.Common().Args {
				if g, ok := a.(*ssa.Global); ok && strings.HasSuffix(types.TypeString(g.Type(), nil), "pkg/decode.Group") {
					groupObj = g.Object()
				}
			}
			if groupObj == nil {
				ru.Undecided(key, p.Rel(pn.Pos()), "group argument of the sub-format decode is not a package-level group variable")
				return
			}
			srcGroups := outVar[groupObj]
			if len(srcGroups) == 0 {
				srcGroups = []types.Object{groupObj}
			}
			nFormats := 0
			bad := ""
			for _, sg := range srcGroups {
				for _, m := range members[sg] {
					nFormats++
					if m.decode == nil {
						bad = "format without resolvable DecodeFn"
						continue
					}
					df := p.SSA.FuncValue(asFunc(m.decode))
					if df == nil {
						bad = "DecodeFn " + m.decode.Name() + " has no SSA body"
						continue
					}
					for _, ret := range returnsOf(df) {
						if len(ret.Results) != 1 {
							continue
						}
						if why := returnsType(ret.Results[0], ta.AssertedType, 0); why != "" {
							bad = fmt.Sprintf("%s returns %s (%s)", fw.ShortFn(df), why, p.Rel(ret.Pos()))
						}
					}
				}
			}
			if nFormats == 0 {
				ru.Undecided(key, p.Rel(pn.Pos()), "no format registered into the dependency groups of "+groupObj.Name())
				return
			}
			ru.Check(bad == "", key, p.Rel(pn.Pos()), fmt.Sprintf("%d producing format(s) always return %s", nFormats, shortType(ta.AssertedType)),
				"out-value contract broken: "+bad+" but "+fw.ShortFn(fn)+" panics unless it gets "+shortType(ta.AssertedType))
		})
	}
}

func asFunc(o types.Object) *types.Func {
	f, _ := o.(*types.Func)
	return f
}

// decodeCallOf finds the decode.D call whose (extracted) result v is.
// c06OutNonNilGuard: at block b a result of the sub-format decode call is known non-nil: the asserted out
// value itself, or (not for the OrRaw variants, whose value pointer is also set for the raw fallback) the
// *decode.Value result, which the Try variants return as nil exactly on failure.
func c06OutNonNilGuard(b *ssa.BasicBlock, call *ssa.Call, asserted ssa.Value, onlyOut bool) bool {
	for _, g := range fw.Guards(b) {
		g = g.Normalize()
		bo, ok := g.Cond.(*ssa.BinOp)
		if !ok || (bo.Op != token.EQL && bo.Op != token.NEQ) {
			continue
		}
		var v ssa.Value
		if isNilConst(bo.Y) {
			v = bo.X
		} else if isNilConst(bo.X) {
			v = bo.Y
		} else {
			continue
		}
		if (bo.Op == token.NEQ) != g.True {
			continue
		}
		if v == asserted {
			return true
		}
		if ex, ok := v.(*ssa.Extract); ok && ex.Tuple == ssa.Value(call) {
			if ax, ok := asserted.(*ssa.Extract); ok && ax.Index == ex.Index {
				return true
			}
			if !onlyOut && ex.Index == 0 {
				return true
			}
		}
	}
	return false
}

func decodeCallOf(v ssa.Value, depth int) *ssa.Call {
	if depth > 6 {
		return nil
	}
	switch x := v.(type) {
	case *ssa.Extract:
		if c, ok := x.Tuple.(*ssa.Call); ok {
			if cal := c.Common().StaticCallee(); cal != nil && cal.Signature.Recv() != nil && isDecodeD(cal.Signature.Recv().Type()) {
				return c
			}
		}
	case *ssa.Phi:
		for _, e := range x.Edges {
			if c := decodeCallOf(e, depth+1); c != nil {
				return c
			}
		}
	case *ssa.UnOp:
		if a, ok := x.X.(*ssa.Alloc); ok && a.Referrers() != nil {
			for _, r := range *a.Referrers() {
				if st, ok := r.(*ssa.Store); ok && st.Addr == ssa.Value(a) {
					if c := decodeCallOf(st.Val, depth+1); c != nil {
						return c
					}
				}
			}
		}
	}
	return nil
}

// returnsType: "" when v is always a value of exactly type want; otherwise what it may be.
func returnsType(v ssa.Value, want types.Type, depth int) string {
	if depth > 6 {
		return "an unresolved value"
	}
	switch x := v.(type) {
	case *ssa.MakeInterface:
		if types.Identical(x.X.Type(), want) {
			return ""
		}
		return "a " + shortType(x.X.Type())
	case *ssa.Const:
		if x.IsNil() {
			return "nil"
		}
	case *ssa.Phi:
		for _, e := range x.Edges {
			if s := returnsType(e, want, depth+1); s != "" {
				return s
			}
		}
		return ""
	}
	return "a value of unknown dynamic type"
}

// resolveLocalCallees resolves a call to fq functions: static callee, a closure literal, a local
// variable holding one closure, or a captured variable bound to closures.
func resolveLocalCallees(ci ssa.CallInstruction, fn *ssa.Function) []*ssa.Function {
	cc := ci.Common()
	if cc.IsInvoke() {
		return nil
	}
	if f := cc.StaticCallee(); f != nil {
		if fw.InFq(f) && f.Blocks != nil {
			return []*ssa.Function{f}
		}
		return nil
	}
	switch x := cc.Value.(type) {
	case *ssa.MakeClosure:
		return []*ssa.Function{x.Fn.(*ssa.Function)}
	case *ssa.UnOp:
		if a, ok := x.X.(*ssa.Alloc); ok && a.Referrers() != nil {
			var out []*ssa.Function
			for _, r := range *a.Referrers() {
				if st, ok := r.(*ssa.Store); ok && st.Addr == ssa.Value(a) {
					switch y := st.Val.(type) {
					case *ssa.MakeClosure:
						out = append(out, y.Fn.(*ssa.Function))
					case *ssa.Function:
						out = append(out, y)
					}
				}
			}
			return out
		}
	}
	return closuresBoundTo(cc.Value, fn)
}

// paramFaultUse: how parameter par of f is used at a fault site without a proof inside f ("" if not).
func paramFaultUse(f *ssa.Function, par *ssa.Parameter) string {
	env := fw.NewIntervalEnv(f)
	res := ""
	uses := func(v ssa.Value) bool {
		if v == nil {
			return false
		}
		srcs := map[ssa.Value]bool{}
		valueSources(v, srcs, 0)
		return srcs[par]
	}
	fw.EachInstr(f, func(ins ssa.Instruction) {
		if res != "" {
			return
		}
		switch x := ins.(type) {
		case *ssa.BinOp:
			switch x.Op {
			case token.SHL, token.SHR:
				if !isUnsignedT(x.Y.Type()) && uses(x.Y) && !env.ProvedNonNeg(x.Y, x.Block()) {
					res = "shift count"
				}
			case token.QUO, token.REM:
				if isIntT(x.Type()) && uses(x.Y) && !env.ProvedNonZero(x.Y, x.Block()) {
					res = "divisor"
				}
			}
		case *ssa.MakeSlice:
			if uses(x.Len) && !env.ProvedNonNeg(x.Len, x.Block()) {
				res = "make size"
			}
		case *ssa.IndexAddr:
			if uses(x.Index) && !env.ProvedNonNeg(x.Index, x.Block()) {
				res = "index"
			}
		case *ssa.Slice:
			if (uses(x.Low) && !env.ProvedNonNeg(x.Low, x.Block())) || (uses(x.High) && !env.ProvedNonNeg(x.High, x.Block())) {
				res = "slice bound"
			}
		}
	})
	return res
}

// ---------------------------------------------------------------------------
// C06.param: constant index / constant-bound slice of a slice parameter without a length test

var paramIdxExceptions = map[string]string{
	"(*format/tls/tlsdecrypt.halfConn).decrypt|record": "the record handed in is the byte range from the record start to the end of the record, taken after its 5 header bytes were read successfully (format/tls.decodeTLSRecord), so len(record) >= 5",
}

func c06Param(r *fw.Run, p *fw.Program, reach map[*ssa.Function]bool) {
	ru := r.Rule("C06.param", "a constant index or constant-bound slice of a []byte/string parameter in decoder code is dominated by a length test, or every static caller passes a value of sufficient constant length", 3)
	for _, fn := range p.FqFunctions() {
		if !reach[fn] || !strings.HasPrefix(pkgRel(fn), "format") || fn.Synthetic != "" || !linkedPackages(p)[fw.FnPkgPath(fn)] {
			continue
		}
		var env *fw.PolyEnv
		ord := 0
		fw.EachInstr(fn, func(ins ssa.Instruction) {
			var xs ssa.Value
			var k int64 = -1
			what := ""
			switch y := ins.(type) {
			case *ssa.IndexAddr:
				if c, ok := y.Index.(*ssa.Const); ok && c.Value != nil {
					xs, k, what = y.X, c.Int64(), "index"
				}
			case *ssa.Index:
				if c, ok := y.Index.(*ssa.Const); ok && c.Value != nil {
					xs, k, what = y.X, c.Int64(), "index"
				}
			case *ssa.Slice:
				// s[c:] or s[:c] or s[a:c] with constants: needs len >= max const
				var m int64 = -1
				for _, b := range []ssa.Value{y.Low, y.High} {
					if c, ok := b.(*ssa.Const); ok && c.Value != nil && c.Int64() > m {
						m = c.Int64()
					}
				}
				if m > 0 {
					xs, k, what = y.X, m-1, "slice"
				}
			}
			par, ok := xs.(*ssa.Parameter)
			if !ok || k < 0 {
				return
			}
			switch par.Type().Underlying().(type) {
			case *types.Slice:
			case *types.Basic:
				if bt := par.Type().Underlying().(*types.Basic); bt.Kind() != types.String {
					return
				}
			default:
				return
			}
			if env == nil {
				env = fw.NewPolyEnv(fn)
			}
			ord++
			key := fmt.Sprintf("%s|%s[%d]|%s|%d", fw.ShortFn(fn), par.Name(), k, what, ord)
			need := fw.Cmp{P: fw.PAtom("len(" + par.Name() + ")").Sub(fw.PConst(k)), Rel: fw.GT}
			if env.Proves(ins.Block(), need) || (k == 0 && env.Proves(ins.Block(), fw.Cmp{P: fw.PAtom("len(" + par.Name() + ")"), Rel: fw.NE})) {
				ru.Ok(key, p.Rel(ins.Pos()), "dominated by a length test")
				return
			}
			// callers
			idx := -1
			for i, pa := range fn.Params {
				if pa == par {
					idx = i
				}
			}
			cs := callersOf(p, fn)
			okAll := len(cs) > 0
			why := "no static callers"
			for _, c := range cs {
				a := c.Common().Args[idx]
				if n, ok := constLenOf(a); ok && n > k {
					continue
				}
				cenv := fw.NewPolyEnv(c.Parent())
				if path, ok := fw.AccessPath(a); ok && cenv.Proves(c.Block(), fw.Cmp{P: fw.PAtom("len(" + path + ")").Sub(fw.PConst(k)), Rel: fw.GT}) {
					continue
				}
				okAll = false
				why = "caller " + fw.ShortFn(c.Parent()) + " passes a slice of unchecked length"
			}
			if okAll {
				ru.Ok(key, p.Rel(ins.Pos()), "every caller passes a value of sufficient constant/checked length")
				return
			}
			if reason, ok := paramIdxExceptions[fmt.Sprintf("%s|%s", fw.ShortFn(fn), par.Name())]; ok {
				ru.Except(key, p.Rel(ins.Pos()), reason)
				return
			}
			ru.Fail(key, p.Rel(ins.Pos()), fmt.Sprintf("%s [%d] of parameter %s without a dominating length test (%s): an empty or short input slice is an index-out-of-range fault", what, k, par.Name(), why))
		})
	}
}

// constLenOf: the slice/string value has a known constant length.
func constLenOf(v ssa.Value) (int64, bool) {
	switch x := v.(type) {
	case *ssa.Const:
		if x.Value != nil && x.Value.Kind().String() == "String" {
			s, _ := constString(x)
			return int64(len(s)), true
		}
	case *ssa.MakeSlice:
		if c, ok := x.Len.(*ssa.Const); ok && c.Value != nil {
			return c.Int64(), true
		}
	case *ssa.Slice:
		if pt, ok := x.X.Type().Underlying().(*types.Pointer); ok {
			if at, ok := pt.Elem().Underlying().(*types.Array); ok && x.Low == nil && x.High == nil {
				return at.Len(), true
			}
		}
		lo := int64(0)
		if x.Low != nil {
			c, ok := x.Low.(*ssa.Const)
			if !ok || c.Value == nil {
				return 0, false
			}
			lo = c.Int64()
		}
		if c, ok := x.High.(*ssa.Const); ok && c.Value != nil {
			return c.Int64() - lo, true
		}
	case *ssa.Call:
		if cal := x.Common().StaticCallee(); cal != nil && cal.Signature.Recv() != nil && isDecodeD(cal.Signature.Recv().Type()) {
			switch cal.Name() {
			case "BytesLen", "PeekBytes":
				if c, ok := x.Common().Args[1].(*ssa.Const); ok && c.Value != nil {
					return c.Int64(), true
				}
			case "BytesRange":
				if c, ok := x.Common().Args[2].(*ssa.Const); ok && c.Value != nil {
					return c.Int64(), true
				}
			}
		}
	case *ssa.Convert:
		return constLenOf(x.X)
	}
	return 0, false
}

// ---------------------------------------------------------------------------
// C06.bufslice: a slice of a buffer of known length L is bounded by L

func c06BufSlice(r *fw.Run, p *fw.Program, reach map[*ssa.Function]bool) {
	ru := r.Rule("C06.bufslice", "in pkg/decode, a buffer obtained with a known length L (TryBytesLen(L), BytesLen(L), SharedReadBuf(L), make([]byte, L)) is only re-sliced with an upper bound proved <= L (equal to L, min(.., L), or a dominating test)", 2)
	for _, fn := range p.FqFunctions() {
		if pkgRel(fn) != "pkg/decode" {
			continue
		}
		var env *fw.PolyEnv
		ord := 0
		fw.EachInstr(fn, func(ins ssa.Instruction) {
			sl, ok := ins.(*ssa.Slice)
			if !ok || sl.High == nil {
				return
			}
			if _, isC := sl.High.(*ssa.Const); isC {
				return
			}
			L := bufLenOf(sl.X, 0)
			if L == nil {
				return
			}
			if env == nil {
				env = fw.NewPolyEnv(fn)
			}
			ord++
			key := fmt.Sprintf("%s|slice|%d", fw.ShortFn(fn), ord)
			lp := env.Of(L)
			hp := env.Of(sl.High)
			okB := hp.Equal(lp) || env.Proves(sl.Block(), fw.Cmp{P: hp.Sub(lp), Rel: fw.LE})
			if !okB {
				// min(a, L) possibly behind integer conversions
				if c, isCall := stripIntConv(sl.High).(*ssa.Call); isCall && fw.IsBuiltinCall(c, "min") {
					for _, a := range c.Common().Args {
						if env.Of(a).Equal(lp) {
							okB = true
						}
					}
				}
				// index of a byte inside the same buffer
				if c, isCall := stripIntConv(sl.High).(*ssa.Call); isCall {
					if cal := c.Common().StaticCallee(); cal != nil && (cal.String() == "bytes.IndexByte" || cal.String() == "bytes.Index") && len(c.Common().Args) > 0 && c.Common().Args[0] == sl.X {
						okB = true
					}
				}
				// both the length and the bound are merges in the same block: compare edge by edge
				lph, lIsPhi := stripIntConv(L).(*ssa.Phi)
				hph, hIsPhi := stripIntConv(sl.High).(*ssa.Phi)
				if !okB && lIsPhi && hIsPhi && lph.Block() == hph.Block() {
					all := true
					for i := range hph.Edges {
						le := env.Of(lph.Edges[i])
						if c06LeqOnEdges(env, hph.Edges[i], le, 0) {
							continue
						}
						// the if-form of min: the incoming edge itself carries the comparison
						if len(hph.Edges) == len(hph.Block().Preds) && fw.ProvesFrom(env.EdgeFacts(hph.Block().Preds[i], hph.Block()), fw.Cmp{P: env.Of(hph.Edges[i]).Sub(le), Rel: fw.LE}) {
							continue
						}
						all = false
					}
					okB = all
				}
				// phi of such values
				if ph, isPhi := stripIntConv(sl.High).(*ssa.Phi); isPhi && !okB {
					all := true
					for _, e := range ph.Edges {
						good := env.Of(e).Equal(lp)
						if c, isCall := stripIntConv(e).(*ssa.Call); isCall && fw.IsBuiltinCall(c, "min") {
							for _, a := range c.Common().Args {
								if env.Of(a).Equal(lp) {
									good = true
								}
							}
						}
						// an edge that is the buffer's own requested length (e.g. lenBytes when the buffer was read with lenBytes)
						if !good {
							all = false
						}
					}
					okB = all
				}
			}
			ru.Check(okB, key, p.Rel(sl.Pos()), "upper bound "+hp.String()+" <= buffer length "+lp.String(),
				"buffer of length "+lp.String()+" is sliced up to "+hp.String()+" which is not proved <= that length (slice bounds out of range on crafted input)")
		})
	}
}

func stripIntConv(v ssa.Value) ssa.Value {
	for {
		c, ok := v.(*ssa.Convert)
		if !ok || !isIntT(c.Type()) || !isIntT(c.X.Type()) {
			return v
		}
		v = c.X
	}
}

// bufLenOf: the length expression a buffer value was created with.
func bufLenOf(v ssa.Value, depth int) ssa.Value {
	if depth > 4 {
		return nil
	}
	switch x := v.(type) {
	case *ssa.MakeSlice:
		return x.Len
	case *ssa.Extract:
		if c, ok := x.Tuple.(*ssa.Call); ok && x.Index == 0 {
			return bufLenOf(c, depth+1)
		}
	case *ssa.Call:
		if cal := x.Common().StaticCallee(); cal != nil && cal.Signature.Recv() != nil && isDecodeD(cal.Signature.Recv().Type()) {
			switch cal.Name() {
			case "TryBytesLen", "BytesLen", "SharedReadBuf":
				return x.Common().Args[1]
			}
		}
	}
	return nil
}

// ---------------------------------------------------------------------------
// C06.alloc: allocation sizes in the decode API are proved non-negative locally

var allocExceptions = map[string]string{
	"(*pkg/decode.D).FillGaps|make|1": "n is a local counter started at 0 and only incremented by the counting walk",
	"(*pkg/decode.D).FillGaps|make|2": "n is a local counter started at 0 and only incremented by the counting walk",
}

func c06Alloc(r *fw.Run, p *fw.Program) {
	ru := r.Rule("C06.alloc", "in pkg/decode every make with a non-constant size proves the size >= 0 in the same function (a negative count from a decoder must become an error, not a makeslice panic); the byte readers that allocate a caller's count clamp it by the input left", 5)
	c06AllocClamp(ru, p)
	for _, fn := range p.FqFunctions() {
		if pkgRel(fn) != "pkg/decode" {
			continue
		}
		var env *fw.IntervalEnv
		ord := 0
		fw.EachInstr(fn, func(ins ssa.Instruction) {
			ms, ok := ins.(*ssa.MakeSlice)
			if !ok {
				return
			}
			for _, v := range []ssa.Value{ms.Len, ms.Cap} {
				if v == nil {
					continue
				}
				if c, isC := v.(*ssa.Const); isC && c.Value != nil && c.Int64() >= 0 {
					continue
				}
				if env == nil {
					env = fw.NewIntervalEnv(fn)
				}
				ord++
				key := fmt.Sprintf("%s|make|%d", fw.ShortFn(fn), ord)
				if env.ProvedNonNegDeep(v, ms.Block()) {
					ru.Ok(key, p.Rel(ms.Pos()), "size proved >= 0")
					continue
				}
				if reason, ok := allocExceptions[key]; ok {
					ru.Except(key, p.Rel(ms.Pos()), reason)
					continue
				}
				ru.Fail(key, p.Rel(ms.Pos()), "make with size "+env.Poly.Of(v).String()+" not proved >= 0 in the decode API: a negative count is a runtime panic instead of a decode error")
			}
		})
	}
}

// c06AllocClamp: a pkg/decode reader that allocates a byte buffer from a caller's count and reads
// the input into it (TryBytesLen, TryBytesRange) clamps the allocation by what the input can still
// deliver: the make size is a choice (phi) with an arm computed from TryBitsLeft/TryLen. Without it a
// count taken from the input (caff, 32 bit; any decoder's BytesLen(int(n))) is a makeslice panic or
// an out-of-memory abort instead of a read error.
func c06AllocClamp(ru *fw.Rule, p *fw.Program) {
	n := 0
	for _, fn := range p.FqFunctions() {
		if pkgRel(fn) != "pkg/decode" || fn.Signature.Recv() == nil || !isDecodeD(fn.Signature.Recv().Type()) {
			continue
		}
		var env *fw.PolyEnv
		fw.EachInstr(fn, func(ins ssa.Instruction) {
			ms, ok := ins.(*ssa.MakeSlice)
			if !ok {
				return
			}
			// read into by bitio.ReadFull / ReadAtFull
			readInto := false
			for _, u := range *ms.Referrers() {
				if c, ok := u.(*ssa.Call); ok {
					if cal := c.Common().StaticCallee(); cal != nil && cal.Pkg != nil && strings.HasSuffix(cal.Pkg.Pkg.Path(), "pkg/bitio") && (cal.Name() == "ReadFull" || cal.Name() == "ReadAtFull") {
						readInto = true
					}
				}
			}
			if !readInto {
				return
			}
			// size derives from a parameter
			fromParam := false
			var edges []ssa.Value
			var walk func(v ssa.Value, d int)
			seen := map[ssa.Value]bool{}
			walk = func(v ssa.Value, d int) {
				v = fw.SxStripConv(v)
				if seen[v] || d > 4 {
					return
				}
				seen[v] = true
				switch x := v.(type) {
				case *ssa.Parameter:
					fromParam = true
				case *ssa.Phi:
					for _, e := range x.Edges {
						walk(e, d+1)
					}
				default:
					edges = append(edges, v)
				}
			}
			walk(ms.Len, 0)
			if !fromParam {
				return
			}
			n++
			key := fw.ShortFn(fn) + "|clamp"
			if env == nil {
				env = fw.NewPolyEnv(fn)
			}
			// the caller's count itself is allocated only where it was compared with the clamp (or the length of
			// the input is unknown): a clamp skipped under any other condition (`maxBytes > 0 && ...`) is no clamp
			var rawEdges func(v ssa.Value, d int) []string
			rawEdges = func(v ssa.Value, d int) []string {
				var bad []string
				ph, ok := fw.SxStripConv(v).(*ssa.Phi)
				if !ok || d > 4 {
					return nil
				}
				for i, ev := range ph.Edges {
					sv := fw.SxStripConv(ev)
					if _, isPhi := sv.(*ssa.Phi); isPhi {
						bad = append(bad, rawEdges(sv, d+1)...)
						continue
					}
					par, isPar := sv.(*ssa.Parameter)
					if !isPar {
						continue
					}
					pred := ph.Block().Preds[i]
					cd, ok := fw.EdgeCond(pred, ph.Block())
					okEdge := false
					if bo, isBin := cd.Val.(*ssa.BinOp); ok && isBin {
						for _, o := range []ssa.Value{bo.X, bo.Y} {
							if fw.SxStripConv(o) == ssa.Value(par) {
								okEdge = true // the count was compared (with the clamp value: the clamped edge carries it)
							}
							if types.Identical(o.Type(), types.Universe.Lookup("error").Type()) {
								okEdge = true // length of the input unknown
							}
						}
					}
					if ok && !okEdge {
						// a test over the reader's own state only (bits left >= 0 is the invariant C03.inside / C03.lower
						// keep) cannot be steered by the caller; one over another argument (an offset) can
						free := false
						seenV := map[ssa.Value]bool{}
						var dep func(v ssa.Value, d int)
						dep = func(v ssa.Value, d int) {
							if v == nil || seenV[v] || d > 10 {
								return
							}
							seenV[v] = true
							if pp, isP := v.(*ssa.Parameter); isP && (len(fn.Params) == 0 || pp != fn.Params[0]) {
								free = true
							}
							if in, isIn := v.(ssa.Instruction); isIn {
								for _, op := range in.Operands(nil) {
									if *op != nil {
										dep(*op, d+1)
									}
								}
							}
						}
						dep(cd.Val, 0)
						okEdge = !free
					}
					if !okEdge {
						what := "unconditionally"
						if ok {
							what = "under a test over another argument that does not involve the count: " + fw.SxStripConv(cd.Val).String()
						}
						bad = append(bad, what)
					}
				}
				return bad
			}
			for _, e := range edges {
				for _, a := range env.Of(e).Atoms() {
					if strings.Contains(a, "TryBitsLeft") || strings.Contains(a, "TryLen") || strings.Contains(a, "BitsLeft") {
						if bad := rawEdges(ms.Len, 0); len(bad) > 0 {
							ru.Fail(key, p.Rel(ms.Pos()), "the clamp of the allocation is skipped "+strings.Join(bad, "; ")+": there the caller's count is allocated as it is (an offset past the end made the old `maxBytes > 0 &&` test skip the clamp: makeslice panic)")
							return
						}
						ru.Ok(key, p.Rel(ms.Pos()), "allocation is clamped by "+env.Of(e).String())
						return
					}
				}
			}
			ru.Fail(key, p.Rel(ms.Pos()), "a buffer of the caller's byte count is allocated before anything relates the count to the input that is left: a count read from the input is a makeslice panic / out-of-memory abort instead of a read error")
		})
	}
	if n < 2 {
		ru.Undecided("clamp:sites", "", fmt.Sprintf("%d allocating byte readers found in pkg/decode, expected TryBytesLen and TryBytesRange", n))
	}
}

// ---------------------------------------------------------------------------
// C06.bounds: where a bounds test against len(x) guards an index into x, it must be the right one

var boundsExceptions = map[string]string{}

func c06Bounds(r *fw.Run, p *fw.Program, reach map[*ssa.Function]bool) {
	ru := r.Rule("C06.bounds", "where an index x[i] or slice bound x[a:b] in decoder code is dominated by a test relating the operand and len(x) whose failing arm does not continue (shared failing arms of `a || b` tests included), that test proves i < len(x) (a, b <= len(x)) (an off-by-one or inverted bounds test is an out-of-range fault on crafted input; the sign of reader-derived operands is C06.idx)", 120)
	for _, fn := range p.FqFunctions() {
		if !strings.HasPrefix(pkgRel(fn), "format") && pkgRel(fn) != "pkg/decode" {
			continue
		}
		var env *fw.PolyEnv
		ord := 0
		sord := 0
		cord := map[string]int{}
		fw.EachInstr(fn, func(ins ssa.Instruction) {
			type opnd struct {
				v    ssa.Value
				what string
				rel  fw.Rel // required relation of (operand - len) to 0
			}
			var xs ssa.Value
			var ops []opnd
			switch y := ins.(type) {
			case *ssa.IndexAddr:
				xs, ops = y.X, []opnd{{y.Index, "index", fw.LT}}
			case *ssa.Index:
				xs, ops = y.X, []opnd{{y.Index, "index", fw.LT}}
			case *ssa.Slice:
				xs, ops = y.X, []opnd{{y.Low, "slice low bound", fw.LE}, {y.High, "slice high bound", fw.LE}}
			default:
				return
			}
			switch xs.Type().Underlying().(type) {
			case *types.Slice, *types.Basic:
			default:
				return
			}
			for _, o := range ops {
				idx := o.v
				if idx == nil {
					continue
				}
				if k, isC := idx.(*ssa.Const); isC {
					// constant index: where a dominating test gives a lower bound of len(x), it must reach the index
					if o.what != "index" || k.Value == nil || k.Int64() < 0 {
						continue
					}
					if _, known := constLenOf(xs); known {
						continue
					}
					if env == nil {
						env = c06NewPolyEnv(fn)
					}
					la, cpath := c06LenAtom(env, xs)
					related, proved := false, false
					for _, f := range c06Facts(env, ins.Block()) {
						f.P = fw.StripVersions(f.P)
						for j := int64(0); j <= k.Int64(); j++ {
							if f.Implies(fw.Cmp{P: la.Sub(fw.PConst(j)), Rel: fw.GT}) {
								related = true
								if j == k.Int64() {
									proved = true
								}
							}
						}
						if f.Implies(fw.Cmp{P: la, Rel: fw.NE}) {
							related = true
							if k.Int64() == 0 {
								proved = true
							}
						}
					}
					if !related {
						continue
					}
					kpath := cpath
					if _, isPath := fw.AccessPath(xs); !isPath {
						kpath = "expr"
					}
					cord[kpath]++
					key := fmt.Sprintf("%s|%s[%d]|const#%d", fw.ShortFn(fn), kpath, k.Int64(), cord[kpath])
					ru.Check(proved, key, p.Rel(ins.Pos()), "length test reaches the constant index", fmt.Sprintf("constant index %d of %s is guarded by a length test that does not prove len > %d (weakened or off-by-one length test)", k.Int64(), cpath, k.Int64()))
					continue
				}
				if env == nil {
					env = c06NewPolyEnv(fn)
				}
				path, ok := fw.AccessPath(xs)
				lenAtom := "len(" + path + ")"
				if !ok {
					if o.what == "index" {
						// historical scope of the index clause: containers with an access path
						path = env.Of(xs).String()
						lenAtom = "len(" + path + ")"
					} else {
						path = env.Of(xs).String()
						lenAtom = "len(" + path + ")"
					}
				}
				ip := env.Of(idx)
				// a bounds test for THIS operand: a fact whose polynomial is +-(operand - len(x)) up to a constant
				target := fw.StripVersions(ip.Sub(fw.StripVersions(fw.PAtom(lenAtom))))
				facts := c06Facts(env, ins.Block())
				related := false
				for _, f := range facts {
					fp := fw.StripVersions(f.P)
					for _, sgn := range []int64{1, -1} {
						if _, isConst := fp.Sub(target.MulC(sgn)).IsConst(); isConst {
							related = true
						}
					}
				}
				if _, isConst := target.IsConst(); isConst {
					continue // x[len(x)-k]: relation to the length is syntactic (C06.lenidx)
				}
				if !related {
					continue
				}
				var key string
				kpath := path
				if !ok {
					kpath = "expr"
				}
				if o.what == "index" {
					ord++
					key = fmt.Sprintf("%s|%s|%d", fw.ShortFn(fn), kpath, ord)
				} else {
					sord++
					key = fmt.Sprintf("%s|%s|slice#%d", fw.ShortFn(fn), kpath, sord)
				}
				// strip store versions: the test and the use read the same slice header in practice
				want := fw.Cmp{P: target, Rel: o.rel}
				proved := false
				for _, f := range facts {
					f.P = fw.StripVersions(f.P)
					if f.Implies(want) {
						proved = true
					}
				}
				if !proved {
					if reason, ok := boundsExceptions[key]; ok {
						ru.Except(key, p.Rel(ins.Pos()), reason)
						continue
					}
					ru.Fail(key, p.Rel(ins.Pos()), o.what+" "+ip.String()+" of "+path+" is guarded by a test against "+lenAtom+" that does not prove it inside the slice (off-by-one or inverted bounds test)")
					continue
				}
				ru.Ok(key, p.Rel(ins.Pos()), "bounds test proves the operand inside the slice")
			}
		})
	}
}

// c06RangeIndex: v is the key of a range loop (Next of a range iterator, or the counter phi of a
// lowered range-over-slice loop: starts at -1 and is incremented before use).
func c06RangeIndex(v ssa.Value) bool {
	v = stripIntConv(v)
	if ex, ok := v.(*ssa.Extract); ok {
		if _, isNext := ex.Tuple.(*ssa.Next); isNext {
			return true
		}
	}
	if bo, ok := v.(*ssa.BinOp); ok && bo.Op == token.ADD {
		if c, isC := bo.Y.(*ssa.Const); isC && c.Value != nil && c.Int64() == 1 {
			if ph, isPhi := bo.X.(*ssa.Phi); isPhi {
				for _, e := range ph.Edges {
					if k, isK := e.(*ssa.Const); isK && k.Value != nil {
						if k.Int64() < -1 {
							return false
						}
						continue
					}
					if e != ssa.Value(bo) {
						return false
					}
				}
				return true
			}
		}
	}
	return false
}

// c06LenAtom: the polynomial atom of len(xs) in env.
func c06LenAtom(env *fw.PolyEnv, xs ssa.Value) (*fw.Poly, string) {
	if path, ok := fw.AccessPath(xs); ok {
		return fw.StripVersions(fw.PAtom("len(" + path + ")")), path
	}
	path := env.Of(xs).String()
	return fw.StripVersions(fw.PAtom("len(" + path + ")")), path
}

// c06ProvedInside: the facts at block b prove (v - len(xs)) rel 0.
func c06ProvedInside(env *fw.PolyEnv, xs ssa.Value, v ssa.Value, rel fw.Rel, b *ssa.BasicBlock) bool {
	la, _ := c06LenAtom(env, xs)
	want := fw.Cmp{P: fw.StripVersions(env.Of(v)).Sub(la), Rel: rel}
	if c, isConst := want.P.IsConst(); isConst {
		return (rel == fw.LT && c < 0) || (rel == fw.LE && c <= 0)
	}
	for _, f := range c06Facts(env, b) {
		f.P = fw.StripVersions(f.P)
		if f.Implies(want) {
			return true
		}
	}
	return false
}

// c06LeqOnEdges: v <= bound, because it is the same polynomial, a min(.., bound), or a merge whose every
// incoming value is such a value or is proved <= bound by the branch facts on its incoming edge (the
// if-form of min).
func c06LeqOnEdges(env *fw.PolyEnv, v ssa.Value, bound *fw.Poly, depth int) bool {
	if depth > 3 {
		return false
	}
	if env.Of(v).Equal(bound) {
		return true
	}
	sv := stripIntConv(v)
	if c, isCall := sv.(*ssa.Call); isCall && fw.IsBuiltinCall(c, "min") {
		for _, a := range c.Common().Args {
			if env.Of(a).Equal(bound) {
				return true
			}
		}
	}
	ph, isPhi := sv.(*ssa.Phi)
	if !isPhi || len(ph.Edges) != len(ph.Block().Preds) {
		return false
	}
	for i, e := range ph.Edges {
		if c06LeqOnEdges(env, e, bound, depth+1) {
			continue
		}
		if fw.ProvesFrom(env.EdgeFacts(ph.Block().Preds[i], ph.Block()), fw.Cmp{P: env.Of(e).Sub(bound), Rel: fw.LE}) {
			continue
		}
		return false
	}
	return true
}

// c06TestsLenOf: one of the tested values is len(container) (same value, access path or structure).
func c06TestsLenOf(tested map[ssa.Value]bool, container ssa.Value) bool {
	cp, okc := fw.AccessPath(container)
	csp := ""
	if ld, ok := container.(*ssa.UnOp); ok && ld.Op == token.MUL {
		csp, _ = c06StructPath(ld.X, 0)
	}
	for v := range tested {
		call, ok := v.(*ssa.Call)
		if !ok || !fw.IsBuiltinCall(call, "len") {
			continue
		}
		a := call.Common().Args[0]
		if a == container {
			return true
		}
		if ap, ok := fw.AccessPath(a); ok && okc && ap == cp {
			return true
		}
		if ld, ok := a.(*ssa.UnOp); ok && ld.Op == token.MUL && csp != "" {
			if sp, _ := c06StructPath(ld.X, 0); sp == csp {
				return true
			}
		}
	}
	return false
}

// c06CounterBelow: v is a loop counter phi whose every incoming value is proved < bound on its edge.
func c06CounterBelow(env *fw.PolyEnv, v ssa.Value, bound *fw.Poly) bool {
	ph, ok := stripIntConv(v).(*ssa.Phi)
	if !ok || len(ph.Edges) != len(ph.Block().Preds) {
		return false
	}
	for i, e := range ph.Edges {
		want := fw.Cmp{P: fw.StripVersions(env.Of(e)).Sub(bound), Rel: fw.LT}
		okE := false
		for _, f := range env.EdgeFacts(ph.Block().Preds[i], ph.Block()) {
			f.P = fw.StripVersions(f.P)
			if f.Implies(want) {
				okE = true
			}
		}
		if !okE {
			return false
		}
	}
	return true
}

// c06RangeIndexOf: v is the key of `for i := range container` (lowered range loop over the same slice value).
func c06RangeIndexOf(v ssa.Value, container ssa.Value) bool {
	bo, ok := stripIntConv(v).(*ssa.BinOp)
	if !ok || bo.Op != token.ADD {
		return false
	}
	ph, ok := bo.X.(*ssa.Phi)
	if !ok || ph.Comment != "rangeindex" || ph.Referrers() == nil {
		return false
	}
	// the loop test compares the incremented index with len(container)
	if bo.Referrers() == nil {
		return false
	}
	for _, rf := range *bo.Referrers() {
		cmp, ok := rf.(*ssa.BinOp)
		if !ok || cmp.Op != token.LSS || cmp.X != ssa.Value(bo) {
			continue
		}
		if call, ok := cmp.Y.(*ssa.Call); ok && fw.IsBuiltinCall(call, "len") && call.Common().Args[0] == container {
			return true
		}
	}
	return false
}
