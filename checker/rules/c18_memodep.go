package rules

import (
	"fmt"
	"go/token"
	"sort"
	"strings"

	"golang.org/x/tools/go/ssa"

	"fqverif/fw"
)

func init() {
	RegisterExtra("C18", func(r *fw.Run, p *fw.Program) {
		c18MemoDep(r, p)
		c18Parked(r, p)
		c18StaticType(r, p)
	})
}

// ---------------------------------------------------------------------------
// C18.memodep: what a memo table remembers is determined by its key
//
// A memo (map-typed field of interp.Interp / interp.EvalInstance) is transparent only if the
// remembered value is a function of the key and of state that is fixed for as long as the table lives (the
// owning interpreter, package-level tables, constants). Rule: the backward data slice of every stored value -
// through locals, captured variables, call arguments, and arguments of calls that are handed the address of a
// variable in the slice - ends only in the key, the owner, package-level variables, constants and fresh
// allocations. A parameter or captured parameter of the enclosing functions other than the owner (per-call
// options, the raw argument the key was derived from) in the slice means two calls with the same key can
// compute different values: the second one is served the first one's (state leaks from one decode / evaluation
// step to the next).

type c18Slicer struct {
	key    ssa.Value
	owner  map[ssa.Value]bool
	seen   map[ssa.Value]bool
	leaves map[string]bool
	steps  int
}

func (s *c18Slicer) foreign(v ssa.Value, what string) {
	s.leaves[what] = true
}

// cellStores: every value stored into a variable cell, by the function that owns it and by the closures that
// captured it; plus the other arguments of calls that receive the cell's address.
func (s *c18Slicer) cell(a *ssa.Alloc) {
	var visit func(addr ssa.Value, depth int)
	visit = func(addr ssa.Value, depth int) {
		if depth > 4 || addr.Referrers() == nil {
			return
		}
		for _, rf := range *addr.Referrers() {
			switch x := rf.(type) {
			case *ssa.Store:
				if x.Addr == addr {
					s.walk(x.Val)
				}
			case *ssa.MakeClosure:
				fn, _ := x.Fn.(*ssa.Function)
				for i, b := range x.Bindings {
					if b == addr && fn != nil && i < len(fn.FreeVars) {
						visit(fn.FreeVars[i], depth+1)
					}
				}
			case ssa.CallInstruction:
				for _, arg := range x.Common().Args {
					if arg != addr {
						s.walk(arg)
					}
				}
			case *ssa.MakeInterface, *ssa.ChangeType:
				// &v boxed and handed on (mapstruct.ToStruct(m, &v))
				if v, ok := rf.(ssa.Value); ok {
					visit(v, depth+1)
				}
			}
		}
	}
	visit(a, 0)
}

func (s *c18Slicer) walk(v ssa.Value) {
	if v == nil || s.seen[v] || s.steps > 4000 {
		return
	}
	s.seen[v] = true
	s.steps++
	if s.key != nil && (v == s.key || c18Cell(c18StripConv(v), 0) == s.key) {
		return
	}
	if s.owner[v] || s.owner[c18Cell(v, 0)] {
		return
	}
	switch x := v.(type) {
	case *ssa.Const, *ssa.Global, *ssa.Function, *ssa.Builtin:
		return
	case *ssa.Parameter:
		s.foreign(v, "parameter "+x.Name()+" of "+fw.ShortFn(x.Parent()))
		return
	case *ssa.FreeVar:
		if b := c18Binding(x); b != nil {
			s.walk(b)
		} else {
			s.foreign(v, "captured variable "+x.Name())
		}
		return
	case *ssa.Alloc:
		// the address of a variable: what the variable holds
		s.cell(x)
		return
	case *ssa.UnOp:
		if x.Op == token.MUL {
			switch a := x.X.(type) {
			case *ssa.Alloc:
				s.cell(a)
				return
			case *ssa.FreeVar:
				if b := c18Binding(a); b != nil {
					if al, ok := b.(*ssa.Alloc); ok {
						s.cell(al)
					} else {
						s.walk(b)
					}
				} else {
					s.foreign(v, "captured variable "+a.Name())
				}
				return
			}
		}
	}
	ins, ok := v.(ssa.Instruction)
	if !ok {
		return
	}
	for _, op := range ins.Operands(nil) {
		if op != nil && *op != nil {
			s.walk(*op)
		}
	}
}

func c18MemoDep(r *fw.Run, p *fw.Program) {
	ru := r.Rule("C18.memodep", "the value stored into a memo table of the interpreter (map-typed field of interp.Interp / EvalInstance) is determined by the key and by state fixed for the table's lifetime: its backward data slice (locals, captured variables, call arguments, arguments of calls given the address of a sliced variable) ends only in the key, the owning interpreter, package-level variables, constants and fresh allocations - never in another parameter of the enclosing functions (per-call options, the raw value the key was condensed from)", 2)
	for _, fn := range p.FqFunctions() {
		if pkgRel(fn) != "pkg/interp" {
			continue
		}
		ord := map[string]int{}
		for _, ev := range c18MemoEvents(p, fn) {
			if !ev.store {
				continue
			}
			ord[ev.field]++
			k := fmt.Sprintf("%s|%s#%d", ev.field, fw.ShortFn(fn), ord[ev.field])
			sl := &c18Slicer{key: c18Cell(c18StripConv(ev.key), 0), owner: map[ssa.Value]bool{}, seen: map[ssa.Value]bool{}, leaves: map[string]bool{}}
			// the owner: the interpreter the table is reached through, here and in every enclosing function
			for f := fn; f != nil; f = f.Parent() {
				if f.Signature.Recv() != nil && len(f.Params) > 0 && strings.HasPrefix(shortType(f.Params[0].Type()), "*pkg/interp.") {
					sl.owner[f.Params[0]] = true
				}
			}
			if ev.base != nil {
				sl.owner[c18Cell(ev.base, 0)] = true
			}
			sl.walk(ev.val)
			if len(sl.leaves) == 0 {
				ru.Ok(k, p.Rel(ev.ins.Pos()), fmt.Sprintf("stored value depends only on the key, the owner and process constants (%d values sliced)", sl.steps))
				continue
			}
			var ls []string
			for l := range sl.leaves {
				ls = append(ls, l)
			}
			sort.Strings(ls)
			ru.Fail(k, p.Rel(ev.ins.Pos()), "the value remembered in "+ev.field+" also depends on "+strings.Join(ls, ", ")+", which the key does not determine: a later lookup with the same key is served a value computed for other inputs (state leaks between decodes / evaluation steps)")
		}
	}
}
