package rules

// C17 — command line contract: exit status classes and precedence, independent inputs,
// jq-compatible flags. Nearly all rules are structural facts of the bundled jq sources
// (pkg/interp/{init,internal,args,options,eval}.jq) read through the embedded gojq parser;
// the Go side (cli.Main, Interp.Main) is checked on SSA.

import (
	"fmt"
	"sort"
	"strings"

	"github.com/wader/gojq"

	"fqverif/fw"
)

func init() { Register("C17", runC17) }

const (
	c17Init     = "pkg/interp/init.jq"
	c17Internal = "pkg/interp/internal.jq"
	c17Args     = "pkg/interp/args.jq"
	c17Options  = "pkg/interp/options.jq"
	c17Eval     = "pkg/interp/eval.jq"
)

// c17Model is the jq model plus resolved anchors shared by the C17 rules.
type c17Model struct {
	r  *fw.Run
	p  *fw.Program
	jq *fw.JQ
	// exit code constants by def name (resolved by C17.codes)
	codes map[string]string
	// error stores: wrapper def name -> global state key
	stores map[string]string
	// when set, the kind prover records operations that raise for some kind of their input
	kindHazards *[]string
}

func runC17(r *fw.Run, p *fw.Program) {
	jq, err := fw.LoadJQ(p.Repo)
	if err != nil {
		r.Fatal("C17: cannot load bundled jq sources: " + err.Error())
		return
	}
	m := &c17Model{r: r, p: p, jq: jq, codes: map[string]string{}, stores: map[string]string{}}
	c17Codes(m)
	c17Stores(m)
	c17Finally(m)
	c17Prec(m)
	c17Writes(m)
	c17Inputs(m)
	c17RawInput(m)
	c17Handlers(m)
	c17ArgsParse(m)
	c17Flags(m)
	c17OptEval(m)
	c17Go(m)
	c17Open(m)
}

// ---------------------------------------------------------------------------
// generic helpers over gojq ASTs

// c17Step is one element of a linearised pipeline: "Q" or "Q as Bind".
type c17Step struct {
	Q    *gojq.Query
	Bind []*gojq.Pattern
}

// c17Steps flattens pipes, parentheses and the bodies of "as" bindings into evaluation order.
func c17Steps(q *gojq.Query) []c17Step {
	if q == nil {
		return nil
	}
	if len(q.FuncDefs) > 0 {
		// local definitions ahead of the body do not take part in the evaluation order
		cp := *q
		cp.FuncDefs = nil
		q = &cp
	}
	if q.Op == gojq.OpPipe && q.Left != nil {
		return append(c17Steps(q.Left), c17Steps(q.Right)...)
	}
	if q.Term != nil && q.Left == nil {
		t := q.Term
		n := len(t.SuffixList)
		if n > 0 && t.SuffixList[n-1].Bind != nil {
			src := *t
			src.SuffixList = t.SuffixList[:n-1]
			b := t.SuffixList[n-1].Bind
			return append([]c17Step{{Q: &gojq.Query{Term: &src}, Bind: b.Patterns}}, c17Steps(b.Body)...)
		}
		if t.Type == gojq.TermTypeQuery && n == 0 {
			return c17Steps(t.Query)
		}
	}
	return []c17Step{{Q: q}}
}

// c17Unparen strips redundant parentheses.
func c17Unparen(q *gojq.Query) *gojq.Query {
	for q != nil && q.Left == nil && len(q.FuncDefs) == 0 && q.Term != nil && q.Term.Type == gojq.TermTypeQuery && len(q.Term.SuffixList) == 0 {
		q = q.Term.Query
	}
	return q
}

// c17Commas flattens a , b , c.
func c17Commas(q *gojq.Query) []*gojq.Query {
	q = c17Unparen(q)
	if q == nil {
		return nil
	}
	if q.Op == gojq.OpComma && q.Left != nil {
		return append(c17Commas(q.Left), c17Commas(q.Right)...)
	}
	return []*gojq.Query{q}
}

// c17S is the canonical (printer) form of a query with redundant outer parentheses removed.
func c17S(q *gojq.Query) string {
	q = c17Unparen(q)
	if q == nil {
		return ""
	}
	return q.String()
}

// c17Calls returns the calls name/arity (arity<0: any) under n; nested defs are entered unless skipNested.
func c17Calls(n any, name string, arity int, skipNested bool) []*gojq.Func {
	var out []*gojq.Func
	fw.WalkJQ(n, func(x any) bool {
		if f, ok := x.(*gojq.Func); ok && f.Name == name && (arity < 0 || len(f.Args) == arity) {
			out = append(out, f)
		}
		return true
	}, skipNested)
	return out
}

func c17HasCall(n any, name string, arity int) bool { return len(c17Calls(n, name, arity, false)) > 0 }

// c17ContainsNode reports whether the node target (pointer identity) occurs under n.
func c17ContainsNode(n any, target any) bool {
	found := false
	fw.WalkJQ(n, func(x any) bool {
		if x == target {
			found = true
		}
		return !found
	}, false)
	return found
}

// c17Tries returns all try terms under n (nested defs included).
func c17Tries(n any) []*gojq.Try {
	var out []*gojq.Try
	fw.WalkJQ(n, func(x any) bool {
		if t, ok := x.(*gojq.Try); ok {
			out = append(out, t)
		}
		return true
	}, false)
	return out
}

// c17IsTry returns the try when q is exactly "try B catch H".
func c17IsTry(q *gojq.Query) *gojq.Try {
	q = c17Unparen(q)
	if q == nil || q.Left != nil || q.Term == nil || q.Term.Type != gojq.TermTypeTry || len(q.Term.SuffixList) > 0 {
		return nil
	}
	return q.Term.Try
}

// c17IsIf returns the if when q is exactly an if term.
func c17IsIf(q *gojq.Query) *gojq.If {
	q = c17Unparen(q)
	if q == nil || q.Left != nil || q.Term == nil || q.Term.Type != gojq.TermTypeIf || len(q.Term.SuffixList) > 0 {
		return nil
	}
	return c17NormIf(q.Term.If)
}

// c17StrictNeg recognises a condition spelled as the exact negation of a simpler one and returns
// that one: `x | not`, `a != b` (not a == b), `a >= b` (not a < b), `a <= b` (not a > b). jq's
// ordering is total, so these are equivalences, not approximations.
func c17StrictNeg(q *gojq.Query) (*gojq.Query, bool) {
	q = c17Unparen(q)
	if q == nil || q.Left == nil || q.Right == nil || len(q.FuncDefs) > 0 {
		return q, false
	}
	flip := func(x *gojq.Query, neg bool) (*gojq.Query, bool) {
		y, n := c17StrictNeg(x)
		return y, n != neg
	}
	switch q.Op {
	case gojq.OpPipe:
		if fw.JQIsCall(q.Right, "not", 0) != nil {
			return flip(q.Left, true)
		}
		// a | (b | not)  ==  (a | b) | not  for the single-output conditions used in if
		if r, neg := c17StrictNeg(q.Right); neg {
			cp := *q
			cp.Right = r
			return &cp, true
		}
	case gojq.OpNe:
		cp := *q
		cp.Op = gojq.OpEq
		return &cp, true
	case gojq.OpGe:
		cp := *q
		cp.Op = gojq.OpLt
		return &cp, true
	case gojq.OpLe:
		cp := *q
		cp.Op = gojq.OpGt
		return &cp, true
	}
	return q, false
}

var c17NormIfCache = map[*gojq.If]*gojq.If{}

// c17NormIf gives a two-armed if a canonical orientation: `if c | not then B else A end` (and the
// other negated spellings) is presented as `if c then A else B end`. Chains with elif are left alone.
func c17NormIf(i *gojq.If) *gojq.If {
	if i == nil || len(i.Elif) > 0 {
		return i
	}
	if n, ok := c17NormIfCache[i]; ok {
		return n
	}
	out := i
	if pos, neg := c17StrictNeg(i.Cond); neg {
		cp := *i
		cp.Cond = pos
		cp.Then, cp.Else = i.Else, i.Then
		if cp.Then == nil {
			cp.Then = &gojq.Query{Term: &gojq.Term{Type: gojq.TermTypeIdentity}}
		}
		if c17IsIdentity(cp.Else) {
			cp.Else = nil
		}
		out = &cp
	}
	c17NormIfCache[i] = out
	return out
}

func c17IsNull(q *gojq.Query) bool {
	q = c17Unparen(q)
	return q != nil && q.Left == nil && q.Term != nil && q.Term.Type == gojq.TermTypeNull && len(q.Term.SuffixList) == 0
}

func c17IsIdentity(q *gojq.Query) bool {
	q = c17Unparen(q)
	return q != nil && q.Left == nil && q.Term != nil && q.Term.Type == gojq.TermTypeIdentity && len(q.Term.SuffixList) == 0
}

// c17Arm is one arm of an if/elif/else chain: Cond == nil for the else arm (nil Then = identity).
type c17Arm struct {
	Cond *gojq.Query
	Then *gojq.Query
}

// c17Arms flattens if c1 then a elif c2 then b else (if c3 ...) end into a decision list.
func c17Arms(i *gojq.If) []c17Arm {
	arms := []c17Arm{{i.Cond, i.Then}}
	for _, e := range i.Elif {
		arms = append(arms, c17Arm{e.Cond, e.Then})
	}
	if i.Else != nil {
		if ni := c17IsIf(i.Else); ni != nil {
			arms = append(arms, c17Arms(ni)...)
		} else {
			arms = append(arms, c17Arm{nil, i.Else})
		}
	} else {
		arms = append(arms, c17Arm{nil, nil})
	}
	return arms
}

// c17Def resolves a top-level definition that must exist exactly once over all bundled files.
func (m *c17Model) def(ru *fw.Rule, name string, arity int) *fw.JQDef {
	ds := m.jq.TopDefs(name, arity)
	key := fmt.Sprintf("%s/%d", name, arity)
	if len(ds) == 0 {
		ru.Undecided("anchor:"+key, "", "jq definition "+key+" not found in the bundled sources")
		return nil
	}
	if len(ds) > 1 {
		var fs []string
		for _, d := range ds {
			fs = append(fs, d.File.Rel)
		}
		ru.Undecided("anchor:"+key, "", "jq definition "+key+" defined more than once ("+strings.Join(fs, ", ")+"): which one is in effect depends on include order")
		return nil
	}
	return ds[0]
}

func (m *c17Model) nested(ru *fw.Rule, d *fw.JQDef, name string, arity int) *fw.JQDef {
	if d == nil {
		return nil
	}
	n := m.jq.Nested(d, name, arity)
	if n == nil {
		ru.Undecided(fmt.Sprintf("anchor:%s.%s/%d", d.Def.Name, name, arity), d.File.Rel, "nested jq definition not found")
	}
	return n
}

// resolve returns the definitions a call inside ctx may denote (lexical scope first, then top level).
func (m *c17Model) resolve(ctx *fw.JQDef, f *gojq.Func) []*fw.JQDef {
	if strings.HasPrefix(f.Name, "$") {
		return nil
	}
	for c := ctx; c != nil; c = c.Parent {
		if len(f.Args) == 0 {
			for _, a := range c.Def.Args {
				if a == f.Name {
					return nil // closure parameter
				}
			}
		}
		var out []*fw.JQDef
		for _, d := range m.jq.Defs {
			if d.Parent == c && d.Def.Name == f.Name && len(d.Def.Args) == len(f.Args) {
				out = append(out, d)
			}
		}
		if len(out) > 0 {
			return out
		}
	}
	return m.jq.TopDefs(f.Name, len(f.Args))
}

// reachDefs returns every definition reachable through calls from node n evaluated in ctx
// (closure arguments are part of n, so they are included).
func (m *c17Model) reachDefs(ctx *fw.JQDef, n any, except ...*fw.JQDef) map[*fw.JQDef]bool {
	seen := map[*fw.JQDef]bool{}
	skip := map[*fw.JQDef]bool{}
	for _, e := range except {
		skip[e] = true
	}
	var visit func(ctx *fw.JQDef, n any)
	visit = func(ctx *fw.JQDef, n any) {
		for _, f := range fw.JQCalls(n) {
			for _, d := range m.resolve(ctx, f) {
				if !seen[d] && !skip[d] {
					seen[d] = true
					visit(d, d.Def.Body)
				}
			}
		}
	}
	visit(ctx, n)
	return seen
}

// codeOf resolves the argument of halt_error/_fatal_error to a number: a literal or an _exit_code_* constant.
func (m *c17Model) codeOf(q *gojq.Query) (string, bool) {
	q = c17Unparen(q)
	if n, ok := fw.JQConstNumber(q); ok {
		return n, true
	}
	if f := fw.JQIsCall(q, "", 0); f != nil {
		if c, ok := m.codes[f.Name]; ok {
			return c, true
		}
	}
	return "", false
}

func c17Pos(d *fw.JQDef) string {
	if d == nil {
		return ""
	}
	return d.File.Rel + ":" + d.Def.Name
}

func c17SortedSet(s map[string]bool) []string {
	var out []string
	for k := range s {
		out = append(out, k)
	}
	sort.Strings(out)
	return out
}

// ---------------------------------------------------------------------------
// C17.codes

var c17WantCodes = []struct{ name, val, class string }{
	{"_exit_code_args_error", "2", "argument error"},
	{"_exit_code_input_io_error", "2", "input file error"},
	{"_exit_code_compile_error", "3", "program does not compile"},
	{"_exit_code_input_decode_error", "4", "undecodable input"},
	{"_exit_code_expr_error", "5", "runtime error in the program"},
}

func c17Codes(m *c17Model) {
	ru := m.r.Rule("C17.codes", "the five exit code constants are number literals 2 (args), 2 (input io), 3 (compile), 4 (input decode), 5 (expr)", 5)
	for _, w := range c17WantCodes {
		d := m.def(ru, w.name, 0)
		if d == nil {
			continue
		}
		n, ok := fw.JQConstNumber(c17Unparen(d.Def.Body))
		if !ok {
			ru.Undecided(w.name, c17Pos(d), "body is not a number literal: "+c17S(d.Def.Body))
			continue
		}
		m.codes[w.name] = n
		ru.Check(n == w.val, w.name, c17Pos(d), "= "+n, fmt.Sprintf("exit code for %s is %s, the contract says %s", w.class, n, w.val))
	}
}

// ---------------------------------------------------------------------------
// C17.stores

var c17ErrorStores = []string{"_input_io_errors", "_input_decode_errors", "_cli_last_expr_error"}

func c17Stores(m *c17Model) {
	ru := m.r.Rule("C17.stores", "every _global_var wrapper reads (arity 0) and writes (arity 1) the same state key, distinct wrappers use distinct keys, the write wrapper applies its own argument", 20)
	byKey := map[string]string{}
	names := map[string]bool{}
	for _, d := range m.jq.Defs {
		if d.Parent != nil || d.File.Rel != c17Internal {
			continue
		}
		body := c17Unparen(d.Def.Body)
		var key string
		switch len(d.Def.Args) {
		case 0:
			f := fw.JQIsCall(body, "_global_var", 1)
			if f == nil {
				continue
			}
			k, ok := fw.JQConstString(f.Args[0])
			if !ok {
				ru.Undecided(d.Key(), c17Pos(d), "state key is not a string literal")
				continue
			}
			key = k
		case 1:
			f := fw.JQIsCall(body, "_global_var", 2)
			if f == nil {
				continue
			}
			k, ok := fw.JQConstString(f.Args[0])
			if !ok {
				ru.Undecided(d.Key(), c17Pos(d), "state key is not a string literal")
				continue
			}
			key = k
			if fw.JQIsCall(f.Args[1], d.Def.Args[0], 0) == nil {
				ru.Fail(d.Key(), c17Pos(d), "write wrapper does not pass its own argument as the update: "+c17S(f.Args[1]))
				continue
			}
		default:
			continue
		}
		names[d.Def.Name] = true
		if prev, ok := m.stores[d.Def.Name]; ok && prev != key {
			ru.Fail(d.Key(), c17Pos(d), fmt.Sprintf("reader and writer of %s use different state keys %q and %q", d.Def.Name, prev, key))
			continue
		}
		if other, ok := byKey[key]; ok && other != d.Def.Name {
			ru.Fail(d.Key(), c17Pos(d), fmt.Sprintf("state key %q is shared by %s and %s: the two memories alias", key, other, d.Def.Name))
			continue
		}
		m.stores[d.Def.Name] = key
		byKey[key] = d.Def.Name
		ru.Ok(d.Key(), c17Pos(d), "key "+key)
	}
	for _, s := range c17ErrorStores {
		if len(m.jq.TopDefs(s, 0)) != 1 || len(m.jq.TopDefs(s, 1)) != 1 || !names[s] {
			ru.Undecided("anchor:"+s, c17Internal, "error store "+s+" must have exactly one reader/0 and one writer/1 built on _global_var")
		}
	}
	// _global_var/2 itself: read-modify-write of .[$k] on the Go-held state
	if d := m.def(ru, "_global_var", 2); d != nil {
		k, fn := d.Def.Args[0], d.Def.Args[1]
		steps := c17Steps(d.Def.Body)
		ok := false
		if len(steps) >= 1 {
			if set := fw.JQIsCall(steps[0].Q, "_global_state", 1); set != nil {
				in := c17Steps(set.Args[0])
				if len(in) == 2 && fw.JQIsCall(in[0].Q, "_global_state", 0) != nil {
					u := c17Unparen(in[1].Q)
					if u.Op == gojq.OpModify && c17S(u.Left) == ".["+k+"]" && fw.JQIsCall(u.Right, fn, 0) != nil {
						ok = true
					}
				}
			}
		}
		ru.Check(ok, "_global_var/2", c17Pos(d), "_global_state(_global_state | .[$k] |= f)", "_global_var/2 is not a read-modify-write of .["+k+"] with the update "+fn+": "+c17S(d.Def.Body))
	}
	if d := m.def(ru, "_global_var", 1); d != nil {
		k := d.Def.Args[0]
		ru.Check(c17S(d.Def.Body) == "_global_state["+k+"]", "_global_var/1", c17Pos(d), "_global_state[$k]", "_global_var/1 does not read key "+k+" of the state: "+c17S(d.Def.Body))
	}
}

// ---------------------------------------------------------------------------
// C17.finally

// c17Finally: _finally(f; fin) evaluates f then fin on success/empty, and fin then re-raises on error.
func c17Finally(m *c17Model) {
	ru := m.r.Rule("C17.finally", "_finally(f; fin): try (f, (fin|empty)) catch ((fin|empty), error) — fin runs after f on success and empty, and on error before the error is re-raised; fin's outputs are dropped", 4)
	d := m.def(ru, "_finally", 2)
	if d == nil {
		return
	}
	f, fin := d.Def.Args[0], d.Def.Args[1]
	t := c17IsTry(d.Def.Body)
	if t == nil || t.Catch == nil {
		ru.Fail("_finally:shape", c17Pos(d), "body is not try ... catch ...: "+c17S(d.Def.Body))
		return
	}
	isFinEmpty := func(q *gojq.Query) bool {
		st := c17Steps(q)
		return len(st) == 2 && st[0].Bind == nil && fw.JQIsCall(st[0].Q, fin, 0) != nil && fw.JQIsCall(st[1].Q, "empty", 0) != nil
	}
	body := c17Commas(t.Body)
	ru.Check(len(body) == 2 && fw.JQIsCall(body[0], f, 0) != nil, "_finally:body-first", c17Pos(d), "try body evaluates "+f+" first",
		"try body does not start with the protected expression "+f+": "+c17S(t.Body))
	ru.Check(len(body) == 2 && isFinEmpty(body[1]), "_finally:body-fin", c17Pos(d), "then ("+fin+" | empty)",
		"after "+f+" completes the finaliser "+fin+" is not evaluated (with its outputs dropped): "+c17S(t.Body))
	h := c17Commas(t.Catch)
	ru.Check(len(h) == 2 && isFinEmpty(h[0]), "_finally:catch-fin", c17Pos(d), "catch evaluates ("+fin+" | empty) first",
		"on error the finaliser "+fin+" is not evaluated before re-raising: "+c17S(t.Catch))
	ru.Check(len(h) == 2 && fw.JQIsCall(h[1], "error", 0) != nil, "_finally:catch-reraise", c17Pos(d), "then re-raises with error",
		"on error the error is not re-raised after the finaliser: "+c17S(t.Catch))
}

// ---------------------------------------------------------------------------
// C17.prec

// c17MainFinally returns _main and its single _finally(f; fin) call.
func (m *c17Model) mainFinally(ru *fw.Rule) (*fw.JQDef, *gojq.Func) {
	d := m.def(ru, "_main", 0)
	if d == nil {
		return nil, nil
	}
	calls := c17Calls(d.Def.Body, "_finally", 2, true)
	if len(calls) != 1 {
		ru.Undecided("anchor:_main._finally", c17Pos(d), fmt.Sprintf("_main has %d calls of _finally/2, expected exactly 1", len(calls)))
		return d, nil
	}
	return d, calls[0]
}

// c17HaltOf recognises "null | halt_error(code)" and returns the code expression.
func c17HaltOf(q *gojq.Query) (*gojq.Query, bool) {
	st := c17Steps(q)
	if len(st) != 2 || st[0].Bind != nil || st[1].Bind != nil || !c17IsNull(st[0].Q) {
		return nil, false
	}
	h := fw.JQIsCall(st[1].Q, "halt_error", 1)
	if h == nil {
		return nil, false
	}
	return h.Args[0], true
}

func c17Prec(m *c17Model) {
	ru := m.r.Rule("C17.prec", "the finaliser of _main tests the error memories in the order io errors -> 2, decode errors -> 4, expr error -> 5; each test halts (null | halt_error) with its own code and nothing else is done there", 4)
	d, call := m.mainFinally(ru)
	if call == nil {
		return
	}
	want := []struct{ store, code string }{
		{"_input_io_errors", "2"}, {"_input_decode_errors", "4"}, {"_cli_last_expr_error", "5"},
	}
	type dec struct {
		store, code string
	}
	var got []dec
	shapeOK := true
	var walk func(q *gojq.Query)
	walk = func(q *gojq.Query) {
		for _, s := range c17Steps(q) {
			i := c17IsIf(s.Q)
			if i == nil || s.Bind != nil {
				shapeOK = false
				ru.Fail("fin:step:"+c17S(s.Q), c17Pos(d), "finaliser contains a step that is not a test of an error memory: "+c17S(s.Q))
				continue
			}
			for _, a := range c17Arms(i) {
				if a.Cond == nil {
					if a.Then != nil && !c17IsIdentity(a.Then) {
						walk(a.Then)
					}
					continue
				}
				g := fw.JQIsCall(a.Cond, "", 0)
				if g == nil || m.stores[g.Name] == "" {
					shapeOK = false
					ru.Fail("fin:cond:"+c17S(a.Cond), c17Pos(d), "finaliser tests something that is not an error memory reader: "+c17S(a.Cond))
					continue
				}
				codeQ, ok := c17HaltOf(a.Then)
				if !ok {
					shapeOK = false
					ru.Fail("fin:halt:"+g.Name, c17Pos(d), "the arm of "+g.Name+" does not halt with null | halt_error(code): "+c17S(a.Then))
					continue
				}
				code, ok := m.codeOf(codeQ)
				if !ok {
					shapeOK = false
					ru.Undecided("fin:code:"+g.Name, c17Pos(d), "exit code not resolvable: "+c17S(codeQ))
					continue
				}
				got = append(got, dec{g.Name, code})
			}
		}
	}
	walk(call.Args[1])
	if !shapeOK {
		return
	}
	for i, w := range want {
		key := "fin:" + w.store
		if i >= len(got) {
			ru.Fail(key, c17Pos(d), "the finaliser has no test of "+w.store+" (exit status "+w.code+" is never produced)")
			continue
		}
		g := got[i]
		if g.store != w.store {
			ru.Fail(key, c17Pos(d), fmt.Sprintf("test #%d of the finaliser is %s, the precedence 2 over 4 over 5 requires %s there", i+1, g.store, w.store))
			continue
		}
		ru.Check(g.code == w.code, key, c17Pos(d), "halts with "+g.code, fmt.Sprintf("%s halts with %s instead of %s", w.store, g.code, w.code))
	}
	ru.Check(len(got) == len(want), "fin:count", c17Pos(d), "exactly three tests", fmt.Sprintf("finaliser has %d tests, expected 3", len(got)))
}
