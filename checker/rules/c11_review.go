package rules

// C11.repl and the self-review extensions of C11.ctor / C11.closed.
//
// C11.repl — the interactive evaluation runs the user's program once per collected input and the
// slurp functions (repl, slurp, help as last pipeline stage) evaluate the program the user wrote:
//   - every value piped into _repl/1 is ONE array collecting the inputs (a `[...]`, a map(...), or a
//     definition that yields one) and, matching that, the input query _repl_eval puts in front of the
//     program denotes `.[]`; one without the other runs the program on the array itself or iterates
//     inside the user's values;
//   - a slurp function evaluates only the `rewrite` and `slurp_args[k]` fields of the descriptor
//     _eval_query_rewrite built (never `orig`, which still contains the slurp call itself), a slurp
//     function that evaluates anything evaluates `rewrite` (the user's program minus the slurp call),
//     and the sub-REPL it opens is fed by exactly that evaluation.

import (
	"fmt"
	"strings"

	"github.com/wader/gojq"

	"fqverif/fw"
)

const c11ReplJQ = "pkg/interp/repl.jq"

func (c *c11Ctx) repl() {
	ru := c.r.Rule("C11.repl", "every value piped into _repl/1 is one array collecting the inputs and _repl_eval's input_query denotes `.[]`; _repl_slurp_eval collects the outputs of one evaluation; slurp functions evaluate only .rewrite / .slurp_args[k] of the descriptor, evaluate .rewrite when they evaluate anything, and feed the sub-REPL from the evaluation of .rewrite; every definition that evaluates a descriptor is the target of a slurps table", 15)

	// --- the slurp functions named by the slurps tables
	slurpFns := map[string]*fw.JQDef{}
	for _, t := range c.slurpTables() {
		for _, kv := range t.Term.Object.KeyVals {
			name, ok := fw.JQConstString(kv.Val)
			if !ok {
				continue
			}
			for _, sd := range c.jq.TopDefs(name, 1) {
				if strings.HasPrefix(sd.File.Rel, "pkg/interp/") && strings.HasPrefix(sd.Def.Args[0], "$") {
					slurpFns[sd.Key()] = c.inl(sd)
				}
			}
		}
	}
	if len(slurpFns) == 0 {
		ru.Undecided("anchor:slurps", "", "no slurp function found through the slurps tables")
	}
	evaluator := c.def(ru, c11ReplJQ, "_repl_slurp_eval", 1)
	replDef := c.def(ru, c11ReplJQ, "_repl", 1)
	if evaluator == nil || replDef == nil {
		return
	}

	// --- _repl_slurp_eval yields one array of the outputs of one evaluation
	{
		why := ""
		ok := c.arrayValued(evaluator.Def.Body, 0, &why)
		ru.Check(ok, "collect:"+evaluator.Key(), c.pos(evaluator), "yields one array of outputs (errors are re-raised)",
			evaluator.Key()+" must yield the outputs of the evaluation collected in ONE array (its callers index it with [0]/[] and _repl iterates it): "+why)
	}

	// --- what each slurp function evaluates
	nEval := 0
	for _, k := range fw.SortedKeys(slurpFns) {
		sd := slurpFns[k]
		p0 := sd.Def.Args[0]
		var fields []string
		for _, f := range fw.JQCalls(sd.Def.Body) {
			if f.Name != evaluator.Def.Name || len(f.Args) != 1 {
				continue
			}
			nEval++
			ch := c11QueryChain(f.Args[0])
			field := ""
			switch {
			case ch == nil || ch.Root != p0 || len(ch.Names) == 0 || !strings.HasPrefix(ch.Steps[0], "."):
				field = "?"
			case ch.Names[0] == "rewrite" && len(ch.Steps) == 1:
				field = "rewrite"
			case ch.Names[0] == "slurp_args" && len(ch.Steps) == 2 && strings.HasPrefix(ch.Steps[1], "["):
				field = "slurp_args[k]"
			default:
				field = "?"
			}
			fields = append(fields, field)
			key := fmt.Sprintf("slurp-eval:%s:%s", sd.Key(), fw.JQStr(c11Unparen(f.Args[0])))
			ru.Check(field != "?", key, c.pos(sd), "evaluates "+field+" of the descriptor",
				fmt.Sprintf("%s evaluates `%s`; a slurp function may evaluate only %s.rewrite (the user's program with the slurp call cut out) and %s.slurp_args[k] (one argument of the call) — .orig still ends in the slurp call itself, anything else is not a printed user query", sd.Key(), fw.JQStr(f.Args[0]), p0, p0))
		}
		if len(fields) == 0 {
			continue
		}
		has := false
		for _, f := range fields {
			has = has || f == "rewrite"
		}
		ru.Check(has, "slurp-eval:"+sd.Key()+":rewrite", c.pos(sd), "the rewritten user program is evaluated",
			sd.Key()+" evaluates queries of the descriptor but never "+p0+".rewrite: the part of the user's program in front of the slurp call is not evaluated")
	}
	if nEval == 0 {
		ru.Undecided("slurp-eval", "", "no slurp function evaluates the descriptor through "+evaluator.Key())
	}
	// every definition that consumes a descriptor is the target of some slurps table (otherwise the
	// user-level function it implements was re-routed to another handler or lost)
	for _, d := range c.interpDefs() {
		if len(d.Def.Args) != 1 || !strings.HasPrefix(d.Def.Args[0], "$") || d.Key() == evaluator.Key() {
			continue
		}
		consumes := false
		for _, f := range fw.JQCalls(d.Def.Body) {
			if f.Name == evaluator.Def.Name && len(f.Args) == 1 {
				if ch := c11QueryChain(f.Args[0]); ch != nil && ch.Root == d.Def.Args[0] && len(ch.Names) > 0 {
					consumes = true
				}
			}
		}
		if !consumes {
			continue
		}
		_, isTarget := slurpFns[d.Key()]
		ru.Check(isTarget, "slurp-target:"+d.Key(), c.pos(d), "named by a slurps table",
			d.Key()+" evaluates a slurp descriptor but no slurps table routes a call to it: the user-level function it implements is handled by something else")
	}

	// --- feeders of _repl/1
	total := 0
	for _, d := range c.interpDefs() {
		for _, f := range fw.JQCalls(d.Def.Body) {
			if f.Name == "_repl" && len(f.Args) == 1 {
				total++
			}
		}
	}
	fed := 0
	allArrays := true
	for _, d := range c.interpDefs() {
		d := d
		n := 0
		fw.WalkJQ(d.Def.Body, func(x any) bool {
			q, ok := x.(*gojq.Query)
			if !ok || q.Left == nil || q.Right == nil || q.Op != gojq.OpPipe {
				return true
			}
			rs := c11Stages(q.Right)
			if len(rs) == 0 || rs[0].isBind() || c11Call(rs[0].Q, "_repl", 1) == nil {
				return true
			}
			ls := c11Stages(q.Left)
			last := ls[len(ls)-1]
			n++
			fed++
			key := fmt.Sprintf("feed:%s#%d", d.Key(), n)
			if last.isBind() {
				ru.Fail(key, c.pos(d), "the value piped into _repl is not visible")
				allArrays = false
				return true
			}
			// a feeder bound to a variable first:  X as $v | $v | _repl(...)
			if vn, isVar := c11Var(last.Q, ""); isVar {
				if srcs := c11BindSources(d.Def.Body, vn); len(srcs) == 1 {
					last = c11Stage{Q: srcs[0]}
				}
			}
			why := ""
			okA := c.arrayValued(last.Q, 0, &why)
			allArrays = allArrays && okA
			ru.Check(okA, key, c.pos(d), "_repl is fed one array: `"+fw.JQStr(last.Q)+"`",
				fmt.Sprintf("%s pipes `%s` into _repl, which is not one array collecting the inputs (%s); _repl_eval iterates its input with .[] and the prompt counts its elements", d.Key(), fw.JQStr(last.Q), why))
			if sd, isSlurp := slurpFns[d.Key()]; isSlurp {
				f := c11Call(last.Q, evaluator.Def.Name, 1)
				okF := f != nil && c11IsChain(f.Args[0], sd.Def.Args[0], ".rewrite")
				ru.Check(okF, key+":rewrite", c.pos(d), "the sub-REPL gets the outputs of the rewritten program",
					fmt.Sprintf("%s must open the sub-REPL on %s(%s.rewrite), the outputs of the user's program in front of the call; it pipes `%s`", d.Key(), evaluator.Def.Name, sd.Def.Args[0], fw.JQStr(last.Q)))
			}
			return true
		}, false)
	}
	if !ru.Check(fed == total && total > 0, "feed:all", c11ReplJQ, fmt.Sprintf("all %d calls of _repl/1 are the right operand of a pipe", total),
		fmt.Sprintf("%d of %d calls of _repl/1 get their input from a visible pipe; the others run on whatever `.` is", fed, total)) {
		allArrays = false
	}

	// --- matching input query of _repl_eval
	if d := c.def(ru, c11ReplJQ, "_repl_eval", 3); d != nil {
		var calls []*gojq.Func
		for _, f := range fw.JQCalls(d.Def.Body) {
			if f.Name == "eval" && len(f.Args) == 4 {
				calls = append(calls, f)
			}
		}
		var in *gojq.Query
		found := false
		if len(calls) == 1 {
			if obj := c11ObjectLit(calls[0].Args[1]); obj != nil {
				for _, kv := range obj.KeyVals {
					if k, ok := c11KVKey(kv); ok && k == "input_query" {
						in = kv.Val
						found = true
					}
				}
			}
		}
		den := "nothing"
		if found {
			den = c11DenoteAST(in, nil, nil, 0).String()
		}
		ru.Check(found && den == ".[]" && allArrays, "input:"+d.Key(), c.pos(d), "input_query denotes .[] and every feeder is one array",
			fmt.Sprintf("_repl is fed one array of inputs, so _repl_eval must put `.[]` in front of the program (one evaluation per input); its input_query denotes `%s`", den))
	}
}

// arrayValued: q yields exactly one array whenever it yields (or raises an error).
func (c *c11Ctx) arrayValued(q *gojq.Query, depth int, why *string) bool {
	st := c11Stages(q)
	if len(st) == 0 || depth > 4 {
		*why = "not readable"
		return false
	}
	last := st[len(st)-1]
	if last.isBind() {
		*why = "ends in a binding"
		return false
	}
	e := c11Unparen(last.Q)
	if !c11Plain(e) || e.Left != nil || e.Term == nil || len(e.Term.SuffixList) > 0 {
		*why = "`" + fw.JQStr(e) + "` is not an array constructor"
		return false
	}
	t := e.Term
	switch t.Type {
	case gojq.TermTypeArray:
		return true
	case gojq.TermTypeIf:
		if t.If.Else == nil {
			*why = "conditional without else"
			return false
		}
		ok := c.arrayValued(t.If.Then, depth, why) && c.arrayValued(t.If.Else, depth, why)
		for _, ei := range t.If.Elif {
			ok = ok && c.arrayValued(ei.Then, depth, why)
		}
		return ok
	case gojq.TermTypeTry:
		if !c.arrayValued(t.Try.Body, depth, why) {
			return false
		}
		if t.Try.Catch == nil {
			*why = "try without catch yields nothing on error"
			return false
		}
		if c11Call(t.Try.Catch, "error", 0) == nil && c11Call(t.Try.Catch, "error", 1) == nil {
			*why = "the catch branch yields a value of its own"
			return false
		}
		return true
	case gojq.TermTypeFunc:
		f := t.Func
		if f.Name == "map" && len(f.Args) == 1 && len(c.jq.TopDefs("map", 1)) == 0 {
			return true
		}
		var cands []*fw.JQDef
		for _, d := range c.jq.TopDefs(f.Name, len(f.Args)) {
			if strings.HasPrefix(d.File.Rel, "pkg/interp/") {
				cands = append(cands, d)
			}
		}
		if len(cands) != 1 {
			*why = "`" + fw.JQStr(e) + "` is not an array constructor"
			return false
		}
		return c.arrayValued(c.inl(cands[0]).Def.Body, depth+1, why)
	}
	*why = "`" + fw.JQStr(e) + "` is not an array constructor"
	return false
}

// commasGuard: the only case _query_commas may treat specially is the empty list.
func (c *c11Ctx) commasGuard(ru *fw.Rule, d *fw.JQDef) {
	body := c11Unparen(d.Def.Body)
	key := "flow:_query_commas:guard"
	hasReduce := func(q *gojq.Query) bool {
		found := false
		fw.WalkJQ(q, func(n any) bool {
			if _, ok := n.(*gojq.Reduce); ok {
				found = true
			}
			return !found
		}, false)
		return found
	}
	if !c11Plain(body) || body.Left != nil || body.Term == nil || body.Term.Type != gojq.TermTypeIf || len(body.Term.SuffixList) > 0 {
		// no guard at all: the fold handles every list
		ru.Check(hasReduce(body), key, c.pos(d), "no special case", "_query_commas has neither a guard nor a fold")
		return
	}
	iff := body.Term.If
	if len(iff.Elif) > 0 || iff.Else == nil {
		ru.Fail(key, c.pos(d), "_query_commas must be `if <list is empty> then … else <fold> end`")
		return
	}
	class := c11LengthClass(iff.Cond)
	fold := iff.Else
	if class == "nonempty" {
		fold = iff.Then
	}
	ru.Check((class == "empty" || class == "nonempty") && hasReduce(fold), key, c.pos(d), "only the empty list bypasses the fold",
		fmt.Sprintf("_query_commas must fold every non-empty list of queries (a, b, c in order); its guard `%s` sends lists with elements past the fold, dropping arguments of the slurp call", fw.JQStr(iff.Cond)))
}

// c11LengthClass: the condition holds exactly for the empty input ("empty"), exactly for non-empty ("nonempty"), or "?".
func c11LengthClass(q *gojq.Query) string {
	q = c11Unparen(q)
	if !c11Plain(q) || q.Left == nil || q.Right == nil {
		return "?"
	}
	op := q.Op
	l, r := q.Left, q.Right
	if _, isNum := c11ConstInt(l); isNum {
		l, r = r, l
		switch op {
		case gojq.OpLt:
			op = gojq.OpGt
		case gojq.OpGt:
			op = gojq.OpLt
		case gojq.OpLe:
			op = gojq.OpGe
		case gojq.OpGe:
			op = gojq.OpLe
		}
	}
	// . == [] / . != []
	if c11IsIdentity(l) || c11IsIdentity(r) {
		o := r
		if c11IsIdentity(r) {
			o = l
		}
		o = c11Unparen(o)
		if c11Plain(o) && o.Left == nil && o.Term != nil && o.Term.Type == gojq.TermTypeArray && (o.Term.Array == nil || o.Term.Array.Query == nil) && len(o.Term.SuffixList) == 0 {
			switch q.Op {
			case gojq.OpEq:
				return "empty"
			case gojq.OpNe:
				return "nonempty"
			}
		}
		return "?"
	}
	if c11Call(l, "length", 0) == nil {
		return "?"
	}
	n, ok := c11ConstInt(r)
	if !ok {
		return "?"
	}
	switch {
	case (op == gojq.OpEq && n == "0") || (op == gojq.OpLt && n == "1") || (op == gojq.OpLe && n == "0"):
		return "empty"
	case (op == gojq.OpNe && n == "0") || (op == gojq.OpGt && n == "0") || (op == gojq.OpGe && n == "1"):
		return "nonempty"
	}
	return "?"
}

// c11BindSources: the source expressions of every `X as $name` inside body.
func c11BindSources(body *gojq.Query, name string) []*gojq.Query {
	var srcs []*gojq.Query
	fw.WalkJQ(body, func(n any) bool {
		t, isT := n.(*gojq.Term)
		if !isT {
			return true
		}
		for i, sfx := range t.SuffixList {
			if sfx.Bind == nil {
				continue
			}
			for _, pt := range sfx.Bind.Patterns {
				if pt.Name == name {
					src := *t
					src.SuffixList = t.SuffixList[:i]
					srcs = append(srcs, &gojq.Query{Term: &src})
				}
			}
		}
		return true
	}, false)
	return srcs
}
