package rules

// C20.sigclose: life cycle (typestate) of the channels of the os/signal bridge.
//
// While a channel is registered with signal.Notify the runtime's signal goroutine is an
// asynchronous SENDER on it: closing the channel before signal.Stop(ch) has returned lets a
// SIGINT delivered in between make os/signal send on a closed channel, which kills fq with
// "panic: send on closed channel" (only signal.Stop guarantees "no more sends when it returns";
// signal.Reset/Ignore do not wait for a delivery in flight). The same holds for the channel the
// bridge forwards to: only its sender may close it, after its last send.
//
// The rule executes the registering function abstractly, path by path, in EXECUTION order:
// deferred calls are kept on a stack and run last-in-first-out at RunDefers, deferred / directly
// called closures and fq helpers that receive the channel are entered, a goroutine the channel
// is handed to is entered with the state at the go statement (the spawner must then not touch
// the channel any more). State per channel: registered?, closed?. Nothing is matched by text,
// position or statement order in the source.

import (
	"fmt"
	"go/token"
	"go/types"
	"sort"
	"strings"

	"golang.org/x/tools/go/ssa"

	"fqverif/fw"
)

type c20ChState struct{ reg, closed, handed bool }

type c20LifeMemo struct {
	fn *ssa.Function
	st c20ChState
}

// c20Life is the abstract execution of one channel.
type c20Life struct {
	mc     ssa.Value          // the channel (its make)
	alias  map[ssa.Value]bool // parameters bound to the channel in entered callees
	strict bool               // any use that is not understood is reported

	kind    map[ssa.Instruction]string // event instruction -> notify/stop/close/send
	viol    map[ssa.Instruction]string
	entered map[*ssa.Function]bool
	order   []*ssa.Function
	undec   map[string]bool
	fields  map[string]bool // "<struct type>#<field>" the channel is published in (non strict only)
	memo    map[c20LifeMemo][]c20ChState
	active  map[c20LifeMemo]bool
	ment    map[*ssa.Function]bool
}

func c20NewLife(mc ssa.Value, strict bool) *c20Life {
	return &c20Life{mc: mc, strict: strict, alias: map[ssa.Value]bool{}, kind: map[ssa.Instruction]string{}, viol: map[ssa.Instruction]string{},
		entered: map[*ssa.Function]bool{}, undec: map[string]bool{}, fields: map[string]bool{}, memo: map[c20LifeMemo][]c20ChState{},
		active: map[c20LifeMemo]bool{}, ment: map[*ssa.Function]bool{}}
}

func (l *c20Life) isCh(v ssa.Value) bool {
	if v == nil {
		return false
	}
	r := fw.C20Resolve(v)
	return r == l.mc || l.alias[r]
}

// mentions: fn or a closure nested in it uses the channel.
func (l *c20Life) mentions(fn *ssa.Function) bool {
	if v, ok := l.ment[fn]; ok {
		return v
	}
	found := false
	for _, f := range fw.WithClosures(fn) {
		fw.EachInstr(f, func(ins ssa.Instruction) {
			for _, op := range ins.Operands(nil) {
				if *op != nil && l.isCh(*op) {
					found = true
				}
			}
		})
	}
	l.ment[fn] = found
	return found
}

func (l *c20Life) und(format string, a ...any) { l.undec[fmt.Sprintf(format, a...)] = true }

func (l *c20Life) event(ins ssa.Instruction, kind string, st c20ChState) c20ChState {
	l.kind[ins] = kind
	bad := func(msg string) {
		if _, ok := l.viol[ins]; !ok {
			l.viol[ins] = msg
		}
	}
	if st.handed {
		l.und("%s: %s of the channel after it was handed to a goroutine that also uses it (cannot be ordered)", fw.ShortFn(ins.Parent()), kind)
	}
	switch kind {
	case "notify":
		if st.closed {
			bad("signal.Notify registers a channel that is already closed on some path: the next signal panics with send on closed channel")
		}
		st.reg = true
	case "stop":
		st.reg = false
	case "close":
		if st.reg {
			bad("the channel is closed while still registered with os/signal: on some path signal.Stop(ch) has not run before close(ch) in EXECUTION order (deferred calls run last-in-first-out); a SIGINT delivered in between makes os/signal send on a closed channel and fq dies with a panic")
		}
		if st.closed {
			bad("the channel is closed twice on some path (panic: close of closed channel)")
		}
		st.closed = true
	case "send":
		if st.closed {
			bad("the channel is sent on after it was closed on some path (panic: send on closed channel)")
		}
	}
	return st
}

func (l *c20Life) calleeOf(cc *ssa.CallCommon) *ssa.Function {
	if cc.IsInvoke() {
		return nil
	}
	switch v := fw.C20Resolve(cc.Value).(type) {
	case *ssa.MakeClosure:
		f, _ := v.Fn.(*ssa.Function)
		return f
	case *ssa.Function:
		return v
	}
	return nil
}

func (l *c20Life) argIsCh(cc *ssa.CallCommon) bool {
	for _, a := range cc.Args {
		if l.isCh(a) {
			return true
		}
	}
	return false
}

// applyCall: the effect of executing the call cc (instruction ins) in state st.
func (l *c20Life) applyCall(cc *ssa.CallCommon, ins ssa.Instruction, st c20ChState, depth int) []c20ChState {
	if b, ok := cc.Value.(*ssa.Builtin); ok {
		switch b.Name() {
		case "close":
			if len(cc.Args) == 1 && l.isCh(cc.Args[0]) {
				return []c20ChState{l.event(ins, "close", st)}
			}
		case "len", "cap", "print", "println":
		default:
			if l.argIsCh(cc) {
				l.und("%s: channel passed to builtin %s", fw.ShortFn(ins.Parent()), b.Name())
			}
		}
		return []c20ChState{st}
	}
	f := l.calleeOf(cc)
	if f == nil {
		if l.argIsCh(cc) {
			l.und("%s: channel passed to a dynamically dispatched call", fw.ShortFn(ins.Parent()))
		}
		return []c20ChState{st}
	}
	switch f.String() {
	case "os/signal.Notify":
		if len(cc.Args) > 0 && l.isCh(cc.Args[0]) {
			return []c20ChState{l.event(ins, "notify", st)}
		}
		return []c20ChState{st}
	case "os/signal.Stop":
		if len(cc.Args) > 0 && l.isCh(cc.Args[0]) {
			return []c20ChState{l.event(ins, "stop", st)}
		}
		return []c20ChState{st}
	}
	if !fw.InFq(f) || f.Blocks == nil {
		if l.argIsCh(cc) {
			l.und("%s: channel passed to %s", fw.ShortFn(ins.Parent()), f.String())
		}
		return []c20ChState{st}
	}
	for i, a := range cc.Args {
		if l.isCh(a) && i < len(f.Params) {
			if !l.alias[f.Params[i]] {
				l.alias[f.Params[i]] = true
				l.ment = map[*ssa.Function]bool{}
			}
		}
	}
	if !l.mentions(f) {
		return []c20ChState{st}
	}
	return l.run(f, st, depth+1)
}

type c20LifeItem struct {
	b  *ssa.BasicBlock
	i  int
	st c20ChState
	ds []*ssa.Defer
}

// run executes fn from its entry in state st and returns the states at its returns (after the
// deferred calls ran).
func (l *c20Life) run(fn *ssa.Function, st c20ChState, depth int) []c20ChState {
	mk := c20LifeMemo{fn, st}
	if out, ok := l.memo[mk]; ok {
		return out
	}
	if l.active[mk] || depth > 12 {
		l.und("%s: recursion while following the channel", fw.ShortFn(fn))
		return []c20ChState{st}
	}
	l.active[mk] = true
	defer delete(l.active, mk)
	if !l.entered[fn] {
		l.entered[fn] = true
		l.order = append(l.order, fn)
	}
	dnum := map[*ssa.Defer]int{}
	fw.EachInstr(fn, func(ins ssa.Instruction) {
		if d, ok := ins.(*ssa.Defer); ok {
			dnum[d] = len(dnum) + 1
		}
	})
	dkey := func(ds []*ssa.Defer) string {
		var sb strings.Builder
		for _, d := range ds {
			fmt.Fprintf(&sb, "%d,", dnum[d])
		}
		return sb.String()
	}
	type vkey struct {
		b  *ssa.BasicBlock
		i  int
		st c20ChState
		ds string
	}
	seen := map[vkey]bool{}
	outs := map[c20ChState]bool{}
	if len(fn.Blocks) == 0 {
		return []c20ChState{st}
	}
	work := []c20LifeItem{{fn.Blocks[0], 0, st, nil}}
	fork := func(b *ssa.BasicBlock, i int, sts []c20ChState, ds []*ssa.Defer) {
		for _, s := range sts {
			work = append(work, c20LifeItem{b, i, s, ds})
		}
	}
	for steps := 0; len(work) > 0; steps++ {
		if steps > 200000 {
			l.und("%s: exploration budget exceeded", fw.ShortFn(fn))
			break
		}
		it := work[len(work)-1]
		work = work[:len(work)-1]
		k := vkey{it.b, it.i, it.st, dkey(it.ds)}
		if seen[k] {
			continue
		}
		seen[k] = true
		cur, ds := it.st, it.ds
		stop := false
		for i := it.i; i < len(it.b.Instrs) && !stop; i++ {
			switch x := it.b.Instrs[i].(type) {
			case *ssa.Defer:
				if len(ds) >= 8 {
					l.und("%s: more than 8 pending deferred calls on a path (defer in a loop)", fw.ShortFn(fn))
					stop = true
					break
				}
				ds = append(append([]*ssa.Defer{}, ds...), x)
			case *ssa.RunDefers:
				sts := []c20ChState{cur}
				for j := len(ds) - 1; j >= 0; j-- {
					nx := map[c20ChState]bool{}
					for _, s := range sts {
						for _, o := range l.applyCall(ds[j].Common(), ds[j], s, depth) {
							nx[o] = true
						}
					}
					sts = sts[:0]
					for s := range nx {
						sts = append(sts, s)
					}
				}
				fork(it.b, i+1, sts, nil)
				stop = true
			case *ssa.Call:
				sts := l.applyCall(x.Common(), x, cur, depth)
				if len(sts) == 1 {
					cur = sts[0]
				} else {
					fork(it.b, i+1, sts, ds)
					stop = true
				}
			case *ssa.Go:
				cc := x.Common()
				f := l.calleeOf(cc)
				switch {
				case f != nil && fw.InFq(f) && f.Blocks != nil:
					for j, a := range cc.Args {
						if l.isCh(a) && j < len(f.Params) && !l.alias[f.Params[j]] {
							l.alias[f.Params[j]] = true
							l.ment = map[*ssa.Function]bool{}
						}
					}
					if l.mentions(f) {
						if cur.handed {
							l.und("%s: channel handed to more than one goroutine", fw.ShortFn(fn))
						}
						l.run(f, cur, depth+1)
						cur.handed = true
					}
				case l.argIsCh(cc):
					l.und("%s: channel handed to a goroutine that cannot be resolved", fw.ShortFn(fn))
				}
			case *ssa.Send:
				if l.isCh(x.Chan) {
					cur = l.event(x, "send", cur)
				}
			case *ssa.Select:
				for _, s := range x.States {
					if s.Dir == types.SendOnly && l.isCh(s.Chan) {
						cur = l.event(x, "send", cur)
					}
				}
			case *ssa.Return:
				outs[cur] = true
				stop = true
			case *ssa.Panic:
				stop = true
			case *ssa.If, *ssa.Jump:
				for _, s := range it.b.Succs {
					work = append(work, c20LifeItem{s, 0, cur, ds})
				}
				stop = true
			}
		}
	}
	var out []c20ChState
	for s := range outs {
		out = append(out, s)
	}
	sort.Slice(out, func(i, j int) bool { return fmt.Sprint(out[i]) < fmt.Sprint(out[j]) })
	l.memo[mk] = out
	return out
}

// scanUses checks, over the functions given, that every use of the channel is one the
// exploration understands; events in code the exploration never entered are reported.
func (l *c20Life) scanUses(fns []*ssa.Function) {
	for _, fn := range fns {
		name := fw.ShortFn(fn)
		fw.EachInstr(fn, func(ins ssa.Instruction) {
			uses := false
			for _, op := range ins.Operands(nil) {
				if *op != nil && l.isCh(*op) {
					uses = true
				}
			}
			if !uses {
				return
			}
			isEvent := false
			switch x := ins.(type) {
			case ssa.CallInstruction:
				cc := x.Common()
				if fw.IsBuiltinCall(x, "close") {
					isEvent = true
				} else if f := cc.StaticCallee(); f != nil && (f.String() == "os/signal.Notify" || f.String() == "os/signal.Stop") {
					isEvent = true
				} else if l.isCh(cc.Value) {
					l.und("%s: channel value called", name)
				}
				// other calls: judged by applyCall when executed
				if !isEvent && !l.entered[fn] {
					l.und("%s: the channel is passed on in code that is not executed in a known order relative to the registering function", name)
				}
			case *ssa.Send:
				isEvent = true
			case *ssa.Select:
				for _, s := range x.States {
					if s.Dir == types.SendOnly && l.isCh(s.Chan) {
						isEvent = true
					}
				}
			case *ssa.UnOp:
				// receive, or load of the variable cell
			case *ssa.DebugRef, *ssa.MakeClosure, *ssa.ChangeType: // a direction conversion is still the channel: its uses are checked too
			case *ssa.Store:
				if !l.isCh(x.Val) {
					break
				}
				switch a := x.Addr.(type) {
				case *ssa.Alloc, *ssa.FreeVar:
					if cell := fw.CellAlloc(a); cell == nil {
						l.und("%s: channel stored through a pointer", name)
					} else if sts, esc := fw.CellStores(cell); esc || len(sts) != 1 {
						l.und("%s: channel stored in a variable that is assigned more than once or escapes", name)
					}
				case *ssa.FieldAddr:
					if l.strict {
						l.und("%s: channel stored in a struct field (other code may close or send on it)", name)
					} else {
						l.fields[c20FieldKey(a.X.Type(), a.Field)] = true
					}
				default:
					l.und("%s: channel stored in memory the analysis does not follow", name)
				}
			default:
				l.und("%s: channel used by %T (not followed)", name, ins)
			}
			if isEvent && l.kind[ins] == "" {
				l.und("%s: close/send/Notify/Stop of the channel in code that is not executed in a known order relative to the registering function", name)
			}
		})
	}
}

func c20FieldKey(t types.Type, field int) string {
	if p, ok := t.Underlying().(*types.Pointer); ok {
		t = p.Elem()
	}
	return fmt.Sprintf("%s#%d", types.TypeString(t, nil), field)
}

// c20FieldLoadKey: v is a load of a struct field: its key.
func c20FieldLoadKey(v ssa.Value) string {
	switch x := v.(type) {
	case *ssa.UnOp:
		if fa, ok := x.X.(*ssa.FieldAddr); ok && x.Op == token.MUL {
			return c20FieldKey(fa.X.Type(), fa.Field)
		}
	case *ssa.Field:
		return c20FieldKey(x.X.Type(), x.Field)
	}
	return ""
}

func c20SigClose(r *fw.Run, p *fw.Program) {
	ru := r.Rule("C20.sigclose", "channel life cycle of the os/signal bridge, in execution order on every path (deferred calls run LIFO; closures, helpers and the spawned goroutine are followed): a channel passed to signal.Notify is closed only after signal.Stop(ch) has run since the last Notify, never registered when closed, never closed twice; the channel the bridge forwards interrupts to is closed only by the bridge goroutine after its last send and by nobody else", 6)
	type notifySite struct {
		fn  *ssa.Function
		ins ssa.CallInstruction
	}
	var sites []notifySite
	fqFns := p.FqFunctions()
	for _, fn := range fqFns {
		fw.EachInstr(fn, func(ins ssa.Instruction) {
			if c, ok := ins.(ssa.CallInstruction); ok {
				if f := c.Common().StaticCallee(); f != nil && f.String() == "os/signal.Notify" {
					sites = append(sites, notifySite{fn, c})
				}
			}
		})
	}
	if len(sites) == 0 {
		ru.Undecided("anchor:signal.Notify", "", "no call of os/signal.Notify found in fq (the signal bridge moved?)")
		return
	}
	report := func(l *c20Life, top *ssa.Function, label string) {
		// events in instruction order of the top function and its closures, then entered helpers
		var fns []*ssa.Function
		in := map[*ssa.Function]bool{}
		for _, f := range fw.WithClosures(top) {
			fns = append(fns, f)
			in[f] = true
		}
		for _, f := range l.order {
			if !in[f] {
				fns = append(fns, f)
				in[f] = true
			}
		}
		l.scanUses(fns)
		ord := map[string]int{}
		for _, f := range fns {
			fw.EachInstr(f, func(ins ssa.Instruction) {
				kind := l.kind[ins]
				if kind == "" {
					return
				}
				base := fmt.Sprintf("%s:%s %s", fw.ShortFn(fw.Top(f)), kind, label)
				ord[base]++
				key := fmt.Sprintf("%s#%d", base, ord[base])
				if msg, bad := l.viol[ins]; bad {
					ru.Fail(key, p.Rel(ins.Pos()), label+": "+msg)
				} else {
					ru.Ok(key, p.Rel(ins.Pos()), "in order on every path")
				}
			})
		}
		key := fmt.Sprintf("%s:%s followed", fw.ShortFn(top), label)
		if len(l.undec) == 0 {
			ru.Ok(key, p.Rel(top.Pos()), "every use of the channel is executed in a known order")
		} else {
			for _, m := range fw.SortedKeys(l.undec) {
				ru.Undecided(key, p.Rel(top.Pos()), m)
			}
		}
	}
	doneSig := map[ssa.Value]bool{}
	doneFwd := map[ssa.Value]bool{}
	for _, s := range sites {
		mc, ok := fw.C20Resolve(s.ins.Common().Args[0]).(*ssa.MakeChan)
		if !ok {
			ru.Undecided(fw.ShortFn(fw.Top(s.fn))+":signal channel identity", p.Rel(s.ins.Pos()), "the channel passed to signal.Notify is not a channel made in the same function nest (parameter, field, reassigned variable): its closes cannot be ordered")
			continue
		}
		if doneSig[mc] {
			continue
		}
		doneSig[mc] = true
		root := mc.Parent()
		l := c20NewLife(mc, true)
		l.run(root, c20ChState{}, 0)
		report(l, fw.Top(root), "signal channel")

		// channels the functions that handle the signal channel send to (the forward channels)
		var fwd []ssa.Value
		var scan []*ssa.Function
		inScan := map[*ssa.Function]bool{}
		for _, f := range l.order {
			for _, x := range fw.WithClosures(f) {
				if !inScan[x] {
					inScan[x] = true
					scan = append(scan, x)
				}
			}
		}
		for _, f := range scan {
			fw.EachInstr(f, func(ins ssa.Instruction) {
				var chans []ssa.Value
				switch x := ins.(type) {
				case *ssa.Send:
					chans = append(chans, x.Chan)
				case *ssa.Select:
					for _, st := range x.States {
						if st.Dir == types.SendOnly {
							chans = append(chans, st.Chan)
						}
					}
				}
				for _, c := range chans {
					if l.isCh(c) {
						continue
					}
					fmc, ok := fw.C20Resolve(c).(*ssa.MakeChan)
					if !ok {
						ru.Undecided(fw.ShortFn(fw.Top(f))+":forward channel identity", p.Rel(ins.Pos()), "the bridge sends on a channel whose make cannot be resolved: its closes cannot be ordered after the send")
						continue
					}
					if !doneFwd[fmc] {
						doneFwd[fmc] = true
						fwd = append(fwd, fmc)
					}
				}
			})
		}
		for _, fv := range fwd {
			fmc := fv.(*ssa.MakeChan)
			fl := c20NewLife(fmc, false)
			froot := fmc.Parent()
			fl.run(froot, c20ChState{}, 0)
			report(fl, fw.Top(froot), "forward channel")
			c20ForeignChanOps(ru, p, fl, fqFns)
		}
	}
}

// c20ForeignChanOps: the forward channel is published in struct fields / through getters; no
// code outside the functions executed in order by the bridge may close it or send on it.
func c20ForeignChanOps(ru *fw.Rule, p *fw.Program, l *c20Life, fqFns []*ssa.Function) {
	// getters: fq functions all of whose returns hand out a published field
	getters := map[*ssa.Function]bool{}
	getterNames := map[string][]*ssa.Function{}
	if len(l.fields) > 0 {
		for _, fn := range fqFns {
			rets := returnsOf(fn)
			if len(rets) == 0 {
				continue
			}
			all := true
			for _, ret := range rets {
				if len(ret.Results) != 1 || !l.fields[c20FieldLoadKey(ret.Results[0])] {
					all = false
				}
			}
			if all {
				getters[fn] = true
				getterNames[fn.Name()] = append(getterNames[fn.Name()], fn)
			}
		}
	}
	published := func(v ssa.Value) bool {
		v = fw.C20Resolve(v)
		if l.isCh(v) {
			return true
		}
		if k := c20FieldLoadKey(v); k != "" && l.fields[k] {
			return true
		}
		if c, ok := v.(*ssa.Call); ok {
			cc := c.Common()
			if f := cc.StaticCallee(); f != nil {
				return getters[f]
			}
			if cc.IsInvoke() {
				for _, g := range getterNames[cc.Method.Name()] {
					if g.Signature.Recv() == nil {
						continue
					}
					if it, ok := cc.Value.Type().Underlying().(*types.Interface); ok && fw.Implements(g.Signature.Recv().Type(), it) {
						return true
					}
				}
			}
		}
		return false
	}
	n := 0
	for _, fn := range fqFns {
		if l.entered[fn] {
			continue
		}
		fw.EachInstr(fn, func(ins ssa.Instruction) {
			what := ""
			switch x := ins.(type) {
			case ssa.CallInstruction:
				if fw.IsBuiltinCall(x, "close") && len(x.Common().Args) == 1 && published(x.Common().Args[0]) {
					what = "closes"
				}
			case *ssa.Send:
				if published(x.Chan) {
					what = "sends on"
				}
			case *ssa.Select:
				for _, s := range x.States {
					if s.Dir == types.SendOnly && published(s.Chan) {
						what = "sends on"
					}
				}
			}
			if what != "" && l.kind[ins] == "" {
				n++
				ru.Fail(fmt.Sprintf("%s:%s forward channel outside the bridge", fw.ShortFn(fw.Top(fn)), what), p.Rel(ins.Pos()),
					"code that does not run in the bridge goroutine "+what+" the interrupt channel the bridge forwards to: a concurrent forward (or the bridge's own close) panics with send on / close of closed channel")
			}
		})
	}
	if n == 0 {
		ru.Ok("forward channel:only the bridge closes or sends", "", fmt.Sprintf("%d published fields, %d getters", len(l.fields), len(getters)))
	}
}
