package rules

// Positive controls for the C03 clauses added in the third round (self-review by mutation).

func init() {
	const dec = "pkg/decode/decode.go"
	const val = "pkg/decode/value.go"
	add := func(id, rule, file, old, new, key string) {
		AddControl(Control{ID: id, Prop: "C03", Rule: rule, File: file, Old: old, New: new, ExpectKey: key})
	}
	// addchild: the name index is rebuilt on every call
	add("c03-addchild-byname-reset", "C03.addchild", dec, "\t\t\tif fv.ByName == nil {\n\t\t\t\tfv.ByName = make(map[string]*Value)\n\t\t\t}", "\t\t\tif len(fv.ByName) == 0 || fv.ByName != nil {\n\t\t\t\tfv.ByName = make(map[string]*Value)\n\t\t\t}", "AddChild:byname-init")
	// byname: finding the removed child ends the filter loop
	add("c03-byname-remove-break", "C03.byname", val, "\t\t\t\tfound = true\n\t\t\t\tcontinue\n", "\t\t\t\tfound = true\n\t\t\t\tbreak\n", "remove-keeps-others")
	// post: a nested root ends the fold loop
	add("c03-post-isroot-break", "C03.post", val, "\t\t\t\tif f.IsRoot {\n\t\t\t\t\tcontinue\n\t\t\t\t}", "\t\t\t\tif f.IsRoot {\n\t\t\t\t\tbreak\n\t\t\t\t}", "postProcess:skip-continues")
	// range
	add("c03-range-link-on-error", "C03.range", dec, "\tv.Range = ranges.Range{Start: start, Len: stop - start}\n\tif err != nil {\n\t\treturn nil, err\n\t}\n\td.AddChild(v)\n", "\tv.Range = ranges.Range{Start: start, Len: stop - start}\n\td.AddChild(v)\n\tif err != nil {\n\t\treturn nil, err\n\t}\n", "TryFieldValue:no-link-on-error")
	add("c03-range-root-kind", "C03.range", dec, "IsArray:     format.RootArray,", "IsArray:     !format.RootArray,", "newDecoder:kind")
	add("c03-range-gap-reader-short", "C03.range", dec, "br, err := bitiox.Range(d.bitBuf, gap.Start, gap.Len)", "br, err := bitiox.Range(d.bitBuf, gap.Start, gap.Len-1)", "FillGaps:gap-reader")
	add("c03-range-compound-shared", "C03.range", dec, "\t\t\tName:       name,\n\t\t\tV:          v,\n\t\t\tRange:      ranges.Range{Start: d.Pos(), Len: 0},", "\t\t\tName:       name,\n\t\t\tV:          d.Value.V,\n\t\t\tRange:      ranges.Range{Start: d.Pos(), Len: 0},", "fieldDecoder:value")
	// seek
	add("c03-seek-rel-is-abs", "C03.seek", dec, "func (d *D) TrySeekRel(delta int64, fns ...func(d *D)) (int64, error) {\n\treturn d.trySeekAbs(d.Pos()+delta, fns...)", "func (d *D) TrySeekRel(delta int64, fns ...func(d *D)) (int64, error) {\n\treturn d.trySeekAbs(delta, fns...)", "TrySeekRel:target")
	add("c03-seek-abs-is-rel", "C03.seek", dec, "func (d *D) SeekAbs(pos int64, fns ...func(d *D)) int64 {\n\tn, err := d.trySeekAbs(pos, fns...)", "func (d *D) SeekAbs(pos int64, fns ...func(d *D)) int64 {\n\tn, err := d.trySeekAbs(d.Pos()+pos, fns...)", "SeekAbs:target")
	add("c03-seek-whence", "C03.seek", dec, "\tpos, err = d.bitBuf.SeekBits(pos, io.SeekStart)", "\tpos, err = d.bitBuf.SeekBits(pos, io.SeekCurrent)", "trySeekAbs:seek")
	add("c03-seek-restore-to-target", "C03.seek", dec, "\t\t_, err := d.bitBuf.SeekBits(oldPos, io.SeekStart)", "\t\t_, err := d.bitBuf.SeekBits(oldPos+pos-oldPos, io.SeekStart)", "trySeekAbs:restore")
	add("c03-seek-save-after-seek", "C03.seek", dec, "\tvar oldPos int64\n\tif len(fns) > 0 {\n\t\toldPos = d.Pos()\n\t}\n", "\tvar oldPos int64\n\tdefer func() {\n\t\tif len(fns) > 0 {\n\t\t\toldPos = d.Pos()\n\t\t}\n\t}()\n", "trySeekAbs:restore")
	add("c03-seek-window-args-swapped", "C03.seek", dec, "func (d *D) TryBitBufRange(firstBit int64, nBits int64) (bitio.ReaderAtSeeker, error) {\n\treturn bitiox.Range(d.bitBuf, firstBit, nBits)", "func (d *D) TryBitBufRange(firstBit int64, nBits int64) (bitio.ReaderAtSeeker, error) {\n\treturn bitiox.Range(d.bitBuf, nBits, firstBit)", "TryBitBufRange:window")
	add("c03-seek-bitsleft-negated", "C03.seek", dec, "\treturn bLen - bPos, nil", "\treturn bPos - bLen, nil", "TryBitsLeft")
	add("c03-seek-len-other-reader", "C03.seek", dec, "func (d *D) TryLen() (int64, error) {\n\treturn bitiox.Len(d.bitBuf)", "func (d *D) TryLen() (int64, error) {\n\treturn bitiox.Len(d.Value.RootReader)", "TryLen")
	// borrowed
	add("c03-readers-raw-advance-short", "C03.readers", dec, "if _, err := d.TrySeekRel(nBits); err != nil {\n\t\treturn nil, err\n\t}\n\n\treturn br, nil", "if _, err := d.TrySeekRel(nBits - 1); err != nil {\n\t\treturn nil, err\n\t}\n\n\treturn br, nil", "TryBitBufLen:advance")
	add("c03-readers-peek-moves", "C03.readers", dec, "\tn, err := d.TryUintBits(nBits)\n\tif _, err := d.bitBuf.SeekBits(start, io.SeekStart); err != nil {", "\tn, err := d.TryUintBits(nBits)\n\tif _, err := d.bitBuf.SeekBits(start, io.SeekCurrent); err != nil {", "TryPeekBits")
	add("c03-roots-bufferroot-flags", "C03.roots", val, "func (v *Value) BufferRoot() *Value { return v.root(true, false) }", "func (v *Value) BufferRoot() *Value { return v.root(false, false) }", "wrapper:BufferRoot")
	add("c03-roots-stop-at-parent", "C03.roots", val, "\t\tif findSubRoot && rootV.IsRoot {\n\t\t\tbreak", "\t\tif findSubRoot && rootV.Parent.IsRoot {\n\t\t\tbreak", "root:")
	// sub: adoption of a nested result before / without testing it
	add("c03-sub-format-errors-unchecked", "C03.sub", dec, "\tif dv == nil || dv.Errors() != nil {\n\t\td.IOPanic(err, \"\", \"Format: decode\")", "\tif dv == nil {\n\t\td.IOPanic(err, \"\", \"Format: decode\")", "Format:adopt-after-test")
	add("c03-sub-len-test-after-link", "C03.sub", dec, "\tif dv == nil || dv.Errors() != nil {\n\t\treturn nil, nil, err\n\t}\n\n\td.AddChild(dv)\n\tif _, err := d.bitBuf.SeekBits(nBits, io.SeekCurrent); err != nil {", "\tif dv == nil {\n\t\treturn nil, nil, err\n\t}\n\n\td.AddChild(dv)\n\tif dv.Errors() != nil {\n\t\treturn nil, nil, err\n\t}\n\tif _, err := d.bitBuf.SeekBits(nBits, io.SeekCurrent); err != nil {", "TryFieldFormatLen:adopt-after-test")
	add("c03-cover-range-nofill", "C03.cover", dec, "\t\tFillGaps:    true,\n\t\tIsRoot:      false,\n\t\tRange:       ranges.Range{Start: firstBit, Len: nBits},", "\t\tFillGaps:    false,\n\t\tIsRoot:      false,\n\t\tRange:       ranges.Range{Start: firstBit, Len: nBits},", "TryFieldFormatRange:FillGaps")
	// inside: the bound test of the seek is gone / weakened / placed after the seek; an unclassified position move
	add("c03-inside-seek-unbounded", "C03.inside", dec, "\tif pos > l {\n\t\treturn 0, fmt.Errorf(\"seek to %d outside buffer, length %d\", pos, l)\n\t}\n", "\t_ = l\n", "trySeekAbs:inside-buffer")
	add("c03-inside-seek-bound-only-with-fns", "C03.inside", dec, "\tif pos > l {\n\t\treturn 0, fmt.Errorf(\"seek to %d outside buffer", "\tif pos > l && len(fns) > 0 {\n\t\treturn 0, fmt.Errorf(\"seek to %d outside buffer", "trySeekAbs:inside-buffer")
	add("c03-inside-stray-seek", "C03.inside", dec, "func (d *D) AssertPos(pos int64) {", "func (d *D) SkipTo(pos int64) {\n\t_, _ = d.bitBuf.SeekBits(pos, io.SeekStart)\n}\n\nfunc (d *D) AssertPos(pos int64) {", "move|(*pkg/decode.D).SkipTo")
	add("c03-inside-foreign-reader", "C03.inside", dec, "func (d *D) AssertPos(pos int64) {", "func (d *D) SwapReader(br bitio.ReaderAtSeeker) {\n\td.bitBuf = br\n}\n\nfunc (d *D) AssertPos(pos int64) {", "bitbuf|(*pkg/decode.D).SwapReader")
	// readers: a leaf reader reads the byte-rounded buffer instead of the bits asked for
	add("c03-readers-bigint-reads-whole-bytes", "C03.readers", "pkg/decode/read.go", "\t_, err := bitio.ReadFull(d.bitBuf, buf, int64(nBits))\n\tif err != nil {\n\t\treturn nil, err\n\t}", "\t_, err := bitio.ReadFull(d.bitBuf, buf, int64(len(buf))*8)\n\tif err != nil {\n\t\treturn nil, err\n\t}", "tryBigIntEndianSign:read")
	// sub: a convenience constructor returns the other compound kind
	add("c03-sub-structvalue-is-array", "C03.sub", dec, "func (d *D) FieldStructValue(name string) *D {\n\treturn d.FieldStruct(name, func(d *D) {})", "func (d *D) FieldStructValue(name string) *D {\n\treturn d.FieldArray(name, func(d *D) {})", "FieldStructValue:delegates")
	add("c03-sub-narray-elems-are-arrays", "C03.sub", dec, "\t\tfor i := int64(0); i < count; i++ {\n\t\t\td.FieldStruct(structName, fn)", "\t\tfor i := int64(0); i < count; i++ {\n\t\t\td.FieldArray(structName, fn)", "FieldStructNArray:delegates")
	// lower: a section window accepts a seek to before its start
	add("c03-lower-section-base", "C03.lower", "pkg/bitio/sectiontreader.go", "\tif bitOff < r.bitBase {\n\t\treturn 0, ErrOffset", "\tif bitOff < 0 {\n\t\treturn 0, ErrOffset", "(*pkg/bitio.SectionReader).SeekBits:lower-bound")
	// generalised forms must still decide: compare-and-select minimum with the wrong direction
	add("c03-minmax-select-wrong-way", "C03.minmax", "pkg/ranges/ranges.go", "\tminStart := min(a.Start, b.Start)\n", "\tminStart := a.Start\n\tif b.Start > minStart {\n\t\tminStart = b.Start\n\t}\n", "MinMax:start")
}
