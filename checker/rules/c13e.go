package rules

import (
	"fmt"
	"go/types"
	"os"
	"strings"

	"fqverif/fw"

	"golang.org/x/tools/go/ssa"
)

// c13ExploreIdx: exploratory listing (C13_EXPLORE=1) of index / slice sites in jq-callable code that have no
// proof of being in range. Not a rule.
func c13ExploreIdx(p *fw.Program, scope []*ssa.Function) {
	if want := os.Getenv("C13_SSA"); want != "" {
		// debugging aid: print the SSA of every fq function whose name contains the given text
		for _, fn := range p.FqFunctions() {
			if strings.Contains(fn.String(), want) {
				fn.WriteTo(os.Stdout)
			}
		}
	}
	if os.Getenv("C13_EXPLORE") == "" {
		return
	}
	for _, fn := range scope {
		var env *fw.IntervalEnv
		fw.EachInstr(fn, func(ins ssa.Instruction) {
			var xs ssa.Value
			var idxs []ssa.Value
			kind := "index"
			switch y := ins.(type) {
			case *ssa.Index:
				if _, isMap := y.X.Type().Underlying().(*types.Map); isMap {
					return
				}
				xs, idxs = y.X, []ssa.Value{y.Index}
			case *ssa.IndexAddr:
				xs, idxs = y.X, []ssa.Value{y.Index}
			case *ssa.Slice:
				xs, idxs, kind = y.X, []ssa.Value{y.Low, y.High}, "slice"
			default:
				return
			}
			for _, idx := range idxs {
				if idx == nil {
					continue
				}
				if _, isC := idx.(*ssa.Const); isC {
					continue
				}
				if env == nil {
					env = newC13Env(fn)
				}
				path, _ := fw.AccessPath(xs)
				ip := env.Poly.Of(idx)
				lo := env.ProvedNonNeg(idx, ins.Block())
				hi := false
				if path != "" {
					rel := fw.LT
					if kind == "slice" {
						rel = fw.LE
					}
					want := fw.Cmp{P: fw.StripVersions(ip.Sub(fw.PAtom("len(" + path + ")"))), Rel: rel}
					for _, f := range env.Poly.Facts(ins.Block()) {
						f.P = fw.StripVersions(f.P)
						if f.Implies(want) {
							hi = true
						}
					}
				}
				if lo && hi {
					continue
				}
				fmt.Printf("EXPLORE c13-%s: %s x=%s idx=%s lo=%v hi=%v at %s\n", kind, fw.ShortFn(fn), path, ip.String(), lo, hi, p.Rel(ins.Pos()))
			}
		})
	}
}
