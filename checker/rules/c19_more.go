package rules

// C19, second self-review: byte order of the capture (C19.endian), position/extent of the bytes
// fed, explicit pcapng section lengths, port decoding guard (helper-transparent), conditions on
// the assembler/feed calls, TCP option checker off.

import (
	"fmt"
	"go/constant"
	"go/token"
	"go/types"
	"sort"
	"strings"

	"golang.org/x/tools/go/ssa"

	"fqverif/fw"
)

// ---------------------------------------------------------------------------
// structural conditions: dominating branches that have a normally completing alternative
// (conditions that only exist because the other arm never returns - d.Errorf/d.Fatalf - are not
// listed: they do not select which records are processed, they abort the decode)

func c19structConds(b *ssa.BasicBlock) []c19cond {
	var out []c19cond
	for _, g := range fw.Guards(b) {
		d := g.If.Block()
		s := d.Succs[1]
		if g.True {
			s = d.Succs[0]
		}
		if len(s.Preds) == 1 && (s == b || s.Dominates(b)) {
			out = append(out, c19norm(g.Cond, g.True))
		}
	}
	return out
}

// c19isRangeCond: the loop test of a range-over-slice (index+1 < len(...)) or range-over-map/next.
func c19isRangeCond(cd c19cond) bool {
	switch x := cd.v.(type) {
	case *ssa.BinOp:
		if x.Op != token.LSS {
			return false
		}
		ln, ok := x.Y.(*ssa.Call)
		if !ok || !fw.IsBuiltinCall(ln, "len") {
			return false
		}
		inc, ok := x.X.(*ssa.BinOp)
		if !ok || inc.Op != token.ADD {
			return false
		}
		_, isPhi := inc.X.(*ssa.Phi)
		k, isK := c19constInt(inc.Y)
		return isPhi && isK && k == 1
	case *ssa.Extract:
		_, ok := x.Tuple.(*ssa.Next)
		return ok && x.Index == 0
	}
	return false
}

// c19skippable: under the assumed branch outcomes (nil = none), is there a way through site's
// function - or, when site sits in a loop, through one round of that loop - that completes normally
// without executing site? Paths ending in a no-return call (d.Fatalf, panic) do not count.
// assume gets the NOT-stripped condition value and says whether it is known to be true/false.
func c19skippable(site ssa.Instruction, assume func(v ssa.Value) (val, known bool)) bool {
	fn, sb := site.Parent(), site.Block()
	// innermost loop header: a block ending in If that dominates site's block and is reachable from it
	var h *ssa.BasicBlock
	for _, b := range fn.Blocks {
		if _, ok := b.Instrs[len(b.Instrs)-1].(*ssa.If); !ok || b == sb || !b.Dominates(sb) || !c19blockReaches(sb, b, nil) {
			continue
		}
		back := false // a natural loop header has a predecessor it dominates
		for _, p := range b.Preds {
			if b.Dominates(p) {
				back = true
			}
		}
		if !back {
			continue
		}
		if h == nil || h.Dominates(b) {
			h = b
		}
	}
	start := fn.Blocks[0]
	if h != nil {
		start = nil
		for _, sc := range h.Succs {
			if sc == sb || sc.Dominates(sb) {
				start = sc
			}
		}
		if start == nil {
			return true
		}
	}
	seen := map[*ssa.BasicBlock]bool{}
	stack := []*ssa.BasicBlock{start}
	for len(stack) > 0 {
		b := stack[len(stack)-1]
		stack = stack[:len(stack)-1]
		if seen[b] || b == sb {
			continue
		}
		seen[b] = true
		if fw.CurrentNR != nil && fw.CurrentNR.CutIndex(b) >= 0 {
			continue
		}
		if b == h {
			return true // next round (or loop exit) reached without the site
		}
		if _, ok := b.Instrs[len(b.Instrs)-1].(*ssa.Return); ok {
			return true
		}
		succs := b.Succs
		if ifi, ok := b.Instrs[len(b.Instrs)-1].(*ssa.If); ok && len(b.Succs) == 2 && assume != nil {
			cd := c19norm(ifi.Cond, true)
			if val, known := assume(cd.v); known {
				if val == cd.t {
					succs = b.Succs[:1]
				} else {
					succs = b.Succs[1:]
				}
			}
		}
		stack = append(stack, succs...)
	}
	if h != nil {
		return c19skippable(h.Instrs[len(h.Instrs)-1], assume)
	}
	return false
}

// c19assumeNoError: err != nil is false, err == nil is true (error exits are not record selection).
func c19assumeNoError(v ssa.Value) (val, known bool) {
	bo, ok := v.(*ssa.BinOp)
	if !ok || (bo.Op != token.EQL && bo.Op != token.NEQ) || !(isNilConst(bo.X) || isNilConst(bo.Y)) || types.TypeString(bo.X.Type(), nil) != "error" {
		return false, false
	}
	return bo.Op == token.EQL, true
}

// c19mayFollow: b can execute after a in one activation of their function.
func c19mayFollow(a, b ssa.Instruction) bool {
	if a.Parent() != b.Parent() {
		return false
	}
	if a.Block() == b.Block() && instrIndex(a) < instrIndex(b) {
		return true
	}
	return c19blockReaches(a.Block(), b.Block(), nil)
}

// ---------------------------------------------------------------------------
// linear forms over SSA values (atoms are the values that are not +,-,* const, << const)

type c19lin struct {
	atoms map[ssa.Value]int64
	k     int64
}

func (c *c19) lin(v ssa.Value, d int) c19lin {
	out := c19lin{atoms: map[ssa.Value]int64{}}
	v = c.origin(v)
	if d > 12 {
		out.atoms[v] = 1
		return out
	}
	if k, ok := c19constInt(v); ok {
		out.k = k
		return out
	}
	add := func(a c19lin, f int64) {
		for x, n := range a.atoms {
			out.atoms[x] += f * n
			if out.atoms[x] == 0 {
				delete(out.atoms, x)
			}
		}
		out.k += f * a.k
	}
	if bo, ok := v.(*ssa.BinOp); ok {
		switch bo.Op {
		case token.ADD:
			add(c.lin(bo.X, d+1), 1)
			add(c.lin(bo.Y, d+1), 1)
			return out
		case token.SUB:
			add(c.lin(bo.X, d+1), 1)
			add(c.lin(bo.Y, d+1), -1)
			return out
		case token.MUL:
			if k, ok := c19constInt(c.origin(bo.Y)); ok {
				add(c.lin(bo.X, d+1), k)
				return out
			}
			if k, ok := c19constInt(c.origin(bo.X)); ok {
				add(c.lin(bo.Y, d+1), k)
				return out
			}
		case token.SHL:
			if k, ok := c19constInt(c.origin(bo.Y)); ok && k >= 0 && k < 32 {
				add(c.lin(bo.X, d+1), int64(1)<<uint(k))
				return out
			}
		}
	}
	out.atoms[v] = 1
	return out
}

func c19isDMethod(cl *ssa.Call, names ...string) bool {
	if cl == nil || cl.Common().IsInvoke() {
		return false
	}
	n := c19calleeName(cl.Common())
	for _, want := range names {
		if n == "(*pkg/decode.D)."+want {
			return true
		}
	}
	return false
}

// ---------------------------------------------------------------------------
// C19.section: explicit pcapng section length

// sectionLength: when the context keeps the Section Header Block's section_length, the loop that
// decodes the blocks of one section must stop exactly after that many octets counted from the end
// of the Section Header Block ("length in octets of the following section, excluding the Section
// Header Block itself"):  Pos() - start < 8*section_length  with start = Pos() taken after the
// header block has been decoded and Pos() re-read on every round.
func (c *c19) sectionLength(ru *fw.Rule, ctx *types.Named) {
	if _, ok := ctx.Underlying().(*types.Struct); !ok {
		return
	}
	field := -1
	var store *ssa.Store
	for _, fn := range c.pcapFns {
		fw.EachInstr(fn, func(ins ssa.Instruction) {
			st, ok := ins.(*ssa.Store)
			if !ok {
				return
			}
			fa, ok := st.Addr.(*ssa.FieldAddr)
			if !ok || !c19isNamed(fa.X.Type(), ctx) {
				return
			}
			if _, n, ok := c.fieldRead(st.Val); ok && n == "section_length" {
				field, store = fa.Field, st
			}
		})
	}
	if field < 0 {
		return // explicit lengths are not used at all: sections end at the next header block only
	}
	key := "pcapng:section-length"
	isLen := func(v ssa.Value) bool {
		u, ok := v.(*ssa.UnOp)
		if !ok || u.Op != token.MUL {
			return false
		}
		fa, ok := u.X.(*ssa.FieldAddr)
		return ok && fa.Field == field && c19isNamed(fa.X.Type(), ctx)
	}
	n := 0
	for _, fn := range c.pcapFns {
		fw.EachInstr(fn, func(ins ssa.Instruction) {
			bo, ok := ins.(*ssa.BinOp)
			if !ok {
				return
			}
			switch bo.Op {
			case token.LSS, token.LEQ, token.GTR, token.GEQ:
			default:
				return
			}
			lx, ly := c.lin(bo.X, 0), c.lin(bo.Y, 0)
			diff := c19lin{atoms: map[ssa.Value]int64{}, k: lx.k - ly.k}
			for x, f := range lx.atoms {
				diff.atoms[x] += f
			}
			for x, f := range ly.atoms {
				diff.atoms[x] -= f
			}
			var lenAtom ssa.Value
			var pos []*ssa.Call
			var other []string
			for x, f := range diff.atoms {
				if f == 0 {
					continue
				}
				if isLen(x) {
					lenAtom = x
				} else if cl, ok := x.(*ssa.Call); ok && c19isDMethod(cl, "Pos") {
					pos = append(pos, cl)
				} else {
					other = append(other, c.sig(x))
				}
			}
			if lenAtom == nil || len(diff.atoms) < 2 {
				return
			}
			n++
			sort.Strings(other)
			// normalise to  s*(cur - start - 8*len)  rel 0
			s := int64(1)
			if diff.atoms[lenAtom] > 0 {
				s = -1
			}
			var cur, start *ssa.Call
			for _, p := range pos {
				if diff.atoms[p] == s {
					cur = p
				} else if diff.atoms[p] == -s {
					start = p
				}
			}
			shape := len(other) == 0 && len(pos) == 2 && cur != nil && start != nil && diff.k == 0
			if !shape {
				ru.Fail(key+":bound", c.pos(bo), "the section length bounds the block loop by "+c.sig(bo)+", expected  d.Pos() - start < 8*section_length  with start = d.Pos() after the Section Header Block")
				return
			}
			scale := diff.atoms[lenAtom] == -8*s
			strict := (s == 1 && bo.Op == token.LSS) || (s == -1 && bo.Op == token.GTR)
			why := ""
			switch {
			case !scale:
				why = fmt.Sprintf("section_length (octets) is compared with a bit position using the factor %d, expected 8", -s*diff.atoms[lenAtom])
			case !strict:
				why = "the loop continues while consumed " + bo.Op.String() + " length (after normalisation: not a strict 'consumed < length'): when the section's last block ends exactly at the section length one more block - the next section's header - is decoded into this section"
			case !c19blockReaches(cur.Block(), cur.Block(), nil):
				why = "the current position is not re-read on every round of the block loop"
			}
			ru.Check(why == "", key+":bound", c.pos(bo), "blocks are decoded while Pos() - start < 8*section_length", why)
			// origin: start is taken after a block (the Section Header Block) was decoded
			after := false
			fw.EachInstr(start.Parent(), func(i2 ssa.Instruction) {
				cl, ok := i2.(*ssa.Call)
				if !ok || !c.handsCtx(cl, ctx) {
					return
				}
				if c19before(cl, start) {
					after = true
				}
			})
			inLoop := c19blockReaches(start.Block(), start.Block(), nil)
			ru.Check(after && !inLoop, key+"-origin", c.pos(start), "the section's octets are counted from the end of the Section Header Block",
				"the position the section length is counted from is taken before the Section Header Block has been decoded (or inside the block loop): section_length excludes the header block, so the section ends early by the size of its header and the trailing blocks - the last packets of every connection - are decoded as a bogus new section")
		})
	}
	if n == 0 {
		ru.Fail(key+":bound", c.pos(store), "section_length is stored but no loop is bounded by it: a section with an explicit length runs into the next section")
	}
}

// handsCtx: the call passes the context (directly, or captured by a closure argument) on.
func (c *c19) handsCtx(cl *ssa.Call, ctx *types.Named) bool {
	isCtx := func(t types.Type) bool {
		for i := 0; i < 3; i++ {
			if c19isNamed(t, ctx) {
				return true
			}
			p, ok := t.Underlying().(*types.Pointer)
			if !ok {
				return false
			}
			t = p.Elem()
		}
		return false
	}
	for _, a := range cl.Common().Args {
		a = c19strip(a)
		if isCtx(a.Type()) {
			return true
		}
		if mc, ok := a.(*ssa.MakeClosure); ok {
			for _, b := range mc.Bindings {
				if isCtx(b.Type()) {
					return true
				}
			}
		}
	}
	return false
}

// ---------------------------------------------------------------------------
// C19.section: the option checker is not requested

func (c *c19) noOptionCheck(ru *fw.Rule, key string, n *ssa.Call) {
	topt := c.p.NamedType(c19FD, "DecoderOptions")
	if topt == nil || len(n.Common().Args) != 1 {
		ru.Undecided(key+":no-option-check", c.pos(n), "flowsdecoder.DecoderOptions / New's signature changed")
		return
	}
	st := topt.Underlying().(*types.Struct)
	idx := -1
	for i := 0; i < st.NumFields(); i++ {
		if st.Field(i).Name() == "CheckTCPOptions" {
			idx = i
		}
	}
	if idx < 0 {
		ru.Ok(key+":no-option-check", c.pos(n), "no option checking switch")
		return
	}
	arg := n.Common().Args[0]
	ok, why := false, "the options are "+c.sig(arg)
	if k, isK := arg.(*ssa.Const); isK && k.Value == nil {
		ok = true
	} else if ld, isLd := arg.(*ssa.UnOp); isLd && ld.Op == token.MUL {
		if a := c.cell(ld.X); a != nil {
			ci := c.cellInfo(a)
			if !ci.escapes && len(ci.whole) == 0 {
				ok = true
				for _, s := range ci.fields[fmt.Sprint(idx)] {
					if b, isB := c19constBool(s.Val); !isB || b {
						ok, why = false, "CheckTCPOptions is "+c.sig(s.Val)
					}
				}
			}
		}
	}
	ru.Check(ok, key+":no-option-check", c.pos(n), "the decoder is created with CheckTCPOptions false", why+", expected CheckTCPOptions: false: gopacket's option checker rejects segments larger than the announced MSS (offloaded captures) or with stale timestamps, their bytes are missing from the reconstructed stream")
}

// ---------------------------------------------------------------------------
// C19.feed: the bytes fed are the bytes of the record's packet field

var c19dNoAdvance = []string{"Pos", "BitBufRange", "ReadAllBits", "TryReadAllBits", "Errorf", "Fatalf", "End", "NotEnd", "BitsLeft", "Len", "AlignBits", "ByteAlignBits", "Peek", "TryPeek", "FieldValue", "IOPanic"}

func (c *c19) feedAtPacket(ru *fw.Rule, key string, s c19feed, posCall *ssa.Call, lenArg ssa.Value) {
	fn := posCall.Parent()
	recv := posCall.Common().Args[0]
	var pf []*ssa.Call
	var moving []*ssa.Call
	fw.EachInstr(fn, func(ins ssa.Instruction) {
		cl, ok := ins.(*ssa.Call)
		if !ok || cl.Common().IsInvoke() {
			return
		}
		f := cl.Common().StaticCallee()
		if f == nil || f.Signature.Recv() == nil || !c19isNamed(f.Signature.Recv().Type(), c.p.NamedType("pkg/decode", "D")) || len(cl.Common().Args) == 0 || cl.Common().Args[0] != recv {
			return
		}
		if m, n, ok := c.fieldRead(cl); ok && n == "packet" && (strings.HasPrefix(m, "FieldFormat") || strings.HasPrefix(m, "FieldRaw")) {
			pf = append(pf, cl)
			return
		}
		for _, p := range c19dNoAdvance {
			if strings.HasPrefix(f.Name(), p) {
				return
			}
		}
		moving = append(moving, cl)
	})
	k := key + ":at-packet"
	if len(pf) != 1 || len(pf[0].Common().Args) < 3 {
		ru.Undecided(k, c.pos(posCall), fmt.Sprintf("expected one \"packet\" field (FieldFormat*/FieldRaw* with a length) next to the feed on the same decoder, found %d", len(pf)))
		return
	}
	p := pf[0]
	why := ""
	switch {
	case !c19before(posCall, p):
		why = "the position of the fed bytes is read after (or not always before) the \"packet\" field was decoded: the bytes handed to the flow decoder are those that follow the packet"
	case c.sig(p.Common().Args[2]) != c.sig(lenArg):
		why = "the \"packet\" field is " + c.sig(p.Common().Args[2]) + " bits long but " + c.sig(lenArg) + " bits are fed"
	default:
		for _, mv := range moving {
			if c19mayFollow(posCall, mv) && c19mayFollow(mv, p) {
				why = c19calleeName(mv.Common()) + " moves the decoder between reading the position of the fed bytes and the \"packet\" field: the two do not cover the same bytes"
			}
		}
		if why == "" && c19skippable(p, nil) {
			why = "the record can complete without decoding its \"packet\" field (a return on some path after the bytes were fed): the next record is then read from inside this packet"
		}
	}
	ru.Check(why == "", k, c.pos(posCall), "the fed bytes are exactly the bytes of the record's packet field", why)
}

// ---------------------------------------------------------------------------
// C19.endpoint: port expression, read through helpers of the flowsdecoder package

type c19pleaf struct {
	sig   string
	conds []string // rendered conditions; "len:<sig>:<holds for len 2>" or "other:<sig>"
}

func (c *c19) sigIn(v ssa.Value, env map[*ssa.Parameter]string) string {
	old := c.subst
	c.subst = env
	s := c.sig(v)
	c.subst = old
	return s
}

func (c *c19) renderLenCond(cd c19cond, env map[*ssa.Parameter]string) string {
	if bo, ok := cd.v.(*ssa.BinOp); ok {
		for _, pr := range []struct {
			l, k ssa.Value
			flip bool
		}{{bo.X, bo.Y, false}, {bo.Y, bo.X, true}} {
			ln, isLen := c19strip(pr.l).(*ssa.Call)
			kk, isK := c19constInt(pr.k)
			if !isLen || !isK || !fw.IsBuiltinCall(ln, "len") {
				continue
			}
			op := bo.Op
			if pr.flip {
				switch op {
				case token.LSS:
					op = token.GTR
				case token.GTR:
					op = token.LSS
				case token.LEQ:
					op = token.GEQ
				case token.GEQ:
					op = token.LEQ
				}
			}
			var holds bool
			switch op {
			case token.EQL:
				holds = 2 == kk
			case token.NEQ:
				holds = 2 != kk
			case token.LSS:
				holds = 2 < kk
			case token.LEQ:
				holds = 2 <= kk
			case token.GTR:
				holds = 2 > kk
			case token.GEQ:
				holds = 2 >= kk
			default:
				continue
			}
			return fmt.Sprintf("len:%s:%v", c.sigIn(ln.Common().Args[0], env), holds == cd.t)
		}
	}
	return "other:" + c.sigIn(cd.v, env)
}

func (c *c19) portLeaves(v ssa.Value, use *ssa.BasicBlock, env map[*ssa.Parameter]string, d int) []c19pleaf {
	var out []c19pleaf
	for _, lf := range c19leaves(c.origin(v), use) {
		var conds []string
		for _, cd := range lf.conds {
			conds = append(conds, c.renderLenCond(cd, env))
		}
		x := c.origin(lf.v)
		if _, isPhi := x.(*ssa.Phi); isPhi && x != lf.v && d < 4 {
			for _, sub := range c.portLeaves(x, nil, env, d+1) {
				out = append(out, c19pleaf{sub.sig, append(append([]string{}, conds...), sub.conds...)})
			}
			continue
		}
		if cl, ok := x.(*ssa.Call); ok && !cl.Common().IsInvoke() && d < 4 {
			f := cl.Common().StaticCallee()
			if f != nil && f.Blocks != nil && pkgRel(f) == c19FD && f.Signature.Results().Len() == 1 && len(f.Params) == len(cl.Common().Args) {
				env2 := map[*ssa.Parameter]string{}
				for i, p := range f.Params {
					env2[p] = c.sigIn(cl.Common().Args[i], env)
				}
				for _, ret := range returnsOf(f) {
					var rc []string
					if _, isPhi := ret.Results[0].(*ssa.Phi); !isPhi {
						for _, cd := range c19condsAt(ret.Block()) {
							rc = append(rc, c.renderLenCond(cd, env2))
						}
					}
					var useB *ssa.BasicBlock
					for _, sub := range c.portLeaves(ret.Results[0], useB, env2, d+1) {
						out = append(out, c19pleaf{sub.sig, append(append(append([]string{}, conds...), rc...), sub.conds...)})
					}
				}
				continue
			}
		}
		out = append(out, c19pleaf{c.sigIn(x, env), conds})
	}
	return out
}

// portExpr explains why v is not "the big-endian port of the transport endpoint when that endpoint
// is 2 bytes long, else 0" ("" if it is).
func (c *c19) portExpr(v ssa.Value, wantDecoded, rawSig string) string {
	var use *ssa.BasicBlock
	leaves := c.portLeaves(v, use, nil, 0)
	decoded := 0
	for _, lf := range leaves {
		switch lf.sig {
		case wantDecoded:
			decoded++
			for _, cd := range lf.conds {
				if cd != "len:"+rawSig+":true" {
					return "the port is decoded only under the condition " + c19condText(cd) + " (a TCP port is exactly 2 bytes of the transport endpoint)"
				}
			}
		case "0":
			excluded := false
			for _, cd := range lf.conds {
				if cd == "len:"+rawSig+":false" {
					excluded = true
				}
			}
			if !excluded {
				return "the port can stay 0 although the transport endpoint is a 2-byte port (conditions: " + strings.Join(lf.conds, ", ") + ")"
			}
		default:
			return "it can be " + lf.sig
		}
	}
	if decoded == 0 {
		return "the port bytes are never decoded"
	}
	return ""
}

func c19condText(cd string) string {
	switch {
	case strings.HasPrefix(cd, "len:") && strings.HasSuffix(cd, ":false"):
		return "a length test on " + strings.TrimSuffix(strings.TrimPrefix(cd, "len:"), ":false") + " that fails for 2 bytes"
	case strings.HasPrefix(cd, "len:"):
		return "a length test on " + strings.TrimSuffix(strings.TrimPrefix(cd, "len:"), ":true") + " (not the endpoint that is decoded)"
	}
	return strings.TrimPrefix(cd, "other:")
}

// ---------------------------------------------------------------------------
// C19.endian

// magic numbers as they read when the four bytes are taken big-endian; true = the file is big-endian
var c19pcapMagic = map[uint64]bool{0xa1b2c3d4: true, 0xd4c3b2a1: false, 0xa1b23c4d: true, 0x4d3cb2a1: false}
var c19ngMagic = map[uint64]bool{0x1a2b3c4d: true, 0x4d3c2b1a: false}

func c19constU64(v ssa.Value) (uint64, bool) {
	k, ok := c19strip(v).(*ssa.Const)
	if !ok || k.Value == nil || k.Value.Kind() != constant.Int {
		return 0, false
	}
	return constant.Uint64Val(k.Value)
}

// magicCmp: cond is X ==/!= K; returns origin(X), K.
func (c *c19) magicCmp(v ssa.Value) (x ssa.Value, k uint64, eq bool, ok bool) {
	bo, isB := v.(*ssa.BinOp)
	if !isB || (bo.Op != token.EQL && bo.Op != token.NEQ) {
		return nil, 0, false, false
	}
	if kk, isK := c19constU64(bo.Y); isK {
		return c.origin(bo.X), kk, bo.Op == token.EQL, true
	}
	if kk, isK := c19constU64(bo.X); isK {
		return c.origin(bo.Y), kk, bo.Op == token.EQL, true
	}
	return nil, 0, false, false
}

func (c *c19) ruleEndian() {
	ru := c.r.Rule("C19.endian", "the capture's byte order follows its magic number: pcap 0xa1b2c3d4/0xa1b23c4d (read big-endian) select big-endian, their byte swaps little-endian; pcapng byte-order magic 0x1a2b3c4d big-endian, 0x4d3c2b1a little-endian; the magic itself is read in a fixed byte order (lengths, link types and interface ids of every record are read in the selected order)", 8)
	tEnd := fw.Mod + "/pkg/decode.Endian"
	beVal, ok1 := c.scopeConstInt(fw.Mod+"/pkg/decode", "BigEndian")
	leVal, ok2 := c.scopeConstInt(fw.Mod+"/pkg/decode", "LittleEndian")
	if !ok1 || !ok2 || beVal == leVal {
		ru.Undecided("anchor:decode.Endian", "", "decode.BigEndian/LittleEndian not found")
		return
	}
	type site struct {
		fn *ssa.Function
		x  ssa.Value
	}
	fams := map[string]map[site]bool{"pcap": {}, "pcapng": {}}
	for _, fn := range c.pcapFns {
		for _, b := range fn.Blocks {
			ifi, ok := b.Instrs[len(b.Instrs)-1].(*ssa.If)
			if !ok {
				continue
			}
			x, k, _, ok := c.magicCmp(c19norm(ifi.Cond, true).v)
			if !ok {
				continue
			}
			if _, isConst := x.(*ssa.Const); isConst {
				continue
			}
			if _, is := c19pcapMagic[k]; is {
				fams["pcap"][site{fn, x}] = true
			}
			if _, is := c19ngMagic[k]; is {
				fams["pcapng"][site{fn, x}] = true
			}
		}
	}
	for _, fam := range []string{"pcap", "pcapng"} {
		table := c19pcapMagic
		if fam == "pcapng" {
			table = c19ngMagic
		}
		// only sites that choose a byte order
		var sites []site
		for s := range fams[fam] {
			has := false
			fw.EachInstr(s.fn, func(ins ssa.Instruction) {
				if st, ok := ins.(*ssa.Store); ok {
					if k, ok := st.Val.(*ssa.Const); ok && types.TypeString(k.Type(), nil) == tEnd {
						has = true
					}
				}
				// value form: the byte order is a result of the function (helper returning it)
				if ret, ok := ins.(*ssa.Return); ok {
					for _, r := range ret.Results {
						if types.TypeString(r.Type(), nil) == tEnd {
							has = true
						}
					}
				}
			})
			if has {
				sites = append(sites, s)
			}
		}
		if len(sites) != 1 {
			ru.Undecided("endian:"+fam, "", fmt.Sprintf("expected one place where %s's magic number selects a decode.Endian constant, found %d", fam, len(sites)))
			continue
		}
		s := sites[0]
		// how the magic is read
		flip, readOK, how := false, false, c.sig(s.x)
		if cl, ok := s.x.(*ssa.Call); ok {
			switch {
			case c19isDMethod(cl, "U32BE", "FieldU32BE"):
				readOK = true
			case c19isDMethod(cl, "U32LE", "FieldU32LE"):
				readOK, flip = true, true
			case c19isDMethod(cl, "U32", "FieldU32"):
				// byte order of the decoder: big-endian unless assigned before
				readOK = true
				for _, up := range c.chain(cl) {
					fw.EachInstr(up.Parent(), func(ins ssa.Instruction) {
						st, ok := ins.(*ssa.Store)
						if !ok {
							return
						}
						if _, isE := c19fieldOf(st.Addr, c.p.NamedType("pkg/decode", "D"), "Endian"); isE && !c19before(up, st) {
							readOK, how = false, "a 32 bit read in the decoder's current byte order, which is assigned ("+c.pos(st)+") before the magic is read"
						}
					})
				}
			}
		}
		ru.Check(readOK, "endian:"+fam+":magic-read", c.pos(s.fn), "the magic is read in a fixed byte order", "the magic number is "+how+", expected a 32 bit read in a fixed byte order")
		if !readOK {
			continue
		}
		// where the byte order is kept: a fresh local variable starts as the zero value
		zeroInit, oneTarget := true, true
		var target *ssa.Alloc
		first := true
		fw.EachInstr(s.fn, func(ins ssa.Instruction) {
			st, ok := ins.(*ssa.Store)
			if !ok {
				return
			}
			if kc, ok := st.Val.(*ssa.Const); !ok || types.TypeString(kc.Type(), nil) != tEnd {
				return
			}
			a := c.cell(st.Addr)
			if first {
				target, first = a, false
			} else if a != target {
				oneTarget = false
			}
			if a == nil {
				zeroInit = false
			}
		})
		if target != nil {
			for _, w := range c.cellInfo(target).whole {
				if kc, ok := w.Val.(*ssa.Const); !ok || types.TypeString(kc.Type(), nil) != tEnd {
					zeroInit = false
				}
			}
		}
		if target != nil && !oneTarget {
			ru.Undecided("endian:"+fam+":target", c.pos(s.fn), "byte order constants are stored to more than one variable")
			continue
		}
		var keys []uint64
		for k := range table {
			keys = append(keys, k)
		}
		sort.Slice(keys, func(i, j int) bool { return keys[i] < keys[j] })
		for _, k := range keys {
			wantBE := table[k] != flip
			want := leVal
			name := "LittleEndian"
			if wantBE {
				want, name = beVal, "BigEndian"
			}
			// forward propagation of "last byte order stored" along the paths feasible for this magic
			const unset = int64(-1)
			startB := s.fn.Blocks[0]
			if xi, ok := s.x.(ssa.Instruction); ok && xi.Parent() == s.fn {
				startB = xi.Block() // paths on which the magic has been read
			}
			in := map[*ssa.BasicBlock]map[int64]bool{startB: {unset: true}}
			feas := map[[2]*ssa.BasicBlock]bool{}
			hasStore := false
			fw.EachInstr(s.fn, func(ins ssa.Instruction) {
				if st, ok := ins.(*ssa.Store); ok {
					if kc, ok := st.Val.(*ssa.Const); ok && types.TypeString(kc.Type(), nil) == tEnd {
						hasStore = true
					}
				}
			})
			got := map[int64]bool{}
			work := []*ssa.BasicBlock{startB}
			for len(work) > 0 {
				b := work[len(work)-1]
				work = work[:len(work)-1]
				cur := map[int64]bool{}
				for v := range in[b] {
					cur[v] = true
				}
				cut := -1
				if fw.CurrentNR != nil {
					cut = fw.CurrentNR.CutIndex(b)
				}
				for i, ins := range b.Instrs {
					if cut >= 0 && i >= cut {
						break
					}
					if st, ok := ins.(*ssa.Store); ok {
						if kc, ok := st.Val.(*ssa.Const); ok && types.TypeString(kc.Type(), nil) == tEnd {
							cur = map[int64]bool{kc.Int64(): true}
						}
					}
				}
				if cut >= 0 {
					continue // the decode is aborted here
				}
				if _, isRet := b.Instrs[len(b.Instrs)-1].(*ssa.Return); isRet {
					for v := range cur {
						got[v] = true
					}
				}
				succs := b.Succs
				if ifi, ok := b.Instrs[len(b.Instrs)-1].(*ssa.If); ok && len(b.Succs) == 2 {
					cd := c19norm(ifi.Cond, true)
					if x, kk, eq, ok := c.magicCmp(cd.v); ok && x == s.x {
						if ((kk == k) == eq) == cd.t {
							succs = b.Succs[:1]
						} else {
							succs = b.Succs[1:]
						}
					}
				}
				for _, sc := range succs {
					feas[[2]*ssa.BasicBlock{b, sc}] = true
					if in[sc] == nil {
						in[sc] = map[int64]bool{}
					}
					grew := false
					for v := range cur {
						if !in[sc][v] {
							in[sc][v], grew = true, true
						}
					}
					if grew {
						work = append(work, sc)
					}
				}
			}
			if !hasStore {
				// value form: what the reached returns yield, phis resolved along the feasible edges
				delete(got, unset)
				const unknown = int64(-2)
				var ev func(v ssa.Value, d int) map[int64]bool
				ev = func(v ssa.Value, d int) map[int64]bool {
					out := map[int64]bool{}
					switch x := v.(type) {
					case *ssa.Const:
						if x.Value != nil {
							out[x.Int64()] = true
							return out
						}
					case *ssa.Phi:
						if d < 8 {
							for i, e := range x.Edges {
								if feas[[2]*ssa.BasicBlock{x.Block().Preds[i], x.Block()}] {
									for val := range ev(e, d+1) {
										out[val] = true
									}
								}
							}
							return out
						}
					}
					out[unknown] = true
					return out
				}
				for b := range in {
					if ret, ok := b.Instrs[len(b.Instrs)-1].(*ssa.Return); ok && (fw.CurrentNR == nil || fw.CurrentNR.CutIndex(b) < 0) {
						for _, r := range ret.Results {
							if types.TypeString(r.Type(), nil) == tEnd {
								for val := range ev(r, 0) {
									got[val] = true
								}
							}
						}
					}
				}
			}
			if got[unset] && zeroInit {
				delete(got, unset)
				got[0] = true // the variable's zero value
			}
			var gl []string
			for v := range got {
				gl = append(gl, map[int64]string{beVal: "BigEndian", leVal: "LittleEndian"}[v])
			}
			sort.Strings(gl)
			ru.Check(len(got) == 1 && got[want], fmt.Sprintf("endian:%s:%#x", fam, k), c.pos(s.fn), fmt.Sprintf("magic %#x selects decode.%s", k, name),
				fmt.Sprintf("magic %#x selects %v, expected exactly decode.%s: every multi-byte field of such a capture (included length, link type, interface id) is read in the wrong byte order or the capture is rejected", k, gl, name))
		}
	}
}

// ---------------------------------------------------------------------------
// C19.feed: a packet the flow decoder rejects does not end the capture

// feedErrorTolerated: the flow decoder returns an error for packets that are irrelevant to the TCP
// streams (defragmenter security checks, undecodable reassembled payloads, empty raw IP frames).
// Such a packet is one lost packet at most; it must not abort the decode run (no connection would
// be reconstructed at all) nor end the record early. So: on the branch taken when the error of the
// table call (or of the package helper wrapping it) is non-nil, no call that never returns
// (d.Errorf, d.Fatalf, panic) and no return out of the record decoder may be reached before the
// branch rejoins the normal path.
func (c *c19) feedErrorTolerated(ru *fw.Rule, key string, s c19feed) {
	k := key + ":error-tolerated"
	calls := []*ssa.Call{s.call}
	if s.at != s.call {
		calls = append(calls, s.at)
	}
	why := ""
	for _, cl := range calls {
		if types.TypeString(cl.Type(), nil) != "error" {
			continue
		}
		fn := cl.Parent()
		isErr := func(v ssa.Value) bool { return c.origin(v) == ssa.Value(cl) }
		for _, b := range fn.Blocks {
			ifi, ok := b.Instrs[len(b.Instrs)-1].(*ssa.If)
			if !ok || len(b.Succs) != 2 {
				continue
			}
			cd := c19norm(ifi.Cond, true)
			bo, ok := cd.v.(*ssa.BinOp)
			if !ok || (bo.Op != token.NEQ && bo.Op != token.EQL) {
				continue
			}
			if !((isErr(bo.X) && isNilConst(bo.Y)) || (isErr(bo.Y) && isNilConst(bo.X))) {
				continue
			}
			// successor taken when err != nil
			errTrue := (bo.Op == token.NEQ) == cd.t
			e := b.Succs[1]
			if errTrue {
				e = b.Succs[0]
			}
			other := b.Succs[0]
			if errTrue {
				other = b.Succs[1]
			}
			// blocks only the error outcome reaches: from e, not reachable from the other arm without e
			okReach := map[*ssa.BasicBlock]bool{other: true}
			stack := []*ssa.BasicBlock{other}
			for len(stack) > 0 {
				x := stack[len(stack)-1]
				stack = stack[:len(stack)-1]
				for _, sc := range x.Succs {
					if !okReach[sc] && sc != b {
						okReach[sc] = true
						stack = append(stack, sc)
					}
				}
			}
			seen := map[*ssa.BasicBlock]bool{}
			stack = []*ssa.BasicBlock{e}
			for len(stack) > 0 {
				x := stack[len(stack)-1]
				stack = stack[:len(stack)-1]
				if seen[x] || okReach[x] || x == b {
					continue
				}
				seen[x] = true
				if ab := c.abortsIn(x); ab != "" {
					why = "when the flow decoder returns an error for a packet, " + ab + " is called (" + c.pos(bo) + "): one packet gopacket rejects - a short fragment, a reassembled datagram of a protocol without decoder, an empty raw IP frame - aborts the decode of the whole capture and no TCP connection is reconstructed"
					continue
				}
				if _, isRet := x.Instrs[len(x.Instrs)-1].(*ssa.Return); isRet && cl == s.at && fn.Parent() != nil {
					why = "when the flow decoder returns an error for a packet the record decoder returns early (" + c.pos(bo) + "): the rest of the record is not decoded and the following records are read from the wrong position"
					continue
				}
				stack = append(stack, x.Succs...)
			}
		}
	}
	ru.Check(why == "", k, c.pos(s.at), "an error of the flow decoder for one packet neither aborts the decode nor ends the record", why)
}

// abortsIn: the block panics, calls a function that never returns, or calls an fq function whose
// own body raises a panic (decode.D.Errorf/Fatalf/IOPanic: the decode error mechanism; Errorf only
// returns under the force option). "" if none.
func (c *c19) abortsIn(b *ssa.BasicBlock) string {
	for _, ins := range b.Instrs {
		switch x := ins.(type) {
		case *ssa.Panic:
			return "panic"
		case *ssa.Call:
			f := x.Common().StaticCallee()
			if f == nil {
				continue
			}
			if fw.CurrentNR != nil && fw.CurrentNR.Is(f) {
				return c19calleeName(x.Common())
			}
			if fw.InFq(f) && f.Blocks != nil {
				for _, fb := range f.Blocks {
					for _, fi := range fb.Instrs {
						if _, ok := fi.(*ssa.Panic); ok {
							return c19calleeName(x.Common())
						}
					}
				}
			}
		}
	}
	return ""
}
