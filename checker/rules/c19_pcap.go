package rules

import (
	"fmt"
	"go/ast"
	"go/constant"
	"go/token"
	"go/types"
	"sort"
	"strings"

	"golang.org/x/tools/go/ssa"

	"fqverif/fw"
)

// ---------------------------------------------------------------------------
// shared: feed sites (calls through the link type table)

type c19feed struct {
	lookup *ssa.Lookup
	call   *ssa.Call // the call of the table's function
	fn     *ssa.Function
	// the feed as seen by the record decoder: at == call, or - when lookup and call live in a helper
	// of the package - the call of that helper, with the helper's parameters replaced by the arguments
	at              *ssa.Call
	dec, bytes, idx ssa.Value
}

func (c *c19) tableGlobal(ru *fw.Rule) *ssa.Global {
	_, tv := c.linkTable(ru)
	if tv == nil {
		return nil
	}
	sp := c.p.SSA.Package(tv.Pkg())
	if sp == nil {
		return nil
	}
	g, _ := sp.Members[tv.Name()].(*ssa.Global)
	return g
}

func (c *c19) feedSites(g *ssa.Global) (sites []c19feed, stray []ssa.Instruction) {
	for _, fn := range c.p.FqFunctions() {
		fw.EachInstr(fn, func(ins ssa.Instruction) {
			ld, ok := ins.(*ssa.UnOp)
			if !ok || ld.Op != token.MUL || ld.X != ssa.Value(g) || ld.Referrers() == nil {
				return
			}
			for _, r := range *ld.Referrers() {
				lk, ok := r.(*ssa.Lookup)
				if !ok || lk.X != ssa.Value(ld) {
					if _, isDbg := r.(*ssa.DebugRef); !isDbg {
						stray = append(stray, r)
					}
					continue
				}
				var fv ssa.Value = lk
				if lk.CommaOk {
					fv = extractOf2(lk, 0)
				}
				n := 0
				if fv != nil && fv.Referrers() != nil {
					for _, r2 := range *fv.Referrers() {
						if cl, ok := r2.(*ssa.Call); ok && cl.Common().Value == fv {
							if len(cl.Common().Args) == 2 {
								sites = append(sites, c19feed{lookup: lk, call: cl, fn: fn, at: cl, dec: cl.Common().Args[0], bytes: cl.Common().Args[1], idx: lk.Index})
							} else {
								stray = append(stray, cl)
							}
							n++
						}
					}
				}
				if n == 0 {
					stray = append(stray, lk)
				}
			}
		})
	}
	// helper-transparent: a site inside a plain helper function is seen at the helper's callers
	for round := 0; round < 2; round++ {
		var lifted []c19feed
		for _, st := range sites {
			h := st.at.Parent()
			usesParam := false
			for _, v := range []ssa.Value{st.dec, st.bytes, st.idx} {
				if pa, ok := c.origin(v).(*ssa.Parameter); ok && pa.Parent() == h {
					usesParam = true
				}
			}
			var callers []*ssa.Call
			if usesParam && h.Parent() == nil {
				for _, fn := range c.p.FqFunctions() {
					fw.EachInstr(fn, func(ins ssa.Instruction) {
						if cl, ok := ins.(*ssa.Call); ok && !cl.Common().IsInvoke() && cl.Common().StaticCallee() == h && len(cl.Common().Args) == len(h.Params) {
							callers = append(callers, cl)
						}
					})
				}
			}
			if len(callers) == 0 {
				lifted = append(lifted, st)
				continue
			}
			sub := func(v ssa.Value, cl *ssa.Call) ssa.Value {
				if pa, ok := c.origin(v).(*ssa.Parameter); ok && pa.Parent() == h {
					return cl.Common().Args[c19paramIndex(pa)]
				}
				return v
			}
			for _, cl := range callers {
				n := st
				n.at, n.fn = cl, cl.Parent()
				n.dec, n.bytes, n.idx = sub(st.dec, cl), sub(st.bytes, cl), sub(st.idx, cl)
				lifted = append(lifted, n)
			}
		}
		sites = lifted
	}
	return
}

func extractOf2(v ssa.Value, idx int) ssa.Value {
	if v.Referrers() == nil {
		return nil
	}
	for _, r := range *v.Referrers() {
		if e, ok := r.(*ssa.Extract); ok && e.Index == idx {
			return e
		}
	}
	return nil
}

// fieldRead: v is d.<Method>("<name>", ...) on *decode.D (after following single-assignment variables).
func (c *c19) fieldRead(v ssa.Value) (method, name string, ok bool) {
	cl, isCall := c.origin(v).(*ssa.Call)
	if !isCall || cl.Common().IsInvoke() {
		return "", "", false
	}
	f := cl.Common().StaticCallee()
	if f == nil || f.Signature.Recv() == nil || !c19isNamed(f.Signature.Recv().Type(), c.p.NamedType("pkg/decode", "D")) || len(cl.Common().Args) < 2 {
		return "", "", false
	}
	s, isStr := constString(cl.Common().Args[1])
	if !isStr {
		return "", "", false
	}
	return f.Name(), s, true
}

// varValues: the values a variable load can observe (all whole stores to the variable).
func (c *c19) varValues(v ssa.Value) []ssa.Value {
	v = c19strip(v)
	if u, ok := v.(*ssa.UnOp); ok && u.Op == token.MUL {
		if a := c.cell(u.X); a != nil {
			ci := c.cellInfo(a)
			if !ci.escapes && len(ci.fields) == 0 && len(ci.whole) > 0 {
				var out []ssa.Value
				for _, st := range ci.whole {
					out = append(out, st.Val)
				}
				return out
			}
		}
	}
	return []ssa.Value{v}
}

// ---------------------------------------------------------------------------
// C19.feed

var c19inclLen = map[string]string{"incl_len": "pcap", "capture_packet_length": "pcapng"}

func (c *c19) ruleFeed() {
	ru := c.r.Rule("C19.feed", "every capture record is fed through the link type table with the capture's own link type (pcap: header 'network'; pcapng: the section's interface table, filled in order of appearance from 'link_type'), the bytes of the included length at the current position, and the capture's flow decoder; the call happens for every record of a known link type and only for those; the bytes fed are exactly those of the record's packet field (same position, same length); an error returned for one packet does not abort the decode", 17)
	g := c.tableGlobal(ru)
	if g == nil {
		return
	}
	sites, stray := c.feedSites(g)
	for _, s := range stray {
		ru.Undecided("table-use:"+fw.ShortFn(s.Parent()), c.pos(s), "the link type table is used other than by lookup-and-call")
	}
	if len(sites) == 0 {
		ru.Fail("feed:none", "", "no packet is ever fed to the flow decoder through the link type table")
		return
	}
	formats := map[string]bool{}
	for _, s := range sites {
		a := []ssa.Value{s.dec, s.bytes}
		// bytes
		key := "feed:" + fw.ShortFn(s.fn)
		lenName := ""
		why := ""
		var posCall *ssa.Call
		var lenArg ssa.Value
		if ra, ok := c.origin(a[1]).(*ssa.Call); ok && c19calleeName(ra.Common()) == "(*pkg/decode.D).ReadAllBits" {
			if br, ok := c.origin(ra.Common().Args[1]).(*ssa.Call); ok && c19calleeName(br.Common()) == "(*pkg/decode.D).BitBufRange" {
				ba := br.Common().Args
				posCall, _ = c.origin(ba[1]).(*ssa.Call)
				lenArg = ba[2]
				if c.sig(ba[1]) != "(*pkg/decode.D).Pos(param#0)" || ba[0] != ra.Common().Args[0] {
					why = "the range starts at " + c.sig(ba[1]) + ", expected the current position d.Pos()"
				}
				if bo, ok := c19strip(ba[2]).(*ssa.BinOp); ok && why == "" {
					var opnd ssa.Value
					switch {
					case bo.Op == token.MUL:
						if k, ok := c19constInt(bo.Y); ok && k == 8 {
							opnd = bo.X
						} else if k, ok := c19constInt(bo.X); ok && k == 8 {
							opnd = bo.Y
						}
					case bo.Op == token.SHL:
						if k, ok := c19constInt(bo.Y); ok && k == 3 {
							opnd = bo.X
						}
					}
					if opnd == nil {
						why = "the range length is " + c.sig(ba[2]) + ", expected 8 * included length"
					} else if m, n, ok := c.fieldRead(opnd); ok && m == "FieldU32" {
						lenName = n
					} else {
						why = "the range length is 8 * " + c.sig(opnd) + ", expected 8 * the record's included-length field"
					}
				} else if why == "" {
					why = "the range length is " + c.sig(ba[2]) + ", expected 8 * included length"
				}
			} else {
				why = "bytes come from " + c.sig(ra.Common().Args[1])
			}
		} else {
			why = "bytes are " + c.sig(a[1]) + ", expected d.ReadAllBits(d.BitBufRange(d.Pos(), 8*included length))"
		}
		format := c19inclLen[lenName]
		if why == "" && format == "" {
			why = "the number of bytes fed is the field \"" + lenName + "\", expected the included (captured) length: incl_len / capture_packet_length"
		}
		if format != "" {
			key = "feed:" + format
			formats[format] = true
		}
		ru.Check(why == "", key+":bytes", c.pos(s.at), "bytes = ReadAllBits(BitBufRange(Pos(), 8*"+lenName+"))", why)
		// only for known link types
		okG := !s.lookup.CommaOk
		if s.lookup.CommaOk {
			okv := extractOf2(s.lookup, 1)
			for _, cd := range c19condsAt(s.call.Block()) {
				if cd.v == okv && cd.t {
					okG = true
				}
			}
		} else {
			okG = false
		}
		ru.Check(okG, key+":known-type", c.pos(s.call), "called only when the table has the link type", "the table's function is called without checking that the link type is present: unknown link types call a nil function")
		if okG {
			var rest []string
			for _, cd := range c19structConds(s.call.Block()) {
				if cd.v != extractOf2(s.lookup, 1) {
					rest = append(rest, c.sig(cd.v))
				}
			}
			if s.at != s.call {
				for _, cd := range c19structConds(s.at.Block()) {
					rest = append(rest, c.sig(cd.v))
				}
			}
			okv := extractOf2(s.lookup, 1)
			for _, x := range []*ssa.Call{s.call, s.at} {
				if len(rest) == 0 && c19skippable(x, func(v ssa.Value) (bool, bool) { return true, v == okv }) {
					rest = append(rest, "a condition in "+fw.ShortFn(x.Parent())+" (some path completes without feeding the record)")
				}
			}
			ru.Check(len(rest) == 0, key+":every-record", c.pos(s.call), "every record of a known link type is fed", "feeding additionally depends on "+strings.Join(rest, " ; ")+": records for which it does not hold (truncated, ...) are withheld from the flow decoder and leave a hole or a lost connection")
		}
		if why == "" && posCall != nil {
			c.feedAtPacket(ru, key, s, posCall, lenArg)
		}
		c.feedErrorTolerated(ru, key, s)
		// decoder
		dv := c.originTW(a[0])
		dcall, isNew := dv.(*ssa.Call)
		ru.Check(isNew && c19calleeName(dcall.Common()) == c19FD+".New", key+":decoder", c.pos(s.at), "decoder is the capture's flowsdecoder.New(...)", "the decoder argument is "+c.sig(a[0])+", expected the flow decoder created for this capture (a single write-once variable/field holding flowsdecoder.New(...))")
		// link type
		c.feedLinkType(ru, key, s)
	}
	for _, f := range []string{"pcap", "pcapng"} {
		ru.Check(formats[f], "feed:"+f, "", f+" feeds its packets", f+" records are not fed to the flow decoder with their included length")
	}
}

func (c *c19) feedLinkType(ru *fw.Rule, key string, s c19feed) {
	idx := s.idx
	// style B: interface table of the section
	if lk, ok := c.origin(idx).(*ssa.Lookup); ok {
		u, isLoad := lk.X.(*ssa.UnOp)
		var fa *ssa.FieldAddr
		if isLoad {
			fa, _ = u.X.(*ssa.FieldAddr)
		}
		if fa == nil {
			ru.Undecided(key+":linktype", c.pos(s.at), "link type comes from "+c.sig(idx))
			return
		}
		m, n, okR := c.fieldRead(lk.Index)
		ru.Check(okR && m == "FieldU32" && n == "interface_id", key+":linktype", c.pos(s.at), "link type = section's interface table[interface_id]", "the interface table is indexed by "+c.sig(lk.Index)+", expected the packet block's interface_id")
		// the table is filled in order of appearance from link_type
		nUpd := 0
		for _, fn := range c.pcapFns {
			fw.EachInstr(fn, func(ins ssa.Instruction) {
				mu, ok := ins.(*ssa.MapUpdate)
				if !ok {
					return
				}
				mu2, ok := mu.Map.(*ssa.UnOp)
				if !ok {
					return
				}
				f2, ok := mu2.X.(*ssa.FieldAddr)
				if !ok || f2.Field != fa.Field || !types.Identical(c19deref(f2.X.Type()), c19deref(fa.X.Type())) {
					return
				}
				nUpd++
				okKey := false
				if ln, ok := c19strip(mu.Key).(*ssa.Call); ok && fw.IsBuiltinCall(ln, "len") {
					if l2, ok := ln.Common().Args[0].(*ssa.UnOp); ok {
						if f3, ok := l2.X.(*ssa.FieldAddr); ok && f3.Field == fa.Field && f3.X == f2.X {
							okKey = true
						}
					}
				}
				ru.Check(okKey, key+":iface-id", c.pos(mu), "interface ids are assigned 0,1,2.. in order of appearance (len of the table)", "interface description blocks are stored under "+c.sig(mu.Key)+", expected the number of interfaces seen so far in the section")
				m, n, okR := c.fieldRead(mu.Value)
				ru.Check(okR && m == "FieldU16" && n == "link_type", key+":iface-type", c.pos(mu), "interface link type = link_type (16 bit)", "the interface table stores "+c.sig(mu.Value)+", expected the interface description's 16-bit link_type")
			})
		}
		if nUpd == 0 {
			ru.Fail(key+":iface-id", c.pos(s.call), "the interface table is never filled: every packet is treated as link type 0")
		}
		return
	}
	// style A: a variable holding the capture header's link type
	var reads, others []string
	var vals []ssa.Value
	for _, v := range c.varValues(idx) {
		vals = append(vals, c.resultValues(v, 0)...)
	}
	for _, v := range vals {
		if _, ok := c19constInt(v); ok {
			continue // initial value
		}
		if m, n, ok := c.fieldRead(v); ok {
			reads = append(reads, m+":"+n)
		} else {
			others = append(others, c.sig(v))
		}
	}
	ru.Check(len(reads) == 1 && reads[0] == "FieldU32:network" && len(others) == 0, key+":linktype", c.pos(s.at), "link type = header field network",
		fmt.Sprintf("the link type used for dispatch comes from %v %v, expected the capture header's 32-bit network field", reads, others))
}

// ---------------------------------------------------------------------------
// C19.section: decoder lifetime

// liftOnce: the call in the parent function that receives the closure ins lives in.
func (c *c19) liftOnce(ins ssa.Instruction) ssa.Instruction {
	fn := ins.Parent()
	par := fn.Parent()
	if par == nil {
		return nil
	}
	var out []ssa.Instruction
	fw.EachInstr(par, func(i ssa.Instruction) {
		ci, ok := i.(ssa.CallInstruction)
		if !ok {
			return
		}
		for _, a := range ci.Common().Args {
			a = c19strip(a)
			if mc, ok := a.(*ssa.MakeClosure); ok && mc.Fn == ssa.Value(fn) {
				out = append(out, i)
			} else if a == ssa.Value(fn) {
				out = append(out, i)
			}
		}
	})
	if len(out) != 1 {
		return nil
	}
	return out[0]
}

func (c *c19) chain(ins ssa.Instruction) []ssa.Instruction {
	var out []ssa.Instruction
	for ins != nil && len(out) < 12 {
		out = append(out, ins)
		ins = c.liftOnce(ins)
	}
	return out
}

// common lifts a and b into the deepest function containing both.
func (c *c19) common(a, b ssa.Instruction) (ssa.Instruction, ssa.Instruction) {
	cb := c.chain(b)
	for _, x := range c.chain(a) {
		for _, y := range cb {
			if x.Parent() == y.Parent() {
				return x, y
			}
		}
	}
	return nil, nil
}

func (c *c19) ruleSection() {
	ru := c.r.Rule("C19.section", "one flow decoder per capture section: flowsdecoder.New runs inside a decode run, before and once per round of the work that feeds it (pcap: per file; pcapng: per section, with a fresh interface table); Flush comes after all feeding and before fieldFlows on the same decoder; the assembler is driven only by Assemble and the final FlushAll, with unlimited buffering and without gopacket's TCP option checker; an explicit pcapng section_length is counted in octets from the end of the Section Header Block, strictly", 16)
	roots, _ := DecodeRoots(c.p)
	isRoot := map[*ssa.Function]bool{}
	for _, f := range roots {
		isRoot[f] = true
	}
	tdec := c.p.NamedType(c19FD, "Decoder")
	g := c.tableGlobal(ru)
	if g == nil || tdec == nil {
		return
	}
	sites, _ := c.feedSites(g)
	var news, flushes, flows []*ssa.Call
	for _, fn := range c.p.FqFunctions() {
		news = append(news, c19staticCalls(fn, c19FD+".New")...)
		flushes = append(flushes, c19staticCalls(fn, "(*"+c19FD+".Decoder).Flush")...)
	}
	for _, fn := range c.pcapFns {
		flows = append(flows, c19staticCalls(fn, c19PCAP+".fieldFlows")...)
	}
	if len(news) == 0 {
		ru.Fail("new:none", "", "flowsdecoder.New is never called")
		return
	}
	flowSeen := map[*ssa.Call]bool{}
	ctxTypes := map[*types.Named]bool{}
	for _, n := range news {
		top := fw.Top(n.Parent())
		key := "decoder:" + fw.ShortFn(top)
		c.noOptionCheck(ru, key, n)
		ru.Check(isRoot[top], key+":per-run", c.pos(n), "created inside the decode run", "flowsdecoder.New is called in "+fw.ShortFn(n.Parent())+", which is not (nested in) a format's decode function: the decoder and its TCP/defragmentation state would outlive one capture")
		// work that feeds this decoder
		var work []ssa.Instruction
		for _, s := range sites {
			if c.originTW(s.dec) == ssa.Value(n) && fw.Top(s.fn) == top {
				work = append(work, s.at)
			}
		}
		var maps []*ssa.Store // per-section tables living next to the decoder
		for _, fn := range c.pcapFns {
			if fw.Top(fn) != top {
				continue
			}
			fw.EachInstr(fn, func(ins ssa.Instruction) {
				cl, ok := ins.(*ssa.Call)
				if !ok || cl.Common().StaticCallee() == nil {
					return
				}
				for _, a := range cl.Common().Args {
					ca := c.cell(a)
					if ca == nil {
						continue
					}
					st, ok := c19deref(ca.Type()).Underlying().(*types.Struct)
					if !ok {
						continue
					}
					ci := c.cellInfo(ca)
					holds := false
					for i := 0; i < st.NumFields(); i++ {
						if c19isNamed(st.Field(i).Type(), tdec) {
							for _, s := range ci.fields[fmt.Sprint(i)] {
								if c.origin(s.Val) == ssa.Value(n) {
									holds = true
								}
							}
						}
					}
					if !holds {
						continue
					}
					if nt, ok := c19deref(ca.Type()).(*types.Named); ok {
						ctxTypes[nt] = true
					}
					work = append(work, cl)
					for _, sts := range ci.fields {
						for _, s := range sts {
							if _, ok := c.origin(s.Val).(*ssa.MakeMap); ok {
								maps = append(maps, s)
							}
						}
					}
				}
			})
		}
		if len(work) == 0 {
			ru.Fail(key+":fed", c.pos(n), "nothing feeds this decoder (no table call and no context holding it is passed on)")
			continue
		}
		fresh := func(creator ssa.Instruction, what string, k string) {
			okAll := true
			why := ""
			for _, w := range work {
				a, b := c.common(creator, w)
				switch {
				case a == nil:
					okAll, why = false, "the feeding code is not nested under the function creating "+what
				case a != creator:
					okAll, why = false, what+" is created inside the per-packet work (a new one for every packet)"
				case a == b:
					okAll, why = false, what+" is created inside the per-packet work (a new one for every packet)"
				case !precedesOnAllPaths(a, b):
					okAll, why = false, what+" is not created before the feeding starts on every path"
				case c19blockReaches(b.Block(), b.Block(), a.Block()):
					okAll, why = false, "the feeding code runs again (loop) without a new "+what+": state of the previous capture section is carried over"
				}
			}
			ru.Check(okAll, k, c.pos(creator), what+" is created once per round of feeding", why)
		}
		fresh(n, "the flow decoder", key+":fresh")
		done := map[ssa.Instruction]bool{}
		for _, s := range maps {
			mm := c.origin(s.Val).(*ssa.MakeMap)
			if done[mm] {
				continue
			}
			done[mm] = true
			fresh(mm, "the section's interface table", key+":iface-table-fresh")
		}
		// Flush
		var myFlush []*ssa.Call
		for _, f := range flushes {
			if c.originTW(f.Common().Args[0]) == ssa.Value(n) {
				myFlush = append(myFlush, f)
			}
		}
		if len(myFlush) == 0 {
			ru.Fail(key+":flush", c.pos(n), "the decoder is never flushed: data still buffered in the assembler (out-of-order tail, unterminated connections) is missing from the streams")
			continue
		}
		okF, why := true, ""
		for _, f := range myFlush {
			for _, w := range work {
				a, b := c.common(w, f)
				if a == nil || a == b {
					okF, why = false, "Flush is nested in the feeding code (it would run per packet and close connections early)"
				} else if !c19before(a, b) {
					okF, why = false, "Flush does not come after all feeding (it must run exactly once, after the last packet)"
				}
			}
			// Flush must not be repeated without a new decoder
			for _, x := range c.chain(f) {
				avoid := (*ssa.BasicBlock)(nil)
				if x.Parent() == n.Parent() {
					avoid = n.Block()
				}
				if x.Block() != avoid && c19blockReaches(x.Block(), x.Block(), avoid) {
					okF, why = false, "Flush runs inside a loop that does not create a new decoder (connections are closed while packets are still being fed)"
				}
				if x.Parent() == n.Parent() {
					break
				}
			}
		}
		ru.Check(okF, key+":flush", c.pos(myFlush[0]), "Flush runs after all feeding", why)
		// fieldFlows
		nff := 0
		for _, ff := range flows {
			if c.originTW(ff.Common().Args[1]) != ssa.Value(n) {
				continue
			}
			flowSeen[ff] = true
			nff++
			ok := false
			for _, f := range myFlush {
				a, b := c.common(f, ff)
				if a != nil && a != b && c19before(a, b) {
					ok = true
				}
			}
			ru.Check(ok, key+":flush-before-flows", c.pos(ff), "fieldFlows follows Flush of the same decoder", "fieldFlows is not preceded by Flush of the same decoder on every path: streams are exposed before the assembler released its buffered data")
		}
		if nff == 0 {
			ru.Fail(key+":flows", c.pos(n), "the decoder's connections are never exposed with fieldFlows")
		}
	}
	for _, ff := range flows {
		if !flowSeen[ff] {
			ru.Fail("flows:"+fw.ShortFn(ff.Parent())+":decoder", c.pos(ff), "fieldFlows is given "+c.sig(ff.Common().Args[1])+", which is not (a write-once holder of) a flowsdecoder.New(...) result of this decode run")
		}
	}
	for nt := range ctxTypes {
		c.sectionBoundary(ru, nt)
		c.sectionLength(ru, nt)
	}
	// the assembler is only driven by Assemble (per packet) and FlushAll (at the end), with unlimited
	// buffering: otherwise gopacket skips a hole in mid-capture and later in-order data (skip == 0)
	// would be appended right after the data before the hole
	nAsm := 0
	for _, fn := range c.p.FqFunctions() {
		fw.EachInstr(fn, func(ins ssa.Instruction) {
			switch x := ins.(type) {
			case *ssa.Call:
				name := c19calleeName(x.Common())
				if !strings.HasPrefix(name, "(*gopacket/reassembly.Assembler).") {
					return
				}
				nAsm++
				m := strings.TrimPrefix(name, "(*gopacket/reassembly.Assembler).")
				where := fw.ShortFn(fn)
				okUse := (m == "Assemble" && where == "(*"+c19FD+".Decoder).packet") || (m == "FlushAll" && where == "(*"+c19FD+".Decoder).Flush")
				ru.Check(okUse, "assembler:"+m+":"+where, c.pos(x), "assembler driven by "+m+" in "+where, "the TCP assembler's "+m+" is called in "+where+": only Assemble (per packet, in packet()) and FlushAll (once, in Flush()) keep 'no data after a hole'")
			case *ssa.Store:
				for a := x.Addr; ; {
					fa, ok := a.(*ssa.FieldAddr)
					if !ok {
						break
					}
					if n, ok := c19deref(fa.X.Type()).(*types.Named); ok && n.Obj().Pkg() != nil && n.Obj().Pkg().Path() == c19GPReasm && n.Obj().Name() == "AssemblerOptions" {
						nAsm++
						ru.Fail("assembler:options:"+fw.ShortFn(fn), c.pos(x), "the assembler's "+fieldNameOf(fa.X.Type(), fa.Field)+" is set: with a page limit gopacket gives up on a hole in mid-capture and the stream continues after it")
					}
					a = fa.X
				}
			}
		})
	}
	if nAsm == 0 {
		ru.Undecided("assembler:use", "", "no use of reassembly.Assembler found")
	}
	// Flush itself
	fl := getFn(ru, c.p, "(*"+c19FD+".Decoder).Flush")
	if fl != nil {
		calls := c19staticCalls(fl, "(*gopacket/reassembly.Assembler).FlushAll")
		ok := len(calls) >= 1 && c.sig(calls[0].Common().Args[0]) == "param#0.tcpAssembler"
		ru.Check(ok, "Flush:FlushAll", c.pos(fl), "Flush = tcpAssembler.FlushAll()", "Decoder.Flush does not call FlushAll on the decoder's own assembler")
	}
}

// ---------------------------------------------------------------------------
// C19.flow

func (c *c19) ruleFlow() {
	ru := c.r.Rule("C19.flow", "fieldFlows exposes, for each recorded connection, client = the connection's Client record and server = its Server record (ip, port, has_start, has_end, skipped_bytes, stream = all bytes of its Buffer) with TCP_Stream_In ports (own, peer); every recorded connection is emitted (no filter); ipv4_reassembled exposes each recorded datagram", 30)
	ff := getFn(ru, c.p, c19PCAP+".fieldFlows")
	tdir := c.p.NamedType(c19FD, "TCPDirection")
	tin := c.p.NamedType("format", "TCP_Stream_In")
	if ff == nil || tdir == nil || tin == nil {
		if ff != nil {
			ru.Undecided("anchor:types", "", "flowsdecoder.TCPDirection / format.TCP_Stream_In not found")
		}
		return
	}
	all := fw.WithClosures(ff)
	// package functions fieldFlows' work was moved into (closure -> function, extracted helpers) are
	// read as part of it: their parameters stand for the arguments at the call site
	helperSites := map[*ssa.Function][]*ssa.Call{}
	var helpers []*ssa.Function
	for i := 0; i < len(all) && len(all) < 200; i++ {
		fw.EachInstr(all[i], func(ins ssa.Instruction) {
			cl, ok := ins.(*ssa.Call)
			if !ok || cl.Common().IsInvoke() {
				return
			}
			f := cl.Common().StaticCallee()
			if f == nil || f == ff || f.Parent() != nil || f.Blocks == nil || pkgRel(f) != c19PCAP || len(f.Params) != len(cl.Common().Args) {
				return
			}
			if helperSites[f] == nil {
				helpers = append(helpers, f)
				all = append(all, fw.WithClosures(f)...)
			}
			helperSites[f] = append(helperSites[f], cl)
		})
	}
	// the function that emits one direction
	var F *ssa.Function
	tdI, tsiI := -1, -1
	for _, fn := range all {
		for i, pa := range fn.Params {
			if c19isNamed(pa.Type(), tdir) {
				if _, isPtr := pa.Type().Underlying().(*types.Pointer); isPtr {
					if F != nil && F != fn {
						ru.Undecided("emit:fn", c.pos(fn), "more than one function takes a *TCPDirection")
						return
					}
					F, tdI = fn, i
				}
			}
		}
	}
	if F == nil {
		ru.Undecided("emit:fn", c.pos(ff), "no function in fieldFlows takes a *TCPDirection: the per-direction emitter was restructured")
		return
	}
	for i, pa := range F.Params {
		if types.Identical(pa.Type(), tin) {
			tsiI = i
		}
	}
	env := map[*ssa.Parameter]string{}
	oldSubst := c.subst
	c.subst = env
	defer func() { c.subst = oldSubst }()
	for _, h := range helpers {
		for i, pa := range h.Params {
			if h == F && (i == tdI || i == tsiI) {
				continue
			}
			sigs := map[string]bool{}
			for _, site := range helperSites[h] {
				sigs[c.sig(site.Common().Args[i])] = true
			}
			if len(sigs) == 1 {
				for s := range sigs {
					env[pa] = s
				}
			}
		}
	}
	// chain through helpers with a single call site
	chain := func(ins ssa.Instruction) []ssa.Instruction {
		var out []ssa.Instruction
		for ins != nil && len(out) < 16 {
			out = append(out, ins)
			next := c.liftOnce(ins)
			if next == nil {
				if sites := helperSites[ins.Parent()]; len(sites) == 1 {
					next = sites[0]
				}
			}
			ins = next
		}
		return out
	}
	td := fmt.Sprintf("param#%d", tdI)
	reader := func(src string) string { return "pkg/bitio.NewBitReader(" + src + ",-1)" }
	wantF := map[string]string{
		"ip":            "(net.IP).String(" + td + ".Endpoint.IP)",
		"port":          td + ".Endpoint.Port",
		"has_start":     td + ".HasStart",
		"has_end":       td + ".HasEnd",
		"skipped_bytes": td + ".SkippedBytes",
		"stream":        reader("(*bytes.Buffer).Bytes(" + td + ".Buffer)"),
	}
	emitted := map[string]bool{}
	emit := func(fn *ssa.Function, want map[string]string, prefix string, groupWant, inWant string) {
		fw.EachInstr(fn, func(ins ssa.Instruction) {
			cl, ok := ins.(*ssa.Call)
			if !ok {
				return
			}
			m, name, ok := c.fieldRead(cl)
			if !ok {
				return
			}
			w, has := want[name]
			if !has || !(strings.HasPrefix(m, "FieldValue") || m == "TryFieldFormatBitBuf" || m == "FieldRootBitBuf") {
				return
			}
			key := prefix + name
			if m == "FieldRootBitBuf" {
				key += ":raw-fallback"
			}
			got := c.sig(cl.Common().Args[2])
			ru.Check(got == w, key, c.pos(cl), name+" = "+w, "field \""+name+"\" shows "+got+", expected "+w)
			emitted[prefix+name] = true
			if m == "TryFieldFormatBitBuf" && len(cl.Common().Args) >= 5 {
				gg := c.sig(cl.Common().Args[3])
				ru.Check(gg == groupWant, key+":group", c.pos(cl), "decoded with "+groupWant, "\""+name+"\" is decoded with format group "+gg+", expected "+groupWant)
				gi := c.sig(cl.Common().Args[4])
				ru.Check(gi == inWant, key+":in-arg", c.pos(cl), "format argument = "+inWant, "\""+name+"\" is decoded with argument "+gi+", expected "+inWant)
			}
			if m == "FieldRootBitBuf" {
				// only when the format decode produced no value
				okG := false
				for _, cd := range c19condsAt(cl.Block()) {
					if bo, ok := cd.v.(*ssa.BinOp); ok && ((bo.Op == token.EQL && cd.t) || (bo.Op == token.NEQ && !cd.t)) {
						for _, pr := range [][2]ssa.Value{{bo.X, bo.Y}, {bo.Y, bo.X}} {
							if ex, ok := pr[0].(*ssa.Extract); ok && ex.Index == 0 && isNilConst(pr[1]) {
								if tc, ok := ex.Tuple.(*ssa.Call); ok && c19calleeName(tc.Common()) == "(*pkg/decode.D).TryFieldFormatBitBuf" {
									okG = true
								}
							}
						}
					}
				}
				ru.Check(okG, key+":only-if-undecoded", c.pos(cl), "raw field only when no format decoded the bytes", "the raw \""+name+"\" field is not conditional on the format decode having produced no value: the field would be added twice or never")
			}
		})
	}
	emit(F, wantF, "emit:", "&(param#2)", fmt.Sprintf("param#%d", tsiI))
	for name := range wantF {
		if !emitted["emit:"+name] {
			ru.Fail("emit:"+name, c.pos(F), "the per-direction emitter does not add a field \""+name+"\"")
		}
	}
	// callers of F
	S := "param#1.TCPConnections[*]"
	sides := map[string]bool{}
	for _, fn := range all {
		fw.EachInstr(fn, func(ins ssa.Instruction) {
			cl, ok := ins.(*ssa.Call)
			if !ok || cl.Common().IsInvoke() {
				return
			}
			target := cl.Common().StaticCallee()
			if target == nil {
				if mc, ok := c.origin(cl.Common().Value).(*ssa.MakeClosure); ok {
					target, _ = mc.Fn.(*ssa.Function)
				}
			}
			if target != F {
				return
			}
			args := cl.Common().Args
			tdSig := c.sig(args[tdI])
			var side, other string
			switch tdSig {
			case S + ".Client":
				side, other = "Client", "Server"
			case S + ".Server":
				side, other = "Server", "Client"
			default:
				ru.Fail("wire:"+fw.ShortFn(fn), c.pos(cl), "a direction is emitted from "+tdSig+", expected "+S+".Client or .Server (the connections recorded by the decoder passed in)")
				return
			}
			key := "wire:" + strings.ToLower(side)
			sides[side] = true
			// enclosing field names
			var names []string
			for _, up := range chain(cl)[1:] {
				if _, n, ok := c.fieldRead(up.(ssa.Value)); ok {
					names = append(names, n)
				}
			}
			var sel []string
			for _, up := range chain(cl) {
				for _, cd := range c19structConds(up.Block()) {
					if !c19isRangeCond(cd) {
						sel = append(sel, c.sig(cd.v))
					}
				}
				if len(sel) == 0 && c19skippable(up, func(v ssa.Value) (bool, bool) { return true, c19isRangeCond(c19cond{v, true}) }) {
					sel = append(sel, "a condition in "+fw.ShortFn(up.Parent())+" (some path completes without emitting it)")
				}
			}
			ru.Check(len(sel) == 0, key+":every-connection", c.pos(cl), "emitted for every recorded connection", "the "+side+" record is emitted only when "+strings.Join(sel, " ; ")+": connections for which it does not hold (empty payload ...) are missing from tcp_connections or lack this direction")
			wantNames := strings.ToLower(side) + "/tcp_connection/tcp_connections"
			ru.Check(strings.Join(names, "/") == wantNames, key+":path", c.pos(cl), "emitted under "+wantNames, "the "+side+" record is emitted under "+strings.Join(names, "/")+", expected "+wantNames)
			// TCP_Stream_In literal
			vals := map[string]string{}
			if tsiI >= 0 {
				if ld, ok := args[tsiI].(*ssa.UnOp); ok {
					if la := c.cell(ld.X); la != nil {
						st := tin.Underlying().(*types.Struct)
						li := c.cellInfo(la)
						for i := 0; i < st.NumFields(); i++ {
							if s := li.fields[fmt.Sprint(i)]; len(s) == 1 {
								vals[st.Field(i).Name()] = c.sig(s[0].Val)
							}
						}
					}
				}
			}
			want := map[string]string{
				"IsClient":        fmt.Sprint(side == "Client"),
				"HasStart":        S + "." + side + ".HasStart",
				"HasEnd":          S + "." + side + ".HasEnd",
				"SkippedBytes":    S + "." + side + ".SkippedBytes",
				"SourcePort":      S + "." + side + ".Endpoint.Port",
				"DestinationPort": S + "." + other + ".Endpoint.Port",
			}
			for _, f := range fw.SortedKeys(want) {
				got, has := vals[f]
				if !has {
					got = "<unset>"
					if f == "IsClient" && side == "Server" {
						got = "false" // zero value
					}
				}
				ru.Check(got == want[f], key+":in."+f, c.pos(cl), f+" = "+want[f], "TCP_Stream_In."+f+" of the "+strings.ToLower(side)+" stream is "+got+", expected "+want[f])
			}
		})
	}
	for _, s := range []string{"Client", "Server"} {
		if !sides[s] {
			ru.Fail("wire:"+strings.ToLower(s), c.pos(ff), "the connection's "+s+" record is never emitted")
		}
	}
	// ipv4_reassembled
	wantIP := map[string]string{"ipv4_packet": reader("param#1.IPV4Reassembled[*].Datagram")}
	for _, fn := range all {
		if fn == F {
			continue
		}
		emit(fn, wantIP, "ipv4:", "&(param#3)", "nil")
	}
	if !emitted["ipv4:ipv4_packet"] {
		ru.Fail("ipv4:ipv4_packet", c.pos(ff), "recorded reassembled datagrams are not exposed as ipv4_packet fields")
	}
	var arrays []string
	for _, fn := range append([]*ssa.Function{ff}, helpers...) {
		for _, cl := range fw.CallsIn(fn) {
			if v, ok := cl.(*ssa.Call); ok {
				if m, n, ok := c.fieldRead(v); ok && m == "FieldArray" {
					arrays = append(arrays, n)
				}
			}
		}
	}
	sort.Strings(arrays)
	ru.Check(strings.Join(arrays, ",") == "ipv4_reassembled,tcp_connections", "arrays", c.pos(ff), "arrays ipv4_reassembled and tcp_connections", "fieldFlows adds arrays "+strings.Join(arrays, ",")+", expected ipv4_reassembled and tcp_connections")
}

// c19SHB is the pcapng Section Header Block type (byte-order independent by design).
const c19SHB = 0x0A0D0D0A

// sectionBoundary: per-section state (interface table, flow decoder) lives in the context struct;
// a new Section Header Block must therefore either end the loop that decodes one section or reset
// that state. Accepted evidence: (A) the block handler registered for the SHB type writes the
// context's table/decoder fields, or (B) a branch inside a loop of the pcapng decoder depends on a comparison with the SHB type.
func (c *c19) sectionBoundary(ru *fw.Rule, ctx *types.Named) {
	st, ok := ctx.Underlying().(*types.Struct)
	if !ok {
		return
	}
	tdec := c.p.NamedType(c19FD, "Decoder")
	state := map[int]bool{}
	hasTable := false
	for i := 0; i < st.NumFields(); i++ {
		if _, isMap := st.Field(i).Type().Underlying().(*types.Map); isMap {
			state[i], hasTable = true, true
		}
		if c19isNamed(st.Field(i).Type(), tdec) {
			state[i] = true
		}
	}
	if !hasTable {
		return // no per-section table: nothing to bound
	}
	key := "pcapng:section-boundary"
	pk := c.p.Pkg(c19PCAP)
	// (A) handler for the SHB key in a block handler table
	resets := false
	var handlerLits []ast.Node
	for _, f := range pk.Syntax {
		ast.Inspect(f, func(n ast.Node) bool {
			cl, ok := n.(*ast.CompositeLit)
			if !ok {
				return true
			}
			mt, ok := pk.TypesInfo.TypeOf(cl).Underlying().(*types.Map)
			if !ok {
				return true
			}
			sg, ok := mt.Elem().Underlying().(*types.Signature)
			if !ok {
				return true
			}
			takesCtx := false
			for i := 0; i < sg.Params().Len(); i++ {
				if c19isNamed(sg.Params().At(i).Type(), ctx) {
					takesCtx = true
				}
			}
			if !takesCtx {
				return true
			}
			for _, e := range cl.Elts {
				kv, ok := e.(*ast.KeyValueExpr)
				if !ok {
					continue
				}
				if v := pk.TypesInfo.Types[kv.Key].Value; v != nil {
					if k, ok := constant.Uint64Val(constant.ToInt(v)); ok && k == c19SHB {
						handlerLits = append(handlerLits, kv.Value)
					}
				}
			}
			return true
		})
	}
	writesState := func(fn *ssa.Function) bool {
		w := false
		for _, g := range fw.WithClosures(fn) {
			fw.EachInstr(g, func(ins ssa.Instruction) {
				switch x := ins.(type) {
				case *ssa.Store:
					if fa, ok := x.Addr.(*ssa.FieldAddr); ok && c19isNamed(fa.X.Type(), ctx) && state[fa.Field] {
						w = true
					}
				case *ssa.Call:
					if fw.IsBuiltinCall(x, "clear") && len(x.Common().Args) == 1 {
						if ld, ok := x.Common().Args[0].(*ssa.UnOp); ok {
							if fa, ok := ld.X.(*ssa.FieldAddr); ok && c19isNamed(fa.X.Type(), ctx) && state[fa.Field] {
								w = true
							}
						}
					}
				}
			})
		}
		return w
	}
	for _, fn := range c.pcapFns {
		for _, h := range handlerLits {
			if fn.Syntax() == h && writesState(fn) {
				resets = true
			}
		}
		if id, ok := anyIdent(handlerLits); ok && fn.Object() != nil && pk.TypesInfo.Uses[id] == fn.Object() && writesState(fn) {
			resets = true
		}
	}
	// (B) a loop with a branch on the SHB type (short-circuit loop conditions are branches inside the loop)
	ends := false
	for _, fn := range c.pcapFns {
		for _, b := range fn.Blocks {
			ifi, ok := b.Instrs[len(b.Instrs)-1].(*ssa.If)
			if !ok || !c19blockReaches(b, b, nil) {
				continue
			}
			seen := map[ssa.Value]bool{}
			var dep func(v ssa.Value) bool
			dep = func(v ssa.Value) bool {
				if seen[v] {
					return false
				}
				seen[v] = true
				switch x := v.(type) {
				case *ssa.BinOp:
					if x.Op == token.EQL || x.Op == token.NEQ {
						for _, o := range []ssa.Value{x.X, x.Y} {
							if k, ok := c19strip(o).(*ssa.Const); ok && k.Value != nil && k.Value.Kind() == constant.Int {
								if u, ok := constant.Uint64Val(k.Value); ok && u == c19SHB {
									return true
								}
							}
						}
					}
					return dep(x.X) || dep(x.Y)
				case *ssa.UnOp:
					return dep(x.X)
				case *ssa.Phi:
					for i, e := range x.Edges {
						if dep(e) {
							return true
						}
						// short-circuit conditions: the predecessor's own branch
						if pi, ok := x.Block().Preds[i].Instrs[len(x.Block().Preds[i].Instrs)-1].(*ssa.If); ok && dep(pi.Cond) {
							return true
						}
					}
				}
				return false
			}
			if dep(ifi.Cond) {
				ends = true
			}
			// conditions reaching this If through short-circuit blocks inside the loop
			for _, cd := range c19condsAt(b) {
				if ci, ok := cd.v.(ssa.Instruction); ok && c19blockReaches(ci.Block(), ci.Block(), nil) && dep(cd.v) {
					ends = true
				}
			}
		}
	}
	ru.Check(resets || ends, key, c.p.Rel(ctx.Obj().Pos()), "a Section Header Block ends the section loop or resets the per-section state",
		"nothing ends a section at the next Section Header Block: when section_length is -1 (unspecified, what capture tools write) the blocks of all following sections are decoded with the first section's interface table and flow decoder, so interface ids of later sections resolve to the wrong link type and their TCP connections are lost")
}

func anyIdent(nodes []ast.Node) (*ast.Ident, bool) {
	for _, n := range nodes {
		if id, ok := n.(*ast.Ident); ok {
			return id, true
		}
	}
	return nil, false
}

// resultValues: a value that is result #i of a function of the pcap package stands for what that
// function returns (phis expanded); anything else stands for itself.
func (c *c19) resultValues(v ssa.Value, d int) []ssa.Value {
	x := c.origin(v)
	var call *ssa.Call
	idx := 0
	if ex, ok := x.(*ssa.Extract); ok {
		call, _ = ex.Tuple.(*ssa.Call)
		idx = ex.Index
	} else if cl, ok := x.(*ssa.Call); ok {
		call = cl
	}
	if call == nil || call.Common().IsInvoke() || d > 3 {
		return []ssa.Value{v}
	}
	f := call.Common().StaticCallee()
	if f == nil || f.Blocks == nil || pkgRel(f) != c19PCAP || idx >= f.Signature.Results().Len() {
		return []ssa.Value{v}
	}
	var out []ssa.Value
	for _, ret := range returnsOf(f) {
		if idx >= len(ret.Results) {
			continue
		}
		for _, lf := range c19leaves(c.origin(ret.Results[idx]), nil) {
			out = append(out, c.resultValues(lf.v, d+1)...)
		}
	}
	if len(out) == 0 {
		return []ssa.Value{v}
	}
	return out
}
