package rules

import (
	"fmt"
	"go/token"
	"go/types"
	"strings"

	"golang.org/x/tools/go/ssa"

	"fqverif/fw"
)

// c12AP renders SSA values as access paths ("P0.dv.Parent", "Root(P0.dv)", "X.Children[i]") so
// that rules compare *which object a value flows from*, independent of local names, statement
// order, redundant reloads (go/ssa does no CSE) and if/switch shape. Roots: Pn = n-th parameter
// (receiver first), Fn = n-th free variable, names given by the rule for phis it identified.
type c12AP struct {
	names map[ssa.Value]string
	depth int
}

func newC12AP() *c12AP { return &c12AP{names: map[ssa.Value]string{}} }

func (a *c12AP) name(v ssa.Value, n string) { a.names[v] = n }

func c12FieldName(t types.Type, i int) string {
	if p, ok := t.Underlying().(*types.Pointer); ok {
		t = p.Elem()
	}
	if s, ok := t.Underlying().(*types.Struct); ok && i < s.NumFields() {
		return s.Field(i).Name()
	}
	return fmt.Sprintf("#%d", i)
}

// c12AllocInit: an Alloc that is initialised by exactly one whole-value Store (the "local copy
// of a by-value receiver/parameter" idiom) stands for the stored value.
func c12AllocInit(al *ssa.Alloc) ssa.Value {
	if al.Referrers() == nil {
		return nil
	}
	var init ssa.Value
	n := 0
	for _, r := range *al.Referrers() {
		if st, ok := r.(*ssa.Store); ok && st.Addr == ssa.Value(al) {
			init = st.Val
			n++
		}
	}
	if n == 1 {
		return init
	}
	return nil
}

func (a *c12AP) of(v ssa.Value) string {
	if n, ok := a.names[v]; ok {
		return n
	}
	if a.depth > 24 {
		return "?deep"
	}
	a.depth++
	defer func() { a.depth-- }()
	switch x := v.(type) {
	case *ssa.Parameter:
		for i, p := range x.Parent().Params {
			if p == x {
				return fmt.Sprintf("P%d", i)
			}
		}
		return "P?"
	case *ssa.FreeVar:
		for i, p := range x.Parent().FreeVars {
			if p == x {
				return fmt.Sprintf("F%d", i)
			}
		}
		return "F?"
	case *ssa.Const:
		if x.IsNil() {
			return "nil"
		}
		if x.Value == nil {
			return "zero"
		}
		return x.Value.ExactString()
	case *ssa.Alloc:
		if iv := c12AllocInit(x); iv != nil {
			return a.of(iv)
		}
		return "new(" + shortType(x.Type()) + ")"
	case *ssa.FieldAddr:
		// address of a field: rendered as the field path itself, loads add nothing
		return a.of(x.X) + "." + c12FieldName(x.X.Type(), x.Field)
	case *ssa.Field:
		return a.of(x.X) + "." + c12FieldName(x.X.Type(), x.Field)
	case *ssa.IndexAddr:
		return a.of(x.X) + "[" + a.of(x.Index) + "]"
	case *ssa.Index:
		return a.of(x.X) + "[" + a.of(x.Index) + "]"
	case *ssa.Lookup:
		return a.of(x.X) + "[" + a.of(x.Index) + "]"
	case *ssa.UnOp:
		switch x.Op {
		case token.MUL:
			return a.of(x.X)
		case token.NOT:
			return "!" + a.of(x.X)
		case token.SUB:
			return "-" + a.of(x.X)
		}
		return x.Op.String() + a.of(x.X)
	case *ssa.MakeInterface:
		return a.of(x.X)
	case *ssa.ChangeType:
		return a.of(x.X)
	case *ssa.ChangeInterface:
		return a.of(x.X)
	case *ssa.Convert:
		return a.of(x.X)
	case *ssa.Extract:
		switch t := x.Tuple.(type) {
		case *ssa.TypeAssert:
			if x.Index == 0 {
				return "as[" + shortType(t.AssertedType) + "](" + a.of(t.X) + ")"
			}
			return "is[" + shortType(t.AssertedType) + "](" + a.of(t.X) + ")"
		case *ssa.Lookup:
			if x.Index == 0 {
				return a.of(t)
			}
			return "has(" + a.of(t) + ")"
		}
		return fmt.Sprintf("%s#%d", a.of(x.Tuple), x.Index)
	case *ssa.TypeAssert:
		return "as[" + shortType(x.AssertedType) + "](" + a.of(x.X) + ")"
	case *ssa.BinOp:
		return "(" + a.of(x.X) + x.Op.String() + a.of(x.Y) + ")"
	case *ssa.Call:
		cc := x.Common()
		var args []string
		for _, ar := range cc.Args {
			args = append(args, a.of(ar))
		}
		if cc.IsInvoke() {
			return "invoke:" + cc.Method.Name() + "(" + a.of(cc.Value) + strings.Join(append([]string{""}, args...), ",") + ")"
		}
		if f := cc.StaticCallee(); f != nil {
			return c12FnName(f) + "(" + strings.Join(args, ",") + ")"
		}
		if b, ok := cc.Value.(*ssa.Builtin); ok {
			return b.Name() + "(" + strings.Join(args, ",") + ")"
		}
		return "dyn:" + a.of(cc.Value) + "(" + strings.Join(args, ",") + ")"
	case *ssa.Slice:
		if x.Low == nil && x.High == nil && x.Max == nil {
			return a.of(x.X) + "[:]"
		}
		return "slice(" + a.of(x.X) + ")"
	case *ssa.Function:
		return c12FnName(x)
	case *ssa.MakeClosure:
		return "closure:" + c12FnName(x.Fn.(*ssa.Function))
	case *ssa.Phi:
		for i, ins := range x.Block().Instrs {
			if ins == ssa.Instruction(x) {
				return fmt.Sprintf("phi.b%d.%d", x.Block().Index, i)
			}
		}
		return "phi"
	}
	return fmt.Sprintf("?%T", v)
}

func c12FnName(f *ssa.Function) string {
	if o := f.Origin(); o != nil {
		f = o
	}
	return fw.ShortFn(f)
}

// c12Facts returns the branch facts known at block b as access-path strings: "X!=nil", "X==nil",
// "X" / "!X" for boolean conditions, "(a<b)" / "!(a<b)" for other comparisons.
func (a *c12AP) facts(b *ssa.BasicBlock) map[string]bool {
	out := map[string]bool{}
	for _, g := range fw.Guards(b) {
		a.addFact(out, g.Cond, g.True)
	}
	return out
}

// edgeFacts: facts at pred plus the outcome of pred's own If on the edge pred->succ.
func (a *c12AP) edgeFacts(pred, succ *ssa.BasicBlock) map[string]bool {
	out := a.facts(pred)
	if ifi, ok := pred.Instrs[len(pred.Instrs)-1].(*ssa.If); ok && len(pred.Succs) == 2 && pred.Succs[0] != pred.Succs[1] {
		a.addFact(out, ifi.Cond, pred.Succs[0] == succ)
	}
	return out
}

func (a *c12AP) addFact(out map[string]bool, cond ssa.Value, truth bool) {
	for {
		u, ok := cond.(*ssa.UnOp)
		if !ok || u.Op != token.NOT {
			break
		}
		cond, truth = u.X, !truth
	}
	if bo, ok := cond.(*ssa.BinOp); ok && (bo.Op == token.EQL || bo.Op == token.NEQ) {
		eq := (bo.Op == token.EQL) == truth
		x, y := a.of(bo.X), a.of(bo.Y)
		if x == "nil" || (c12IsConst(bo.X) && !c12IsConst(bo.Y)) {
			x, y = y, x
		}
		if eq {
			out[x+"=="+y] = true
		} else {
			out[x+"!="+y] = true
		}
		return
	}
	s := a.of(cond)
	if truth {
		out[s] = true
	} else {
		out["!"+s] = true
	}
}

func c12IsConst(v ssa.Value) bool { _, ok := v.(*ssa.Const); return ok }

func c12FactList(m map[string]bool) string {
	return strings.Join(fw.SortedKeys(m), " && ")
}

// c12SwitchArm finds the arm of a string switch / if-chain on parameter `on` for constant key:
// the block entered when on == key.
func c12SwitchArm(fn *ssa.Function, on ssa.Value, key string) *ssa.BasicBlock {
	for _, b := range fn.Blocks {
		ifi, ok := b.Instrs[len(b.Instrs)-1].(*ssa.If)
		if !ok {
			continue
		}
		bo, ok := ifi.Cond.(*ssa.BinOp)
		if !ok || (bo.Op != token.EQL && bo.Op != token.NEQ) {
			continue
		}
		var c ssa.Value
		if bo.X == on {
			c = bo.Y
		} else if bo.Y == on {
			c = bo.X
		} else {
			continue
		}
		if s, ok := constString(c); ok && s == key {
			if bo.Op == token.EQL {
				return b.Succs[0]
			}
			return b.Succs[1]
		}
	}
	return nil
}

// c12ArmReturns lists the Return instructions inside an arm (blocks dominated by its entry).
func c12ArmReturns(arm *ssa.BasicBlock) []*ssa.Return {
	var out []*ssa.Return
	for _, b := range arm.Parent().Blocks {
		if b != arm && !arm.Dominates(b) {
			continue
		}
		if r, ok := b.Instrs[len(b.Instrs)-1].(*ssa.Return); ok {
			out = append(out, r)
		}
	}
	return out
}

// c12Reach reports whether block `to` is reachable from block `from` (from itself counts only
// through a cycle unless inclusive).
func c12Reach(from, to *ssa.BasicBlock, inclusive bool) bool {
	if inclusive && from == to {
		return true
	}
	seen := map[*ssa.BasicBlock]bool{}
	stack := append([]*ssa.BasicBlock{}, from.Succs...)
	for len(stack) > 0 {
		b := stack[len(stack)-1]
		stack = stack[:len(stack)-1]
		if seen[b] {
			continue
		}
		seen[b] = true
		if b == to {
			return true
		}
		stack = append(stack, b.Succs...)
	}
	return false
}

// c12Field returns the index of a named field of a named struct type, -1 if absent.
func c12Field(n *types.Named, field string) int {
	if n == nil {
		return -1
	}
	st, ok := n.Underlying().(*types.Struct)
	if !ok {
		return -1
	}
	for i := 0; i < st.NumFields(); i++ {
		if st.Field(i).Name() == field {
			return i
		}
	}
	return -1
}
