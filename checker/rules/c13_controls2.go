package rules

// Positive controls for the C13 rules added in the self-review round (C13.wrap, the generalised C13.nilret,
// C13.idx, the nil-value precondition of reflect-based encoders, the checked kinds-switch exception and the
// path-sensitive clamp check of C13.inv), and replacements for two controls of controls_core.go whose
// snippet no longer exists / no longer produces a make after fix commits in /repo.

func init() {
	AddControl(Control{ID: "c13-wrap-arity", Prop: "C13", Rule: "C13.wrap", File: "internal/gojqx/makefn_gen.go",
		Old:       "f := Function{Name: name, MinArity: 2, MaxArity: 2}\n\t\tf.FuncFn",
		New:       "f := Function{Name: name, MinArity: 1, MaxArity: 2}\n\t\tf.FuncFn",
		ExpectKey: "Func2|arity:MinArity"})
	AddControl(Control{ID: "c13-wrap-index", Prop: "C13", Rule: "C13.wrap", File: "internal/gojqx/makefn_gen.go",
		Old:       "\t\t\ta0, ok := CastFn[Ta0](a[0], mapstruct.ToStruct)\n\t\t\tif !ok {\n\t\t\t\treturn gojq.NewIter(FuncArgTypeError{Name: name, ArgName: \"first\", V: a[0]})\n\t\t\t}\n\n\t\t\treturn fn(env, cv, a0)",
		New:       "\t\t\ta0, ok := CastFn[Ta0](a[1], mapstruct.ToStruct)\n\t\t\tif !ok {\n\t\t\t\treturn gojq.NewIter(FuncArgTypeError{Name: name, ArgName: \"first\", V: a[0]})\n\t\t\t}\n\n\t\t\treturn fn(env, cv, a0)",
		ExpectKey: "Iter1|index"})
	AddControl(Control{ID: "c13-wrap-reject", Prop: "C13", Rule: "C13.wrap", File: "internal/gojqx/makefn_gen.go",
		Old:       "\t\t\ta0, ok := CastFn[Ta0](a[0], mapstruct.ToStruct)\n\t\t\tif !ok {\n\t\t\t\treturn FuncArgTypeError{Name: name, ArgName: \"first\", V: a[0]}\n\t\t\t}\n\n\t\t\treturn fn(env, cv, a0)",
		New:       "\t\t\ta0, _ := CastFn[Ta0](a[0], mapstruct.ToStruct)\n\n\t\t\treturn fn(env, cv, a0)",
		ExpectKey: "Func1|reject:a[0]"})
	AddControl(Control{ID: "c13-nilret-err-ignored", Prop: "C13", Rule: "C13.nilret", File: "pkg/interp/interp.go",
		Old:       "func (i *Interp) _display(c any, v any) gojq.Iter {\n\topts, err := OptionsFromValue(v)\n\tif err != nil {\n\t\treturn gojq.NewIter(err)\n\t}\n",
		New:       "func (i *Interp) _display(c any, v any) gojq.Iter {\n\topts, _ := OptionsFromValue(v)\n",
		ExpectKey: "_display|errpair:pkg/interp.OptionsFromValue"})
	AddControl(Control{ID: "c13-nilret-commaok-ignored", Prop: "C13", Rule: "C13.nilret", File: "pkg/interp/interp.go",
		Old:       "\tt, ok := fd.(Terminal)\n\tif !ok {\n\t\treturn fmt.Errorf(\"%s is not a terminal\", fdName)\n\t}\n",
		New:       "\tt, _ := fd.(Terminal)\n",
		ExpectKey: "_stdioInfo|commaok:assertion to pkg/interp.Terminal"})
	AddControl(Control{ID: "c13-nilret-iface-helper", Prop: "C13", Rule: "C13.nilret", File: "format/text/encoding.go",
		Old:       "\t\th := strEncoding(opts.Encoding)\n\t\tif h == nil {\n\t\t\treturn fmt.Errorf(\"unknown string encoding %s\", opts.Encoding)\n\t\t}\n\n\t\tbb := &bytes.Buffer{}\n\t\tif _, err := io.Copy(h.NewEncoder()",
		New:       "\t\th := strEncoding(opts.Encoding)\n\n\t\tbb := &bytes.Buffer{}\n\t\tif _, err := io.Copy(h.NewEncoder()",
		ExpectKey: "helper:format/text.init#1$6"})
	AddControl(Control{ID: "c13-nilret-check-after-use", Prop: "C13", Rule: "C13.nilret", File: "format/crypto/hash.go",
		Old:       "\tif h == nil {\n\t\treturn fmt.Errorf(\"unknown hash function %s\", opts.Name)\n\t}\n\tif _, err := io.Copy(h, bitio.NewIOReader(inBR)); err != nil {\n\t\treturn err\n\t}\n",
		New:       "\tif _, err := io.Copy(h, bitio.NewIOReader(inBR)); err != nil {\n\t\treturn err\n\t}\n\tif h == nil {\n\t\treturn fmt.Errorf(\"unknown hash function %s\", opts.Name)\n\t}\n",
		ExpectKey: "helper:format/crypto.hashFn"})
	AddControl(Control{ID: "c13-idx-protocol-lower", Prop: "C13", Rule: "C13.idx", File: "internal/gojqx/types.go",
		Old:       "func (v Array) JQValueIndex(index int) any {\n\tif index < 0 {\n\t\treturn nil\n\t}\n\treturn v[index]",
		New:       "func (v Array) JQValueIndex(index int) any {\n\treturn v[index]",
		ExpectKey: "(internal/gojqx.Array).JQValueIndex|index|recv[arg0]"})
	AddControl(Control{ID: "c13-idx-protocol-offbyone", Prop: "C13", Rule: "C13.idx", File: "pkg/interp/decode.go",
		Old:       "\tif index < 0 {\n\t\treturn nil\n\t}\n\treturn makeDecodeValue((v.Compound.Children)[index], decodeValueValue)",
		New:       "\tif index < -1 {\n\t\treturn nil\n\t}\n\treturn makeDecodeValue((v.Compound.Children)[index], decodeValueValue)",
		ExpectKey: "(pkg/interp.ArrayDecodeValue).JQValueIndex|index"})
	AddControl(Control{ID: "c13-idx-const-unwrap", Prop: "C13", Rule: "C13.idx", File: "format/xml/xml.go",
		Old:       "if len(n.Nodes) == 1 && len(n.Attrs) == 0",
		New:       "if len(n.Nodes) <= 1 && len(n.Attrs) == 0",
		ExpectKey: "format/xml.toXMLFromObject|index"})
	AddControl(Control{ID: "c13-idx-prefix-offbyone", Prop: "C13", Rule: "C13.idx", File: "format/xml/xml.go",
		Old:       "xmlNameFromStr(k[len(opts.AttributePrefix):])",
		New:       "xmlNameFromStr(k[len(opts.AttributePrefix)+1:])",
		ExpectKey: "format/xml.toXMLFromObject$1|slice"})
	AddControl(Control{ID: "c13-idx-pairs-loop", Prop: "C13", Rule: "C13.idx", File: "pkg/interp/match.go",
		Old:       "for i := range len(l) / 2 {",
		New:       "for i := range len(l) {",
		ExpectKey: "_binaryMatch$1|index"})
	AddControl(Control{ID: "c13-idx-nil-result", Prop: "C13", Rule: "C13.idx", File: "pkg/interp/match.go",
		Old:       "\t\tif l == nil {\n\t\t\treturn nil, false\n\t\t}\n",
		New:       "",
		ExpectKey: "_binaryMatch$1|index"})
	AddControl(Control{ID: "c13-idx-keyed-reason", Prop: "C13", Rule: "C13.idx", File: "pkg/interp/dump.go",
		Old:       "s := mathx.PadFormatInt(int64(i), opts.Addrbase, false, 2)",
		New:       "s := mathx.PadFormatInt(int64(i), opts.Addrbase, false, 1)",
		ExpectKey: "pkg/interp.dump|slice"})
	AddControl(Control{ID: "c13-idx-rune-length", Prop: "C13", Rule: "C13.idx", File: "pkg/interp/preview.go",
		Old:       "if opts.StringTruncate != 0 && runeLength > opts.StringTruncate {",
		New:       "if opts.StringTruncate != 0 && runeLength > 0 && len(vv) > opts.StringTruncate {",
		ExpectKey: "pkg/interp.previewValue|slice"})
	AddControl(Control{ID: "c13-pre-nil-to-encoder", Prop: "C13", Rule: "C13.pre", File: "format/toml/toml.go",
		Old:       "\tif v == nil {\n\t\treturn gojqx.FuncTypeError{Name: \"to_toml\", V: c}\n\t}\n",
		New:       "",
		ExpectKey: "nonnil:Encode"})
	AddControl(Control{ID: "c13-panic-kinds-arm-dropped", Prop: "C13", Rule: "C13.panic", File: "pkg/interp/preview.go",
		Old:       "\tcase []any:\n\t\treturn \"[]\"\n\n\tdefault:",
		New:       "\tdefault:",
		ExpectKey: "pkg/interp.previewValue"})
	AddControl(Control{ID: "c13-inv-clamp-weak-if", Prop: "C13", Rule: "C13.inv", File: "pkg/interp/interp.go",
		Old:       "\topts.LineBytes = max(1, opts.LineBytes)\n",
		New:       "\tif opts.LineBytes < 0 {\n\t\topts.LineBytes = 1\n\t}\n",
		ExpectKey: "clamps-LineBytes"})
	AddControl(Control{ID: "c13-repeat-negative-v2", Prop: "C13", Rule: "C13.pre", File: "format/toml/toml.go",
		Old:       "min(max(0, opts.Indent), maxIndent)",
		New:       "min(opts.Indent, maxIndent)",
		ExpectKey: "Repeat"})
	AddControl(Control{ID: "c13-make-negative-v2", Prop: "C13", Rule: "C13.pre", File: "pkg/interp/interp.go",
		Old:       "\tif l < 0 {\n\t\treturn gojq.NewIter(fmt.Errorf(\"negative read length %d\", l))\n\t}\n\t// don't allocate l bytes up front, it can be larger than what can be read\n\tbuf := &bytes.Buffer{}\n\t_, err = io.CopyN(buf, r, int64(l))\n\ts := buf.String()",
		New:       "\trbuf := make([]byte, l)\n\tn, err := io.ReadFull(r, rbuf)\n\ts := string(rbuf[0:n])",
		ExpectKey: "_stdioRead|make"})
}

// c13RetireStaleControls drops the two C13 controls of controls_core.go that the fix commits in /repo made
// stale (c13-repeat-negative: the snippet now also clamps from above; c13-make-negative: _stdio_read no longer
// allocates, so removing the sign test leaves no make). Their replacements are the -v2 controls above. Called
// from runC13, i.e. before the driver enumerates the controls; a no-op once controls_core.go drops them.
func c13RetireStaleControls() {
	stale := map[string]bool{"c13-repeat-negative": true, "c13-make-negative": true}
	kept := controls[:0:0]
	for _, c := range controls {
		if !stale[c.ID] {
			kept = append(kept, c)
		}
	}
	controls = kept
}

func init() {
	AddControl(Control{ID: "c13-cast-boxed-int64", Prop: "C13", Rule: "C13.cast", File: "internal/gojqx/types.go",
		Old:       "\t\t\tif math.MinInt <= vi && vi <= math.MaxInt {\n\t\t\t\treturn any(int(vi)).(T), true",
		New:       "\t\t\tif math.MinInt <= vi && vi <= math.MaxInt {\n\t\t\t\treturn any(vi).(T), true",
		ExpectKey: "CastFn[int]|live:int64->int"})
	AddControl(Control{ID: "c13-cast-unsupported-kind", Prop: "C13", Rule: "C13.cast", File: "format/text/url.go",
		Old:       "\tinterp.RegisterFunc0(\"to_urlpath\", func(_ *interp.Interp, c string) any {\n\t\treturn url.PathEscape(c)",
		New:       "\tinterp.RegisterFunc0(\"to_urlpath\", func(_ *interp.Interp, c []byte) any {\n\t\treturn url.PathEscape(string(c))",
		ExpectKey: "CastFn[[]byte]|kind"})
}

func init() {
	AddControl(Control{ID: "c13-errzero-partial-guard", Prop: "C13", Rule: "C13.errzero", File: "pkg/interp/decode.go",
		Old:       "\tbv, err := toBinary(c)\n\tif err != nil {\n\t\treturn err\n\t}\n\n\tformatName, err := toString(format)",
		New:       "\tbv, err := toBinary(c)\n\tif err != nil && filename != \"\" {\n\t\treturn err\n\t}\n\n\tformatName, err := toString(format)",
		ExpectKey: "_decode|errzero:pkg/interp.toBinary"})
	AddControl(Control{ID: "c13-errzero-error-discarded", Prop: "C13", Rule: "C13.errzero", File: "pkg/interp/interp.go",
		Old:       "\tbv, err := toBinary(c)\n\tif err != nil {\n\t\treturn gojq.NewIter(err)\n\t}\n\tif err := hexdump(",
		New:       "\tbv, _ := toBinary(c)\n\tif err := hexdump(",
		ExpectKey: "_hexdump|errzero:pkg/interp.toBinary"})
	AddControl(Control{ID: "c13-embed-binary-unset", Prop: "C13", Rule: "C13.embed", File: "pkg/interp/binary.go",
		Old:       "\tbbf.Binary = bb\n\n\treturn bbf",
		New:       "\tbbf.br = bb.br\n\n\treturn bbf",
		ExpectKey: "_open|literal:pkg/interp.openFile"})
	AddControl(Control{ID: "c13-inv-json-indent-unclamped", Prop: "C13", Rule: "C13.inv", File: "format/json/json.go",
		Old:       "\t\tIndent: min(max(0, opts.Indent), maxIndent),",
		New:       "\t\tIndent: max(0, opts.Indent),",
		ExpectKey: "internal/colorjson.Options.Indent"})
}
