package rules

import (
	"fmt"
	"go/token"
	"go/types"
	"sort"
	"strings"

	"golang.org/x/tools/go/ssa"

	"fqverif/fw"
)

// ---------------------------------------------------------------------------
// C15.sum: checksum fields carry a validating mapper whose expected value is the Sum of a hash
// that was fed the covered bytes.

// c15SumSite is the provenance of one validated checksum field, extracted from SSA.
type c15SumSite struct {
	Field     string // field the validator is applied to ("crc32", "$crc@block" for FieldGet values)
	Validator string // decode.D mapper constructor
	Expected  string // normal form of the expected value
	Hash      string // hash constructor
	Feeds     []string
	FeedsOK   bool // every feed runs before Sum on all paths
	Pos       token.Pos
}

func (s c15SumSite) facts() []string {
	return []string{"validator=" + s.Validator, "expected=" + s.Expected, "hash=" + s.Hash, "feeds=" + strings.Join(s.Feeds, " ++ ")}
}

// findCalls collects the calls satisfying pred among the values v is computed from.
func (f *c15Family) findCalls(v ssa.Value, pred func(*ssa.Call) bool, seen map[ssa.Value]bool, out *[]*ssa.Call) {
	if v == nil || seen[v] {
		return
	}
	seen[v] = true
	rec := func(x ssa.Value) { f.findCalls(x, pred, seen, out) }
	switch x := v.(type) {
	case *ssa.Call:
		if pred(x) {
			*out = append(*out, x)
			return
		}
		cc := x.Common()
		if cc.IsInvoke() {
			rec(cc.Value)
		}
		for _, a := range cc.Args {
			rec(a)
		}
	case *ssa.Convert:
		rec(x.X)
	case *ssa.ChangeType:
		rec(x.X)
	case *ssa.MakeInterface:
		rec(x.X)
	case *ssa.ChangeInterface:
		rec(x.X)
	case *ssa.BinOp:
		rec(x.X)
		rec(x.Y)
	case *ssa.Phi:
		for _, e := range x.Edges {
			rec(e)
		}
	case *ssa.Extract:
		rec(x.Tuple)
	case *ssa.Field:
		rec(x.X)
	case *ssa.Slice:
		if els, ok := variadicElems(x); ok {
			for _, e := range els {
				rec(e)
			}
			return
		}
		rec(x.X)
	case *ssa.UnOp:
		if x.Op != token.MUL {
			rec(x.X)
			return
		}
		root, path := f.cellRoot(x.X)
		if root == nil {
			return
		}
		for _, st := range f.stores[root] {
			if _, sp := f.cellRoot(st.Addr); sp == path {
				rec(st.Val)
			}
		}
	}
}

func isSumCall(c *ssa.Call) bool {
	cc := c.Common()
	if cc.IsInvoke() {
		return cc.Method.Name() == "Sum" && len(cc.Args) == 1
	}
	callee := cc.StaticCallee()
	return callee != nil && callee.Name() == "Sum" && callee.Signature.Recv() != nil && len(cc.Args) == 2
}

func sumReceiver(c *ssa.Call) ssa.Value {
	cc := c.Common()
	if cc.IsInvoke() {
		return cc.Value
	}
	return cc.Args[0]
}

// hashRoot resolves a hash value through conversions and single-assignment locals.
func (f *c15Family) hashRoot(v ssa.Value) ssa.Value {
	for i := 0; i < 8; i++ {
		v = stripConv(v)
		ld, ok := v.(*ssa.UnOp)
		if !ok || ld.Op != token.MUL {
			return v
		}
		root, path := f.cellRoot(ld.X)
		if root == nil {
			return v
		}
		var vals []ssa.Value
		for _, st := range f.stores[root] {
			if _, sp := f.cellRoot(st.Addr); sp == path {
				if c, ok := st.Val.(*ssa.Const); ok && c.IsNil() {
					continue
				}
				vals = append(vals, st.Val)
			}
		}
		if len(vals) != 1 {
			return v
		}
		v = vals[0]
	}
	return v
}

// hashCtor renders the construction of a hash value.
func (f *c15Family) hashCtor(h ssa.Value) string {
	if al, ok := h.(*ssa.Alloc); ok {
		var fs []string
		if al.Referrers() != nil {
			for _, r := range *al.Referrers() {
				fa, ok := r.(*ssa.FieldAddr)
				if !ok || fa.Referrers() == nil {
					continue
				}
				for _, rr := range *fa.Referrers() {
					if st, ok := rr.(*ssa.Store); ok && st.Addr == ssa.Value(fa) {
						fs = append(fs, fieldNameOf(al.Type(), fa.Field)+"="+f.expr(st.Val))
					}
				}
			}
		}
		sort.Strings(fs)
		return "&" + shortType(al.Type().Underlying().(*types.Pointer).Elem()) + "{" + strings.Join(fs, ",") + "}"
	}
	return f.expr(h)
}

// feedsOf lists, in program order, the sources written into hash h before sum.
func (f *c15Family) feedsOf(h ssa.Value, sum *ssa.Call) (feeds []string, ok bool) {
	ok = true
	for _, fn := range f.fns {
		for _, b := range fn.Blocks {
			for _, ins := range b.Instrs {
				c, isCall := ins.(*ssa.Call)
				if !isCall || c == sum {
					continue
				}
				cc := c.Common()
				var src ssa.Value
				switch {
				case cc.IsInvoke():
					if cc.Method.Name() == "Write" && f.hashRoot(cc.Value) == h {
						src = cc.Args[0]
					}
				default:
					callee := cc.StaticCallee()
					if callee == nil {
						continue
					}
					if m, isD := isDMethod(c); isD && (m == "Copy" || m == "CopyBits" || m == "TryCopy" || m == "TryCopyBits") {
						if f.hashRoot(cc.Args[1]) == h {
							src = cc.Args[2]
						}
					} else if callee.Name() == "Write" && callee.Signature.Recv() != nil && len(cc.Args) == 2 && f.hashRoot(cc.Args[0]) == h {
						src = cc.Args[1]
					} else if callee.String() == "io.Copy" && f.hashRoot(cc.Args[0]) == h {
						src = cc.Args[1]
					}
				}
				if src == nil {
					continue
				}
				m := "write"
				if callee := cc.StaticCallee(); callee != nil {
					m = callee.Name()
				}
				feeds = append(feeds, m+"("+f.renderArg(src)+")")
				if c.Parent() != sum.Parent() || !precedesOnAllPaths(c, sum) {
					ok = false
				}
			}
		}
	}
	return
}

var c15ValidatorNames = map[string]bool{
	"UintValidateBytes": true, "UintAssertBytes": true, "UintValidateLEBytes": true, "UintValidateBEBytes": true,
	"AssertULEBytes": true, "AssertUBEBytes": true, "UintValidate": true, "UintAssert": true,
	"ValidateBitBuf": true, "AssertBitBuf": true,
}

// sumSites extracts every validator whose expected value derives from a hash Sum.
func (f *c15Family) sumSites() []c15SumSite {
	var out []c15SumSite
	for _, fn := range f.fns {
		for _, b := range fn.Blocks {
			for _, ins := range b.Instrs {
				vc, ok := ins.(*ssa.Call)
				if !ok {
					continue
				}
				m, isD := isDMethod(vc)
				if !isD || !c15ValidatorNames[m] || len(vc.Common().Args) < 2 {
					continue
				}
				var sums []*ssa.Call
				f.findCalls(vc.Common().Args[1], isSumCall, map[ssa.Value]bool{}, &sums)
				if len(sums) == 0 {
					continue
				}
				site := c15SumSite{Validator: m, Expected: f.renderArg(vc.Common().Args[1]), Pos: vc.Pos(), FeedsOK: true}
				var hs, fd []string
				for _, s := range sums {
					h := f.hashRoot(sumReceiver(s))
					hs = append(hs, f.hashCtor(h))
					feeds, ok := f.feedsOf(h, s)
					fd = append(fd, feeds...)
					if !ok {
						site.FeedsOK = false
					}
				}
				site.Hash = strings.Join(hs, " & ")
				site.Feeds = fd
				site.Field = f.validatedField(vc)
				out = append(out, site)
			}
		}
	}
	return out
}

// validatedField: the field a mapper value is attached to: the constant name of the Field* call
// that takes it, or the receiver of (*decode.Value).Try*ScalarFn.
func (f *c15Family) validatedField(mapper *ssa.Call) string {
	for _, u := range fw.UsesThroughConv(mapper) {
		st, ok := u.(*ssa.Store)
		if !ok {
			continue
		}
		ia, ok := st.Addr.(*ssa.IndexAddr)
		if !ok {
			continue
		}
		al, ok := ia.X.(*ssa.Alloc)
		if !ok || al.Referrers() == nil {
			continue
		}
		for _, r := range *al.Referrers() {
			sl, ok := r.(*ssa.Slice)
			if !ok || sl.Referrers() == nil {
				continue
			}
			for _, rr := range *sl.Referrers() {
				call, ok := rr.(*ssa.Call)
				if !ok {
					continue
				}
				if m, isD := isDMethod(call); isD && strings.HasPrefix(m, "Field") {
					for _, a := range call.Common().Args[1:] {
						if s, ok := constString(a); ok {
							return s
						}
					}
				}
				callee := call.Common().StaticCallee()
				if callee != nil && callee.Signature.Recv() != nil && strings.HasSuffix(callee.Name(), "ScalarFn") {
					return f.expr(call.Common().Args[0])
				}
			}
		}
	}
	return "?"
}

// c15SumTable: the validated checksum fields. Key: decoder function | field. Values are the
// provenance facts confirmed by reading the format specifications:
//
//	gzip (RFC 1952 2.3.1): CRC-32 (IEEE) of the uncompressed data of the member
//	png (spec 5.3/5.4): CRC-32 over chunk type and data, not the length field
//	bzip2: block crc = bit-reversed IEEE crc of the bit-reversed block bytes; stream crc = rotl1(stream) ^ block
//	flac (RFC 9639 9.1.8, 9.3): CRC-8 poly 0x07 of the frame header, CRC-16 poly 0x8005 of the whole frame
//	ogg (RFC 3533 6): CRC-32 poly 0x04c11db7 over the page with the crc field zeroed
//	mp3: CRC-16 0x8005 init 0xffff over header bytes 2-3 and the side info
//	avro ocf snappy block: IEEE CRC-32 of the uncompressed block, big-endian
//	ipv4 (RFC 791): one's complement sum of the header with the checksum field skipped
var c15SumTable = map[string][]string{
	"format/gzip.gzipDecodeMember|crc32": {
		"validator=UintValidateBytes",
		"expected=[hash/crc32.NewIEEE().Sum(nil)]",
		"hash=hash/crc32.NewIEEE()",
		"feeds=CopyBits(CloneReadSeeker(FieldReaderRange($uncompressed)#1))",
	},
	"format/png.pngDecode|crc": {
		"validator=UintValidateBytes",
		"expected=[hash/crc32.NewIEEE().Sum(nil)]",
		"hash=hash/crc32.NewIEEE()",
		"feeds=Copy(pkg/bitio.NewIOReader(BitBufRange(Pos@FieldU32(length),-1×Pos@FieldU32(length) + Pos@FramedFn)))",
	},
	"format/bzip2.bzip2Decode|$crc@block": {
		"validator=UintValidate",
		"expected=[math/bits.Reverse32((encoding/binary.bigEndian).Uint32(binary.BigEndian,hash/crc32.NewIEEE().Sum(nil)))]",
		"hash=hash/crc32.NewIEEE()",
		"feeds=Copy(format/bzip2.bitFlipReader{r=pkg/bitio.NewIOReader(TryFieldReaderRangeFormat($uncompressed)#1)})",
	},
	"format/bzip2.bzip2Decode|crc": {
		"validator=UintValidate",
		"expected=[(((↺>>31)|2×↺)^math/bits.Reverse32((encoding/binary.bigEndian).Uint32(binary.BigEndian,hash/crc32.NewIEEE().Sum(nil))))]",
		"hash=hash/crc32.NewIEEE()",
		"feeds=Copy(format/bzip2.bitFlipReader{r=pkg/bitio.NewIOReader(TryFieldReaderRangeFormat($uncompressed)#1)})",
	},
	"format/flac.frameDecode|footer_crc": {
		"validator=ValidateBitBuf",
		"expected=[(×pkg/checksum.CRC).Sum(&local,nil)]",
		"hash=&pkg/checksum.CRC{Bits=16,Table=checksum.ANSI16Table}",
		"feeds=CopyBits(BitBufRange(Pos@entry,Pos@FieldU(byte_align) + -1*Pos@entry))",
	},
	"format/flac.frameDecode|crc": {
		"validator=UintValidateBytes",
		"expected=[(×pkg/checksum.CRC).Sum(&local,nil)]",
		"hash=&pkg/checksum.CRC{Bits=8,Table=checksum.ATM8Table}",
		"feeds=CopyBits(BitBufRange(Pos@entry,Pos@FieldStruct(end_of_header) + -1*Pos@entry))",
	},
	"format/ogg.pageDecode|$crc": {
		"validator=UintValidateBytes",
		"expected=[(×pkg/checksum.CRC).Sum(&local,nil)]",
		"hash=&pkg/checksum.CRC{Bits=32,Table=checksum.Poly04c11db7Table}",
		"feeds=Copy(pkg/bitio.NewIOReader(BitBufRange(Pos@entry,&($crc).Range.Start + -1×Pos@entry))) ++ Copy(bytes.NewReader([0,0,0,0])) ++ Copy(pkg/bitio.NewIOReader(BitBufRange((pkg/ranges.Range).Stop($crc.Range),-1×(pkg/ranges.Range).Stop($crc.Range) + Pos@FieldArray(segments))))",
	},
	"format/mpeg.frameDecode|$crc": {
		"validator=UintValidateBytes",
		"expected=[(×pkg/checksum.CRC).Sum(&local,nil)]",
		"hash=&pkg/checksum.CRC{Bits=16,Current=65535,Table=checksum.ANSI16Table}",
		"feeds=CopyBits(BitBufRange(16,16)) ++ CopyBits(BitBufRange(48,8*?×ssa.MakeMap[($channels!=3)][mpeg.mpegVersionN[$mpeg_version]]))",
	},
	"format/avro.decodeBlockCodec|crc": {
		"validator=UintValidateBytes",
		"expected=[hash/crc32.NewIEEE().Sum(nil)]",
		"hash=hash/crc32.NewIEEE()",
		"feeds=Copy(bytes.NewReader((×bytes.Buffer).Bytes(&local)))",
	},
	"format/inet.decodeIPv4|$header_checksum": {
		"validator=UintValidateBytes",
		"expected=[(×pkg/checksum.IPv4).Sum(&local,nil)]",
		"hash=&pkg/checksum.IPv4{}",
		"feeds=Copy(pkg/bitio.NewIOReader(BitBufRange(0,Pos@FieldU8(protocol)))) ++ Copy(pkg/bitio.NewIOReader(BitBufRange(Pos@FieldU16(header_checksum),-1×Pos@FieldU16(header_checksum) + Pos@FieldU32(destination_ip))))",
	},
}

// c15SumGaps: checksum fields that are read but not validated on the current tree. They are
// reported through Fail (known findings K2, K3 and C15-N4); the rule turns them into plain
// obligations as soon as a validator appears (then the entry must move to c15SumTable).
var c15SumGaps = map[string]string{
	"format/zip.zipDecode|central_directory.crc32_uncompressed": "/central_directories/central_directory",
	"format/zip.zipDecode|local_file.crc32_uncompressed":        "/local_files/local_file",
	"format/zip.zipDecode|data_indicator.crc32_uncompressed":    "/local_files/local_file/data_indicator",
	"format/tar.tarDecode|chksum":                               "/files/file",
	"format/gzip.gzipDecode|header_crc":                         "/members/member",
}

func c15SumDump(p *fw.Program, roots []string) {
	w := newC15World(p)
	for _, r := range roots {
		fn := p.Fn(r)
		if fn == nil {
			fmt.Println("no fn", r)
			continue
		}
		for _, s := range w.fam(fn).sumSites() {
			fmt.Printf("\t%q: {\n", r+"|"+s.Field)
			for _, x := range s.facts() {
				fmt.Printf("\t\t%q,\n", x)
			}
			fmt.Printf("\t}, // feedsOK=%v\n", s.FeedsOK)
		}
	}
}

// checksum-like field names of the container formats (census).
var c15ChecksumNames = map[string]bool{
	"crc": true, "crc32": true, "crc32_uncompressed": true, "chksum": true, "header_crc": true,
	"checksum": true, "header_checksum": true, "adler32": true, "footer_crc": true, "crc16": true,
}

// c15CensusRoots: decoders whose every checksum-named field must be validated or recorded.
var c15CensusRoots = []string{"format/gzip.gzipDecode", "format/zip.zipDecode", "format/tar.tarDecode", "format/png.pngDecode", "format/bzip2.bzip2Decode"}

func c15Sum(r *fw.Run, p *fw.Program, w *c15World) {
	ru := r.Rule("C15.sum", "every checksum field of the container decoders (and of the users of pkg/checksum) carries a description-setting validator whose expected value is the Sum of the tabled hash, fed exactly the tabled byte ranges before Sum on every path; checksum-named fields without a validator are reported (known gaps: zip crc32_uncompressed x3, tar chksum, gzip header_crc)", 54)
	validatedNames := map[string]map[string]bool{} // top function -> field names validated there
	for _, key := range fw.SortedKeys(c15SumTable) {
		parts := strings.SplitN(key, "|", 2)
		fn := p.Fn(parts[0])
		if fn == nil || fn.Blocks == nil {
			ru.Undecided("anchor:"+key, "", "function "+parts[0]+" not found: the checksum table must be updated")
			continue
		}
		fam := w.fam(fn)
		var site *c15SumSite
		for _, s := range fam.sumSites() {
			s := s
			if s.Field == parts[1] {
				site = &s
			}
		}
		if site == nil {
			ru.Fail(key+"|validator", p.Rel(fn.Pos()), "checksum field "+parts[1]+" has no validating mapper whose expected value comes from a hash Sum: a corrupted file decodes clean")
			continue
		}
		if validatedNames[parts[0]] == nil {
			validatedNames[parts[0]] = map[string]bool{}
		}
		validatedNames[parts[0]][strings.TrimPrefix(strings.SplitN(parts[1], "@", 2)[0], "$")] = true
		want := c15SumTable[key]
		got := site.facts()
		for i, wf := range want {
			name := strings.SplitN(wf, "=", 2)[0]
			ru.Check(got[i] == wf, key+"|"+name, p.Rel(site.Pos), got[i], "checksum provenance differs: have "+got[i]+", layout/specification table says "+wf)
		}
		ru.Check(site.FeedsOK, key+"|before-sum", p.Rel(site.Pos), "all feeds precede Sum", "a write into the hash does not precede Sum on every path (the expected value misses covered bytes)")
	}
	// gaps and census on the layouts of the container decoders
	gapSeen := map[string]bool{}
	for _, root := range c15CensusRoots {
		fn := p.Fn(root)
		if fn == nil {
			ru.Undecided("anchor:"+root, "", "decoder root not found")
			continue
		}
		es := w.layout(fn)
		for _, ctx := range fw.SortedKeys(es) {
			for _, e := range es[ctx] {
				if e.Call == nil {
					continue
				}
				m, _ := isDMethod(e.Call)
				if !strings.HasPrefix(m, "Field") || m == "FieldBool" {
					continue
				}
				name := ""
				for _, a := range e.Call.Common().Args[1:] {
					if s, ok := constString(a); ok {
						name = s
						break
					}
				}
				if !c15ChecksumNames[name] {
					continue
				}
				inline := strings.Contains(e.Text, "Validate") || strings.Contains(e.Text, "Assert")
				late := validatedNames[fw.ShortFn(fw.Top(e.Fn))][name]
				gapKey := ""
				for k, gctx := range c15SumGaps {
					kp := strings.SplitN(k, "|", 2)
					fieldName := kp[1]
					if i := strings.LastIndex(fieldName, "."); i >= 0 {
						fieldName = fieldName[i+1:]
					}
					if kp[0] == root && gctx == ctx && fieldName == name {
						gapKey = k
					}
				}
				switch {
				case gapKey != "":
					gapSeen[gapKey] = true
					if inline {
						ru.Ok(gapKey, p.Rel(e.Ins.Pos()), "now validated: move the entry from c15SumGaps to c15SumTable")
					} else {
						ru.Fail(gapKey, p.Rel(e.Ins.Pos()), "checksum field "+name+" ("+ctx+") is read but never validated: a corrupted file decodes clean")
					}
				case inline || late:
					ru.Ok("census:"+root+"|"+ctx+"|"+name, p.Rel(e.Ins.Pos()), "validated")
				default:
					ru.Fail("census:"+root+"|"+ctx+"|"+name, p.Rel(e.Ins.Pos()), "checksum-named field without a validating mapper and not a recorded gap")
				}
			}
		}
	}
	for _, k := range fw.SortedKeys(c15SumGaps) {
		if !gapSeen[k] {
			ru.Undecided("anchor:"+k, "", "recorded unvalidated checksum field not found in the decoder layout (renamed or removed): update c15SumGaps")
		}
	}
}
