package rules

import (
	"fmt"
	"os"
	"strings"

	"fqverif/fw"
)

// c02DebugDump prints the SSA and the canonical guards of the functions named in C02_SSA
// (comma separated, e.g. "(*pkg/decode.D).TryPeekFind"); a development aid, inert otherwise.
func c02DebugDump(p *fw.Program) {
	names := os.Getenv("C02_SSA")
	if names == "" {
		return
	}
	for _, n := range strings.Split(names, ",") {
		fn := p.Fn(n)
		if fn == nil {
			fmt.Println("no such fn", n)
			continue
		}
		for _, f := range fw.WithClosures(fn) {
			f.WriteTo(os.Stdout)
			env := fw.NewSxEnv(f)
			for _, b := range f.Blocks {
				fmt.Printf("  block %d guards: %s\n", b.Index, strings.Join(env.GuardSx(b), " "))
			}
		}
	}
}
