package rules

import (
	"fmt"
	"go/constant"
	"go/token"
	"go/types"
	"strings"

	"golang.org/x/tools/go/ssa"

	"fqverif/fw"
)

// c17ReturnValue resolves the value a Return yields for result 0, looking through the
// "*res = v; rundefers; return *res" shape go/ssa uses in functions with defers.
func c17ReturnValue(ret *ssa.Return) ssa.Value {
	if len(ret.Results) == 0 {
		return nil
	}
	v := ret.Results[0]
	ld, ok := v.(*ssa.UnOp)
	if !ok || ld.Op != token.MUL {
		return v
	}
	al, ok := ld.X.(*ssa.Alloc)
	if !ok {
		return v
	}
	var last ssa.Value
	for _, ins := range ret.Block().Instrs {
		if st, ok := ins.(*ssa.Store); ok && st.Addr == al {
			last = st.Val
		}
	}
	if last != nil {
		return last
	}
	return v
}

func c17ConstInt(v ssa.Value) (int64, bool) {
	c, ok := v.(*ssa.Const)
	if !ok || c.Value == nil || c.Value.Kind() != constant.Int {
		return 0, false
	}
	return c.Int64(), true
}

// c17GuardOf returns (+1 holds, -1 does not hold, 0 unknown) for cond at block b.
func c17GuardOf(b *ssa.BasicBlock, cond ssa.Value) int {
	for _, g := range fw.Guards(b) {
		g = g.Normalize()
		if g.Cond == cond {
			if g.True {
				return 1
			}
			return -1
		}
	}
	return 0
}

// c17NilTest finds the comparison of v with nil (`v != nil` or `v == nil`, the latter is what a
// type switch with a `case nil` produces) used as a branch condition.
type c17NilTest struct {
	cond   *ssa.BinOp
	nonNil bool // the comparison being true means v != nil
}

func c17ErrNonNil(v ssa.Value) *c17NilTest {
	for _, ref := range *v.Referrers() {
		if bo, ok := ref.(*ssa.BinOp); ok && (bo.Op == token.NEQ || bo.Op == token.EQL) && ((bo.X == v && isNilConst(bo.Y)) || (bo.Y == v && isNilConst(bo.X))) {
			return &c17NilTest{cond: bo, nonNil: bo.Op == token.NEQ}
		}
	}
	return nil
}

// at: +1 the value is known non-nil at b, -1 known nil, 0 unknown.
func (t *c17NilTest) at(b *ssa.BasicBlock) int {
	if t == nil {
		return 0
	}
	g := c17GuardOf(b, t.cond)
	if !t.nonNil {
		g = -g
	}
	return g
}

func c17Extract(call ssa.Value, idx int) ssa.Value {
	for _, ref := range *call.Referrers() {
		if e, ok := ref.(*ssa.Extract); ok && e.Index == idx {
			return e
		}
	}
	return nil
}

func c17Go(m *c17Model) {
	p := m.p
	ru := m.r.Rule("C17.go", "cli.Main exits with 0 for a nil error, with ExitCode() of an interp.Exiter and with 1 otherwise; Interp.Main evaluates _main, returns the *gojq.HaltError it receives (value written to stderr), returns other errors, and returns nil only when the iterator is exhausted; *gojq.HaltError is an Exiter; halt value printing: nil nothing, Go string raw, otherwise JSON plus newline; the generic status 1 is used only for non-Exiter errors; an error received from _main always ends the run; JSON indent is 0 iff options.compact; the stream names stdin/stdout/stderr select the matching OS streams, which write to os.Stdout/os.Stderr; _stdioWrite writes the value once, verbatim, never as a printf format", 31)

	exiter := p.NamedType("pkg/interp", "Exiter")
	mainM := p.Fn("(*pkg/interp.Interp).Main")
	cliMain := p.Fn("pkg/cli.Main")
	if exiter == nil || mainM == nil || cliMain == nil {
		ru.Undecided("anchor", "", "interp.Exiter, (*interp.Interp).Main or cli.Main not found")
		return
	}
	exIface, _ := exiter.Underlying().(*types.Interface)

	// ----- cli.Main
	{
		var exitArg ssa.Value
		for _, c := range fw.CallsIn(cliMain) {
			if f := c.Common().StaticCallee(); f != nil && f.String() == "os.Exit" && len(c.Common().Args) == 1 {
				exitArg = c.Common().Args[0]
			}
		}
		var body *ssa.Function
		if call, ok := exitArg.(*ssa.Call); ok {
			if mc, ok := call.Common().Value.(*ssa.MakeClosure); ok {
				body, _ = mc.Fn.(*ssa.Function)
			} else if f := call.Common().StaticCallee(); f != nil {
				body = f
			}
		}
		if body == nil {
			// direct shape: os.Exit not fed by a helper; analyse cli.Main itself if it calls Interp.Main
			ru.Undecided("cli.Main:exit", p.Rel(cliMain.Pos()), "os.Exit is not called with the result of a function computing the status")
		} else {
			ru.Ok("cli.Main:exit", p.Rel(cliMain.Pos()), "os.Exit(status())")
			var mcall *ssa.Call
			for _, c := range fw.CallsIn(body) {
				if c.Common().StaticCallee() == mainM {
					mcall, _ = c.(*ssa.Call)
				}
			}
			if mcall == nil {
				ru.Undecided("cli.Main:call", p.Rel(body.Pos()), "status function does not call (*Interp).Main")
			} else {
				ne := c17ErrNonNil(mcall)
				if ne == nil {
					ru.Undecided("cli.Main:err-test", p.Rel(mcall.Pos()), "result of Interp.Main is not tested against nil")
				} else {
					// the test deciding whether the error carries an exit code
					var exiterTest ssa.Value
					for _, ref := range *mcall.Referrers() {
						if ta, ok := ref.(*ssa.TypeAssert); ok && ta.CommaOk && types.Identical(ta.AssertedType, exiter) {
							exiterTest = c17Extract(ta, 1)
						}
						if as, ok := ref.(*ssa.Call); ok && as.Common().StaticCallee() != nil && as.Common().StaticCallee().String() == "errors.As" {
							exiterTest = as
						}
					}
					n0, nExit, n1 := 0, 0, 0
					for _, ret := range returnsOf(body) {
						if ret.Block() == body.Recover {
							continue
						}
						v := c17ReturnValue(ret)
						pos := p.Rel(ret.Pos())
						if k, ok := c17ConstInt(v); ok {
							if k == 0 {
								n0++
								ru.Check(ne.at(ret.Block()) == -1, "cli.Main:return-0", pos, "status 0 only when Interp.Main returned nil",
									"status 0 is returned on a path where the error of Interp.Main is not known to be nil")
							} else {
								if ne.at(ret.Block()) == 1 {
									n1++
									ru.Check(k == 1, "cli.Main:return-other", pos, "non-Exiter error -> 1", "an error that carries no exit code maps to a status other than 1")
									ru.Check(exiterTest != nil && c17GuardOf(ret.Block(), exiterTest) == -1, "cli.Main:other-only-non-exiter", pos, "the generic status is used only when the error is not an interp.Exiter",
										"the generic status 1 is also reached when the error IS an interp.Exiter (some exit codes are replaced): a halt with code 0 (`halt`, halt_error(0)) or any filtered code no longer reaches the process status")
								}
							}
							continue
						}
						if call, ok := v.(*ssa.Call); ok && call.Common().IsInvoke() && call.Common().Method.Name() == "ExitCode" {
							nExit++
							ok2 := false
							if ex, ok := call.Common().Value.(*ssa.Extract); ok && ex.Index == 0 {
								if ta, ok := ex.Tuple.(*ssa.TypeAssert); ok && ta.CommaOk && ta.X == ssa.Value(mcall) && types.Identical(ta.AssertedType, exiter) {
									okv := c17Extract(ta, 1)
									ok2 = okv != nil && c17GuardOf(ret.Block(), okv) == 1
								}
							} else if ld, ok := call.Common().Value.(*ssa.UnOp); ok && ld.Op == token.MUL {
								// var ex interp.Exiter; if errors.As(err, &ex) { return ex.ExitCode() }
								for _, c := range fw.CallsIn(body) {
									as, isCall := c.(*ssa.Call)
									if !isCall || as.Common().StaticCallee() == nil || as.Common().StaticCallee().String() != "errors.As" || len(as.Common().Args) != 2 {
										continue
									}
									if mi, ok := as.Common().Args[1].(*ssa.MakeInterface); ok && mi.X == ld.X && as.Common().Args[0] == ssa.Value(mcall) {
										ok2 = c17GuardOf(ret.Block(), as) == 1
									}
								}
							}
							ru.Check(ok2, "cli.Main:return-exitcode", pos, "err.(interp.Exiter).ExitCode()", "the exit code is not taken from the error returned by Interp.Main asserted to interp.Exiter")
							continue
						}
						if ne.at(ret.Block()) != 0 {
							ru.Undecided("cli.Main:return", pos, "unrecognised status value "+v.String())
						}
					}
					ru.Check(n0 >= 1, "cli.Main:has-0", p.Rel(body.Pos()), "success path exists", "no path returns status 0")
					ru.Check(nExit >= 1, "cli.Main:has-exitcode", p.Rel(body.Pos()), "Exiter path exists", "the exit code of an interp.Exiter (halt_error) is no longer propagated to the process status")
					ru.Check(n1 >= 1, "cli.Main:has-1", p.Rel(body.Pos()), "fallback path exists", "errors without exit code no longer yield a failing status")
				}
			}
		}
	}

	// ----- *gojq.HaltError is an Exiter
	var haltPtr types.Type
	{
		if gp := p.ByPath["github.com/wader/gojq"]; gp != nil && gp.Types != nil {
			if o := gp.Types.Scope().Lookup("HaltError"); o != nil {
				haltPtr = types.NewPointer(o.Type())
			}
		}
		if haltPtr == nil || exIface == nil {
			ru.Undecided("HaltError:Exiter", "", "gojq.HaltError or interp.Exiter not resolvable")
			return
		}
		ru.Check(types.Implements(haltPtr, exIface), "HaltError:Exiter", "", "*gojq.HaltError implements interp.Exiter", "*gojq.HaltError does not implement interp.Exiter: halt_error codes never reach the process status")
	}

	// ----- Interp.Main
	pos := p.Rel(mainM.Pos())
	var evalCall, nextCall, asCall *ssa.Call
	for _, c := range fw.CallsIn(mainM) {
		cl, ok := c.(*ssa.Call)
		if !ok {
			continue
		}
		cc := cl.Common()
		if f := cc.StaticCallee(); f != nil {
			switch {
			case f.Name() == "EvalFunc" && fw.InFq(f):
				evalCall = cl
			case f.String() == "errors.As":
				if len(cc.Args) == 2 {
					if mi, ok := cc.Args[1].(*ssa.MakeInterface); ok && types.Identical(mi.X.Type(), types.NewPointer(haltPtr)) {
						asCall = cl
					}
				}
			}
		} else if cc.IsInvoke() && cc.Method.Name() == "Next" {
			nextCall = cl
		}
	}
	if evalCall == nil || nextCall == nil || asCall == nil {
		ru.Undecided("Interp.Main:anchors", pos, "EvalFunc call, iterator Next call or errors.As(.., **gojq.HaltError) not found")
		return
	}
	name := ""
	if len(evalCall.Common().Args) >= 4 {
		name, _ = constString(evalCall.Common().Args[3])
	}
	ru.Check(name == "_main", "Interp.Main:entry", p.Rel(evalCall.Pos()), "evaluates _main", "Interp.Main evaluates "+name+" instead of _main")
	evalErr := c17Extract(evalCall, 1)
	nextOK := c17Extract(nextCall, 1)
	nextV := c17Extract(nextCall, 0)
	var errV, errOK ssa.Value
	if nextV != nil {
		for _, ref := range *nextV.Referrers() {
			if ta, ok := ref.(*ssa.TypeAssert); ok && ta.CommaOk && types.Identical(ta.AssertedType, types.Universe.Lookup("error").Type()) {
				errV, errOK = c17Extract(ta, 0), c17Extract(ta, 1)
			}
		}
	}
	if evalErr == nil || nextOK == nil || errV == nil || errOK == nil || asCall.Common().Args[0] != errV {
		ru.Undecided("Interp.Main:values", pos, "cannot resolve the error values flowing through Interp.Main")
		return
	}
	haltAlloc := asCall.Common().Args[1].(*ssa.MakeInterface).X
	evalNE := c17ErrNonNil(evalErr)
	nNil, nHalt, nErr, nEval := 0, 0, 0, 0
	for _, ret := range returnsOf(mainM) {
		v := c17ReturnValue(ret)
		b := ret.Block()
		rp := p.Rel(ret.Pos())
		inAs := c17GuardOf(b, asCall)
		inErr := c17GuardOf(b, errOK)
		switch {
		case isNilConst(v):
			nNil++
			ru.Check(c17GuardOf(b, nextOK) == -1, "Interp.Main:return-nil", rp, "nil only when the iterator is exhausted", "Interp.Main returns nil on a path where the iterator was not exhausted: an error or halt is swallowed and fq exits 0")
		case evalNE != nil && evalNE.at(b) == 1:
			nEval++
			ru.Check(v == evalErr, "Interp.Main:return-evalerr", rp, "returns the EvalFunc error", "failure to start _main does not return its error")
		case inAs == 1:
			isHalt := false
			if mi, ok := v.(*ssa.MakeInterface); ok {
				if ld, ok := mi.X.(*ssa.UnOp); ok && ld.Op == token.MUL && ld.X == haltAlloc {
					isHalt = true
				}
			}
			isWriteErr := false
			if ex, ok := v.(*ssa.Extract); ok {
				if c, ok := ex.Tuple.(*ssa.Call); ok && c.Common().IsInvoke() && c.Common().Method.Name() == "Write" {
					isWriteErr = true
				}
			}
			if isHalt {
				nHalt++
				ru.Ok("Interp.Main:return-halt", rp, "returns the HaltError")
			} else if isWriteErr {
				ru.Ok("Interp.Main:return-write-error", rp, "stderr write failure")
			} else {
				ru.Fail("Interp.Main:return-halt", rp, "on a halt the returned value is not the *gojq.HaltError (its exit code is lost): "+v.String())
			}
		case inErr == 1 && inAs == -1:
			nErr++
			ru.Check(v == errV, "Interp.Main:return-error", rp, "returns the error received from _main", "a non-halt error from _main is not returned as is: "+v.String())
		default:
			ru.Undecided("Interp.Main:return", rp, "unclassified return "+v.String())
		}
	}
	// once an error value was received from _main the run is over: control must not leave the
	// region in which the value is known to be an error other than by returning (a `continue` or a
	// fall-through to the next iteration swallows the error and the process exits 0)
	{
		leaks := 0
		for _, b := range mainM.Blocks {
			if b == mainM.Recover || c17GuardOf(b, errOK) != 1 {
				continue
			}
			for _, s := range b.Succs {
				if c17GuardOf(s, errOK) != 1 {
					leaks++
				}
			}
		}
		ru.Check(leaks == 0, "Interp.Main:error-ends-run", pos, "every path on which _main delivered an error ends in a return",
			fmt.Sprintf("%d control flow edge(s) leave the handling of an error value received from _main without returning: the error is swallowed, the loop goes on and the exit status no longer reflects it", leaks))
	}
	ru.Check(nHalt >= 1, "Interp.Main:has-halt", pos, "halt path returns the HaltError", "no path returns the HaltError")
	ru.Check(nErr >= 1 && nNil >= 1 && nEval >= 1, "Interp.Main:has-paths", pos, "error, exhausted and start-failure paths exist", "a return path of Interp.Main disappeared")
	// the halt value goes to stderr
	toStderr := 0
	for _, c := range fw.CallsIn(mainM) {
		cc := c.Common()
		if !cc.IsInvoke() || cc.Method.Name() != "Write" || c17GuardOf(c.Block(), asCall) != 1 {
			continue
		}
		recv, ok := cc.Value.(*ssa.Call)
		if ok && recv.Common().IsInvoke() && recv.Common().Method.Name() == "Stderr" {
			toStderr++
		} else {
			ru.Fail("Interp.Main:halt-output", p.Rel(c.Pos()), "the value of a halt_error is written somewhere else than OS.Stderr()")
		}
	}
	ru.Check(toStderr >= 1, "Interp.Main:halt-stderr", pos, "halt value written to stderr", "the value of a halt_error (error: ... messages) is no longer written to stderr")
	c17HaltPrint(ru, p)
	c17GoMore(m, ru)
	c17StdioWrite(m, ru)
}

// ---------------------------------------------------------------------------
// halt value printing (exported for other properties)

// c17HaltPrintAs checks, under the given rule id, how Interp.Main prints the value of a halt:
// nil prints nothing, a Go string (decided by a direct comma-ok type assertion on the value) is
// written raw, everything else goes through gojq.Marshal followed by "\n" — the jq CLI rule.
func c17HaltPrintAs(r *fw.Run, p *fw.Program, ruleID string) {
	ru := r.Rule(ruleID, "Interp.Main prints a halt value the jq way: nil -> nothing; a Go string (direct `v.(string)` comma-ok assertion on HaltError.Value()) -> raw bytes; anything else -> gojq.Marshal(v) then \"\\n\"; all to stderr", 5)
	c17HaltPrint(ru, p)
}

func c17HaltPrint(ru *fw.Rule, p *fw.Program) {
	mainM := p.Fn("(*pkg/interp.Interp).Main")
	if mainM == nil {
		ru.Undecided("halt-print:anchor", "", "(*interp.Interp).Main not found")
		return
	}
	pos := p.Rel(mainM.Pos())
	var asCall, valCall *ssa.Call
	for _, c := range fw.CallsIn(mainM) {
		cl, ok := c.(*ssa.Call)
		if !ok {
			continue
		}
		f := cl.Common().StaticCallee()
		if f == nil {
			continue
		}
		switch {
		case f.String() == "errors.As" && len(cl.Common().Args) == 2:
			if mi, ok := cl.Common().Args[1].(*ssa.MakeInterface); ok {
				if pt, ok := mi.X.Type().Underlying().(*types.Pointer); ok {
					if pt2, ok := pt.Elem().Underlying().(*types.Pointer); ok {
						if n, ok := pt2.Elem().(*types.Named); ok && n.Obj().Name() == "HaltError" {
							asCall = cl
						}
					}
				}
			}
		case f.Name() == "Value" && f.Signature.Recv() != nil && strings.HasSuffix(f.Signature.Recv().Type().String(), "gojq.HaltError"):
			valCall = cl
		}
	}
	if asCall == nil || valCall == nil {
		ru.Undecided("halt-print:anchor", pos, "errors.As(.., **gojq.HaltError) or (*gojq.HaltError).Value() call not found in Interp.Main")
		return
	}
	V := ssa.Value(valCall)
	// nil test
	var nonNil *ssa.BinOp
	for _, ref := range *V.Referrers() {
		if bo, ok := ref.(*ssa.BinOp); ok && bo.Op == token.NEQ && ((bo.X == V && isNilConst(bo.Y)) || (bo.Y == V && isNilConst(bo.X))) {
			nonNil = bo
		}
	}
	// string test: direct comma-ok assertion on V
	var strTA *ssa.TypeAssert
	for _, ref := range *V.Referrers() {
		if ta, ok := ref.(*ssa.TypeAssert); ok && ta.CommaOk && ta.X == V {
			if b, ok := ta.AssertedType.(*types.Basic); ok && b.Kind() == types.String {
				strTA = ta
			}
		}
	}
	if strTA == nil {
		ru.Fail("halt-print:string-test", pos, "whether the halt value is printed raw is not decided by a direct `v.(string)` assertion on HaltError.Value(): a conversion helper also turns numbers, byte arrays or decode values into raw output where jq prints JSON")
	} else {
		ru.Ok("halt-print:string-test", p.Rel(strTA.Pos()), "direct comma-ok assertion to string")
	}
	var strOK, strVal ssa.Value
	if strTA != nil {
		strOK, strVal = c17Extract(strTA, 1), c17Extract(strTA, 0)
	}
	nRaw, nJSON, nNL := 0, 0, 0
	for _, c := range fw.CallsIn(mainM) {
		cc := c.Common()
		if !cc.IsInvoke() || cc.Method.Name() != "Write" || c17GuardOf(c.Block(), asCall) != 1 || len(cc.Args) != 1 {
			continue
		}
		wp := p.Rel(c.Pos())
		if nonNil == nil || c17GuardOf(c.Block(), nonNil) != 1 {
			ru.Fail("halt-print:nil-silent", wp, "something is written for a halt without a value being known non-nil (`null | halt_error` must print nothing)")
			continue
		}
		arg := cc.Args[0]
		isStr := 0
		if strOK != nil {
			isStr = c17GuardOf(c.Block(), strOK)
		}
		switch {
		case isStr == 1:
			cv, ok := arg.(*ssa.Convert)
			if ok && strVal != nil && cv.X == strVal {
				nRaw++
				ru.Ok("halt-print:raw-string", wp, "string written raw")
			} else {
				ru.Fail("halt-print:raw-string", wp, "for a string halt value something else than the string's bytes is written")
			}
		case isStr == -1 || strOK == nil:
			if ex, ok := arg.(*ssa.Extract); ok && ex.Index == 0 {
				if mc, ok := ex.Tuple.(*ssa.Call); ok && mc.Common().StaticCallee() != nil && mc.Common().StaticCallee().Name() == "Marshal" &&
					strings.HasSuffix(fw.FnPkgPath(mc.Common().StaticCallee()), "/gojq") && len(mc.Common().Args) == 1 && mc.Common().Args[0] == V {
					nJSON++
					ru.Ok("halt-print:json", wp, "gojq.Marshal(value)")
					continue
				}
			}
			if c17IsNewlineSlice(arg) {
				nNL++
				ru.Ok("halt-print:newline", wp, "\"\\n\" after the JSON text")
				continue
			}
			if strOK == nil {
				continue // already reported by string-test
			}
			ru.Fail("halt-print:json", wp, "for a non-string halt value something else than gojq.Marshal(value) or the final newline is written")
		default:
			ru.Undecided("halt-print:write", wp, "write not classified by the string test")
		}
	}
	if strTA != nil {
		ru.Check(nRaw == 1, "halt-print:has-raw", pos, "string branch writes once", fmt.Sprintf("%d raw writes for a string halt value, expected 1", nRaw))
		ru.Check(nJSON == 1 && nNL == 1, "halt-print:has-json-nl", pos, "JSON then newline", fmt.Sprintf("non-string halt value: %d JSON writes and %d newline writes, expected 1 and 1", nJSON, nNL))
	}
}

// c17IsNewlineSlice: v is []byte{'\n'} (slice of a one element array holding 10).
func c17IsNewlineSlice(v ssa.Value) bool {
	sl, ok := v.(*ssa.Slice)
	if !ok {
		return false
	}
	al, ok := sl.X.(*ssa.Alloc)
	if !ok {
		return false
	}
	pt, ok := al.Type().Underlying().(*types.Pointer)
	if !ok {
		return false
	}
	arr, ok := pt.Elem().Underlying().(*types.Array)
	if !ok || arr.Len() != 1 {
		return false
	}
	found := false
	for _, ref := range *al.Referrers() {
		if ia, ok := ref.(*ssa.IndexAddr); ok {
			for _, r2 := range *ia.Referrers() {
				if st, ok := r2.(*ssa.Store); ok {
					if k, ok := c17ConstInt(st.Val); ok && k == 10 {
						found = true
					} else {
						return false
					}
				}
			}
		}
	}
	return found
}
