package rules

// C03.inside - "each value's bit range lies inside the buffer it was decoded from".
//
// A value's range is [Pos() before, Pos() after) of its reader (C03.range). A reader that consumes
// bits fails at the end of the buffer, so a range can only leave the buffer through a value that is
// created WITHOUT consuming anything (zero-length scalar, empty compound) at a position beyond the
// end. Two places decide that:
//   - trySeekAbs, the only way a decoder moves the position without reading: the target must be
//     established to lie within [.., Len()] before the seek;
//   - readers that test the remaining input themselves (request > BitsLeft()-derived amount => error):
//     that test has to stand before every returning path that does not report an error - a
//     zero-length fast path in front of it succeeds beyond the end.

import (
	"go/token"
	"go/types"

	"golang.org/x/tools/go/ssa"

	"fqverif/fw"
)

func c03Inside(r *fw.Run, c *c03x) {
	ru := r.Rule("C03.inside", "no value is created beyond the end of its buffer: trySeekAbs establishes pos <= length of d's buffer before it moves the position (nothing else moves it without reading); every reader of pkg/decode that rejects a request larger than the remaining input (a comparison with a BitsLeft()-derived amount whose failing arm returns an error) has that test on every path to a return that does not report a fresh error, so a zero-length request beyond the end is an error too", 4)
	p := c.p
	blFn := p.Fn(c03D + "BitsLeft")
	tblFn := p.Fn(c03D + "TryBitsLeft")
	lenFn := p.Fn(c03D + "Len")
	tlenFn := p.Fn(c03D + "TryLen")
	tsa := c.fn(ru, c03D+"trySeekAbs")
	if blFn == nil || tblFn == nil || lenFn == nil || tlenFn == nil {
		ru.Undecided("anchor", "", "BitsLeft/TryBitsLeft/Len/TryLen of *decode.D not found")
		return
	}

	// derivedFrom: v is computed from a call of one of fns on decoder d by integer conversions and
	// arithmetic with other operands (bytesLeft := d.BitsLeft() / 8)
	var derivedFrom func(v ssa.Value, d ssa.Value, depth int, fns ...*ssa.Function) bool
	derivedFrom = func(v ssa.Value, d ssa.Value, depth int, fns ...*ssa.Function) bool {
		if depth > 12 {
			return false
		}
		v = c.canon(v)
		switch x := v.(type) {
		case *ssa.Call:
			for _, f := range fns {
				if c.isCallOf(x, f, d) != nil {
					return true
				}
			}
			if fw.CalleeName(x) == fw.Mod+"/internal/bitiox.Len" && len(x.Common().Args) == 1 && c.pathOf(x.Common().Args[0]).is(d, ".bitBuf") {
				for _, f := range fns {
					if f == lenFn {
						return true
					}
				}
			}
		case *ssa.Extract:
			if x.Index == 0 {
				return derivedFrom(x.Tuple, d, depth+1, fns...)
			}
		case *ssa.Convert:
			return derivedFrom(x.X, d, depth+1, fns...)
		case *ssa.BinOp:
			switch x.Op {
			case token.QUO, token.MUL, token.ADD, token.SUB, token.SHR, token.SHL:
				return derivedFrom(x.X, d, depth+1, fns...) || derivedFrom(x.Y, d, depth+1, fns...)
			}
		}
		return false
	}
	// exceedsEdge: block b ends in `request > amount` (any spelling); returns the successor index
	// taken when the request exceeds the amount, for an amount satisfying isAmount
	exceedsEdge := func(b *ssa.BasicBlock, isAmount func(ssa.Value) bool) (int, bool) {
		ifi, ok := b.Instrs[len(b.Instrs)-1].(*ssa.If)
		if !ok {
			return 0, false
		}
		g := c03Norm(fw.Guard{Cond: ifi.Cond, True: true})
		bo, ok := g.Cond.(*ssa.BinOp)
		if !ok {
			return 0, false
		}
		var amountLeft bool // amount is the left operand
		switch {
		case isAmount(bo.Y) && !isAmount(bo.X):
			amountLeft = false
		case isAmount(bo.X) && !isAmount(bo.Y):
			amountLeft = true
		default:
			return 0, false
		}
		var exceedsWhenTrue bool
		switch bo.Op {
		case token.GTR, token.GEQ: // X > Y
			exceedsWhenTrue = !amountLeft
		case token.LSS, token.LEQ: // X < Y
			exceedsWhenTrue = amountLeft
		default:
			return 0, false
		}
		if exceedsWhenTrue == g.True {
			return 0, true
		}
		return 1, true
	}
	freshError := func(v ssa.Value) bool {
		switch x := v.(type) {
		case *ssa.MakeInterface:
			return true
		case *ssa.Call:
			n := fw.CalleeName(x)
			return n == "fmt.Errorf" || n == "errors.New"
		}
		return false
	}

	// --- (1) the seek
	if tsa != nil && len(tsa.Params) == 3 {
		d, pos := ssa.Value(tsa.Params[0]), ssa.Value(tsa.Params[1])
		var first *ssa.Call
		var seeks []*ssa.Call
		fw.EachInstr(tsa, func(ins ssa.Instruction) {
			call, ok := ins.(*ssa.Call)
			if ok && call.Common().IsInvoke() && call.Common().Method.Name() == "SeekBits" {
				seeks = append(seeks, call)
			}
		})
		for _, s := range seeks {
			dom := true
			for _, o := range seeks {
				if o != s && !c03Before(s, o) {
					dom = false
				}
			}
			if dom {
				first = s
			}
		}
		bounded := false
		if first != nil {
			isLen := func(v ssa.Value) bool { return derivedFrom(v, d, 0, lenFn, tlenFn) }
			isPos := func(v ssa.Value) bool { return c.canon(v) == pos }
			// every path from entry to the seek takes the not-exceeding edge of a `pos > len` test
			cut := map[[2]*ssa.BasicBlock]bool{}
			n := 0
			for _, b := range tsa.Blocks {
				ifi, ok := b.Instrs[len(b.Instrs)-1].(*ssa.If)
				if !ok {
					continue
				}
				bo, ok := c03Norm(fw.Guard{Cond: ifi.Cond, True: true}).Cond.(*ssa.BinOp)
				if !ok || !((isPos(bo.X) && isLen(bo.Y)) || (isPos(bo.Y) && isLen(bo.X))) {
					continue
				}
				if ex, ok := exceedsEdge(b, isLen); ok {
					cut[[2]*ssa.BasicBlock{b, b.Succs[1-ex]}] = true
					n++
				}
			}
			avoid := map[*ssa.BasicBlock]bool{}
			for _, b := range tsa.Blocks {
				if fw.CurrentNR != nil && fw.CurrentNR.BlockFails(b) {
					avoid[b] = true
				}
			}
			bounded = n >= 1 && !c03ReachesAvoiding(tsa.Blocks[0], first.Block(), avoid, cut)
		}
		ru.Check(bounded, "trySeekAbs:inside-buffer", c.at(tsa), "pos <= Len() established before the seek", "trySeekAbs moves the position to any pos the decoder computed, also beyond the end of the buffer (the readers' SeekBits accept that): whatever is then created without reading - an empty struct/array, a zero-width number, an empty string where the reader has no test of its own - is linked with a range outside the buffer, and the root's range is stretched past the buffer's length")
	}

	// --- (2) readers with a remaining-input test
	nReaders := 0
	for _, f := range p.FqFunctions() {
		if f.Parent() != nil || pkgRel(f) != "pkg/decode" || f.Signature.Recv() == nil || !c.isNamed(f.Signature.Recv().Type(), c.dT) {
			continue
		}
		res := f.Signature.Results()
		if res.Len() < 2 || !types.Identical(res.At(res.Len()-1).Type(), types.Universe.Lookup("error").Type()) {
			continue
		}
		d := ssa.Value(f.Params[0])
		isLeft := func(v ssa.Value) bool { return derivedFrom(v, d, 0, blFn, tblFn) }
		pass := map[[2]*ssa.BasicBlock]bool{}
		var tests []*ssa.BasicBlock
		for _, b := range f.Blocks {
			ex, ok := exceedsEdge(b, isLeft)
			if !ok {
				continue
			}
			// a rejecting test: a fresh error is returned somewhere behind the exceeding edge
			// (directly, or after further conditions that weaken the test)
			rejecting := false
			for _, rb := range f.Blocks {
				if ret, isRet := rb.Instrs[len(rb.Instrs)-1].(*ssa.Return); isRet && freshError(ret.Results[len(ret.Results)-1]) &&
					(rb == b.Succs[ex] || b.Succs[ex].Dominates(rb)) {
					rejecting = true
				}
			}
			if !rejecting {
				continue
			}
			tests = append(tests, b)
			pass[[2]*ssa.BasicBlock{b, b.Succs[1-ex]}] = true
		}
		if len(tests) == 0 {
			continue
		}
		nReaders++
		key := "left-guards-every-success|" + fw.ShortFn(f)
		bad := ""
		for _, b := range f.Blocks {
			ret, ok := b.Instrs[len(b.Instrs)-1].(*ssa.Return)
			if !ok || freshError(ret.Results[len(ret.Results)-1]) {
				continue
			}
			if c03ReachesAvoiding(f.Blocks[0], b, nil, pass) {
				bad = p.Rel(ret.Pos())
			}
		}
		ru.Check(bad == "", key, c.at(f), "every return without a fresh error lies behind the remaining-input test", fw.ShortFn(f)+": a path returns (at "+bad+") without having passed the test that rejects a request larger than the remaining input: a request that needs no bits (length 0) succeeds at a position beyond the end of the buffer and the field gets a range outside the buffer")
	}
	if nReaders == 0 {
		ru.Undecided("left-guards-every-success", "", "no reader with a remaining-input test found in pkg/decode")
	}
}
