package rules

// C03.inside - "each value's bit range lies inside the buffer it was decoded from".
//
// A value's range is [Pos() before, Pos() after) of its reader (C03.range). A reader that consumes
// bits fails at the end of the buffer, so a range can only leave the buffer through a value that is
// created WITHOUT consuming anything (zero-length scalar, empty compound) at a position beyond the
// end. Hence the invariant "the position of every decoder is <= the length of its reader", which is
// decided by classifying every instruction of pkg/decode that moves a position without reading
// (SeekBits on a reader) and every place a decoder gets its reader:
//   - trySeekAbs (behind SeekAbs/SeekRel/TrySeek*, FramedFn/LimitedFn's advance, TryBitBufLen):
//     pos <= Len() is established before the seek; the restoring seek goes to an earlier Pos();
//   - TryPeek*: whatever they do in between, every exit is back at the saved position (C03.readers);
//   - the relative advance over a nested decode (Format / TryFieldFormat / TryFieldFormatLen): by
//     the extent of a tree decoded inside a bitiox.Range-checked window (C03.sub, C03.rebase, C03.bitiox);
//   - RangeFn: the sub-decoder starts at firstBit of a sub-reader of length firstBit+nBits: needs nBits >= 0;
//   - D.bitBuf is assigned only by newDecoder, fieldDecoder and RangeFn.
// With the invariant in place a reader-level "request > BitsLeft()" test placed after a zero-length
// fast path is behaviour preserving, so no such test is required here.

import (
	"go/token"

	"golang.org/x/tools/go/ssa"

	"fqverif/fw"
)

func c03Inside(r *fw.Run, c *c03x) {
	ru := r.Rule("C03.inside", "the position of a decoder never exceeds the length of its reader, so nothing (empty compound, zero-width value) is created beyond the end of the buffer: every SeekBits in pkg/decode is one of - trySeekAbs's target seek behind an established pos <= Len() and its restore to an earlier Pos(); a seek inside TryPeek* (exits restored: C03.readers); the relative advance over a nested decode in the nested-format functions (C03.sub); RangeFn's start seek on its own sub-reader with nBits >= 0 established; a pure position query - and D.bitBuf is assigned only by newDecoder, fieldDecoder and RangeFn", 15)
	p := c.p
	lenFn := p.Fn(c03D + "Len")
	tlenFn := p.Fn(c03D + "TryLen")
	tsa := c.fn(ru, c03D+"trySeekAbs")
	posFn := p.Fn(c03D + "Pos")
	if lenFn == nil || tlenFn == nil {
		ru.Undecided("anchor", "", "Len/TryLen of *decode.D not found")
		return
	}

	// derivedFrom: v is the result of a call of one of fns on decoder d (through integer conversions only)
	var derivedFrom func(v ssa.Value, d ssa.Value, depth int, fns ...*ssa.Function) bool
	derivedFrom = func(v ssa.Value, d ssa.Value, depth int, fns ...*ssa.Function) bool {
		if depth > 12 {
			return false
		}
		v = c.canon(v)
		switch x := v.(type) {
		case *ssa.Call:
			for _, f := range fns {
				if c.isCallOf(x, f, d) != nil {
					return true
				}
			}
			if fw.CalleeName(x) == fw.Mod+"/internal/bitiox.Len" && len(x.Common().Args) == 1 && c.pathOf(x.Common().Args[0]).is(d, ".bitBuf") {
				for _, f := range fns {
					if f == lenFn {
						return true
					}
				}
			}
		case *ssa.Extract:
			if x.Index == 0 {
				return derivedFrom(x.Tuple, d, depth+1, fns...)
			}
		case *ssa.Convert:
			return derivedFrom(x.X, d, depth+1, fns...)
		}
		return false
	}
	// exceedsEdge: block b ends in `request > amount` (any spelling); returns the successor index
	// taken when the request exceeds the amount, for an amount satisfying isAmount
	exceedsEdge := func(b *ssa.BasicBlock, isAmount func(ssa.Value) bool) (int, bool) {
		ifi, ok := b.Instrs[len(b.Instrs)-1].(*ssa.If)
		if !ok {
			return 0, false
		}
		g := c03Norm(fw.Guard{Cond: ifi.Cond, True: true})
		bo, ok := g.Cond.(*ssa.BinOp)
		if !ok {
			return 0, false
		}
		var amountLeft bool // amount is the left operand
		switch {
		case isAmount(bo.Y) && !isAmount(bo.X):
			amountLeft = false
		case isAmount(bo.X) && !isAmount(bo.Y):
			amountLeft = true
		default:
			return 0, false
		}
		var exceedsWhenTrue bool
		switch bo.Op {
		case token.GTR, token.GEQ: // X > Y
			exceedsWhenTrue = !amountLeft
		case token.LSS, token.LEQ: // X < Y
			exceedsWhenTrue = amountLeft
		default:
			return 0, false
		}
		if exceedsWhenTrue == g.True {
			return 0, true
		}
		return 1, true
	}
	// --- (1) the seek
	if tsa != nil && len(tsa.Params) == 3 {
		d, pos := ssa.Value(tsa.Params[0]), ssa.Value(tsa.Params[1])
		var first *ssa.Call
		var seeks []*ssa.Call
		fw.EachInstr(tsa, func(ins ssa.Instruction) {
			call, ok := ins.(*ssa.Call)
			if ok && call.Common().IsInvoke() && call.Common().Method.Name() == "SeekBits" {
				seeks = append(seeks, call)
			}
		})
		for _, s := range seeks {
			dom := true
			for _, o := range seeks {
				if o != s && !c03Before(s, o) {
					dom = false
				}
			}
			if dom {
				first = s
			}
		}
		bounded := false
		if first != nil {
			isLen := func(v ssa.Value) bool { return derivedFrom(v, d, 0, lenFn, tlenFn) }
			isPos := func(v ssa.Value) bool { return c.canon(v) == pos }
			// every path from entry to the seek takes the not-exceeding edge of a `pos > len` test
			cut := map[[2]*ssa.BasicBlock]bool{}
			n := 0
			for _, b := range tsa.Blocks {
				ifi, ok := b.Instrs[len(b.Instrs)-1].(*ssa.If)
				if !ok {
					continue
				}
				bo, ok := c03Norm(fw.Guard{Cond: ifi.Cond, True: true}).Cond.(*ssa.BinOp)
				if !ok || !((isPos(bo.X) && isLen(bo.Y)) || (isPos(bo.Y) && isLen(bo.X))) {
					continue
				}
				if ex, ok := exceedsEdge(b, isLen); ok {
					cut[[2]*ssa.BasicBlock{b, b.Succs[1-ex]}] = true
					n++
				}
			}
			avoid := map[*ssa.BasicBlock]bool{}
			for _, b := range tsa.Blocks {
				if fw.CurrentNR != nil && fw.CurrentNR.BlockFails(b) {
					avoid[b] = true
				}
			}
			bounded = n >= 1 && !c03ReachesAvoiding(tsa.Blocks[0], first.Block(), avoid, cut)
		}
		ru.Check(bounded, "trySeekAbs:inside-buffer", c.at(tsa), "pos <= Len() established before the seek", "trySeekAbs moves the position to any pos the decoder computed, also beyond the end of the buffer (the readers' SeekBits accept that): whatever is then created without reading - an empty struct/array, a zero-width number, an empty string where the reader has no test of its own - is linked with a range outside the buffer, and the root's range is stretched past the buffer's length")
	}

	c03InsideMoves(ru, c, posFn)
}

// c03InsideMoves classifies every position move of pkg/decode.
func c03InsideMoves(ru *fw.Rule, c *c03x, posFn *ssa.Function) {
	p := c.p
	tsa := p.Fn(c03D + "trySeekAbs")
	rangeFn := p.Fn(c03D + "RangeFn")
	bbr := p.Fn(c03D + "BitBufRange")
	sub := map[*ssa.Function]bool{}
	for _, row := range c03SubTable {
		if f := p.Fn(c03D + row.fn); f != nil {
			sub[f] = true
		}
	}
	ord := map[string]int{}
	nMoves := 0
	for _, f := range p.FqFunctions() {
		if pkgRel(f) != "pkg/decode" {
			continue
		}
		top := fw.Top(f)
		fw.EachInstr(f, func(ins ssa.Instruction) {
			call, ok := ins.(*ssa.Call)
			if !ok || !call.Common().IsInvoke() || call.Common().Method.Name() != "SeekBits" || len(call.Common().Args) != 2 {
				return
			}
			amt, whence := call.Common().Args[0], call.Common().Args[1]
			wh, whOK := c03ConstInt(whence)
			if k, isK := c03ConstInt(amt); isK && k == 0 && whOK && wh == 1 {
				return // position query
			}
			nMoves++
			key := "move|" + fw.ShortFn(top)
			ord[key]++
			if ord[key] > 1 {
				key += "#" + c03Itoa(ord[key])
			}
			pos := p.Rel(call.Pos())
			switch {
			case top == tsa && f == tsa:
				ru.Ok(key, pos, "trySeekAbs: target behind pos <= Len() (trySeekAbs:inside-buffer), restore to an earlier Pos() (C03.seek trySeekAbs:restore)")
			case len(top.Name()) > 7 && top.Name()[:7] == "TryPeek" && top.Signature.Recv() != nil && c.isNamed(top.Signature.Recv().Type(), c.dT):
				ru.Ok(key, pos, "inside a peek: every exit is back at the saved position (C03.readers "+top.Name()+":exit*)")
			case sub[top] && f == top && whOK && wh == 1:
				ru.Ok(key, pos, "relative advance over a nested decode (C03.sub "+top.Name()+":advance, :adopt-after-test, :range-option)")
			case top == rangeFn && f == rangeFn && rangeFn != nil && len(rangeFn.Params) == 4:
				// the sub-decoder starts at firstBit of BitBufRange(0, firstBit+nBits): inside iff nBits >= 0
				d, firstBit, nBits := ssa.Value(f.Params[0]), ssa.Value(f.Params[1]), ssa.Value(f.Params[2])
				good := whOK && wh == 0 && c.canon(amt) == firstBit
				if bc := c.isCallOf(call.Common().Value, bbr, d); bc == nil {
					good = false
				}
				e := fw.NewPolyEnv(f)
				nonneg := e.Proves(call.Block(), fw.Cmp{P: e.Of(nBits), Rel: fw.GE})
				if !nonneg {
					fw.EachInstr(f, func(i2 ssa.Instruction) {
						hc, isCall := i2.(*ssa.Call)
						if !isCall || nonneg || !c03Before(hc, call) {
							return
						}
						h := hc.Common().StaticCallee()
						if h == nil || h.Blocks == nil || pkgRel(h) != "pkg/decode" {
							return
						}
						for j, a := range hc.Common().Args {
							if c.canon(a) == nBits && j < len(h.Params) && c03Ensures(h, j, 0) {
								nonneg = true
							}
						}
					})
				}
				ru.Check(good && nonneg, "RangeFn:start-inside-window", pos, "sub-reader.SeekBits(firstBit, SeekStart) with nBits >= 0 established", "RangeFn: the sub-decoder is positioned at firstBit of a sub-reader that is firstBit+nBits long without nBits >= 0 being established (only FramedFn/LimitedFn test it, decoders call RangeFn directly with computed sizes): with a negative nBits the position lies beyond the end of the window (beyond the buffer when firstBit > its length), and an empty struct/array or zero-width value created there has a range outside the buffer")
			default:
				ru.Fail(key, pos, fw.ShortFn(top)+" moves a reader's position (SeekBits) outside the checked mechanisms (trySeekAbs, peeks, nested-format advance, RangeFn): the position can end up beyond the end of the buffer, where zero-length values get ranges outside it")
			}
		})
	}
	if nMoves == 0 {
		ru.Undecided("move", "", "no SeekBits call found in pkg/decode")
	}
	// who gives a decoder its reader
	owners := map[string]bool{"pkg/decode.newDecoder": true, c03D + "fieldDecoder": true, c03D + "RangeFn": true}
	for _, f := range p.FqFunctions() {
		for _, fs := range c.fieldStores(f, c.dT, "bitBuf") {
			top := fw.ShortFn(fw.Top(f))
			key := "bitbuf|" + top
			ord[key]++
			if ord[key] > 1 {
				key += "#" + c03Itoa(ord[key])
			}
			ru.Check(owners[top] && fs.sub == "", key, p.Rel(fs.st.Pos()), "D.bitBuf assigned by a decoder constructor", top+" assigns D.bitBuf: a decoder reads from (and records positions of) a reader whose position and length none of the checked constructors established")
		}
	}
	_ = posFn
}
