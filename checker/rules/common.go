package rules

import (
	"go/types"
	"sort"
	"strings"

	"golang.org/x/tools/go/ssa"

	"fqverif/fw"
)

// decodeFormatField returns (named type decode.Format, index of field name).
func decodeFormatField(p *fw.Program, field string) (*types.Named, int) {
	n := p.NamedType("pkg/decode", "Format")
	if n == nil {
		return nil, -1
	}
	st, ok := n.Underlying().(*types.Struct)
	if !ok {
		return n, -1
	}
	for i := 0; i < st.NumFields(); i++ {
		if st.Field(i).Name() == field {
			return n, i
		}
	}
	return n, -1
}

// isFieldAddrOf reports whether v is &x.field for the named struct type.
func isFieldAddrOf(v ssa.Value, named *types.Named, idx int) bool {
	fa, ok := v.(*ssa.FieldAddr)
	if !ok || fa.Field != idx {
		return false
	}
	pt, ok := fa.X.Type().Underlying().(*types.Pointer)
	if !ok {
		return false
	}
	return types.Identical(pt.Elem(), named)
}

// DecodeRoots finds every function stored into decode.Format.DecodeFn anywhere in the program
// (composite literals compile to field stores).
func DecodeRoots(p *fw.Program) (roots []*ssa.Function, nonFunc []ssa.Instruction) {
	named, idx := decodeFormatField(p, "DecodeFn")
	if named == nil || idx < 0 {
		return nil, nil
	}
	seen := map[*ssa.Function]bool{}
	for fn := range p.AllFns {
		if !fw.InFq(fn) {
			continue
		}
		fw.EachInstr(fn, func(ins ssa.Instruction) {
			st, ok := ins.(*ssa.Store)
			if !ok || !isFieldAddrOf(st.Addr, named, idx) {
				return
			}
			v := st.Val
			if mc, ok := v.(*ssa.MakeClosure); ok {
				v = mc.Fn
			}
			if f, ok := v.(*ssa.Function); ok {
				if !seen[f] {
					seen[f] = true
					roots = append(roots, f)
				}
			} else if c, ok := v.(*ssa.Const); ok && c.IsNil() {
				// nil DecodeFn
			} else if call, ok := v.(*ssa.Call); ok && closuresReturnedBy(call.Common().StaticCallee()) != nil {
				for _, f := range closuresReturnedBy(call.Common().StaticCallee()) {
					if !seen[f] {
						seen[f] = true
						roots = append(roots, f)
					}
				}
			} else {
				nonFunc = append(nonFunc, ins)
			}
		})
	}
	sort.Slice(roots, func(i, j int) bool { return roots[i].String() < roots[j].String() })
	return
}

// stripIface returns the concrete static type under MakeInterface/ChangeInterface chains.
func stripIface(v ssa.Value) (ssa.Value, types.Type) {
	for {
		switch x := v.(type) {
		case *ssa.MakeInterface:
			return x.X, x.X.Type()
		case *ssa.ChangeInterface:
			v = x.X
		default:
			return v, v.Type()
		}
	}
}

func shortType(t types.Type) string {
	return strings.ReplaceAll(types.TypeString(t, nil), fw.Mod+"/", "")
}

// constString returns the constant string value of v if it is one.
func constString(v ssa.Value) (string, bool) {
	if mi, ok := v.(*ssa.MakeInterface); ok {
		v = mi.X
	}
	c, ok := v.(*ssa.Const)
	if !ok || c.Value == nil || c.Value.Kind().String() != "String" {
		return "", false
	}
	s := c.Value.ExactString()
	if len(s) >= 2 {
		s = s[1 : len(s)-1]
	}
	return s, true
}

func pkgRel(fn *ssa.Function) string {
	return strings.TrimPrefix(strings.TrimPrefix(fw.FnPkgPath(fn), fw.Mod), "/")
}

var jqRegCache map[*fw.Program]map[*ssa.Function]bool
var jqRegNames map[*fw.Program]map[*ssa.Function]string

// jqRegistered returns the Go functions handed to interp.RegisterFunc0-2 / RegisterIter0-2.
func jqRegistered(p *fw.Program) map[*ssa.Function]bool {
	if jqRegCache == nil {
		jqRegCache = map[*fw.Program]map[*ssa.Function]bool{}
		jqRegNames = map[*fw.Program]map[*ssa.Function]string{}
	}
	if m, ok := jqRegCache[p]; ok {
		return m
	}
	m := map[*ssa.Function]bool{}
	names := map[*ssa.Function]string{}
	for _, fn := range p.FqFunctions() {
		for _, c := range fw.CallsIn(fn) {
			callee := c.Common().StaticCallee()
			if callee == nil {
				continue
			}
			o := callee
			if callee.Origin() != nil {
				o = callee.Origin()
			}
			if o.Pkg == nil || o.Pkg.Pkg.Path() != fw.Mod+"/pkg/interp" {
				continue
			}
			n := o.Name()
			if !(strings.HasPrefix(n, "RegisterFunc") || strings.HasPrefix(n, "RegisterIter")) || len(c.Common().Args) < 2 {
				continue
			}
			jqName, _ := constString(c.Common().Args[0])
			v := c.Common().Args[1]
			for {
				if ct, ok := v.(*ssa.ChangeType); ok {
					v = ct.X
					continue
				}
				break
			}
			switch x := v.(type) {
			case *ssa.Function:
				m[x] = true
				names[x] = jqName
			case *ssa.MakeClosure:
				f := x.Fn.(*ssa.Function)
				m[f] = true
				names[f] = jqName
			}
		}
	}
	jqRegCache[p] = m
	jqRegNames[p] = names
	return m
}

func jqRegisteredName(p *fw.Program, fn *ssa.Function) string {
	jqRegistered(p)
	return jqRegNames[p][fn]
}

// jqRegisteredClosure reports whether fn or one of its enclosing functions is a registered jq function.
func jqRegisteredClosure(p *fw.Program, fn *ssa.Function) bool {
	m := jqRegistered(p)
	for f := fn; f != nil; f = f.Parent() {
		if m[f] {
			return true
		}
	}
	return false
}

// closuresReturnedBy returns the closures a constructor function returns on all its return paths (nil if any is unresolvable).
func closuresReturnedBy(f *ssa.Function) []*ssa.Function {
	if f == nil || f.Blocks == nil {
		return nil
	}
	var out []*ssa.Function
	ok := true
	fw.EachInstr(f, func(ins ssa.Instruction) {
		ret, isRet := ins.(*ssa.Return)
		if !isRet {
			return
		}
		if len(ret.Results) != 1 {
			ok = false
			return
		}
		switch x := ret.Results[0].(type) {
		case *ssa.MakeClosure:
			out = append(out, x.Fn.(*ssa.Function))
		case *ssa.Function:
			out = append(out, x)
		default:
			ok = false
		}
	})
	if !ok {
		return nil
	}
	return out
}
