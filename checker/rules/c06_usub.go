package rules

import (
	"fmt"
	"go/constant"
	"go/token"
	"go/types"
	"strings"

	"golang.org/x/tools/go/ssa"

	"fqverif/fw"
)

// ---------------------------------------------------------------------------
// C06.usub: an unsigned subtraction that feeds an index, slice bound or make size cannot wrap
//
// Decoders keep counts as uint64 (scalar actual values). x - y on unsigned operands wraps to a huge
// number when y > x; used (directly, scaled, or through a merge) as a slice bound / index / make size
// it is an unrecoverable runtime panic. Obligation, for every such operand whose derivation (integer
// conversions, + * << with anything, phis, spilled locals) contains an unsigned x - y with a non-constant
// operand: the dominating guards at the subtraction (failing arm returns, does not continue, or is the
// other branch) prove y <= x, or the difference is clamped by min(.., bound) before it is used, or the
// operand is proved inside the container at the use.

var usubExceptions = map[string]string{
	"format/mpeg.frameDecode$1$2|index|1": "mpegVersionNr-1: mpegVersionNr is a value of the map mpegVersionN (values 1..3, checked here); 0 is rejected by d.Fatalf in the enclosing function before this mapper runs (C06.forceeq watches that guard)",
}

var usubExceptionChecks = map[string]func(p *fw.Program) string{
	"format/mpeg.frameDecode$1$2|index|1": func(p *fw.Program) string { return c06MapValuesWithin(p, "format/mpeg", "mpegVersionN", 1, 3) },
}

// c06UnsignedSubs: unsigned subtractions in the derivation of v that reach it without passing a min().
func c06UnsignedSubs(v ssa.Value, depth int, seen map[ssa.Value]bool, out *[]*ssa.BinOp) {
	if v == nil || depth > 10 || seen[v] {
		return
	}
	seen[v] = true
	switch x := v.(type) {
	case *ssa.Convert:
		if isIntT(x.Type()) && isIntT(x.X.Type()) {
			c06UnsignedSubs(x.X, depth+1, seen, out)
		}
	case *ssa.ChangeType:
		c06UnsignedSubs(x.X, depth+1, seen, out)
	case *ssa.BinOp:
		switch x.Op {
		case token.SUB:
			if isUnsignedT(x.Type()) {
				_, xc := x.X.(*ssa.Const)
				_, yc := x.Y.(*ssa.Const)
				if !(xc && yc) {
					*out = append(*out, x)
				}
				return
			}
			c06UnsignedSubs(x.X, depth+1, seen, out)
		case token.ADD, token.MUL:
			c06UnsignedSubs(x.X, depth+1, seen, out)
			c06UnsignedSubs(x.Y, depth+1, seen, out)
		case token.SHL:
			c06UnsignedSubs(x.X, depth+1, seen, out)
		}
	case *ssa.Phi:
		for _, e := range x.Edges {
			c06UnsignedSubs(e, depth+1, seen, out)
		}
	case *ssa.UnOp:
		if x.Op != token.MUL || !isIntT(x.Type()) {
			return
		}
		if a, ok := x.X.(*ssa.Alloc); ok && a.Referrers() != nil {
			for _, rf := range *a.Referrers() {
				if st, ok := rf.(*ssa.Store); ok && st.Addr == ssa.Value(a) {
					c06UnsignedSubs(st.Val, depth+1, seen, out)
				}
			}
		}
	}
	// calls (min, max, readers, helpers) end the trace: min clamps, the rest is not this rule's class
}

func c06USub(r *fw.Run, p *fw.Program) {
	ru := r.Rule("C06.usub", "an index, slice bound or make size in decoder code (format/**, pkg/decode) whose derivation contains an unsigned subtraction x - y (not clamped by min before the use) has y <= x proved by the guards dominating the subtraction, or is proved inside the container at the use: a wrapped difference is a huge bound and an unrecoverable slice-bounds / makeslice panic", 1)
	for _, fn := range p.FqFunctions() {
		pr := pkgRel(fn)
		if !strings.HasPrefix(pr, "format") && pr != "pkg/decode" {
			continue
		}
		if !linkedPackages(p)[fw.FnPkgPath(fn)] || pr == "format/tls/tlsdecrypt" {
			continue
		}
		if fn.TypeParams().Len() > 0 && len(fn.TypeArgs()) == 0 {
			continue
		}
		var env *fw.PolyEnv
		var ienv *fw.IntervalEnv
		ord := map[string]int{}
		check := func(ins ssa.Instruction, what string, v ssa.Value, cont ssa.Value) {
			if v == nil {
				return
			}
			if _, isC := v.(*ssa.Const); isC {
				return
			}
			var subs []*ssa.BinOp
			c06UnsignedSubs(v, 0, map[ssa.Value]bool{}, &subs)
			if len(subs) == 0 {
				return
			}
			if env == nil {
				env = c06NewPolyEnv(fn)
				ienv = fw.NewIntervalEnv(fn)
				ienv.CallRange = readerCallRange
			}
			ord[what]++
			key := fmt.Sprintf("%s|%s|%d", fw.ShortFn(fn), what, ord[what])
			// proved inside the container at the use
			if cont != nil {
				switch cont.Type().Underlying().(type) {
				case *types.Slice, *types.Basic:
					rel := fw.LE
					if what == "index" {
						rel = fw.LT
					}
					if c06ProvedInside(env, cont, v, rel, ins.Block()) {
						ru.Ok(key, p.Rel(ins.Pos()), "operand proved inside the container at the use")
						return
					}
				}
			}
			// an array: the interval of the whole operand (a wrapped value is outside any array)
			if cont != nil {
				if n := c06ArrayLen(cont.Type()); n >= 0 {
					if iv := c06At(ienv, v, ins.Block()); !iv.HiInf && iv.Hi < n && !iv.LoInf && iv.Lo >= 0 {
						ru.Ok(key, p.Rel(ins.Pos()), "operand proved inside the array at the use")
						return
					}
				}
			}
			bad := ""
			for _, sb := range subs {
				if sb.Parent() != fn {
					continue
				}
				want := fw.Cmp{P: fw.StripVersions(env.Of(sb.X)).Sub(fw.StripVersions(env.Of(sb.Y))), Rel: fw.GE}
				okS := false
				if c, isConst := want.P.IsConst(); isConst && c >= 0 {
					okS = true
				}
				for _, b := range []*ssa.BasicBlock{sb.Block(), ins.Block()} {
					for _, f := range c06Facts(env, b) {
						f.P = fw.StripVersions(f.P)
						if f.Implies(want) {
							okS = true
						}
					}
				}
				if !okS {
					// intervals: lo(x) >= hi(y)
					ix, iy := c06At(ienv, sb.X, sb.Block()), c06At(ienv, sb.Y, sb.Block())
					if !ix.LoInf && !iy.HiInf && ix.Lo >= iy.Hi {
						okS = true
					}
				}
				if !okS {
					// x - k with a loop counter / value known >= k through an equality-excluding test (x != 0, k == 1)
					if k, isK := sb.Y.(*ssa.Const); isK && k.Value != nil && k.Value.Kind() == constant.Int {
						if kv, exact := constant.Int64Val(k.Value); exact && kv == 1 {
							for _, b := range []*ssa.BasicBlock{sb.Block(), ins.Block()} {
								for _, f := range c06Facts(env, b) {
									f.P = fw.StripVersions(f.P)
									if f.Implies(fw.Cmp{P: fw.StripVersions(env.Of(sb.X)), Rel: fw.NE}) {
										okS = true
									}
								}
							}
						}
					}
				}
				if !okS {
					bad = fmt.Sprintf("%s - %s (%s)", env.Of(sb.X).String(), env.Of(sb.Y).String(), p.Rel(sb.Pos()))
				}
			}
			if bad == "" {
				ru.Ok(key, p.Rel(ins.Pos()), "the guards at the subtraction prove it cannot wrap")
				return
			}
			if reason, ok := usubExceptions[key]; ok {
				if chk := usubExceptionChecks[key]; chk != nil {
					if why := chk(p); why != "" {
						ru.Fail(key, p.Rel(ins.Pos()), "the exception for this operand ("+reason+") no longer holds: "+why)
						return
					}
				}
				ru.Except(key, p.Rel(ins.Pos()), reason)
				return
			}
			ru.Fail(key, p.Rel(ins.Pos()), what+" derives from the unsigned subtraction "+bad+" with no dominating proof that the subtrahend is not larger and no min() clamp before the use: when it is larger the difference wraps to a huge value and this access faults (slice bounds out of range / makeslice: len out of range)")
		}
		fw.EachInstr(fn, func(ins ssa.Instruction) {
			switch x := ins.(type) {
			case *ssa.IndexAddr:
				check(x, "index", x.Index, x.X)
			case *ssa.Index:
				if _, isMap := x.X.Type().Underlying().(*types.Map); !isMap {
					check(x, "index", x.Index, x.X)
				}
			case *ssa.Slice:
				check(x, "slice low", x.Low, x.X)
				check(x, "slice high", x.High, x.X)
			case *ssa.MakeSlice:
				check(x, "make len", x.Len, nil)
			}
		})
	}
}
