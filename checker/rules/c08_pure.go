package rules

import (
	"fmt"
	"go/types"
	"sort"
	"strings"

	"golang.org/x/tools/go/ssa"

	"fqverif/fw"
)

// C08.pure: reading a decode value through jq never changes it.
//
// Scope: every declared JQValue* method of the wrapper types of internal/gojqx and pkg/interp, their
// closures, and every function of those two packages they reach through static calls / closures.
// Obligations per function: (a) every math/big call that writes its receiver (z.Abs, z.Neg, z.Add,
// z.Set..., recognised by "returns its own receiver type" or a Set/Scan/Unmarshal name) has a fresh
// destination (new(big.T), big.NewT(...), or the result of such a call); (b) no store and no map update
// goes through memory that was not allocated in the function itself (parameter, receiver, loaded
// pointer, payload slice/map), and append only extends a function-local accumulator.

// c08PureExceptions: function -> reason. Analysis precision only.
var c08PureExceptions = map[string]string{
	"(*internal/gojqx.Lazy).v": "memoises the produced value in the lazy wrapper's own unexported cache fields (called/err/jv), not in a payload",
}

func bigPkg(f *ssa.Function) bool {
	if f == nil {
		return false
	}
	if o := f.Origin(); o != nil {
		f = o
	}
	return f.Pkg != nil && f.Pkg.Pkg.Path() == "math/big"
}

// bigWritesReceiver: a math/big method with pointer receiver that stores its result in the receiver.
func bigWritesReceiver(f *ssa.Function) bool {
	if !bigPkg(f) || f.Signature.Recv() == nil {
		return false
	}
	rt := f.Signature.Recv().Type()
	if _, ok := rt.(*types.Pointer); !ok {
		return false
	}
	res := f.Signature.Results()
	if res.Len() >= 1 && types.Identical(res.At(0).Type(), rt) {
		return true
	}
	n := f.Name()
	return strings.HasPrefix(n, "Set") || strings.HasPrefix(n, "Scan") || strings.HasPrefix(n, "Unmarshal") || strings.HasPrefix(n, "GobDecode")
}

// freshBig: v is a big number allocated by the function itself.
func freshBig(v ssa.Value, depth int) bool {
	if depth > 8 {
		return false
	}
	switch x := fw.Resolve(v).(type) {
	case *ssa.Alloc:
		return true
	case *ssa.Call:
		f := x.Common().StaticCallee()
		if !bigPkg(f) {
			return false
		}
		if f.Signature.Recv() == nil {
			return strings.HasPrefix(f.Name(), "New")
		}
		if bigWritesReceiver(f) && len(x.Common().Args) > 0 {
			return freshBig(x.Common().Args[0], depth+1)
		}
	case *ssa.Phi:
		for _, ed := range x.Edges {
			if ed != ssa.Value(x) && !freshBig(ed, depth+1) {
				return false
			}
		}
		return true
	}
	return false
}

// localMem: the memory v addresses / the sequence v denotes was allocated by the function itself.
func localMem(v ssa.Value, depth int, seen map[ssa.Value]bool) bool {
	if depth > 12 || seen[v] {
		return depth <= 12
	}
	seen[v] = true
	switch x := v.(type) {
	case *ssa.Alloc, *ssa.MakeSlice, *ssa.MakeMap:
		return true
	case *ssa.Const:
		return true // nil slice / map
	case *ssa.FieldAddr:
		return localMem(x.X, depth+1, seen)
	case *ssa.IndexAddr:
		return localMem(x.X, depth+1, seen)
	case *ssa.Slice:
		return localMem(x.X, depth+1, seen)
	case *ssa.ChangeType:
		return localMem(x.X, depth+1, seen)
	case *ssa.MakeInterface:
		return localMem(x.X, depth+1, seen)
	case *ssa.Phi:
		for _, ed := range x.Edges {
			if !localMem(ed, depth+1, seen) {
				return false
			}
		}
		return true
	case *ssa.Call:
		if fw.IsBuiltinCall(x, "append") {
			return localMem(x.Call.Args[0], depth+1, seen)
		}
		return false
	case *ssa.UnOp:
		// load of a single-assignment local slot (captured local): the value assigned
		if r := fw.Resolve(x); r != ssa.Value(x) {
			return localMem(r, depth+1, seen)
		}
		return false
	case *ssa.FreeVar:
		// a captured local variable of the enclosing function
		fn := x.Parent()
		par := fn.Parent()
		if par == nil {
			return false
		}
		ok := false
		fw.EachInstr(par, func(ins ssa.Instruction) {
			mc, isMC := ins.(*ssa.MakeClosure)
			if !isMC || mc.Fn != ssa.Value(fn) {
				return
			}
			for i, fv := range fn.FreeVars {
				if fv == x && i < len(mc.Bindings) {
					if _, isAlloc := mc.Bindings[i].(*ssa.Alloc); isAlloc {
						ok = true
					}
				}
			}
		})
		return ok
	case *ssa.Global:
		return true // package state is C18's subject, not a payload
	}
	return false
}

func (c *c08ctx) pureScope() []*ssa.Function {
	inPkgs := func(f *ssa.Function) bool {
		rel := pkgRel(f)
		return rel == "internal/gojqx" || rel == "pkg/interp"
	}
	seen := map[*ssa.Function]bool{}
	var work []*ssa.Function
	add := func(f *ssa.Function) {
		if f == nil || f.Blocks == nil || seen[f] || !inPkgs(f) {
			return
		}
		seen[f] = true
		work = append(work, f)
	}
	for _, w := range c.wrappers {
		for i := 0; i < w.NumMethods(); i++ {
			if m := w.Method(i); strings.HasPrefix(m.Name(), "JQValue") {
				add(c.p.SSA.FuncValue(m))
			}
		}
	}
	for len(work) > 0 {
		f := work[len(work)-1]
		work = work[:len(work)-1]
		for _, a := range f.AnonFuncs {
			add(a)
		}
		fw.EachInstr(f, func(ins ssa.Instruction) {
			if call, ok := ins.(ssa.CallInstruction); ok {
				add(call.Common().StaticCallee())
				for _, a := range call.Common().Args {
					switch x := a.(type) {
					case *ssa.Function:
						add(x)
					case *ssa.MakeClosure:
						add(x.Fn.(*ssa.Function))
					}
				}
			}
			if mc, ok := ins.(*ssa.MakeClosure); ok {
				add(mc.Fn.(*ssa.Function))
			}
		})
	}
	var out []*ssa.Function
	for f := range seen {
		out = append(out, f)
	}
	sort.Slice(out, func(i, j int) bool { return out[i].String() < out[j].String() })
	return out
}

func (c *c08ctx) rulePure() {
	ru := c.r.Rule("C08.pure", "no JQValue wrapper method, and nothing of gojqx/interp it reaches statically, changes the wrapped payload: every receiver-writing math/big call (z.Abs/Neg/Add/Set...) has a fresh destination (new/New*), no store or map update goes through memory the function did not allocate itself, append only extends a local accumulator", 120)
	for _, f := range c.pureScope() {
		key := fw.ShortFn(f)
		if strings.Contains(f.Synthetic, "wrapper") || strings.Contains(f.Synthetic, "thunk") || strings.Contains(f.Synthetic, "bound") {
			continue
		}
		e := c.env(f)
		var msgs []string
		fw.EachInstr(f, func(ins ssa.Instruction) {
			switch x := ins.(type) {
			case *ssa.Call:
				callee := x.Common().StaticCallee()
				if bigWritesReceiver(callee) && len(x.Common().Args) > 0 {
					dst := x.Common().Args[0]
					if !freshBig(dst, 0) {
						msgs = append(msgs, fmt.Sprintf("%s writes its result into %s, which is not a freshly allocated number: the decoded value itself is changed for later reads", fw.ShortFn(callee), e.Term(dst)))
					}
					// QuoRem / DivMod also write their last argument
					if n := callee.Name(); n == "QuoRem" || n == "DivMod" {
						if last := x.Common().Args[len(x.Common().Args)-1]; !freshBig(last, 0) {
							msgs = append(msgs, fmt.Sprintf("%s writes the remainder into %s, which is not freshly allocated", fw.ShortFn(callee), e.Term(last)))
						}
					}
				}
				if fw.IsBuiltinCall(x, "append") && !localMem(x.Call.Args[0], 0, map[ssa.Value]bool{}) {
					msgs = append(msgs, "append extends "+e.Term(x.Call.Args[0])+", which the function did not allocate: it can write into the payload's spare capacity")
				}
				if b, ok := x.Common().Value.(*ssa.Builtin); ok && (b.Name() == "delete" || b.Name() == "clear" || b.Name() == "copy") {
					if !localMem(x.Call.Args[0], 0, map[ssa.Value]bool{}) {
						msgs = append(msgs, b.Name()+" modifies "+e.Term(x.Call.Args[0])+", which the function did not allocate")
					}
				}
			case *ssa.Store:
				if !localMem(x.Addr, 0, map[ssa.Value]bool{}) {
					msgs = append(msgs, "stores into "+e.Term(x.Addr)+", memory the function did not allocate")
				}
			case *ssa.MapUpdate:
				if !localMem(x.Map, 0, map[ssa.Value]bool{}) {
					msgs = append(msgs, "updates map "+e.Term(x.Map)+", which the function did not allocate")
				}
			}
		})
		if len(msgs) > 0 {
			if reason, ok := c08PureExceptions[key]; ok {
				ru.Except(key, c.pos(f), reason)
				continue
			}
		}
		ru.Check(len(msgs) == 0, key, c.pos(f), "no payload mutation", strings.Join(uniq(msgs), "; "))
	}
}
