package rules

// Positive controls for C16: small seeded edits that must make exactly the named rule fire.

func init() {
	c := func(id, rule, file, old, new, expect string) {
		AddControl(Control{ID: id, Prop: "C16", Rule: rule, File: file, Old: old, New: new, ExpectKey: expect})
	}
	mp, cb, bs, be, as := "format/msgpack/msgpack.go", "format/cbor/cbor.go", "format/bson/bson.go", "format/bencode/bencode.go", "format/asn1/asn1_ber.go"

	// msgpack
	c("mp-array-early-end", "C16.msgpack.row", mp, "\t\t\t\tfor i := uint64(0); i < length; i++ {\n\t\t\t\t\td.FieldStruct(\"element\", decodeMsgPackValue)", "\t\t\t\tfor i := uint64(0); i < length && !d.End(); i++ {\n\t\t\t\t\td.FieldStruct(\"element\", decodeMsgPackValue)", "")
	c("mp-hole", "C16.msgpack.table", mp, `{r: [2]byte{0x80, 0x8f}`, `{r: [2]byte{0x80, 0x8e}`, "byte:0x8f")
	c("mp-lookup-strict", "C16.msgpack.table", mp, `u <= fe.r[1]`, `u < fe.r[1]`, "dispatch:lookup")
	c("mp-uint16-signed", "C16.msgpack.row", mp, `d.FieldU16("value") }`, `d.FieldS16("value") }`, "row:uint16")
	c("mp-array-offbyone", "C16.msgpack.row", mp, "i < length; i++ {\n\t\t\t\t\td.FieldStruct(\"element\"", "i <= length; i++ {\n\t\t\t\t\td.FieldStruct(\"element\"", "row:fixarray")
	c("mp-pair-order", "C16.msgpack.row", mp, "d.FieldStruct(\"key\", decodeMsgPackValue)\n\t\t\t\t\t\td.FieldStruct(\"value\", decodeMsgPackValue)", "d.FieldStruct(\"value\", decodeMsgPackValue)\n\t\t\t\t\t\td.FieldStruct(\"key\", decodeMsgPackValue)", "row:fixmap")

	c("mp-endian", "C16.msgpack.table", mp, "func decodeMsgPack(d *decode.D) any {\n", "func decodeMsgPack(d *decode.D) any {\n\td.Endian = decode.LittleEndian\n", "endian")

	// cbor
	c("cbor-major-width", "C16.cbor.table", cb, `d.FieldU3("major_type", majorTypeMap)`, `d.FieldU4("major_type", majorTypeMap)`, "initial-byte:major")
	c("cbor-args-swapped", "C16.cbor.table", cb, `return mt.d(d, shortCount, count)`, `return mt.d(d, count, shortCount)`, "dispatch:arg-short")
	c("cbor-count16", "C16.cbor.count", cb, `count = d.FieldU16("variable_count")`, `count = d.FieldU32("variable_count")`, "count:25")
	c("cbor-f16", "C16.cbor.row", cb, `d.FieldF16("value")`, `d.FieldF32("value")`, "major:7:info:25")
	c("cbor-negint", "C16.cbor.row", cb, `.Sub(n, mathx.BigIntOne)`, `.Add(n, mathx.BigIntOne)`, "major:1")
	c("cbor-break-const", "C16.cbor.indef", cb, `breakMarker = 0xff`, `breakMarker = 0xfe`, "break-test")

	// bson
	c("bson-endian", "C16.bson.frame", bs, `d.Endian = decode.LittleEndian`, `d.Endian = decode.BigEndian`, "endian")
	c("bson-frame", "C16.bson.frame", bs, `(size-4)*8`, `(size)*8`, "document:frame")
	c("bson-string-nul-cut", "C16.bson.row", bs, "length := d.FieldU32(\"length\")\n\t\t\t\t\t\td.FieldUTF8(\"value\", int(length), strTrimTerminator)", "length := d.FieldU32(\"length\")\n\t\t\t\t\t\td.FieldUTF8NullFixedLen(\"value\", int(length))", "type:0x02")
	c("bson-string-trim-run", "C16.bson.row", bs, "s.Actual = strings.TrimSuffix(s.Actual, \"\\x00\")", "s.Actual = strings.TrimRight(s.Actual, \"\\x00\")", "type:0x02")
	c("bson-js-no-mapper", "C16.bson.row", bs, "length := d.FieldS32(\"length\")\n\t\t\t\t\t\td.FieldUTF8(\"value\", int(length), strTrimTerminator)", "length := d.FieldS32(\"length\")\n\t\t\t\t\t\td.FieldUTF8(\"value\", int(length))", "type:0x0d")
	c("bson-int32", "C16.bson.row", bs, "case elementTypeInt32:\n\t\t\t\t\t\td.FieldS32(\"value\")", "case elementTypeInt32:\n\t\t\t\t\t\td.FieldU32(\"value\")", "type:0x10")

	// bencode
	c("bencode-window", "C16.bencode.scan", be, `d.PeekFindByte(b, 21)`, `d.PeekFindByte(b, 20)`, "scan:window")
	c("bencode-digit9", "C16.bencode.row", be, "\t\"9\": \"string\",\n", "", "lead:9")
	c("bencode-sep", "C16.bencode.row", be, `decodeStrIntUntil(':')`, `decodeStrIntUntil('e')`, "arm:0")

	// asn1
	c("asn1-short-mask", "C16.asn1.length", as, `return n & 0b0111_1111`, `return n & 0b0011_1111`, "length:short")
	c("asn1-int-unsigned", "C16.asn1.row", as, `d.FieldS("value", int(length)*8)`, `d.FieldU("value", int(length)*8)`, "tag:integer")
	c("asn1-set-code", "C16.asn1.row", as, `universalTypeSet              = 0x11`, `universalTypeSet              = 0x1d`, "tag:set")

	// torepr
	c("repr-funcname", "C16.repr.dispatch", "pkg/interp/funcs.jq", `_format_func($f; "torepr")`, `_format_func($f; "to_repr")`, "torepr")
	c("repr-sym-typo", "C16.repr.syms", "format/msgpack/msgpack.jq", `. == "map32"`, `. == "map_32"`, "type=map_32")
	c("repr-bool-arm", "C16.repr.route", "format/bson/bson.jq", "    elif .type == \"boolean\" then .value != 0\n", "", "bson:type:0x08")
	c("repr-array-field", "C16.repr.route", "format/cbor/cbor.jq", `elif .major_type == "array" then .elements | map(_cbor_torepr)`, `elif .major_type == "array" then .pairs | map(_cbor_torepr)`, "cbor:major:4")
	c("repr-add", "C16.repr.build", "format/bson/bson.jq", "      | map({key: .name, value: _f})\n      | from_entries", "      | map({(.name): _f})\n      | add", "bson:map")
	c("repr-kv-swap", "C16.repr.build", "format/msgpack/msgpack.jq", `{key: (.key | _msgpack_torepr), value: (.value | _msgpack_torepr)}`, `{key: (.value | _msgpack_torepr), value: (.key | _msgpack_torepr)}`, "msgpack:map")

	// clauses added by the self-review
	c("cbor-form-select", "C16.cbor.indef", cb, "if shortCount == shortCountIndefinite {\n\t\t\t\tsb := &strings.Builder{}", "if count == shortCountIndefinite {\n\t\t\t\tsb := &strings.Builder{}", "major:3:form-select")
	c("cbor-form-select-bytes", "C16.cbor.indef", cb, "if shortCount == shortCountIndefinite {\n\t\t\t\tbb := &bytes.Buffer{}", "if count == shortCountIndefinite {\n\t\t\t\tbb := &bytes.Buffer{}", "major:2:form-select")
	c("cbor-chunk-return", "C16.cbor.chunks", cb, "\t\t\treturn d.FieldUTF8(\"value\", int(count))", "\t\t\td.FieldUTF8(\"value\", int(count))\n\t\t\treturn nil", "major:3:return")
	c("cbor-dispatch-return", "C16.cbor.chunks", cb, "\t\t\treturn mt.d(d, shortCount, count)\n\t\t}\n\t\treturn nil", "\t\t\tmt.d(d, shortCount, count)\n\t\t}\n\t\treturn nil", "dispatch:return")
	c("cbor-chunk-accumulate", "C16.cbor.chunks", cb, `d.FieldValueStr("value", sb.String())`, `d.FieldValueStr("value", "")`, "major:3:accumulate")
	c("cbor-chunk-bits", "C16.cbor.chunks", cb, `bitio.NewBitReader(bb.Bytes(), -1)`, `bitio.NewBitReader(bb.Bytes(), int64(bb.Len()))`, "major:2:accumulate")
	c("asn1-end-marker", "C16.asn1.length", as, `d.FieldU16("end_marker")`, `d.FieldU8("end_marker")`, "indefinite:end-marker")
	c("asn1-int-width", "C16.asn1.row", as, `if length > 8 {`, `if length > 16 {`, "tag:integer:width")
	c("asn1-bool-sym", "C16.asn1.row", as, `{Range: [2]uint64{0, 0}, S: scalar.Uint{Sym: false}}`, `{Range: [2]uint64{0, 0}, S: scalar.Uint{Sym: true}}`, "tag:boolean:sym")
	c("asn1-bitstring", "C16.asn1.row", as, `int64(length-1)*8-int64(unusedBitsCount)`, `int64(length)*8-int64(unusedBitsCount)`, "tag:bit_string")
	c("asn1-tag-number", "C16.asn1.row", as, `v = v<<7 | d.U7()`, `v = v<<8 | d.U7()`, "identifier:tag-number")
	c("repr-scalar-conv", "C16.repr.route", "format/bencode/bencode.jq", `elif .type == "integer" then .value | tovalue`, `elif .type == "integer" then .value | tostring`, "bencode:arm:i")
	c("repr-bool-inverted", "C16.repr.route", "format/bson/bson.jq", `.value != 0`, `.value == 0`, "bson:type:0x08")
	c("bencode-assert-wrong", "C16.bencode.row", be, `d.FieldUTF8("separator", 1, d.StrAssert(":"))`, `d.FieldUTF8("separator", 1, d.StrAssert(";"))`, "arm:0")
	c("mp-range-loop-bound", "C16.msgpack.row", mp, "for i := uint64(0); i < length; i++ {\n\t\t\t\t\td.FieldStruct(\"element\"", "for range length + 1 {\n\t\t\t\t\td.FieldStruct(\"element\"", "row:fixarray")

	// cbor element loop (decision model)
	c("cbor-array-offbyone", "C16.cbor.row", cb, "} else if i >= count {\n\t\t\t\t\t\tbreak\n\t\t\t\t\t}\n\t\t\t\t\td.FieldStruct(\"element\"", "} else if i > count {\n\t\t\t\t\t\tbreak\n\t\t\t\t\t}\n\t\t\t\t\td.FieldStruct(\"element\"", "major:4")
	c("cbor-map-count-unguarded", "C16.cbor.indef", cb, "\t\t\t\t\t} else if i >= count {\n\t\t\t\t\t\tbreak\n\t\t\t\t\t}\n\t\t\t\t\td.FieldStruct(\"pair\"", "\t\t\t\t\t}\n\t\t\t\t\tif i >= count {\n\t\t\t\t\t\tbreak\n\t\t\t\t\t}\n\t\t\t\t\td.FieldStruct(\"pair\"", "major:5:count-not-bound")

	// round 4: xml namespace scope stack, asn1 REAL
	xm := "format/xml/xml.go"
	c("xml-ns-order", "C16.xml.ns", xm, "for i := len(nss) - 1; i >= 0; i-- {\n\t\tns := nss[i]\n", "for _, ns := range nss {\n", "lookup:order")
	c("xml-ns-start", "C16.xml.ns", xm, "for i := len(nss) - 1; i >= 0; i-- {", "for i := len(nss) - 2; i >= 0; i-- {", "lookup:order")
	c("xml-ns-field", "C16.xml.ns", xm, `if name.Space == ns.url {`, `if name.Space == ns.name {`, "lookup:match")
	c("xml-ns-store", "C16.xml.ns", xm, `xmlNS{name: name, url: url}`, `xmlNS{name: url, url: name}`, "lookup:match")
	c("xml-ns-push-args", "C16.xml.ns", xm, "f = func(n xmlNode, seq int, nss xmlNNStack) (string, any) {\n\t\tattrs := map[string]any{}\n\n\t\tfor _, a := range n.Attrs {\n\t\t\tlocal, space := a.Name.Local, a.Name.Space\n\t\t\tif space == \"xmlns\" {\n\t\t\t\tnss = nss.push(local, a.Value)", "f = func(n xmlNode, seq int, nss xmlNNStack) (string, any) {\n\t\tattrs := map[string]any{}\n\n\t\tfor _, a := range n.Attrs {\n\t\t\tlocal, space := a.Name.Local, a.Name.Space\n\t\t\tif space == \"xmlns\" {\n\t\t\t\tnss = nss.push(a.Value, local)", "push:fromXMLToObject:prefixed")
	c("asn1-real-exp", "C16.asn1.row", as, `exp = d.FieldS24("exp")`, `exp = d.FieldS32("exp")`, "tag:real")
	c("asn1-real-base", "C16.asn1.row", as, `0b01: 8,`, `0b01: 10,`, "tag:real")

	// text
	c("text-yaml-eof", "C16.text.eof", "format/yaml/yaml.go", `!errors.Is(err, io.EOF) {`, `err != nil && !errors.Is(err, io.EOF) {`, "yaml:eof")
	c("text-json-eof", "C16.text.eof", "format/json/json.go", `(len(vs) != 1 || !foundEOF)`, `(len(vs) < 1 || !foundEOF)`, "json:eof")
	c("text-json-mode", "C16.text.eof", "format/json/json.go", `return decodeJSONEx(d, false)`, `return decodeJSONEx(d, true)`, "json:mode")
	c("text-csv-err", "C16.text.eof", "format/csv/csv.go", "} else if err != nil {\n\t\t\td.Fatalf(\"%s\", err)\n\t\t}", "} else if err != nil {\n\t\t\tcontinue\n\t\t}", "csv:err")
	c("text-xml-trailing", "C16.text.eof", "format/xml/xml.go", "case xml.StartElement:\n\t\t\td.Fatalf(\"root element has trailing element <%s>\", elmName(t.Name.Space, t.Name.Local))", "case xml.StartElement:\n\t\t\t_ = t", "xml:trailing")
	c("text-yaml-root", "C16.text.root", "format/yaml/yaml.go", `d.Fatalf("root not object or array")`, ``, "yaml:root-type")
}
