package rules

import (
	"sort"
	"strings"

	"golang.org/x/tools/go/ssa"

	"fqverif/fw"
)

// ---------------------------------------------------------------------------
// C10.dump.units: bit/byte dimensions of the dump arithmetic
//
// Every quantity of the tree dumper is either a bit position/length (decode.Value ranges,
// bitiox.Len, bitiox.Range arguments) or a byte position/length (addresses, rows, LineBytes,
// DisplayBytes); the two are related only through *8 and /8. A term that adds, subtracts or
// compares a bit quantity with a byte quantity (a lost *8 or /8) makes the dump read bytes the
// address rows do not describe, or ask for bytes past the end of the buffer. The dimension
// inference itself is C01.units (it covers pkg/interp); its verdict for the functions declared
// next to the dumper is borrowed here: such a function must not lie on the constraint chain of a
// unit mix.

const c10UnitsFloor = 11 // 14 functions and closures in dump.go today

func c10UnitsRule(r *fw.Run, p *fw.Program, dumper *ssa.Function) {
	const id = "C10.dump.units"
	const desc = "bit/byte dimension inference (borrowed from C01.units: seeds ranges.Range / bitiox.Len / bitiox.Range / BitsByteCount / []byte lengths, *8 and /8 convert, + - compare phi unify) over every function declared in the dumper's file: no quantity of the dump arithmetic is both a bit and a byte quantity"
	ru := r.Rule(id, desc, c10UnitsFloor)
	file := p.RelFile(fw.Top(dumper).Pos())
	var fns []*ssa.Function
	for _, fn := range p.FqFunctions() {
		if pkgRel(fn) != pkgRel(dumper) || p.RelFile(fw.Top(fn).Pos()) != file {
			continue
		}
		if fn.Synthetic != "" && !strings.HasPrefix(fn.Synthetic, "instance of") {
			continue
		}
		fns = append(fns, fn)
	}
	sort.Slice(fns, func(i, j int) bool { return fw.ShortFn(fns[i]) < fw.ShortFn(fns[j]) })
	if len(fns) == 0 {
		ru.Undecided("anchor:file", "", "no function found in the dumper's file "+file)
		return
	}
	sc := r.Scratch()
	c01Units(sc, p)
	var hot []*ssa.Function
	for _, fn := range fns {
		key := "fn:" + fw.ShortFn(fn)
		before := ru.Count()
		r.Import(sc, "C01.units", id, desc, c10UnitsFloor, func(k string) bool { return k == key })
		if ru.Count() == before {
			hot = append(hot, fn)
		}
	}
	if len(hot) == 0 {
		return
	}
	// the chains themselves (C01.units reports one per mixed class, keyed by the meeting value)
	r.Import(sc, "C01.units", id, desc, c10UnitsFloor, func(k string) bool { return strings.HasPrefix(k, "mix:") })
	for _, fn := range hot {
		ru.Fail("units:"+fw.ShortFn(fn), p.Rel(fn.Pos()), fw.ShortFn(fn)+" lies on the constraint chain of a bit/byte unit mix (see the mix: obligations of this rule for the chain) or is no longer covered by the dimension inference: a *8 or /8 is missing or misplaced in the dump arithmetic, so bytes are read that the address rows do not describe or that lie past the end of the buffer")
	}
}

