package rules

import (
	"fmt"
	"go/token"
	"go/types"

	"fqverif/fw"

	"golang.org/x/tools/go/ssa"
)

// ---------------------------------------------------------------------------
// C13.nilret: a helper that can answer nil is tested before its answer is used
//
// Rule template: a function or closure of jq-callable code with a single pointer result that returns
// the constant nil on some path and something else on another ("unknown name -> nil"). At every call
// site whose callee resolves to it (static call, or a local function value bound once), each use of the
// result that dereferences it (method receiver, field access, load, argument to a function outside
// fq) is dominated by a comparison of the result with nil. A nil dereference is a SIGSEGV-class
// runtime panic, not a catchable jq error.

func c13NilRet(r *fw.Run, p *fw.Program, scope []*ssa.Function) {
	ru := r.Rule("C13.nilret", "in jq-callable code, the result of a helper with a single pointer result that returns constant nil on some path is compared with nil before any use that dereferences it (method receiver, field, load, argument to non-fq code), at every call site that resolves to the helper (no such helper exists in jq-callable code today: the rule arms when one is introduced; positive control c13-nilret-unknown-encoding)", 0)
	inScope := map[*ssa.Function]bool{}
	for _, f := range scope {
		inScope[f] = true
	}
	mayNil := func(f *ssa.Function) bool {
		if f == nil || f.Blocks == nil || f.Signature.Results().Len() != 1 {
			return false
		}
		if _, ok := f.Signature.Results().At(0).Type().Underlying().(*types.Pointer); !ok {
			return false
		}
		hasNil, hasOther := false, false
		fw.EachInstr(f, func(ins ssa.Instruction) {
			if ret, ok := ins.(*ssa.Return); ok && len(ret.Results) == 1 {
				if c, ok := ret.Results[0].(*ssa.Const); ok && c.IsNil() {
					hasNil = true
				} else {
					hasOther = true
				}
			}
		})
		return hasNil && hasOther
	}
	resolve := func(fn *ssa.Function, c ssa.CallInstruction) *ssa.Function {
		if cal := c.Common().StaticCallee(); cal != nil {
			return cal
		}
		v := c.Common().Value
		if u, ok := v.(*ssa.UnOp); ok && u.Op == token.MUL {
			v = u.X
		}
		if fv, ok := v.(*ssa.FreeVar); ok {
			vals, _ := freeVarBindings(fn, fv)
			if len(vals) != 1 {
				return nil
			}
			bv := vals[0]
			if al, ok := bv.(*ssa.Alloc); ok && al.Referrers() != nil {
				// captured by reference: single store of a function value
				var only ssa.Value
				n := 0
				for _, rf := range *al.Referrers() {
					if st, ok := rf.(*ssa.Store); ok && st.Addr == ssa.Value(al) {
						only = st.Val
						n++
					}
				}
				if n != 1 {
					return nil
				}
				bv = only
			}
			switch x := bv.(type) {
			case *ssa.Function:
				return x
			case *ssa.MakeClosure:
				f, _ := x.Fn.(*ssa.Function)
				return f
			}
		}
		return nil
	}
	for _, fn := range scope {
		ord := map[string]int{}
		for _, c := range fw.CallsIn(fn) {
			callee := resolve(fn, c)
			if callee == nil || !fw.InFq(callee) || !mayNil(callee) {
				continue
			}
			res, ok := c.(*ssa.Call)
			if !ok || res.Referrers() == nil {
				continue
			}
			cn := fw.ShortFn(callee)
			ord[cn]++
			key := fmt.Sprintf("%s|%s#%d", fw.ShortFn(fn), cn, ord[cn])
			var badUse ssa.Instruction
			what := ""
			for _, use := range *res.Referrers() {
				w := c13Derefs(use, res)
				if w == "" {
					continue
				}
				checked := false
				for _, g := range fw.Guards(use.Block()) {
					if b, ok := g.Cond.(*ssa.BinOp); ok && (b.X == ssa.Value(res) || b.Y == ssa.Value(res)) {
						other := b.Y
						if b.Y == ssa.Value(res) {
							other = b.X
						}
						if oc, ok := other.(*ssa.Const); ok && oc.IsNil() {
							if b.Op == token.NEQ && g.True || b.Op == token.EQL && !g.True {
								checked = true
							}
						}
					}
				}
				if !checked && badUse == nil {
					badUse, what = use, w
				}
			}
			if badUse != nil {
				ru.Fail(key, p.Rel(badUse.Pos()), cn+" returns nil on some path, but its result is used as "+what+" without a dominating nil test: a nil dereference is a runtime panic that ends fq")
			} else {
				ru.Ok(key, p.Rel(c.Pos()), "result tested against nil before it is dereferenced (or never dereferenced here)")
			}
		}
	}
}

// c13Derefs: does `use` dereference v? Returns a description or "".
func c13Derefs(use ssa.Instruction, v ssa.Value) string {
	switch x := use.(type) {
	case *ssa.FieldAddr:
		if x.X == v {
			return "the base of a field access"
		}
	case *ssa.UnOp:
		if x.Op == token.MUL && x.X == v {
			return "the operand of a load"
		}
	case ssa.CallInstruction:
		cc := x.Common()
		for i, a := range cc.Args {
			if a != v {
				continue
			}
			cal := cc.StaticCallee()
			if cal == nil {
				return "an argument of a dynamic call"
			}
			if cal.Signature.Recv() != nil && i == 0 {
				if !fw.InFq(cal) {
					return "the receiver of " + cal.String()
				}
				return "the receiver of " + fw.ShortFn(cal)
			}
			if !fw.InFq(cal) {
				return "an argument of " + cal.String()
			}
		}
	}
	return ""
}
