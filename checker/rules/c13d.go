package rules

import (
	"fmt"
	"go/token"
	"go/types"

	"fqverif/fw"

	"golang.org/x/tools/go/ssa"
)

// ---------------------------------------------------------------------------
// C13.nilret: a value that is nil when the operation that produced it failed is not used before the
// failure has been excluded
//
// A nil pointer dereference / a method call on a nil interface is a SIGSEGV-class runtime panic, not a
// catchable jq error. In jq-callable code three kinds of values are nil exactly when something a jq
// program controls went wrong (unknown name, mistyped value, failing option object):
//
//   helper   the single pointer / interface result of an fq helper that returns the constant nil on some
//            path and something else on another ("unknown name -> nil": hashFn, strEncoding ...)
//   errpair  a pointer / interface result that comes together with an error (v, err := f(...)), where f
//            is a function whose body returns nil in that position on some path, or a dynamic callee
//            (func value, interface method), for which the Go convention "nil unless err == nil" holds
//   commaok  the value of a two-result type assertion v, ok := x.(T) with T a pointer or interface
//
// Obligation, per producing site: every use that dereferences the value (field access, load, method
// receiver, interface method call, being passed on in a pointer / non-empty interface parameter) is
// dominated by a test that excludes the failure: v != nil, err == nil of the same call, or ok of the
// same assertion (no-return arms count as in all guard reasoning of this checker).

type c13NilSrc struct {
	val   ssa.Value // the maybe-nil value
	fail  ssa.Value // err / ok of the same operation (nil if none)
	okVal bool      // fail is a bool that is true on success (comma-ok) rather than an error
	kind  string    // helper | errpair | commaok
	what  string    // description of the producer
	at    ssa.Instruction
}

func c13NilRet(r *fw.Run, p *fw.Program, scope []*ssa.Function) {
	ru := r.Rule("C13.nilret", "in jq-callable code a pointer / interface value that is nil when its producer failed (result of an fq helper that returns constant nil on some path; result paired with an error; value of a comma-ok type assertion) is dereferenced (field, load, method receiver, interface call, passed on in a pointer/interface parameter) only where a dominating test excludes the failure (v != nil, err == nil, ok); merged variables are followed edge by edge, captured variables into the closure", 150)
	for _, fn := range scope {
		if fn.TypeParams().Len() > 0 && len(fn.TypeArgs()) == 0 {
			continue
		}
		ord := map[string]int{}
		for _, src := range c13NilSources(fn) {
			base := src.kind + ":" + src.what
			ord[base]++
			key := fmt.Sprintf("%s|%s#%d", fw.ShortFn(fn), base, ord[base])
			var badUse ssa.Instruction
			what := ""
			for _, use := range c13UsesThroughCopies(src) {
				w := c13Derefs(use.ins, use.val)
				if w == "" {
					continue
				}
				if c13FailureExcluded(fw.Guards(use.ins.Block()), src, use.val) {
					continue
				}
				if badUse == nil {
					badUse, what = use.ins, w
				}
			}
			if badUse == nil {
				ru.Ok(key, p.Rel(src.at.Pos()), "every dereferencing use is dominated by a test that excludes the failure (or there is none)")
				continue
			}
			if reason, ok := c13NilExceptions[key]; ok {
				ru.Except(key, p.Rel(badUse.Pos()), reason)
				continue
			}
			how := "without a dominating nil / error test"
			if src.kind == "commaok" {
				how = "without a dominating test of ok (or of the value against nil)"
			}
			ru.Fail(key, p.Rel(badUse.Pos()), "the result of "+src.what+" is nil when it failed, but it is used as "+what+" "+how+": a nil dereference is a runtime panic that ends fq instead of a catchable jq error")
		}
	}
}

// c13NilExceptions: key -> reason. Sites where reading shows the value cannot be nil at the use.
var c13NilExceptions = map[string]string{}

// c13NilSources enumerates the maybe-nil producers in fn.
func c13NilSources(fn *ssa.Function) []c13NilSrc {
	var out []c13NilSrc
	fw.EachInstr(fn, func(ins ssa.Instruction) {
		switch x := ins.(type) {
		case *ssa.TypeAssert:
			if !x.CommaOk || !c13Nilable(x.AssertedType) {
				return
			}
			v, ok := c13Extract(x, 0), c13Extract(x, 1)
			if v == nil {
				return
			}
			out = append(out, c13NilSrc{val: v, fail: ok, okVal: true, kind: "commaok", what: "assertion to " + shortType(x.AssertedType), at: x})
		case *ssa.Call:
			res := x.Common().Signature().Results()
			callee := c13ResolveCallee(fn, x)
			name := "a dynamic call"
			if callee != nil {
				name = callee.String()
				if fw.InFq(callee) {
					name = fw.ShortFn(callee)
				}
			} else if x.Common().IsInvoke() {
				name = "interface method " + x.Common().Method.Name()
			}
			switch {
			case res.Len() == 1:
				if callee == nil || !fw.InFq(callee) || !c13Nilable(res.At(0).Type()) || !c13MayReturnNil(callee, 0, 0) || !c13ReturnsNonNil(callee, 0) {
					return
				}
				out = append(out, c13NilSrc{val: x, kind: "helper", what: name, at: x})
			case res.Len() >= 2 && types.Identical(res.At(res.Len()-1).Type(), types.Universe.Lookup("error").Type()):
				errV := c13Extract(x, res.Len()-1)
				for i := 0; i < res.Len()-1; i++ {
					if !c13Nilable(res.At(i).Type()) {
						continue
					}
					v := c13Extract(x, i)
					if v == nil {
						continue
					}
					if callee != nil && callee.Blocks != nil && !c13MayReturnNil(callee, i, 0) {
						continue
					}
					out = append(out, c13NilSrc{val: v, fail: errV, kind: "errpair", what: name, at: x})
				}
			}
		}
	})
	return out
}

// c13Nilable: pointer, or an interface with methods other than error (a nil `any` is jq null, a nil
// error is success).
func c13Nilable(t types.Type) bool {
	switch u := t.Underlying().(type) {
	case *types.Pointer:
		return true
	case *types.Interface:
		if u.Empty() || types.Identical(t, types.Universe.Lookup("error").Type()) {
			return false
		}
		return true
	}
	return false
}

func c13Extract(tuple ssa.Value, idx int) ssa.Value {
	if tuple.Referrers() == nil {
		return nil
	}
	for _, u := range *tuple.Referrers() {
		if e, ok := u.(*ssa.Extract); ok && e.Index == idx {
			return e
		}
	}
	return nil
}

// c13ResolveCallee: static callee, or the single function value bound to a called local / captured variable.
func c13ResolveCallee(fn *ssa.Function, c ssa.CallInstruction) *ssa.Function {
	if cal := c.Common().StaticCallee(); cal != nil {
		return cal
	}
	if c.Common().IsInvoke() {
		return nil
	}
	v := c.Common().Value
	if u, ok := v.(*ssa.UnOp); ok && u.Op == token.MUL {
		v = u.X
	}
	single := func(al *ssa.Alloc) ssa.Value {
		if al.Referrers() == nil {
			return nil
		}
		var only ssa.Value
		n := 0
		for _, rf := range *al.Referrers() {
			if st, ok := rf.(*ssa.Store); ok && st.Addr == ssa.Value(al) {
				only = st.Val
				n++
			}
		}
		if n != 1 {
			return nil
		}
		return only
	}
	var bv ssa.Value
	switch x := v.(type) {
	case *ssa.FreeVar:
		vals, _ := freeVarBindings(fn, x)
		if len(vals) != 1 {
			return nil
		}
		bv = vals[0]
		if al, ok := bv.(*ssa.Alloc); ok {
			bv = single(al)
		}
	case *ssa.Alloc:
		bv = single(x)
	case *ssa.MakeClosure, *ssa.Function:
		bv = x
	}
	switch x := bv.(type) {
	case *ssa.Function:
		return x
	case *ssa.MakeClosure:
		f, _ := x.Fn.(*ssa.Function)
		return f
	}
	return nil
}

// c13MayReturnNil: some return of f yields the constant nil in position i (through phis and, to a
// small depth, through forwarded results of other calls).
func c13MayReturnNil(f *ssa.Function, i int, depth int) bool {
	if f == nil || f.Blocks == nil || depth > 3 {
		return false
	}
	found := false
	var visit func(v ssa.Value, seen map[ssa.Value]bool)
	visit = func(v ssa.Value, seen map[ssa.Value]bool) {
		if found || seen[v] {
			return
		}
		seen[v] = true
		switch x := v.(type) {
		case *ssa.Const:
			if x.IsNil() {
				found = true
			}
		case *ssa.Phi:
			for _, e := range x.Edges {
				visit(e, seen)
			}
		case *ssa.Extract:
			if c, ok := x.Tuple.(*ssa.Call); ok {
				if cal := c.Common().StaticCallee(); cal != nil && c13MayReturnNil(cal, x.Index, depth+1) {
					found = true
				}
			}
		case *ssa.Call:
			if cal := x.Common().StaticCallee(); cal != nil && x.Common().Signature().Results().Len() == 1 && c13MayReturnNil(cal, 0, depth+1) {
				found = true
			}
		case *ssa.UnOp:
			// load of a local result variable (named results / `var x *T` assigned on some paths only)
			if al, ok := x.X.(*ssa.Alloc); ok && x.Op == token.MUL && al.Referrers() != nil {
				for _, rf := range *al.Referrers() {
					if st, ok := rf.(*ssa.Store); ok && st.Addr == ssa.Value(al) {
						visit(st.Val, seen)
					}
				}
			}
		}
	}
	for _, ret := range returnsOf(f) {
		if i < len(ret.Results) {
			visit(ret.Results[i], map[ssa.Value]bool{})
		}
	}
	return found
}

// c13ReturnsNonNil: some return of f yields something that is not the constant nil in position i.
func c13ReturnsNonNil(f *ssa.Function, i int) bool {
	for _, ret := range returnsOf(f) {
		if i < len(ret.Results) {
			if c, ok := ret.Results[i].(*ssa.Const); !ok || !c.IsNil() {
				return true
			}
		}
	}
	return false
}

type c13Use struct {
	ins ssa.Instruction
	val ssa.Value // the (copy of the) value as it appears in ins
}

// c13UsesThroughCopies: the instructions using v, following interface-to-interface conversions
// (ChangeInterface / ChangeType keep nil-ness; MakeInterface of a nil pointer is a typed nil whose
// method calls dereference it just the same).
func c13UsesThroughCopies(src c13NilSrc) []c13Use {
	v := src.val
	var out []c13Use
	seen := map[ssa.Value]bool{}
	var walk func(v ssa.Value)
	walk = func(v ssa.Value) {
		if seen[v] || v.Referrers() == nil {
			return
		}
		seen[v] = true
		for _, u := range *v.Referrers() {
			out = append(out, c13Use{u, v})
			switch x := u.(type) {
			case *ssa.ChangeInterface:
				walk(x)
			case *ssa.ChangeType:
				walk(x)
			case *ssa.Phi:
				// `var f T; if .. { f, err = open() }; f.Use()`: the merged value is ours on the paths through the
				// edges that carry it; where the failure is already excluded on such an edge nothing more is owed
				follow := false
				for k, e := range x.Edges {
					if e != v || k >= len(x.Block().Preds) {
						continue
					}
					pred := x.Block().Preds[k]
					gs := fw.Guards(pred)
					if ifi, ok := pred.Instrs[len(pred.Instrs)-1].(*ssa.If); ok && len(pred.Succs) == 2 && pred.Succs[0] != pred.Succs[1] {
						gs = append(gs, fw.Guard{Cond: ifi.Cond, True: pred.Succs[0] == x.Block(), If: ifi})
					}
					if !c13FailureExcluded(gs, src, v) {
						follow = true
					}
				}
				if follow {
					walk(x)
				}
			case *ssa.Store:
				// spilled local (captured by a closure): written once, read back in the same function
				if al, ok := x.Addr.(*ssa.Alloc); ok && x.Val == v && c13SingleStore(al) {
					for _, r := range *al.Referrers() {
						if ld, ok := r.(*ssa.UnOp); ok && ld.Op == token.MUL && ld.X == ssa.Value(al) {
							walk(ld)
						}
						if mc, ok := r.(*ssa.MakeClosure); ok {
							out = append(out, c13Use{mc, al})
						}
					}
				}
			}
		}
	}
	walk(v)
	return out
}

func c13SingleStore(al *ssa.Alloc) bool {
	if al.Referrers() == nil {
		return false
	}
	n := 0
	for _, r := range *al.Referrers() {
		if st, ok := r.(*ssa.Store); ok && st.Addr == ssa.Value(al) {
			n++
		}
	}
	return n == 1
}

// c13LoadedFrom: v, or (when v is a load of a local variable) the value most recently stored into that
// variable in the same block before the load.
func c13LoadedFrom(v ssa.Value) ssa.Value {
	ld, ok := v.(*ssa.UnOp)
	if !ok || ld.Op != token.MUL {
		return v
	}
	al, ok := ld.X.(*ssa.Alloc)
	if !ok {
		return v
	}
	var last ssa.Value
	for _, ins := range ld.Block().Instrs {
		if ins == ssa.Instruction(ld) {
			break
		}
		if st, ok := ins.(*ssa.Store); ok && st.Addr == ssa.Value(al) {
			last = st.Val
		}
	}
	if last != nil {
		return last
	}
	return v
}

// c13FailureExcluded: the given guards (the dominating tests at a block, or those of an edge) exclude the failure of src.
func c13FailureExcluded(guards []fw.Guard, src c13NilSrc, used ssa.Value) bool {
	isNilConst := func(v ssa.Value) bool {
		c, ok := v.(*ssa.Const)
		return ok && c.IsNil()
	}
	for _, g := range guards {
		g = g.Normalize()
		if src.okVal && src.fail != nil && g.Cond == src.fail && g.True {
			return true
		}
		bo, ok := g.Cond.(*ssa.BinOp)
		if !ok || (bo.Op != token.NEQ && bo.Op != token.EQL) {
			continue
		}
		var other, subject ssa.Value
		switch {
		case isNilConst(bo.Y):
			subject, other = bo.X, bo.Y
		case isNilConst(bo.X):
			subject, other = bo.Y, bo.X
		default:
			continue
		}
		_ = other
		subject = c13LoadedFrom(subject)
		if ph, ok := subject.(*ssa.Phi); ok {
			// a merged err / value variable: the test speaks about our operation on the paths that come from it
			for _, e := range ph.Edges {
				if e == src.val || e == used || (src.fail != nil && e == src.fail) {
					subject = e
					break
				}
			}
		}
		nonNil := bo.Op == token.NEQ && g.True || bo.Op == token.EQL && !g.True
		isNil := !nonNil
		if (subject == src.val || subject == used) && nonNil {
			return true
		}
		if !src.okVal && src.fail != nil && subject == src.fail && isNil {
			return true
		}
	}
	return false
}

// c13Derefs: does `use` dereference v? Returns a description or "".
func c13Derefs(use ssa.Instruction, v ssa.Value) string {
	switch x := use.(type) {
	case *ssa.FieldAddr:
		if x.X == v {
			return "the base of a field access"
		}
	case *ssa.UnOp:
		if x.Op == token.MUL && x.X == v {
			return "the operand of a load"
		}
	case *ssa.MakeClosure:
		// the closure will use the value later, when no test of this operation's outcome is in sight any more
		for _, b := range x.Bindings {
			if b == v {
				return "a variable captured by a closure"
			}
		}
	case ssa.CallInstruction:
		cc := x.Common()
		if cc.IsInvoke() && cc.Value == v {
			return "the receiver of interface method " + cc.Method.Name()
		}
		sig := cc.Signature()
		for i, a := range cc.Args {
			if a != v {
				continue
			}
			cal := cc.StaticCallee()
			if cal != nil && cal.Signature.Recv() != nil && i == 0 {
				if !fw.InFq(cal) {
					return "the receiver of " + cal.String()
				}
				return "the receiver of " + fw.ShortFn(cal)
			}
			// parameter type: a pointer / non-empty interface parameter receives the value to use it
			pi := i
			if cal != nil && cal.Signature.Recv() != nil {
				pi = i - 1
			}
			var pt types.Type
			if sig != nil && pi >= 0 {
				switch {
				case pi < sig.Params().Len()-1 || (pi == sig.Params().Len()-1 && !sig.Variadic()):
					pt = sig.Params().At(pi).Type()
				case sig.Variadic() && sig.Params().Len() > 0:
					if sl, ok := sig.Params().At(sig.Params().Len() - 1).Type().Underlying().(*types.Slice); ok {
						pt = sl.Elem()
					}
				}
			}
			if pt == nil || !c13Nilable(pt) {
				continue
			}
			if cal == nil {
				return "an argument of a dynamic call"
			}
			if !fw.InFq(cal) {
				return "an argument of " + cal.String()
			}
			return "an argument of " + fw.ShortFn(cal)
		}
	}
	return ""
}
