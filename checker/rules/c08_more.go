package rules

// C08 round-3 additions (self-review by mutation): exact sign handling of number length, string->number
// conversion, the memoising producer of the lazy wrapper, raw-bit conversion of scalar decode values.

import (
	"fmt"
	"go/constant"
	"go/token"
	"go/types"
	"strings"

	"golang.org/x/tools/go/ssa"

	"fqverif/fw"
)

// c08SignFact: what a branch condition says about the sign of its subject. The subject is the compared
// term; for x.Sign() of a math/big number it is x itself. rel is one of "<0", "<=0", ">0", ">=0".
func c08SignFact(e *fw.TermEnv, cd fw.Cond) (subj, rel string, ok bool) {
	// math.Signbit(x) is the strict sign test of a float (true for -0): "<0" / ">0" in the sense the float arm needs
	if cl, isCall := cd.Val.(*ssa.Call); isCall && fw.SxCallee(cl.Common()) == "math.Signbit" && len(cl.Common().Args) == 1 {
		if cd.True {
			return e.Term(cl.Common().Args[0]), "<0", true
		}
		return e.Term(cl.Common().Args[0]), ">0", true
	}
	b, isB := cd.Val.(*ssa.BinOp)
	if !isB {
		return "", "", false
	}
	isZero := func(v ssa.Value) bool {
		cst, ok := v.(*ssa.Const)
		if !ok || cst.Value == nil {
			return false
		}
		k := cst.Value.Kind()
		return (k == constant.Int || k == constant.Float) && constant.Sign(cst.Value) == 0
	}
	op := b.Op
	var sv ssa.Value
	switch {
	case isZero(b.Y):
		sv = b.X
	case isZero(b.X):
		sv = b.Y
		switch op { // 0 < x  <=>  x > 0
		case token.LSS:
			op = token.GTR
		case token.LEQ:
			op = token.GEQ
		case token.GTR:
			op = token.LSS
		case token.GEQ:
			op = token.LEQ
		}
	default:
		return "", "", false
	}
	if !cd.True {
		switch op {
		case token.LSS:
			op = token.GEQ
		case token.LEQ:
			op = token.GTR
		case token.GTR:
			op = token.LEQ
		case token.GEQ:
			op = token.LSS
		default:
			return "", "", false
		}
	}
	switch op {
	case token.LSS:
		rel = "<0"
	case token.LEQ:
		rel = "<=0"
	case token.GTR:
		rel = ">0"
	case token.GEQ:
		rel = ">=0"
	default:
		return "", "", false
	}
	subj = e.Term(sv)
	if call, isCall := sv.(*ssa.Call); isCall {
		if f := call.Common().StaticCallee(); bigPkg(f) && f.Name() == "Sign" && len(call.Common().Args) == 1 {
			subj = e.Term(call.Common().Args[0])
		}
	}
	return subj, rel, true
}

// ---------------------------------------------------------------------------
// C08.numlen

func (c *c08ctx) ruleNumLenExact() {
	ru := c.r.Rule("C08.numlen", "length of a number wrapper is the absolute value of its payload for each Go representation gojq uses (int, float64, *big.Int): the payload is returned unchanged only where it is known not to be negative, its negation only where it is known to be negative, and no representation falls through to the unchanged payload without a sign test", 4)
	T := c.byKind["number"]
	f := c.method(T, "JQValueLength")
	key := tname(T) + ".Length"
	if f == nil || f.Blocks == nil {
		ru.Undecided(key, "", "JQValueLength not declared")
		return
	}
	e := c.env(f)
	payload := ""
	if g := c.method(T, "JQValueToGoJQ"); g != nil {
		if rcs := fw.ReturnCases(g, 0); len(rcs) == 1 {
			payload = c.env(g).Term(rcs[0].Val)
		}
	}
	if payload == "" {
		ru.Undecided(key, c.pos(f), "payload of the number wrapper not resolved")
		return
	}
	rcs := fw.ReturnCases(f, 0)
	isIdentity := func(t, x string) bool {
		return t == payload || (x != "" && t == x) || (strings.HasPrefix(t, "assert<") && strings.HasSuffix(t, "("+payload+").v"))
	}
	identity := len(rcs) > 0
	for _, rc := range rcs {
		if !isIdentity(e.Term(rc.Val), "") {
			identity = false
		}
	}
	ru.Check(!identity, key, c.pos(f), "not the identity",
		"returns the raw payload "+payload+" on every path: length of a negative decoded number is negative, but length of its JSON value is the absolute value")

	// arms: comma-ok type tests of the payload
	type arm struct {
		x     string
		start *ssa.BasicBlock
	}
	arms := map[string]*arm{}
	var okConds []string
	fw.EachInstr(f, func(ins ssa.Instruction) {
		ta, ok := ins.(*ssa.TypeAssert)
		if !ok || !ta.CommaOk || e.Term(ta.X) != payload {
			return
		}
		okT := e.Term(ta) + ".ok"
		for _, b := range f.Blocks {
			for _, sc := range b.Succs {
				if cd, ok := fw.EdgeCond(b, sc); ok && cd.True && e.Term(cd.Val) == okT {
					arms[fw.TypeStr(ta.AssertedType)] = &arm{x: e.Term(ta) + ".v", start: sc}
					okConds = append(okConds, okT)
				}
			}
		}
	})
	// does the unchanged payload come out when no representation matched?
	defaultIdentity := false
	for _, rc := range rcs {
		if isIdentity(e.Term(rc.Val), "") && fw.CaseReachable(f, rc, func(cd fw.Cond) bool {
			if !cd.True {
				return false
			}
			t := e.Term(cd.Val)
			for _, o := range okConds {
				if o == t {
					return true
				}
			}
			return false
		}) {
			defaultIdentity = true
		}
	}
	for _, rep := range []string{"int", "float64", "*math/big.Int"} {
		k := key + ":" + rep
		a := arms[rep]
		if a == nil {
			ru.Check(!defaultIdentity, k, c.pos(f), "handled without a type test of its own",
				"no arm for a "+rep+" payload, which falls through to the unchanged payload: length of a negative "+rep+" is negative")
			continue
		}
		knows := func(rels ...string) func(fw.Cond) bool {
			return func(cd fw.Cond) bool {
				s, rel, ok := c08SignFact(e, cd)
				if !ok || s != a.x {
					return false
				}
				for _, r := range rels {
					if r == rel {
						return true
					}
				}
				return false
			}
		}
		var msgs []string
		for _, rc := range rcs {
			t := e.Term(rc.Val)
			neg := t == "-("+a.x+")" || t == "-1*"+a.x ||
				(strings.HasPrefix(t, "call (*math/big.Int).Neg(") && strings.HasSuffix(t, ", "+a.x+")"))
			switch {
			case isIdentity(t, a.x) && rep == "float64":
				// a float that is not < 0 may still be -0 (and +0 negated is -0): only a strict sign test, or math.Abs, will do
				if c08ReachableFrom(a.start, rc, knows(">0")) {
					msgs = append(msgs, "the float payload is returned unchanged on a path where it may be negative or -0 (a test `< 0` does not see the sign of -0; the plain value's length is math.Abs, which answers 0)")
				}
			case neg && rep == "float64":
				if c08ReachableFrom(a.start, rc, knows("<0")) {
					msgs = append(msgs, "the negated float payload is returned on a path where it may be positive or +0")
				}
			case isIdentity(t, a.x):
				if c08ReachableFrom(a.start, rc, knows(">=0", ">0")) {
					msgs = append(msgs, "the payload is returned unchanged on a path where it may be negative")
				}
			case neg:
				if c08ReachableFrom(a.start, rc, knows("<0", "<=0")) {
					msgs = append(msgs, "the negated payload is returned on a path where it may be positive")
				}
			case strings.Contains(t, "Abs("):
				if c08ReachableFrom(a.start, rc, nil) && !strings.Contains(t, a.x) {
					msgs = append(msgs, "returns "+t+", the absolute value of something that is not the payload")
				}
			}
		}
		ru.Check(len(msgs) == 0, k, c.pos(f), "absolute value", strings.Join(uniq(msgs), "; "))
	}
}

// ---------------------------------------------------------------------------
// C08.strnum: tonumber of a decoded string

func (c *c08ctx) ruleStrNum() {
	ru := c.r.Rule("C08.strnum", "tonumber of the string wrapper parses the wrapper's own text: the number is produced exactly where the engine's number syntax check of that text succeeded, an error exactly where it failed", 1)
	T := c.byKind["string"]
	f := c.method(T, "JQValueToNumber")
	key := tname(T) + ".ToNumber"
	if f == nil || f.Blocks == nil {
		ru.Undecided(key, "", "JQValueToNumber not declared")
		return
	}
	e := c.env(f)
	text := "conv<string>(recv)"
	// the syntax check: a call of the engine package, string -> bool, on the text
	valid := ""
	for _, call := range fw.CallsIn(f) {
		cf := call.Common().StaticCallee()
		if cf == nil || cf.Pkg == nil || cf.Pkg.Pkg.Path() != gojqPath || len(call.Common().Args) != 1 {
			continue
		}
		res := cf.Signature.Results()
		if res.Len() != 1 {
			continue
		}
		if b, ok := res.At(0).Type().Underlying().(*types.Basic); ok && b.Info()&types.IsBoolean != 0 {
			if valid != "" {
				ru.Undecided(key, c.pos(f), "more than one boolean engine check of the text")
				return
			}
			valid = e.Term(call.Value())
			if e.Term(call.Common().Args[0]) != text {
				ru.Fail(key, c.pos(f), "number syntax is checked on "+e.Term(call.Common().Args[0])+", not on the wrapper's text "+text)
				return
			}
		}
	}
	if valid == "" {
		ru.Undecided(key, c.pos(f), "no engine syntax check (gojq string->bool) of the wrapper's text found")
		return
	}
	var msgs []string
	nNum := 0
	for _, rc := range fw.ReturnCases(f, 0) {
		t := e.Term(rc.Val)
		isNum := false
		if call, ok := fw.Resolve(rc.Val).(*ssa.Call); ok {
			if cf := call.Common().StaticCallee(); cf != nil && cf.Pkg != nil && cf.Pkg.Pkg.Path() == gojqPath {
				isNum = true
				if !strings.Contains(t, text) {
					msgs = append(msgs, "the number is parsed from "+t+", not from the wrapper's text")
				}
			}
		}
		if isNum {
			nNum++
			if fw.CaseReachable(f, rc, func(cd fw.Cond) bool { return cd.True && e.Term(cd.Val) == valid }) {
				msgs = append(msgs, "a number is produced on a path where the syntax check did not succeed")
			}
		} else if fw.CaseReachable(f, rc, func(cd fw.Cond) bool { return !cd.True && e.Term(cd.Val) == valid }) {
			msgs = append(msgs, "returns "+t+" (not the parsed number) on a path where the syntax check succeeded")
		}
	}
	if nNum == 0 {
		msgs = append(msgs, "never returns the engine's parsed number")
	}
	ru.Check(len(msgs) == 0, key, c.pos(f), "number iff valid", strings.Join(uniq(msgs), "; "))
}

// ---------------------------------------------------------------------------
// C08.lazy: producer / apply helpers of the forwarding wrapper

func (c *c08ctx) checkLazyMemo(ru *fw.Rule, w *types.Named) {
	st := w.Underlying().(*types.Struct)
	prodField := ""
	for i := 0; i < st.NumFields(); i++ {
		if sig, ok := st.Field(i).Type().Underlying().(*types.Signature); ok && sig.Results().Len() == 2 && fw.TypeStr(sig.Results().At(0).Type()) == gojqPath+".JQValue" {
			prodField = st.Field(i).Name()
		}
	}
	// producer method: the one that calls the producer field
	var pm *ssa.Function
	var pcall *ssa.Call
	ms := types.NewMethodSet(types.NewPointer(w))
	var meths []*ssa.Function
	for i := 0; i < ms.Len(); i++ {
		if fn := c.p.SSA.MethodValue(ms.At(i)); fn != nil && fn.Blocks != nil && fn.Synthetic == "" {
			meths = append(meths, fn)
		}
	}
	for _, fn := range meths {
		e := c.env(fn)
		for _, call := range fw.CallsIn(fn) {
			cc := call.Common()
			if cl, ok := call.(*ssa.Call); ok && !cc.IsInvoke() && cc.StaticCallee() == nil && e.Term(cc.Value) == "recv."+prodField {
				if pm != nil && pm != fn {
					ru.Undecided(tname(w)+".producer", c.pos(fn), "the producer field is called from two methods")
					return
				}
				pm, pcall = fn, cl
			}
		}
	}
	key := tname(w) + ".producer"
	if pm == nil {
		ru.Undecided(key, "", "no method of the wrapper calls its producer field "+prodField)
		return
	}
	e := c.env(pm)
	var msgs []string
	// (1) slots: result i is output i of the producer, directly or through a receiver field stored with it
	stored := map[string]string{} // receiver field term -> what is stored
	fw.EachInstr(pm, func(ins ssa.Instruction) {
		if s, ok := ins.(*ssa.Store); ok {
			if fa, ok := s.Addr.(*ssa.FieldAddr); ok {
				stored[strings.TrimPrefix(e.Term(fa), "&")] = e.Term(s.Val)
			}
		}
	})
	out := e.Term(pcall)
	for ri := 0; ri < 2; ri++ {
		for _, rc := range fw.ReturnCases(pm, ri) {
			t := e.Term(rc.Val)
			want := fmt.Sprintf("%s#%d", out, ri)
			if t == want {
				continue
			}
			if sv, ok := stored[t]; ok && sv == want {
				continue
			}
			if sv, ok := stored[t]; ok && strings.HasPrefix(sv, out+"#") {
				msgs = append(msgs, fmt.Sprintf("result %d is %s, which holds output %s of the producer", ri, t, strings.TrimPrefix(sv, out)))
				continue
			}
			// an error may be wrapped, but it has to come from the producer's error
			derived := ri == 1 && strings.Contains(t, want)
			for fld, sv := range stored {
				if ri == 1 && sv == want && strings.Contains(t, fld) {
					derived = true
				}
			}
			if !derived {
				msgs = append(msgs, fmt.Sprintf("result %d is %s, not output %d of the producer (a failed producer would be used as if it had succeeded)", ri, t, ri))
			}
		}
	}
	// (2) the cached result is returned without running the producer only when the "already run" flag is set:
	// a boolean receiver field stored true after the producer call
	flags := map[string]bool{}
	fw.EachInstr(pm, func(ins ssa.Instruction) {
		if s, ok := ins.(*ssa.Store); ok && isConstBool(s.Val, true) && pcall.Block().Dominates(s.Block()) {
			flags[strings.TrimPrefix(e.Term(s.Addr), "&")] = true
		}
	})
	del := func(cd fw.Cond) bool { return cd.True && flags[e.Term(cd.Val)] }
	seen := fw.ReachAvoiding(pm.Blocks[0], del, map[*ssa.BasicBlock]bool{pcall.Block(): true})
	for b := range seen {
		if _, isRet := b.Instrs[len(b.Instrs)-1].(*ssa.Return); isRet {
			msgs = append(msgs, "the cached value can be returned although the producer has not run (no set already-run flag on that path): the first read yields a nil value")
		}
	}
	ru.Check(len(msgs) == 0, key, c.pos(pm), "producer runs before its cached outputs are returned, each in its own slot", strings.Join(uniq(msgs), "; "))

	// apply method: takes a func(JQValue) any and calls the producer method
	key = tname(w) + ".apply"
	var am *ssa.Function
	for _, fn := range meths {
		if fn == pm || len(fn.Params) != 2 {
			continue
		}
		if _, ok := fn.Params[1].Type().Underlying().(*types.Signature); !ok {
			continue
		}
		for _, call := range fw.CallsIn(fn) {
			if call.Common().StaticCallee() == pm {
				am = fn
			}
		}
	}
	if am == nil {
		ru.Undecided(key, "", "no method of the wrapper applies a function to the produced value")
		return
	}
	ae := c.env(am)
	prod := ""
	for _, call := range fw.CallsIn(am) {
		if call.Common().StaticCallee() == pm {
			prod = ae.Term(call.Value())
		}
	}
	p0, p1 := prod+"#0", prod+"#1"
	var m2 []string
	nApply := 0
	errIsNil := func(cd fw.Cond) bool { x, nn, ok := nilTest(ae, cd); return ok && x == p1 && !nn }
	errNonNil := func(cd fw.Cond) bool { x, nn, ok := nilTest(ae, cd); return ok && x == p1 && nn }
	for _, rc := range fw.ReturnCases(am, 0) {
		t := ae.Term(rc.Val)
		if t == "dyn arg0("+p0+")" {
			nApply++
			if fw.CaseReachable(am, rc, errIsNil) {
				m2 = append(m2, "the function is applied on a path where the producer's error was not seen to be nil (nil value)")
			}
			continue
		}
		if strings.HasPrefix(t, "dyn arg0(") {
			m2 = append(m2, "the function is applied to "+t+", not to the produced value")
			continue
		}
		if fw.CaseReachable(am, rc, errNonNil) {
			m2 = append(m2, "returns "+t+" instead of applying the function although the producer succeeded")
		}
	}
	if nApply == 0 {
		m2 = append(m2, "never applies the function to the produced value")
	}
	ru.Check(len(m2) == 0, key, c.pos(am), "fn(produced value) iff the producer succeeded", strings.Join(uniq(m2), "; "))
}

// ---------------------------------------------------------------------------
// C08.togojq: raw scalar decode values

// checkRawToGoJQ: the option-aware conversion of a scalar decode value uses the binary form (exact bytes)
// only for a value marked raw whose scalar is not synthetic, with the caller's options; every other value
// marked raw falls back to the wrapped value.
func (c *c08ctx) checkRawToGoJQ(ru *fw.Rule, w *types.Named, f *ssa.Function) {
	key := tname(w) + ".ToGoJQEx:raw"
	e := c.env(f)
	isSynth := func(cd fw.Cond) bool { return strings.Contains(e.Term(cd.Val), "IsSynthetic(") }
	var msgs []string
	nBin := 0
	for _, rc := range fw.ReturnCases(f, 0) {
		t := e.Term(rc.Val)
		call, isCall := fw.Resolve(rc.Val).(*ssa.Call)
		isBin := false
		if isCall {
			if cf := call.Common().StaticCallee(); cf != nil && cf.Name() == "JQValueToGoJQEx" && pkgRel(cf) == "pkg/interp" {
				isBin = true
				nBin++
				args := call.Common().Args
				if len(args) != 2 || e.Term(args[1]) != "arg0" {
					msgs = append(msgs, "the binary form is converted with other options than the caller's")
				}
				if len(args) >= 1 && !strings.Contains(e.Term(args[0]), "ToBinary(recv.") {
					msgs = append(msgs, "converts "+e.Term(args[0])+", not the binary of the receiver's own decode value")
				}
			}
		}
		switch {
		case isBin:
			if fw.CaseReachable(f, rc, func(cd fw.Cond) bool { return !cd.True && isSynth(cd) }) {
				msgs = append(msgs, "the binary form is used on a path where the scalar was not seen to be non-synthetic (a synthetic value has no bits: tovalue fails)")
			}
			if fw.CaseReachable(f, rc, func(cd fw.Cond) bool { return cd.True && e.Term(cd.Val) == "recv.isRaw" }) {
				msgs = append(msgs, "the binary form is used for a value not marked raw")
			}
		case t == "invoke recv.JQValue.JQValueToGoJQ()":
			if fw.CaseReachable(f, rc, func(cd fw.Cond) bool {
				tt := e.Term(cd.Val)
				return (!cd.True && tt == "recv.isRaw") || (cd.True && isSynth(cd)) || (!cd.True && strings.HasSuffix(tt, ".ok"))
			}) {
				msgs = append(msgs, "a raw, non-synthetic value is converted through its text form: bytes that are not valid UTF-8 are lost")
			}
		}
	}
	if nBin == 0 {
		msgs = append(msgs, "raw values are never converted through their binary form")
	}
	ru.Check(len(msgs) == 0, key, c.pos(f), "binary form iff raw and not synthetic", strings.Join(uniq(msgs), "; "))
}
