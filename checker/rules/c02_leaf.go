package rules

import (
	"fmt"
	"go/types"
	"regexp"
	"sort"
	"strconv"
	"strings"

	"golang.org/x/tools/go/ssa"

	"fqverif/fw"
)

// c02Lf evaluates facts about one anchored function. Facts are comparisons of the canonical form
// (fw.Sx) of a call argument, a returned value or a guard with the form the reader's contract
// requires; parameters are p0.. by position, so local renames, reordering, if<->switch and
// extracted temporaries do not matter.
type c02Lf struct {
	c    *c02
	ru   *fw.Rule
	name string
	fn   *ssa.Function
	env  *fw.SxEnv
	pos  string
	al   map[ssa.Value]string
	dead bool
}

func (c *c02) lfOf(ru *fw.Rule, full, short string) *c02Lf {
	fn := c.p.Fn(full)
	if fn == nil || fn.Blocks == nil {
		ru.Undecided(short+":anchor", "", "function "+full+" not found")
		return &c02Lf{c: c, ru: ru, name: short, dead: true}
	}
	env := fw.NewSxEnv(fn)
	env.InlinePure = true
	env.KeepNarrowing = true
	env.NoInline = func(f *ssa.Function) bool { return c02LeafNames[f.Name()] }
	return &c02Lf{c: c, ru: ru, name: short, fn: fn, env: env, pos: c.p.Rel(fn.Pos()), al: map[ssa.Value]string{}}
}

func (l *c02Lf) alias(v ssa.Value, name string) {
	if v == nil {
		return
	}
	l.al[v] = name
	l.env = l.env.With(l.al)
}

func (l *c02Lf) calls(callee string) []*ssa.Call {
	var out []*ssa.Call
	if l.dead {
		return nil
	}
	fw.EachInstr(l.fn, func(ins ssa.Instruction) {
		if c, ok := ins.(*ssa.Call); ok && fw.SxCallee(c.Common()) == callee {
			out = append(out, c)
		}
	})
	return out
}

// one returns the single call of callee in the function, aliased to name.
func (l *c02Lf) one(callee, name string) *ssa.Call {
	if l.dead {
		return nil
	}
	cs := l.calls(callee)
	if len(cs) != 1 {
		l.ru.Undecided(l.name+":call:"+callee, l.pos, fmt.Sprintf("%d calls of %s (the rule expects exactly one)", len(cs), callee))
		return nil
	}
	if name != "" {
		l.alias(cs[0], name)
	}
	return cs[0]
}

func (l *c02Lf) args(c *ssa.Call) string {
	var a []string
	cc := c.Common()
	if cc.IsInvoke() {
		a = append(a, l.env.Of(cc.Value))
	}
	for _, x := range cc.Args {
		a = append(a, l.env.Of(x))
	}
	return strings.Join(a, " ")
}

// c02BufForms: the accepted spellings of "a byte buffer of exactly ceil(nBits/8) bytes".
var c02BufForms = []string{
	"(call (*pkg/decode.D).SharedReadBuf recv (call pkg/bitio.BitsByteCount p0))",
	"(slice (call (*pkg/decode.D).SharedReadBuf recv (call pkg/bitio.BitsByteCount p0)) 0 (call pkg/bitio.BitsByteCount p0) _)",
	"(slice (call (*pkg/decode.D).SharedReadBuf recv (call pkg/bitio.BitsByteCount p0)) 0 (call pkg/bitio.BitsByteCount p0) _)",
	"(make []byte (call pkg/bitio.BitsByteCount p0) (call pkg/bitio.BitsByteCount p0))",
}

func (l *c02Lf) oneOf(fact, got, what string, wants ...string) bool {
	for _, w := range wants {
		if got == w {
			l.ru.Ok(l.name+":"+fact, l.pos, got)
			return true
		}
	}
	l.ru.Fail(l.name+":"+fact, l.pos, what+": is "+got+", must be one of "+strings.Join(wants, " / "))
	return false
}

// passThrough: the function hands back value wantVal and the error of call r: every return that
// is not a freshly made error returns wantVal unless r's error is known non-nil, and returns r's
// error unless it is known nil.
func (l *c02Lf) passThrough(fact string, r *ssa.Call, wantVal, what string) {
	if l.dead || r == nil {
		return
	}
	idx := r.Common().Signature().Results().Len() - 1
	e := "(#" + strconv.Itoa(idx) + " " + l.env.Of(r) + ")"
	n := 0
	for _, ret := range l.returns() {
		if len(ret.res) != 2 || strings.Contains(ret.res[1], "fmt.Errorf") {
			continue
		}
		n++
		errKnown := l.env.HasGuard(ret.b, "+(!= "+e+" nil)") || l.env.HasGuard(ret.b, "-(== "+e+" nil)")
		okKnown := l.env.HasGuard(ret.b, "-(!= "+e+" nil)") || l.env.HasGuard(ret.b, "+(== "+e+" nil)")
		if !(ret.res[0] == wantVal || errKnown) {
			l.ru.Fail(l.name+":"+fact, l.pos, what+": returns "+ret.res[0]+", must return "+wantVal)
			return
		}
		if !(ret.res[1] == e || (ret.res[1] == "nil" && okKnown)) {
			l.ru.Fail(l.name+":"+fact, l.pos, what+": returns error "+ret.res[1]+", must return "+e)
			return
		}
	}
	if n == 0 {
		l.ru.Fail(l.name+":"+fact, l.pos, what+": no return hands back the result")
		return
	}
	l.ru.Ok(l.name+":"+fact, l.pos, wantVal+", "+e)
}

func (l *c02Lf) eq(fact, got, want, what string) bool {
	return l.ru.Check(got == want, l.name+":"+fact, l.pos, got, what+": is "+got+", must be "+want)
}

// argsAre checks the canonical argument list of a call.
func (l *c02Lf) argsAre(fact string, c *ssa.Call, want, what string) {
	if l.dead || c == nil {
		return
	}
	l.eq(fact, l.args(c), want, what)
}

// guarded checks that one of the wanted guards holds at the call's block.
func (l *c02Lf) guarded(fact string, b *ssa.BasicBlock, what string, wants ...string) bool {
	if l.dead || b == nil {
		return false
	}
	for _, w := range wants {
		if l.env.HasGuard(b, w) {
			l.ru.Ok(l.name+":"+fact, l.pos, w)
			return true
		}
	}
	l.ru.Fail(l.name+":"+fact, l.pos, what+": none of "+strings.Join(wants, " / ")+" holds there; known: "+strings.Join(l.env.GuardSx(b), " "))
	return false
}

type c02LfRet struct {
	b   *ssa.BasicBlock
	res []string
	raw []ssa.Value
}

func (l *c02Lf) returns() []c02LfRet {
	var out []c02LfRet
	if l.dead {
		return nil
	}
	for _, b := range l.fn.Blocks {
		if r, ok := b.Instrs[len(b.Instrs)-1].(*ssa.Return); ok {
			x := c02LfRet{b: b, raw: r.Results}
			for _, v := range r.Results {
				x.res = append(x.res, l.env.Of(v))
			}
			out = append(out, x)
		}
	}
	return out
}

// successValue: the canonical first result over all returns whose error result is nil
// (joined, sorted) — "what the reader returns when it succeeds".
func (l *c02Lf) successValues() ([]string, []c02LfRet) {
	var vals []string
	var rs []c02LfRet
	for _, r := range l.returns() {
		if len(r.res) == 1 || (len(r.res) >= 2 && r.res[len(r.res)-1] == "nil") {
			vals = append(vals, r.res[0])
			rs = append(rs, r)
			continue
		}
		// `return f(v), err` with the error of a call handed on unexamined: the value is what
		// the caller sees whenever that error is nil
		if e := r.res[len(r.res)-1]; len(r.res) == 2 && strings.HasPrefix(e, "(#") && c02IsErrorType(r.raw[1].Type()) &&
			!l.env.HasGuard(r.b, "+(!= "+e+" nil)") && !l.env.HasGuard(r.b, "-(== "+e+" nil)") && !strings.HasPrefix(r.res[0], "(#0 "+e[4:]) {
			vals = append(vals, r.res[0])
			rs = append(rs, r)
		}
	}
	sort.Strings(vals)
	return vals, rs
}

func (l *c02Lf) successIs(fact, want, what string) {
	if l.dead {
		return
	}
	vals, _ := l.successValues()
	l.eq(fact, strings.Join(vals, " || "), want, what)
}

// c02LfChoice is one way a reader can succeed: the value returned and the guards it is returned under
// (a return of a phi counts as one choice per incoming edge, so `if c {x=a} else {x=b}; return x`
// and `if c {return a}; return b` are the same two choices).
type c02LfChoice struct {
	val    string
	guards []string
}

func (l *c02Lf) successChoices() []c02LfChoice {
	var out []c02LfChoice
	_, rs := l.successValues()
	for _, r := range rs {
		if ph := c02PhiOf(r.raw[0]); ph != nil && strings.HasPrefix(r.res[0], "phi{") {
			seen := map[string]bool{}
			for _, ed := range ph.Edges {
				v := l.env.Of(ed)
				if seen[v] {
					continue
				}
				seen[v] = true
				gs, _ := l.env.EdgeGuards(ph, v)
				out = append(out, c02LfChoice{v, append(gs, l.env.GuardSx(r.b)...)})
			}
			continue
		}
		out = append(out, c02LfChoice{r.res[0], l.env.GuardSx(r.b)})
	}
	return out
}

// successSetIs: the set of values the reader can return on success.
func (l *c02Lf) successSetIs(fact string, what string, want ...string) {
	if l.dead {
		return
	}
	set := map[string]bool{}
	for _, c := range l.successChoices() {
		set[c.val] = true
	}
	var got []string
	for v := range set {
		got = append(got, v)
	}
	sort.Strings(got)
	sort.Strings(want)
	l.eq(fact, strings.Join(got, " || "), strings.Join(want, " || "), what)
}

// choiceGuarded: value val is returned only under one of the wanted guards.
func (l *c02Lf) choiceGuarded(fact, val, what string, wants ...string) {
	if l.dead {
		return
	}
	n := 0
	for _, c := range l.successChoices() {
		if c.val != val {
			continue
		}
		n++
		if !c02HasAny(c.guards, wants...) {
			l.ru.Fail(l.name+":"+fact, l.pos, what+": "+val+" is returned under "+strings.Join(c.guards, " ")+", must be under "+strings.Join(wants, " / "))
			return
		}
	}
	if n == 0 {
		l.ru.Fail(l.name+":"+fact, l.pos, what+": "+val+" is never returned")
		return
	}
	l.ru.Ok(l.name+":"+fact, l.pos, wants[0])
}

func c02LeGuard(c *c02, p string) []string {
	return []string{"+(== " + c.le + " " + p + ")", "-(!= " + c.le + " " + p + ")", "-(== " + c.be + " " + p + ")", "+(!= " + c.be + " " + p + ")"}
}

// c02PhiOf finds the phi behind v (through integer conversions).
func c02PhiOf(v ssa.Value) *ssa.Phi {
	ph, _ := fw.SxStripConv(v).(*ssa.Phi)
	return ph
}

func (l *c02Lf) edgeGuarded(fact string, phi *ssa.Phi, edge string, what string, wants ...string) {
	if l.dead {
		return
	}
	if phi == nil {
		l.ru.Undecided(l.name+":"+fact, l.pos, what+": value is not a two-way choice any more")
		return
	}
	gs, ok := l.env.EdgeGuards(phi, edge)
	if !ok {
		l.ru.Fail(l.name+":"+fact, l.pos, what+": no branch yields "+edge)
		return
	}
	for _, w := range wants {
		for _, g := range gs {
			if g == w {
				l.ru.Ok(l.name+":"+fact, l.pos, w)
				return
			}
		}
	}
	l.ru.Fail(l.name+":"+fact, l.pos, what+": "+edge+" is chosen under "+strings.Join(gs, " ")+", must be under "+strings.Join(wants, " / "))
}

const c02DM = "(*pkg/decode.D)."

// c02SxC builds a commutative canonical node the way fw.Sx orders operands.
func c02SxC(op, a, b string) string {
	if a > b {
		a, b = b, a
	}
	return "(" + op + " " + a + " " + b + ")"
}

func c02SxPhi(items ...string) string {
	sort.Strings(items)
	return "phi{" + strings.Join(items, " | ") + "}"
}

func (c *c02) leafRules() {
	c.leafFacts()
	c.guardFacts()
	c.lebFacts()
	c.floatFacts()
	c.errRule()
	c.posRule()
}

// ---------------------------------------------------------------------------
// C02.leaf

func (c *c02) leafFacts() {
	ru := c.r.Rule("C02.leaf", "each hand-written leaf reader / primitive reads exactly the bits its parameters say (argument normal forms of its read calls), byte-reverses under little endian only, and returns the contract's function of what was read (two's complement, 2^-fBits scaling, big.Int alignment shift, unary count, text slice bounds); conditional steps (byte reversal, sign correction, NUL cut, fixed-size choice, buffer growth, match exit of the terminator search) are taken exactly under their contract's condition and under no further one; truncating conversions and shifts narrower than 64 bits are part of the compared forms", 75)

	// tryUEndian
	{
		l := c.lfOf(ru, c02DM+"tryUEndian", "tryUEndian")
		r := l.one(c02DM+"TryUintBits", "R")
		l.argsAre("read", r, "recv p0", "bits read")
		rev := l.one("pkg/bitio.ReverseBytes64", "REV")
		l.argsAre("rev-args", rev, "p0 (#0 R)", "byte reversal operands (width, value)")
		if rev != nil {
			l.guarded("rev-le", rev.Block(), "byte reversal must happen exactly for little endian", c02LeGuard(c, "p1")...)
			l.onlyWhen("rev-le-only", rev.Block(), "byte reversal must happen for every little endian read", nil, c02LeGuard(c, "p1")...)
		}
		l.successSetIs("value", "value returned", "(#0 R)", "REV")
	}
	// tryFPEndian
	{
		l := c.lfOf(ru, c02DM+"tryFPEndian", "tryFPEndian")
		r := l.one(c02DM+"TryUintBits", "R")
		l.argsAre("read", r, "recv p0", "bits read")
		rev := l.one("pkg/bitio.ReverseBytes64", "REV")
		l.argsAre("rev-args", rev, "p0 (#0 R)", "byte reversal operands (width, value)")
		if rev != nil {
			l.guarded("rev-le", rev.Block(), "byte reversal must happen exactly for little endian", c02LeGuard(c, "p2")...)
			l.onlyWhen("rev-le-only", rev.Block(), "byte reversal must happen for every little endian read", nil, c02LeGuard(c, "p2")...)
		}
		l.successIs("value", "(/ (conv float64 phi{(#0 R) | REV}) (conv float64 (<< 1 p1)))", "fixed point value = integer / 2^fBits")
	}
	// trySEndian
	{
		l := c.lfOf(ru, c02DM+"trySEndian", "trySEndian")
		r := l.one(c02DM+"tryUEndian", "R")
		l.argsAre("read", r, "recv p0 p1", "unsigned read (width, endian)")
		neg := "-1 + -1*(& (^ (#0 R)) -1 + (<< 1 p0))"
		if vals, _ := l.successValues(); !l.dead && strings.Join(vals, " || ") == "(call internal/mathx.TwosComplement p0 (#0 R))" {
			// delegated to mathx.TwosComplement, which is held to the same contract below
			l.ru.Ok(l.name+":value", l.pos, "mathx.TwosComplement(nBits, n)")
			l.ru.Ok(l.name+":neg-when-sign", l.pos, "see TwosComplement:neg-when-sign")
			l.ru.Ok(l.name+":pos-when-nosign", l.pos, "see TwosComplement:pos-when-nosign")
		} else {
			l.successSetIs("value", "two's complement value", neg, "(#0 R)")
			sign := "(> (& (#0 R) (<< 1 -1 + p0)) 0)"
			sign2 := "(!= (& (#0 R) (<< 1 -1 + p0)) 0)"
			l.choiceGuarded("neg-when-sign", neg, "negative branch", "+"+sign, "+"+sign2)
			l.choiceGuarded("pos-when-nosign", "(#0 R)", "non-negative branch", "-"+sign, "-"+sign2)
		}
	}
	// mathx.TwosComplement (same contract, anchored in num.go)
	{
		l := c.lfOf(ru, "internal/mathx.TwosComplement", "TwosComplement")
		if !l.dead {
			sign := "(> (& (<< 1 -1 + p0) p1) 0)"
			sign2 := "(!= (& (<< 1 -1 + p0) p1) 0)"
			neg := "-1 + -1*(& (^ p1) -1 + (<< 1 p0))"
			l.successSetIs("value", "two's complement of the low nBits", neg, "p1")
			l.choiceGuarded("neg-when-sign", neg, "negative branch", "+"+sign, "+"+sign2)
			l.choiceGuarded("pos-when-nosign", "p1", "non-negative branch", "-"+sign, "-"+sign2)
		}
	}
	// tryBigIntEndianSign
	{
		l := c.lfOf(ru, c02DM+"tryBigIntEndianSign", "tryBigIntEndianSign")
		r := l.one("pkg/bitio.ReadFull", "")
		if r != nil {
			l.alias(r.Common().Args[1], "BUF")
			l.alias(r, "R")
			l.oneOf("buf", c02WithoutAlias(l, r.Common().Args[1]), "buffer of exactly ceil(nBits/8) bytes", c02BufForms...)
			l.argsAre("read", r, "recv.bitBuf BUF p0", "ReadFull(reader, buffer, nBits)")
		}
		rev := l.oneReverse()
		l.argsAre("rev-args", rev, "BUF", "bytes reversed")
		if rev != nil {
			l.guarded("rev-le", rev.Block(), "byte reversal must happen exactly for little endian", c02LeGuard(c, "p1")...)
			l.onlyWhen("rev-le-only", rev.Block(), "byte reversal must happen for every little endian read", nil, c02LeGuard(c, "p1")...)
		}
		if rsh := l.one("(*math/big.Int).Rsh", ""); rsh != nil {
			// the integer being built: big.Int methods return their receiver, so every call in the
			// chain is another name of the same integer
			root := c02BigRoot(rsh.Common().Args[0])
			if _, ok := root.(*ssa.Alloc); ok {
				l.alias(root, "N")
				fw.EachInstr(l.fn, func(ins ssa.Instruction) {
					if cl, ok := ins.(*ssa.Call); ok && strings.HasPrefix(fw.SxCallee(cl.Common()), "(*math/big.Int).") && len(cl.Common().Args) > 0 && c02BigRoot(cl.Common().Args[0]) == root && types.Identical(cl.Type(), rsh.Type()) {
						l.alias(cl, "N") // the methods that return their receiver (not Bit, Sign, ...)
					}
				})
			}
			l.argsAre("rsh", rsh, "N N (% 8 + -1*(% p0 8) 8)", "right-alignment shift of the big integer = (8 - nBits%8) % 8 padding bits")
			uns := l.one("(*math/big.Int).SetBytes", "")
			l.argsAre("unsigned-args", uns, "N BUF", "magnitude conversion operands")
			if uns != nil {
				l.ru.Check(c02BlockReaches(uns.Block(), rsh.Block()) && (uns.Block() != rsh.Block() || c02InstrBefore(uns, rsh)) && (uns.Block() == rsh.Block() || !c02BlockReaches(rsh.Block(), uns.Block())), l.name+":order-unsigned", l.pos, "conversion precedes the shift", "conversion must precede the alignment shift")
				if rev != nil {
					l.ru.Check(c02BlockReaches(rev.Block(), uns.Block()), l.name+":order-rev", l.pos, "reversal precedes conversion", "byte reversal must precede the conversion")
				}
			}
			if len(l.calls("internal/mathx.BigIntSetBytesSigned")) > 0 {
				// form A: sign taken from the top bit of the padded buffer, before the shift (arithmetic shift keeps it)
				sgn := l.one("internal/mathx.BigIntSetBytesSigned", "")
				l.argsAre("signed-args", sgn, "N BUF", "signed conversion operands")
				if sgn != nil {
					l.guarded("signed-when-sign", sgn.Block(), "two's complement conversion must be used exactly for signed reads", "+p2")
					l.onlyWhen("signed-only", sgn.Block(), "two's complement conversion must be used for every signed read", nil, "+p2")
					l.ru.Check(c02BlockReaches(sgn.Block(), rsh.Block()) && !c02BlockReaches(rsh.Block(), sgn.Block()), l.name+":order-signed", l.pos, "conversion precedes the shift", "sign conversion must precede the alignment shift (sign is the top bit of the padded buffer)")
					if rev != nil {
						l.ru.Check(c02BlockReaches(rev.Block(), sgn.Block()), l.name+":order-rev-signed", l.pos, "reversal precedes conversion", "byte reversal must precede the conversion")
					}
				}
				if uns != nil {
					l.guarded("unsigned-when-nosign", uns.Block(), "plain conversion must be used exactly for unsigned reads", "-p2")
				}
			} else {
				// form B: right-align the magnitude first, then correct by the modulus when the sign bit
				// of the aligned value is set (which modulus: C02.twos)
				subs := l.calls("(*math/big.Int).Sub")
				if len(subs) != 1 {
					l.ru.Undecided(l.name+":signed", l.pos, "neither mathx.BigIntSetBytesSigned nor a single modulus subtraction: sign handling not recognised")
				} else {
					sub := subs[0]
					l.guarded("signed-when-sign", sub.Block(), "two's complement correction must be applied exactly for signed reads", "+p2")
					l.onlyWhen("signed-only", sub.Block(), "two's complement correction must be applied to every signed read with the sign bit set", func(g string) bool {
						if strings.Contains(g, "(*math/big.Int).Bit ") {
							return true // which bit is tested: C02.twos
						}
						// a width check that holds for every width >= 1 excludes nothing
						for _, v := range []int64{1, 2, 7, 8, 9, 63, 64, 65, 512} {
							r, ok := fw.SxEval(g[1:], map[string]int64{"p0": v})
							if !ok || (r != 0) != (g[0] == '+') {
								return false
							}
						}
						return true
					}, "+p2")
					l.ru.Check(l.env.Of(sub.Common().Args[0]) == "N" && l.env.Of(sub.Common().Args[1]) == "N", l.name+":signed-args", l.pos, "n = n - modulus", "the modulus must be subtracted from the integer being built")
					l.ru.Check(c02BlockReaches(rsh.Block(), sub.Block()) && (rsh.Block() != sub.Block() || c02InstrBefore(rsh, sub)), l.name+":order-signed", l.pos, "shift precedes the correction", "with the sign bit tested at nBits-1 the correction must follow the alignment shift")
				}
			}
		}
		l.successIs("value", "N", "value returned")
	}
	// mathx.BigIntSetBytesSigned
	{
		l := c.lfOf(ru, "internal/mathx.BigIntSetBytesSigned", "BigIntSetBytesSigned")
		set := l.one("(*math/big.Int).SetBytes", "")
		l.argsAre("set", set, "p0 p1", "magnitude")
		lsh := l.one("(*math/big.Int).Lsh", "M")
		sub := l.one("(*math/big.Int).Sub", "")
		if lsh != nil && sub != nil {
			l.eq("modulus", l.env.Of(lsh.Common().Args[1])+" << "+l.env.Of(lsh.Common().Args[2]), "g:mathx.BigIntOne << 8*(len p1)", "two's complement modulus 2^(8*len(buf))")
			l.argsAre("sub", sub, "p0 p0 M", "n = n - 2^(8*len)")
			c02MsbGuarded(l, sub.Block())
			if set != nil {
				l.ru.Check(c02BlockReaches(set.Block(), sub.Block()) || set.Block() == sub.Block(), l.name+":order", l.pos, "SetBytes precedes Sub", "SetBytes must precede the subtraction")
			}
		}
		vals := map[string]bool{}
		for _, r := range l.returns() {
			// big.Int methods return their receiver
			vals[l.env.Of(c02BigRoot(r.raw[0]))] = true
		}
		l.eq("value", strings.Join(fw.SortedKeys(vals), " || "), "p0", "returned integer")
	}
	// bigint constant
	{
		ok := false
		msg := "mathx.BigIntOne initialiser not found"
		if init := c.p.Fn("internal/mathx.init"); init != nil {
			env := fw.NewSxEnv(init)
			fw.EachInstr(init, func(ins ssa.Instruction) {
				if st, isSt := ins.(*ssa.Store); isSt {
					if g, isG := st.Addr.(*ssa.Global); isG && g.Name() == "BigIntOne" {
						s := env.Of(st.Val)
						ok = s == "(call math/big.NewInt 1)"
						msg = "mathx.BigIntOne = " + s
					}
				}
			})
		}
		ru.Check(ok, "BigIntOne:value", "", "big.NewInt(1)", msg+", must be big.NewInt(1)")
	}
	// ReverseBytes (slice form)
	{
		l := c.lfOf(ru, "pkg/decode.ReverseBytes", "ReverseBytes")
		if !l.dead {
			c02ReverseInPlace(l)
		}
	}
	// tryBool
	{
		l := c.lfOf(ru, c02DM+"tryBool", "tryBool")
		r := l.one(c02DM+"TryUintBits", "R")
		l.argsAre("read", r, "recv 1", "bits read")
		{
			vals, _ := l.successValues()
			got := strings.Join(vals, " || ")
			// one bit was read: == 1, != 0 and > 0 are the same predicate
			l.ru.Check(got == "(== (#0 R) 1)" || got == "(== 1 (#0 R))" || got == "(!= (#0 R) 0)" || got == "(!= 0 (#0 R))" || got == "(> (#0 R) 0)", l.name+":value", l.pos, got, "boolean value: is "+got+", must be (== (#0 R) 1)")
		}
	}
	// tryUnary
	{
		l := c.lfOf(ru, c02DM+"tryUnary", "tryUnary")
		r := l.one(c02DM+"TryUintBits", "R")
		l.argsAre("read", r, "recv 1", "bits read per step")
		l.successIs("value", "phi{0 | 1 + @0}", "count of leading ov bits (starts at 0, +1 per matching bit)")
		_, rs := l.successValues()
		if len(rs) == 1 {
			l.guarded("stop-on-mismatch", rs[0].b, "the count is returned when the bit differs from ov", "+(!= (#0 R) p0)", "-(== (#0 R) p0)")
		}
	}
	// tryText
	{
		l := c.lfOf(ru, c02DM+"tryText", "tryText")
		r := l.one(c02DM+"TryBytesLen", "R")
		l.argsAre("read", r, "recv p0", "bytes read")
		l.decodeIs("(conv string (#0 R))", "p1")
	}
	// tryTextNullLen
	{
		l := c.lfOf(ru, c02DM+"tryTextNullLen", "tryTextNullLen")
		r := l.one(c02DM+"TryBytesLen", "R")
		l.argsAre("read", r, "recv p0", "bytes read")
		cut := "(slice (#0 R) 0 (call bytes.IndexByte (#0 R) 0) _)"
		s := l.decodeIs("(conv string phi{(#0 R) | "+cut+"})", "p1")
		if s != nil {
			if cv, ok := s.Common().Args[1].(*ssa.Convert); ok {
				l.edgeGuarded("cut-when-found", c02PhiOf(cv.X), cut, "truncation at the first NUL", "+"+c02SxC("!=", "-1", "(call bytes.IndexByte (#0 R) 0)"), "+(>= (call bytes.IndexByte (#0 R) 0) 0)", "-"+c02SxC("==", "-1", "(call bytes.IndexByte (#0 R) 0)"))
				ix := "(call bytes.IndexByte (#0 R) 0)"
				l.edgesExactly("cut-iff-found", c02PhiOf(cv.X), "the text is cut at the first NUL exactly when there is one", map[string][]string{
					cut:      {"+" + c02SxC("!=", "-1", ix), "+(>= " + ix + " 0)", "-" + c02SxC("==", "-1", ix), "+(> " + ix + " -1)"},
					"(#0 R)": {"-" + c02SxC("!=", "-1", ix), "-(>= " + ix + " 0)", "+" + c02SxC("==", "-1", ix), "-(> " + ix + " -1)", "+(> 0 " + ix + ")"},
				})
			}
		}
	}
	// tryTextNull
	{
		l := c.lfOf(ru, c02DM+"tryTextNull", "tryTextNull")
		pf := l.one(c02DM+"TryPeekFind", "P")
		l.argsAre("find", pf, "recv 8*p0 8*p0 -1 (lambda (== 0 q0))", "search for an all-zero code unit of charBytes bytes, stepping one code unit, unbounded")
		r := l.one(c02DM+"TryBytesLen", "R")
		l.argsAre("read", r, "recv (/ (#0 P) 8) + p0", "bytes consumed = text + terminator")
		l.decodeIs("(conv string (slice (#0 R) 0 (/ (#0 P) 8) _))", "p1")
	}
	// tryTextLenPrefixed
	{
		l := c.lfOf(ru, c02DM+"tryTextLenPrefixed", "tryTextLenPrefixed")
		lp := l.one(c02DM+"TryUintBits", "L")
		l.argsAre("prefix", lp, "recv 8*p0", "length prefix width")
		r := l.one(c02DM+"TryBytesLen", "R")
		l.argsAre("read", r, "recv phi{(#0 L) | -1*p0 + p1}", "bytes read = prefix value, or fixedBytes - prefixLenBytes")
		if r != nil {
			l.edgeGuarded("fixed-when-set", c02PhiOf(r.Common().Args[1]), "-1*p0 + p1", "fixed length is used", "+(!= -1 p1)", "-(== -1 p1)")
			l.edgesExactly("fixed-iff-set", c02PhiOf(r.Common().Args[1]), "bytes read: the prefix value exactly when no fixed size is given", map[string][]string{
				"-1*p0 + p1": {"+(!= -1 p1)", "-(== -1 p1)"},
				"(#0 L)":     {"-(!= -1 p1)", "+(== -1 p1)"},
			})
		}
		alt := ""
		if !l.dead {
			if s := l.calls("(*golang.org/x/text/encoding.Decoder).String"); len(s) == 1 {
				if cv, ok := s[0].Common().Args[1].(*ssa.Convert); ok {
					if sl, ok := cv.X.(*ssa.Slice); ok && sl.High != nil {
						// min(lenBytes, readBytes) written with a branch: same obligation, decided on the edges
						if l.minByBranches(c02PhiOf(sl.High), "(#0 L)", "-1*p0 + p1", "-(!= -1 p1)", "+(== -1 p1)") {
							alt = "(conv string (slice (#0 R) 0 phi{(#0 L) | -1*p0 + p1} _))"
						}
					}
				}
			}
		}
		if alt != "" {
			l.decodeIs(alt, "p2")
		} else {
			l.decodeIs("(conv string (slice (#0 R) 0 phi{(#0 L) | (min (#0 L) -1*p0 + p1)} _))", "p2")
		}
	}
	// TryPeekFind (the terminator search of null-terminated text)
	{
		l := c.lfOf(ru, c02DM+"TryPeekFind", "TryPeekFind")
		if !l.dead {
			u := l.one(c02DM+"TryU", "U")
			l.argsAre("read", u, "recv p0", "bits compared per step")
			var start *ssa.Call
			for _, ins := range l.fn.Blocks[0].Instrs {
				if cl, ok := ins.(*ssa.Call); ok {
					start = cl
					break
				}
			}
			if start != nil && u != nil {
				l.alias(start, "START")
				// the running offset: a loop-carried phi in the block of the read
				var cnt *ssa.Phi
				fw.EachInstr(l.fn, func(ins ssa.Instruction) {
					if ph, ok := ins.(*ssa.Phi); ok && cnt == nil && l.env.Of(ph) == c02SxPhi("@0 + p1", c02SxPhi("-1*p0", "0")) {
						cnt = ph
					}
				})
				if cnt == nil {
					l.ru.Fail(l.name+":offset", l.pos, "running offset is not: 0 (or -nBits when searching backwards), + seekBits per step")
				} else {
					l.ru.Ok(l.name+":offset", l.pos, "offset starts at 0 / -nBits and grows by seekBits")
					l.alias(cnt, "CNT")
					step := 0
					applied := false
					for _, cl := range l.calls("invoke:SeekBits") {
						if l.args(cl) == "recv.bitBuf (#0 START) + CNT + p1 0" {
							step++
						}
					}
					for _, cl := range l.calls("dyn") {
						if l.args(cl) == "(#0 U)" && l.env.Of(cl.Common().Value) == "p3" {
							applied = true
						}
					}
					l.ru.Check(step == 1, l.name+":step", l.pos, "next comparison at start + offset + seekBits", "after a mismatch the reader must seek to start + offset + seekBits (absolute)")
					l.ru.Check(applied, l.name+":match", l.pos, "fn(v) decides a match", "the predicate must be applied to the value just read")
					l.successSetIs("value", "offset of the match, or -1 when the bounded search ends", "-1", "CNT")
					c02PeekFindMatch(l, u)
				}
			}
		}
	}
	// tryBitBuf / TryBitBufLen
	{
		l := c.lfOf(ru, c02DM+"tryBitBuf", "tryBitBuf")
		r := l.one(c02DM+"TryBitBufLen", "R")
		l.argsAre("read", r, "recv p0", "bits")
		l.passThrough("value", r, "(#0 R)", "returned reader and error")
	}
	{
		l := c.lfOf(ru, c02DM+"TryBitBufLen", "TryBitBufLen")
		ps := l.one(c02DM+"TryPos", "POS")
		rg := l.one(c02DM+"TryBitBufRange", "RG")
		l.argsAre("range", rg, "recv (#0 POS) p0", "sub-reader covers [pos, pos+nBits)")
		sk := l.one(c02DM+"TrySeekRel", "SK")
		l.argsAre("advance", sk, "recv p0 nil", "position advances by nBits")
		l.successIs("value", "(#0 RG)", "returned reader")
		if ps != nil && rg != nil && sk != nil {
			l.ru.Check(c02BlockReaches(rg.Block(), sk.Block()), l.name+":order", l.pos, "range is taken before advancing", "the range must be taken at the position before advancing")
		}
	}
	// TryBits / TryUintBits / SharedReadBuf / TryBytesLen
	{
		l := c.lfOf(ru, c02DM+"TryBits", "TryBits")
		r := l.one("pkg/bitio.ReadFull", "")
		if r != nil {
			l.alias(r.Common().Args[1], "BUF")
			l.alias(r, "R")
			l.oneOf("buf", c02WithoutAlias(l, r.Common().Args[1]), "buffer of exactly ceil(nBits/8) bytes", c02BufForms...)
			l.argsAre("read", r, "recv.bitBuf BUF p0", "ReadFull(reader, buffer, nBits)")
		}
		vals, _ := l.successValues()
		got := strings.Join(vals, " || ")
		l.ru.Check(got == "BUF" || got == "(slice BUF 0 _ _)", l.name+":value", l.pos, got, "returns "+got+", must return the buffer that was read into")
	}
	{
		l := c.lfOf(ru, c02DM+"TryUintBits", "TryUintBits")
		r := l.one(c02DM+"TryBits", "R")
		l.argsAre("read", r, "recv p0", "bits read")
		vals, _ := l.successValues()
		got := strings.Join(vals, " || ")
		l.ru.Check(got == "(call pkg/bitio.Read64 (slice (#0 R) 0 _ _) 0 p0)" || got == "(call pkg/bitio.Read64 (#0 R) 0 p0)", l.name+":value", l.pos, got, "returns "+got+", must be Read64(buf, 0, nBits) (the first nBits, MSB first)")
	}
	{
		l := c.lfOf(ru, c02DM+"SharedReadBuf", "SharedReadBuf")
		if !l.dead {
			var vals []string
			for _, r := range l.returns() {
				vals = append(vals, r.res[0])
			}
			l.eq("value", strings.Join(vals, " || "), "(slice (load recv.readBuf) 0 p0 _)", "returned slice has length n")
			var mk *ssa.MakeSlice
			fw.EachInstr(l.fn, func(ins ssa.Instruction) {
				if m, ok := ins.(*ssa.MakeSlice); ok {
					mk = m
				}
			})
			if mk == nil {
				l.ru.Undecided(l.name+":grow", l.pos, "no reallocation found")
			} else {
				l.eq("grow-len", l.env.Of(mk.Len), "p0", "reallocated length")
				l.guarded("grow-when-short", mk.Block(), "buffer is reallocated whenever it is shorter than n", "+(> p0 (len (load recv.readBuf)))", "-(>= (len (load recv.readBuf)) p0)")
				l.onlyWhen("grow-only", mk.Block(), "buffer must be reallocated whenever it is shorter than n", nil, "+(> p0 (len (load recv.readBuf)))", "-(>= (len (load recv.readBuf)) p0)")
			}
		}
	}
	{
		l := c.lfOf(ru, c02DM+"TryBytesLen", "TryBytesLen")
		r := l.one("pkg/bitio.ReadFull", "R")
		l.clampedCount(r, "(#0 (call (*pkg/decode.D).TryBitsLeft recv))")
		l.argsAre("read", r,"recv.bitBuf (make []byte p0 p0) 8*p0", "ReadFull(reader, fresh nBytes buffer, nBytes*8)")
		l.passThrough("value", r, "(make []byte p0 p0)", "returned buffer and error")
	}
	// BitsByteCount
	{
		l := c.lfOf(ru, "pkg/bitio.BitsByteCount", "BitsByteCount")
		if !l.dead {
			var got []string
			for _, x := range l.returns() {
				got = append(got, x.res[0])
			}
			s := strings.Join(got, " || ")
			if s == "(/ 7 + p0 8)" {
				l.ru.Ok(l.name+":value", l.pos, s)
			} else {
				// every way of producing the result, with the guards it is produced under
				var leaves []c02Leaf
				for _, r := range l.returns() {
					if ph := c02PhiOf(r.raw[0]); ph != nil && strings.HasPrefix(r.res[0], "phi{") {
						for _, lf := range l.phiLeaves(ph, 0) {
							leaves = append(leaves, c02Leaf{lf.val, append(lf.guards, l.env.GuardSx(r.b)...)})
						}
					} else {
						leaves = append(leaves, c02Leaf{r.res[0], l.env.GuardSx(r.b)})
					}
				}
				rem := "(% p0 8)"
				upG := []string{"+" + c02SxC("!=", rem, "0"), "+(> " + rem + " 0)", "-" + c02SxC("==", rem, "0")}
				downG := []string{"-" + c02SxC("!=", rem, "0"), "-(> " + rem + " 0)", "+" + c02SxC("==", rem, "0")}
				okForm, okUp, okDown := len(leaves) >= 2, true, true
				under := ""
				for _, lf := range leaves {
					switch lf.val {
					case "1 + (/ p0 8)":
						if !c02HasAny(lf.guards, upG...) {
							okUp = false
							under = strings.Join(lf.guards, " ")
						}
					case "(/ p0 8)":
						if !c02HasAny(lf.guards, downG...) {
							okDown = false
							under = strings.Join(lf.guards, " ")
						}
					default:
						okForm = false
					}
				}
				l.ru.Check(okForm, l.name+":value", l.pos, s, "BitsByteCount returns "+s+", must be ceil(nBits/8)")
				if okForm {
					l.ru.Check(okUp && okDown, l.name+":roundup-when-rem", l.pos, "rounds up exactly when nBits%8 != 0", "rounding is selected under "+under+", must round up exactly when nBits%8 != 0")
				}
			}
		}
	}
}

// c02WithoutAlias renders v without using its own alias (but with the others).
func c02WithoutAlias(l *c02Lf, v ssa.Value) string {
	al := map[ssa.Value]string{}
	for k, n := range l.al {
		if k != v {
			al[k] = n
		}
	}
	return l.env.With(al).Of(v)
}

// decodeIs checks that the reader returns enc.NewDecoder().String(arg) for the encoding parameter.
func (l *c02Lf) decodeIs(wantArg, encParam string) *ssa.Call {
	if l.dead {
		return nil
	}
	s := l.one("(*golang.org/x/text/encoding.Decoder).String", "")
	if s == nil {
		return nil
	}
	l.eq("decode-arg", l.env.Of(s.Common().Args[1]), wantArg, "bytes handed to the text decoder")
	l.eq("decode-enc", l.env.Of(s.Common().Args[0]), "(invoke NewDecoder "+encParam+")", "decoder used")
	l.alias(s, "S")
	var fin []string
	for _, r := range l.returns() {
		if len(r.res) == 2 && (strings.Contains(r.res[0], "S") || strings.Contains(r.res[1], "S")) {
			fin = append(fin, strings.Join(r.res, ", "))
		}
	}
	l.eq("decode-ret", strings.Join(fin, " || "), "(#0 S), (#1 S)", "decoded string and decoder error are returned")
	return s
}

// restoreOnError: the error exit of read call r seeks back to the position taken at entry.
func (l *c02Lf) restoreOnError(r *ssa.Call) {
	if l.dead || r == nil {
		return
	}
	idx := r.Common().Signature().Results().Len() - 1
	e := "(#" + strconv.Itoa(idx) + " " + l.env.Of(r) + ")"
	found := false
	for _, ret := range l.returns() {
		if len(ret.res) < 2 || ret.res[len(ret.res)-1] != e {
			continue
		}
		found = true
		ok := false
		for _, ins := range ret.b.Instrs {
			if cl, isCall := ins.(*ssa.Call); isCall && fw.SxCallee(cl.Common()) == c02DM+"SeekAbs" {
				if l.args(cl) == "recv (call (*pkg/decode.D).Pos recv) nil" {
					// the Pos() call must be the one made before any read
					if pc, isC := cl.Common().Args[1].(*ssa.Call); isC && l.firstDCall() == pc {
						ok = true
					}
				}
			}
		}
		l.ru.Check(ok, l.name+":restore", l.pos, "SeekAbs(entry position) before returning the read error", "a failed multi-step read must seek back to the position saved at entry before returning the error")
	}
	if !found {
		l.ru.Fail(l.name+":restore", l.pos, "the read error "+e+" is not returned")
	}
}

// firstDCall: the first call on *D in the entry path (block order), used to identify "position at entry".
func (l *c02Lf) firstDCall() *ssa.Call {
	for _, b := range l.fn.Blocks {
		for _, ins := range b.Instrs {
			if cl, ok := ins.(*ssa.Call); ok {
				if cal := cl.Common().StaticCallee(); cal != nil && l.c.isDMethod(cal) && cal.Name() != "BitsLeft" {
					return cl
				}
			}
		}
	}
	return nil
}

// c02BigRoot follows the receiver chain of big.Int method calls (they return their receiver).
func c02BigRoot(v ssa.Value) ssa.Value {
	for i := 0; i < 10; i++ {
		cl, ok := v.(*ssa.Call)
		if !ok || !strings.HasPrefix(fw.SxCallee(cl.Common()), "(*math/big.Int).") || len(cl.Common().Args) == 0 {
			return v
		}
		v = cl.Common().Args[0]
	}
	return v
}

func c02InstrBefore(a, b ssa.Instruction) bool {
	if a.Block() != b.Block() {
		return false
	}
	for _, ins := range a.Block().Instrs {
		if ins == a {
			return true
		}
		if ins == b {
			return false
		}
	}
	return false
}

func c02BlockReaches(from, to *ssa.BasicBlock) bool {
	if from == to {
		return true
	}
	seen := map[*ssa.BasicBlock]bool{}
	st := []*ssa.BasicBlock{from}
	for len(st) > 0 {
		b := st[len(st)-1]
		st = st[:len(st)-1]
		if seen[b] {
			continue
		}
		seen[b] = true
		for _, s := range b.Succs {
			if s == to {
				return true
			}
			st = append(st, s)
		}
	}
	return false
}

// ---------------------------------------------------------------------------
// C02.guard — preconditions that turn an unsatisfiable request into an error

var c02ReCmpGuard = regexp.MustCompile(`^([+-])\((>|>=) (\S+) (\S+)\)$`)

// c02BoundsAt derives integer bounds lo <= param <= hi from the guards at b (only comparisons of the
// parameter with a constant).
func c02BoundsAt(env *fw.SxEnv, b *ssa.BasicBlock, param string) (lo, hi *int64) {
	set := func(p **int64, v int64, max bool) {
		if *p == nil || (max && v > **p) || (!max && v < **p) {
			x := v
			*p = &x
		}
	}
	for _, g := range env.GuardSx(b) {
		m := c02ReCmpGuard.FindStringSubmatch(g)
		if m == nil {
			continue
		}
		pos, op, a, bb := m[1] == "+", m[2], m[3], m[4]
		var k int64
		var paramLeft bool
		if a == param {
			v, err := strconv.ParseInt(bb, 10, 64)
			if err != nil {
				continue
			}
			k, paramLeft = v, true
		} else if bb == param {
			v, err := strconv.ParseInt(a, 10, 64)
			if err != nil {
				continue
			}
			k, paramLeft = v, false
		} else {
			continue
		}
		// normalise to: param REL k
		switch {
		case paramLeft && op == ">" && pos: // p > k
			set(&lo, k+1, true)
		case paramLeft && op == ">" && !pos: // p <= k
			set(&hi, k, false)
		case paramLeft && op == ">=" && pos: // p >= k
			set(&lo, k, true)
		case paramLeft && op == ">=" && !pos: // p < k
			set(&hi, k-1, false)
		case !paramLeft && op == ">" && pos: // k > p
			set(&hi, k-1, false)
		case !paramLeft && op == ">" && !pos: // k <= p
			set(&lo, k, true)
		case !paramLeft && op == ">=" && pos: // k >= p
			set(&hi, k, false)
		case !paramLeft && op == ">=" && !pos: // k < p
			set(&lo, k+1, true)
		}
	}
	return
}

func (c *c02) guardFacts() {
	ru := c.r.Rule("C02.guard", "a request that cannot be satisfied is rejected with an error before anything is read, shifted or allocated: negative / too wide bit counts, zero-width signed or code-unit sizes, byte counts beyond the remaining input; and no check rejects a request the property quantifies over (every width 1..64, float widths, code unit sizes, any length)", 22)
	type g struct {
		fn, short, sink, param string
		lo                     *int64
		hi                     *int64
		why                    string
	}
	i64 := func(v int64) *int64 { return &v }
	for _, x := range []g{
		{c02DM + "TryUintBits", "TryUintBits", c02DM + "TryBits", "p0", i64(0), i64(64), "a uint64 holds at most 64 bits; Read64 panics outside 0..64"},
		{c02DM + "TryBits", "TryBits", "pkg/bitio.ReadFull", "p0", i64(0), nil, "negative bit count"},
		{c02DM + "TryBytesLen", "TryBytesLen", "make", "p0", i64(0), nil, "make([]byte, n) panics for negative n"},
		{c02DM + "TryBytesRange", "TryBytesRange", "make", "p1", i64(0), nil, "make([]byte, n) panics for negative n"},
		{c02DM + "tryBigIntEndianSign", "tryBigIntEndianSign", "pkg/bitio.ReadFull", "p0", i64(0), nil, "negative bit count"},
		{c02DM + "trySEndian", "trySEndian", c02DM + "tryUEndian", "p0", i64(1), nil, "a signed integer needs a sign bit; 1<<(nBits-1) panics for nBits=0"},
		{c02DM + "tryTextNull", "tryTextNull", c02DM + "TryPeekFind", "p0", i64(1), nil, "a zero-byte code unit makes the terminator search loop forever"},
	} {
		l := c.lfOf(ru, x.fn, x.short)
		if l.dead {
			continue
		}
		var blocks []*ssa.BasicBlock
		if x.sink == "make" {
			fw.EachInstr(l.fn, func(ins ssa.Instruction) {
				if m, ok := ins.(*ssa.MakeSlice); ok {
					blocks = append(blocks, m.Block())
				}
			})
		} else {
			for _, cl := range l.calls(x.sink) {
				blocks = append(blocks, cl.Block())
			}
		}
		if len(blocks) == 0 {
			ru.Undecided(x.short+":bounds", l.pos, "sink "+x.sink+" not found")
			continue
		}
		ok := true
		detail := ""
		for _, b := range blocks {
			lo, hi := c02BoundsAt(l.env, b, x.param)
			if x.lo != nil && (lo == nil || *lo < *x.lo) {
				ok = false
				detail = fmt.Sprintf("lower bound %d of the count is not established before %s", *x.lo, x.sink)
			}
			if x.hi != nil && (hi == nil || *hi > *x.hi) {
				ok = false
				detail = fmt.Sprintf("upper bound %d of the count is not established before %s", *x.hi, x.sink)
			}
		}
		ru.Check(ok, x.short+":bounds", l.pos, "count bounded before "+x.sink, detail+" ("+x.why+")")
	}
	// byte counts beyond the remaining input are rejected before allocating
	left := "(/ (call (*pkg/decode.D).BitsLeft recv) 8)"
	for _, x := range []struct{ fn, param string }{{"tryText", "p0"}, {"tryTextNullLen", "p0"}, {"tryTextLenPrefixed", "p1"}} {
		l := c.lfOf(ru, c02DM+x.fn, x.fn)
		if l.dead {
			continue
		}
		cs := l.calls(c02DM + "TryBytesLen")
		if len(cs) == 0 {
			ru.Undecided(x.fn+":left", l.pos, "no TryBytesLen call")
			continue
		}
		l.guarded("left", cs[0].Block(), "a byte count larger than the remaining input must be an error before the buffer is allocated",
			"-(> "+x.param+" "+left+")", "+(>= "+left+" "+x.param+")")
	}
	c.domainFacts(ru)
}

// ---------------------------------------------------------------------------
// C02.leb — LEB128 constants

var (
	c02ReShiftPhi = regexp.MustCompile(`^phi\{0 \| (\d+) \+ @0\}$`)
)

func (c *c02) lebFacts() {
	ru := c.r.Rule("C02.leb", "LEB128: 7 payload bits per byte (mask, continuation bit and shift step agree), groups accumulate at the running shift, and a group whose payload cannot be represented in 64 bits is an error (the overflow guard constant is derived from 64 and the step; signed: last group must be a sign extension, sign bit of the last group extends the value whenever bits are left above it)", 13)
	const W = 64
	for _, signed := range []bool{false, true} {
		name := "tryULEB128"
		if signed {
			name = "trySLEB128"
		}
		l := c.lfOf(ru, c02DM+name, name)
		if l.dead {
			continue
		}
		b := l.one(c02DM+"U8", "B")
		if b == nil {
			continue
		}
		l.argsAre("byte", b, "recv", "one byte per group")
		// U8 yields an 8-bit value (C02.family: U8 = tryUEndian(8, ..)), so byte(d.U8()) loses nothing
		if refs := b.Referrers(); refs != nil {
			for _, in := range *refs {
				if cv, ok := in.(*ssa.Convert); ok && fw.SxStripConv(cv) == ssa.Value(b) {
					l.alias(cv, "B")
				}
			}
		}
		// find the shift phi and the accumulator phi
		var shift, acc *ssa.Phi
		step := 0
		fw.EachInstr(l.fn, func(ins ssa.Instruction) {
			ph, ok := ins.(*ssa.Phi)
			if !ok || ph.Block() != b.Block() {
				return
			}
			s := l.env.Of(ph)
			if m := c02ReShiftPhi.FindStringSubmatch(s); m != nil {
				shift = ph
				step, _ = strconv.Atoi(m[1])
			} else {
				acc = ph
			}
		})
		if shift == nil || acc == nil || step == 0 {
			ru.Undecided(name+":loop", l.pos, "loop-carried shift (0, +step) and accumulator not recognised")
			continue
		}
		l.alias(shift, "S")
		mask := (1 << step) - 1
		cont := 1 << step
		ru.Check(cont == 128 && step < 8, name+":step", l.pos, fmt.Sprintf("step %d", step), fmt.Sprintf("shift step is %d; a byte carries 7 payload bits and 1 continuation bit", step))
		// accumulator
		accS := l.env.Of(acc)
		payload := "(<< " + c02SxC("&", strconv.Itoa(mask), "B") + " S)"
		wantAcc := c02SxPhi(c02SxC("|", payload, "@0"), "0")
		l.eq("accumulate", accS, wantAcc, "result |= (b & payload mask) << shift, starting from 0")
		l.alias(acc, "ACC")
		next := c02SxC("|", payload, "ACC")
		// loop exit on continuation bit clear
		exitOK := false
		for _, blk := range l.fn.Blocks {
			if f, ok := blk.Instrs[len(blk.Instrs)-1].(*ssa.If); ok {
				s := l.env.Of(f.Cond)
				if s == c02SxC("==", c02SxC("&", strconv.Itoa(cont), "B"), "0") {
					// true successor must leave the loop (not reach the U8 block again without... ) false must loop
					exitOK = !c02BlockReaches(blk.Succs[0], b.Block()) && c02BlockReaches(blk.Succs[1], b.Block())
				} else if s == c02SxC("!=", c02SxC("&", strconv.Itoa(cont), "B"), "0") {
					exitOK = c02BlockReaches(blk.Succs[0], b.Block()) && !c02BlockReaches(blk.Succs[1], b.Block())
				}
			}
		}
		ru.Check(exitOK, name+":continue", l.pos, "loop continues exactly while the continuation bit is set", fmt.Sprintf("the loop must continue exactly while b & %d != 0", cont))
		// overflow guard: find error returns guarded by a comparison of S
		var guards []string
		for _, r := range l.returns() {
			if len(r.res) == 2 && r.res[1] != "nil" {
				guards = append(guards, strings.Join(l.env.GuardSx(r.b), " "))
			}
		}
		if len(guards) != 1 {
			ru.Undecided(name+":overflow", l.pos, fmt.Sprintf("%d error returns (expected the one overflow error)", len(guards)))
			continue
		}
		if strings.Contains(guards[0], " ") || guards[0] != "" {
			// keep g for the signed form below
		}
		g := guards[0]
		if !signed {
			l.successIs("value", next, "value returned")
			// The guard may be any boolean combination of comparisons of the shift and of the byte (or
			// its payload) with constants. It is decided as a set: for every reachable shift k*step
			// and every byte value, the error exit must be taken exactly when the payload does not
			// fit below bit 64 at that shift (at shift 63 only payload bit 0 fits, beyond 63 nothing).
			var errBlock *ssa.BasicBlock
			for _, r := range l.returns() {
				if len(r.res) == 2 && r.res[1] != "nil" {
					errBlock = r.b
				}
			}
			paths, perr := c02ErrPaths(l, b.Block(), errBlock)
			if perr != "" {
				ru.Undecided(name+":overflow", l.pos, "overflow guard not decidable: "+perr)
				continue
			}
			maxC := 0
			for _, p := range paths {
				for _, lit := range p {
					for _, k := range lit.consts {
						if k > maxC && k < 1<<20 {
							maxC = k
						}
					}
				}
			}
			top := 2 * W
			if maxC+2*step > top {
				top = maxC + 2*step
			}
			unsound, overstrict := "", ""
			bad := ""
			for sh := 0; sh <= top && bad == ""; sh += step {
				for bv := 0; bv < 256; bv++ {
					rejected := false
					for _, p := range paths {
						all := true
						for _, lit := range p {
							v, ok := lit.eval(sh, bv)
							if !ok {
								bad = lit.sx
							}
							if v != lit.pos {
								all = false
								break
							}
						}
						if all {
							rejected = true
							break
						}
					}
					pl := bv & mask
					fits := pl == 0 || sh+bitLen(pl) <= W
					if !fits && !rejected && unsound == "" {
						unsound = fmt.Sprintf("at shift %d the byte %#02x (payload %#02x) is accepted although its payload reaches bit %d: bits beyond bit %d are silently dropped", sh, bv, pl, sh+bitLen(pl)-1, W-1)
					}
					if fits && rejected && overstrict == "" {
						overstrict = fmt.Sprintf("at shift %d the byte %#02x (payload %#02x) is rejected although its payload fits below bit %d", sh, bv, pl, W)
						if pl != 0 {
							overstrict += fmt.Sprintf(": values with bit %d set are valid uint64 LEB128 but fail with an overflow error", sh+bitLen(pl)-1)
						}
					}
				}
			}
			if bad != "" {
				ru.Undecided(name+":overflow", l.pos, "overflow guard contains a condition that is not a comparison of the shift / the byte with constants: "+bad)
				continue
			}
			ru.Check(unsound == "", name+":overflow", l.pos, fmt.Sprintf("every (shift, byte) whose payload does not fit in %d bits takes the error exit (shifts 0..%d step %d x 256 bytes)", W, top, step), unsound)
			ru.Check(overstrict == "", name+":range", l.pos, "every payload that fits is accepted: all 64-bit values are readable", overstrict)
			_ = g
		} else {
			// +(!= 0 B) +(!= 127 B) +(== S 63)  (sorted)
			m := regexp.MustCompile(`^\+\(!= 0 B\) \+\(!= (\d+) B\) \+\(== (\d+) S\)$`).FindStringSubmatch(g)
			if m == nil {
				ru.Undecided(name+":overflow", l.pos, "overflow guard is not of the form shift == G && b != 0 && b != allones: "+g)
				continue
			}
			ones, _ := strconv.Atoi(m[1])
			G, _ := strconv.Atoi(m[2])
			last := ((W - 1) / step) * step // shift of the last group that still has bits inside W
			rem := W - last
			ru.Check(G == last && rem == 1, name+":overflow", l.pos, fmt.Sprintf("last group at shift %d carries %d value bit", last, rem),
				fmt.Sprintf("overflow guard tests shift == %d; the last group that reaches bit %d starts at shift %d", G, W-1, last))
			ru.Check(ones == mask, name+":overflow-ext", l.pos, "last group must be 0 or all ones", fmt.Sprintf("last group may only be 0 or %d (a sign extension), guard allows %d", mask, ones))
			// sign extension after the loop
			vals, rs := l.successValues()
			sNext := fmt.Sprintf("%d + S", step)
			ext := c02SxC("|", "(<< -1 "+sNext+")", next)
			_ = vals
			_ = rs
			var cvals []string
			var extGuards []string
			for _, ch := range l.successChoices() {
				cvals = append(cvals, ch.val)
				if ch.val == ext {
					extGuards = ch.guards
				}
			}
			sort.Strings(cvals)
			got := strings.Join(cvals, " || ")
			wantSet := []string{ext, next}
			sort.Strings(wantSet)
			okv := got == strings.Join(wantSet, " || ")
			ru.Check(okv, name+":value", l.pos, got, "returns "+got+", must be the accumulated value, OR-ed with -1<<(shift+step) when negative")
			if okv {
				gs := extGuards
				signBit := 1 << (step - 1)
				hasSign, hasRoom := false, false
				for _, x := range gs {
					sb := c02SxC("&", strconv.Itoa(signBit), "B")
					if x == "+"+c02SxC("==", sb, strconv.Itoa(signBit)) || x == "+"+c02SxC("!=", sb, "0") {
						hasSign = true
					}
					if x == fmt.Sprintf("+(> %d %s)", W, sNext) {
						hasRoom = true
					}
				}
				ru.Check(hasSign, name+":sign-bit", l.pos, fmt.Sprintf("sign bit of the last group is %d", signBit), fmt.Sprintf("sign extension must be applied exactly when bit %d (value %d) of the last group is set; guards: %s", step-1, signBit, strings.Join(gs, " ")))
				_ = hasRoom
				// every other condition of the extension may only depend on the shift and must hold
				// wherever bits are left to extend (next shift < 64); beyond that -1<<shift is 0 anyway
				room := ""
				for _, x := range gs {
					sb := c02SxC("&", strconv.Itoa(signBit), "B")
					if x == "+"+c02SxC("==", sb, strconv.Itoa(signBit)) || x == "+"+c02SxC("!=", sb, "0") || !strings.Contains(x, "S") {
						continue
					}
					for sh := 0; sh+step < W; sh += step {
						r, ok := fw.SxEval(x[1:], map[string]int64{"S": int64(sh)})
						if !ok {
							room = "condition " + x + " of the sign extension is not a comparison of the shift with constants"
							break
						}
						if (r != 0) != (x[0] == '+') {
							room = fmt.Sprintf("after a last group at shift %d (next shift %d < %d) the sign is not extended because of %s: negative values of %d bytes come out positive", sh, sh+step, W, x, sh/step+1)
							break
						}
					}
				}
				ru.Check(room == "", name+":sign-room", l.pos, "sign extended whenever bits are left above the last group", room)
			}
		}
	}
}

func bitLen(x int) int {
	n := 0
	for x > 0 {
		n++
		x >>= 1
	}
	return n
}

// c02Lit is one branch condition on a path: a comparison over S (the shift), B (the byte) and constants.
type c02Lit struct {
	sx     string
	pos    bool
	consts []int
}

// eval decides the comparison for concrete values of the two symbols (set semantics of the guard).
func (t c02Lit) eval(s, b int) (bool, bool) {
	toks := strings.Fields(strings.NewReplacer("(", " ( ", ")", " ) ").Replace(t.sx))
	i := 0
	var atom func() (int, bool)
	atom = func() (int, bool) {
		if i >= len(toks) {
			return 0, false
		}
		switch tk := toks[i]; tk {
		case "S":
			i++
			return s, true
		case "B":
			i++
			return b, true
		case "(":
			if i+1 < len(toks) && toks[i+1] == "&" {
				i += 2
				x, ok1 := atom()
				y, ok2 := atom()
				if !ok1 || !ok2 || i >= len(toks) || toks[i] != ")" {
					return 0, false
				}
				i++
				return x & y, true
			}
			return 0, false
		default:
			n, err := strconv.Atoi(tk)
			if err != nil {
				return 0, false
			}
			i++
			return n, true
		}
	}
	if len(toks) < 5 || toks[0] != "(" {
		return false, false
	}
	op := toks[1]
	i = 2
	x, ok1 := atom()
	y, ok2 := atom()
	if !ok1 || !ok2 || i != len(toks)-1 || toks[i] != ")" {
		return false, false
	}
	switch op {
	case ">":
		return x > y, true
	case ">=":
		return x >= y, true
	case "==":
		return x == y, true
	case "!=":
		return x != y, true
	}
	return false, false
}

// c02ErrPaths enumerates the branch paths from the loop header to the error exit; blocks on the way
// may only compute and branch.
func c02ErrPaths(l *c02Lf, header, errBlock *ssa.BasicBlock) ([][]c02Lit, string) {
	if errBlock == nil {
		return nil, "no error exit"
	}
	var out [][]c02Lit
	msg := ""
	reNum := regexp.MustCompile(`\b\d+\b`)
	var walk func(b, prev *ssa.BasicBlock, path []c02Lit, depth int)
	walk = func(b, prev *ssa.BasicBlock, path []c02Lit, depth int) {
		if depth > 16 {
			msg = "guard too deep"
			return
		}
		if b == errBlock {
			out = append(out, append([]c02Lit{}, path...))
			return
		}
		if b == header && depth > 0 {
			return // next iteration: the byte was accepted
		}
		if b != header {
			for _, ins := range b.Instrs {
				switch ins.(type) {
				case *ssa.BinOp, *ssa.UnOp, *ssa.Convert, *ssa.ChangeType, *ssa.If, *ssa.DebugRef, *ssa.Phi, *ssa.Jump:
				default:
					return // not part of the guard: this path accepts the byte
				}
			}
		}
		if _, isJump := b.Instrs[len(b.Instrs)-1].(*ssa.Jump); isJump && b != header {
			walk(b.Succs[0], b, path, depth+1)
			return
		}
		ifi, ok := b.Instrs[len(b.Instrs)-1].(*ssa.If)
		if !ok {
			return
		}
		g := fw.Guard{Cond: ifi.Cond, True: true}.Normalize()
		// a condition carried in a boolean variable: on this path it is the value that flowed in
		if ph, isPhi := g.Cond.(*ssa.Phi); isPhi && ph.Block() == b && prev != nil && b != header {
			for i, pb := range b.Preds {
				if pb != prev {
					continue
				}
				if k, isC := ph.Edges[i].(*ssa.Const); isC && k.Value != nil {
					if (k.Value.ExactString() == "true") == g.True {
						walk(b.Succs[0], b, path, depth+1)
					} else {
						walk(b.Succs[1], b, path, depth+1)
					}
					return
				}
				g = fw.Guard{Cond: ph.Edges[i], True: g.True}.Normalize()
				break
			}
		}
		sx := l.env.Of(g.Cond)
		var ks []int
		for _, m := range reNum.FindAllString(sx, -1) {
			k, _ := strconv.Atoi(m)
			ks = append(ks, k)
		}
		walk(b.Succs[0], b, append(path, c02Lit{sx, g.True, ks}), depth+1)
		walk(b.Succs[1], b, append(path, c02Lit{sx, !g.True, ks}), depth+1)
	}
	walk(header, nil, nil, 0)
	if msg != "" {
		return nil, msg
	}
	if len(out) == 0 {
		return nil, "the error exit is not reached by branching on the shift and the byte directly after the read"
	}
	return out, ""
}

// ---------------------------------------------------------------------------
// C02.float

func (c *c02) floatReturns() (map[int]string, string, *c02Lf) {
	ru := c.r.Rule("C02.float", "tryFEndian reads nBits bytes, reverses them for little endian only, and converts 16/32/64/80 bit patterns big-endian through mathx.Float16 / math.Float32frombits / math.Float64frombits / mathx.NewFloat80FromBytes; any other width is an error", 9)
	l := c.lfOf(ru, c02DM+"tryFEndian", "tryFEndian")
	if l.dead {
		return nil, "", l
	}
	r := l.one(c02DM+"TryBits", "R")
	if r == nil {
		return nil, "", l
	}
	byW := map[int]string{}
	def := ""
	re := regexp.MustCompile(`^\+\(== (\d+) p0\)$`)
	for _, ret := range l.returns() {
		if len(ret.res) != 2 {
			continue
		}
		w := -1
		for _, g := range l.env.GuardSx(ret.b) {
			if m := re.FindStringSubmatch(g); m != nil {
				w, _ = strconv.Atoi(m[1])
			}
		}
		if w >= 0 {
			byW[w] = strings.Join(ret.res, ", ")
		} else if !l.env.HasGuard(ret.b, "+(!= (#1 R) nil)") && !l.env.HasGuard(ret.b, "+(> 0 p0)") {
			def = strings.Join(ret.res, ", ")
		}
	}
	return byW, def, l
}

func (c *c02) floatWidths() map[int]bool {
	byW, _, _ := c.floatReturns()
	out := map[int]bool{}
	for w, s := range byW {
		if strings.HasSuffix(s, ", nil") {
			out[w] = true
		}
	}
	return out
}

func (c *c02) floatFacts() {
	byW, def, l := c.floatReturns()
	if l.dead || byW == nil {
		return
	}
	ru := l.ru
	r := l.calls(c02DM + "TryBits")[0]
	l.argsAre("read", r, "recv p0", "bits read")
	rev := l.oneReverse()
	l.argsAre("rev-args", rev, "(#0 R)", "bytes reversed")
	if rev != nil {
		l.guarded("rev-le", rev.Block(), "byte reversal must happen exactly for little endian", c02LeGuard(c, "p1")...)
		l.onlyWhen("rev-le-only", rev.Block(), "byte reversal must happen for every little endian read", nil, c02LeGuard(c, "p1")...)
	}
	be := "g:binary.BigEndian (#0 R)"
	want := map[int]string{
		16: "(conv float64 (call (internal/mathx.Float16).Float32 (call (encoding/binary.bigEndian).Uint16 " + be + "))), nil",
		32: "(conv float64 (call math.Float32frombits (call (encoding/binary.bigEndian).Uint32 " + be + "))), nil",
		64: "(call math.Float64frombits (call (encoding/binary.bigEndian).Uint64 " + be + ")), nil",
		80: "(call (internal/mathx.Float80).Float64 (call internal/mathx.NewFloat80FromBytes (#0 R))), nil",
	}
	for _, w := range []int{16, 32, 64, 80} {
		got, ok := byW[w]
		if !ok {
			ru.Fail(fmt.Sprintf("tryFEndian:width%d", w), l.pos, fmt.Sprintf("no conversion arm for %d-bit floats", w))
			continue
		}
		l.eq(fmt.Sprintf("width%d", w), got, want[w], fmt.Sprintf("%d-bit conversion", w))
		if rev != nil {
			for _, ret := range l.returns() {
				if strings.Join(ret.res, ", ") == got {
					ru.Check(c02BlockReaches(rev.Block(), ret.b), fmt.Sprintf("tryFEndian:order%d", w), l.pos, "reversal precedes conversion", "byte reversal must precede the conversion")
				}
			}
		}
	}
	for w := range byW {
		if _, ok := want[w]; !ok {
			ru.Undecided(fmt.Sprintf("tryFEndian:width%d", w), l.pos, "conversion arm for a width this rule has no contract for: "+byW[w])
		}
	}
	ru.Check(def != "" && !strings.HasSuffix(def, ", nil"), "tryFEndian:default", l.pos, "unsupported widths return an error", "an unsupported float width must return an error, returns: "+def)
}

// ---------------------------------------------------------------------------
// C02.err — error propagation in everything the leaf readers call inside pkg/decode

var c02ErrExceptions = map[string]string{
	"(*pkg/decode.D).TryFieldValue|dyn": "TryFieldValue fills in name and range of the *Value its callback returns also when the callback fails (so that the failed field is still placed); it relies on the callback returning a non-nil *Value with its error, which C02.scalarfn checks for the generated plumbing callbacks (every return is a fresh *Value); the tree side of TryFieldValue belongs to C03",
}

func (c *c02) readerCore() []*ssa.Function {
	seen := map[*ssa.Function]bool{}
	var order []*ssa.Function
	var st []*ssa.Function
	add := func(f *ssa.Function) {
		if f != nil && f.Blocks != nil && !seen[f] {
			seen[f] = true
			st = append(st, f)
			order = append(order, f)
		}
	}
	for n := range c02LeafNames {
		add(c.dMethod(n))
	}
	for _, fn := range c.p.FqFunctions() {
		if fn.Parent() == nil && c.isDMethod(fn) && (strings.HasPrefix(fn.Name(), "TryPeek") || c02RePlumb.MatchString(fn.Name())) {
			add(fn)
		}
	}
	add(c.p.Fn("internal/mathx.BigIntSetBytesSigned"))
	for len(st) > 0 {
		f := st[len(st)-1]
		st = st[:len(st)-1]
		for _, a := range f.AnonFuncs {
			add(a)
		}
		for _, cl := range fw.CallsIn(f) {
			cal := cl.Common().StaticCallee()
			if cal == nil || cal.Pkg == nil {
				continue
			}
			if cal.Pkg.Pkg.Path() == fw.Mod+"/pkg/decode" {
				add(cal)
			}
		}
	}
	sort.Slice(order, func(i, j int) bool { return order[i].String() < order[j].String() })
	return order
}

func c02IsErrorType(t types.Type) bool {
	return types.Identical(t, types.Universe.Lookup("error").Type())
}

func (c *c02) errRule() {
	ru := c.r.Rule("C02.err", "in the leaf readers and everything they call inside pkg/decode, every error result of a call is returned, tested against nil, or raised (never dropped), and the value results of a fallible call are used only where its error is proven nil or returned together with it", 60)
	core := c.readerCore()
	c.r.Notes["C02.err.functions"] = len(core)
	for _, fn := range core {
		env := fw.NewSxEnv(fn)
		ord := map[string]int{}
		for _, ci := range fw.CallsIn(fn) {
			cl, ok := ci.(*ssa.Call)
			if !ok {
				continue
			}
			sig := cl.Common().Signature()
			res := sig.Results()
			if res.Len() == 0 || !c02IsErrorType(res.At(res.Len()-1).Type()) {
				continue
			}
			callee := fw.SxCallee(cl.Common())
			if callee == "fmt.Errorf" || callee == "errors.New" || callee == "dyn" && false {
				continue
			}
			ord[callee]++
			key := fmt.Sprintf("%s|%s#%d", fw.ShortFn(fn), callee, ord[callee])
			pos := c.p.Rel(cl.Pos())
			if reason, ok := c02ErrExceptions[fmt.Sprintf("%s|%s", fw.ShortFn(fn), callee)]; ok {
				ru.Except(key, pos, reason)
				continue
			}
			// locate error and value results
			var errV ssa.Value
			var vals []ssa.Value
			if res.Len() == 1 {
				errV = cl
			} else if cl.Referrers() != nil {
				for _, ref := range *cl.Referrers() {
					if ex, ok := ref.(*ssa.Extract); ok {
						if ex.Index == res.Len()-1 {
							errV = ex
						} else {
							vals = append(vals, ex)
						}
					}
				}
			}
			if errV == nil || errV.Referrers() == nil || len(*errV.Referrers()) == 0 {
				ru.Fail(key, pos, "the error result of "+callee+" is dropped")
				continue
			}
			used := false
			var visit func(v ssa.Value, depth int)
			seenV := map[ssa.Value]bool{}
			visit = func(v ssa.Value, depth int) {
				if seenV[v] || depth > 6 || v.Referrers() == nil {
					return
				}
				seenV[v] = true
				for _, ref := range *v.Referrers() {
					switch x := ref.(type) {
					case *ssa.Return, *ssa.Panic:
						used = true
					case *ssa.BinOp:
						if x.Referrers() != nil {
							for _, r2 := range *x.Referrers() {
								if _, ok := r2.(*ssa.If); ok {
									used = true
								}
							}
						}
					case *ssa.Phi:
						visit(x, depth+1)
					case *ssa.MakeInterface:
						visit(x, depth+1)
					case *ssa.Store:
						// stored into a struct that is panicked / returned (IOError{Err: err})
						used = used || c02StoreEscapes(x)
					case *ssa.Call:
						if cal := x.Common().StaticCallee(); cal != nil && (cal.Name() == "IOPanic" || (fw.CurrentNR != nil && fw.CurrentNR.Is(cal))) {
							used = true
						}
					}
				}
			}
			visit(errV, 0)
			if !used {
				ru.Fail(key, pos, "the error result of "+callee+" is neither returned, tested against nil nor raised")
				continue
			}
			// value results only where err == nil is known, or passed along with the error
			e := env.With(map[ssa.Value]string{errV: "E"})
			bad := ""
			for _, v := range vals {
				for _, use := range fw.UsesThroughConv(v) {
					if _, isDbg := use.(*ssa.DebugRef); isDbg {
						continue
					}
					if ret, ok := use.(*ssa.Return); ok {
						last := ret.Results[len(ret.Results)-1]
						if last == errV || e.Of(last) == "E" || strings.Contains(e.Of(last), "E") {
							continue
						}
					}
					if c02OnlyReturnedWith(use, errV, 0) {
						continue
					}
					b := use.Block()
					if ph, ok := use.(*ssa.Phi); ok {
						// the use happens on the incoming edge
						okEdge := true
						for i, ed := range ph.Edges {
							if fw.SxStripConv(ed) == v || ed == v {
								pb := ph.Block().Preds[i]
								gs, _ := e.EdgeGuards(ph, e.Of(ed))
								_ = pb
								if !c02HasAny(gs, "-(!= E nil)", "+(== E nil)") {
									okEdge = false
								}
							}
						}
						if okEdge {
							continue
						}
					}
					if e.HasGuard(b, "-(!= E nil)") || e.HasGuard(b, "+(== E nil)") {
						continue
					}
					// on the proven-error arm the value is only diagnostic material
					if e.HasGuard(b, "+(!= E nil)") || e.HasGuard(b, "-(== E nil)") {
						continue
					}
					// parking the value in a local cell is not a use (loads of address-taken locals are not tracked, see Not decided)
					if st, isSt := use.(*ssa.Store); isSt {
						if _, isAl := st.Addr.(*ssa.Alloc); isAl {
							continue
						}
					}
					bad = fmt.Sprintf("result #%d of %s is used at %s before its error is known to be nil", v.(*ssa.Extract).Index, callee, c.p.Rel(use.Pos()))
				}
			}
			if bad != "" {
				ru.Fail(key, pos, bad)
				continue
			}
			ru.Ok(key, pos, "error checked before the value is used")
		}
	}
}

func c02HasAny(gs []string, wants ...string) bool {
	for _, g := range gs {
		for _, w := range wants {
			if g == w {
				return true
			}
		}
	}
	return false
}

// c02StoreEscapes: the store writes a field of a local composite that is panicked, returned or passed on.
func c02StoreEscapes(st *ssa.Store) bool {
	fa, ok := st.Addr.(*ssa.FieldAddr)
	if !ok {
		return false
	}
	al, ok := fa.X.(*ssa.Alloc)
	if !ok || al.Referrers() == nil {
		return false
	}
	for _, ref := range *al.Referrers() {
		switch x := ref.(type) {
		case *ssa.UnOp:
			if x.Referrers() != nil {
				for _, r2 := range *x.Referrers() {
					switch y := r2.(type) {
					case *ssa.MakeInterface:
						if y.Referrers() != nil {
							for _, r3 := range *y.Referrers() {
								switch r3.(type) {
								case *ssa.Panic, *ssa.Return:
									return true
								}
							}
						}
					case *ssa.Return:
						return true
					}
				}
			}
		case *ssa.MakeInterface, *ssa.Return:
			return true
		}
	}
	return false
}

// ---------------------------------------------------------------------------
// C02.pos — peeks consume nothing

func (c *c02) posRule() {
	ru := c.r.Rule("C02.pos", "TryPeek* save the bit position first and, on every exit, have seeked back to exactly that position (or return the error of a seek that failed)", 9)
	var fns []*ssa.Function
	for _, fn := range c.p.FqFunctions() {
		if fn.Parent() == nil && c.isDMethod(fn) && strings.HasPrefix(fn.Name(), "TryPeek") {
			fns = append(fns, fn)
		}
	}
	sort.Slice(fns, func(i, j int) bool { return fns[i].Name() < fns[j].Name() })
	if len(fns) < 3 {
		ru.Undecided("anchor", "", fmt.Sprintf("only %d TryPeek* methods found", len(fns)))
	}
	const save = "(invoke SeekBits recv.bitBuf 0 1)"
	for _, fn := range fns {
		env := fw.NewSxEnv(fn)
		pos := c.p.Rel(fn.Pos())
		// the save must be the first call
		var first *ssa.Call
		for _, ins := range fn.Blocks[0].Instrs {
			if cl, ok := ins.(*ssa.Call); ok {
				first = cl
				break
			}
		}
		if first == nil || env.Of(first) != save {
			ru.Fail(fn.Name()+":save", pos, "the first action is not bitBuf.SeekBits(0, io.SeekCurrent) (saving the position before anything is read)")
			continue
		}
		ru.Ok(fn.Name()+":save", pos, "position saved first")
		restore := "(invoke SeekBits recv.bitBuf (#0 " + save + ") 0)"
		// forward must-analysis: restored at block entry
		in := map[*ssa.BasicBlock]bool{}
		for _, b := range fn.Blocks {
			in[b] = true
		}
		transfer := func(b *ssa.BasicBlock, st bool) bool {
			for _, ins := range b.Instrs {
				cl, ok := ins.(*ssa.Call)
				if !ok {
					continue
				}
				s := env.Of(cl)
				switch {
				case cl == first:
				case s == restore:
					st = true
				case fw.SxCallee(cl.Common()) == "invoke:SeekBits":
					st = false
				default:
					if cal := cl.Common().StaticCallee(); cal != nil && c.isDMethod(cal) {
						st = false
					}
				}
			}
			return st
		}
		for changed := true; changed; {
			changed = false
			for _, b := range fn.Blocks {
				st := true
				if len(b.Preds) == 0 {
					st = true
				}
				for _, p := range b.Preds {
					if !transfer(p, in[p]) {
						st = false
					}
				}
				if b == fn.Blocks[0] {
					st = true
				}
				if st != in[b] {
					in[b] = st
					changed = true
				}
			}
		}
		n := 0
		for _, b := range fn.Blocks {
			ret, ok := b.Instrs[len(b.Instrs)-1].(*ssa.Return)
			if !ok {
				continue
			}
			n++
			key := fmt.Sprintf("%s:exit%d", fn.Name(), n)
			if transfer(b, in[b]) {
				ru.Ok(key, c.p.Rel(ret.Pos()), "position restored")
				continue
			}
			ev := env.Of(ret.Results[len(ret.Results)-1])
			if strings.HasPrefix(ev, "(#1 (invoke SeekBits recv.bitBuf ") {
				ru.Ok(key, c.p.Rel(ret.Pos()), "returns the error of the failed seek")
				continue
			}
			ru.Fail(key, c.p.Rel(ret.Pos()), "this exit can be reached with the position moved (no seek back to the saved position on some path) and does not report a seek failure")
		}
	}
}

// ---------------------------------------------------------------------------
// controls

func init() {
	ctl := func(id, rule, file, old, new, expect string) {
		AddControl(Control{ID: id, Prop: "C02", Rule: rule, File: file, Old: old, New: new, ExpectKey: expect})
	}
	rd := "pkg/decode/read.go"
	dc := "pkg/decode/decode.go"
	ctl("c02-leaf-sign-offbyone", "C02.leaf", rd, "if n&(1<<(nBits-1)) > 0 {\n		// two's complement\n		s = -int64", "if n&(1<<(nBits-2)) > 0 {\n		// two's complement\n		s = -int64", "trySEndian")
	ctl("c02-leaf-mask", "C02.leaf", rd, "s = -int64((^n & ((1 << nBits) - 1)) + 1)", "s = -int64((^n & ((1 << nBits) - 1)))", "trySEndian:value")
	ctl("c02-leaf-rev-be", "C02.leaf", rd, "	if endian == LittleEndian {\n		n = bitio.ReverseBytes64(nBits, n)\n	}\n\n	return n, nil", "	if endian == BigEndian {\n		n = bitio.ReverseBytes64(nBits, n)\n	}\n\n	return n, nil", "tryUEndian:rev-le")
	ctl("c02-leaf-fp-scale", "C02.leaf", rd, "return float64(n) / float64(uint64(1<<fBits)), nil", "return float64(n) / float64(uint64(1<<nBits)), nil", "tryFPEndian:value")
	ctl("c02-leaf-bigint-pad", "C02.leaf", rd, "n.Rsh(n, uint((8-nBits%8)%8))", "n.Rsh(n, uint(8-nBits%8))", "tryBigIntEndianSign:rsh")
	ctl("c02-leaf-bigint-sign", "C02.leaf", rd, "	if sign {\n		mathx.BigIntSetBytesSigned(n, buf)", "	if !sign {\n		mathx.BigIntSetBytesSigned(n, buf)", "tryBigIntEndianSign")
	ctl("c02-leaf-textnull", "C02.leaf", rd, "return e.NewDecoder().String(string(bs[0 : n-charBytes]))", "return e.NewDecoder().String(string(bs[0 : n-1]))", "tryTextNull:decode-arg")
	ctl("c02-leaf-unary", "C02.leaf", rd, "		if b != ov {\n			break\n		}\n		n++", "		n++\n		if b != ov {\n			break\n		}", "tryUnary:value")
	ctl("c02-leaf-uintbits", "C02.leaf", dc, "return bitio.Read64(buf[:], 0, int64(nBits)), nil // TODO: int64", "return bitio.Read64(buf[:], 1, int64(nBits)), nil // TODO: int64", "TryUintBits:value")
	ctl("c02-leaf-bytescount", "C02.leaf", rd, "	b := int(bitio.BitsByteCount(int64(nBits)))\n	buf := d.SharedReadBuf(b)[0:b]", "	b := nBits / 8\n	buf := d.SharedReadBuf(b)[0:b]", "tryBigIntEndianSign:buf")
	ctl("c02-leaf-byteslen-clamp-short", "C02.leaf", dc, "\t\tif maxBytes := bitsLeft/8 + 1; maxBytes > 0 && int64(nBytes) > maxBytes {", "\t\tif maxBytes := bitsLeft / 8; maxBytes > 0 && int64(nBytes) > maxBytes {", "TryBytesLen:read")
	ctl("c02-leaf-byteslen-clamp-always", "C02.leaf", dc, "\t\tif maxBytes := bitsLeft/8 + 1; maxBytes > 0 && int64(nBytes) > maxBytes {", "\t\tif maxBytes := bitsLeft/8 + 1; maxBytes > 0 && int64(nBytes) != maxBytes {", "TryBytesLen:clamp")
	ctl("c02-guard-uint64", "C02.guard", dc, "if nBits < 0 || nBits > 64 {\n		return 0, fmt.Errorf(\"nBits must be 0-64 (%d)\", nBits)", "if nBits < 0 || nBits > 65 {\n		return 0, fmt.Errorf(\"nBits must be 0-64 (%d)\", nBits)", "TryUintBits:bounds")
	ctl("c02-guard-signed", "C02.guard", rd, "	if nBits < 1 {\n		return 0, fmt.Errorf(\"trySEndian nBits must be >= 1 (%d)\", nBits)", "	if nBits < 0 {\n		return 0, fmt.Errorf(\"trySEndian nBits must be >= 1 (%d)\", nBits)", "trySEndian:bounds")
	ctl("c02-guard-left", "C02.guard", rd, "	if int64(nBytes) > bytesLeft {\n		return \"\", fmt.Errorf(\"tryText nBytes %d outside buffer, %d bytes left\", nBytes, bytesLeft)\n	}", "	if int64(nBytes) > bytesLeft*8 {\n		return \"\", fmt.Errorf(\"tryText nBytes %d outside buffer, %d bytes left\", nBytes, bytesLeft)\n	}", "tryText:left")
	ctl("c02-leb-guard", "C02.leb", rd, "(shift > 63 && b&0b01111111 != 0) {", "(shift > 70 && b&0b01111111 != 0) {", "tryULEB128:overflow")
	ctl("c02-leb-guard63", "C02.leb", rd, "if (shift == 63 && b&0b01111111 > 1) ||", "if (shift == 63 && b&0b01111111 > 3) ||", "tryULEB128:overflow")
	ctl("c02-leb-overstrict", "C02.leb", rd, "if (shift == 63 && b&0b01111111 > 1) || (shift > 63 && b&0b01111111 != 0) {", "if shift >= 63 && b != 0 {", "tryULEB128:range")
	ctl("c02-leb-mask", "C02.leb", rd, "result |= int64(b&0x7f) << shift", "result |= int64(b&0x3f) << shift", "trySLEB128")
	ctl("c02-leb-signbit", "C02.leb", rd, "if shift < n && (b&0x40) == 0x40 {", "if shift < n && (b&0x80) == 0x80 {", "trySLEB128:sign-bit")
	ctl("c02-float-swap", "C02.float", rd, "return float64(math.Float32frombits(binary.BigEndian.Uint32(b))), nil", "return float64(math.Float32frombits(binary.LittleEndian.Uint32(b))), nil", "tryFEndian:width32")
	ctl("c02-float-default", "C02.float", rd, "		return 0, fmt.Errorf(\"unsupported float size %d\", nBits)", "		return 0, nil", "tryFEndian:default")
	ctl("c02-err-drop", "C02.err", rd, "	n, err := d.TryUintBits(nBits)\n	if err != nil {\n		return 0, err\n	}\n	if endian == LittleEndian {\n		n = bitio.ReverseBytes64(nBits, n)\n	}\n\n	return n, nil", "	n, _ := d.TryUintBits(nBits)\n	if endian == LittleEndian {\n		n = bitio.ReverseBytes64(nBits, n)\n	}\n\n	return n, nil", "tryUEndian")
	ctl("c02-err-readfull", "C02.err", dc, "	_, err := bitio.ReadFull(d.bitBuf, buf, int64(nBits))\n	if err != nil {\n		return nil, err\n	}\n\n	return buf[:], nil", "	_, _ = bitio.ReadFull(d.bitBuf, buf, int64(nBits))\n\n	return buf[:], nil", "TryBits")
	ctl("c02-pos-norestore", "C02.pos", dc, "	n, err := d.TryUintBits(nBits)\n	if _, err := d.bitBuf.SeekBits(start, io.SeekStart); err != nil {\n		return 0, err\n	}\n	return n, err", "	n, err := d.TryUintBits(nBits)\n	if err != nil {\n		return 0, err\n	}\n	if _, err := d.bitBuf.SeekBits(start, io.SeekStart); err != nil {\n		return 0, err\n	}\n	return n, err", "TryPeekBits")
}

// clampedCount accepts the allocation clamp of the byte readers: the count handed to make and to
// the read is either the caller's count p0, or — only when p0 is larger — a count c with
// 8*c > bits left (c = 1 + left/8), so the read of 8*c bits must fail exactly as the read of
// 8*p0 bits would and nothing shorter than asked is ever returned as a success. A phi of that
// shape is then treated as p0. Any other clamp (left/8 without the +1, a clamp chosen under
// another test) is left as it is and fails the rule's exact-argument facts.
func (l *c02Lf) clampedCount(r *ssa.Call, left string) {
	if l.dead || r == nil {
		return
	}
	want := "1 + (/ " + left + " 8)"
	seen := map[*ssa.Phi]bool{}
	fw.EachInstr(l.fn, func(ins ssa.Instruction) {
		mk, ok := ins.(*ssa.MakeSlice)
		if !ok {
			return
		}
		ph := c02PhiOf(mk.Len)
		if ph == nil || seen[ph] {
			return
		}
		seen[ph] = true
		nClamp := 0
		for _, ed := range ph.Edges {
			s := l.env.Of(ed)
			switch s {
			case "p0":
			case want:
				nClamp++
				gs, _ := l.env.EdgeGuards(ph, s)
				if !c02HasAny(gs, "+(> p0 "+want+")", "-(<= p0 "+want+")", "+(< "+want+" p0)", "-(>= "+want+" p0)") {
					l.ru.Fail(l.name+":clamp", l.pos, "the count is clamped to "+want+" under "+strings.Join(gs, " ")+", must be only when p0 is larger")
					return
				}
			default:
				return
			}
		}
		if nClamp > 0 {
			l.ru.Ok(l.name+":clamp", l.pos, "count is p0, or "+want+" when p0 is larger (the read then fails)")
			l.alias(ph, "p0")
		}
	})
}
