package rules

// C20: clauses added by the mutation self-review (helpers of c20_eval.go).

import (
	"fmt"
	"go/token"
	"go/types"
	"strings"

	"github.com/wader/gojq"
	"golang.org/x/tools/go/ssa"

	"fqverif/fw"
)

// c20EachInstrNest visits the instructions of fn and of every closure nested in it.
func c20EachInstrNest(fn *ssa.Function, f func(ssa.Instruction)) {
	for _, x := range fw.WithClosures(fn) {
		fw.EachInstr(x, f)
	}
}

// c20SiteIn: the instruction of g under which ins is executed: ins itself, or the (single)
// call in g of the closure (nested in g) that contains ins.
func c20SiteIn(g *ssa.Function, ins ssa.Instruction) ssa.Instruction {
	if ins == nil {
		return nil
	}
	cur := ins.Parent()
	if cur == g {
		return ins
	}
	for cur != nil && cur.Parent() != g {
		cur = cur.Parent()
	}
	if cur == nil {
		return nil
	}
	var site ssa.Instruction
	n := 0
	fw.EachInstr(g, func(x ssa.Instruction) {
		c, ok := x.(*ssa.Call)
		if !ok || c.Common().IsInvoke() {
			return
		}
		if mc, ok := fw.C20Resolve(c.Common().Value).(*ssa.MakeClosure); ok && mc.Fn == ssa.Value(cur) {
			site = c
			n++
		}
	})
	if n != 1 {
		return nil
	}
	return site
}

// c20TriggerBlocks: the function interp hands to ctxstack.New returns only after a BLOCKING
// select all of whose cases are receives from the stop channel or OS.InterruptChan(): a select
// with a default case (or another wake-up source) makes the trigger goroutine cancel the
// innermost evaluation although nobody pressed ^C.
func c20TriggerBlocks(trig *ssa.Function) string {
	var waits []*ssa.Select
	fw.EachInstr(trig, func(ins ssa.Instruction) {
		sel, ok := ins.(*ssa.Select)
		if !ok || !sel.Blocking || len(sel.States) == 0 {
			return
		}
		for _, s := range sel.States {
			if s.Dir != types.RecvOnly {
				return
			}
			isStop := len(trig.Params) > 0 && s.Chan == ssa.Value(trig.Params[0])
			isInt := false
			if c, ok := s.Chan.(*ssa.Call); ok {
				_, isInt = c20IsInvoke(c, "InterruptChan")
			}
			if !isStop && !isInt {
				return
			}
		}
		waits = append(waits, sel)
	})
	n := 0
	for _, ret := range returnsOf(trig) {
		if !c20NotRecover(ret) {
			continue
		}
		n++
		ok := false
		for _, w := range waits {
			if precedesOnAllPaths(w, ret) {
				ok = true
			}
		}
		if !ok {
			return "the trigger function can return without an interrupt or stop having arrived (select with a default case, or a case on another channel): the trigger goroutine then cancels the innermost evaluation over and over although nobody interrupted it"
		}
	}
	if n == 0 {
		return "the trigger function never returns: interrupts never reach the stack"
	}
	return ""
}

// c20CtxRSBind: the context whose Done() callWait selects on is the one handed to New.
func c20CtxRSBind(ru *fw.Rule, p *fw.Program, nw, cw *ssa.Function, isDone func(ssa.Value) bool) {
	fields := map[int]bool{}
	und := false
	fw.EachInstr(cw, func(ins ssa.Instruction) {
		sel, ok := ins.(*ssa.Select)
		if !ok {
			return
		}
		for _, s := range sel.States {
			if s.Dir != types.RecvOnly || !isDone(s.Chan) {
				continue
			}
			recv, _ := c20IsInvoke(s.Chan.(*ssa.Call), "Done")
			u, ok := recv.(*ssa.UnOp)
			if !ok || u.Op != token.MUL {
				und = true
				continue
			}
			fa, ok := u.X.(*ssa.FieldAddr)
			if !ok {
				und = true
				continue
			}
			fields[fa.Field] = true
		}
	})
	if und || len(fields) != 1 {
		ru.Undecided("New:binds ctx", p.Rel(nw.Pos()), "the context callWait selects on is not a single field of Reader")
		return
	}
	field := -1
	for f := range fields {
		field = f
	}
	nst, ok := 0, true
	fw.EachInstr(nw, func(ins ssa.Instruction) {
		st, isSt := ins.(*ssa.Store)
		if !isSt {
			return
		}
		fa, isFA := st.Addr.(*ssa.FieldAddr)
		if !isFA || fa.Field != field || !strings.HasSuffix(types.TypeString(fa.X.Type(), nil), "ctxreadseeker.Reader") {
			return
		}
		nst++
		prm, isPrm := fw.C20Resolve(st.Val).(*ssa.Parameter)
		if !isPrm || prm.Parent() != nw || !c20IsContextType(prm.Type()) {
			ok = false
		}
	})
	ru.Check(nst > 0 && ok, "New:binds ctx", p.Rel(nw.Pos()), "Reader.ctx = New's context parameter",
		"ctxreadseeker.New does not store its context parameter into the field callWait selects on: the reader is bound to another context and blocked reads ignore the interrupt")
}

// c20ErrorsIsGuard: block b is only reached when errors.Is(_, <target>) returned true, where
// target is a load of a package level error variable accepted by isTarget.
func c20ErrorsIsGuard(b *ssa.BasicBlock, isTarget func(*ssa.Global) bool) bool {
	for _, g := range fw.Guards(b) {
		g = g.Normalize()
		if !g.True {
			continue
		}
		c, ok := g.Cond.(*ssa.Call)
		if !ok {
			continue
		}
		f := c.Common().StaticCallee()
		if f == nil || f.String() != "errors.Is" || len(c.Common().Args) != 2 {
			continue
		}
		if u, ok := c.Common().Args[1].(*ssa.UnOp); ok && u.Op == token.MUL {
			if gl, ok := u.X.(*ssa.Global); ok && isTarget(gl) {
				return true
			}
		}
	}
	return false
}

// c20IsErrField: q is `.error` (or .["error"]).
func c20IsErrField(q *gojq.Query) bool {
	if q == nil || q.Term == nil || q.Left != nil || len(q.FuncDefs) > 0 || len(q.Term.SuffixList) != 0 {
		return false
	}
	t := q.Term
	if t.Type != gojq.TermTypeIndex || t.Index == nil || t.Index.IsSlice || t.Index.Start != nil {
		return false
	}
	if t.Index.Name == "error" {
		return true
	}
	return t.Index.Str != nil && len(t.Index.Str.Queries) == 0 && t.Index.Str.Str == "error"
}

// c20ReplOnError: `if .error | _is_context_canceled_error then empty ...` or the same with
// the branches exchanged under `| not`.
func c20ReplOnError(body *gojq.Query) (ok bool, why string) {
	why = "an interrupted evaluation is not ignored by the REPL error handler: ^C during an evaluation exits fq instead of returning to the prompt"
	fw.WalkJQ(body, func(x any) bool {
		ifn, isIf := x.(*gojq.If)
		if !isIf {
			return true
		}
		pl := fw.JQPipeline(ifn.Cond)
		neg := false
		if len(pl) > 0 && fw.JQIsCall(pl[len(pl)-1], "not", 0) != nil {
			neg = true
			pl = pl[:len(pl)-1]
		}
		if len(pl) == 0 || fw.JQIsCall(pl[len(pl)-1], "_is_context_canceled_error", 0) == nil {
			return true
		}
		branch := ifn.Then
		if neg {
			branch = ifn.Else
		}
		if fw.JQIsCall(branch, "empty", 0) == nil {
			return true
		}
		if len(pl) != 2 || !c20IsErrField(pl[0]) {
			why = "the REPL error handler applies _is_context_canceled_error to something else than the .error field of the {error, input} object eval hands to on_error: the test never matches and ^C during an evaluation exits fq"
			return true
		}
		ok = true
		return true
	}, false)
	return
}

// c20ReplWiring checks, in the jq sources, that a cancelled evaluation reaches _repl_on_error
// with the error in .error: eval/4's catch hands {error: .} to on_error, _repl_eval/3 forwards
// its on_error to eval/4 and _repl_loop passes _repl_on_error there.
func c20ReplWiring(ru *fw.Rule, jq *fw.JQ) {
	// eval/4
	if d := jq.Def("pkg/interp/eval.jq", "eval", 4); d == nil || len(d.Def.Args) != 4 {
		ru.Undecided("anchor:eval/4", "", "definition not found in eval.jq")
	} else {
		onErr := d.Def.Args[2]
		ok := false
		fw.WalkJQ(d.Def.Body, func(x any) bool {
			tr, isTry := x.(*gojq.Try)
			if !isTry || tr.Catch == nil {
				return true
			}
			fw.WalkJQ(tr.Catch, func(y any) bool {
				q, isQ := y.(*gojq.Query)
				if !isQ {
					return true
				}
				pl := fw.JQPipeline(q)
				for i := 1; i < len(pl); i++ {
					if fw.JQIsCall(pl[i], onErr, 0) == nil {
						continue
					}
					o := pl[i-1]
					if o.Term == nil || o.Term.Type != gojq.TermTypeObject || o.Term.Object == nil || len(o.Term.SuffixList) != 0 {
						continue
					}
					for _, kv := range o.Term.Object.KeyVals {
						if kv.Key == "error" && kv.Val != nil && kv.Val.Term != nil && kv.Val.Term.Type == gojq.TermTypeIdentity && len(kv.Val.Term.SuffixList) == 0 && kv.Val.Left == nil {
							ok = true
						}
					}
				}
				return true
			}, false)
			return true
		}, false)
		ru.Check(ok, "eval/4:on_error input", d.File.Rel, "catch ... {error: ., ...} | on_error", "eval/4 does not hand the caught error to on_error as the .error field: the REPL handler cannot recognise a cancelled evaluation")
	}
	// _repl_eval/3 -> eval/4
	if d := jq.Def("pkg/interp/repl.jq", "_repl_eval", 3); d == nil || len(d.Def.Args) != 3 {
		ru.Undecided("anchor:_repl_eval/3", "", "definition not found in repl.jq")
	} else {
		ok := false
		for _, c := range fw.JQCalls(d.Def.Body) {
			if c.Name == "eval" && len(c.Args) == 4 && fw.JQIsCall(c.Args[2], d.Def.Args[1], 0) != nil && fw.JQIsCall(c.Args[3], d.Def.Args[2], 0) != nil {
				ok = true
			}
		}
		ru.Check(ok, "_repl_eval/3:on_error wiring", d.File.Rel, "eval(...; on_error; on_compile_error)", "_repl_eval does not pass its on_error / on_compile_error handlers to eval in that order: a cancelled evaluation is handled as a compile error (or the reverse)")
	}
	// _repl_loop -> _repl_eval/3
	if d := jq.Def("pkg/interp/repl.jq", "_repl", 1); d != nil {
		if loop := jq.Nested(d, "_repl_loop", 0); loop != nil {
			ok := false
			for _, c := range fw.JQCalls(loop.Def.Body) {
				if c.Name == "_repl_eval" && len(c.Args) == 3 && fw.JQIsCall(c.Args[1], "_repl_on_error", 0) != nil {
					ok = true
				}
			}
			ru.Check(ok, "_repl_loop/0:on_error wiring", loop.File.Rel, "_repl_eval(...; _repl_on_error; ...)", "the REPL loop does not install _repl_on_error as the error handler of the evaluation: an interrupted evaluation is not ignored")
		}
	}
}

// c20ReplGo: Go side of the ^C-at-the-prompt path: cli maps readline.ErrInterrupt to
// interp.ErrInterrupt and interp raises "interrupt" exactly for ErrInterrupt.
func c20ReplGo(ru *fw.Rule, p *fw.Program) {
	isInterp := func(gl *ssa.Global) bool {
		return gl.Name() == "ErrInterrupt" && gl.Pkg != nil && gl.Pkg.Pkg.Path() == fw.Mod+"/pkg/interp"
	}
	isReadline := func(gl *ssa.Global) bool {
		return gl.Name() == "ErrInterrupt" && gl.Pkg != nil && strings.HasSuffix(gl.Pkg.Pkg.Path(), "/readline")
	}
	// interp: every valueError{"interrupt"} is raised under errors.Is(err, ErrInterrupt)
	n, bad := 0, 0
	var where token.Pos
	for _, fn := range p.FqFunctions() {
		if fw.FnPkgPath(fn) != fw.Mod+"/pkg/interp" {
			continue
		}
		fw.EachInstr(fn, func(ins ssa.Instruction) {
			st, ok := ins.(*ssa.Store)
			if !ok {
				return
			}
			if s, ok := constString(st.Val); !ok || s != "interrupt" {
				return
			}
			fa, ok := st.Addr.(*ssa.FieldAddr)
			if !ok || !strings.HasSuffix(types.TypeString(fa.X.Type(), nil), "valueError") {
				return
			}
			n++
			where = st.Pos()
			if !c20ErrorsIsGuard(st.Block(), isInterp) {
				bad++
			}
		})
	}
	if n > 0 {
		ru.Check(bad == 0, "readline:\"interrupt\" only for ErrInterrupt", p.Rel(where), "raised under errors.Is(err, ErrInterrupt)",
			"the value \"interrupt\" is raised on a path that is not guarded by errors.Is(err, ErrInterrupt) (e.g. the ErrInterrupt / ErrEOF branches are exchanged): ^C at the prompt leaves the REPL and end of input is swallowed")
	}
	// cli: readline.ErrInterrupt -> interp.ErrInterrupt
	n, bad = 0, 0
	tests := 0
	for _, fn := range p.FqFunctions() {
		if fw.FnPkgPath(fn) != fw.Mod+"/pkg/cli" {
			continue
		}
		fw.EachInstr(fn, func(ins ssa.Instruction) {
			if u, ok := ins.(*ssa.UnOp); ok && u.Op == token.MUL {
				if gl, ok := u.X.(*ssa.Global); ok && isReadline(gl) {
					tests++
				}
			}
			ret, ok := ins.(*ssa.Return)
			if !ok {
				return
			}
			for _, r := range ret.Results {
				u, ok := r.(*ssa.UnOp)
				if !ok || u.Op != token.MUL {
					continue
				}
				if gl, ok := u.X.(*ssa.Global); ok && isInterp(gl) {
					n++
					where = ret.Pos()
					if !c20ErrorsIsGuard(ret.Block(), isReadline) {
						bad++
					}
				}
			}
		})
	}
	switch {
	case tests == 0:
		ru.Undecided("cli.Readline:ErrInterrupt mapping", "", "pkg/cli does not test readline.ErrInterrupt (readline bridge moved?)")
	case n == 0:
		ru.Fail("cli.Readline:ErrInterrupt mapping", "", "pkg/cli never returns interp.ErrInterrupt: ^C at the prompt is reported as another error and ends the REPL")
	default:
		ru.Check(bad == 0, "cli.Readline:ErrInterrupt mapping", p.Rel(where), "readline.ErrInterrupt -> interp.ErrInterrupt",
			fmt.Sprintf("interp.ErrInterrupt is returned on %d path(s) not guarded by errors.Is(err, readline.ErrInterrupt): ^C and end of input are confused at the prompt", bad))
	}
}

// c20EvalSuspend: an evaluation whose iterator is handed to gojq lazily can be SUSPENDED
// between two Next calls and then dropped for good (first(f), limit(n; f), label/break, an
// error raised by a sibling): gojq iterators have no Close, so the wrapper never learns about
// it. If the wrapper leaves the entry on the interrupt stack while the evaluation is
// suspended, that dead entry stays the top of the stack for as long as the enclosing
// evaluation runs, and every interrupt cancels it (again) instead of the evaluation in
// progress. Necessary condition: no registered jq function returns the pushed evaluation's
// iterator as is, or the wrapper tells the stack on the suspend path (value returned, no error).
func c20EvalSuspend(ru *fw.Rule, p *fw.Program, eval, w *ssa.Function, push *ssa.Call) {
	const stackPkg = fw.Mod + "/internal/ctxstack"
	// does the wrapper touch the stack when it returns a plain value?
	handled := false
	var next *ssa.Call
	fw.EachInstr(w, func(ins ssa.Instruction) {
		if _, ok := c20IsInvoke(ins, "Next"); ok {
			next = ins.(*ssa.Call)
		}
	})
	if next != nil {
		touches := func(ins ssa.Instruction) bool {
			c, ok := ins.(*ssa.Call)
			if !ok || c.Common().IsInvoke() {
				return false
			}
			if f := c.Common().StaticCallee(); f != nil {
				return fw.FnPkgPath(f) == stackPkg
			}
			if ex, ok := fw.C20Resolve(c.Common().Value).(*ssa.Extract); ok && ex.Tuple == ssa.Value(push) {
				return true
			}
			return false
		}
		v, okV := extractOf(next, 0), extractOf(next, 1)
		if paths, ok := fw.EnumPaths(w, 256); ok {
			n, good := 0, 0
			for _, path := range paths {
				if _, isRet := path.Last().(*ssa.Return); !isRet || !path.Passes(next) {
					continue
				}
				okState, errState := 0, 0
				for _, d := range path.Decisions {
					g := fw.Guard{Cond: d.If.Cond, True: d.Taken}.Normalize()
					val := 2
					if g.True {
						val = 1
					}
					if okV != nil && g.Cond == okV {
						okState = val
					} else if ex, isEx := g.Cond.(*ssa.Extract); isEx && ex.Index == 1 {
						if ta, isTA := ex.Tuple.(*ssa.TypeAssert); isTA && ta.CommaOk && v != nil && ta.X == v {
							errState = val
						}
					}
				}
				if okState != 1 || errState == 1 {
					continue // ended or error: popped (checked by Eval:return after push)
				}
				n++
				found := false
				for _, blk := range path.Blocks {
					for _, ins := range blk.Instrs {
						if !found && touches(ins) && path.PassesBefore(next, ins) {
							found = true
						}
					}
				}
				if found {
					good++
				}
			}
			handled = n > 0 && good == n
		}
	}
	// who hands the iterator of Eval on, and who of them is called by gojq
	returners := map[*ssa.Function]bool{eval: true}
	fns := p.FqFunctions()
	for changed := true; changed; {
		changed = false
		for _, fn := range fns {
			if returners[fn] || fn.Signature.Results().Len() == 0 {
				continue
			}
			for _, ret := range returnsOf(fn) {
				if len(ret.Results) == 0 {
					continue
				}
				r := fw.C20Resolve(ret.Results[0])
				var call *ssa.Call
				if ex, ok := r.(*ssa.Extract); ok && ex.Index == 0 {
					call, _ = ex.Tuple.(*ssa.Call)
				} else if c, ok := r.(*ssa.Call); ok {
					call = c
				}
				if call == nil {
					continue
				}
				if f := call.Common().StaticCallee(); f != nil && returners[f] {
					returners[fn] = true
					changed = true
					break
				}
			}
		}
	}
	reg := jqRegistered(p)
	n := 0
	for _, fn := range fns {
		if !returners[fn] || !reg[fn] {
			continue
		}
		n++
		key := "jq " + jqRegisteredName(p, fn) + ":suspended evaluation stays interrupt target"
		if handled {
			ru.Ok(key, p.Rel(fn.Pos()), "the iterator wrapper tells the interrupt stack when it returns a value")
		} else {
			ru.Fail(key, p.Rel(fn.Pos()), "jq function "+jqRegisteredName(p, fn)+" returns the iterator of a pushed evaluation to gojq as is, and the iterator wrapper leaves the entry on the interrupt stack when it returns a plain value: when gojq drops the iterator (first(f), limit(n; f), label/break) the dead entry stays on top of the stack while the enclosing evaluation runs on, and every interrupt cancels that finished evaluation instead of the one in progress (^C is ignored)")
		}
	}
	if n == 0 {
		ru.Ok("Eval:iterator never handed to gojq lazily", p.Rel(eval.Pos()), "no registered jq function returns the iterator of a pushed evaluation")
	}
}

// c20CtxRSShared: when callWait gives up (context cancelled) the function it handed to the
// reader goroutine may still be running or run later. Variables that function writes (the
// method's named results captured by the closure) must therefore not be touched by the method
// on the path where callWait returned an error: `return 0, err` with named results STORES
// into them, unsynchronised with the reader goroutine (a data race, and the method can return
// the late results of the abandoned call instead of the cancellation error).
func c20CtxRSShared(ru *fw.Rule, p *fw.Program, cw *ssa.Function) {
	for _, name := range []string{"Read", "Seek", "Close"} {
		m := p.Fn("(*internal/ctxreadseeker.Reader)." + name)
		if m == nil || m.Blocks == nil {
			continue
		}
		var call *ssa.Call
		fw.EachInstr(m, func(ins ssa.Instruction) {
			if c, ok := ins.(*ssa.Call); ok && c.Common().StaticCallee() == cw {
				call = c
			}
		})
		if call == nil || len(call.Common().Args) != 2 {
			continue
		}
		key := "Reader." + name + ":results not shared after cancel"
		mc, ok := call.Common().Args[1].(*ssa.MakeClosure)
		if !ok {
			ru.Undecided(key, p.Rel(call.Pos()), "the function handed to callWait is not a closure literal")
			continue
		}
		fn := mc.Fn.(*ssa.Function)
		// cells the closure writes
		written := map[*ssa.Alloc]bool{}
		for i, fv := range fn.FreeVars {
			a, isA := mc.Bindings[i].(*ssa.Alloc)
			if !isA || fv.Referrers() == nil {
				continue
			}
			for _, ref := range *fv.Referrers() {
				if st, isSt := ref.(*ssa.Store); isSt && st.Addr == ssa.Value(fv) {
					written[a] = true
				}
			}
		}
		onCancel := func(b *ssa.BasicBlock) bool {
			for _, g := range fw.Guards(b) {
				g = g.Normalize()
				bo, isBin := g.Cond.(*ssa.BinOp)
				if !isBin || bo.X != ssa.Value(call) || !c20IsNil(bo.Y) {
					continue
				}
				if g.True == (bo.Op == token.NEQ) {
					return true
				}
			}
			return false
		}
		var bad ssa.Instruction
		fw.EachInstr(m, func(ins ssa.Instruction) {
			if bad != nil || !onCancel(ins.Block()) {
				return
			}
			switch x := ins.(type) {
			case *ssa.Store:
				if a, isA := x.Addr.(*ssa.Alloc); isA && written[a] {
					bad = ins
				}
			case *ssa.UnOp:
				if a, isA := x.X.(*ssa.Alloc); isA && x.Op == token.MUL && written[a] {
					bad = ins
				}
			}
		})
		if bad != nil {
			ru.Fail(key, p.Rel(bad.Pos()), name+" accesses a variable written by the function it handed to the reader goroutine on the path where callWait was cancelled (named results assigned by the return statement): the abandoned call can still be running, this is a data race and "+name+" can return the late results instead of the cancellation error")
		} else {
			ru.Ok(key, p.Rel(call.Pos()), "the cancel path does not touch variables of the abandoned call")
		}
	}
}
