package rules

// Positive controls for the rules borrowed in round 8 (same edits as the lending rule's controls, filed under
// the borrowing property so that its thorough tier shows the borrowed rule armed).
func init() {
	const D = "pkg/interp/decode.go"
	const T = "internal/gojqx/types.go"
	const I = "pkg/interp/interp.go"
	AddControl(Control{ID: "c07-wrapkeys-by-nilness", Prop: "C07", Rule: "C07.wrapkeys", File: D,
		Old: "\tv := valueHas(name)\n\tif b, ok := v.(bool); ok && b {\n\t\treturn valueKey(name)\n\t}\n\treturn baseKey(name)",
		New: "\tif v := valueKey(name); v != nil {\n\t\tif _, isErr := v.(error); !isErr {\n\t\t\treturn v\n\t\t}\n\t}\n\t_ = valueHas\n\treturn baseKey(name)", ExpectKey: "key:"})
	AddControl(Control{ID: "c07-wrapnum-valid-inverted", Prop: "C07", Rule: "C07.wrapnum", File: T,
		Old: "if !gojq.ValidNumber(string(v)) {", New: "if gojq.ValidNumber(string(v)) {", ExpectKey: "String.ToNumber"})
	AddControl(Control{ID: "c17-vars-skip-null", Prop: "C17", Rule: "C17.vars", File: I,
		Old: "\tfor k, v := range i.slurps() {\n\t\tvariableNames = append(",
		New: "\tfor k, v := range i.slurps() {\n\t\tif v == nil {\n\t\t\tcontinue\n\t\t}\n\t\tvariableNames = append(", ExpectKey: "variables:all"})
	AddControl(Control{ID: "c18-lazyclone-reader-not-cloned", Prop: "C18", Rule: "C18.lazyclone", File: D,
		Old: "if _, err := bitiox.CopyBits(buf, vvvC); err != nil {", New: "_ = vvvC\n\t\t\t\t\t\tif _, err := bitiox.CopyBits(buf, vvv); err != nil {", ExpectKey: "arm:pkg/bitio.ReaderAtSeeker"})
	AddControl(Control{ID: "c05-transport-bytes-reader-whole", Prop: "C05", Rule: "C05.transport", File: "pkg/bitio/ioreader.go",
		Old: "aBits := bBits - bBits%8", New: "aBits := bBits", ExpectKey: "whole:multiple"})
}

func init() {
	// the bits_format helper gets its copy of the options before the bases are clamped (the clamps moved below it)
	AddControl(Control{ID: "c13-inv-copy-before-clamps", Prop: "C13", Rule: "C13.inv", File: "pkg/interp/interp.go",
		Old: "\topts.Sizebase = mathx.Clamp(2, 36, opts.Sizebase)\n\topts.LineBytes = max(1, opts.LineBytes)\n\topts.DisplayBytes = max(0, opts.DisplayBytes)\n\topts.Decorator = decoratorFromOptions(opts)\n\tif fn, err := bitsFormatFnFromOptions(opts); err != nil {\n\t\treturn nil, err\n\t} else {\n\t\topts.BitsFormatFn = fn\n\t}\n",
		New: "\tif fn, err := bitsFormatFnFromOptions(opts); err != nil {\n\t\treturn nil, err\n\t} else {\n\t\topts.BitsFormatFn = fn\n\t}\n\topts.Sizebase = mathx.Clamp(2, 36, opts.Sizebase)\n\topts.LineBytes = max(1, opts.LineBytes)\n\topts.DisplayBytes = max(0, opts.DisplayBytes)\n\topts.Decorator = decoratorFromOptions(opts)\n",
		ExpectKey: "OptionsFromValue:copy:bitsFormatFnFromOptions:Sizebase"})
}
