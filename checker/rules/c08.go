package rules

// C08: a decode value behaves as its JSON value.
//
// Everything is resolved by role: gojq.JQValue is the interface of the embedded engine, the wrapper types
// are the named types of internal/gojqx and pkg/interp implementing it, the scalar->wrapper function is
// the one function of pkg/interp that invokes scalar.Scalarable.ScalarValue, the array/struct wrappers are
// the types of the two constructor calls in its compound arm, the extra-key base type is the receiver
// of the bound method handed to the fallback helpers. Values are compared as role-based terms
// (fw.TermEnv): receiver = "recv", parameters = "arg0..", access paths, element reads with effective
// index polynomials. Assumption: the functions called inside the analysed methods (makeDecodeValue,
// fmt.Sprintf, len) are pure in their arguments.

import (
	"fmt"
	"go/constant"
	"go/token"
	"go/types"
	"sort"
	"strings"

	"golang.org/x/tools/go/ssa"

	"fqverif/fw"
)

func init() { Register("C08", runC08) }

const gojqPath = "github.com/wader/gojq"

type c08ctx struct {
	r    *fw.Run
	p    *fw.Program
	jqv  *types.Interface
	envs map[*ssa.Function]*fw.TermEnv

	mkOut    *ssa.Function // makeDecodeValueOut (role: invokes Scalarable.ScalarValue)
	mk       []*ssa.Function
	kindOf   map[string]int64 // ScalarValue/ScalarActual/ScalarSym -> decodeValueKind constant
	arrayDV  *types.Named
	structDV *types.Named
	baseT    *types.Named            // decodeValueBase
	byKind   map[string]*types.Named // "array" -> gojqx.Array ...
	wrappers []*types.Named          // every named type of gojqx / interp implementing JQValue
}

func (c *c08ctx) env(fn *ssa.Function) *fw.TermEnv {
	if e, ok := c.envs[fn]; ok {
		return e
	}
	e := fw.NewTermEnv(fn)
	c.envs[fn] = e
	return e
}

func (c *c08ctx) pos(fn *ssa.Function) string {
	if fn == nil {
		return ""
	}
	return c.p.Rel(fn.Pos())
}

// method returns the method declared (not promoted) on T or *T.
func (c *c08ctx) method(T *types.Named, name string) *ssa.Function {
	if T == nil {
		return nil
	}
	for i := 0; i < T.NumMethods(); i++ {
		m := T.Method(i)
		if m.Name() == name {
			return c.p.SSA.FuncValue(m)
		}
	}
	return nil
}

// runeConv is the rendering of a conversion to the representation type of the string wrapper.
func (c *c08ctx) runeConv() string {
	return "conv<" + fw.TypeStr(c.byKind["string"].Underlying()) + ">"
}

func tname(T *types.Named) string {
	if T == nil {
		return "<nil>"
	}
	return T.Obj().Name()
}

func runC08(r *fw.Run, p *fw.Program) {
	c := &c08ctx{r: r, p: p, envs: map[*ssa.Function]*fw.TermEnv{}, kindOf: map[string]int64{}, byKind: map[string]*types.Named{}}
	r.Assumption("C08: functions called inside the analysed wrapper methods (makeDecodeValue, fmt.Sprintf, len, big.NewInt) are pure in their arguments; decode.Compound.ByName is kept in sync with Children (C03)")
	if !c.anchors() {
		return
	}
	c.ruleValue()
	c.ruleKinds()
	c.ruleKindSel()
	c.ruleKeys()
	c.ruleFallback()
	c.ruleLayer()
	c.ruleIface()
	c.ruleToGoJQ()
	c.ruleTyp()
	c.ruleLazy()
	c.ruleOrder()
	c.ruleNumLen()
	c.ruleStrNum()
	c.ruleNullSem()
	c.ruleErrs()
	c.ruleByName()
	c.rulePure()
	c.ruleToValue()
	c.ruleJQ()
	c.ruleDelegate()
	// a decoded integer is a *big.Int, a decoded float a float64: what tojson / output print for them must be the
	// engine encoder's digits (borrowed from C07.json, value and float roles)
	if ref, err := c07LoadRef(p); err != nil {
		r.Rule("C08.json", "borrowed C07.json", 1).Undecided("borrowed:C07.json", "", err.Error())
	} else {
		sc := r.Scratch()
		c07Encoder(sc, p, ref)
		r.Import(sc, "C07.json", "C08.json", "a decode value's number prints as its JSON value's number: colorjson's value and float roles (type dispatch incl. *big.Int in base 10 with its sign, float formatting) have exactly the engine encoder's effects (C07.json obligations of the value/float roles)", 10, func(k string) bool {
			return strings.Contains(k, "value:") || strings.Contains(k, "float:") || strings.HasPrefix(k, "anchor")
		})
	}
}

// ---------------------------------------------------------------------------
// anchors

func (c *c08ctx) anchors() bool {
	ru := c.r.Rule("C08.anchors", "the mechanisms the rules are about resolve by role (gojq.JQValue, the scalar->wrapper function, the array/struct decode wrappers, the extra-key base type, one gojqx wrapper per JSON type)", 11)
	gp := c.p.ByPath[gojqPath]
	if gp == nil || gp.Types == nil || gp.Types.Scope().Lookup("JQValue") == nil {
		ru.Undecided("gojq.JQValue", "", "interface github.com/wader/gojq.JQValue not found")
		return false
	}
	c.jqv, _ = gp.Types.Scope().Lookup("JQValue").Type().Underlying().(*types.Interface)
	if c.jqv == nil {
		ru.Undecided("gojq.JQValue", "", "gojq.JQValue is not an interface")
		return false
	}
	ru.Ok("gojq.JQValue", "", fmt.Sprintf("%d methods", c.jqv.NumMethods()))

	// wrapper types
	for _, rel := range []string{"internal/gojqx", "pkg/interp"} {
		pk := c.p.Pkg(rel)
		if pk == nil {
			ru.Undecided("pkg:"+rel, "", "package not loaded")
			return false
		}
		sc := pk.Types.Scope()
		for _, n := range sc.Names() {
			tn, ok := sc.Lookup(n).(*types.TypeName)
			if !ok || tn.IsAlias() {
				continue
			}
			nt, ok := tn.Type().(*types.Named)
			if !ok || nt.TypeParams().Len() > 0 {
				continue
			}
			if _, isIface := nt.Underlying().(*types.Interface); isIface {
				continue
			}
			if fw.Implements(nt, c.jqv) {
				c.wrappers = append(c.wrappers, nt)
			}
		}
	}
	// one gojqx wrapper per JSON type, by the constant JQValueType returns
	for _, w := range c.wrappers {
		if w.Obj().Pkg().Path() != fw.Mod+"/internal/gojqx" {
			continue
		}
		f := c.method(w, "JQValueType")
		if f == nil || f.Blocks == nil {
			continue
		}
		cases := fw.ReturnCases(f, 0)
		if len(cases) != 1 {
			continue
		}
		if s, ok := constString(cases[0].Val); ok {
			if prev, dup := c.byKind[s]; dup {
				ru.Fail("kind:"+s, c.pos(f), "two gojqx wrappers claim JSON type "+s+": "+tname(prev)+" and "+tname(w))
				continue
			}
			c.byKind[s] = w
		}
	}
	okAll := true
	for _, k := range []string{"array", "object", "number", "string", "boolean", "null"} {
		if w := c.byKind[k]; w != nil {
			ru.Ok("kind:"+k, c.pos(c.method(w, "JQValueType")), "gojqx."+tname(w)+".JQValueType() == "+k)
		} else {
			ru.Undecided("kind:"+k, "", "no gojqx wrapper whose JQValueType() is the constant "+k)
			okAll = false
		}
	}
	// the scalar -> wrapper function
	for _, fn := range c.p.FqFunctions() {
		if pkgRel(fn) != "pkg/interp" || fn.Parent() != nil {
			continue
		}
		for _, call := range fw.CallsIn(fn) {
			cc := call.Common()
			if cc.IsInvoke() && cc.Method.Name() == "ScalarValue" && fw.TypeStr(cc.Value.Type()) == "pkg/scalar.Scalarable" {
				if c.mkOut != nil && c.mkOut != fn {
					ru.Undecided("makeDecodeValueOut", c.pos(fn), "more than one function of pkg/interp invokes Scalarable.ScalarValue: "+fw.ShortFn(c.mkOut)+", "+fw.ShortFn(fn))
					return false
				}
				c.mkOut = fn
			}
		}
	}
	if c.mkOut == nil {
		ru.Undecided("makeDecodeValueOut", "", "no function of pkg/interp invokes scalar.Scalarable.ScalarValue")
		return false
	}
	ru.Ok("makeDecodeValueOut", c.pos(c.mkOut), fw.ShortFn(c.mkOut))
	// forwarding helpers: single-block functions returning a call of mkOut
	c.mk = []*ssa.Function{c.mkOut}
	for _, fn := range c.p.FqFunctions() {
		if pkgRel(fn) != "pkg/interp" || len(fn.Blocks) != 1 || fn == c.mkOut {
			continue
		}
		for _, call := range fw.CallsIn(fn) {
			if call.Common().StaticCallee() == c.mkOut {
				if _, isParam := call.Common().Args[1].(*ssa.Parameter); isParam {
					c.mk = append(c.mk, fn)
				}
			}
		}
	}
	// array / struct decode wrappers: the constructor calls in the *decode.Compound arm
	for _, call := range fw.CallsIn(c.mkOut) {
		f := call.Common().StaticCallee()
		if f == nil || f.Signature.Results().Len() != 1 {
			continue
		}
		nt, ok := f.Signature.Results().At(0).Type().(*types.Named)
		if !ok || !fw.Implements(nt, c.jqv) {
			continue
		}
		var isArr *bool
		for _, cd := range fw.BlockConds(call.Block()) {
			if strings.HasSuffix(c.env(c.mkOut).Term(cd.Val), ".IsArray") {
				v := cd.True
				isArr = &v
			}
		}
		if isArr == nil {
			continue
		}
		if *isArr {
			c.arrayDV = nt
		} else {
			c.structDV = nt
		}
	}
	if c.arrayDV == nil || c.structDV == nil || c.arrayDV == c.structDV {
		ru.Undecided("compound-wrappers", c.pos(c.mkOut), "cannot resolve the array and struct decode wrappers from the IsArray branch of "+fw.ShortFn(c.mkOut))
		return false
	}
	ru.Ok("compound-wrappers", c.pos(c.mkOut), tname(c.arrayDV)+" / "+tname(c.structDV))
	// extra-key base type: embedded field of both wrappers that has ExtKeys
	for _, T := range []*types.Named{c.arrayDV, c.structDV} {
		st, _ := T.Underlying().(*types.Struct)
		for i := 0; st != nil && i < st.NumFields(); i++ {
			ft, ok := st.Field(i).Type().(*types.Named)
			if ok && st.Field(i).Embedded() && c.method(ft, "ExtKeys") != nil && c.method(ft, "JQValueKey") != nil {
				if c.baseT != nil && c.baseT != ft {
					ru.Undecided("base", "", "array and struct wrappers embed different extra-key types")
					return false
				}
				c.baseT = ft
			}
		}
	}
	if c.baseT == nil {
		ru.Undecided("base", "", "no embedded type with ExtKeys/JQValueKey in the decode wrappers")
		return false
	}
	ru.Ok("base", c.pos(c.method(c.baseT, "ExtKeys")), tname(c.baseT))
	ru.Check(len(c.wrappers) >= 11, "wrappers", "", fmt.Sprintf("%d JQValue implementations in gojqx/interp", len(c.wrappers)),
		fmt.Sprintf("only %d JQValue implementations found in gojqx/interp", len(c.wrappers)))
	return okAll
}

// ---------------------------------------------------------------------------
// small predicates on conditions

// nilTest: cond is `x == nil` / `x != nil`; returns the term of x and whether x is known non-nil.
func nilTest(e *fw.TermEnv, cd fw.Cond) (string, bool, bool) {
	b, ok := cd.Val.(*ssa.BinOp)
	if !ok || (b.Op != token.EQL && b.Op != token.NEQ) {
		return "", false, false
	}
	var other ssa.Value
	if isNilConst(b.X) {
		other = b.Y
	} else if isNilConst(b.Y) {
		other = b.X
	} else {
		return "", false, false
	}
	return e.Term(other), (b.Op == token.NEQ) == cd.True, true
}

func hasCond(e *fw.TermEnv, conds []fw.Cond, term string, val bool) bool {
	for _, cd := range conds {
		if cd.True == val && e.Term(cd.Val) == term {
			return true
		}
	}
	return false
}

func isConstBool(v ssa.Value, want bool) bool {
	if mi, ok := v.(*ssa.MakeInterface); ok {
		v = mi.X
	}
	cst, ok := v.(*ssa.Const)
	return ok && cst.Value != nil && cst.Value.Kind() == constant.Bool && constant.BoolVal(cst.Value) == want
}

func isConstNil(v ssa.Value) bool {
	if mi, ok := v.(*ssa.MakeInterface); ok {
		v = mi.X
	}
	cst, ok := v.(*ssa.Const)
	return ok && cst.Value == nil
}

// ---------------------------------------------------------------------------
// C08.value: ScalarValue = Sym if it has one, otherwise Actual

func (c *c08ctx) ruleValue() {
	ru := c.r.Rule("C08.value", "every scalar.Scalarable type: ScalarActual returns Actual, ScalarSym returns Sym, ScalarValue returns Sym exactly when Sym != nil and Actual otherwise", 21)
	sn := c.p.NamedType("pkg/scalar", "Scalarable")
	if sn == nil {
		ru.Undecided("anchor", "", "pkg/scalar.Scalarable not found")
		return
	}
	iface, _ := sn.Underlying().(*types.Interface)
	sc := c.p.Pkg("pkg/scalar").Types.Scope()
	for _, n := range sc.Names() {
		tn, ok := sc.Lookup(n).(*types.TypeName)
		if !ok {
			continue
		}
		nt, ok := tn.Type().(*types.Named)
		if !ok || nt == sn || iface == nil || !fw.Implements(nt, iface) {
			continue
		}
		for _, m := range []struct{ name, want string }{{"ScalarActual", "recv.Actual"}, {"ScalarSym", "recv.Sym"}} {
			f := c.method(nt, m.name)
			key := n + "." + m.name
			if f == nil || f.Blocks == nil {
				ru.Undecided(key, "", "method not declared on the type")
				continue
			}
			e := c.env(f)
			good := true
			got := ""
			for _, rc := range fw.ReturnCases(f, 0) {
				got = e.Term(rc.Val)
				if got != m.want {
					good = false
				}
			}
			ru.Check(good, key, c.pos(f), "returns "+m.want, "returns "+got+", expected "+m.want)
		}
		f := c.method(nt, "ScalarValue")
		key := n + ".ScalarValue"
		if f == nil || f.Blocks == nil {
			ru.Undecided(key, "", "method not declared on the type")
			continue
		}
		e := c.env(f)
		var nSym, nAct int
		msg := ""
		for _, rc := range fw.ReturnCases(f, 0) {
			t := e.Term(rc.Val)
			// every path to this return knows Sym != nil (resp. == nil)
			knows := func(nonNil bool) bool {
				return !fw.CaseReachable(f, rc, func(cd fw.Cond) bool {
					x, nn, ok := nilTest(e, cd)
					return ok && x == "recv.Sym" && nn == nonNil
				})
			}
			switch t {
			case "recv.Sym":
				nSym++
				if !knows(true) {
					msg = "returns Sym on a path where Sym may be nil"
				}
			case "recv.Actual":
				nAct++
				if !knows(false) {
					msg = "returns Actual on a path where Sym may be non-nil: a symbolic value would be ignored"
				}
			default:
				msg = "returns " + t + ", neither Sym nor Actual"
			}
		}
		if msg == "" && (nSym == 0 || nAct == 0) {
			msg = "does not return both Sym and Actual"
		}
		ru.Check(msg == "", key, c.pos(f), "Sym if non-nil else Actual", msg)
	}
}

// ---------------------------------------------------------------------------
// C08.kinds: Go type of the scalar value -> gojqx wrapper of the matching JSON type

// jsonKindOfGo: the JSON type a Go value of static type t has in gojq.
func jsonKindOfGo(t types.Type) string {
	if t == nil {
		return "null"
	}
	if pt, ok := t.(*types.Pointer); ok {
		if fw.TypeStr(pt.Elem()) == "math/big.Int" {
			return "number"
		}
		return ""
	}
	switch u := t.Underlying().(type) {
	case *types.Basic:
		switch {
		case u.Info()&types.IsBoolean != 0:
			return "boolean"
		case u.Info()&types.IsNumeric != 0 && u.Info()&types.IsComplex == 0:
			return "number"
		case u.Info()&types.IsString != 0:
			return "string"
		}
	case *types.Slice:
		if _, ok := t.(*types.Named); !ok {
			return "array"
		}
	case *types.Map:
		if _, ok := t.(*types.Named); !ok {
			return "object"
		}
	}
	return ""
}

func (c *c08ctx) ruleKinds() {
	ru := c.r.Rule("C08.kinds", "each arm of the scalar type switch wraps the value in the gojqx wrapper of its JSON type, carrying exactly the asserted value (int64 via big.NewInt, uint64 via SetUint64, string via []rune conversion, raw bits as lazy string with isRaw, read from a clone so the decode value's own reader keeps its position), bound to the same decode value; compound constructors wire dv/out/Compound and the array/object type", 15)
	f := c.mkOut
	e := c.env(f)
	dvParam := ""
	for _, pa := range f.Params {
		if fw.TypeStr(pa.Type()) == "*pkg/decode.Value" {
			dvParam = e.Term(pa)
		}
	}
	if dvParam == "" {
		ru.Undecided("anchor", c.pos(f), "no *decode.Value parameter")
		return
	}
	seenArms := map[string]bool{}
	for _, rc := range fw.ReturnCases(f, 0) {
		// which type did the scalar value have on this arm
		var asserted types.Type
		var aTerm string
		isNilArm := false
		n := 0
		for _, cd := range rc.Conds {
			if ex, ok := cd.Val.(*ssa.Extract); ok && ex.Index == 1 && cd.True {
				if ta, ok := ex.Tuple.(*ssa.TypeAssert); ok {
					if _, isPhi := ta.X.(*ssa.Phi); isPhi {
						asserted = ta.AssertedType
						aTerm = e.Term(ta) + ".v"
						n++
					}
				}
			}
			if x, nn, ok := nilTest(e, cd); ok && !nn && strings.HasPrefix(x, "phi@") {
				isNilArm = true
				n++
			}
		}
		if n == 0 {
			continue // compound arm, handled below
		}
		armName := "nil"
		if asserted != nil {
			armName = fw.TypeStr(asserted)
		}
		key := "arm:" + armName
		if n > 1 || seenArms[armName] {
			ru.Undecided(key, c.p.Rel(rc.Val.Pos()), "arm guarded by more than one positive type test")
			continue
		}
		seenArms[armName] = true
		pos := c.p.Rel(rc.Block.Instrs[len(rc.Block.Instrs)-1].Pos())
		lt, fields, isLit := fw.LitFields(rc.Val)
		if !isLit {
			// value returned as is: allowed only for a type that itself implements JQValue
			if asserted != nil && fw.Implements(asserted, c.jqv) && e.Term(rc.Val) == aTerm {
				ru.Ok(key, pos, "already a jq value, returned as is")
			} else {
				ru.Fail(key, pos, "arm does not build a decode value wrapper: returns "+e.Term(rc.Val))
			}
			continue
		}
		_ = lt
		var msgs []string
		// bound to the same decode value
		if dv := fields["decodeValueBase.dv"]; dv == nil || e.Term(dv) != dvParam {
			msgs = append(msgs, "wrapper is not bound to the decode value being wrapped")
		}
		jv := fields["JQValue"]
		if jv == nil {
			ru.Fail(key, pos, "wrapper has no JQValue")
			continue
		}
		inner := jv
		if mi, ok := inner.(*ssa.MakeInterface); ok {
			inner = mi.X
		}
		wt := inner.Type()
		if pt, ok := wt.(*types.Pointer); ok {
			wt = pt.Elem()
		}
		wn, _ := wt.(*types.Named)
		raw := fields["isRaw"]
		kind := ""
		if isNilArm {
			kind = "null"
		} else {
			kind = jsonKindOfGo(asserted)
		}
		_, isIface := types.Type(nil), false
		if asserted != nil {
			_, isIface = asserted.Underlying().(*types.Interface)
		}
		if isIface {
			// raw bits: lazy string
			lf, lfields, ok := fw.LitFields(inner)
			if !ok || !strings.HasSuffix(fw.TypeStr(lf), "gojqx.Lazy") {
				msgs = append(msgs, "bit reader is not wrapped in a gojqx.Lazy")
			} else {
				if s, ok := constString(lfields["Type"]); !ok || s != "string" {
					msgs = append(msgs, "lazy raw value does not have jq type string")
				}
				if lfields["IsScalar"] == nil || !isConstBool(lfields["IsScalar"], true) {
					msgs = append(msgs, "lazy raw value is not marked IsScalar")
				}
				if mc, ok := lfields["Fn"].(*ssa.MakeClosure); !ok {
					msgs = append(msgs, "lazy raw value has no producer closure")
				} else {
					cf := mc.Fn.(*ssa.Function)
					ce := c.env(cf)
					good := false
					for _, crc := range fw.ReturnCases(cf, 0) {
						t := ce.Term(crc.Val)
						if isConstNil(crc.Val) {
							continue
						}
						mi, _ := crc.Val.(*ssa.MakeInterface)
						if mi != nil && mi.X.Type() == types.Type(c.byKind["string"]) && strings.HasPrefix(t, c.runeConv()+"(") && strings.Contains(t, "String(") {
							good = true
						} else {
							msgs = append(msgs, "lazy producer returns "+t+", expected gojqx string of the buffer converted to runes")
						}
					}
					if !good {
						msgs = append(msgs, "lazy producer never returns a gojqx string")
					}
					// the bits copied are those of the asserted reader
					uses := false
					for _, call := range fw.CallsIn(cf) {
						if strings.Contains(ce.Term(call.Value()), aTerm) {
							uses = true
						}
					}
					if !uses {
						msgs = append(msgs, "lazy producer does not read the asserted bit reader")
					}
					// reading must not move the shared reader's position: the asserted reader itself is only
					// ever cloned (or read positionally); everything sequential works on the clone
					for _, call := range fw.CallsIn(cf) {
						cc := call.Common()
						if cc.IsInvoke() && ce.Term(cc.Value) == aTerm && !c08NonConsuming(cc.Method.Name()) {
							msgs = append(msgs, "lazy producer invokes "+cc.Method.Name()+" on the decode value's own reader: its read position moves, so a later read of the same field sees other bytes")
						}
						for _, a := range cc.Args {
							if ce.Term(a) != aTerm {
								continue
							}
							if callee := cc.StaticCallee(); !c08IsCloneFn(callee) {
								n := "a dynamic callee"
								if callee != nil {
									n = fw.ShortFn(callee)
								}
								msgs = append(msgs, "lazy producer hands the decode value's own reader to "+n+" instead of a clone: its read position moves, so a later read of the same field sees other bytes")
							}
						}
					}
				}
			}
			if raw == nil || !isConstBool(raw, true) {
				msgs = append(msgs, "raw-bit value is not marked isRaw (tovalue would not keep the bytes)")
			}
			ru.Check(len(msgs) == 0, key, pos, "lazy string, isRaw", strings.Join(msgs, "; "))
			continue
		}
		if raw != nil && !isConstBool(raw, false) {
			msgs = append(msgs, "non-raw value marked isRaw")
		}
		if kind == "" {
			ru.Undecided(key, pos, "no JSON type known for Go type "+armName)
			continue
		}
		want := c.byKind[kind]
		if wn != want {
			msgs = append(msgs, fmt.Sprintf("Go %s has JSON type %s but is wrapped in %s (expected gojqx.%s)", armName, kind, fw.TypeStr(wt), tname(want)))
		} else {
			pt := e.Term(inner)
			switch kind {
			case "null":
			case "number":
				_, nf, ok := fw.LitFields(inner)
				if !ok || nf["V"] == nil {
					msgs = append(msgs, "number wrapper without payload")
					break
				}
				vt := e.Term(nf["V"])
				okV := vt == aTerm
				if b, isB := asserted.Underlying().(*types.Basic); isB {
					switch b.Kind() {
					case types.Int64:
						okV = vt == "call math/big.NewInt("+aTerm+")"
					case types.Uint64:
						okV = strings.HasPrefix(vt, "call (*math/big.Int).SetUint64(") && strings.HasSuffix(vt, ", "+aTerm+")")
					case types.Int, types.Float64:
					default:
						// narrower numeric kinds: the value itself or a widening conversion of it
						okV = okV || vt == "conv<float64>("+aTerm+")" || vt == "conv<int>("+aTerm+")" || vt == "conv<int64>("+aTerm+")" || vt == "conv<uint64>("+aTerm+")"
					}
				}
				if !okV {
					msgs = append(msgs, "number payload is "+vt+", not the exact value of the asserted "+armName)
				}
			case "string":
				if pt != c.runeConv()+"("+aTerm+")" {
					msgs = append(msgs, "string payload is "+pt+", expected the asserted string converted to runes")
				}
			default:
				if pt != aTerm {
					msgs = append(msgs, "payload is "+pt+", expected the asserted value "+aTerm)
				}
			}
		}
		ru.Check(len(msgs) == 0, key, pos, armName+" -> gojqx."+tname(want), strings.Join(msgs, "; "))
	}
	// every Go type the deep conversion (ToGoJQValueFn) passes through unchanged as a leaf must have an arm
	for _, need := range []string{"bool", "int", "float64", "string", "*math/big.Int", "[]any", "map[string]any", "nil"} {
		ru.Check(seenArms[need], "has-arm:"+need, c.pos(f), "arm present", "no arm for scalar values of Go type "+need+": such a value crashes or is mis-typed")
	}
	// compound constructors
	for _, w := range []struct {
		T    *types.Named
		kind string
	}{{c.arrayDV, "array"}, {c.structDV, "object"}} {
		var ctor *ssa.Function
		var call ssa.CallInstruction
		for _, cl := range fw.CallsIn(f) {
			if cf := cl.Common().StaticCallee(); cf != nil && cf.Signature.Results().Len() == 1 && cf.Signature.Results().At(0).Type() == types.Type(w.T) {
				ctor, call = cf, cl
			}
		}
		key := "ctor:" + tname(w.T)
		if ctor == nil {
			ru.Undecided(key, c.pos(f), "constructor call not found")
			continue
		}
		ce := c.env(ctor)
		var msgs []string
		// argument wiring at the call: (dv, out, compound asserted from dv.V)
		args := call.Common().Args
		argT := []string{}
		for _, a := range args {
			argT = append(argT, e.Term(a))
		}
		role := map[string]string{} // ctor param term -> role
		for i, pa := range ctor.Params {
			if i >= len(args) {
				break
			}
			switch {
			case argT[i] == dvParam:
				role[ce.Term(pa)] = "dv"
			case strings.HasPrefix(argT[i], "assert<*pkg/decode.Compound>("+dvParam+".V)"):
				role[ce.Term(pa)] = "compound"
			default:
				if _, isP := args[i].(*ssa.Parameter); isP {
					role[ce.Term(pa)] = "out"
				}
			}
		}
		rcs := fw.ReturnCases(ctor, 0)
		if len(rcs) != 1 {
			ru.Undecided(key, c.pos(ctor), "constructor has several returns")
			continue
		}
		_, cf, ok := fw.LitFields(rcs[0].Val)
		if !ok {
			ru.Undecided(key, c.pos(ctor), "constructor does not return a composite literal")
			continue
		}
		if s, ok := constString(cf["Base.Typ"]); !ok || s != w.kind {
			msgs = append(msgs, "jq type of the wrapper is not the constant "+w.kind)
		}
		if v := cf["decodeValueBase.dv"]; v == nil || role[ce.Term(v)] != "dv" {
			msgs = append(msgs, "decodeValueBase.dv is not the decode value")
		}
		if v := cf["decodeValueBase.out"]; v == nil || role[ce.Term(v)] != "out" {
			msgs = append(msgs, "decodeValueBase.out is not the format out value")
		}
		if v := cf["Compound"]; v == nil || role[ce.Term(v)] != "compound" {
			msgs = append(msgs, "Compound is not the compound of the decode value")
		}
		ru.Check(len(msgs) == 0, key, c.pos(ctor), "wired dv/out/Compound, type "+w.kind, strings.Join(msgs, "; "))
	}
}

// c08NonConsuming: reader methods that leave the read position alone.
func c08NonConsuming(method string) bool {
	return strings.HasPrefix(method, "Clone") || method == "ReadBitsAt"
}

// c08IsCloneFn: a function of pkg/bitio whose only use of its argument is to invoke its Clone* method.
func c08IsCloneFn(f *ssa.Function) bool {
	if f == nil || f.Blocks == nil || pkgRel(f) != "pkg/bitio" {
		return false
	}
	n := 0
	for _, call := range fw.CallsIn(f) {
		if cc := call.Common(); cc.IsInvoke() {
			if !strings.HasPrefix(cc.Method.Name(), "Clone") {
				return false
			}
			n++
		}
	}
	return n > 0
}

// ---------------------------------------------------------------------------
// C08.kindsel

func (c *c08ctx) ruleKindSel() {
	ru := c.r.Rule("C08.kindsel", "value/actual/sym selection: each Scalar* accessor is invoked under its own kind constant; every wrapper method and every extra key wraps children with the value kind, only _actual/_sym use theirs", 18)
	f := c.mkOut
	e := c.env(f)
	var kindParam ssa.Value
	for _, pa := range f.Params {
		if b, ok := pa.Type().Underlying().(*types.Basic); ok && b.Info()&types.IsInteger != 0 {
			kindParam = pa
		}
	}
	if kindParam == nil {
		ru.Undecided("anchor", c.pos(f), "no integer kind parameter")
		return
	}
	kt := e.Term(kindParam)
	for _, call := range fw.CallsIn(f) {
		cc := call.Common()
		if !cc.IsInvoke() || !strings.HasPrefix(cc.Method.Name(), "Scalar") || cc.Method.Type().(*types.Signature).Results().Len() != 1 {
			continue
		}
		if fw.TypeStr(cc.Method.Type().(*types.Signature).Results().At(0).Type()) != "any" {
			continue
		}
		key := "select:" + cc.Method.Name()
		found := false
		for _, cd := range fw.BlockConds(call.Block()) {
			b, ok := cd.Val.(*ssa.BinOp)
			if !ok || b.Op != token.EQL || !cd.True {
				continue
			}
			var k ssa.Value
			if e.Term(b.X) == kt {
				k = b.Y
			} else if e.Term(b.Y) == kt {
				k = b.X
			}
			if cst, ok := k.(*ssa.Const); ok && cst.Value != nil {
				if v, ok := constant.Int64Val(cst.Value); ok {
					if _, dup := c.kindOf[cc.Method.Name()]; dup {
						ru.Fail(key, c.p.Rel(call.Pos()), "accessor invoked under two kinds")
					}
					c.kindOf[cc.Method.Name()] = v
					found = true
				}
			}
		}
		if !found {
			// the remaining branch of an if-chain: every other constant of the kind type is excluded
			excluded := map[int64]bool{}
			for _, cd := range fw.BlockConds(call.Block()) {
				b, ok := cd.Val.(*ssa.BinOp)
				if !ok || !((b.Op == token.EQL && !cd.True) || (b.Op == token.NEQ && cd.True)) {
					continue
				}
				var k ssa.Value
				if e.Term(b.X) == kt {
					k = b.Y
				} else if e.Term(b.Y) == kt {
					k = b.X
				}
				if cst, ok := k.(*ssa.Const); ok && cst.Value != nil {
					if v, ok := constant.Int64Val(cst.Value); ok {
						excluded[v] = true
					}
				}
			}
			var remaining []int64
			if nt, ok := kindParam.Type().(*types.Named); ok && nt.Obj().Pkg() != nil {
				sc := nt.Obj().Pkg().Scope()
				for _, n := range sc.Names() {
					if cn, ok := sc.Lookup(n).(*types.Const); ok && types.Identical(cn.Type(), nt) {
						if v, ok := constant.Int64Val(cn.Val()); ok && !excluded[v] {
							remaining = append(remaining, v)
						}
					}
				}
			}
			if len(remaining) == 1 {
				if _, dup := c.kindOf[cc.Method.Name()]; dup {
					ru.Fail(key, c.p.Rel(call.Pos()), "accessor invoked under two kinds")
				}
				c.kindOf[cc.Method.Name()] = remaining[0]
				found = true
			}
		}
		ru.Check(found, key, c.p.Rel(call.Pos()), fmt.Sprintf("under kind == %d", c.kindOf[cc.Method.Name()]), "accessor not guarded by a kind constant")
	}
	vk, ok1 := c.kindOf["ScalarValue"]
	ak, ok2 := c.kindOf["ScalarActual"]
	sk, ok3 := c.kindOf["ScalarSym"]
	if !ok1 || !ok2 || !ok3 || vk == ak || vk == sk || ak == sk {
		ru.Fail("select:distinct", c.pos(f), "ScalarValue/ScalarActual/ScalarSym are not selected by three distinct kind constants")
		return
	}
	// the result of the selection reaches the type switch (the switch value is the phi of the three)
	// call sites
	isMk := map[*ssa.Function]bool{}
	for _, m := range c.mk {
		isMk[m] = true
	}
	baseKey := c.method(c.baseT, "JQValueKey")
	seenSpecial := map[string]bool{}
	for _, fn := range c.p.FqFunctions() {
		if isMk[fn] && fn != c.mkOut {
			continue
		}
		en := c.env(fn)
		ord := 0
		for _, call := range fw.CallsIn(fn) {
			callee := call.Common().StaticCallee()
			if !isMk[callee] {
				continue
			}
			ord++
			key := fmt.Sprintf("site:%s#%d", fw.ShortFn(fn), ord)
			cst, ok := call.Common().Args[1].(*ssa.Const)
			if !ok || cst.Value == nil {
				ru.Undecided(key, c.p.Rel(call.Pos()), "kind argument is not a constant")
				continue
			}
			k, _ := constant.Int64Val(cst.Value)
			want := vk
			why := "value"
			if fw.Top(fn) == baseKey {
				for _, cd := range fw.BlockConds(call.Block()) {
					b, ok := cd.Val.(*ssa.BinOp)
					if !ok || b.Op != token.EQL || !cd.True {
						continue
					}
					for _, s := range []ssa.Value{b.X, b.Y} {
						if name, ok := constString(s); ok {
							switch name {
							case "_actual":
								want, why = ak, "actual"
								seenSpecial[name] = true
							case "_sym":
								want, why = sk, "sym"
								seenSpecial[name] = true
							}
						}
					}
				}
			}
			_ = en
			ru.Check(k == want, key, c.p.Rel(call.Pos()), "kind "+why, fmt.Sprintf("wraps with kind %d, expected the %s kind %d: the jq value would be the wrong one of sym/actual", k, why, want))
		}
	}
	for _, s := range []string{"_actual", "_sym"} {
		ru.Check(seenSpecial[s], "key:"+s, c.pos(baseKey), "wraps with its own kind", "extra key "+s+" does not wrap the decode value with its kind")
	}
}

// ---------------------------------------------------------------------------
// C08.keys

// strCompares collects the string constants compared for equality with a value derived from param pa.
func strCompares(e *fw.TermEnv, fn *ssa.Function, derived func(term string) bool) map[string]*ssa.BinOp {
	out := map[string]*ssa.BinOp{}
	fw.EachInstr(fn, func(ins ssa.Instruction) {
		b, ok := ins.(*ssa.BinOp)
		if !ok || b.Op != token.EQL {
			return
		}
		if s, ok := constString(b.Y); ok && derived(e.Term(b.X)) {
			out[s] = b
		} else if s, ok := constString(b.X); ok && derived(e.Term(b.Y)) {
			out[s] = b
		}
	})
	return out
}

func (c *c08ctx) ruleKeys() {
	ru := c.r.Rule("C08.keys", "the extra-key list (ExtKeys), the keys has() accepts and the keys lookup serves are the same set; every one is underscore-prefixed and has() answers true for it, and for nothing else", 20)
	fe, fh, fk := c.method(c.baseT, "ExtKeys"), c.method(c.baseT, "JQValueHas"), c.method(c.baseT, "JQValueKey")
	if fe == nil || fh == nil || fk == nil {
		ru.Undecided("anchor", "", "ExtKeys/JQValueHas/JQValueKey not all declared on "+tname(c.baseT))
		return
	}
	ext := map[string]bool{}
	rcs := fw.ReturnCases(fe, 0)
	if len(rcs) != 1 {
		ru.Undecided("ExtKeys", c.pos(fe), "several returns")
		return
	}
	elems, ok := fw.SliceLitElems(rcs[0].Val)
	if !ok {
		ru.Undecided("ExtKeys", c.pos(fe), "does not return a slice literal")
		return
	}
	for _, el := range elems {
		s, ok := constString(el)
		if !ok {
			ru.Undecided("ExtKeys", c.pos(fe), "non-constant element")
			return
		}
		if ext[s] {
			ru.Fail("dup:"+s, c.pos(fe), "extra key listed twice")
		}
		ext[s] = true
	}
	eh, ek := c.env(fh), c.env(fk)
	has := strCompares(eh, fh, func(t string) bool { return strings.Contains(t, "arg0") })
	key := strCompares(ek, fk, func(t string) bool { return t == "arg0" })
	if len(has) == 0 || len(key) == 0 {
		ru.Undecided("shape", c.pos(fh), "has()/key lookup of the extra keys no longer decide by comparing the name with string constants")
		return
	}
	all := map[string]bool{}
	for k := range ext {
		all[k] = true
	}
	for k := range has {
		all[k] = true
	}
	for k := range key {
		all[k] = true
	}
	for _, k := range fw.SortedKeys(all) {
		var msgs []string
		if !ext[k] {
			msgs = append(msgs, "not listed by ExtKeys")
		}
		if has[k] == nil {
			msgs = append(msgs, "has() does not know it")
		} else {
			// the true edge of the comparison reaches only `return true`
			b := has[k]
			good := false
			if b.Referrers() != nil {
				for _, rf := range *b.Referrers() {
					if ifi, ok := rf.(*ssa.If); ok {
						t := ifi.Block().Succs[0]
						for len(t.Instrs) == 1 && len(t.Succs) == 1 {
							t = t.Succs[0]
						}
						if ret, ok := t.Instrs[len(t.Instrs)-1].(*ssa.Return); ok && len(ret.Results) == 1 && isConstBool(ret.Results[0], true) {
							good = true
						}
					}
				}
			}
			if !good {
				msgs = append(msgs, "has() does not answer true for it")
			}
		}
		if key[k] == nil {
			msgs = append(msgs, "key lookup has no case for it")
		}
		if !strings.HasPrefix(k, "_") {
			msgs = append(msgs, "not underscore-prefixed")
		}
		ru.Check(len(msgs) == 0, "key:"+k, c.pos(fk), "listed, has, served", strings.Join(msgs, "; "))
	}
	// has() returns false for a non-string key and for unknown names
	okFalse := false
	for _, rc := range fw.ReturnCases(fh, 0) {
		if isConstBool(rc.Val, false) {
			okFalse = true
		} else if !isConstBool(rc.Val, true) {
			ru.Fail("has:result", c.pos(fh), "has() of the extra keys returns something that is not a boolean constant: "+eh.Term(rc.Val))
		}
	}
	ru.Check(okFalse, "has:false", c.pos(fh), "unknown names answer false", "has() never answers false")
	// true only for one of the names
	isName := map[ssa.Value]bool{}
	for _, b := range has {
		isName[b] = true
	}
	onlyNames := true
	for _, rc := range fw.ReturnCases(fh, 0) {
		if isConstBool(rc.Val, true) && fw.CaseReachable(fh, rc, func(cd fw.Cond) bool { return cd.True && isName[cd.Val] }) {
			onlyNames = false
		}
	}
	ru.Check(onlyNames, "has:true", c.pos(fh), "true only after the key compared equal to an extra-key name",
		"has() of the extra keys answers true on a path where the key was not compared equal to any extra-key name (non-string or unknown keys exist only there)")
}

// ---------------------------------------------------------------------------
// C08.fallback: underscore keys are layered under the value's own keys, presence decided by has

func (c *c08ctx) fallbackFns() (keyFn, hasFn *ssa.Function) {
	// role: the pkg/interp functions that receive a bound <base>.JQValueKey / JQValueHas
	for _, fn := range c.p.FqFunctions() {
		if pkgRel(fn) != "pkg/interp" {
			continue
		}
		for _, call := range fw.CallsIn(fn) {
			callee := call.Common().StaticCallee()
			if callee == nil || callee.Blocks == nil {
				continue
			}
			for _, a := range call.Common().Args {
				mc, ok := a.(*ssa.MakeClosure)
				if !ok {
					continue
				}
				bf := mc.Fn.(*ssa.Function)
				if !strings.HasSuffix(bf.Name(), "$bound") {
					continue
				}
				switch fw.BoundMethodName(bf) {
				case fw.TypeStr(c.baseT) + ".JQValueKey":
					keyFn = callee
				case fw.TypeStr(c.baseT) + ".JQValueHas":
					hasFn = callee
				}
			}
		}
	}
	return
}

func (c *c08ctx) ruleFallback() {
	ru := c.r.Rule("C08.fallback", "key lookup returns the value's own key exactly when the value's has() says true (not by nil-ness of the looked-up value) and the extra key otherwise; has() falls back to the extra keys exactly when the value's has() says false", 2)
	kf, hf := c.fallbackFns()
	if kf == nil || hf == nil {
		ru.Undecided("anchor", "", "fallback helpers receiving bound "+tname(c.baseT)+".JQValueKey/JQValueHas not found")
		return
	}
	// parameter roles by type and position: key-fn (name, base, valueHas, valueKey); has-fn (key, base, valueHas)
	{
		e := c.env(kf)
		key := "key:" + fw.ShortFn(kf)
		if len(kf.Params) != 4 {
			ru.Undecided(key, c.pos(kf), "expected (name, baseKey, valueHas, valueKey)")
		} else {
			has := "dyn arg2(arg0)"
			bT := "assert<bool>(" + has + ").v"
			var msgs []string
			nVal, nBase := 0, 0
			for _, rc := range fw.ReturnCases(kf, 0) {
				t := e.Term(rc.Val)
				switch t {
				case "dyn arg3(arg0)":
					nVal++
					// all paths to it know has == true
					if fw.CaseReachable(kf, rc, func(cd fw.Cond) bool { return cd.True && e.Term(cd.Val) == bT }) {
						msgs = append(msgs, "the value's key is returned on a path where the value's has() was not seen to be true")
					}
				case "dyn arg1(arg0)":
					nBase++
					// not reachable when has is a true bool
					if fw.CaseReachable(kf, rc, func(cd fw.Cond) bool {
						tt := e.Term(cd.Val)
						return !cd.True && (tt == bT || tt == "assert<bool>("+has+").ok")
					}) {
						msgs = append(msgs, "the extra key is returned although the value's has() said true")
					}
				default:
					msgs = append(msgs, "returns "+t+", which is neither valueKey(name) nor baseKey(name)")
				}
			}
			if nVal == 0 || nBase == 0 {
				msgs = append(msgs, "does not return both the value key and the extra key")
			}
			// presence must not be decided by the looked-up value: no nil test on valueKey's result
			fw.EachInstr(kf, func(ins ssa.Instruction) {
				if ifi, ok := ins.(*ssa.If); ok {
					if x, _, ok := nilTest(e, fw.Cond{Val: ifi.Cond, True: true}); ok && strings.HasPrefix(x, "dyn arg3(") {
						msgs = append(msgs, "presence decided by nil-ness of the looked-up value: a key present with value null is treated as missing")
					}
				}
			})
			ru.Check(len(msgs) == 0, key, c.pos(kf), "has-decided layering", strings.Join(msgs, "; "))
		}
	}
	{
		e := c.env(hf)
		key := "has:" + fw.ShortFn(hf)
		if len(hf.Params) != 3 {
			ru.Undecided(key, c.pos(hf), "expected (key, baseHas, valueHas)")
		} else {
			has := "dyn arg2(arg0)"
			bT := "assert<bool>(" + has + ").v"
			okT := "assert<bool>(" + has + ").ok"
			var msgs []string
			nVal, nBase := 0, 0
			for _, rc := range fw.ReturnCases(hf, 0) {
				t := e.Term(rc.Val)
				switch t {
				case "dyn arg1(arg0)":
					nBase++
					if fw.CaseReachable(hf, rc, func(cd fw.Cond) bool { return !cd.True && e.Term(cd.Val) == bT }) ||
						fw.CaseReachable(hf, rc, func(cd fw.Cond) bool { return cd.True && e.Term(cd.Val) == okT }) {
						msgs = append(msgs, "extra keys are consulted on a path where the value's has() was not seen to be the boolean false")
					}
				case has:
					nVal++
					if fw.CaseReachable(hf, rc, func(cd fw.Cond) bool {
						tt := e.Term(cd.Val)
						return (tt == bT && cd.True) || (tt == okT && !cd.True)
					}) {
						msgs = append(msgs, "the value's false is returned without consulting the extra keys")
					}
				default:
					msgs = append(msgs, "returns "+t+", which is neither valueHas(key) nor baseHas(key)")
				}
			}
			if nVal == 0 || nBase == 0 {
				msgs = append(msgs, "does not return both the value's answer and the extra-key answer")
			}
			ru.Check(len(msgs) == 0, key, c.pos(hf), "false-decided fallback", strings.Join(msgs, "; "))
		}
	}
}

// C08.layer: call sites of the fallback helpers
const c08LayerDesc = "every decode-value JQValueKey/JQValueHas returns, on every path, the result of the layering helper (no early return of the extra-key lookup before the value's own lookup), and passes (own key, bound extra-key method, the value's has, the value's key) to it in that order, has and key taken from the same value part, from inside the method of the same name"

func (c *c08ctx) ruleLayer() { c.layerChecks(c.r.Rule("C08.layer", c08LayerDesc, 12)) }

// c08KeyLayerAs runs the key-layering checks (C08.layer) under another rule id, for properties that rest
// on the same precedence (C12: keys/topath vs .[name]).
func c08KeyLayerAs(r *fw.Run, p *fw.Program, ruleID string) {
	ru := r.Rule(ruleID, c08LayerDesc, 12)
	c := &c08ctx{r: fw.NewRun("C08", "quick", 0), p: p, envs: map[*ssa.Function]*fw.TermEnv{}, kindOf: map[string]int64{}, byKind: map[string]*types.Named{}}
	if !c.anchors() {
		ru.Undecided("anchor", "", "the decode-value wrappers / extra-key base type do not resolve (see C08.anchors)")
		return
	}
	c.r = r
	c.layerChecks(ru)
}

func (c *c08ctx) layerChecks(ru *fw.Rule) {
	kf, hf := c.fallbackFns()
	if kf == nil || hf == nil {
		ru.Undecided("anchor", "", "fallback helpers not found")
		return
	}
	base := fw.TypeStr(c.baseT)
	// classify an argument: ("base"|"value"|"closure"|"?", method name, receiver term)
	classify := func(e *fw.TermEnv, a ssa.Value) (string, string, string) {
		mc, ok := a.(*ssa.MakeClosure)
		if !ok {
			return "?", "", ""
		}
		bf := mc.Fn.(*ssa.Function)
		if !strings.HasSuffix(bf.Name(), "$bound") {
			return "closure", "", ""
		}
		full := fw.BoundMethodName(bf)
		i := strings.LastIndex(full, ".")
		recvT, m := full[:i], full[i+1:]
		rt := ""
		if len(mc.Bindings) == 1 {
			rt = e.Term(mc.Bindings[0])
		}
		if recvT == base {
			return "base", m, rt
		}
		// a helper method of the wrapper itself stands for a closure over the receiver
		if rt == "recv" && !strings.HasPrefix(m, "JQValue") {
			return "closure", m, rt
		}
		return "value", m, rt
	}
	for _, fn := range c.p.FqFunctions() {
		if fn.Parent() != nil {
			continue
		}
		for _, call := range fw.CallsIn(fn) {
			callee := call.Common().StaticCallee()
			if callee != kf && callee != hf {
				continue
			}
			e := c.env(fn)
			args := call.Common().Args
			want := "JQValueKey"
			if callee == hf {
				want = "JQValueHas"
			}
			key := fw.ShortFn(fn)
			var msgs []string
			if fn.Name() != want || fn.Signature.Recv() == nil {
				msgs = append(msgs, "called from a function that is not a "+want+" method")
			}
			if e.Term(args[0]) != "arg0" {
				msgs = append(msgs, "first argument is not the method's own key parameter")
			}
			bc, bm, brt := classify(e, args[1])
			if bc != "base" || bm != want || !strings.HasPrefix(brt, "recv.") {
				msgs = append(msgs, "second argument is not the receiver's bound "+base+"."+want)
			}
			hc, hm, hrt := classify(e, args[2])
			if hc == "base" || hc == "?" || (hc == "value" && (hm != "JQValueHas" || !strings.HasPrefix(hrt, "recv."))) {
				msgs = append(msgs, "value-has argument is not the has() of the receiver's value part")
			}
			if callee == kf {
				kc, km, krt := classify(e, args[3])
				if kc == "base" || kc == "?" || (kc == "value" && (km != "JQValueKey" || !strings.HasPrefix(krt, "recv."))) {
					msgs = append(msgs, "value-key argument is not the key lookup of the receiver's value part (extra keys would shadow the value's keys)")
				}
				if hc == "value" && kc == "value" && hrt != krt {
					msgs = append(msgs, "has and key are taken from different value parts: "+hrt+" vs "+krt)
				}
				if hc != kc {
					msgs = append(msgs, "has and key are not taken from the same kind of value part")
				}
			}
			ru.Check(len(msgs) == 0, key, c.p.Rel(call.Pos()), "base under value, same value part", strings.Join(msgs, "; "))
		}
	}
	// every decode-value wrapper (embeds the extra-key base type): all ways out of JQValueKey / JQValueHas are
	// the layering helper's result
	for _, w := range c.wrappers {
		st, ok := w.Underlying().(*types.Struct)
		if !ok {
			continue
		}
		emb := false
		for i := 0; i < st.NumFields(); i++ {
			if st.Field(i).Embedded() && st.Field(i).Type() == types.Type(c.baseT) {
				emb = true
			}
		}
		if !emb {
			continue
		}
		for _, m := range []struct {
			name   string
			helper *ssa.Function
		}{{"JQValueKey", kf}, {"JQValueHas", hf}} {
			key := "returns:" + tname(w) + "." + m.name
			f := c.method(w, m.name)
			if f == nil || f.Blocks == nil {
				ru.Undecided(key, "", m.name+" is not declared on the wrapper (the embedded value part and extra-key part both have one)")
				continue
			}
			e := c.env(f)
			var msgs []string
			n := 0
			for _, rc := range fw.ReturnCases(f, 0) {
				n++
				call, isCall := fw.Resolve(rc.Val).(*ssa.Call)
				if !isCall || call.Common().StaticCallee() != m.helper {
					t := e.Term(rc.Val)
					if strings.Contains(t, base+"."+m.name) || strings.Contains(t, "("+base+")."+m.name) {
						msgs = append(msgs, "returns the extra-key lookup "+t+" directly, before/without the value's own lookup: a field named like an extra key is listed by keys but .[name] gives the extra value")
					} else {
						msgs = append(msgs, "returns "+t+" without going through "+fw.ShortFn(m.helper))
					}
				}
			}
			if n == 0 {
				msgs = append(msgs, "no return")
			}
			ru.Check(len(msgs) == 0, key, c.pos(f), "all paths return "+fw.ShortFn(m.helper)+"(...)", strings.Join(uniq(msgs), "; "))
		}
	}
}

// closureArg returns the closure function passed as argument i of the (single) call to callee in fn.
func closureArg(fn, callee *ssa.Function, i int) *ssa.Function {
	for _, call := range fw.CallsIn(fn) {
		if call.Common().StaticCallee() == callee && i < len(call.Common().Args) {
			if mc, ok := call.Common().Args[i].(*ssa.MakeClosure); ok {
				f := mc.Fn.(*ssa.Function)
				if !strings.HasSuffix(f.Name(), "$bound") {
					return f
				}
				// a method of the enclosing method's own receiver, passed as a method value (an extracted closure)
				if obj, ok := f.Object().(*types.Func); ok && len(mc.Bindings) == 1 && fw.NewTermEnv(fn).Term(mc.Bindings[0]) == "recv" {
					if m := fn.Prog.FuncValue(obj); m != nil && m.Blocks != nil && !strings.HasPrefix(m.Name(), "JQValue") {
						return m
					}
				}
			}
		}
	}
	return nil
}

func sortedStrs(m map[string]bool) []string {
	var out []string
	for k := range m {
		out = append(out, k)
	}
	sort.Strings(out)
	return out
}
