package rules

import (
	"go/constant"
	"go/token"
	"go/types"
	"sort"
	"strings"

	"golang.org/x/tools/go/ssa"

	"fqverif/fw"
)

// ---------------------------------------------------------------------------
// helpers private to the C10 rules (all identifiers carry the c10 prefix)

// c10QuoAtom is the atom the polynomial engine gives to the integer quotient x / y.
func c10QuoAtom(x, y *fw.Poly) *fw.Poly {
	return fw.PAtom("(" + x.String() + " / " + y.String() + ")")
}

// c10Rem is the normal form of x % y:  x - y*(x/y)  (exact identity of Go's truncated division, y != 0).
func c10Rem(x, y *fw.Poly) *fw.Poly { return x.Sub(y.Mul(c10QuoAtom(x, y))) }

// c10Env returns a polynomial environment of fn in which every integer x % y is rewritten to
// x - y*(x/y), so that (x/y)*y + x%y normalises to x. With recv=true loads of fields of the
// method receiver are the atoms "recv.<field>" regardless of the receiver's name and of stores
// (temporal validity of such loads is checked separately by c10NoStoreBetween).
func c10Env(fn *ssa.Function, recv bool) *fw.PolyEnv {
	env := fw.NewPolyEnv(fn)
	env.Subst = map[ssa.Value]*fw.Poly{}
	var rcv ssa.Value
	if recv && fn.Signature.Recv() != nil && len(fn.Params) > 0 {
		rcv = fn.Params[0]
	}
	for _, b := range fn.DomPreorder() {
		for _, ins := range b.Instrs {
			switch x := ins.(type) {
			case *ssa.UnOp:
				if rcv != nil && x.Op == token.MUL {
					if fa, ok := x.X.(*ssa.FieldAddr); ok && fa.X == rcv {
						env.Subst[x] = fw.PAtom("recv." + fieldNameOf(fa.X.Type(), fa.Field))
					}
				}
			case *ssa.BinOp:
				if x.Op == token.REM && c10IsInt(x.Type()) {
					env.Subst[x] = c10Rem(env.Of(x.X), env.Of(x.Y))
				}
				// x >> k is x / 2^k for the non-negative positions and counts the display arithmetic handles
				if x.Op == token.SHR && c10IsInt(x.Type()) {
					if k, ok := c10ConstInt(x.Y); ok && k >= 0 && k < 62 {
						env.Subst[x] = c10QuoAtom(env.Of(x.X), fw.PConst(1<<uint(k)))
					}
				}
			case *ssa.Phi:
				// loop counters get a clean atom (the engine's phi atoms depend on evaluation order)
				if c10IsInt(x.Type()) {
					for _, e := range x.Edges {
						if bo, ok := e.(*ssa.BinOp); ok && (bo.Op == token.ADD || bo.Op == token.SUB) && bo.X == ssa.Value(x) {
							env.Subst[x] = fw.PAtom("iv:" + x.Name())
						}
					}
				}
			case *ssa.Call:
				// ranges.Range.Stop() is Start+Len (its body is checked by C10.dump.range stop:body)
				if fw.CalleeName(x) == c10RangeStop && len(x.Call.Args) == 1 {
					base := c10BaseName(env, x.Call.Args[0])
					env.Subst[x] = fw.PAtom(base + ".Start").Add(fw.PAtom(base + ".Len"))
				}
			}
		}
	}
	return env
}

const c10RangeStop = "(" + fw.Mod + "/pkg/ranges.Range).Stop"

// c10BaseName names a struct value the way the engine names its field loads: access path of the
// variable it is loaded from, or "(<poly>)" for a computed value.
func c10BaseName(env *fw.PolyEnv, v ssa.Value) string {
	v = c10Strip(v)
	if ld, ok := v.(*ssa.UnOp); ok && ld.Op == token.MUL {
		if path, ok := fw.AccessPath(ld.X); ok {
			return path
		}
	}
	return "(" + c10NoStoreSuffix(env.Of(v).String()) + ")"
}

// c10NoStoreSuffix drops the engine's "#after-store.." load qualifiers.
func c10NoStoreSuffix(s string) string {
	for {
		i := strings.Index(s, "#after-store")
		if i < 0 {
			return s
		}
		j := i + len("#after-store")
		for j < len(s) && (s[j] == ',' || (s[j] >= '0' && s[j] <= '9')) {
			j++
		}
		s = s[:i] + s[j:]
	}
}

func c10IsInt(t types.Type) bool {
	b, ok := t.Underlying().(*types.Basic)
	return ok && b.Info()&types.IsInteger != 0
}

// c10Strip removes value-preserving wrappers.
func c10Strip(v ssa.Value) ssa.Value {
	for {
		switch x := v.(type) {
		case *ssa.Convert:
			if c10IsInt(x.Type()) && c10IsInt(x.X.Type()) {
				v = x.X
				continue
			}
			return v
		case *ssa.ChangeType:
			v = x.X
		case *ssa.ChangeInterface:
			v = x.X
		case *ssa.MakeInterface:
			v = x.X
		default:
			return v
		}
	}
}

// c10FieldLoad recognises a load of a struct field: returns the struct's named type (nil if
// unnamed), the field name and the base pointer/struct value.
func c10FieldLoad(v ssa.Value) (named *types.Named, field string, base ssa.Value, ok bool) {
	v = c10Strip(v)
	var t types.Type
	var idx int
	switch x := v.(type) {
	case *ssa.UnOp:
		if x.Op != token.MUL {
			return
		}
		fa, isFA := x.X.(*ssa.FieldAddr)
		if !isFA {
			return
		}
		t, idx, base = fa.X.Type(), fa.Field, fa.X
	case *ssa.Field:
		t, idx, base = x.X.Type(), x.Field, x.X
	default:
		return
	}
	if p, isP := t.Underlying().(*types.Pointer); isP {
		t = p.Elem()
	}
	named, _ = t.(*types.Named)
	field = fieldNameOf(t, idx)
	return named, field, base, field != ""
}

// c10IsOptField: v is a load of interp.Options.<field>.
func c10IsOptField(v ssa.Value, field string) bool {
	n, f, _, ok := c10FieldLoad(v)
	return ok && f == field && n != nil && n.Obj().Name() == "Options" && n.Obj().Pkg() != nil && n.Obj().Pkg().Path() == fw.Mod+"/pkg/interp"
}

// c10CallsTo returns the calls (in fn and its closures) whose static callee (generic origin) is named full.
func c10CallsTo(fn *ssa.Function, full string) []*ssa.Call {
	var out []*ssa.Call
	for _, f := range fw.WithClosures(fn) {
		for _, c := range fw.CallsIn(f) {
			cl, ok := c.(*ssa.Call)
			if ok && fw.CalleeName(c) == full {
				out = append(out, cl)
			}
		}
	}
	return out
}

func c10ConstInt(v ssa.Value) (int64, bool) {
	c, ok := c10Strip(v).(*ssa.Const)
	if !ok || c.Value == nil || c.Value.Kind() != constant.Int {
		return 0, false
	}
	return constant.Int64Val(c.Value)
}

func c10ConstStr(v ssa.Value) (string, bool) {
	c, ok := c10Strip(v).(*ssa.Const)
	if !ok || c.Value == nil || c.Value.Kind() != constant.String {
		return "", false
	}
	return constant.StringVal(c.Value), true
}

func c10ConstBool(v ssa.Value) (bool, bool) {
	c, ok := v.(*ssa.Const)
	if !ok || c.Value == nil || c.Value.Kind() != constant.Bool {
		return false, false
	}
	return constant.BoolVal(c.Value), true
}

// c10Cond is a branch condition with its truth value.
type c10Cond struct {
	V    ssa.Value
	True bool
}

// c10Conds returns the conditions known to hold at block b: fw.Guards plus expansion of the
// boolean phis go/ssa produces for && and || (cond true => rhs true and everything known in the
// rhs block; dually for ||), and stripping of negations.
func c10Conds(b *ssa.BasicBlock) []c10Cond {
	var out []c10Cond
	seen := map[*ssa.BasicBlock]bool{}
	var addBlock func(b *ssa.BasicBlock)
	var addCond func(v ssa.Value, truth bool)
	addCond = func(v ssa.Value, truth bool) {
		for {
			u, ok := v.(*ssa.UnOp)
			if !ok || u.Op != token.NOT {
				break
			}
			v, truth = u.X, !truth
		}
		if ph, ok := v.(*ssa.Phi); ok && len(ph.Edges) == 2 {
			for i, e := range ph.Edges {
				k, isC := c10ConstBool(e)
				if !isC {
					continue
				}
				other := ph.Edges[1-i]
				opred := ph.Block().Preds[1-i]
				// && : short-circuit edge carries false; cond true => other true
				// || : short-circuit edge carries true;  cond false => other false
				if k != truth {
					addCond(other, truth)
					addBlock(opred)
					// the rhs block is entered only when the lhs did not short-circuit
					return
				}
			}
		}
		out = append(out, c10Cond{v, truth})
	}
	addBlock = func(b *ssa.BasicBlock) {
		if seen[b] {
			return
		}
		seen[b] = true
		for _, g := range fw.Guards(b) {
			addCond(g.Cond, g.True)
		}
	}
	addBlock(b)
	return out
}

// c10Facts: the integer comparison facts among c10Conds(b), normalised in env.
func c10Facts(env *fw.PolyEnv, b *ssa.BasicBlock) []fw.Cmp {
	var out []fw.Cmp
	for _, c := range c10Conds(b) {
		cm, ok := env.CmpOf(c.V)
		if !ok {
			continue
		}
		if !c.True {
			cm.Rel = cm.Rel.Negate()
		}
		out = append(out, cm)
	}
	return out
}

// c10Holds: some fact known at b implies q.
func c10Holds(env *fw.PolyEnv, b *ssa.BasicBlock, q fw.Cmp) bool {
	for _, f := range c10Facts(env, b) {
		if f.Implies(q) {
			return true
		}
	}
	return false
}

// c10Exact: some fact known at b is equivalent to q (implies it and is implied by it): the guard is
// neither weaker nor stronger than q.
func c10Exact(env *fw.PolyEnv, b *ssa.BasicBlock, q fw.Cmp) bool {
	for _, f := range c10Facts(env, b) {
		if f.Implies(q) && q.Implies(f) {
			return true
		}
	}
	return false
}

// c10FactFrom returns the comparison instruction (among the conditions known at b) that implies q.
func c10FactFrom(env *fw.PolyEnv, b *ssa.BasicBlock, q fw.Cmp) ssa.Value {
	for _, c := range c10Conds(b) {
		cm, ok := env.CmpOf(c.V)
		if !ok {
			continue
		}
		if !c.True {
			cm.Rel = cm.Rel.Negate()
		}
		if cm.Implies(q) && q.Implies(cm) {
			return c.V
		}
	}
	return nil
}

func c10FactsString(env *fw.PolyEnv, b *ssa.BasicBlock) string {
	var s []string
	for _, f := range c10Facts(env, b) {
		s = append(s, f.String())
	}
	sort.Strings(s)
	return "{" + strings.Join(s, "; ") + "}"
}

// c10Leaf is a non-phi value reaching a phi, with the predecessor block of its edge.
type c10Leaf struct {
	V    ssa.Value
	Pred *ssa.BasicBlock
	Phi  *ssa.Phi
}

// c10PhiLeaves flattens phis transitively (cycle safe). A non-phi value is its own single leaf.
func c10PhiLeaves(v ssa.Value) []c10Leaf {
	var out []c10Leaf
	seen := map[*ssa.Phi]bool{}
	var rec func(v ssa.Value, pred *ssa.BasicBlock, from *ssa.Phi)
	rec = func(v ssa.Value, pred *ssa.BasicBlock, from *ssa.Phi) {
		if ph, ok := v.(*ssa.Phi); ok {
			if seen[ph] {
				return
			}
			seen[ph] = true
			for i, e := range ph.Edges {
				if e == ssa.Value(ph) {
					continue
				}
				rec(e, ph.Block().Preds[i], ph)
			}
			return
		}
		out = append(out, c10Leaf{v, pred, from})
	}
	rec(v, nil, nil)
	return out
}

// c10CollectBinOps returns the BinOps with operator op in the arithmetic expression tree of v
// (descending through + - * and integer conversions, not into the found nodes).
func c10CollectBinOps(v ssa.Value, op token.Token) []*ssa.BinOp {
	var out []*ssa.BinOp
	seen := map[ssa.Value]bool{}
	var rec func(v ssa.Value)
	rec = func(v ssa.Value) {
		v = c10Strip(v)
		if seen[v] {
			return
		}
		seen[v] = true
		b, ok := v.(*ssa.BinOp)
		if !ok {
			return
		}
		if b.Op == op || (op == token.QUO && c10Divisor(nil, b) != nil) {
			out = append(out, b)
			return
		}
		switch b.Op {
		case token.ADD, token.SUB, token.MUL:
			rec(b.X)
			rec(b.Y)
		}
	}
	rec(v)
	return out
}

// c10InLoop reports whether block b lies on a CFG cycle.
func c10InLoop(b *ssa.BasicBlock) bool {
	seen := map[*ssa.BasicBlock]bool{}
	stack := append([]*ssa.BasicBlock{}, b.Succs...)
	for len(stack) > 0 {
		x := stack[len(stack)-1]
		stack = stack[:len(stack)-1]
		if x == b {
			return true
		}
		if seen[x] {
			continue
		}
		seen[x] = true
		stack = append(stack, x.Succs...)
	}
	return false
}

// c10Reaches: there is a CFG path from block a to block b (a==b counts).
func c10Reaches(a, b *ssa.BasicBlock) bool {
	if a == b {
		return true
	}
	seen := map[*ssa.BasicBlock]bool{}
	stack := []*ssa.BasicBlock{a}
	for len(stack) > 0 {
		x := stack[len(stack)-1]
		stack = stack[:len(stack)-1]
		if seen[x] {
			continue
		}
		seen[x] = true
		if x == b {
			return true
		}
		stack = append(stack, x.Succs...)
	}
	return false
}

func c10InstrIndex(ins ssa.Instruction) int {
	for i, x := range ins.Block().Instrs {
		if x == ins {
			return i
		}
	}
	return -1
}

// c10NoStoreBetween: on no path from instruction `from` to instruction `to` that does not pass
// through `from` again is there a store to field #field of the receiver parameter rcv.
func c10NoStoreBetween(from, to ssa.Instruction, rcv ssa.Value, field int) bool {
	isStore := func(ins ssa.Instruction) bool {
		st, ok := ins.(*ssa.Store)
		if !ok {
			return false
		}
		fa, ok := st.Addr.(*ssa.FieldAddr)
		return ok && fa.X == rcv && fa.Field == field
	}
	type pt struct {
		b      *ssa.BasicBlock
		i      int
		stored bool
	}
	type key struct {
		b      *ssa.BasicBlock
		stored bool
	}
	seen := map[key]bool{}
	stack := []pt{{from.Block(), c10InstrIndex(from) + 1, false}}
	for len(stack) > 0 {
		p := stack[len(stack)-1]
		stack = stack[:len(stack)-1]
		if p.i == 0 {
			k := key{p.b, p.stored}
			if seen[k] {
				continue
			}
			seen[k] = true
		}
		stop := false
		for i := p.i; i < len(p.b.Instrs); i++ {
			ins := p.b.Instrs[i]
			if ins == to {
				if p.stored {
					return false
				}
				stop = true
				break
			}
			if ins == from {
				stop = true
				break
			}
			if isStore(ins) {
				p.stored = true
			}
		}
		if stop {
			continue
		}
		for _, s := range p.b.Succs {
			stack = append(stack, pt{s, 0, p.stored})
		}
	}
	return true
}

// c10Loads returns the loads (UnOp *) of receiver field #field in the operand tree of v.
func c10FieldLoadsIn(v ssa.Value, rcv ssa.Value, field int) []*ssa.UnOp {
	var out []*ssa.UnOp
	seen := map[ssa.Value]bool{}
	var rec func(v ssa.Value)
	rec = func(v ssa.Value) {
		if v == nil || seen[v] {
			return
		}
		seen[v] = true
		switch x := v.(type) {
		case *ssa.UnOp:
			if x.Op == token.MUL {
				if fa, ok := x.X.(*ssa.FieldAddr); ok && fa.X == rcv && fa.Field == field {
					out = append(out, x)
				}
				return
			}
			rec(x.X)
		case *ssa.BinOp:
			rec(x.X)
			rec(x.Y)
		case *ssa.Convert:
			rec(x.X)
		case *ssa.ChangeType:
			rec(x.X)
		}
	}
	rec(v)
	return out
}

// c10StructFieldIndex returns the index of the named field in the struct underlying t (or -1).
func c10StructFieldIndex(t types.Type, name string) int {
	if p, ok := t.Underlying().(*types.Pointer); ok {
		t = p.Elem()
	}
	st, ok := t.Underlying().(*types.Struct)
	if !ok {
		return -1
	}
	for i := 0; i < st.NumFields(); i++ {
		if st.Field(i).Name() == name {
			return i
		}
	}
	return -1
}

// c10ConcatParts flattens a string concatenation tree (left to right).
func c10ConcatParts(v ssa.Value) []ssa.Value {
	if b, ok := v.(*ssa.BinOp); ok && b.Op == token.ADD {
		if bt, ok := b.Type().Underlying().(*types.Basic); ok && bt.Info()&types.IsString != 0 {
			return append(c10ConcatParts(b.X), c10ConcatParts(b.Y)...)
		}
	}
	return []ssa.Value{v}
}

// c10VarargElems returns the values stored into the elements of the array backing a variadic
// slice argument (slice t[:] of new [n]T), indexed by element.
func c10VarargElems(v ssa.Value) map[int64]ssa.Value {
	sl, ok := v.(*ssa.Slice)
	if !ok {
		return nil
	}
	al, ok := sl.X.(*ssa.Alloc)
	if !ok || al.Referrers() == nil {
		return nil
	}
	out := map[int64]ssa.Value{}
	for _, r := range *al.Referrers() {
		ia, ok := r.(*ssa.IndexAddr)
		if !ok || ia.Referrers() == nil {
			continue
		}
		k, ok := c10ConstInt(ia.Index)
		if !ok {
			continue
		}
		for _, rr := range *ia.Referrers() {
			if st, ok := rr.(*ssa.Store); ok && st.Addr == ssa.Value(ia) {
				out[k] = st.Val
			}
		}
	}
	return out
}

// c10Returns lists the Return instructions of fn.
func c10Returns(fn *ssa.Function) []*ssa.Return {
	var out []*ssa.Return
	fw.EachInstr(fn, func(i ssa.Instruction) {
		if r, ok := i.(*ssa.Return); ok {
			out = append(out, r)
		}
	})
	return out
}

// c10GenericInstances returns all instantiations (and the origin if it has a body) of a generic
// or plain function given its origin's full name.
func c10FnInstances(p *fw.Program, full string) []*ssa.Function {
	var out []*ssa.Function
	for fn := range p.AllFns {
		if fn.Blocks == nil {
			continue
		}
		n := fn.String()
		if o := fn.Origin(); o != nil {
			n = o.String()
		}
		if n == full {
			if fn.TypeParams().Len() > 0 && len(fn.TypeArgs()) == 0 {
				continue // uninstantiated generic body
			}
			out = append(out, fn)
		}
	}
	sort.Slice(out, func(i, j int) bool { return out[i].String() < out[j].String() })
	return out
}

// c10ExtractOf returns the Extract #idx of a tuple-valued call, if present.
func c10ExtractOf(c *ssa.Call, idx int) ssa.Value {
	if c.Referrers() == nil {
		return nil
	}
	for _, r := range *c.Referrers() {
		if ex, ok := r.(*ssa.Extract); ok && ex.Index == idx {
			return ex
		}
	}
	return nil
}

// c10Divisor returns the divisor of an integer quotient b: Y of x / Y, 2^k of x >> k (constant k);
// nil if b is neither. env may be nil when only the shape is asked for.
func c10Divisor(env *fw.PolyEnv, b *ssa.BinOp) *fw.Poly {
	if b == nil || !c10IsInt(b.Type()) {
		return nil
	}
	switch b.Op {
	case token.QUO:
		if env == nil {
			return fw.PConst(0)
		}
		return env.Of(b.Y)
	case token.SHR:
		if k, ok := c10ConstInt(b.Y); ok && k >= 0 && k < 62 {
			return fw.PConst(1 << uint(k))
		}
	}
	return nil
}

// c10ExactInRange: the guard known at b is equivalent to q = (P < 0) either literally (c10Exact) or
// as (P != 0) together with a dominating bound P <= 0 (the form `last := i == n-1; if !last` inside
// a loop that keeps i < n).
func c10ExactInRange(env *fw.PolyEnv, b *ssa.BasicBlock, q fw.Cmp) bool {
	if c10Exact(env, b, q) {
		return true
	}
	if q.Rel != fw.LT {
		return false
	}
	ne, le := false, false
	for _, f := range c10Facts(env, b) {
		if f.Rel == fw.NE && f.Implies(fw.Cmp{P: q.P, Rel: fw.NE}) {
			ne = true
		}
		if f.Implies(fw.Cmp{P: q.P, Rel: fw.LE}) {
			le = true
		}
	}
	return ne && le
}

// c10StripWidening removes integer conversions that cannot lose value bits (and interface/type changes).
func c10StripWidening(v ssa.Value) ssa.Value {
	size := func(t types.Type, asTarget bool) (int, bool, bool) {
		b, ok := t.Underlying().(*types.Basic)
		if !ok || b.Info()&types.IsInteger == 0 {
			return 0, false, false
		}
		uns := b.Info()&types.IsUnsigned != 0
		switch b.Kind() {
		case types.Int8, types.Uint8:
			return 8, uns, true
		case types.Int16, types.Uint16:
			return 16, uns, true
		case types.Int32, types.Uint32:
			return 32, uns, true
		case types.Int64, types.Uint64:
			return 64, uns, true
		default: // int, uint, uintptr: 32 or 64 depending on the architecture
			if asTarget {
				return 32, uns, true
			}
			return 64, uns, true
		}
	}
	for {
		switch x := v.(type) {
		case *ssa.Convert:
			ts, tu, ok1 := size(x.Type(), true)
			ss, su, ok2 := size(x.X.Type(), false)
			if !ok1 || !ok2 {
				return v
			}
			if (tu == su && ts >= ss) || (su && !tu && ts > ss) {
				v = x.X
				continue
			}
			return v
		case *ssa.ChangeType:
			v = x.X
		case *ssa.ChangeInterface:
			v = x.X
		case *ssa.MakeInterface:
			v = x.X
		default:
			return v
		}
	}
}
