package rules

// C19.start: fq only observes the reassembly; it never steers it.
//
// gopacket's assembler decides where a direction's stream starts: at the SYN, or - when the
// handshake is not in the capture - only at flush time, after everything buffered has been put in
// sequence order. reassembly.Stream.Accept gets a pointer to that decision ("start could be
// modified to force a start even if no SYN have been seen"). Forcing it makes the first segment
// *seen* the start of the stream, so a locally reordered earlier segment is discarded as already
// delivered overlap: bytes vanish and skip stays 0. "Locally reordered segments" and "nothing
// invented, loss is signalled" therefore need: no fq code writes anything but false through that
// pointer - in Accept, through an alias, a closure or a callee (callees are followed into
// gopacket, bodies are available).
//
// The same "observer only" condition for the two other handles the callbacks receive:
//   - the segment (*layers.TCP) handed to Accept is the one the assembler is about to queue; a
//     field written here (Seq, Payload, SYN ...) changes what is reassembled.
//   - the ScatterGather handed to ReassembledSG: KeepFrom(offset) makes gopacket deliver the bytes
//     from offset again with the next batch, so appended bytes would appear twice.

import (
	"fmt"
	"go/token"
	"go/types"
	"sort"
	"strings"

	"golang.org/x/tools/go/ssa"

	"fqverif/fw"
)

// c19ptrUse collects what is done with a pointer value: writes through it, and places where it
// leaves the analysed code.
type c19ptrUse struct {
	c       *c19
	fields  bool // also follow &p.f / &p[i] (writes into the pointee's fields)
	extBody bool // follow callees outside fq (true) or trust them (false)
	writes  []*ssa.Store
	escapes []string
	callees map[string]bool
	seen    map[ssa.Value]bool
}

func (c *c19) newPtrUse(fields, extBody bool) *c19ptrUse {
	return &c19ptrUse{c: c, fields: fields, extBody: extBody, callees: map[string]bool{}, seen: map[ssa.Value]bool{}}
}

func (u *c19ptrUse) escape(at ssa.Instruction, what string) {
	u.escapes = append(u.escapes, what+" ("+u.c.pos(at)+")")
}

func (u *c19ptrUse) follow(v ssa.Value) {
	if v == nil || u.seen[v] {
		return
	}
	u.seen[v] = true
	refs := v.Referrers()
	if refs == nil {
		return
	}
	for _, r := range *refs {
		switch x := r.(type) {
		case *ssa.DebugRef, *ssa.BinOp, *ssa.If:
		case *ssa.Store:
			if x.Addr == v {
				u.writes = append(u.writes, x)
			}
			if x.Val == v {
				a := u.c.cell(x.Addr)
				if a == nil {
					u.escape(x, "stored into "+u.c.sig(x.Addr))
					break
				}
				for _, al := range u.c.aliases(a) {
					if al.Referrers() == nil {
						continue
					}
					for _, lr := range *al.Referrers() {
						switch y := lr.(type) {
						case *ssa.UnOp:
							if y.Op == token.MUL && y.X == al {
								u.follow(y)
							}
						case *ssa.Store, *ssa.DebugRef, *ssa.MakeClosure:
						default:
							u.escape(lr, fmt.Sprintf("the variable holding it is used by %T", lr))
						}
					}
				}
			}
		case *ssa.UnOp:
			// *p: reads the pointee
		case *ssa.Phi:
			u.follow(x)
		case *ssa.ChangeType:
			u.follow(x)
		case *ssa.Convert:
			u.follow(x)
		case *ssa.FieldAddr:
			if u.fields {
				u.follow(x)
			}
		case *ssa.IndexAddr:
			if u.fields && x.X == v {
				u.follow(x)
			}
		case *ssa.MakeClosure:
			fn := x.Fn.(*ssa.Function)
			for j, b := range x.Bindings {
				if b == v {
					u.follow(fn.FreeVars[j])
				}
			}
		case ssa.CallInstruction:
			cc := x.Common()
			for i, a := range cc.Args {
				if a != v {
					continue
				}
				if cc.IsInvoke() {
					u.escape(x, "passed to interface method "+cc.Method.Name())
					continue
				}
				callee := cc.StaticCallee()
				if callee == nil {
					u.escape(x, "passed to a dynamically chosen function")
					continue
				}
				name := c19calleeName(cc)
				if !fw.InFq(callee) && !u.extBody {
					u.callees[name] = true
					continue
				}
				if callee.Blocks == nil || i >= len(callee.Params) || callee.Signature.Variadic() && i >= len(callee.Params)-1 {
					u.escape(x, "passed to "+name+" whose body cannot be followed")
					continue
				}
				u.callees[name] = true
				u.follow(callee.Params[i])
			}
			if !cc.IsInvoke() && cc.Value == v {
				u.escape(x, "called")
			}
		case *ssa.Return:
			u.escape(x, "returned")
		default:
			u.escape(r, fmt.Sprintf("used by %T", r))
		}
	}
}

// c19ifaceMethod: the method of the named interface in gopacket's reassembly package.
func (c *c19) reasmIfaceMethod(iface, method string) *types.Signature {
	pk := c.p.ByPath[c19GPReasm]
	if pk == nil || pk.Types == nil {
		return nil
	}
	tn, ok := pk.Types.Scope().Lookup(iface).(*types.TypeName)
	if !ok {
		return nil
	}
	it, ok := tn.Type().Underlying().(*types.Interface)
	if !ok {
		return nil
	}
	for i := 0; i < it.NumMethods(); i++ {
		if m := it.Method(i); m.Name() == method {
			return m.Type().(*types.Signature)
		}
	}
	return nil
}

func (c *c19) ruleStart() {
	ru := c.r.Rule("C19.start", "fq observes the reassembly and never steers it: nothing but false is written through Accept's 'start' out-parameter (directly, through an alias/closure or in a callee, gopacket's option checker included), so a stream without handshake starts only where gopacket's ordered flush puts it; Accept does not write to the segment it is asked about; ReassembledSG only reads the scatter-gather (no KeepFrom re-delivery)", 5)

	// --- Accept
	fn := getFn(ru, c.p, "(*"+c19FD+".TCPConnection).Accept")
	sigI := c.reasmIfaceMethod("Stream", "Accept")
	if fn != nil {
		if sigI == nil {
			ru.Undecided("anchor:reassembly.Stream.Accept", "", "gopacket's reassembly.Stream interface has no Accept method any more")
		} else {
			c.startAccept(ru, fn, sigI)
		}
	}

	// --- ReassembledSG
	sgfn := getFn(ru, c.p, "(*"+c19FD+".TCPConnection).ReassembledSG")
	if sgfn != nil {
		c.startSG(ru, sgfn)
	}
}

func (c *c19) startAccept(ru *fw.Rule, fn *ssa.Function, sigI *types.Signature) {
	// which parameters of the interface method are the start flag (*bool) and the segment (*layers.TCP)
	startIdx, tcpIdx := -1, -1
	nBoolPtr := 0
	for i := 0; i < sigI.Params().Len(); i++ {
		t := sigI.Params().At(i).Type()
		pt, ok := t.Underlying().(*types.Pointer)
		if !ok {
			continue
		}
		if b, ok := pt.Elem().Underlying().(*types.Basic); ok && b.Kind() == types.Bool {
			startIdx = i
			nBoolPtr++
		}
		if n, ok := pt.Elem().(*types.Named); ok && n.Obj().Name() == "TCP" && n.Obj().Pkg() != nil && n.Obj().Pkg().Path() == c19GPLay {
			tcpIdx = i
		}
	}
	if startIdx < 0 || nBoolPtr != 1 || tcpIdx < 0 || len(fn.Params) != sigI.Params().Len()+1 {
		ru.Undecided("Accept:start-param", c.pos(fn), "reassembly.Stream.Accept no longer has exactly one *bool (start) and one *layers.TCP parameter matched by TCPConnection.Accept")
		return
	}
	start, tcp := fn.Params[startIdx+1], fn.Params[tcpIdx+1]
	if !types.Identical(start.Type(), sigI.Params().At(startIdx).Type()) || !types.Identical(tcp.Type(), sigI.Params().At(tcpIdx).Type()) {
		ru.Undecided("Accept:start-param", c.pos(fn), "TCPConnection.Accept does not have the parameter types of reassembly.Stream.Accept")
		return
	}
	ru.Ok("Accept:start-param", c.pos(fn), fmt.Sprintf("start flag is parameter #%d (*bool), segment is parameter #%d of reassembly.Stream.Accept", startIdx, tcpIdx))

	// start: followed everywhere, gopacket included
	u := c.newPtrUse(false, true)
	u.follow(start)
	var forced, unknown []string
	for _, w := range u.writes {
		b, isConst := c19constBool(w.Val)
		switch {
		case isConst && !b:
			// *start = false cannot force anything
		case isConst:
			forced = append(forced, c19short(w.Parent().String())+" sets *start = true ("+c.pos(w)+")")
		default:
			unknown = append(unknown, c19short(w.Parent().String())+" sets *start = "+c.sig(w.Val)+" ("+c.pos(w)+")")
		}
	}
	sort.Strings(forced)
	sort.Strings(unknown)
	via := ""
	if len(u.callees) > 0 {
		via = "; followed into " + strings.Join(fw.SortedKeys(u.callees), ", ")
	}
	switch {
	case len(forced) > 0:
		ru.Fail("Accept:start-not-forced", c.pos(fn), "the start of the stream is forced: "+strings.Join(forced, "; ")+": a direction whose SYN is not in the capture then begins at the first segment seen, and an earlier segment that arrives later (local reordering) is dropped as overlap without any skipped-bytes count")
	case len(unknown) > 0:
		ru.Undecided("Accept:start-not-forced", c.pos(fn), "a computed value is written to the start flag: "+strings.Join(unknown, "; ")+": cannot show that a stream start is never forced")
	default:
		ru.Ok("Accept:start-not-forced", c.pos(fn), "no write of true through the start flag"+via)
	}
	sort.Strings(u.escapes)
	if len(u.escapes) == 0 {
		ru.Ok("Accept:start-confined", c.pos(fn), "the start pointer only reaches code that was followed"+via)
	} else {
		ru.Undecided("Accept:start-confined", c.pos(fn), "the start pointer leaves the analysed code: "+strings.Join(u.escapes, "; ")+": cannot show that a stream start is never forced")
	}

	// segment: writes in fq code (Accept, closures, fq helpers); gopacket's checkers are trusted readers
	s := c.newPtrUse(true, false)
	s.follow(tcp)
	var ws []string
	for _, w := range s.writes {
		ws = append(ws, c.sig(w.Addr)+" ("+c.pos(w)+")")
	}
	sort.Strings(ws)
	ru.Check(len(ws) == 0, "Accept:segment-readonly", c.pos(fn), "the segment is not written to",
		"Accept modifies the segment the assembler is about to queue: "+strings.Join(ws, "; ")+": what is reassembled is no longer what was captured")
}

func (c *c19) startSG(ru *fw.Rule, fn *ssa.Function) {
	if len(fn.Params) < 2 {
		ru.Undecided("ReassembledSG:sg-readonly", c.pos(fn), "unexpected signature")
		return
	}
	sg := fn.Params[1]
	it, ok := sg.Type().Underlying().(*types.Interface)
	hasKeep := false
	if ok {
		for i := 0; i < it.NumMethods(); i++ {
			if it.Method(i).Name() == "KeepFrom" {
				hasKeep = true
			}
		}
	}
	if !ok || !hasKeep {
		ru.Undecided("ReassembledSG:sg-readonly", c.pos(fn), "reassembly.ScatterGather is no longer an interface with a KeepFrom method: update the rule's model of re-delivery")
		return
	}
	readers := map[string]bool{"Info": true, "Lengths": true, "Fetch": true, "Stats": true, "CaptureInfo": true}
	var bad, esc []string
	seen := map[ssa.Value]bool{}
	var walk func(v ssa.Value)
	walk = func(v ssa.Value) {
		if seen[v] || v.Referrers() == nil {
			return
		}
		seen[v] = true
		for _, r := range *v.Referrers() {
			switch x := r.(type) {
			case *ssa.DebugRef, *ssa.BinOp:
			case *ssa.Phi:
				walk(x)
			case *ssa.ChangeInterface:
				walk(x)
			case *ssa.Store:
				// spilled for a closure: follow loads of the variable
				a := c.cell(x.Addr)
				if x.Val != v || a == nil {
					esc = append(esc, "stored ("+c.pos(x)+")")
					break
				}
				for _, al := range c.aliases(a) {
					if al.Referrers() == nil {
						continue
					}
					for _, lr := range *al.Referrers() {
						if ld, ok := lr.(*ssa.UnOp); ok && ld.Op == token.MUL && ld.X == al {
							walk(ld)
						}
					}
				}
			case ssa.CallInstruction:
				cc := x.Common()
				if cc.IsInvoke() && cc.Value == v {
					if !readers[cc.Method.Name()] {
						bad = append(bad, "sg."+cc.Method.Name()+" ("+c.pos(x)+")")
					}
					break
				}
				esc = append(esc, "passed to "+c19calleeName(cc)+" ("+c.pos(x)+")")
			default:
				esc = append(esc, fmt.Sprintf("used by %T (%s)", r, c.pos(r)))
			}
		}
	}
	walk(sg)
	sort.Strings(bad)
	sort.Strings(esc)
	switch {
	case len(bad) > 0:
		ru.Fail("ReassembledSG:sg-readonly", c.pos(fn), "ReassembledSG calls "+strings.Join(bad, "; ")+": KeepFrom makes gopacket hand the kept bytes over again with the next batch, so bytes already appended to the stream appear twice")
	case len(esc) > 0:
		ru.Undecided("ReassembledSG:sg-readonly", c.pos(fn), "the scatter-gather leaves ReassembledSG: "+strings.Join(esc, "; ")+": cannot show that KeepFrom is never called")
	default:
		ru.Ok("ReassembledSG:sg-readonly", c.pos(fn), "only Info/Lengths/Fetch (read-only) are called on the scatter-gather")
	}
}
