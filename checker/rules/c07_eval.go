package rules

import (
	"go/token"
	"go/types"
	"sort"
	"strings"

	"golang.org/x/tools/go/ssa"

	"fqverif/fw"
)

// ---------------------------------------------------------------------------
// C07.eval: Interp.Eval hands the user's program to the embedded engine unchanged

func c07IsGojqFn(f *ssa.Function, name string) bool {
	return f != nil && f.Pkg != nil && f.Pkg.Pkg.Path() == c07GojqPath && f.Name() == name && f.Signature.Recv() == nil
}

// c07FieldLoad: v is a load of field `name` of some struct; returns the struct base value.
func c07FieldLoad(v ssa.Value) (base ssa.Value, field string) {
	switch x := v.(type) {
	case *ssa.UnOp:
		if x.Op != token.MUL {
			return nil, ""
		}
		if fa, ok := x.X.(*ssa.FieldAddr); ok {
			return fa.X, fieldNameOf(fa.X.Type(), fa.Field)
		}
	case *ssa.Field:
		return x.X, fieldNameOf(x.X.Type(), x.Field)
	}
	return nil, ""
}

// c07Appended: the values stored into the varargs arrays of the append chain that builds slice v.
func c07Appended(v ssa.Value) []ssa.Value {
	var out []ssa.Value
	seen := map[ssa.Value]bool{}
	var rec func(v ssa.Value)
	rec = func(v ssa.Value) {
		if v == nil || seen[v] {
			return
		}
		seen[v] = true
		switch x := v.(type) {
		case *ssa.Phi:
			for _, e := range x.Edges {
				rec(e)
			}
		case *ssa.Call:
			if !fw.IsBuiltinCall(x, "append") || len(x.Common().Args) != 2 {
				return
			}
			rec(x.Common().Args[0])
			if sl, ok := x.Common().Args[1].(*ssa.Slice); ok {
				if al, ok := sl.X.(*ssa.Alloc); ok && al.Referrers() != nil {
					for _, r := range *al.Referrers() {
						ia, ok := r.(*ssa.IndexAddr)
						if !ok || ia.Referrers() == nil {
							continue
						}
						for _, r2 := range *ia.Referrers() {
							if st, ok := r2.(*ssa.Store); ok {
								out = append(out, st.Val)
							}
						}
					}
				}
			}
		}
	}
	rec(v)
	return out
}

func c07Eval(r *fw.Run, p *fw.Program) {
	ru := r.Rule("C07.eval", "Interp.Eval parses its expr argument with gojq.Parse, compiles exactly that query with the frozen set of engine options (registered functions with Name/MinArity/MaxArity/Fn of the same record, environ loader, variables, module loader), runs it on its input argument with variable values paired to the names, and its iterator wrapper returns the engine's (value, ok) unchanged", 10)
	fn := p.Fn("(*pkg/interp.Interp).Eval")
	if fn == nil || len(fn.Params) < 4 {
		ru.Undecided("anchor", "", "(*interp.Interp).Eval not found")
		return
	}
	pos := p.Rel(fn.Pos())
	var inputP, exprP *ssa.Parameter
	for _, pa := range fn.Params[1:] {
		switch t := pa.Type().Underlying().(type) {
		case *types.Interface:
			if t.NumMethods() == 0 && inputP == nil {
				inputP = pa
			}
		case *types.Basic:
			if t.Kind() == types.String && exprP == nil {
				exprP = pa
			}
		}
	}
	if inputP == nil || exprP == nil {
		ru.Undecided("anchor:params", pos, "Eval has no (input any, expr string) parameters")
		return
	}

	// (1) frozen set of engine options
	want := map[string]bool{"WithFunction": true, "WithIterFunction": true, "WithEnvironLoader": true, "WithVariables": true, "WithModuleLoader": true}
	got := map[string]bool{}
	var withCalls []*ssa.Call
	// Eval, its closures and the same-package helpers they call (helper extraction tolerant)
	var scope []*ssa.Function
	inScope := map[*ssa.Function]bool{}
	var addScope func(f *ssa.Function, d int)
	addScope = func(f *ssa.Function, d int) {
		if f == nil || inScope[f] || f.Blocks == nil {
			return
		}
		inScope[f] = true
		scope = append(scope, f)
		for _, a := range f.AnonFuncs {
			addScope(a, d)
		}
		if d >= 2 {
			return
		}
		for _, c := range fw.CallsIn(f) {
			if cal := c.Common().StaticCallee(); cal != nil && cal.Pkg == fn.Pkg && cal.Name() != "Eval" && !strings.HasPrefix(cal.Name(), "Eval") {
				addScope(cal, d+1)
			}
		}
	}
	addScope(fn, 0)
	for _, f := range scope {
		for _, c := range fw.CallsIn(f) {
			cal := c.Common().StaticCallee()
			if cal == nil || cal.Pkg == nil || cal.Pkg.Pkg.Path() != c07GojqPath || !strings.HasPrefix(cal.Name(), "With") {
				continue
			}
			got[cal.Name()] = true
			if call, ok := c.(*ssa.Call); ok {
				withCalls = append(withCalls, call)
			}
			if !want[cal.Name()] {
				ru.Fail("option:"+cal.Name(), p.Rel(c.Pos()), "Eval compiles with the additional engine option gojq."+cal.Name()+": standard programs may now behave differently from the plain engine")
			}
		}
	}
	for _, w := range fw.SortedKeys(want) {
		ru.Check(got[w], "option:"+w, pos, "gojq."+w+" is applied", "Eval no longer applies gojq."+w)
	}

	// (1b) the environment loader is the OS abstraction's Environ, and the OS the fq binary runs on returns os.Environ()
	for _, call := range withCalls {
		if call.Common().StaticCallee().Name() != "WithEnvironLoader" || len(call.Common().Args) != 1 {
			continue
		}
		okSrc := false
		var osIface *types.Named
		if mc, isMC := call.Common().Args[0].(*ssa.MakeClosure); isMC && len(mc.Bindings) == 1 {
			if bf, isF := mc.Fn.(*ssa.Function); isF && bf.Synthetic != "" && strings.HasPrefix(bf.Name(), "Environ$") {
				if _, f := c07FieldLoad(mc.Bindings[0]); f != "" {
					if n, isN := mc.Bindings[0].Type().(*types.Named); isN {
						if _, isI := n.Underlying().(*types.Interface); isI {
							osIface, okSrc = n, true
						}
					}
				}
			}
		}
		ru.Check(okSrc, "option:WithEnvironLoader:source", p.Rel(call.Pos()), "loader is the Environ method of the interpreter's OS", "gojq.WithEnvironLoader does not receive the Environ method of the interpreter's OS field: env/$ENV no longer show the process environment")
		if osIface != nil {
			c07EnvironImpls(ru, p, osIface)
		}
	}

	// (2) registered functions: all four arguments come from the same record, field by field
	for _, call := range withCalls {
		name := call.Common().StaticCallee().Name()
		if name != "WithFunction" && name != "WithIterFunction" {
			continue
		}
		wantF := []string{"Name", "MinArity", "MaxArity", "FuncFn"}
		if name == "WithIterFunction" {
			wantF[3] = "IterFn"
		}
		ok := len(call.Common().Args) == 4
		var base ssa.Value
		var gotF []string
		if ok {
			for i, a := range call.Common().Args {
				b, f := c07FieldLoad(a)
				gotF = append(gotF, f)
				if f != wantF[i] || b == nil || (base != nil && b != base) {
					ok = false
				}
				if base == nil {
					base = b
				}
			}
		}
		ru.Check(ok, "register:"+name, p.Rel(call.Pos()), "("+strings.Join(wantF, ", ")+") of one record", "gojq."+name+" receives ("+strings.Join(gotF, ", ")+") instead of ("+strings.Join(wantF, ", ")+") of one registered function record: arity bounds or callback are mixed up")
		if ok {
			// the iterator variant is chosen exactly when IterFn != nil
			guard := ""
			for _, g := range fw.Guards(call.Block()) {
				g = g.Normalize()
				bo, isBo := g.Cond.(*ssa.BinOp)
				if !isBo || (bo.Op != token.NEQ && bo.Op != token.EQL) {
					continue
				}
				var other ssa.Value
				if isNilConst(bo.Y) {
					other = bo.X
				} else if isNilConst(bo.X) {
					other = bo.Y
				}
				b, f := c07FieldLoad(other)
				if b != base || f != "IterFn" {
					continue
				}
				nonNil := (bo.Op == token.NEQ) == g.True
				if nonNil {
					guard = "IterFn != nil"
				} else {
					guard = "IterFn == nil"
				}
			}
			wantG := "IterFn == nil"
			if name == "WithIterFunction" {
				wantG = "IterFn != nil"
			}
			ru.Check(guard == wantG, "register:"+name+":guard", p.Rel(call.Pos()), "under "+wantG, "gojq."+name+" is applied under `"+guard+"`, expected `"+wantG+"`")
		}
	}

	// (3) parse -> compile -> run chain of the user's program
	var run *ssa.Call
	for _, c := range fw.CallsIn(fn) {
		if cal := c.Common().StaticCallee(); cal != nil && cal.Name() == "RunWithContext" && cal.Pkg != nil && cal.Pkg.Pkg.Path() == c07GojqPath {
			run, _ = c.(*ssa.Call)
		}
	}
	if run == nil || len(run.Common().Args) != 4 {
		ru.Undecided("run", pos, "no (*gojq.Code).RunWithContext(ctx, input, values...) call in Eval")
		return
	}
	chain := false
	var compile *ssa.Call
	if ex, ok := run.Common().Args[0].(*ssa.Extract); ok && ex.Index == 0 {
		if cc, ok := ex.Tuple.(*ssa.Call); ok && c07IsGojqFn(cc.Common().StaticCallee(), "Compile") {
			compile = cc
			if ex2, ok := cc.Common().Args[0].(*ssa.Extract); ok && ex2.Index == 0 {
				if pc, ok := ex2.Tuple.(*ssa.Call); ok && c07IsGojqFn(pc.Common().StaticCallee(), "Parse") && pc.Common().Args[0] == ssa.Value(exprP) {
					chain = true
				}
			}
		}
	}
	ru.Check(chain, "run:program", p.Rel(run.Pos()), "RunWithContext on Compile(Parse(expr))", "the code that is run is not gojq.Compile(gojq.Parse(<expr argument>)): the user's program is rewritten or another query is run")
	ru.Check(run.Common().Args[2] == ssa.Value(inputP), "run:input", p.Rel(run.Pos()), "input argument passed unchanged", "the value the program runs on is not Eval's input argument")

	// the options passed to Compile are exactly the appended With* results (plus the cloned function options)
	if compile != nil {
		okOpts := true
		n := 0
		for _, v := range c07Appended(compile.Common().Args[1]) {
			n++
			call, isCall := v.(*ssa.Call)
			if !isCall || call.Common().StaticCallee() == nil || !want[call.Common().StaticCallee().Name()] {
				okOpts = false
			}
		}
		ru.Check(okOpts && n >= 1, "compile:options", p.Rel(compile.Pos()), "options are the gojq.With* results", "Compile receives an option that is not one of the frozen gojq.With* results")
	}

	// (4) variables: names and values appended pairwise from the same map iteration
	var withVars *ssa.Call
	for _, c := range withCalls {
		if c.Common().StaticCallee().Name() == "WithVariables" {
			withVars = c
		}
	}
	if withVars == nil {
		ru.Undecided("variables", pos, "gojq.WithVariables call not found in Eval")
	} else {
		// a helper that applies the option receives the names as a parameter: go up to the caller's value
		namesV := withVars.Common().Args[0]
		for up := 0; up < 2; up++ {
			pa, isP := namesV.(*ssa.Parameter)
			if !isP || pa.Parent() == fn {
				break
			}
			var sites []ssa.CallInstruction
			for _, f := range scope {
				for _, c := range fw.CallsIn(f) {
					if c.Common().StaticCallee() == pa.Parent() {
						sites = append(sites, c)
					}
				}
			}
			if len(sites) != 1 {
				break
			}
			for i, q := range pa.Parent().Params {
				if q == pa && i < len(sites[0].Common().Args) {
					namesV = sites[0].Common().Args[i]
				}
			}
		}
		names := c07Appended(namesV)
		values := c07Appended(run.Common().Args[3])
		ok := len(names) == 1 && len(values) == 1
		msg := "variable names/values are not built by one append each"
		if ok {
			var kNext, vNext ssa.Value
			// name = "$" + key
			if bo, isBo := names[0].(*ssa.BinOp); isBo && bo.Op == token.ADD {
				if s, isS := constString(bo.X); isS && s == "$" {
					if ex, isEx := bo.Y.(*ssa.Extract); isEx && ex.Index == 1 {
						kNext = ex.Tuple
					}
				}
			}
			vv := values[0]
			if mi, isMI := vv.(*ssa.MakeInterface); isMI {
				vv = mi.X
			}
			if ex, isEx := vv.(*ssa.Extract); isEx && ex.Index == 2 {
				vNext = ex.Tuple
			}
			_, isNext := kNext.(*ssa.Next)
			switch {
			case kNext == nil || !isNext:
				ok, msg = false, "variable name is not \"$\" + <map key of the iteration>"
			case vNext != kNext:
				ok, msg = false, "variable value is not the map value of the same iteration as its name: names and values are paired wrongly"
			}
		}
		ru.Check(ok, "variables:paired", p.Rel(withVars.Pos()), "names \"$\"+k and values v of the same range iteration, same order", msg)
		// every entry of the map is bound: no path through the loop body gets back to the loop head
		// without passing the append (a skipped entry, e.g. a null-valued --argjson, is an undefined
		// variable at compile time)
		if ok {
			nameI, _ := names[0].(ssa.Instruction)
			var next *ssa.Next
			if bo, isBo := names[0].(*ssa.BinOp); isBo {
				if ex, isEx := bo.Y.(*ssa.Extract); isEx {
					next, _ = ex.Tuple.(*ssa.Next)
				}
			}
			if nameI == nil || next == nil || len(next.Block().Succs) != 2 {
				ru.Undecided("variables:all", p.Rel(withVars.Pos()), "range loop over the variables not recognised")
			} else {
				head, body, ab := next.Block(), next.Block().Succs[0], nameI.Block()
				skipped := false
				seen := map[*ssa.BasicBlock]bool{}
				var walk func(b *ssa.BasicBlock)
				walk = func(b *ssa.BasicBlock) {
					if b == ab || seen[b] {
						return
					}
					seen[b] = true
					if b == head {
						skipped = true
						return
					}
					for _, sc := range b.Succs {
						walk(sc)
					}
				}
				walk(body)
				ru.Check(!skipped, "variables:all", p.Rel(nameI.Pos()), "every iteration of the variables loop binds its entry", "an iteration of the variables loop can continue without binding its entry: a variable given on the command line (e.g. --argjson x null) is then undefined in the program")
			}
		}
	}

	// (5) iterator wrapper
	var wrap *ssa.Function
	var iterCell ssa.Value
	if run.Referrers() != nil {
		for _, rf := range *run.Referrers() {
			if st, ok := rf.(*ssa.Store); ok && st.Val == ssa.Value(run) {
				iterCell = st.Addr
			}
		}
	}
	fw.EachInstr(fn, func(ins ssa.Instruction) {
		mc, ok := ins.(*ssa.MakeClosure)
		if !ok {
			return
		}
		for _, b := range mc.Bindings {
			if iterCell != nil && b == iterCell {
				wrap, _ = mc.Fn.(*ssa.Function)
			}
		}
	})
	if wrap == nil {
		// direct return of the engine iterator is fine as well
		direct := false
		fw.EachInstr(fn, func(ins ssa.Instruction) {
			if ret, ok := ins.(*ssa.Return); ok && len(ret.Results) == 2 && ret.Results[0] == ssa.Value(run) {
				direct = true
			}
		})
		if direct {
			ru.Ok("wrapper", pos, "engine iterator returned directly")
		} else {
			ru.Undecided("wrapper", pos, "iterator wrapper closure over the engine iterator not found")
		}
		return
	}
	var next *ssa.Call
	for _, c := range fw.CallsIn(wrap) {
		if c.Common().IsInvoke() && c.Common().Method.Name() == "Next" {
			if next != nil {
				next = nil
				break
			}
			next, _ = c.(*ssa.Call)
		}
	}
	okW := next != nil
	nret := 0
	if okW {
		fw.EachInstr(wrap, func(ins ssa.Instruction) {
			ret, isRet := ins.(*ssa.Return)
			if !isRet {
				return
			}
			nret++
			if len(ret.Results) != 2 {
				okW = false
				return
			}
			for i, rv := range ret.Results {
				ex, isEx := rv.(*ssa.Extract)
				if !isEx || ex.Tuple != ssa.Value(next) || ex.Index != i {
					okW = false
				}
			}
		})
	}
	ru.Check(okW && nret > 0, "wrapper:transparent", p.Rel(wrap.Pos()), "returns (v, ok) of the engine iterator's single Next() call", "the iterator wrapper does not return the engine iterator's (value, ok) unchanged from exactly one Next() call per step: outputs are dropped, duplicated or altered")
	// what Eval returns is that wrapper
	retOK := false
	fw.EachInstr(fn, func(ins ssa.Instruction) {
		ret, isRet := ins.(*ssa.Return)
		if !isRet || len(ret.Results) != 2 {
			return
		}
		v, _ := stripIface(ret.Results[0])
		if ct, isCT := v.(*ssa.ChangeType); isCT {
			v = ct.X
		}
		if mc, isMC := v.(*ssa.MakeClosure); isMC && mc.Fn == ssa.Value(wrap) {
			retOK = true
		}
	})
	ru.Check(retOK, "wrapper:returned", pos, "Eval returns the wrapper", "Eval's successful return is not the wrapper over the engine iterator")

	// (6) init module is the parsed init source only
	var loaders []string
	for _, cl := range fn.AnonFuncs {
		if cl.Signature.Params().Len() == 0 && cl.Signature.Results().Len() == 2 {
			if sl, ok := cl.Signature.Results().At(0).Type().Underlying().(*types.Slice); ok && strings.HasSuffix(sl.Elem().String(), "gojq.Query") {
				var elems []string
				fw.EachInstr(cl, func(ins ssa.Instruction) {
					if st, ok := ins.(*ssa.Store); ok {
						if _, isIA := st.Addr.(*ssa.IndexAddr); isIA {
							_, f := c07FieldLoad(st.Val)
							elems = append(elems, f)
						}
					}
				})
				sort.Strings(elems)
				loaders = append(loaders, strings.Join(elems, ","))
			}
		}
	}
	ru.Check(len(loaders) == 1 && loaders[0] == "initQuery", "init-modules", pos, "LoadInitModules returns [initQuery]", "LoadInitModules does not return exactly the parsed init query: ["+strings.Join(loaders, ";")+"]")
}

// c07EnvironImpls: every implementation of the OS abstraction linked into the fq command returns os.Environ().
func c07EnvironImpls(ru *fw.Rule, p *fw.Program, osIface *types.Named) {
	iface := osIface.Underlying().(*types.Interface)
	// packages the fq command depends on
	linked := map[string]bool{}
	var walk func(path string)
	walk = func(path string) {
		pk := p.ByPath[path]
		if pk == nil || linked[path] {
			return
		}
		linked[path] = true
		for ip := range pk.Imports {
			if strings.HasPrefix(ip, fw.Mod) {
				walk(ip)
			}
		}
	}
	for _, pk := range p.Roots {
		if pk.Name == "main" && pk.PkgPath == fw.Mod {
			walk(pk.PkgPath)
		}
	}
	n := 0
	for _, pk := range p.Roots {
		if !linked[pk.PkgPath] {
			continue
		}
		sc := pk.Types.Scope()
		for _, nm := range sc.Names() {
			tn, ok := sc.Lookup(nm).(*types.TypeName)
			if !ok || tn.IsAlias() {
				continue
			}
			named, ok := tn.Type().(*types.Named)
			if !ok || named.TypeParams().Len() > 0 {
				continue
			}
			if _, isI := named.Underlying().(*types.Interface); isI {
				continue
			}
			var T types.Type = named
			if !types.Implements(T, iface) {
				T = types.NewPointer(named)
				if !types.Implements(T, iface) {
					continue
				}
			}
			sel := types.NewMethodSet(T).Lookup(pk.Types, "Environ")
			if sel == nil {
				continue
			}
			mf := p.SSA.MethodValue(sel)
			if mf == nil || mf.Blocks == nil {
				continue
			}
			n++
			ok2, nret := true, 0
			fw.EachInstr(mf, func(ins ssa.Instruction) {
				ret, isRet := ins.(*ssa.Return)
				if !isRet {
					return
				}
				nret++
				call, isCall := ret.Results[0].(*ssa.Call)
				if len(ret.Results) != 1 || !isCall || fw.CalleeName(call) != "os.Environ" {
					ok2 = false
				}
			})
			ru.Check(ok2 && nret > 0, "environ:"+shortType(named), p.Rel(mf.Pos()), "returns os.Environ()", "the OS implementation linked into the fq command does not return os.Environ() unchanged from Environ(): env/$ENV differ from the engine's")
		}
	}
	if n == 0 {
		ru.Undecided("environ", "", "no implementation of the OS abstraction found in the packages the fq command links")
	}
}
