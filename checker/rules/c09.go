package rules

// C09 "Binary values obey bit-string algebra".
//
// The rules decide structural necessary conditions of the bit-string algebra in
// pkg/interp/binary.go, pkg/interp/binary.jq, pkg/interp/decode.go (binary views of decode
// values) and internal/bitiox/zeroreadatseeker.go:
//
//   C09.byte    0..255 guards of every narrowing-to-byte in toBitReaderEx
//   C09.accept  accepted dynamic types, error returns, inArray plumbing, toBinary/toBigInt
//   C09.num     number -> bits (front padding), ToNumber / Index right shift, tostring
//   C09.unit    unit arithmetic of Index/Slice/Length/Key and every Binary construction
//   C09.pad     _toBits: argument guard, pad formula, unit, keep_range; toReader front padding
//   C09.zero    ZeroReadAtSeeker zero-fill covers BitsByteCount(n) bytes, BitsByteCount is ceil(n/8)
//   C09.concat  bitio.MultiReader: cumulative ends, first-match selection, relative offset, EOF rules
//   C09.jq      tobits/tobytes/... option tables, explode override, _binary_or_orig dispatch
//
// All integer formulas are compared in polynomial normal form (fw.Poly) over role-named atoms:
// "recv" is the receiver, "a0","a1".. the other parameters in order, field paths are appended
// with dots ("recv.r.Start"). Names of locals, receivers and parameters do not matter.

import (
	"fmt"
	"go/constant"
	"go/token"
	"go/types"
	"sort"
	"strings"

	"golang.org/x/tools/go/ssa"

	"fqverif/fw"
)

func init() { Register("C09", runC09) }

func runC09(r *fw.Run, p *fw.Program) {
	c09Byte(r, p)
	c09Accept(r, p)
	c09Num(r, p)
	c09Unit(r, p)
	c09Pad(r, p)
	c09Zero(r, p)
	c09Concat(r, p)
	c09JQ(r, p)
	c09Err(r, p)
	c09Borrowed(r, p)
	{
		sc := r.Scratch()
		c01BufState(sc, p)
		r.Import(sc, "C01.bufstate", "C09.bufstate", "tostring/tohex/raw output of a concatenation read the bit string through bitio.Buffer (the fifo of the byte view): WriteBits makes room for exactly BitsByteCount(bufBits+nBits) bytes and the stored bits are never moved except by the decided reset of an empty buffer (C01.bufstate obligations)", 5, nil)
	}
	r.Assumption("C09: two distinct pointer/reader parameters of one function do not alias; math/big, bytes.Buffer and builtin min behave as documented")
}

// ---------------------------------------------------------------------------
// role-named symbolic environment

type c09Store struct {
	path string
	st   *ssa.Store
}

// c09Sym names integer (and other) SSA values of one function by access path rooted in
// parameter roles, so that formulas can be compared independent of identifier names.
type c09Sym struct {
	fn     *ssa.Function
	root   map[ssa.Value]string
	init   map[*ssa.Store]bool
	sum    map[ssa.Value]*fw.Poly // extra substitutions (summarised calls)
	env    *fw.PolyEnv
	pure   []string
	stores []c09Store
	paths  map[ssa.Value]string // values named by a clean access path
	depth  int
}

var c09Pure = []string{
	"(*math/big.Int).BitLen", "(*math/big.Int).Uint64", "(*math/big.Int).Int64", "(*math/big.Int).Sign",
	"(*math/big.Int).Cmp", "(*math/big.Int).IsUint64", "(*math/big.Int).IsInt64",
	fw.Mod + "/pkg/bitio.BitsByteCount",
}

func newC09Sym(fn *ssa.Function) *c09Sym { return newC09SymNamed(fn, nil) }

// newC09SymNamed: names overrides the role name of parameters (used when a small helper is
// evaluated in its caller's vocabulary).
func newC09SymNamed(fn *ssa.Function, names map[*ssa.Parameter]string) *c09Sym {
	s := &c09Sym{fn: fn, root: map[ssa.Value]string{}, init: map[*ssa.Store]bool{}, sum: map[ssa.Value]*fw.Poly{}}
	k := 0
	for i, prm := range fn.Params {
		if fn.Signature.Recv() != nil && i == 0 {
			s.root[prm] = "recv"
		} else {
			s.root[prm] = fmt.Sprintf("a%d", k)
			k++
		}
		if n, ok := names[prm]; ok {
			s.root[prm] = n
		}
	}
	// parameter spills: a local that receives the whole parameter once and never escapes
	fw.EachInstr(fn, func(ins ssa.Instruction) {
		a, ok := ins.(*ssa.Alloc)
		if !ok {
			return
		}
		st := c09WholeStore(a)
		if st == nil {
			return
		}
		if prm, ok := st.Val.(*ssa.Parameter); ok && !c09Escapes(a) {
			s.root[a] = s.root[prm]
			s.init[st] = true
		}
	})
	return s
}

// nameAlloc names a local that is initialised by exactly one whole store (rule-chosen role).
func (s *c09Sym) nameAlloc(a *ssa.Alloc, name string) bool {
	st := c09WholeStore(a)
	if st == nil || c09Escapes(a) {
		return false
	}
	s.root[a] = name
	s.init[st] = true
	s.env = nil
	return true
}

// nameValue names an arbitrary value (e.g. the result of a call identified by the rule).
func (s *c09Sym) nameValue(v ssa.Value, name string) {
	s.root[v] = name
	s.env = nil
}

// summarise substitutes a polynomial for a value (a call with a checked summary).
func (s *c09Sym) summarise(v ssa.Value, p *fw.Poly) {
	s.sum[v] = p
	s.env = nil
}

func c09WholeStore(a *ssa.Alloc) *ssa.Store {
	var out *ssa.Store
	n := 0
	if a.Referrers() == nil {
		return nil
	}
	for _, ref := range *a.Referrers() {
		if st, ok := ref.(*ssa.Store); ok && st.Addr == ssa.Value(a) {
			out = st
			n++
		}
	}
	if n != 1 {
		return nil
	}
	return out
}

// c09Escapes: the address (or a field address) of a is used other than by load/store/field selection.
func c09Escapes(a ssa.Value) bool {
	refs := a.Referrers()
	if refs == nil {
		return false
	}
	for _, ref := range *refs {
		switch x := ref.(type) {
		case *ssa.FieldAddr:
			if c09Escapes(x) {
				return true
			}
		case *ssa.IndexAddr:
			if x.X != a || c09Escapes(x) {
				return true
			}
		case *ssa.UnOp:
			if x.Op != token.MUL {
				return true
			}
		case *ssa.Store:
			if x.Addr != a {
				return true
			}
		case *ssa.DebugRef:
		default:
			return true
		}
	}
	return false
}

// path returns the role-rooted access path of a value or address.
func (s *c09Sym) path(v ssa.Value) (string, bool) {
	if n, ok := s.root[v]; ok {
		return n, true
	}
	switch x := v.(type) {
	case *ssa.FieldAddr:
		b, ok := s.path(x.X)
		if !ok {
			return "", false
		}
		return b + "." + fieldNameOf(x.X.Type(), x.Field), true
	case *ssa.Field:
		b, ok := s.path(x.X)
		if !ok {
			return "", false
		}
		return b + "." + fieldNameOf(x.X.Type(), x.Field), true
	case *ssa.UnOp:
		if x.Op == token.MUL {
			return s.path(x.X)
		}
	}
	return "", false
}

func c09Overlap(a, b string) bool {
	return a == b || strings.HasPrefix(a, b+".") || strings.HasPrefix(b, a+".")
}

func c09InstrDominates(a, b ssa.Instruction) bool {
	if a.Block() == b.Block() {
		for _, ins := range a.Block().Instrs {
			if ins == a {
				return true
			}
			if ins == b {
				return false
			}
		}
		return false
	}
	return a.Block().Dominates(b.Block())
}

func (s *c09Sym) build() {
	s.stores = nil
	fw.EachInstr(s.fn, func(ins ssa.Instruction) {
		if st, ok := ins.(*ssa.Store); ok && !s.init[st] {
			if pth, ok := s.path(st.Addr); ok {
				s.stores = append(s.stores, c09Store{pth, st})
			}
		}
	})
	atoms := map[ssa.Value]*fw.Poly{}
	fwd := map[ssa.Value]ssa.Value{}
	s.paths = map[ssa.Value]string{}
	for v, n := range s.root {
		atoms[v] = fw.PAtom(n)
		s.paths[v] = n
	}
	fw.EachInstr(s.fn, func(ins ssa.Instruction) {
		v, ok := ins.(ssa.Value)
		if !ok {
			return
		}
		switch x := v.(type) {
		case *ssa.Field:
		case *ssa.UnOp:
			if x.Op != token.MUL {
				return
			}
		default:
			return
		}
		if _, isRoot := s.root[v]; isRoot {
			return
		}
		pth, ok := s.path(v)
		if !ok {
			return
		}
		var ov []c09Store
		for _, st := range s.stores {
			if c09Overlap(st.path, pth) {
				ov = append(ov, st)
			}
		}
		switch {
		case len(ov) == 0:
			atoms[v] = fw.PAtom(pth)
			s.paths[v] = pth
		case len(ov) == 1 && ov[0].path == pth && c09InstrDominates(ov[0].st, ins):
			fwd[v] = ov[0].st.Val
		}
	})
	for v, p := range s.sum {
		atoms[v] = p
	}
	mk := func(sub map[ssa.Value]*fw.Poly) *fw.PolyEnv {
		e := fw.NewPolyEnv(s.fn)
		e.Subst = map[ssa.Value]*fw.Poly{}
		for k, v := range sub {
			e.Subst[k] = v
		}
		for _, n := range c09Pure {
			e.Pure[n] = true
		}
		return e
	}
	sub := atoms
	for it := 0; it < 3 && len(fwd) > 0; it++ {
		e := mk(sub)
		next := map[ssa.Value]*fw.Poly{}
		for k, v := range atoms {
			next[k] = v
		}
		for ld, val := range fwd {
			next[ld] = e.Of(val)
		}
		sub = next
	}
	// small pure fq helpers (single block, integer result) are evaluated in this function's
	// vocabulary, so that extracting such a helper does not change any formula
	if s.depth < 2 {
		for pass := 0; pass < 2; pass++ {
			e := mk(sub)
			next := map[ssa.Value]*fw.Poly{}
			for k, v := range sub {
				next[k] = v
			}
			changed := false
			fw.EachInstr(s.fn, func(ins ssa.Instruction) {
				c, ok := ins.(*ssa.Call)
				if !ok {
					return
				}
				if _, done := s.sum[c]; done {
					return
				}
				if fw.IsBuiltinCall(c, "len") && len(c.Call.Args) == 1 {
					if pth, ok := s.paths[c.Call.Args[0]]; ok {
						next[c] = fw.PAtom("len(" + pth + ")")
					}
					return
				}
				if pl := s.inlineCall(c, e); pl != nil {
					if old, had := sub[c]; !had || !old.Equal(pl) {
						changed = true
					}
					next[c] = pl
				}
			})
			sub = next
			if !changed {
				break
			}
		}
	}
	s.env = mk(sub)
}

func c09Inlinable(g *ssa.Function) bool {
	if g == nil || len(g.Blocks) != 1 || !fw.InFq(g) || len(g.Blocks[0].Instrs) > 24 {
		return false
	}
	for _, ins := range g.Blocks[0].Instrs {
		switch x := ins.(type) {
		case *ssa.Return:
			if len(x.Results) != 1 || !c09IsIntType(x.Results[0].Type()) {
				return false
			}
		case *ssa.BinOp, *ssa.Field, *ssa.FieldAddr, *ssa.Convert, *ssa.ChangeType, *ssa.DebugRef, *ssa.Alloc:
		case *ssa.UnOp:
			if x.Op == token.ARROW {
				return false
			}
		case *ssa.Store:
			if _, ok := x.Val.(*ssa.Parameter); !ok {
				return false
			}
		case *ssa.Call:
			if x.Call.StaticCallee() == nil || x.Call.StaticCallee() == g {
				return false
			}
		default:
			return false
		}
	}
	return true
}

// inlineCall evaluates a call of a small pure helper with the caller's names.
func (s *c09Sym) inlineCall(c *ssa.Call, e *fw.PolyEnv) *fw.Poly {
	g := c.Call.StaticCallee()
	if c.Call.IsInvoke() || !c09Inlinable(g) || !c09IsIntType(c.Type()) || len(g.Params) != len(c.Call.Args) {
		return nil
	}
	names := map[*ssa.Parameter]string{}
	polys := map[*ssa.Parameter]*fw.Poly{}
	for i, prm := range g.Params {
		a := c.Call.Args[i]
		if pth, ok := s.paths[a]; ok {
			names[prm] = pth
		} else if c09IsIntType(a.Type()) {
			polys[prm] = e.Of(a)
		} else {
			return nil
		}
	}
	ch := newC09SymNamed(g, names)
	ch.depth = s.depth + 1
	for prm, pl := range polys {
		for a, n := range ch.root {
			if _, isAlloc := a.(*ssa.Alloc); isAlloc && n == ch.root[prm] {
				return nil // spilled integer parameter: not handled
			}
		}
		ch.sum[prm] = pl
	}
	ret := g.Blocks[0].Instrs[len(g.Blocks[0].Instrs)-1].(*ssa.Return)
	pl := ch.Of(ret.Results[0])
	for _, a := range pl.Atoms() {
		if strings.HasPrefix(a, "?") || strings.Contains(a, "#") {
			return nil // something the helper computes is not expressible
		}
	}
	return pl
}

func (s *c09Sym) allStores() []c09Store {
	s.E()
	return s.stores
}

func (s *c09Sym) E() *fw.PolyEnv {
	if s.env == nil {
		s.build()
	}
	return s.env
}

// Of is the polynomial of v over role atoms.
func (s *c09Sym) Of(v ssa.Value) *fw.Poly { return s.E().Of(v) }

func c09StripIface(v ssa.Value) ssa.Value {
	for {
		switch x := v.(type) {
		case *ssa.MakeInterface:
			v = x.X
		case *ssa.ChangeInterface:
			v = x.X
		case *ssa.ChangeType:
			v = x.X
		default:
			return v
		}
	}
}

// Desc is the canonical name of any value (interfaces stripped).
func (s *c09Sym) Desc(v ssa.Value) string { return s.Of(c09StripIface(v)).String() }

// is compares the polynomial of v with the expected formula text.
func (s *c09Sym) is(v ssa.Value, want string) (bool, string) {
	got := s.Of(c09StripIface(v))
	w := fw.ParsePoly(want)
	if got.Equal(w) {
		return true, got.String()
	}
	return false, fmt.Sprintf("got %s, want %s", got.String(), w.String())
}

// bounds derives integer bounds of poly q from the comparison facts known at block b.
func (s *c09Sym) bounds(b *ssa.BasicBlock, q *fw.Poly) (lo, hi int64, hasLo, hasHi bool) {
	setLo := func(v int64) {
		if !hasLo || v > lo {
			lo, hasLo = v, true
		}
	}
	setHi := func(v int64) {
		if !hasHi || v < hi {
			hi, hasHi = v, true
		}
	}
	for _, c := range s.E().Facts(b) {
		for _, sg := range []int64{1, -1} {
			dp := c.P.Sub(q.MulC(sg))
			d, ok := dp.IsConst()
			if !ok {
				continue
			}
			// sg*q + d rel 0
			rel := c.Rel
			if sg == 1 { // q rel -d
				switch rel {
				case fw.GE:
					setLo(-d)
				case fw.GT:
					setLo(-d + 1)
				case fw.LE:
					setHi(-d)
				case fw.LT:
					setHi(-d - 1)
				case fw.EQ:
					setLo(-d)
					setHi(-d)
				}
			} else { // -q + d rel 0  <=>  q (flip rel) d
				switch rel {
				case fw.GE:
					setHi(d)
				case fw.GT:
					setHi(d - 1)
				case fw.LE:
					setLo(d)
				case fw.LT:
					setLo(d + 1)
				case fw.EQ:
					setLo(d)
					setHi(d)
				}
			}
			break
		}
	}
	return
}

// ---------------------------------------------------------------------------
// small SSA helpers

func c09Callee(v ssa.Value) (*ssa.Call, string) {
	c, ok := v.(*ssa.Call)
	if !ok {
		return nil, ""
	}
	return c, fw.CalleeName(c)
}

func c09ConstInt(v ssa.Value) (int64, bool) {
	for {
		if cv, ok := v.(*ssa.Convert); ok {
			v = cv.X
			continue
		}
		break
	}
	c, ok := v.(*ssa.Const)
	if !ok || c.Value == nil || c.Value.Kind() != constant.Int {
		return 0, false
	}
	return constant.Int64Val(c.Value)
}

func c09IsNilConst(v ssa.Value) bool {
	c, ok := v.(*ssa.Const)
	return ok && c.IsNil()
}

// c09Extract0 returns the call whose #idx result v is.
func c09ExtractOf(v ssa.Value, idx int) *ssa.Call {
	ex, ok := v.(*ssa.Extract)
	if !ok || ex.Index != idx {
		return nil
	}
	c, _ := ex.Tuple.(*ssa.Call)
	return c
}

// c09Varargs returns the elements of a "new [n]T (varargs); slice" argument in index order.
func c09Varargs(v ssa.Value) []ssa.Value {
	sl, ok := v.(*ssa.Slice)
	if !ok {
		return nil
	}
	a, ok := sl.X.(*ssa.Alloc)
	if !ok || a.Referrers() == nil {
		return nil
	}
	m := map[int64]ssa.Value{}
	for _, ref := range *a.Referrers() {
		ia, ok := ref.(*ssa.IndexAddr)
		if !ok || ia.Referrers() == nil {
			continue
		}
		i, ok := c09ConstInt(ia.Index)
		if !ok {
			return nil
		}
		for _, r2 := range *ia.Referrers() {
			if st, ok := r2.(*ssa.Store); ok && st.Addr == ssa.Value(ia) {
				m[i] = st.Val
			}
		}
	}
	out := make([]ssa.Value, len(m))
	for i := range out {
		v, ok := m[int64(i)]
		if !ok {
			return nil
		}
		out[i] = v
	}
	return out
}

func c09CallsTo(fn *ssa.Function, full string) []*ssa.Call {
	var out []*ssa.Call
	fw.EachInstr(fn, func(ins ssa.Instruction) {
		if c, ok := ins.(*ssa.Call); ok && fw.CalleeName(c) == full {
			out = append(out, c)
		}
	})
	return out
}

func c09Returns(fn *ssa.Function) []*ssa.Return {
	var out []*ssa.Return
	fw.EachInstr(fn, func(ins ssa.Instruction) {
		if rt, ok := ins.(*ssa.Return); ok {
			out = append(out, rt)
		}
	})
	return out
}

// c09GuardTrue reports whether value cond is known true (want=true) or false at block b.
func c09GuardIs(b *ssa.BasicBlock, cond ssa.Value, want bool) bool {
	for _, g := range fw.Guards(b) {
		g = g.Normalize()
		if g.Cond == cond && g.True == want {
			return true
		}
	}
	return false
}

func c09Fn(ru *fw.Rule, p *fw.Program, name string) *ssa.Function {
	fn := p.Fn(name)
	if fn == nil || fn.Blocks == nil {
		ru.Undecided("anchor:"+name, "", "function "+name+" not found")
		return nil
	}
	return fn
}

func c09IsByteType(t types.Type) bool {
	b, ok := t.Underlying().(*types.Basic)
	return ok && b.Kind() == types.Uint8
}

func c09IsIntType(t types.Type) bool {
	b, ok := t.Underlying().(*types.Basic)
	return ok && b.Info()&types.IsInteger != 0
}

func c09IsFloatType(t types.Type) bool {
	b, ok := t.Underlying().(*types.Basic)
	return ok && b.Info()&types.IsFloat != 0
}

const (
	c09BigUint64 = "(*math/big.Int).Uint64"
	c09BigInt64  = "(*math/big.Int).Int64"
	c09BigCmp    = "(*math/big.Int).Cmp"
	c09BigNewInt = "math/big.NewInt"
	c09BigSign   = "(*math/big.Int).Sign"
	c09BigBitLen = "(*math/big.Int).BitLen"
	c09BigIsU64  = "(*math/big.Int).IsUint64"
)

// c09BigBounds derives bounds of the *big.Int value x from dominating guards of the forms
// x.Cmp(big.NewInt(c)) rel 0, x.Sign() rel 0, x.BitLen() </<= k, x.IsUint64().
// It also returns the If instructions that contributed.
func c09BigBounds(b *ssa.BasicBlock, x ssa.Value) (lo, hi int64, hasLo, hasHi bool, ifs []*ssa.If) {
	setLo := func(v int64) {
		if !hasLo || v > lo {
			lo, hasLo = v, true
		}
	}
	setHi := func(v int64) {
		if !hasHi || v < hi {
			hi, hasHi = v, true
		}
	}
	apply := func(op token.Token, c int64) bool { // x op c
		switch op {
		case token.GEQ:
			setLo(c)
		case token.GTR:
			setLo(c + 1)
		case token.LEQ:
			setHi(c)
		case token.LSS:
			setHi(c - 1)
		case token.EQL:
			setLo(c)
			setHi(c)
		default:
			return false
		}
		return true
	}
	neg := map[token.Token]token.Token{token.GEQ: token.LSS, token.GTR: token.LEQ, token.LEQ: token.GTR, token.LSS: token.GEQ, token.EQL: token.NEQ, token.NEQ: token.EQL}
	flip := map[token.Token]token.Token{token.GEQ: token.LEQ, token.GTR: token.LSS, token.LEQ: token.GEQ, token.LSS: token.GTR, token.EQL: token.EQL, token.NEQ: token.NEQ}
	for _, g := range fw.Guards(b) {
		g = g.Normalize()
		if call, name := c09Callee(g.Cond); call != nil && name == c09BigIsU64 && len(call.Call.Args) == 1 && call.Call.Args[0] == x && g.True {
			setLo(0)
			ifs = append(ifs, g.If)
			continue
		}
		bo, ok := g.Cond.(*ssa.BinOp)
		if !ok {
			continue
		}
		op := bo.Op
		l, rr := bo.X, bo.Y
		k, isC := c09ConstInt(rr)
		if !isC {
			if k2, ok := c09ConstInt(l); ok {
				k, l, op, isC = k2, rr, flip[op], true
			}
		}
		if !isC {
			continue
		}
		if !g.True {
			op = neg[op]
		}
		call, name := c09Callee(l)
		if call == nil || len(call.Call.Args) == 0 || call.Call.Args[0] != x {
			continue
		}
		used := false
		switch name {
		case c09BigCmp:
			if k != 0 || len(call.Call.Args) != 2 {
				continue
			}
			nc, nn := c09Callee(call.Call.Args[1])
			if nc == nil || nn != c09BigNewInt {
				continue
			}
			c, ok := c09ConstInt(nc.Call.Args[0])
			if !ok {
				continue
			}
			used = apply(op, c) // sign(x-c) op 0  <=>  x op c
		case c09BigSign:
			// Sign() in {-1,0,1}: Sign op k
			switch {
			case k == 0:
				used = apply(op, 0)
			case k == -1 && (op == token.GTR || op == token.NEQ):
				used = apply(token.GEQ, 0)
			case k == 1 && op == token.LSS:
				used = apply(token.LEQ, 0)
			}
		case c09BigBitLen:
			if op == token.LSS {
				k, op = k-1, token.LEQ
			}
			if op == token.LEQ && k >= 0 && k < 62 {
				m := int64(1)<<uint(k) - 1
				setHi(m)
				setLo(-m)
				used = true
			}
		}
		if used {
			ifs = append(ifs, g.If)
		}
	}
	return
}

// ---------------------------------------------------------------------------
// C09.byte

func c09Byte(r *fw.Run, p *fw.Program) {
	ru := r.Rule("C09.byte", "every narrowing of an array member to a byte in toBitReaderEx (int, float64, *big.Int fast paths and the inArray slow path) is dominated by guards proving 0<=v<=255 on the full value (for *big.Int: Cmp/Sign/BitLen of the big value, never only its low 64 bits); the slow path rejects exactly the complement with an error; every fast-path iteration either writes the member or abandons the fast path; an accepted slow-path member becomes NewBitReader(one-byte array, -1), returned; the fast-path buffer (nil = abandoned) is only used under a non-nil test", 7)
	fn := c09Fn(ru, p, "pkg/interp.toBitReaderEx")
	if fn == nil {
		return
	}
	s := newC09Sym(fn)
	var inArray *ssa.Parameter
	for _, prm := range fn.Params {
		if b, ok := prm.Type().Underlying().(*types.Basic); ok && b.Kind() == types.Bool {
			inArray = prm
		}
	}
	if inArray == nil {
		ru.Undecided("toBitReaderEx:inArray", p.Rel(fn.Pos()), "no bool parameter (inArray) found")
		return
	}
	seen := map[string]int{}
	nSlow := 0
	fw.EachInstr(fn, func(ins ssa.Instruction) {
		cv, ok := ins.(*ssa.Convert)
		if !ok || !c09IsByteType(cv.Type()) || c09IsByteType(cv.X.Type()) {
			return
		}
		if _, isConst := cv.X.(*ssa.Const); isConst {
			return
		}
		origin := c09ByteOrigin(cv.X)
		key := "toBitReaderEx:byte<-" + origin
		seen[key]++
		if seen[key] > 1 {
			key = fmt.Sprintf("%s#%d", key, seen[key])
		}
		pos := p.Rel(cv.Pos())
		blk := cv.Block()
		slow := c09GuardIs(blk, inArray, true)
		var lo, hi int64
		var hasLo, hasHi bool
		var ifs []*ssa.If
		src := cv.X
		for {
			if c2, ok := src.(*ssa.Convert); ok && c09IsIntType(c2.Type()) && c09IsIntType(c2.X.Type()) {
				src = c2.X
				continue
			}
			break
		}
		what := ""
		if call, name := c09Callee(src); call != nil && (name == c09BigUint64 || name == c09BigInt64) {
			x := call.Call.Args[0]
			lo, hi, hasLo, hasHi, ifs = c09BigBounds(blk, x)
			what = "big value"
		} else if c09IsIntType(src.Type()) {
			lo, hi, hasLo, hasHi = s.bounds(blk, s.Of(src))
			what = "integer " + s.Of(src).String()
			// the byte must be the member itself, not a function of it
			sp := s.Of(src)
			if at := sp.Atoms(); len(at) != 1 || len(sp.T) != 1 || sp.Coef(at[0]) != 1 || strings.HasPrefix(at[0], "(") {
				ru.Fail(key, pos, "the narrowed value "+sp.String()+" is not the array member itself")
				return
			}
		} else if c09IsFloatType(src.Type()) {
			// guards are on an integer conversion of the same float
			what = "float (via its integer conversion)"
			if src.Referrers() != nil {
				for _, ref := range *src.Referrers() {
					c2, ok := ref.(*ssa.Convert)
					if !ok || !c09IsIntType(c2.Type()) || c09IsByteType(c2.Type()) {
						continue
					}
					l2, h2, hl2, hh2 := s.bounds(blk, s.Of(c2))
					if hl2 && hh2 {
						lo, hi, hasLo, hasHi = l2, h2, hl2, hh2
					}
				}
			}
		} else {
			ru.Undecided(key, pos, "cannot classify the source of a byte narrowing: "+src.String())
			return
		}
		if !hasLo || !hasHi || lo < 0 || hi > 255 {
			ru.Fail(key, pos, fmt.Sprintf("byte narrowing of %s is not dominated by guards proving 0..255 (proved: lo=%s hi=%s): out-of-range array members would be truncated instead of rejected", what, c09B(lo, hasLo), c09B(hi, hasHi)))
			return
		}
		if !slow {
			// fast path: written to the buffer
			okW := false
			for _, u := range fw.UsesThroughConv(cv) {
				if c, ok := u.(*ssa.Call); ok && fw.CalleeName(c) == "(*bytes.Buffer).WriteByte" {
					okW = true
				}
			}
			ru.Check(okW, key, pos, fmt.Sprintf("guards prove [%d,%d]; byte appended with WriteByte", lo, hi), "guarded byte is not appended with (*bytes.Buffer).WriteByte")
			return
		}
		nSlow++
		if lo != 0 || hi != 255 {
			ru.Fail(key, pos, fmt.Sprintf("slow path accepts only [%d,%d] but must accept exactly 0..255", lo, hi))
			return
		}
		// failing arms return (nil, non-nil error)
		for _, ifi := range ifs {
			for _, succ := range ifi.Block().Succs {
				if succ.Dominates(blk) || succ == blk {
					continue
				}
				if !c09ArmReturnsError(succ, blk) {
					ru.Fail(key, pos, "a failing 0..255 test on the slow path does not return an error")
					return
				}
			}
		}
		ru.Ok(key, pos, "slow path: exactly 0..255 accepted, complement returns an error")
		// the accepted member becomes exactly one whole byte
		okR, whyR := c09OneByteReader(fn, cv)
		ru.Check(okR, "toBitReaderEx:slow-reader", pos, "NewBitReader(one-byte array holding the member, -1) is returned", "array member on the slow path: "+whyR+" (a member must contribute exactly its 8 bits)")
	})
	if nSlow == 0 {
		ru.Undecided("toBitReaderEx:byte<-slow", p.Rel(fn.Pos()), "no byte narrowing guarded by inArray found (slow path anchor)")
	}

	// fast path loop: phi of *bytes.Buffer; each back edge either wrote the member or carries nil
	var bufPhi *ssa.Phi
	fw.EachInstr(fn, func(ins ssa.Instruction) {
		if ph, ok := ins.(*ssa.Phi); ok && types.TypeString(ph.Type(), nil) == "*bytes.Buffer" {
			bufPhi = ph
		}
	})
	if bufPhi == nil {
		ru.Undecided("toBitReaderEx:fast-loop", p.Rel(fn.Pos()), "fast-path buffer loop variable not found")
		return
	}
	okAll, why := true, ""
	nEdges := 0
	for i, ed := range bufPhi.Edges {
		pred := bufPhi.Block().Preds[i]
		switch {
		case c09IsNilConst(ed):
		case ed == ssa.Value(bufPhi):
			nEdges++
			wrote := false
			for _, ins := range pred.Instrs {
				if c, ok := ins.(*ssa.Call); ok {
					n := fw.CalleeName(c)
					if (n == "(*bytes.Buffer).WriteByte" || n == "(*bytes.Buffer).WriteString") && c.Call.Args[0] == ssa.Value(bufPhi) {
						wrote = true
					}
				}
			}
			if !wrote {
				okAll, why = false, fmt.Sprintf("an iteration continues on the fast path (block %s) without writing the member", pred.Comment)
			}
		default:
			if _, isAlloc := ed.(*ssa.Alloc); !isAlloc {
				okAll, why = false, "fast-path buffer replaced by "+ed.String()
			}
		}
	}
	ru.Check(okAll && nEdges >= 1, "toBitReaderEx:fast-loop", p.Rel(bufPhi.Pos()), fmt.Sprintf("%d continuing arms all write their member; all other arms abandon the fast path", nEdges), "fast path may silently drop an array member: "+why)
	// the buffer variable doubles as the "still on the fast path" flag: it is nil once a member
	// does not fit, so every use must be under a non-nil test
	okNil, whyNil, nUse := true, "", 0
	if bufPhi.Referrers() != nil {
		for _, ref := range *bufPhi.Referrers() {
			c, ok := ref.(*ssa.Call)
			if !ok || len(c.Call.Args) == 0 || c.Call.Args[0] != ssa.Value(bufPhi) || c.Call.IsInvoke() {
				continue
			}
			nUse++
			guarded := false
			for _, g := range fw.Guards(c.Block()) {
				g = g.Normalize()
				bo, isB := g.Cond.(*ssa.BinOp)
				if !isB || (bo.Op != token.NEQ && bo.Op != token.EQL) {
					continue
				}
				if !((bo.X == ssa.Value(bufPhi) && c09IsNilConst(bo.Y)) || (bo.Y == ssa.Value(bufPhi) && c09IsNilConst(bo.X))) {
					continue
				}
				if (bo.Op == token.NEQ) == g.True {
					guarded = true
				}
			}
			if !guarded {
				okNil, whyNil = false, fw.CalleeName(c)+" is reachable after the fast path was abandoned (buffer is nil)"
			}
		}
	}
	ru.Check(okNil && nUse >= 3, "toBitReaderEx:fast-nil", p.Rel(bufPhi.Pos()), fmt.Sprintf("%d uses of the fast-path buffer, all under buffer != nil", nUse), "fast path: "+whyNil)
	// the fast path result is exactly the buffer's bytes, whole
	okRes := false
	for _, c := range c09CallsTo(fn, fw.Mod+"/pkg/bitio.NewBitReader") {
		if bc, name := c09Callee(c.Call.Args[0]); bc != nil && name == "(*bytes.Buffer).Bytes" && bc.Call.Args[0] == ssa.Value(bufPhi) {
			if k, ok := c09ConstInt(c.Call.Args[1]); ok && k == -1 {
				okRes = true
			}
		}
	}
	ru.Check(okRes, "toBitReaderEx:fast-result", p.Rel(bufPhi.Pos()), "NewBitReader(bs.Bytes(), -1)", "fast path does not return NewBitReader(buffer.Bytes(), -1)")
}

func c09B(v int64, has bool) string {
	if !has {
		return "none"
	}
	return fmt.Sprint(v)
}

// c09ByteOrigin names where a byte source comes from: asserted type of the member or toBigInt.
func c09ByteOrigin(v ssa.Value) string {
	for i := 0; i < 8; i++ {
		switch x := v.(type) {
		case *ssa.Convert:
			v = x.X
			continue
		case *ssa.Call:
			n := fw.CalleeName(x)
			if (n == c09BigUint64 || n == c09BigInt64) && len(x.Call.Args) == 1 {
				v = x.Call.Args[0]
				continue
			}
			return "call:" + n
		case *ssa.Extract:
			if ta, ok := x.Tuple.(*ssa.TypeAssert); ok {
				return types.TypeString(ta.AssertedType, nil)
			}
			if c, ok := x.Tuple.(*ssa.Call); ok {
				return strings.TrimPrefix(fw.CalleeName(c), fw.Mod+"/")
			}
		case *ssa.TypeAssert:
			return types.TypeString(x.AssertedType, nil)
		}
		break
	}
	return "?"
}

// c09ArmReturnsError: every path from block b that does not pass through avoid ends in a Return
// whose last result is not the nil constant (and whose first result, if any other, is nil).
func c09ArmReturnsError(b, avoid *ssa.BasicBlock) bool {
	seen := map[*ssa.BasicBlock]bool{}
	var rec func(b *ssa.BasicBlock) bool
	rec = func(b *ssa.BasicBlock) bool {
		if b == avoid {
			return true // rejoins the guarded code through another test
		}
		if seen[b] {
			return true
		}
		seen[b] = true
		if rt, ok := b.Instrs[len(b.Instrs)-1].(*ssa.Return); ok {
			if len(rt.Results) == 0 {
				return false
			}
			last := rt.Results[len(rt.Results)-1]
			if c09IsNilConst(last) {
				return false
			}
			return true
		}
		if len(b.Succs) == 0 {
			return true
		}
		for _, s := range b.Succs {
			if !rec(s) {
				return false
			}
		}
		return true
	}
	return rec(b)
}

// ---------------------------------------------------------------------------
// C09.accept

func c09AssertedTypes(fn *ssa.Function, x ssa.Value) []string {
	set := map[string]bool{}
	fw.EachInstr(fn, func(ins ssa.Instruction) {
		if ta, ok := ins.(*ssa.TypeAssert); ok && ta.X == x {
			set[shortType(ta.AssertedType)] = true
		}
	})
	var out []string
	for k := range set {
		out = append(out, k)
	}
	sort.Strings(out)
	return out
}

func c09Accept(r *fw.Run, p *fw.Program) {
	ru := r.Rule("C09.accept", "toBitReaderEx accepts exactly {ToBinary, string, int, float64, *big.Int, []any} and returns an error otherwise; no (nil,nil) return; array members are converted with inArray=true and top-level values with false; the byte/number split is on inArray: every successful result of the number arm is either under !inArray or the one-byte reader under inArray (a member, 0 included, is always one byte); toBinary and toBigInt dispatch as specified", 13)
	fn := c09Fn(ru, p, "pkg/interp.toBitReaderEx")
	if fn != nil {
		v := fn.Params[0]
		got := strings.Join(c09AssertedTypes(fn, v), ", ")
		want := "*math/big.Int, []any, float64, int, pkg/interp.ToBinary, string"
		ru.Check(got == want, "toBitReaderEx:types", p.Rel(fn.Pos()), "accepted dynamic types: "+got, "accepted dynamic types are {"+got+"}, want {"+want+"}: a non-convertible value would be accepted or a convertible one rejected")
		// the all-asserts-failed block returns an error
		okDefault := false
		for _, rt := range c09Returns(fn) {
			b := rt.Block()
			nfalse := 0
			for _, g := range fw.Guards(b) {
				g = g.Normalize()
				if ex, ok := g.Cond.(*ssa.Extract); ok && ex.Index == 1 && !g.True {
					if ta, ok := ex.Tuple.(*ssa.TypeAssert); ok && ta.X == ssa.Value(v) {
						nfalse++
					}
				}
			}
			if nfalse >= 6 && len(rt.Results) == 2 && c09IsNilConst(rt.Results[0]) && !c09IsNilConst(rt.Results[1]) {
				okDefault = true
			}
		}
		ru.Check(okDefault, "toBitReaderEx:default", p.Rel(fn.Pos()), "values of any other type return (nil, error)", "the default arm of toBitReaderEx does not return an error: non-convertible values would be accepted")
		// no (nil, nil) return
		okRet := true
		for _, rt := range c09Returns(fn) {
			if len(rt.Results) == 2 && c09IsNilConst(rt.Results[0]) && c09IsNilConst(rt.Results[1]) {
				okRet = false
			}
		}
		ru.Check(okRet, "toBitReaderEx:returns", p.Rel(fn.Pos()), "no return of (nil, nil)", "toBitReaderEx can return (nil, nil)")
		// string arm: the bytes of the string, whole
		okStr := false
		for _, c := range c09CallsTo(fn, fw.Mod+"/pkg/bitio.NewBitReader") {
			cv, isCv := c.Call.Args[0].(*ssa.Convert)
			if !isCv {
				continue
			}
			ex, isEx := cv.X.(*ssa.Extract)
			if !isEx {
				continue
			}
			if ta, isTA := ex.Tuple.(*ssa.TypeAssert); isTA && ta.X == ssa.Value(v) {
				if k, isC := c09ConstInt(c.Call.Args[1]); isC && k == -1 {
					for _, rt := range c09Returns(fn) {
						if len(rt.Results) == 2 && c09StripIface(rt.Results[0]) == ssa.Value(c) && c09IsNilConst(rt.Results[1]) {
							okStr = true
						}
					}
				}
			}
		}
		ru.Check(okStr, "toBitReaderEx:string", p.Rel(fn.Pos()), "NewBitReader([]byte(s), -1)", "string arm does not return NewBitReader([]byte(s), -1) (all bytes of the string)")
		// every explicit bit length given to NewBitReader here is -1 (whole) or the single zero bit
		okLens := true
		for _, c := range c09CallsTo(fn, fw.Mod+"/pkg/bitio.NewBitReader") {
			k, isC := c09ConstInt(c.Call.Args[1])
			if !isC || (k != -1 && k != 1) {
				okLens = false
			}
		}
		ru.Check(okLens, "toBitReaderEx:lengths", p.Rel(fn.Pos()), "byte sources are used whole", "a NewBitReader in toBitReaderEx has a bit length other than -1 (whole) or 1 (the zero bit)")
		// recursion passes inArray = true
		var rec []*ssa.Call
		for _, c := range fw.CallsIn(fn) {
			if cl, ok := c.(*ssa.Call); ok && cl.Common().StaticCallee() == fn {
				rec = append(rec, cl)
			}
		}
		if len(rec) == 0 {
			ru.Undecided("toBitReaderEx:recursion", p.Rel(fn.Pos()), "no recursive call for array members found")
		}
		for i, c := range rec {
			a := c.Call.Args[1]
			cst, ok := a.(*ssa.Const)
			good := ok && cst.Value != nil && cst.Value.Kind() == constant.Bool && constant.BoolVal(cst.Value)
			// the member converted is an element of the []any value
			elemOK := false
			if ld, ok := c.Call.Args[0].(*ssa.UnOp); ok {
				if ia, ok := ld.X.(*ssa.IndexAddr); ok {
					if ex, ok := ia.X.(*ssa.Extract); ok {
						if ta, ok := ex.Tuple.(*ssa.TypeAssert); ok && ta.X == ssa.Value(v) {
							elemOK = true
						}
					}
				}
			}
			ru.Check(good && elemOK, fmt.Sprintf("toBitReaderEx:recursion#%d", i+1), p.Rel(c.Pos()), "array members converted with inArray=true", "array member is not converted with inArray=true (a member like 256 would become 9 bits instead of an error)")
		}
		// number arm: byte path iff inArray
		var inArray ssa.Value = fn.Params[1]
		for _, c := range c09CallsTo(fn, "(*math/big.Int).Bytes") {
			ru.Check(c09GuardIs(c.Block(), inArray, false), "toBitReaderEx:number-split", p.Rel(c.Pos()), "minimal-width number conversion only when !inArray", "minimal-width number conversion (bi.Bytes()) is reachable for array members / not for top-level numbers")
		}
		// an array member that is a number is ALWAYS one byte: in the number arm (everything after
		// toBigInt(v)) each successful return is either under !inArray (top-level number: minimal
		// width, zero = one bit) or, under inArray, the one-byte reader of the member itself
		{
			var big *ssa.Call
			for _, c := range c09CallsTo(fn, fw.Mod+"/pkg/interp.toBigInt") {
				if c.Call.Args[0] == ssa.Value(v) {
					big = c
				}
			}
			if big == nil {
				ru.Undecided("toBitReaderEx:member-byte", p.Rel(fn.Pos()), "toBigInt(v) not found in the number arm")
			} else {
				var byteRd ssa.Value
				fw.EachInstr(fn, func(ins ssa.Instruction) {
					cv, ok := ins.(*ssa.Convert)
					if !ok || !c09IsByteType(cv.Type()) || c09IsByteType(cv.X.Type()) || !c09GuardIs(cv.Block(), inArray, true) {
						return
					}
					if rd, _ := c09ByteReaderOf(cv, 0); rd != nil {
						byteRd = rd
					}
				})
				okMB, whyMB, nTop, nMem := true, "", 0, 0
				for _, rt := range c09Returns(fn) {
					if len(rt.Results) != 2 || !c09IsNilConst(rt.Results[1]) {
						continue
					}
					if rt.Block() != big.Block() && !big.Block().Dominates(rt.Block()) {
						continue
					}
					switch {
					case c09GuardIs(rt.Block(), inArray, false):
						nTop++
					case c09GuardIs(rt.Block(), inArray, true):
						nMem++
						if byteRd == nil || c09StripIface(rt.Results[0]) != byteRd {
							okMB, whyMB = false, "under inArray a number is answered with something other than the one-byte reader of the member"
						}
					default:
						okMB, whyMB = false, "a successful conversion of a number ("+p.Rel(rt.Pos())+") is reachable both for array members and for top-level numbers: a member (e.g. 0) would not become exactly one byte"
					}
				}
				ru.Check(okMB && nTop >= 2 && nMem >= 1, "toBitReaderEx:member-byte", p.Rel(big.Pos()), fmt.Sprintf("%d top-level results under !inArray, %d member result (the byte) under inArray", nTop, nMem), "number arm of toBitReaderEx: "+whyMB)
			}
		}
		// multi reader of members in order: NewMultiReader(rr...) where rr is appended in a range loop
		okMR := false
		for _, c := range c09CallsTo(fn, fw.Mod+"/pkg/bitio.NewMultiReader") {
			if ph, ok := c.Call.Args[0].(*ssa.Phi); ok {
				for _, ed := range ph.Edges {
					if ap, ok := ed.(*ssa.Call); ok && fw.IsBuiltinCall(ap, "append") && ap.Call.Args[0] == ssa.Value(ph) {
						els := c09Varargs(ap.Call.Args[1])
						if len(els) == 1 {
							if rc := c09ExtractOf(c09StripIface(els[0]), 0); rc != nil && rc.Common().StaticCallee() == fn {
								okMR = true
							}
						}
					}
				}
				// the list starts empty: no reader before the first member
				for _, ed := range ph.Edges {
					if ap, ok := ed.(*ssa.Call); ok && fw.IsBuiltinCall(ap, "append") {
						continue
					}
					if c09IsNilConst(ed) || ed == ssa.Value(ph) {
						continue
					}
					if mk, ok := ed.(*ssa.MakeSlice); ok {
						if k, isC := c09ConstInt(mk.Len); isC && k == 0 {
							continue
						}
					}
					okMR = false
				}
			}
		}
		ru.Check(okMR, "toBitReaderEx:concat", p.Rel(fn.Pos()), "members are appended in order to an initially empty list and concatenated with NewMultiReader", "slow path does not concatenate rr = append(rr, member), starting from an empty rr, with bitio.NewMultiReader")
	}
	if tb := c09Fn(ru, p, "pkg/interp.ToBitReader"); tb != nil {
		ok := false
		for _, c := range c09CallsTo(tb, fw.Mod+"/pkg/interp.toBitReaderEx") {
			if cst, isC := c.Call.Args[1].(*ssa.Const); isC && cst.Value != nil && !constant.BoolVal(cst.Value) && c.Call.Args[0] == ssa.Value(tb.Params[0]) {
				ok = true
			}
		}
		ru.Check(ok, "ToBitReader:inArray", p.Rel(tb.Pos()), "top level conversion uses inArray=false", "ToBitReader does not call toBitReaderEx(v, false)")
	}
	if tb := c09Fn(ru, p, "pkg/interp.toBinary"); tb != nil {
		v := tb.Params[0]
		got := strings.Join(c09AssertedTypes(tb, v), ", ")
		ru.Check(got == "pkg/interp.ToBinary", "toBinary:types", p.Rel(tb.Pos()), "ToBinary values keep their own range/unit", "toBinary type switch is {"+got+"}, want {ToBinary}")
		ok := false
		for _, c := range c09CallsTo(tb, fw.Mod+"/pkg/interp.NewBinaryFromBitReader") {
			u, ok1 := c09ConstInt(c.Call.Args[1])
			pd, ok2 := c09ConstInt(c.Call.Args[2])
			src := c09ExtractOf(c09StripIface(c.Call.Args[0]), 0)
			if ok1 && ok2 && u == 8 && pd == 0 && src != nil && fw.CalleeName(src) == fw.Mod+"/pkg/interp.ToBitReader" && src.Call.Args[0] == ssa.Value(v) {
				ok = true
			}
		}
		ru.Check(ok, "toBinary:default", p.Rel(tb.Pos()), "other values: NewBinaryFromBitReader(ToBitReader(v), 8, 0)", "toBinary default arm is not NewBinaryFromBitReader(ToBitReader(v), 8, 0)")
	}
	if tb := c09Fn(ru, p, "pkg/interp.toBigInt"); tb != nil {
		v := tb.Params[0]
		got := strings.Join(c09AssertedTypes(tb, v), ", ")
		ru.Check(got == "*math/big.Int, float64, int", "toBigInt:types", p.Rel(tb.Pos()), "numbers accepted: "+got, "toBigInt type switch is {"+got+"}, want {int, float64, *big.Int}")
		okAll := true
		n := 0
		for _, rt := range c09Returns(tb) {
			if len(rt.Results) != 2 {
				okAll = false
				continue
			}
			if c09IsNilConst(rt.Results[1]) {
				n++
				// value derives from the asserted member: SetInt64(int64(x)) or x itself
				val := rt.Results[0]
				if c, name := c09Callee(val); c != nil && name == "(*math/big.Int).SetInt64" {
					val = c.Call.Args[1]
					for {
						if cv, ok := val.(*ssa.Convert); ok {
							val = cv.X
							continue
						}
						break
					}
				}
				ex, ok := val.(*ssa.Extract)
				if !ok || ex.Index != 0 {
					okAll = false
					continue
				}
				if ta, ok := ex.Tuple.(*ssa.TypeAssert); !ok || ta.X != ssa.Value(v) {
					okAll = false
				}
			} else if !c09IsNilConst(rt.Results[0]) {
				okAll = false
			}
		}
		ru.Check(okAll && n >= 3, "toBigInt:value", p.Rel(tb.Pos()), "each numeric arm returns the member's own value", "toBigInt does not return the (converted) member itself on a numeric arm, or returns (nil,nil)")
	}
}

// c09OneByteReader: the byte value cv is stored as the only element of a one-byte array/slice
// literal that is handed whole to bitio.NewBitReader(..., -1) (directly or in a small helper the
// byte is passed to), and that reader is returned with a nil error.
func c09OneByteReader(fn *ssa.Function, cv ssa.Value) (bool, string) {
	rd, why := c09ByteReaderOf(cv, 0)
	if rd == nil {
		return false, why
	}
	for _, rt := range c09Returns(fn) {
		if len(rt.Results) == 2 && c09StripIface(rt.Results[0]) == rd && c09IsNilConst(rt.Results[1]) {
			return true, ""
		}
	}
	return false, "the one-byte reader is not what is returned"
}

// c09ByteReaderOf returns the value (in the function of v) that is the 8-bit reader over byte v.
func c09ByteReaderOf(v ssa.Value, depth int) (ssa.Value, string) {
	var arr *ssa.Alloc
	for _, u := range fw.UsesThroughConv(v) {
		switch x := u.(type) {
		case *ssa.Store:
			ia, ok := x.Addr.(*ssa.IndexAddr)
			if !ok || x.Val != v {
				continue
			}
			a, ok := ia.X.(*ssa.Alloc)
			if !ok {
				continue
			}
			if k, isC := c09ConstInt(ia.Index); !isC || k != 0 {
				return nil, "the byte is not element 0 of its array"
			}
			arr = a
		case *ssa.Call:
			// a helper that builds the reader from the byte
			g := x.Call.StaticCallee()
			if g == nil || !fw.InFq(g) || g.Blocks == nil || depth > 0 || x.Call.IsInvoke() {
				continue
			}
			for i, a := range x.Call.Args {
				if a != v || i >= len(g.Params) {
					continue
				}
				inner, _ := c09ByteReaderOf(g.Params[i], depth+1)
				if inner == nil {
					continue
				}
				rts := c09Returns(g)
				if len(rts) != 1 || len(rts[0].Results) == 0 || c09StripIface(rts[0].Results[0]) != inner {
					continue
				}
				if len(rts[0].Results) == 1 {
					return x, ""
				}
				if x.Referrers() != nil {
					for _, ref := range *x.Referrers() {
						if ex, ok := ref.(*ssa.Extract); ok && ex.Index == 0 {
							return ex, ""
						}
					}
				}
			}
		}
	}
	if arr == nil {
		return nil, "the accepted byte is not stored into a byte array"
	}
	pt, ok := arr.Type().Underlying().(*types.Pointer)
	if !ok {
		return nil, "unexpected array local"
	}
	at, ok := pt.Elem().Underlying().(*types.Array)
	if !ok || at.Len() != 1 || !c09IsByteType(at.Elem()) {
		return nil, "the member is placed in " + pt.Elem().String() + ", want a one-byte array"
	}
	var sl *ssa.Slice
	for _, ref := range *arr.Referrers() {
		switch x := ref.(type) {
		case *ssa.Slice:
			if x.Low != nil || x.High != nil || x.Max != nil || sl != nil {
				return nil, "the byte array is not used whole"
			}
			sl = x
		case *ssa.IndexAddr, *ssa.DebugRef:
		default:
			return nil, "the byte array is used other than by one whole slice"
		}
	}
	if sl == nil || sl.Referrers() == nil {
		return nil, "the byte array is never turned into a reader"
	}
	for _, ref := range *sl.Referrers() {
		c, ok := ref.(*ssa.Call)
		if !ok || fw.CalleeName(c) != fw.Mod+"/pkg/bitio.NewBitReader" || c.Call.Args[0] != ssa.Value(sl) {
			continue
		}
		if k, isC := c09ConstInt(c.Call.Args[1]); !isC || k != -1 {
			return nil, "the one-byte reader is not created with length -1 (all 8 bits)"
		}
		return c, ""
	}
	return nil, "the byte array is not handed to bitio.NewBitReader"
}
