package rules

import (
	"fmt"
	"go/token"
	"go/types"
	"os"
	"sort"
	"strings"

	"golang.org/x/tools/go/ssa"

	"fqverif/fw"
)

// C18.statictype: a struct type of the fq module all of whose instances are created during package
// initialisation (schema / description tables: every allocation of the type is in an init context and
// there is at least one) has only process-wide instances. A map update or field store through a
// pointer to such a type outside initialisation therefore mutates state shared by every decode of the
// process, whatever route the pointer took (parameter, field, table lookup) - the routes C18.globals
// (direct access paths) and C18.parked (parked references) do not follow.
// Types that carry their own synchronisation (a sync.* field) are the lazily initialised objects
// decided by C18.lazy / C18.once / C18.lock and are not in scope here.

var c18StaticTypeExceptions = map[string]string{}

func c18StaticType(r *fw.Run, p *fw.Program) {
	ru := r.Rule("C18.statictype", "a struct type of the fq module whose every instance is allocated during package initialisation (description / schema tables) is never written outside initialisation: no field store and no update of a map held in one of its fields through a pointer to the type, by whatever route the pointer arrived (a per-decode write into a process-wide table makes a later or concurrent decode see the earlier input)", 4)
	initOnly := initOnlyFunctions(p)
	isInit := func(fn *ssa.Function) bool {
		top := fw.Top(fn)
		return isInitContext(top) || initOnly[top] || insideOnceDo(fn)
	}
	named := func(t types.Type) *types.Named {
		if pt, ok := t.Underlying().(*types.Pointer); ok {
			t = pt.Elem()
		}
		n, _ := t.(*types.Named)
		if n == nil || n.Obj().Pkg() == nil || !strings.HasPrefix(n.Obj().Pkg().Path(), fw.Mod) {
			return nil
		}
		if _, ok := n.Underlying().(*types.Struct); !ok {
			return nil
		}
		return n
	}
	allocInit := map[*types.Named]int{}
	allocOther := map[*types.Named]bool{}
	for _, fn := range p.FqFunctions() {
		if fn.TypeParams().Len() > 0 && len(fn.TypeArgs()) == 0 {
			continue
		}
		in := isInit(fn)
		fw.EachInstr(fn, func(ins ssa.Instruction) {
			var t types.Type
			switch x := ins.(type) {
			case *ssa.Alloc:
				t = x.Type().Underlying().(*types.Pointer).Elem()
			case *ssa.MakeSlice:
				if sl, ok := x.Type().Underlying().(*types.Slice); ok {
					t = sl.Elem()
				}
			default:
				return
			}
			// arrays / slices of the type count as allocations of it
			for {
				switch u := t.Underlying().(type) {
				case *types.Array:
					t = u.Elem()
					continue
				case *types.Slice:
					t = u.Elem()
					continue
				}
				break
			}
			if _, isPtr := t.Underlying().(*types.Pointer); isPtr {
				return // a pointer variable, not an instance
			}
			n := named(t)
			if n == nil {
				return
			}
			if in {
				allocInit[n]++
			} else {
				allocOther[n] = true
				if os.Getenv("C18_STATIC_DEBUG") != "" && strings.Contains(n.Obj().Name(), "Master") {
					fmt.Fprintln(os.Stderr, "STATICDBG other", fw.ShortFn(fn), p.Rel(ins.Pos()))
				}
			}
		})
	}
	// a value of the type copied by value outside init (a local copy `x := *p`) is an allocation too: covered by Alloc above
	static := map[*types.Named]bool{}
	for n, c := range allocInit {
		if c == 0 || allocOther[n] {
			continue
		}
		st := n.Underlying().(*types.Struct)
		sync := false
		for i := 0; i < st.NumFields(); i++ {
			if strings.HasPrefix(types.TypeString(st.Field(i).Type(), nil), "sync.") || strings.HasPrefix(types.TypeString(st.Field(i).Type(), nil), "*sync.") {
				sync = true
			}
		}
		if !sync {
			static[n] = true
		}
	}
	tname := func(n *types.Named) string {
		return strings.TrimPrefix(n.Obj().Pkg().Path(), fw.Mod+"/") + "." + n.Obj().Name()
	}
	type site struct{ key, pos, what string }
	bad := map[string]site{}
	writes := map[*types.Named]int{}
	fieldOf := func(addr ssa.Value) (*types.Named, string) {
		fa, ok := addr.(*ssa.FieldAddr)
		if !ok {
			return nil, ""
		}
		n := named(fa.X.Type())
		if n == nil || !static[n] {
			return nil, ""
		}
		return n, n.Underlying().(*types.Struct).Field(fa.Field).Name()
	}
	for _, fn := range p.FqFunctions() {
		if fn.TypeParams().Len() > 0 && len(fn.TypeArgs()) == 0 {
			continue
		}
		if isInit(fn) {
			continue
		}
		fw.EachInstr(fn, func(ins ssa.Instruction) {
			switch x := ins.(type) {
			case *ssa.Store:
				if n, f := fieldOf(x.Addr); n != nil {
					k := tname(n) + "." + f + "|store|" + fw.ShortFn(fn)
					bad[k] = site{k, p.Rel(x.Pos()), "stores to field " + f + " of " + tname(n)}
					writes[n]++
				}
			case *ssa.MapUpdate:
				m := x.Map
				if ld, ok := m.(*ssa.UnOp); ok && ld.Op == token.MUL {
					if n, f := fieldOf(ld.X); n != nil {
						k := tname(n) + "." + f + "|mapupdate|" + fw.ShortFn(fn)
						bad[k] = site{k, p.Rel(x.Pos()), "updates the map in field " + f + " of " + tname(n)}
						writes[n]++
					}
				}
				// through an accessor method returning the map field (GetMaster())
				if c, ok := m.(*ssa.Call); ok {
					if cal := c.Common().StaticCallee(); cal != nil && cal.Signature.Recv() != nil {
						if n := named(cal.Signature.Recv().Type()); n != nil && static[n] {
							k := tname(n) + "|mapupdate-via-" + cal.Name() + "|" + fw.ShortFn(fn)
							bad[k] = site{k, p.Rel(x.Pos()), "updates a map obtained from " + tname(n) + "." + cal.Name() + "()"}
							writes[n]++
						}
					}
				}
			}
		})
	}
	if os.Getenv("C18_STATIC_DEBUG") != "" {
		for n, c := range allocInit {
			fmt.Fprintln(os.Stderr, "STATICDBG", tname(n), c, allocOther[n], static[n])
		}
	}
	var names []*types.Named
	for n := range static {
		names = append(names, n)
	}
	sort.Slice(names, func(i, j int) bool { return tname(names[i]) < tname(names[j]) })
	for _, n := range names {
		if writes[n] == 0 {
			ru.Ok("type:"+tname(n), p.Rel(n.Obj().Pos()), fmt.Sprintf("%d allocations, all during initialisation; never written afterwards", allocInit[n]))
		}
	}
	var keys []string
	for k := range bad {
		keys = append(keys, k)
	}
	sort.Strings(keys)
	for _, k := range keys {
		s := bad[k]
		if reason, ok := c18StaticTypeExceptions[k]; ok {
			ru.Except(k, s.pos, reason)
			continue
		}
		ru.Fail(k, s.pos, s.what+": every instance of the type is a process-wide table built at initialisation, so the write survives this decode and is seen by later and concurrent ones")
	}
}
