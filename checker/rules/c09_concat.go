package rules

import (
	"go/token"

	"golang.org/x/tools/go/ssa"

	"fqverif/fw"
)

// C09.concat: concatenation of array members (bitio.MultiReader) is positional: cumulative ends
// at construction, first reader whose end exceeds the offset, offset made relative to it.

// c09LoadIndex decomposes v = *(&X[i]) and returns X and i.
func c09LoadIndex(v ssa.Value) (x, idx ssa.Value, ok bool) {
	ld, isLd := v.(*ssa.UnOp)
	if !isLd || ld.Op != token.MUL {
		return nil, nil, false
	}
	ia, isIA := ld.X.(*ssa.IndexAddr)
	if !isIA {
		return nil, nil, false
	}
	return ia.X, ia.Index, true
}

// c09AscendingIndex: i is (phi + 1) where phi starts at -1 and continues with i (range loop), or a
// phi starting at 0 stepping by one.
func c09AscendingIndex(i ssa.Value) bool {
	if bo, ok := i.(*ssa.BinOp); ok && bo.Op == token.ADD {
		ph, isPhi := bo.X.(*ssa.Phi)
		one, isC := c09ConstInt(bo.Y)
		if !isPhi || !isC || one != 1 {
			return false
		}
		start, step := false, true
		for _, ed := range ph.Edges {
			if c, isC := c09ConstInt(ed); isC {
				if c == -1 {
					start = true
				} else {
					step = false
				}
			} else if ed != i {
				step = false
			}
		}
		return start && step
	}
	if ph, ok := i.(*ssa.Phi); ok {
		start, step := false, false
		for _, ed := range ph.Edges {
			if c, isC := c09ConstInt(ed); isC && c == 0 {
				start = true
			} else if bo, isB := ed.(*ssa.BinOp); isB && bo.Op == token.ADD && bo.X == ssa.Value(ph) {
				if c, isC := c09ConstInt(bo.Y); isC && c == 1 {
					step = true
				}
			}
		}
		return start && step
	}
	return false
}

func c09Concat(r *fw.Run, p *fw.Program) {
	ru := r.Rule("C09.concat", "bitio.MultiReader (concatenation of array members and of padding+data): readerEnds[i] is the running sum of the members' lengths in order; ReadBitsAt answers EOF exactly for offsets >= total, delegates to the first reader whose cumulative end exceeds the offset with the offset reduced by the previous end, and suppresses a member's EOF only when more data follows; endPos (a member's length) is its SeekEnd position with the cursor read before and restored after; ReadBits reads at the cursor and advances it by the bits returned (borrowed from C01.clamp)", 10)

	if fn := c09Fn(ru, p, "pkg/bitio.NewMultiReader"); fn != nil {
		s := newC09Sym(fn)
		rs := ssa.Value(fn.Params[0])
		var st *ssa.Store
		n := 0
		fw.EachInstr(fn, func(ins ssa.Instruction) {
			if x, ok := ins.(*ssa.Store); ok {
				if ia, ok := x.Addr.(*ssa.IndexAddr); ok {
					if _, isMk := ia.X.(*ssa.MakeSlice); isMk {
						st = x
						n++
					}
				}
			}
		})
		if st == nil || n != 1 {
			ru.Fail("NewMultiReader:ends", p.Rel(fn.Pos()), "no single store into the cumulative-ends slice")
		} else {
			ia := st.Addr.(*ssa.IndexAddr)
			ok, why := false, "stored value is not accumulator + member length"
			if bo, isB := st.Val.(*ssa.BinOp); isB && bo.Op == token.ADD {
				for _, pr := range [][2]ssa.Value{{bo.X, bo.Y}, {bo.Y, bo.X}} {
					acc, isPhi := pr[0].(*ssa.Phi)
					if !isPhi {
						continue
					}
					zero, loop := false, false
					for _, ed := range acc.Edges {
						if c, isC := c09ConstInt(ed); isC && c == 0 {
							zero = true
						} else if ed == st.Val || c09ReadsBack(ed, st) {
							loop = true
						}
					}
					if !zero || !loop || len(acc.Edges) != 2 {
						why = "accumulator does not start at 0 and continue with the stored sum"
						continue
					}
					call := c09ExtractOf(pr[1], 0)
					if call == nil || c09CallName(call) != "pkg/bitio.endPos" {
						why = "member length is not endPos(member)"
						continue
					}
					x, idx, isL := c09LoadIndex(c09StripIface(call.Call.Args[0]))
					switch {
					case !isL || x != rs:
						why = "length is not taken from a member of the argument list"
					case idx != ia.Index:
						why = "ends[i] is not computed from member i"
					case !c09AscendingIndex(idx):
						why = "members are not visited in ascending order"
					default:
						ok = true
					}
				}
			}
			ru.Check(ok, "NewMultiReader:ends", p.Rel(st.Pos()), "ends[i] = ends[i-1] + endPos(rs[i])", "NewMultiReader: "+why)
			// returned struct
			okRet, whyRet := false, "no constructed MultiReader returned"
			for _, rt := range c09Returns(fn) {
				if len(rt.Results) != 2 || !c09IsNilConst(rt.Results[1]) {
					continue
				}
				a, isA := rt.Results[0].(*ssa.Alloc)
				if !isA {
					continue
				}
				got := map[string]ssa.Value{}
				c09LitFields(a, "", got)
				switch {
				case got["readers"] != rs:
					whyRet = "readers is not the argument list"
				case got["readerEnds"] != ia.X:
					whyRet = "readerEnds is not the cumulative-ends slice"
				default:
					if _, has := got["pos"]; has {
						whyRet = "initial position is set"
					} else {
						okRet = true
					}
				}
			}
			ru.Check(okRet, "NewMultiReader:fields", p.Rel(fn.Pos()), "readers = rs, readerEnds = ends", "NewMultiReader: "+whyRet)
			_ = s
		}
	}

	c09EndPos(ru, p)

	fn := c09Fn(ru, p, "(*pkg/bitio.MultiReader).ReadBitsAt")
	if fn == nil {
		return
	}
	s := newC09Sym(fn)
	off := ssa.Value(fn.Params[3])
	var inv *ssa.Call
	for _, c := range fw.CallsIn(fn) {
		if cl, ok := c.(*ssa.Call); ok && cl.Call.IsInvoke() && cl.Call.Method.Name() == "ReadBitsAt" {
			inv = cl
		}
	}
	if inv == nil {
		ru.Fail("MultiReader.ReadBitsAt:delegate", p.Rel(fn.Pos()), "no delegated ReadBitsAt call")
		return
	}
	pos := p.Rel(inv.Pos())
	isEnds := func(v ssa.Value) bool { pth, ok := s.path(v); return ok && pth == "recv.readerEnds" }
	isReaders := func(v ssa.Value) bool { pth, ok := s.path(v); return ok && pth == "recv.readers" }

	// offset handed down
	okOff, whyOff := false, "offset is not bitOff - previous end"
	var idx ssa.Value
	if bo, ok := inv.Call.Args[2].(*ssa.BinOp); ok && bo.Op == token.SUB && bo.X == off {
		if ph, isPhi := bo.Y.(*ssa.Phi); isPhi && len(ph.Edges) == 2 {
			zero := false
			for _, ed := range ph.Edges {
				if c, isC := c09ConstInt(ed); isC && c == 0 {
					zero = true
				} else if x, i, isL := c09LoadIndex(ed); isL && isEnds(x) {
					idx = i
				}
			}
			if zero && idx != nil {
				okOff = true
			} else {
				whyOff = "previous end does not start at 0 and continue with readerEnds[i]"
			}
		}
	}
	okArgs := inv.Call.Args[0] == ssa.Value(fn.Params[1]) && inv.Call.Args[1] == ssa.Value(fn.Params[2])
	ru.Check(okOff && okArgs, "MultiReader.ReadBitsAt:offset", pos, "member.ReadBitsAt(p, nBits, bitOff - prevEnd)", "MultiReader.ReadBitsAt: "+whyOff+" (or buffer/count not passed through)")

	// reader selected
	okSel, whySel := false, "selected reader is not readers[i] under bitOff < readerEnds[i]"
	if ph, isPhi := inv.Call.Value.(*ssa.Phi); isPhi && idx != nil {
		for i, ed := range ph.Edges {
			x, ri, isL := c09LoadIndex(ed)
			if !isL || !isReaders(x) || ri != idx {
				continue
			}
			pred := ph.Block().Preds[i]
			guard := false
			isEndAt := func(v ssa.Value) bool {
				x, i2, isL := c09LoadIndex(v)
				return isL && isEnds(x) && i2 == idx
			}
			for _, g := range fw.Guards(pred) {
				g = g.Normalize()
				bo, isB := g.Cond.(*ssa.BinOp)
				if !isB {
					continue
				}
				if (bo.Op == token.LSS && bo.X == off && isEndAt(bo.Y) && g.True) || (bo.Op == token.GTR && bo.Y == off && isEndAt(bo.X) && g.True) ||
					(bo.Op == token.GEQ && bo.X == off && isEndAt(bo.Y) && !g.True) || (bo.Op == token.LEQ && bo.Y == off && isEndAt(bo.X) && !g.True) {
					guard = true
				}
			}
			switch {
			case !guard:
				whySel = "readers[i] is selected without the test bitOff < readerEnds[i]"
			case !c09AscendingIndex(idx):
				whySel = "readers are not searched in ascending order (the first matching end must win)"
			default:
				okSel = true
			}
		}
	}
	ru.Check(okSel, "MultiReader.ReadBitsAt:select", pos, "first i with bitOff < readerEnds[i]", "MultiReader.ReadBitsAt: "+whySel)

	// total end and EOF
	endPhi := c09TotalEnd(fn, s)
	if endPhi == nil {
		ru.Fail("MultiReader.ReadBitsAt:eof", pos, "total end (readerEnds[len(readers)-1], 0 when empty) not found")
		return
	}
	end := s.Of(endPhi)
	offP := s.Of(off)
	// delegate only when bitOff < end; EOF return when end <= bitOff
	lo, _, hasLo, _ := s.bounds(inv.Block(), end.Sub(offP))
	okEOF := false
	for _, rt := range c09Returns(fn) {
		if len(rt.Results) != 2 {
			continue
		}
		if g, isG := c09LoadGlobal(rt.Results[1]); isG && g == "io.EOF" {
			_, hi, _, hasHi := s.bounds(rt.Block(), end.Sub(offP))
			if k, isC := c09ConstInt(rt.Results[0]); isC && k == 0 && hasHi && hi == 0 {
				okEOF = true
			}
		}
	}
	ru.Check(hasLo && lo == 1 && okEOF, "MultiReader.ReadBitsAt:eof", pos, "EOF iff total end <= bitOff", "MultiReader.ReadBitsAt: reading is not split exactly at total end <= bitOff (EOF) / bitOff < total end (delegate)")

	// EOF suppression
	okSup, whySup := false, "returned error is not {member error | nil when more data follows}"
	nRead := fw.PAtom("n")
	for _, rt := range c09Returns(fn) {
		if len(rt.Results) != 2 || c09ExtractOf(rt.Results[0], 0) != inv {
			continue
		}
		ph, isPhi := rt.Results[1].(*ssa.Phi)
		if !isPhi {
			if c09ExtractOf(rt.Results[1], 1) == inv {
				whySup = "a member's EOF is never suppressed although more members follow"
			}
			continue
		}
		s.nameValue(rt.Results[0], "n")
		end = s.Of(endPhi)
		offP = s.Of(off)
		good, nNil := true, 0
		for i, ed := range ph.Edges {
			pred := ph.Block().Preds[i]
			if c09IsNilConst(ed) {
				nNil++
				// bitOff + n < end and the member reported EOF
				_, hi, _, hasHi := s.bounds(pred, offP.Add(nRead).Sub(end))
				isEOF := false
				for _, g := range fw.Guards(pred) {
					g = g.Normalize()
					if c, name := c09Callee(g.Cond); c != nil && name == "errors.Is" && g.True && c09ExtractOf(c.Call.Args[0], 1) == inv {
						if gl, isG := c09LoadGlobal(c.Call.Args[1]); isG && gl == "io.EOF" {
							isEOF = true
						}
					}
				}
				if !hasHi || hi != -1 || !isEOF {
					good = false
					whySup = "error is cleared under a condition other than (member EOF and bitOff+n < total end)"
				}
			} else if c09ExtractOf(ed, 1) != inv {
				good = false
			}
		}
		if good && nNil == 1 {
			okSup = true
		}
	}
	ru.Check(okSup, "MultiReader.ReadBitsAt:eof-suppress", pos, "member EOF hidden only when bitOff+n < total end", "MultiReader.ReadBitsAt: "+whySup)
}

// c09LoadGlobal: v = *pkg.Var
func c09LoadGlobal(v ssa.Value) (string, bool) {
	ld, ok := v.(*ssa.UnOp)
	if !ok || ld.Op != token.MUL {
		return "", false
	}
	g, ok := ld.X.(*ssa.Global)
	if !ok {
		return "", false
	}
	return g.Pkg.Pkg.Path() + "." + g.Name(), true
}

// c09ReadsBack: v is a load of the very element the store wrote (same slice, same index value),
// executed after the store: the stored value read back.
func c09ReadsBack(v ssa.Value, st *ssa.Store) bool {
	x, idx, ok := c09LoadIndex(v)
	if !ok {
		return false
	}
	ia, ok := st.Addr.(*ssa.IndexAddr)
	if !ok || ia.X != x || ia.Index != idx {
		return false
	}
	ld := v.(*ssa.UnOp)
	if !c09InstrDominates(st, ld) {
		return false
	}
	// no other store into that slice in between (there is a single store into it in this function)
	return true
}

// c09TotalEndPhi: the phi {0 | recv.readerEnds[len(recv.readers)-1]} of f.
func c09TotalEndPhi(f *ssa.Function, s *c09Sym) *ssa.Phi {
	var out *ssa.Phi
	fw.EachInstr(f, func(ins ssa.Instruction) {
		ph, ok := ins.(*ssa.Phi)
		if !ok || len(ph.Edges) != 2 {
			return
		}
		zero, last := false, false
		for _, ed := range ph.Edges {
			if c, isC := c09ConstInt(ed); isC && c == 0 {
				zero = true
			} else if x, i, isL := c09LoadIndex(ed); isL {
				if pth, okP := s.path(x); okP && pth == "recv.readerEnds" {
					if okI, _ := s.is(i, "len(recv.readers) - 1"); okI {
						last = true
					}
				}
			}
		}
		if zero && last {
			out = ph
		}
	})
	return out
}

// c09TotalEnd: the value of fn that is the total end of the concatenation: the phi above, or a
// call of a side-effect free method of the same receiver that returns exactly that phi (the
// computation extracted into a helper). The call is given the stable name totalEnd(recv).
func c09TotalEnd(fn *ssa.Function, s *c09Sym) ssa.Value {
	if ph := c09TotalEndPhi(fn, s); ph != nil {
		return ph
	}
	var out ssa.Value
	fw.EachInstr(fn, func(ins ssa.Instruction) {
		c, ok := ins.(*ssa.Call)
		if !ok || c.Call.IsInvoke() {
			return
		}
		g := c.Call.StaticCallee()
		if g == nil || g.Blocks == nil || !fw.InFq(g) || g.Signature.Recv() == nil || len(g.Params) != 1 || len(c.Call.Args) != 1 || c.Call.Args[0] != ssa.Value(fn.Params[0]) {
			return
		}
		pure := true
		fw.EachInstr(g, func(gi ssa.Instruction) {
			switch x := gi.(type) {
			case *ssa.Store, *ssa.Go, *ssa.Defer, *ssa.Send, *ssa.MapUpdate:
				pure = false
			case *ssa.Call:
				if !fw.IsBuiltinCall(x, "len") {
					pure = false
				}
			}
		})
		if !pure {
			return
		}
		gs := newC09Sym(g)
		ph := c09TotalEndPhi(g, gs)
		rts := c09Returns(g)
		if ph == nil || len(rts) != 1 || len(rts[0].Results) != 1 || rts[0].Results[0] != ssa.Value(ph) {
			return
		}
		out = c
	})
	if out != nil {
		s.summarise(out, fw.PAtom("totalEnd(recv)"))
	}
	return out
}
