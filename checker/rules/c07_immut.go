package rules

import (
	"go/token"
	"go/types"
	"sort"

	"fqverif/fw"

	"golang.org/x/tools/go/ssa"
)

// ---------------------------------------------------------------------------
// jq values are immutable: a Go function registered into jq never writes through its input or arguments
//
// In jq a value never changes; gojq shares maps and slices between variables, so `$v | f` must leave $v
// as it was. Rule: for every Go function registered with RegisterFunc*/RegisterIter*, no store, map
// update, delete/clear/copy, append-in-place target or in-place sort reaches memory designated by its
// input `c` or an argument of interface, map or slice type — directly, through type switches and
// assertions, through range variables, or through any fq callee (interprocedural summaries).

// jqValueRoot follows an address/value to the parameter (or free variable) whose jq value it designates,
// looking through type assertions, interface conversions and range/iteration extraction.
func jqValueRoot(v ssa.Value) ssa.Value {
	return jqValueRootSeen(v, map[ssa.Value]bool{})
}

func jqValueRootSeen(v ssa.Value, seen map[ssa.Value]bool) ssa.Value {
	for i := 0; i < 60; i++ {
		if v == nil || seen[v] {
			return nil
		}
		seen[v] = true
		switch x := v.(type) {
		case *ssa.Parameter, *ssa.FreeVar:
			return v
		case *ssa.FieldAddr:
			// a field of a Go object (open file handle, wrapper struct) is not a jq container; writes into
			// decode values are C08.pure's subject
			return nil
		case *ssa.IndexAddr:
			v = x.X
		case *ssa.Field:
			v = x.X
		case *ssa.Index:
			v = x.X
		case *ssa.Slice:
			v = x.X
		case *ssa.ChangeType:
			v = x.X
		case *ssa.ChangeInterface:
			v = x.X
		case *ssa.MakeInterface:
			if !refLike(x.X.Type()) {
				return nil
			}
			v = x.X
		case *ssa.TypeAssert:
			v = x.X
		case *ssa.Call:
			// a callee that returns (an alias of) one of its parameters: gojqx.Cast, CastFn, identity helpers
			k := jqReturnAlias(x.Common().StaticCallee(), 0)
			if k < 0 || k >= len(x.Common().Args) {
				return nil
			}
			v = x.Common().Args[k]
		case *ssa.Extract:
			switch t := x.Tuple.(type) {
			case *ssa.Call:
				k := jqReturnAlias(t.Common().StaticCallee(), x.Index)
				if k < 0 || k >= len(t.Common().Args) {
					return nil
				}
				v = t.Common().Args[k]
			case *ssa.TypeAssert:
				if x.Index != 0 {
					return nil
				}
				v = t.X
			case *ssa.Next:
				// k, v of a range: elements of the ranged container
				if rg, ok := t.Iter.(*ssa.Range); ok && x.Index == 2 {
					v = rg.X
				} else {
					return nil
				}
			case *ssa.Lookup:
				if x.Index != 0 {
					return nil
				}
				v = t.X
			default:
				return nil
			}
		case *ssa.UnOp:
			if x.Op != token.MUL {
				return nil
			}
			// load: of a local cell holding a jq value (spilled variable), else of designated memory
			if al, ok := x.X.(*ssa.Alloc); ok {
				if al.Referrers() == nil {
					return nil
				}
				for _, rf := range *al.Referrers() {
					if st, ok := rf.(*ssa.Store); ok && st.Addr == ssa.Value(al) {
						if r := jqValueRootSeen(st.Val, seen); r != nil {
							return r
						}
					}
				}
				return nil
			}
			v = x.X
		case *ssa.Lookup:
			v = x.X
		case *ssa.Phi:
			for _, e := range x.Edges {
				if r := jqValueRootSeen(e, seen); r != nil {
					return r
				}
			}
			return nil
		default:
			return nil
		}
	}
	return nil
}

func jqImmutAs(r *fw.Run, p *fw.Program, ruleID string) {
	ru := r.Rule(ruleID, "jq values are immutable: no Go function registered into jq (RegisterFunc*/RegisterIter*) writes - by store, map update, delete/clear/copy, in-place sort, or through any fq callee (interprocedural summaries through type switches, assertions and range variables) - into memory designated by its input or an argument of interface, map or slice type; `$v | f` leaves $v unchanged", 50)
	reg := jqRegistered(p)
	if len(reg) < 50 {
		ru.Undecided("anchor:registered", "", "fewer than 50 registered jq functions found")
		return
	}
	summ := mutationSummariesWith(p, jqValueRoot)
	var fns []*ssa.Function
	for f := range reg {
		fns = append(fns, f)
	}
	sort.Slice(fns, func(i, j int) bool { return fns[i].String() < fns[j].String() })
	for _, fn := range fns {
		name := jqRegisteredName(p, fn)
		key := "jq:" + name + "=" + fw.ShortFn(fn)
		bad := ""
		for i, pa := range fn.Params {
			if !summ[fn][i] {
				continue
			}
			switch pa.Type().Underlying().(type) {
			case *types.Interface, *types.Map, *types.Slice:
				if shortType(pa.Type()) == "pkg/interp.Interp" {
					continue
				}
				bad = pa.Name()
			}
		}
		if bad != "" {
			where := ""
			for _, w := range writesIn(fn, summ) {
				if root := jqValueRoot(w.target); root != nil {
					if pr, ok := root.(*ssa.Parameter); ok && pr.Name() == bad {
						where = w.what + " at " + p.Rel(w.ins.Pos())
						break
					}
				}
			}
			ru.Fail(key, p.Rel(fn.Pos()), "writes through its jq "+bad+" value ("+where+"): the caller's value changes behind its back ($v | "+name+" alters $v)")
		} else {
			ru.Ok(key, p.Rel(fn.Pos()), "never writes through input or arguments")
		}
	}
}

var jqReturnAliasMemo = map[[2]any]int{}
var jqReturnAliasBusy = map[[2]any]bool{}

// jqReturnAlias: index of the parameter that result #res of fn may alias (its jq value root), or -1.
func jqReturnAlias(fn *ssa.Function, res int) int {
	if fn == nil || fn.Blocks == nil || !fw.InFq(fn) {
		return -1
	}
	key := [2]any{fn, res}
	if k, ok := jqReturnAliasMemo[key]; ok {
		return k
	}
	if jqReturnAliasBusy[key] {
		return -1
	}
	jqReturnAliasBusy[key] = true
	defer delete(jqReturnAliasBusy, key)
	out := -1
	fw.EachInstr(fn, func(ins ssa.Instruction) {
		ret, ok := ins.(*ssa.Return)
		if !ok || res >= len(ret.Results) || out >= 0 {
			return
		}
		if !refLike(ret.Results[res].Type()) {
			return
		}
		if root, ok := jqValueRoot(ret.Results[res]).(*ssa.Parameter); ok {
			for i, pa := range fn.Params {
				if pa == root {
					out = i
				}
			}
		}
	})
	jqReturnAliasMemo[key] = out
	return out
}
