package rules

import (
	"fmt"
	"go/token"
	"go/types"
	"strings"

	"golang.org/x/tools/go/ssa"

	"fqverif/fw"
)

const (
	c10HexNew     = fw.Mod + "/internal/hexpairwriter.New"
	c10ASCIINew   = fw.Mod + "/internal/asciiwriter.New"
	c10HexPair    = fw.Mod + "/internal/hexpairwriter.Pair"
	c10SafeASCII  = fw.Mod + "/internal/asciiwriter.SafeASCII"
	c10Range      = fw.Mod + "/internal/bitiox.Range"
	c10CopyBits   = fw.Mod + "/internal/bitiox.CopyBitsBuffer"
	c10Clone      = fw.Mod + "/pkg/bitio.CloneReadSeeker"
	c10PadInt     = fw.Mod + "/internal/mathx.PadFormatInt"
	c10Digits     = fw.Mod + "/internal/mathx.DigitsInBase"
	c10BitsSBB    = "(" + fw.Mod + "/internal/mathx.Bits).StringByteBits"
	c10RangeSBB   = "(" + fw.Mod + "/internal/mathx.BitRange).StringByteBits"
	c10ByteCount  = fw.Mod + "/pkg/bitio.BitsByteCount"
	c10ColNew     = fw.Mod + "/internal/columnwriter.New"
	c10CodeWrap   = "(" + fw.Mod + "/internal/ansi.Code).Wrap"
	c10InnerRange = "(*" + fw.Mod + "/pkg/decode.Value).InnerRange"
)

// c10FindByRole returns the top-level functions of pkg/interp whose body (incl. closures) calls callee.
func c10FindByRole(p *fw.Program, pkgRelPath, callee string) []*ssa.Function {
	var out []*ssa.Function
	for _, fn := range p.FqFunctions() {
		if fn.Parent() != nil || pkgRel(fn) != pkgRelPath {
			continue
		}
		if len(c10CallsTo(fn, callee)) > 0 {
			out = append(out, fn)
		}
	}
	return out
}

// c10Dumper carries what the dump rules share.
type c10Dumper struct {
	p    *fw.Program
	fn   *ssa.Function // dumpEx (by role: the interp function constructing the hex pair writer)
	env  *fw.PolyEnv
	H, A *ssa.Call // hexpairwriter.New / asciiwriter.New
	R    *ssa.Call // bitiox.Range feeding both
	L    *fw.Poly  // line width (Options.LineBytes)
	O    *fw.Poly  // start line offset handed to both writers
	S    *fw.Poly  // first displayed byte
	A0   *fw.Poly  // address printed for the first row
	E    *fw.Poly  // last displayed byte
	rows *fw.Poly
	// range value the displayed bytes are derived from
	startAtom string // atom of range.Start
	rangeBase string
	total     *fw.Poly // bitiox.Len of the reader handed to bitiox.Range (nil if not resolved)
}

func c10DumpRules(r *fw.Run, p *fw.Program) {
	ru := r.Rule("C10.dump.addr", "dump row arithmetic: both column writers get LineBytes and the same start offset; first row address + offset == first byte read (with x%l == x-l*(x/l)); row i prints address0 + i*LineBytes for i=1..rows-1; rows == lastByte/l - firstByte/l + 1; bytes read == 8*(lastByte-firstByte+1) up to clamps; an untruncated value ends at its last bit; the bits read are clamped to exactly bitLen(root buffer) - firstBit; every value of the last displayed bit is guarded to be <= the value's last bit; the range displayed is InnerRange() of the dumped value", 15)
	cands := c10FindByRole(p, "pkg/interp", c10HexNew)
	if len(cands) != 1 {
		ru.Undecided("anchor:dumpEx", "", fmt.Sprintf("%d functions in pkg/interp construct a hexpairwriter (expected exactly the tree dumper)", len(cands)))
		return
	}
	d := &c10Dumper{p: p, fn: cands[0]}
	d.env = c10Env(d.fn, false)
	pos := func(v ssa.Value) string { return p.Rel(v.Pos()) }
	fnKey := fw.ShortFn(d.fn)

	hs, as, rs := c10CallsTo(d.fn, c10HexNew), c10CallsTo(d.fn, c10ASCIINew), c10CallsTo(d.fn, c10Range)
	if len(hs) != 1 || len(as) != 1 || len(rs) != 1 || hs[0].Parent() != d.fn || as[0].Parent() != d.fn || rs[0].Parent() != d.fn {
		ru.Undecided("anchors:"+fnKey, p.Rel(d.fn.Pos()), fmt.Sprintf("expected one hexpairwriter.New, one asciiwriter.New and one bitiox.Range call in the dumper, found %d/%d/%d", len(hs), len(as), len(rs)))
		return
	}
	d.H, d.A, d.R = hs[0], as[0], rs[0]
	ru.Ok("anchors:"+fnKey, p.Rel(d.fn.Pos()), "hex writer, ascii writer and byte range resolved")
	defer c10UnitsRule(r, p, d.fn)
	env := d.env

	// widths
	okW := true
	for _, w := range []struct {
		k string
		c *ssa.Call
	}{{"hex", d.H}, {"ascii", d.A}} {
		ok := c10IsOptField(w.c.Call.Args[1], "LineBytes")
		okW = okW && ok
		ru.Check(ok, "width:"+w.k, pos(w.c), "line width argument is Options.LineBytes", "the "+w.k+" writer's width argument is "+env.Of(w.c.Call.Args[1]).String()+", not Options.LineBytes: bytes wrap at a column the header and addresses do not describe")
	}
	d.L = env.Of(d.H.Call.Args[1])
	if !env.Of(d.A.Call.Args[1]).Equal(d.L) {
		okW = false
	}
	// offsets agree
	d.O = env.Of(d.H.Call.Args[2])
	oa := env.Of(d.A.Call.Args[2])
	ru.Check(d.O.Equal(oa), "offset:siblings", pos(d.A), "hex and ascii writers get the same start offset "+d.O.String(),
		"hex writer starts at column "+d.O.String()+" but ascii writer at "+oa.String()+": the two columns show different bytes under one address")

	// first byte read
	first := env.Of(d.R.Call.Args[1])
	S, div := c10DivConst(first, 8)
	if !ru.Check(div, "range:byte-aligned", pos(d.R), "displayed range starts at bit 8*("+S.String()+")", "the displayed bytes are read from bit "+first.String()+" which is not 8*byte: hex pairs would not be input bytes") {
		return
	}
	d.S = S

	// address prints: PadFormatInt(value, Options.Addrbase, ...)
	var firstCall *ssa.Call
	var loopCalls []*ssa.Call
	for _, c := range c10CallsTo(d.fn, c10PadInt) {
		if c.Parent() != d.fn || !c10IsOptField(c.Call.Args[1], "Addrbase") {
			continue
		}
		if c10InLoop(c.Block()) {
			loopCalls = append(loopCalls, c)
		} else if firstCall == nil {
			firstCall = c
		} else {
			ru.Undecided("addr:first", pos(c), "more than one non-loop address print in the dumper; the rule knows one first-row address and one continuation loop")
			return
		}
	}
	if len(loopCalls) != 1 {
		ru.Undecided("addr:prints", p.Rel(d.fn.Pos()), fmt.Sprintf("expected one address-row loop (PadFormatInt with Options.Addrbase), optionally preceded by a first-row print; found first=%v loops=%d", firstCall != nil, len(loopCalls)))
		return
	}
	wantInit := int64(1)
	if firstCall == nil {
		// all rows printed by one loop: row 0 is the loop's value at i == 0
		wantInit = 0
		firstCall = loopCalls[0]
		v0 := env.Of(firstCall.Call.Args[0])
		d.A0 = fw.NewPoly()
		for m, c := range v0.T {
			if !strings.Contains(m, "iv:") {
				t := fw.NewPoly()
				t.T[m] = c
				d.A0 = d.A0.Add(t)
			}
		}
	} else {
		d.A0 = env.Of(firstCall.Call.Args[0])
	}
	resid := d.A0.Add(d.O).Sub(d.S)
	ru.Check(len(resid.T) == 0, "addr:first", pos(firstCall), "first row address + start offset == first byte ("+d.A0.String()+" + offset == "+d.S.String()+")",
		"first row: address "+d.A0.String()+" + column offset "+d.O.String()+" differs from the first byte read "+d.S.String()+" by "+resid.String()+": every byte is shown under a wrong address")
	if !okW {
		return
	}
	qS := c10QuoAtom(d.S, d.L)
	aligned := d.A0.Equal(qS.Mul(d.L))
	if !aligned {
		ru.Undecided("addr:line-aligned", pos(firstCall), "first row address is "+d.A0.String()+", not (firstByte/LineBytes)*LineBytes; the row-count clause assumes line-aligned rows")
		return
	}
	ru.Ok("addr:line-aligned", pos(firstCall), "first row address is (firstByte/LineBytes)*LineBytes")

	// continuation rows
	lc := loopCalls[0]
	v := env.Of(lc.Call.Args[0])
	var iv *ssa.Phi
	var ivPoly *fw.Poly
	for _, m := range c10CollectBinOps(lc.Call.Args[0], token.MUL) {
		for _, side := range []ssa.Value{m.X, m.Y} {
			if ph, ok := c10Strip(side).(*ssa.Phi); ok {
				iv, ivPoly = ph, env.Of(ph)
			}
		}
	}
	if iv == nil {
		ru.Fail("addr:cont", pos(lc), "continuation row address "+v.String()+" is not address0 + i*LineBytes for a loop counter i")
		return
	}
	want := d.A0.Add(ivPoly.Mul(d.L))
	ru.Check(v.Equal(want), "addr:cont", pos(lc), "row i prints address0 + i*LineBytes", "continuation row address is "+v.String()+", expected "+want.String()+": rows after the first carry a wrong address")
	// induction: init 1 (row 0 printed before the loop), step 1, runs while i < rows
	init, step := int64(-1), false
	for _, e := range iv.Edges {
		if k, ok := c10ConstInt(e); ok {
			init = k
		} else if bo, ok := e.(*ssa.BinOp); ok && bo.Op == token.ADD && bo.X == ssa.Value(iv) {
			if k, ok := c10ConstInt(bo.Y); ok && k == 1 {
				step = true
			}
		}
	}
	ru.Check(init == wantInit && step && len(iv.Edges) == 2, "addr:cont-range", pos(lc), fmt.Sprintf("row counter starts at %d (rows before it are printed separately) and steps by 1", wantInit),
		fmt.Sprintf("row counter init=%d (expected %d) step+1=%v: a row address is skipped or printed twice", init, wantInit, step))
	var bound ssa.Value
	if ifi, ok := iv.Block().Instrs[len(iv.Block().Instrs)-1].(*ssa.If); ok && iv.Block().Succs[0].Dominates(lc.Block()) {
		if cm, ok := ifi.Cond.(*ssa.BinOp); ok {
			// i < rows  or  rows > i
			switch {
			case cm.Op == token.LSS && c10Strip(cm.X) == ssa.Value(iv):
				bound = cm.Y
			case cm.Op == token.GTR && c10Strip(cm.Y) == ssa.Value(iv):
				bound = cm.X
			}
		}
	}
	if bound == nil {
		ru.Fail("addr:cont-bound", pos(lc), "continuation loop is not of the form i < rows with the address print in its body")
		return
	}
	d.rows = env.Of(bound)
	// rows == E/L - S/L + 1
	var eq *ssa.BinOp
	nq := 0
	for _, q := range c10CollectBinOps(bound, token.QUO) {
		if dv := c10Divisor(env, q); dv == nil || !dv.Equal(d.L) {
			continue
		}
		nq++
		if !env.Of(q.X).Equal(d.S) {
			eq = q
		}
	}
	if eq == nil || nq != 2 {
		ru.Fail("rows", pos(lc), "number of address rows "+d.rows.String()+" is not lastByte/LineBytes - firstByte/LineBytes + 1")
		return
	}
	d.E = env.Of(eq.X)
	wantRows := c10QuoAtom(d.E, d.L).Sub(qS).Add(fw.PConst(1))
	ru.Check(d.rows.Equal(wantRows), "rows", pos(lc), "address rows == lastByte/LineBytes - firstByte/LineBytes + 1", "number of address rows is "+d.rows.String()+", expected "+wantRows.String()+": hex/ascii lines without an address are dropped at Flush, or empty rows are printed")

	// bytes read: 8*(E-S+1) up to shrinking clamps
	wantLen := d.E.Sub(d.S).Add(fw.PConst(1)).MulC(8)
	principal := 0
	badLeaf := ""
	var clamps []*fw.Poly
	for _, lf := range c10MinLeaves(c10PhiLeaves(d.R.Call.Args[2])) {
		lp := env.Of(lf.V)
		switch {
		case lp.Equal(wantLen):
			principal++
		case len(lp.T) == 0:
			// zero length
		case lf.Min || (lf.Phi != nil && c10ShrinkingEdge(env, lf.c10Leaf)):
			// min-clamp: taken only when the other value is larger
			clamps = append(clamps, lp)
		default:
			badLeaf = lp.String()
		}
	}
	ru.Check(principal >= 1 && badLeaf == "", "range:len", pos(d.R), "bits read == 8*(lastByte - firstByte + 1), only clamped downwards",
		"bits read for the hex/ascii columns can be "+badLeaf+" (principal 8*(lastByte-firstByte+1) seen "+fmt.Sprint(principal)+"x): bytes are shown that the address rows do not cover, or displayed bytes are missing")

	c10DumpClamp(ru, d, first, clamps)

	// last displayed byte: lastBit/8 where, unless display_bytes truncation applies, lastBit is the value's last bit
	eBin, _ := c10Strip(eq.X).(*ssa.BinOp)
	if dv := c10Divisor(env, eBin); dv == nil || !dv.Equal(fw.PConst(8)) {
		ru.Undecided("last:untruncated", pos(eq), "last displayed byte "+d.E.String()+" is not lastBit/8")
		return
	}
	// the range: S must be range.Start/8
	sBins := c10CollectBinOps(d.R.Call.Args[1], token.QUO)
	if len(sBins) != 1 || !c10Divisor(env, sBins[0]).Equal(fw.PConst(8)) {
		ru.Undecided("range:start", pos(d.R), "first displayed byte "+d.S.String()+" is not start/8 of a range")
		return
	}
	startV := sBins[0].X
	_, sf, _, okS := c10FieldLoad(startV)
	start := env.Of(startV)
	if !okS || sf != "Start" || len(start.Atoms()) != 1 {
		ru.Undecided("range:start", pos(d.R), "first displayed bit "+start.String()+" is not the Start field of a range")
		return
	}
	d.startAtom = start.Atoms()[0]
	d.rangeBase = strings.TrimSuffix(d.startAtom, ".Start")
	lenP := fw.PAtom(d.rangeBase + ".Len")
	stopBit := start.Add(lenP).Sub(fw.PConst(1))
	ru.Ok("range:start", pos(d.R), "first displayed byte is "+d.startAtom+"/8")
	nStop, bad := 0, ""
	for _, lf := range c10PhiLeaves(eBin.X) {
		lp := env.Of(lf.V)
		if lp.Equal(stopBit) {
			nStop++
			continue
		}
		// truncated end: only under display_bytes > 0 and len > display_bytes*8
		if lf.Pred == nil {
			bad = lp.String()
			continue
		}
		var db *fw.Poly
		for _, c := range c10Conds(lf.Pred) {
			if b, ok := c.V.(*ssa.BinOp); ok {
				for _, s := range []ssa.Value{b.X, b.Y} {
					if c10IsOptField(s, "DisplayBytes") {
						db = env.Of(s)
					}
				}
			}
		}
		if db == nil || !c10Holds(env, lf.Pred, fw.Cmp{P: db, Rel: fw.GT}) || !c10Holds(env, lf.Pred, fw.Cmp{P: lenP.Sub(db.MulC(8)), Rel: fw.GT}) {
			bad = lp.String() + " under " + c10FactsString(env, lf.Pred)
		}
	}
	ru.Check(nStop >= 1 && bad == "", "last:untruncated", pos(eq), "last displayed bit is start+len-1 unless display_bytes > 0 and len > 8*display_bytes",
		"the last displayed bit can be "+bad+" without the display_bytes truncation applying: an untruncated value is not shown completely")

	c10DumpLastWithin(ru, d, eBin.X, stopBit, pos(eq))
	c10DumpInner(ru, d, startV, pos(d.R))

	c10DumpRange(r, d, stopBit, lenP)
	c10DumpSrc(r, d)
	c10DumpCols(r, d, firstCall)
}

// c10MinLeaf is a phi leaf or an operand of a builtin min() among the leaves.
type c10MinLeaf struct {
	c10Leaf
	Min bool // operand of min(): by construction only taken when it is the smaller one
}

// c10MinLeaves expands leaves that are calls of the builtin min into their operands.
func c10MinLeaves(in []c10Leaf) []c10MinLeaf {
	var out []c10MinLeaf
	var rec func(lf c10Leaf, min bool)
	rec = func(lf c10Leaf, min bool) {
		if c, ok := c10Strip(lf.V).(*ssa.Call); ok && fw.IsBuiltinCall(c, "min") {
			for _, a := range c.Call.Args {
				for _, sub := range c10PhiLeaves(a) {
					if sub.Pred == nil {
						sub.Pred, sub.Phi = lf.Pred, lf.Phi
					}
					rec(sub, true)
				}
			}
			return
		}
		out = append(out, c10MinLeaf{lf, min})
	}
	for _, lf := range in {
		rec(lf, false)
	}
	return out
}

// c10DumpClamp: the only clamp of the number of bits read is the number of bits the root buffer
// holds from the first displayed bit on: firstBit + clamp == bitiox.Len(reader handed to bitiox.Range).
// A larger clamp lets bitiox.Range ask for bits past the end of a buffer that does not end on a
// byte boundary (the dump aborts instead of showing the value's bytes), a smaller one drops
// displayed bytes the address rows announce.
func c10DumpClamp(ru *fw.Rule, d *c10Dumper, first *fw.Poly, clamps []*fw.Poly) {
	p, env := d.p, d.env
	pos := p.Rel(d.R.Pos())
	_, rf, rbase, okR := c10FieldLoad(d.R.Call.Args[0])
	var total *fw.Poly
	n := 0
	for _, lc := range c10CallsTo(d.fn, fw.Mod+"/internal/bitiox.Len") {
		if lc.Parent() != d.fn || len(lc.Call.Args) != 1 {
			continue
		}
		_, lf, lbase, okL := c10FieldLoad(lc.Call.Args[0])
		same := lc.Call.Args[0] == d.R.Call.Args[0] || (okR && okL && lf == rf && lbase == rbase)
		if !same {
			continue
		}
		if ex := c10ExtractOf(lc, 0); ex != nil && lc.Block().Dominates(d.R.Block()) {
			total = env.Of(ex)
			n++
		}
	}
	if n == 1 {
		d.total = total
	}
	if len(clamps) == 0 {
		// no clamp at all: then the bits read must be provably inside the buffer; the dumper does not establish that
		ru.Fail("range:clamp", pos, "the number of bits read for the hex/ascii columns is never clamped to the bits left in the root buffer: a value in the last, partial byte of a buffer asks for bits past its end")
		return
	}
	if n != 1 || total == nil {
		ru.Undecided("range:clamp", pos, fmt.Sprintf("the bits read are clamped, but the dumper has %d dominating bitiox.Len calls on the reader it hands to bitiox.Range (expected 1)", n))
		return
	}
	bad := ""
	for _, c := range clamps {
		if !c.Add(first).Equal(total) {
			bad = c.String()
		}
	}
	ru.Check(bad == "", "range:clamp", pos, "bits read are clamped to exactly bitLen(root buffer) - firstBit",
		"the bits read for the hex/ascii columns are clamped to "+bad+" but from the first displayed bit "+first.String()+" on the root buffer holds "+total.Sub(first).String()+" bits: for buffers that do not end on a byte boundary the dump asks for bits past the end (error instead of bytes) or drops displayed bytes")
}

// c10DivConst divides every coefficient of p by k; ok=false if one is not divisible.
func c10DivConst(p *fw.Poly, k int64) (*fw.Poly, bool) {
	out := fw.NewPoly()
	for m, c := range p.T {
		if !c.IsInt64() || c.Int64()%k != 0 {
			return p, false
		}
		q := fw.PConst(c.Int64() / k)
		if m != "" {
			mono := fw.PConst(1)
			for _, a := range splitMonoC10(m) {
				mono = mono.Mul(fw.PAtom(a))
			}
			q = q.Mul(mono)
		}
		out = out.Add(q)
	}
	return out, true
}

// splitMonoC10 splits a monomial key on '*' outside brackets.
func splitMonoC10(k string) []string {
	var out []string
	depth, start := 0, 0
	for i, c := range k {
		switch c {
		case '(', '[', '{':
			depth++
		case ')', ']', '}':
			depth--
		case '*':
			if depth == 0 {
				out = append(out, k[start:i])
				start = i + 1
			}
		}
	}
	return append(out, k[start:])
}

// c10ShrinkingEdge: the phi edge carrying lf.V is taken only when another edge's value is larger (x = min(x, v)).
func c10ShrinkingEdge(env *fw.PolyEnv, lf c10Leaf) bool {
	if lf.Pred == nil || lf.Phi == nil {
		return false
	}
	v := env.Of(lf.V)
	for _, e := range lf.Phi.Edges {
		if e == lf.V {
			continue
		}
		if c10Holds(env, lf.Pred, fw.Cmp{P: env.Of(e).Sub(v), Rel: fw.GT}) {
			return true
		}
	}
	return false
}

// ---------------------------------------------------------------------------
// C10.dump.range: what is printed as range/size is the range the bytes come from

func c10DumpRange(r *fw.Run, d *c10Dumper, stopBit, lenP *fw.Poly) {
	ru := r.Rule("C10.dump.range", "verbose range/size and the truncation marker print the same range the displayed bytes are read from: BitRange(range) in addrbase, Bits(range.Len) in sizebase, marker 'until' start+len-1 with BitsByteCount(len), printed iff the value's last byte is not displayed; its end-of-buffer annotation iff the value's last bit is the root buffer's last bit; anything else printed into the hex/ascii columns after the bytes (end-of-buffer bar) only where the last displayed byte is the buffer's last byte", 6)
	p, env := d.p, d.env
	pos := func(v ssa.Value) string { return p.Rel(v.Pos()) }
	// BitRange(range).StringByteBits(Addrbase)
	rc := c10CallsTo(d.fn, c10RangeSBB)
	if len(rc) != 1 {
		ru.Undecided("verbose:range", p.Rel(d.fn.Pos()), fmt.Sprintf("%d BitRange.StringByteBits calls in the dumper", len(rc)))
	} else {
		got := strings.Trim(c10NoStoreSuffix(env.Of(rc[0].Call.Args[0]).String()), "()")
		ru.Check(got == strings.Trim(d.rangeBase, "()") && c10IsOptField(rc[0].Call.Args[1], "Addrbase"), "verbose:range", pos(rc[0]),
			"verbose range is the displayed range in Options.Addrbase", "verbose range prints "+got+" (base "+env.Of(rc[0].Call.Args[1]).String()+"), the bytes shown come from "+d.rangeBase)
	}
	var sizeCall, untilCall *ssa.Call
	for _, c := range c10CallsTo(d.fn, c10BitsSBB) {
		if c10IsOptField(c.Call.Args[1], "Sizebase") {
			sizeCall = c
		} else if c10IsOptField(c.Call.Args[1], "Addrbase") {
			untilCall = c
		}
	}
	if sizeCall == nil {
		ru.Undecided("verbose:size", p.Rel(d.fn.Pos()), "no Bits(..).StringByteBits(Options.Sizebase) in the dumper")
	} else {
		got := env.Of(sizeCall.Call.Args[0])
		ru.Check(got.Equal(lenP), "verbose:size", pos(sizeCall), "verbose size is range.Len", "verbose size prints "+got.String()+", the range's length is "+lenP.String())
	}
	if untilCall == nil {
		ru.Undecided("marker:until", p.Rel(d.fn.Pos()), "no truncation marker Bits(..).StringByteBits(Options.Addrbase) in the dumper")
		return
	}
	got := env.Of(untilCall.Call.Args[0])
	ru.Check(got.Equal(stopBit), "marker:until", pos(untilCall), "truncation marker prints the value's last bit start+len-1", "truncation marker prints "+got.String()+", the value's last bit is "+stopBit.String())
	// guarded by stopByte != lastDisplayByte
	stopByte := c10QuoAtom(stopBit, fw.PConst(8))
	ru.Check((c10Exact(env, untilCall.Block(), fw.Cmp{P: stopByte.Sub(d.E), Rel: fw.NE}) || c10Exact(env, untilCall.Block(), fw.Cmp{P: stopByte.Sub(d.E), Rel: fw.GT})) && !c10InLoop(untilCall.Block()), "marker:cond", pos(untilCall),
		"marker printed iff lastBit/8 != last displayed byte", "truncation marker is not guarded by (lastBit/8 != lastDisplayedByte); known here: "+c10FactsString(env, untilCall.Block()))
	// "(end)" annotation of the marker: a constant text printed next to the marker's address claims that
	// the value ends where the root buffer ends
	target := func(v ssa.Value) ssa.Value {
		seen := map[ssa.Value]bool{}
		var out ssa.Value
		var rec func(v ssa.Value)
		rec = func(v ssa.Value) {
			if out != nil || v == nil || seen[v] || v.Referrers() == nil {
				return
			}
			seen[v] = true
			for _, rf := range *v.Referrers() {
				switch x := rf.(type) {
				case *ssa.MakeInterface:
					rec(x)
				case *ssa.ChangeInterface:
					rec(x)
				case *ssa.Store:
					if ia, ok := x.Addr.(*ssa.IndexAddr); ok && x.Val == v {
						out = ia.X
						return
					}
				}
			}
		}
		rec(v)
		return out
	}
	if tu := target(untilCall); tu != nil {
		fw.EachInstr(d.fn, func(ins ssa.Instruction) {
			ph, ok := ins.(*ssa.Phi)
			if !ok || target(ph) != tu {
				return
			}
			if bt, ok := ph.Type().Underlying().(*types.Basic); !ok || bt.Info()&types.IsString == 0 {
				return
			}
			if d.total == nil {
				ru.Undecided("marker:end", pos(untilCall), "the marker carries a conditional annotation but the root buffer's bit length (bitiox.Len) is not resolved")
				return
			}
			good, why := true, ""
			nAnn := 0
			for _, lf := range c10PhiLeaves(ph) {
				txt, isC := c10ConstStr(lf.V)
				if isC && txt == "" {
					continue
				}
				nAnn++
				// == or >= (a value never extends past its root buffer)
				endP := stopBit.Sub(d.total).Add(fw.PConst(1))
				if !isC || lf.Pred == nil || !(c10Exact(env, lf.Pred, fw.Cmp{P: endP, Rel: fw.EQ}) || c10Exact(env, lf.Pred, fw.Cmp{P: endP, Rel: fw.GE})) {
					good = false
					if lf.Pred != nil {
						why = c10FactsString(env, lf.Pred)
					}
				}
			}
			if nAnn > 0 {
				ru.Check(good, "marker:end", pos(untilCall), "the end-of-buffer annotation of the marker is printed iff the value's last bit is the root buffer's last bit", "the end-of-buffer annotation of the truncation marker is not guarded by (value's last bit == bitLen(root buffer)-1); known there: "+why)
			}
		})
	}
	c10DumpEndMark(ru, d, untilCall)
	// size in the marker: BitsByteCount(len) in sizebase
	found := false
	for _, c := range c10CallsTo(d.fn, c10PadInt) {
		if c.Parent() == d.fn && c10IsOptField(c.Call.Args[1], "Sizebase") && c.Block() == untilCall.Block() {
			found = true
			arg, _ := c10Strip(c.Call.Args[0]).(*ssa.Call)
			ok := arg != nil && fw.CalleeName(arg) == c10ByteCount && env.Of(arg.Call.Args[0]).Equal(lenP)
			ru.Check(ok, "marker:size", pos(c), "marker size is BitsByteCount(range.Len)", "marker size prints "+env.Of(c.Call.Args[0]).String()+", expected BitsByteCount("+lenP.String()+")")
		}
	}
	if !found {
		ru.Undecided("marker:size", pos(untilCall), "no PadFormatInt(.., Options.Sizebase) next to the truncation marker")
	}
}

// ---------------------------------------------------------------------------
// C10.dump.src: one byte source for both columns, cells are Pair/SafeASCII of the byte

func c10DumpSrc(r *fw.Run, d *c10Dumper) {
	ru := r.Rule("C10.dump.src", "the hex and the ascii writer are each fed by CopyBitsBuffer from their own clone of the one bitiox.Range reader over the root buffer; the hex cell is Wrap(hexpairwriter.Pair(b)), the ascii cell Wrap(asciiwriter.SafeASCII(b)) of the writer's byte; address/hex/ascii go to three different columns", 8)
	p := d.p
	pos := func(v ssa.Value) string { return p.Rel(v.Pos()) }
	copies := c10CallsTo(d.fn, c10CopyBits)
	if len(copies) != 2 {
		ru.Undecided("copy:count", p.Rel(d.fn.Pos()), fmt.Sprintf("%d CopyBitsBuffer calls in the dumper, expected 2", len(copies)))
		return
	}
	rangeReader := c10ExtractOf(d.R, 0)
	clones := map[*ssa.Call]bool{}
	for _, w := range []struct {
		k string
		c *ssa.Call
	}{{"hex", d.H}, {"ascii", d.A}} {
		var cp *ssa.Call
		for _, c := range copies {
			if c10Strip(c.Call.Args[0]) == ssa.Value(w.c) {
				cp = c
			}
		}
		if cp == nil {
			ru.Fail("copy:"+w.k+"-dst", pos(w.c), "the "+w.k+" writer is not the destination of a CopyBitsBuffer")
			continue
		}
		ru.Ok("copy:"+w.k+"-dst", pos(cp), w.k+" writer is a CopyBitsBuffer destination")
		// src: Extract#0 of CloneReadSeeker(Extract#0 of R)
		ok := false
		src := c10Strip(cp.Call.Args[1])
		if ex, isEx := src.(*ssa.Extract); isEx && ex.Index == 0 {
			if cl, isCl := ex.Tuple.(*ssa.Call); isCl && fw.CalleeName(cl) == c10Clone {
				if rangeReader != nil && c10Strip(cl.Call.Args[0]) == rangeReader && !clones[cl] {
					ok = true
					clones[cl] = true
				}
			}
		}
		ru.Check(ok, "copy:"+w.k+"-src", pos(cp), w.k+" column reads its own clone of the displayed range", "the "+w.k+" column is not fed from its own clone of the one displayed range reader: the two columns can show different bytes")
		// cell function
		callee, what := c10HexPair, "hexpairwriter.Pair"
		if w.k == "ascii" {
			callee, what = c10SafeASCII, "asciiwriter.SafeASCII"
		}
		ru.Check(c10CellFn(w.c.Call.Args[3], callee), "cell:"+w.k, pos(w.c), w.k+" cell is Wrap("+what+"(b))", "the "+w.k+" cell function does not return Code.Wrap("+what+"(b)) of its byte argument")
	}
	// root reader
	_, f, _, ok := c10FieldLoad(d.R.Call.Args[0])
	ru.Check(ok && f == "RootReader", "range:root", pos(d.R), "bytes are read from the root buffer the addresses refer to", "displayed bytes are not read from Value.RootReader ("+d.env.Of(d.R.Call.Args[0]).String()+")")
	c10HexdumpRoot(ru, p)
	// columns
	hk, hok := c10ColumnIndex(d.H.Call.Args[0])
	ak, aok := c10ColumnIndex(d.A.Call.Args[0])
	if !hok || !aok {
		ru.Undecided("col:distinct", pos(d.H), "writer destinations are not columnwriter Columns[const]")
		return
	}
	ru.Check(hk != ak, "col:distinct", pos(d.H), fmt.Sprintf("hex column %d, ascii column %d", hk, ak), "hex and ascii writers write to the same column")
}

// c10CellFn: v is a closure that returns (ansi.Code).Wrap(_, callee(param0)).
func c10CellFn(v ssa.Value, callee string) bool {
	mc, ok := v.(*ssa.MakeClosure)
	var fn *ssa.Function
	if ok {
		fn, _ = mc.Fn.(*ssa.Function)
	} else {
		fn, _ = v.(*ssa.Function)
	}
	if fn == nil || len(fn.Params) != 1 {
		return false
	}
	rets := c10Returns(fn)
	if len(rets) == 0 {
		return false
	}
	for _, rt := range rets {
		if len(rt.Results) != 1 {
			return false
		}
		res := rt.Results[0]
		if wc, ok := res.(*ssa.Call); ok && fw.CalleeName(wc) == c10CodeWrap {
			res = wc.Call.Args[1]
		}
		cc, ok := res.(*ssa.Call)
		if !ok || fw.CalleeName(cc) != callee || cc.Call.Args[0] != ssa.Value(fn.Params[0]) {
			return false
		}
	}
	return true
}

// c10ColumnIndex: v is (a conversion of) a load of X.Columns[k] with constant k.
func c10ColumnIndex(v ssa.Value) (int64, bool) {
	ld, ok := c10Strip(v).(*ssa.UnOp)
	if !ok || ld.Op != token.MUL {
		return 0, false
	}
	ia, ok := ld.X.(*ssa.IndexAddr)
	if !ok {
		return 0, false
	}
	_, f, _, ok := c10FieldLoad(ia.X)
	if !ok || f != "Columns" {
		return 0, false
	}
	return c10ConstInt(ia.Index)
}

// c10PrintColumn follows a value forward (interfaces, formatter calls, variadic slices) to the
// dynamic call of a column print closure and returns that call's constant first argument.
func c10PrintColumn(v ssa.Value) (int64, bool) {
	seen := map[ssa.Value]bool{}
	var res int64
	found := false
	var rec func(v ssa.Value)
	rec = func(v ssa.Value) {
		if found || v == nil || seen[v] || v.Referrers() == nil {
			return
		}
		seen[v] = true
		for _, rf := range *v.Referrers() {
			switch x := rf.(type) {
			case *ssa.MakeInterface:
				rec(x)
			case *ssa.ChangeInterface:
				rec(x)
			case *ssa.ChangeType:
				rec(x)
			case *ssa.Slice:
				rec(x)
			case *ssa.Store:
				if ia, ok := x.Addr.(*ssa.IndexAddr); ok && x.Val == v {
					rec(ia.X)
				}
			case *ssa.Call:
				if x.Call.StaticCallee() == nil && !x.Call.IsInvoke() {
					if _, isB := x.Call.Value.(*ssa.Builtin); !isB && len(x.Call.Args) > 0 {
						if k, ok := c10ConstInt(x.Call.Args[0]); ok {
							res, found = k, true
							return
						}
					}
				}
				rec(x)
			}
		}
	}
	rec(v)
	return res, found
}

// ---------------------------------------------------------------------------
// C10.dump.cols: column widths fit what is written into them

func c10DumpCols(r *fw.Run, d *c10Dumper, firstAddr *ssa.Call) {
	ru := r.Rule("C10.dump.cols", "the column the hex writer fills is 3*LineBytes-1 wide, the ascii column LineBytes wide (wider content is cut by FlushLine); LenFn/SliceFn are set together; root indent + address pad width never exceeds the address column width; at the outermost root it fits for every tree depth; the width pre-pass uses the same prefix/base/indent as the address print and keeps the maximum", 12)
	p := d.p
	pos := func(v ssa.Value) string { return p.Rel(v.Pos()) }
	cands := c10FindByRole(p, "pkg/interp", c10ColNew)
	if len(cands) != 1 {
		ru.Undecided("anchor:dump", "", fmt.Sprintf("%d functions in pkg/interp construct a columnwriter", len(cands)))
		return
	}
	dump := cands[0]
	cn := c10CallsTo(dump, c10ColNew)
	if len(cn) != 1 || cn[0].Parent() != dump {
		ru.Undecided("anchor:columnwriter.New", p.Rel(dump.Pos()), "expected one columnwriter.New call")
		return
	}
	env := c10Env(dump, false)
	elems := c10VarargElems(cn[0].Call.Args[1])
	if elems == nil {
		ru.Undecided("columns", pos(cn[0]), "columns are not passed as a literal variadic list")
		return
	}
	hk, _ := c10ColumnIndex(d.H.Call.Args[0])
	ak, _ := c10ColumnIndex(d.A.Call.Args[0])
	addrK, okAddrK := c10PrintColumn(firstAddr)
	if !okAddrK {
		ru.Undecided("col:addr", pos(firstAddr), "cannot follow the first-row address to a column print")
		return
	}
	ru.Check(addrK != hk && addrK != ak, "col:addr", pos(firstAddr), fmt.Sprintf("addresses go to column %d", addrK), "addresses are printed into the hex or ascii column")
	// width of column k: store to field Width of the MultiLineColumn alloc
	colField := func(k int64, field string) ssa.Value {
		e, ok := elems[k]
		if !ok {
			return nil
		}
		al, ok := c10Strip(e).(*ssa.Alloc)
		if !ok || al.Referrers() == nil {
			return nil
		}
		var val ssa.Value
		for _, rf := range *al.Referrers() {
			fa, ok := rf.(*ssa.FieldAddr)
			if !ok || fieldNameOf(fa.X.Type(), fa.Field) != field || fa.Referrers() == nil {
				continue
			}
			for _, rr := range *fa.Referrers() {
				if st, ok := rr.(*ssa.Store); ok && st.Addr == ssa.Value(fa) {
					val = st.Val
				}
			}
		}
		return val
	}
	// L in dump
	var L *fw.Poly
	check := func(key string, k int64, want func(L *fw.Poly) *fw.Poly, what, cons string) {
		w := colField(k, "Width")
		if w == nil {
			ru.Undecided(key, pos(cn[0]), fmt.Sprintf("column %d has no constant-position MultiLineColumn literal with a Width", k))
			return
		}
		if L == nil {
			for _, v := range append(c10FieldOperands(w), w) {
				if c10IsOptField(v, "LineBytes") {
					L = env.Of(v)
				}
			}
		}
		if L == nil {
			ru.Fail(key, pos(cn[0]), what+" column width "+env.Of(w).String()+" does not depend on Options.LineBytes")
			return
		}
		got := env.Of(w)
		ru.Check(got.Equal(want(L)), key, pos(cn[0]), what+" column width == "+want(L).String(), what+" column width is "+got.String()+", the writer fills "+want(L).String()+" characters per row: "+cons)
	}
	check("width:hex", hk, func(L *fw.Poly) *fw.Poly { return L.MulC(3).Sub(fw.PConst(1)) }, "hex", "FlushLine cuts the row (bytes not shown) or the bars no longer line up with the header")
	check("width:ascii", ak, func(L *fw.Poly) *fw.Poly { return L }, "ascii", "FlushLine cuts the row (bytes not shown) or the bars no longer line up")
	// LenFn / SliceFn are set together on every column
	pairOK, n := true, 0
	for k := range elems {
		lf, sf := colField(k, "LenFn"), colField(k, "SliceFn")
		if lf == nil && sf == nil {
			continue
		}
		n++
		if !c10PairedFns(lf, sf) {
			pairOK = false
		}
	}
	ru.Check(pairOK && n >= 3, "lenfn-slicefn", pos(cn[0]), "LenFn and SliceFn are nil together or ansi.Len/ansi.Slice together on every column", "a column gets LenFn without the matching SliceFn (or the reverse): coloured rows are measured with one notion of length and cut with another")

	// address width: indent(rootDepth) + pad width <= address column width
	wAddr := colField(addrK, "Width")
	// the dumper's parameters
	var padW, indentArg ssa.Value
	padW = firstAddr.Call.Args[3]
	// the indent printed before the address: first vararg of the print is indentStr(k*rootDepth)
	for _, f := range []*ssa.Function{d.fn} {
		fw.EachInstr(f, func(ins ssa.Instruction) {
			c, ok := ins.(*ssa.Call)
			if !ok || c.Call.StaticCallee() == nil || len(c.Call.Args) != 1 || c.Call.StaticCallee().Signature.Results().Len() != 1 {
				return
			}
			if !c10FlowsToSamePrint(c, firstAddr) {
				return
			}
			indentArg = c.Call.Args[0]
		})
	}
	padParam, okPad := padW.(*ssa.Parameter)
	if wAddr == nil || indentArg == nil || !okPad {
		ru.Undecided("addrwidth:fits", pos(firstAddr), "cannot resolve address column width, the indent printed before the address, or the pad width parameter")
		return
	}
	indentPoly := d.env.Of(indentArg) // in terms of dumpEx parameters
	// call sites of the dumper inside dump's closures
	sites := c10CallsTo(dump, d.fn.String())
	if len(sites) == 0 {
		ru.Undecided("addrwidth:fits", pos(firstAddr), "the column constructor does not call the dumper")
		return
	}
	for i, cs := range sites {
		cenv := c10Env(cs.Parent(), false)
		// substitute parameters of the dumper by the call's arguments
		sub := map[string]*fw.Poly{}
		for pi, prm := range d.fn.Params {
			sub[prm.Name()] = cenv.Of(cs.Call.Args[pi])
		}
		ind := c10SubstAtoms(indentPoly, sub)
		pw := sub[padParam.Name()]
		// column width as seen from the closure: same variable
		wcol := c10RenameLocal(env.Of(wAddr))
		total := c10RenameLocal(ind.Add(pw))
		diff := wcol.Sub(total)
		k, isC := diff.IsConst()
		key := fmt.Sprintf("addrwidth:fits#%d", i)
		ru.Check(isC && k >= 0, key, pos(cs), "indent + pad width == address column width",
			"address column is "+wcol.String()+" wide but the row prints indent "+ind.String()+" + address padded to "+pw.String()+" (excess "+diff.Neg().String()+"): FlushLine cuts the last digit(s) of the address on nested roots")
		c10DumpRootFits(ru, p, cs, i, wcol, c10RenameLocal(ind), c10RenameLocal(pw))
	}
	c10DumpHeader(ru, p, dump, env)
	// pre-pass: DigitsInBase(BitsByteCount(range.Stop()), true, Addrbase) + same indent multiplier
	dg := c10CallsTo(dump, c10Digits)
	if len(dg) != 1 {
		ru.Undecided("digits", p.Rel(dump.Pos()), fmt.Sprintf("%d DigitsInBase calls in the width pre-pass", len(dg)))
		return
	}
	pfx, _ := c10ConstBool(dg[0].Call.Args[1])
	pfxPrint, _ := c10ConstBool(firstAddr.Call.Args[2])
	ru.Check(pfx == pfxPrint && c10IsOptField(dg[0].Call.Args[2], "Addrbase"), "digits:args", pos(dg[0]), "width pre-pass counts digits with the same prefix flag and base as the address print",
		"the address width pre-pass counts digits with prefix/base different from the address print: addresses overflow the column and are cut")
	denv := c10Env(dg[0].Parent(), false)
	// the value added to the digit count is the indent: same polynomial as the dumper's indent in its own rootDepth
	var sum ssa.Value
	if dg[0].Referrers() != nil {
		for _, rf := range *dg[0].Referrers() {
			if b, ok := rf.(*ssa.BinOp); ok && b.Op == token.ADD {
				sum = b
			}
		}
	}
	if sum == nil {
		ru.Undecided("digits:indent", pos(dg[0]), "digit count is not added to an indent")
		return
	}
	c10DumpWidthMax(ru, p, sum, denv, pos(dg[0]))
	preIndent := denv.Of(sum).Sub(denv.Of(dg[0]))
	// compare shape: k*<param> with the same k
	ru.Check(c10SingleCoef(preIndent) == c10SingleCoef(indentPoly) && c10SingleCoef(indentPoly) != 0, "digits:indent", pos(dg[0]), "pre-pass indent multiplier equals the printed indent multiplier",
		"width pre-pass adds indent "+preIndent.String()+" but rows print indent "+indentPoly.String())
	// the measured quantity is the byte count of the range stop (largest address + 1)
	arg, _ := c10Strip(dg[0].Call.Args[0]).(*ssa.Call)
	okArg := false
	if arg != nil && fw.CalleeName(arg) == c10ByteCount {
		a := denv.Of(arg.Call.Args[0])
		okArg = strings.Contains(a.String(), "InnerRange") && strings.Contains(a.String(), ".Start") && strings.Contains(a.String(), ".Len") && len(a.T) == 2
	}
	ru.Check(okArg, "digits:value", pos(dg[0]), "pre-pass measures BitsByteCount(InnerRange().Stop())", "the address width pre-pass does not measure the byte count of the value's range stop")
}

// c10FieldOperands returns the leaves of the arithmetic tree of v.
func c10FieldOperands(v ssa.Value) []ssa.Value {
	var out []ssa.Value
	var rec func(v ssa.Value)
	rec = func(v ssa.Value) {
		v = c10Strip(v)
		if b, ok := v.(*ssa.BinOp); ok {
			rec(b.X)
			rec(b.Y)
			return
		}
		out = append(out, v)
	}
	rec(v)
	return out
}

// c10PairedFns: both nil, or phis in one block whose edges are (nil,nil) / (ansi.Len, ansi.Slice) pairwise, or the functions directly.
func c10PairedFns(lf, sf ssa.Value) bool {
	name := func(v ssa.Value) string {
		switch x := v.(type) {
		case *ssa.Const:
			if x.IsNil() {
				return "nil"
			}
		case *ssa.Function:
			return x.String()
		}
		return "?"
	}
	okPair := func(a, b string) bool {
		return (a == "nil" && b == "nil") || (a == fw.Mod+"/internal/ansi.Len" && b == fw.Mod+"/internal/ansi.Slice")
	}
	if lf == nil || sf == nil {
		return false
	}
	lp, ok1 := lf.(*ssa.Phi)
	sp, ok2 := sf.(*ssa.Phi)
	if ok1 && ok2 {
		if lp.Block() != sp.Block() || len(lp.Edges) != len(sp.Edges) {
			return false
		}
		for i := range lp.Edges {
			if !okPair(name(lp.Edges[i]), name(sp.Edges[i])) {
				return false
			}
		}
		return true
	}
	if ok1 != ok2 {
		return false
	}
	return okPair(name(lf), name(sf))
}

// c10FlowsToSamePrint: the results of a and b end up in the same variadic print call.
func c10FlowsToSamePrint(a, b *ssa.Call) bool {
	target := func(v ssa.Value) ssa.Value {
		seen := map[ssa.Value]bool{}
		var out ssa.Value
		var rec func(v ssa.Value)
		rec = func(v ssa.Value) {
			if out != nil || v == nil || seen[v] || v.Referrers() == nil {
				return
			}
			seen[v] = true
			for _, rf := range *v.Referrers() {
				switch x := rf.(type) {
				case *ssa.MakeInterface:
					rec(x)
				case *ssa.ChangeInterface:
					rec(x)
				case *ssa.Store:
					if ia, ok := x.Addr.(*ssa.IndexAddr); ok && x.Val == v {
						out = ia.X
						return
					}
				case *ssa.Call:
					if x != a && x != b {
						rec(x)
					}
				}
			}
		}
		rec(v)
		return out
	}
	if a == b {
		return false
	}
	ta, tb := target(a), target(b)
	return ta != nil && ta == tb
}

// c10SubstAtoms replaces single-name atoms of p by polynomials.
func c10SubstAtoms(p *fw.Poly, sub map[string]*fw.Poly) *fw.Poly {
	out := fw.NewPoly()
	for m, c := range p.T {
		term := fw.NewPoly()
		term.T[""] = c
		if m != "" {
			for _, a := range splitMonoC10(m) {
				if s, ok := sub[a]; ok {
					term = term.Mul(s)
				} else {
					term = term.Mul(fw.PAtom(a))
				}
			}
		}
		out = out.Add(term)
	}
	return out
}

// c10RenameLocal maps "local:x..." (captured variable seen in its declaring function) and the
// free-variable spelling "x" to one name so that a closure and its parent can be compared.
func c10RenameLocal(p *fw.Poly) *fw.Poly {
	out := fw.NewPoly()
	for m, c := range p.T {
		term := fw.NewPoly()
		term.T[""] = c
		if m != "" {
			for _, a := range splitMonoC10(m) {
				a = strings.TrimPrefix(a, "local:")
				if i := strings.Index(a, "#after-store"); i >= 0 {
					a = a[:i]
				}
				term = term.Mul(fw.PAtom(a))
			}
		}
		out = out.Add(term)
	}
	return out
}

// c10SingleCoef returns k when p == k*atom for one atom, else 0.
func c10SingleCoef(p *fw.Poly) int64 {
	if len(p.T) != 1 {
		return 0
	}
	for m, c := range p.T {
		if m == "" || strings.Contains(m, "*") || !c.IsInt64() {
			return 0
		}
		return c.Int64()
	}
	return 0
}

// c10DumpHeader: the header row labels column i with PadFormatInt(i, Addrbase, false, 2) for i in 0..LineBytes-1.
func c10DumpHeader(ru *fw.Rule, p *fw.Program, dump *ssa.Function, env *fw.PolyEnv) {
	var hc *ssa.Call
	for _, c := range c10CallsTo(dump, c10PadInt) {
		if c.Parent() == dump && c10IsOptField(c.Call.Args[1], "Addrbase") && c10InLoop(c.Block()) {
			hc = c
		}
	}
	if hc == nil {
		ru.Undecided("header:labels", p.Rel(dump.Pos()), "no header label loop (PadFormatInt(i, Options.Addrbase, ..)) next to the column constructor")
		return
	}
	pos := p.Rel(hc.Pos())
	iv, _ := c10Strip(hc.Call.Args[0]).(*ssa.Phi)
	w, okW := c10ConstInt(hc.Call.Args[3])
	pfx, _ := c10ConstBool(hc.Call.Args[2])
	var L *fw.Poly
	init0, bounded := false, false
	if iv != nil {
		for _, e := range iv.Edges {
			if k, ok := c10ConstInt(e); ok && k == 0 {
				init0 = true
			} else if bo, ok := e.(*ssa.BinOp); ok && bo.Op == token.ADD && bo.X == ssa.Value(iv) && bo.Referrers() != nil {
				for _, rf := range *bo.Referrers() {
					if cm, ok := rf.(*ssa.BinOp); ok && cm.Op == token.LSS && cm.X == ssa.Value(bo) && c10IsOptField(cm.Y, "LineBytes") {
						bounded = true
						L = env.Of(cm.Y)
					}
				}
			}
		}
		if iv.Referrers() != nil {
			for _, rf := range *iv.Referrers() {
				if cm, ok := rf.(*ssa.BinOp); ok && cm.Op == token.LSS && cm.X == ssa.Value(iv) && c10IsOptField(cm.Y, "LineBytes") && c10InstrIndex(cm) == len(cm.Block().Instrs)-2 && cm.Block() == iv.Block() {
					bounded = true
					L = env.Of(cm.Y)
				}
			}
		}
	}
	ru.Check(iv != nil && init0 && bounded && okW && w == 2 && !pfx, "header:labels", pos, "header labels are PadFormatInt(i, Addrbase, no prefix, 2) for i = 0..LineBytes-1",
		"header labels are not the column indices 0..LineBytes-1 zero-padded to the hex pair width 2 without prefix")
	if iv == nil || L == nil {
		return
	}
	// the label must be exactly one cell (2 characters) wide: PadFormatInt only pads, so either the
	// label is cut to its last 2 characters or LineBytes <= Addrbase^2 is established
	// tailOf: v is x[len(x)-k:] ; returns x
	tailOf := func(v ssa.Value, k int64) ssa.Value {
		sl, ok := v.(*ssa.Slice)
		if !ok || sl.High != nil || sl.Low == nil {
			return nil
		}
		sub, ok := sl.Low.(*ssa.BinOp)
		if !ok || sub.Op != token.SUB {
			return nil
		}
		if c, ok := c10ConstInt(sub.Y); !ok || c != k {
			return nil
		}
		ln, ok := sub.X.(*ssa.Call)
		if !ok || !fw.IsBuiltinCall(ln, "len") || ln.Call.Args[0] != sl.X {
			return nil
		}
		return sl.X
	}
	appended := func(v ssa.Value) bool { // v is the right operand of a string concatenation
		if v.Referrers() == nil {
			return false
		}
		for _, rf := range *v.Referrers() {
			if bo, ok := rf.(*ssa.BinOp); ok && bo.Op == token.ADD && bo.Y == v {
				return true
			}
		}
		return false
	}
	// the hex label: the PadFormatInt result itself, or its last two characters
	var hexOp ssa.Value
	if appended(hc) {
		hexOp = hc
	} else if hc.Referrers() != nil {
		for _, rf := range *hc.Referrers() {
			if sl, ok := rf.(*ssa.Slice); ok && tailOf(sl, w) == ssa.Value(hc) && appended(sl) {
				hexOp = sl
			}
		}
	}
	// the ascii label: the last character of the hex label. The label is a suffix of the
	// PadFormatInt result, so the last character of either is the same character.
	var asciiOp ssa.Value
	fw.EachInstr(dump, func(ins ssa.Instruction) {
		sl, ok := ins.(*ssa.Slice)
		if !ok || !appended(sl) {
			return
		}
		if x := tailOf(sl, 1); x != nil && hexOp != nil && (x == hexOp || x == ssa.Value(hc)) {
			asciiOp = sl
		}
	})
	exact := false
	if _, isSlice := hexOp.(*ssa.Slice); isSlice {
		exact = true
	}
	base := env.Of(hc.Call.Args[1])
	if c10Holds(env, hc.Block(), fw.Cmp{P: L.Sub(base.Mul(base)), Rel: fw.LE}) {
		exact = true
	}
	ru.Check(hexOp != nil && exact, "header:label-width", pos, "each hex header label is exactly one cell wide",
		"a header label is PadFormatInt(i, Addrbase, false, 2), at least but not at most 2 characters: for LineBytes > Addrbase^2 (e.g. addrbase 2, line_bytes > 4) labels of 3+ digits shift all following labels right and the row is cut at the column width, so bytes stand under wrong column labels")
	ru.Check(asciiOp != nil, "header:ascii", pos, "the ascii header label is the last digit of the hex label", "the ascii header is not the last character of each column label")
	// separator between labels exactly while i < LineBytes-1
	sepOK := false
	fw.EachInstr(dump, func(ins ssa.Instruction) {
		bo, ok := ins.(*ssa.BinOp)
		if !ok || bo.Op != token.ADD {
			return
		}
		if s, ok := c10ConstStr(bo.Y); ok && s == " " && hc.Block().Dominates(bo.Block()) {
			if c10Exact(env, bo.Block(), fw.Cmp{P: env.Of(iv).Sub(L).Add(fw.PConst(1)), Rel: fw.LT}) {
				sepOK = true
			}
		}
	})
	ru.Check(sepOK, "header:sep", pos, "labels are separated by one blank except after the last", "header labels are not separated by exactly one blank while i < LineBytes-1: the header is shifted against the hex cells")
}

// c10HexdumpRoot: hexdump of a binary builds a decode.Value whose Range and RootReader are the
// range and the reader of the same Binary (addresses are positions in that reader).
func c10HexdumpRoot(ru *fw.Rule, p *fw.Program) {
	bin := p.NamedType("pkg/interp", "Binary")
	val := p.NamedType("pkg/decode", "Value")
	if bin == nil || val == nil {
		ru.Undecided("hexdump:root", "", "interp.Binary or decode.Value not found")
		return
	}
	n := 0
	for _, fn := range p.FqFunctions() {
		if pkgRel(fn) != "pkg/interp" {
			continue
		}
		// a function with a Binary parameter that stores a decode.Value literal's Range/RootReader
		var binParam ssa.Value
		for _, prm := range fn.Params {
			if types.Identical(prm.Type(), bin) {
				binParam = prm
			}
		}
		if binParam == nil {
			continue
		}
		src := map[string]ssa.Value{}
		fw.EachInstr(fn, func(ins ssa.Instruction) {
			st, ok := ins.(*ssa.Store)
			if !ok {
				return
			}
			fa, ok := st.Addr.(*ssa.FieldAddr)
			if !ok {
				return
			}
			pt, ok := fa.X.Type().Underlying().(*types.Pointer)
			if !ok || !types.Identical(pt.Elem(), val) {
				return
			}
			f := fieldNameOf(fa.X.Type(), fa.Field)
			if f == "Range" || f == "RootReader" {
				src[f] = st.Val
			}
		})
		if len(src) == 0 {
			continue
		}
		n++
		fromBin := func(v ssa.Value) bool {
			nt, _, base, ok := c10FieldLoad(v)
			if !ok || nt == nil || !types.Identical(nt, bin) {
				return false
			}
			// the spilled copy of the Binary parameter
			if al, ok := base.(*ssa.Alloc); ok && al.Referrers() != nil {
				for _, rf := range *al.Referrers() {
					if st, ok := rf.(*ssa.Store); ok && st.Addr == ssa.Value(al) && st.Val == binParam {
						return true
					}
				}
			}
			return base == binParam
		}
		ru.Check(src["Range"] != nil && src["RootReader"] != nil && fromBin(src["Range"]) && fromBin(src["RootReader"]), "hexdump:root:"+fw.ShortFn(fn), p.Rel(fn.Pos()),
			"the dumped value's Range and RootReader are the range and reader of the one Binary", "a binary is dumped with a Range and a RootReader that are not the range and reader of the same Binary: addresses and bytes refer to different buffers")
	}
	if n == 0 {
		ru.Undecided("hexdump:root", "", "no function in pkg/interp builds a decode.Value from a Binary for dumping")
	}
}
