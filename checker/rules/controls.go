package rules

import (
	"fmt"
	"os"
	"path/filepath"
	"strings"
)

// Control is a positive control: a seeded source edit (applied in memory through the
// loader's overlay) that must make the named rule fire.
type Control struct {
	ID        string
	Prop      string
	Rule      string
	File      string // repo-relative
	Old, New  string // unique snippet and replacement
	ExpectKey string // substring expected in the violation key or message
}

var controls []Control

func AddControl(c Control) { controls = append(controls, c) }

func ControlsFor(prop string) []Control {
	var out []Control
	for _, c := range controls {
		if c.Prop == prop {
			out = append(out, c)
		}
	}
	return out
}

// Overlay builds the overlay map; skipped != "" when the snippet is absent (tree was edited).
func (c Control) Overlay(repo string) (map[string][]byte, string, error) {
	path := filepath.Join(repo, c.File)
	if filepath.IsAbs(c.File) {
		path = c.File
	}
	b, err := os.ReadFile(path)
	if err != nil {
		return nil, "file missing: " + c.File, nil
	}
	s := string(b)
	n := strings.Count(s, c.Old)
	if n == 0 {
		return nil, "snippet not present in " + c.File, nil
	}
	if n > 1 {
		return nil, "", fmt.Errorf("control %s: snippet occurs %d times in %s", c.ID, n, c.File)
	}
	return map[string][]byte{path: []byte(strings.Replace(s, c.Old, c.New, 1))}, "", nil
}
