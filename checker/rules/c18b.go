package rules

import (
	"fmt"
	"go/token"
	"go/types"
	"sort"
	"strings"

	"fqverif/fw"

	"golang.org/x/tools/go/ssa"
)

// ---------------------------------------------------------------------------
// C18.lazy: package-level tables completed lazily under a sync.Once are complete before any reader runs
//
// Rule template: a global G written inside a closure handed to (*sync.Once).Do is "lazily completed".
// Establishing call sites are the Do call and, transitively, calls of functions all of whose returns
// are dominated by an establishing site (wrappers). Every function that reads G must be unreachable
// from the decode entry points once the call edges leaving establishing functions AFTER their
// establishing site are removed: then every run of a reader has the Once body completed before it.
// Otherwise the first decode of the process sees the incomplete table and later ones the complete
// one (history dependence) and the read races with the Once body.

func c18Lazy(r *fw.Run, p *fw.Program) {
	ru := r.Rule("C18.lazy", "a package-level table completed inside a sync.Once closure is read only by code that runs after the Once: every reader is reachable from the decode entry points / main only through a call made after (dominated by) the Once.Do call, and the establishing function itself does not read it earlier", 2)
	type lazy struct {
		body  *ssa.Function
		sites []ssa.CallInstruction
	}
	var lz []*lazy
	for _, fn := range p.FqFunctions() {
		for _, c := range fw.CallsIn(fn) {
			cal := c.Common().StaticCallee()
			if cal == nil || cal.String() != "(*sync.Once).Do" || len(c.Common().Args) != 2 {
				continue
			}
			var body *ssa.Function
			switch a := c.Common().Args[1].(type) {
			case *ssa.MakeClosure:
				body, _ = a.Fn.(*ssa.Function)
			case *ssa.Function:
				body = a
			}
			if body == nil {
				ru.Undecided("do:"+fw.ShortFn(fn), p.Rel(c.Pos()), "function value passed to Once.Do is not a literal closure or named function")
				continue
			}
			lz = append(lz, &lazy{body: body, sites: []ssa.CallInstruction{c}})
		}
	}
	if len(lz) == 0 {
		return
	}
	roots, _ := DecodeRoots(p)
	if m := p.Fn("main.main"); m != nil {
		roots = append(roots, m)
	}
	if len(roots) < 50 {
		ru.Undecided("anchor:roots", "", "fewer than 50 decode entry points found")
		return
	}
	cg := p.CallGraph()
	for _, l := range lz {
		// globals written by the body (incl. its own closures)
		written := map[*ssa.Global]bool{}
		for _, f := range fw.WithClosures(l.body) {
			fw.EachInstr(f, func(ins ssa.Instruction) {
				var addr ssa.Value
				switch x := ins.(type) {
				case *ssa.Store:
					addr = x.Addr
				case *ssa.MapUpdate:
					addr = x.Map
				default:
					return
				}
				for _, root := range memRoots(addr) {
					if g, ok := root.(*ssa.Global); ok && fw.FnPkgPath(l.body) != "" && g.Pkg != nil && g.Pkg.Pkg.Path() == l.body.Pkg.Pkg.Path() {
						written[g] = true
					}
				}
			})
		}
		if len(written) == 0 {
			continue // fields of an object (Registry): decided by C18.once
		}
		// establishing sites: Do call + calls of wrapper functions (fixpoint)
		estab := map[ssa.CallInstruction]bool{}
		for _, s := range l.sites {
			estab[s] = true
		}
		establishes := map[*ssa.Function]bool{}
		for changed := true; changed; {
			changed = false
			byFn := map[*ssa.Function][]ssa.CallInstruction{}
			for s := range estab {
				byFn[s.Parent()] = append(byFn[s.Parent()], s)
			}
			for f, ss := range byFn {
				if establishes[f] || f.Parent() != nil {
					continue
				}
				all := true
				fw.EachInstr(f, func(ins ssa.Instruction) {
					if ret, ok := ins.(*ssa.Return); ok {
						dom := false
						for _, s := range ss {
							if precedesOnAllPaths(s, ret) {
								dom = true
							}
						}
						if !dom {
							all = false
						}
					}
				})
				if !all {
					continue
				}
				establishes[f] = true
				changed = true
				if n := cg.Nodes[f]; n != nil {
					for _, e := range n.In {
						if e.Site != nil && fw.InFq(e.Caller.Func) && e.Site.Common().StaticCallee() == f {
							estab[e.Site] = true
						}
					}
				}
			}
		}
		sitesIn := map[*ssa.Function][]ssa.CallInstruction{}
		for s := range estab {
			sitesIn[s.Parent()] = append(sitesIn[s.Parent()], s)
		}
		after := func(ins ssa.Instruction) bool {
			for _, s := range sitesIn[ins.Parent()] {
				if s != ins && precedesOnAllPaths(s, ins) {
					return true
				}
			}
			return false
		}
		// reachability without the edges that leave an establishing function after its site
		reach := map[*ssa.Function]bool{}
		var stack []*ssa.Function
		push := func(f *ssa.Function) {
			if f != nil && !reach[f] && f != l.body {
				reach[f] = true
				stack = append(stack, f)
			}
		}
		// entry points into the table's package: its registered decode functions, its exported API, main
		// (the table is unexported, so every reader lives in this package; starting from other packages'
		// decoders would only add the call graph's context-insensitive merging of decode callbacks)
		for _, f := range roots {
			if f.Pkg != nil && f.Pkg.Pkg.Path() == l.body.Pkg.Pkg.Path() {
				push(f)
			}
		}
		for _, f := range p.FqFunctions() {
			if f.Pkg != nil && f.Pkg.Pkg.Path() == l.body.Pkg.Pkg.Path() && f.Parent() == nil && f.Object() != nil && f.Object().Exported() && f.Synthetic == "" {
				push(f)
			}
		}
		for len(stack) > 0 {
			f := stack[len(stack)-1]
			stack = stack[:len(stack)-1]
			// closures made by f: reachable with f unless made after the establishing site
			fw.EachInstr(f, func(ins ssa.Instruction) {
				if mc, ok := ins.(*ssa.MakeClosure); ok && !after(mc) {
					if cf, ok := mc.Fn.(*ssa.Function); ok {
						push(cf)
					}
				}
			})
			n := cg.Nodes[f]
			if n == nil {
				continue
			}
			for _, e := range n.Out {
				if e.Site != nil && (estab[e.Site] || after(e.Site)) {
					continue
				}
				push(e.Callee.Func)
			}
		}
		var gs []*ssa.Global
		for g := range written {
			gs = append(gs, g)
		}
		sort.Slice(gs, func(i, j int) bool { return gs[i].Name() < gs[j].Name() })
		for _, g := range gs {
			gname := pkgRel(l.body) + "." + g.Name()
			nread := 0
			for _, fn := range p.FqFunctions() {
				if fn.Pkg == nil || fn.Pkg.Pkg.Path() != g.Pkg.Pkg.Path() {
					continue // unexported tables; exported ones would need all packages
				}
				if fw.Top(fn) == fw.Top(l.body) && (fn == l.body || fn.Parent() == l.body) {
					continue
				}
				if fn.Name() == "init" || fn.Synthetic != "" {
					continue
				}
				var firstRef ssa.Instruction
				earlyRef := false
				fw.EachInstr(fn, func(ins ssa.Instruction) {
					for _, op := range ins.Operands(nil) {
						if *op == ssa.Value(g) {
							if firstRef == nil {
								firstRef = ins
							}
							if len(sitesIn[fn]) > 0 && !after(ins) {
								earlyRef = true
							}
						}
					}
				})
				if firstRef == nil {
					continue
				}
				nread++
				key := gname + "|reader:" + fw.ShortFn(fn)
				switch {
				case len(sitesIn[fn]) > 0:
					ru.Check(!earlyRef, key, p.Rel(firstRef.Pos()), "reads the table only after its own Once.Do call", "reads "+gname+" before the Once.Do that completes it")
				case reach[fn]:
					ru.Fail(key, p.Rel(firstRef.Pos()), "reads "+gname+", which is completed lazily under a sync.Once, but is reachable from a decode entry point without passing the Once.Do call first: the first decode in a process sees the incomplete table (result depends on process history; unsynchronised read races with the Once body)")
				default:
					ru.Ok(key, p.Rel(firstRef.Pos()), "only reachable through calls made after the Once.Do call")
				}
			}
			if g.Object() != nil && g.Object().Exported() {
				ru.Undecided(gname+"|exported", p.Rel(g.Pos()), "lazily completed table is exported: readers in other packages are not enumerated")
			}
			if nread == 0 {
				ru.Ok(gname+"|no-readers", p.Rel(g.Pos()), "no reader outside the Once body")
			}
		}
	}
}

// ---------------------------------------------------------------------------
// C18.cachekey: per-interpreter memo tables are stored and looked up under the same key

func c18CacheKey(r *fw.Run, p *fw.Program) {
	ru := r.Rule("C18.cachekey", "the map-typed memo fields of interp.Interp / interp.EvalInstance (parsed-include cache, include-seen set) are looked up and stored under the same key value within the loader (inline or through one-line getter/setter helpers): a module cached under one name is never served for a different name", 2)
	for _, fn := range p.FqFunctions() {
		if pkgRel(fn) != "pkg/interp" {
			continue
		}
		uses := map[string][]c18MemoEvent{}
		for _, ev := range c18MemoEvents(p, fn) {
			uses[ev.field] = append(uses[ev.field], ev)
		}
		for _, f := range fw.SortedKeys(uses) {
			us := uses[f]
			hasL, hasS := false, false
			for _, u := range us {
				if u.store {
					hasS = true
				} else {
					hasL = true
				}
			}
			if !hasL || !hasS {
				continue
			}
			same := true
			for _, u := range us[1:] {
				if c18Cell(c18StripConv(u.key), 0) != c18Cell(c18StripConv(us[0].key), 0) {
					same = false
				}
			}
			ru.Check(same, f+"|"+fw.ShortFn(fn), p.Rel(us[0].ins.Pos()), "every lookup and store uses the same key value",
				"memo table "+f+" is stored under a different key than it is looked up with: an entry is served for another name (results depend on what earlier evaluations loaded)")
		}
	}
}

func c18StripConv(v ssa.Value) ssa.Value {
	for {
		switch x := v.(type) {
		case *ssa.ChangeType:
			v = x.X
		case *ssa.Convert:
			v = x.X
		default:
			return v
		}
	}
}

// ---------------------------------------------------------------------------
// C18.shared: registered format descriptors are immutable once decoding can start
//
// decode.Format, decode.Group and decode.Dependency objects are created at package initialisation,
// registered once and then shared by every decode of the process. Rule: a store into a field of one of
// these types (or into an element of their slice fields) happens only in package initialisation, in the
// registry's registration method, inside the resolve Once closure, or on an object freshly created in
// the same function (composite literal / new).

func c18Shared(r *fw.Run, p *fw.Program) {
	ru := r.Rule("C18.shared", "fields of the process-wide format descriptors (decode.Format, decode.Group, decode.Dependency) are written (store, element store, in-place sort/reverse/copy of their slices) only during package initialisation, by Registry.Format (which refuses after resolution), inside the resolve sync.Once closure, or on an object created in the same function: no decode mutates a descriptor other decodes share", 200)
	isDesc := func(t types.Type) string {
		pt, ok := t.Underlying().(*types.Pointer)
		if !ok {
			return ""
		}
		n, ok := pt.Elem().(*types.Named)
		if !ok || n.Obj().Pkg() == nil || n.Obj().Pkg().Path() != fw.Mod+"/pkg/decode" {
			return ""
		}
		switch n.Obj().Name() {
		case "Format", "Group", "Dependency":
			return n.Obj().Name()
		}
		return ""
	}
	// base object of an address: through field / index addressing and loads of slice fields
	var descBase func(a ssa.Value, depth int) (ssa.Value, string, string)
	descBase = func(a ssa.Value, depth int) (ssa.Value, string, string) {
		if depth > 6 {
			return nil, "", ""
		}
		switch x := a.(type) {
		case *ssa.FieldAddr:
			if d := isDesc(x.X.Type()); d != "" {
				return x.X, d, fieldNameOf(x.X.Type(), x.Field)
			}
			return descBase(x.X, depth+1)
		case *ssa.IndexAddr:
			// element of a slice loaded from a descriptor field
			if u, ok := x.X.(*ssa.UnOp); ok {
				if fa, ok := u.X.(*ssa.FieldAddr); ok {
					if d := isDesc(fa.X.Type()); d != "" {
						return fa.X, d, fieldNameOf(fa.X.Type(), fa.Field) + "[i]"
					}
				}
			}
			return descBase(x.X, depth+1)
		case *ssa.UnOp:
			// a slice / map value loaded from a descriptor field, written in place
			if x.Op == token.MUL {
				if fa, ok := x.X.(*ssa.FieldAddr); ok {
					if d := isDesc(fa.X.Type()); d != "" {
						return fa.X, d, fieldNameOf(fa.X.Type(), fa.Field) + "[*]"
					}
				}
			}
		case *ssa.Slice:
			return descBase(x.X, depth+1)
		}
		return nil, "", ""
	}
	fresh := func(v ssa.Value) bool {
		for i := 0; i < 6; i++ {
			switch x := v.(type) {
			case *ssa.Alloc:
				return true
			case *ssa.Phi:
				for _, e := range x.Edges {
					if _, ok := e.(*ssa.Alloc); !ok {
						return false
					}
				}
				return true
			default:
				return false
			}
		}
		return false
	}
	ord := map[string]int{}
	summ := mutationSummaries(p)
	initOnly := initOnlyFunctions(p)
	allowedCtx := func(f *ssa.Function) bool {
		top := fw.Top(f)
		return top.Name() == "init" || strings.HasPrefix(top.Name(), "init#") || insideOnceDo(f) || fw.ShortFn(top) == "(*pkg/interp.Registry).Format" || initOnly[top] && f.Parent() == nil
	}
	for _, fn := range p.FqFunctions() {
		if fn.TypeParams().Len() > 0 && len(fn.TypeArgs()) == 0 {
			continue
		}
		for _, w := range writesIn(fn, summ) {
			st := w.ins
			base, typ, field := descBase(w.target, 0)
			if base == nil {
				continue
			}
			if fresh(base) {
				continue
			}
			top := fw.Top(fn)
			k := fw.ShortFn(fn) + "|" + typ + "." + field
			ord[k]++
			key := fmt.Sprintf("%s#%d", k, ord[k])
			switch {
			case top.Name() == "init" || strings.HasPrefix(top.Name(), "init#") || top.Synthetic != "" && strings.HasPrefix(top.Name(), "init"):
				ru.Ok(key, p.Rel(st.Pos()), "package initialisation")
			case insideOnceDo(fn):
				ru.Ok(key, p.Rel(st.Pos()), "inside the resolve sync.Once closure")
			case fw.ShortFn(top) == "(*pkg/interp.Registry).Format":
				ru.Ok(key, p.Rel(st.Pos()), "registration (refuses once groups are resolved: C18.once)")
			case initOnly[top] && fn.Parent() == nil:
				ru.Ok(key, p.Rel(st.Pos()), "registrar reachable only from package init functions (who-may-call checked)")
			case fn.Parent() == nil && c18OnlyCalledFrom(p, fn, allowedCtx, 0):
				ru.Ok(key, p.Rel(st.Pos()), "helper whose every caller is package initialisation, Registry.Format or the resolve sync.Once closure (who-may-call checked, never used as a value)")
			default:
				ru.Fail(key, p.Rel(st.Pos()), w.what+": writes "+typ+"."+field+" of a registered format descriptor outside initialisation/registration: the descriptor is shared by every decode of the process, so one decode changes (and races with) another")
			}
		}
	}
}

// ---------------------------------------------------------------------------
// C18.stateful: no package-level object of a stateful, not goroutine-safe library type
//
// Rule template: library types whose methods mutate the receiver and that are documented as not safe for
// concurrent use (text decoders/encoders and transformers, hashes, buffers, buffered and compressed readers,
// random sources, cipher streams, csv/json stream codecs) must be created per decode. A package-level variable
// (directly, or as element / field of a container reachable from it) of such a type is shared by every decode of
// the process: results depend on what other decodes did to it and concurrent decodes race.

var c18StatefulTypes = map[string]string{
	"golang.org/x/text/encoding.Decoder":    "stateful text decoder (e.g. remembers the UTF-16 byte order mark)",
	"golang.org/x/text/encoding.Encoder":    "stateful text encoder",
	"golang.org/x/text/transform.Reader":    "stateful transforming reader",
	"golang.org/x/text/transform.Writer":    "stateful transforming writer",
	"bytes.Buffer":                          "mutable buffer",
	"strings.Builder":                       "mutable builder",
	"bufio.Reader":                          "buffered reader with a cursor",
	"bufio.Writer":                          "buffered writer",
	"bufio.Scanner":                         "scanner with a cursor",
	"math/rand.Rand":                        "random source (not goroutine-safe)",
	"encoding/csv.Reader":                   "stream reader with a cursor",
	"encoding/csv.Writer":                   "stream writer",
	"encoding/json.Decoder":                 "stream decoder with a cursor",
	"encoding/json.Encoder":                 "stream encoder",
	"encoding/xml.Decoder":                  "stream decoder with a cursor",
	"encoding/xml.Encoder":                  "stream encoder",
	"compress/flate.Writer":                 "compressor state",
	"compress/gzip.Reader":                  "decompressor state",
	"compress/gzip.Writer":                  "compressor state",
	"compress/zlib.Writer":                  "compressor state",
	"github.com/wader/fq/pkg/bitio.Buffer":  "bit buffer with cursors",
	"github.com/wader/fq/pkg/decode.D":      "decoder state of one decode",
	"github.com/wader/fq/pkg/decode.Value":  "node of one decode tree",
	"github.com/wader/fq/pkg/interp.Interp": "interpreter state",
}

// stateful interfaces: a package-level variable of these interface types holds a stateful object
var c18StatefulIfaces = map[string]string{
	"hash.Hash":               "running hash state",
	"hash.Hash32":             "running hash state",
	"hash.Hash64":             "running hash state",
	"crypto/cipher.Stream":    "key stream position",
	"crypto/cipher.BlockMode": "chaining state",
	"golang.org/x/text/transform.Transformer": "stateful transformer",
	"io.Reader":     "reader with a cursor",
	"io.ReadSeeker": "reader with a cursor",
	"io.Writer":     "writer",
}

func c18Stateful(r *fw.Run, p *fw.Program) {
	ru := r.Rule("C18.stateful", "no package-level variable of the fq module is, contains (map/slice/array element, pointer target, struct field of an fq type; depth 4) or is an interface holding a stateful library object that is not safe to share: text decoders/encoders, transformers, hashes, buffers, buffered/compressed/stream readers and writers, random sources, cipher streams, decoder/interpreter state; such objects are created per decode", 800)
	var find func(t types.Type, depth int, seen map[types.Type]bool) string
	find = func(t types.Type, depth int, seen map[types.Type]bool) string {
		if depth > 4 || seen[t] {
			return ""
		}
		seen[t] = true
		if n, ok := t.(*types.Named); ok && n.Obj().Pkg() != nil {
			full := n.Obj().Pkg().Path() + "." + n.Obj().Name()
			if o := n.Origin(); o != nil && o.Obj().Pkg() != nil {
				full = o.Obj().Pkg().Path() + "." + o.Obj().Name()
			}
			if why, ok := c18StatefulTypes[full]; ok {
				return full + " (" + why + ")"
			}
			if _, isI := n.Underlying().(*types.Interface); isI {
				if why, ok := c18StatefulIfaces[full]; ok {
					return full + " (" + why + ")"
				}
				return ""
			}
			if !strings.HasPrefix(n.Obj().Pkg().Path(), fw.Mod) {
				// other library types: only look at pointers/containers of the denylisted ones directly
				switch u := n.Underlying().(type) {
				case *types.Struct:
					_ = u
					return ""
				}
			}
		}
		switch u := t.Underlying().(type) {
		case *types.Pointer:
			return find(u.Elem(), depth+1, seen)
		case *types.Slice:
			return find(u.Elem(), depth+1, seen)
		case *types.Array:
			return find(u.Elem(), depth+1, seen)
		case *types.Map:
			if s := find(u.Key(), depth+1, seen); s != "" {
				return s
			}
			return find(u.Elem(), depth+1, seen)
		case *types.Struct:
			for i := 0; i < u.NumFields(); i++ {
				if s := find(u.Field(i).Type(), depth+1, seen); s != "" {
					return "field " + u.Field(i).Name() + ": " + s
				}
			}
		}
		return ""
	}
	for _, pk := range p.SSA.AllPackages() {
		if !strings.HasPrefix(pk.Pkg.Path(), fw.Mod) {
			continue
		}
		var names []string
		for name, m := range pk.Members {
			if _, ok := m.(*ssa.Global); ok && !strings.HasPrefix(name, "init$") {
				names = append(names, name)
			}
		}
		sort.Strings(names)
		for _, name := range names {
			g := pk.Members[name].(*ssa.Global)
			rel := strings.TrimPrefix(strings.TrimPrefix(pk.Pkg.Path(), fw.Mod), "/")
			key := rel + "." + name
			t := g.Type().(*types.Pointer).Elem()
			if s := find(t, 0, map[types.Type]bool{}); s != "" {
				if reason, ok := c18StatefulExceptions[key]; ok {
					ru.Except(key, p.Rel(g.Pos()), reason)
					continue
				}
				ru.Fail(key, p.Rel(g.Pos()), "package-level variable holds "+s+": it is shared by every decode of the process (results depend on earlier decodes, concurrent decodes race); create it per decode")
			} else {
				ru.Ok(key, p.Rel(g.Pos()), "no stateful library object")
			}
		}
	}
}

var c18StatefulExceptions = map[string]string{}

// ---------------------------------------------------------------------------
// C18.mapper: scalar mappers are read-only on themselves
//
// Value mappers (scalar.UintMapSymStr, UintRangeToScalar, ... and decoder-defined ones) live in package-level
// tables and are handed to the field readers through the scalar.*Mapper interfaces, so every decode of the
// process calls Map* on the same object. Rule: no Map* method of an fq mapper type writes through its receiver
// (directly or through callees; interprocedural summaries).

func c18Mapper(r *fw.Run, p *fw.Program) {
	ru := r.Rule("C18.mapper", "no Map* method of a scalar mapper type (the implementations of the scalar.*Mapper interfaces, shared through package-level tables) writes through its receiver - map, slice, pointer or struct holding them - directly or through callees: mapping a value never changes the shared table", 40)
	// mapper interfaces: scalar.<Kind>Mapper
	var ifaces []*types.Interface
	if pk := p.Pkg("pkg/scalar"); pk != nil && pk.Types != nil {
		sc := pk.Types.Scope()
		for _, n := range sc.Names() {
			if strings.HasSuffix(n, "Mapper") {
				if i, ok := sc.Lookup(n).Type().Underlying().(*types.Interface); ok {
					ifaces = append(ifaces, i)
				}
			}
		}
	}
	if len(ifaces) < 5 {
		ru.Undecided("anchor:mappers", "", "scalar.*Mapper interfaces not found")
		return
	}
	summ := mutationSummaries(p)
	for _, fn := range p.FqFunctions() {
		if fn.Signature.Recv() == nil || !strings.HasPrefix(fn.Name(), "Map") || len(fn.Params) == 0 {
			continue
		}
		rt := fn.Signature.Recv().Type()
		impl := false
		for _, i := range ifaces {
			if types.Implements(rt, i) {
				impl = true
			}
		}
		if !impl {
			continue
		}
		key := fw.ShortFn(fn)
		if summ[fn][0] && !c18TypeInGlobals(p, rt) && pkgRel(fn) != "pkg/scalar" {
			ru.Ok(key, p.Rel(fn.Pos()), "keeps state in its receiver, but no package-level variable holds a value of this type: created per decode")
			continue
		}
		if summ[fn][0] {
			where := ""
			for _, w := range writesIn(fn, summ) {
				if c18HasRoot(w.target, fn.Params[0]) {
					where = w.what + " at " + p.Rel(w.ins.Pos())
					break
				}
			}
			ru.Fail(key, p.Rel(fn.Pos()), "writes through its receiver ("+where+"): mappers are shared package-level tables, so one decode changes what every other decode maps (and concurrent decodes race)")
		} else {
			ru.Ok(key, p.Rel(fn.Pos()), "does not write through its receiver")
		}
	}
}

// c18TypeInGlobals: some package-level variable of the fq module is of type t / *t or contains it (depth 4).
func c18TypeInGlobals(p *fw.Program, t types.Type) bool {
	if pt, ok := t.(*types.Pointer); ok {
		t = pt.Elem()
	}
	var has func(x types.Type, depth int, seen map[types.Type]bool) bool
	has = func(x types.Type, depth int, seen map[types.Type]bool) bool {
		if depth > 4 || seen[x] {
			return false
		}
		seen[x] = true
		if types.Identical(x, t) {
			return true
		}
		switch u := x.Underlying().(type) {
		case *types.Pointer:
			return has(u.Elem(), depth+1, seen)
		case *types.Slice:
			return has(u.Elem(), depth+1, seen)
		case *types.Array:
			return has(u.Elem(), depth+1, seen)
		case *types.Map:
			return has(u.Key(), depth+1, seen) || has(u.Elem(), depth+1, seen)
		case *types.Struct:
			for i := 0; i < u.NumFields(); i++ {
				if has(u.Field(i).Type(), depth+1, seen) {
					return true
				}
			}
		}
		return false
	}
	for _, pk := range p.SSA.AllPackages() {
		if !strings.HasPrefix(pk.Pkg.Path(), fw.Mod) {
			continue
		}
		for _, m := range pk.Members {
			if g, ok := m.(*ssa.Global); ok {
				if has(g.Type().(*types.Pointer).Elem(), 0, map[types.Type]bool{}) {
					return true
				}
			}
		}
	}
	return false
}

// c18OnlyCalledFrom: fn is never used as a value and every static call site lies in a function accepted by ok
// (or in another such helper, up to three levels).
func c18OnlyCalledFrom(p *fw.Program, fn *ssa.Function, ok func(*ssa.Function) bool, depth int) bool {
	sites := c18CallSites(p)[fn]
	if len(sites) == 0 || depth > 3 {
		return false
	}
	for _, s := range sites {
		if s == nil {
			return false
		}
		caller := s.Parent()
		if ok(caller) {
			continue
		}
		if caller.Parent() == nil && caller != fn && c18OnlyCalledFrom(p, caller, ok, depth+1) {
			continue
		}
		return false
	}
	return true
}
