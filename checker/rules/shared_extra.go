package rules

import (
	"strings"

	"fqverif/fw"
)

// rules shared across properties, attached without touching the property's own files
func init() {
	RegisterExtra("C14", func(r *fw.Run, p *fw.Program) { jqImmutAs(r, p, "C14.immut") })
	// values produced by fromjson / --argjson are gojqx wrappers: standard jq functions (has, keys, length, .[k], slices)
	// reach them through the JQValue methods, which must answer as the plain JSON value does (C08.iface)
	RegisterExtra("C07", func(r *fw.Run, p *fw.Program) {
		sc := r.Scratch()
		if f := Get("C08"); f != nil {
			f(sc, p)
			r.Import(sc, "C08.pure", "C07.wrappure", "standard functions applied to a fromjson / --argjson / JSON-input value (length, keys, has, index ...) only read it: no gojqx wrapper method writes through memory it did not allocate, math/big receivers are fresh (length of a negative big integer must not flip the number itself) (C08.pure obligations)", 100, nil)
			r.Import(sc, "C08.iface", "C07.wrappers", "the gojqx wrappers of JSON values (what fromjson, --argjson and decoded JSON hand to standard jq functions) answer length/index/slice/each/keys/has/key from one collection with the plain value's semantics (C08.iface obligations, without the recorded String.Index finding)", 25,
				func(k string) bool { return k != "String.Index:out-of-range" })
			// `.key` and tonumber on a fromjson / --argjson value
			r.Import(sc, "C08.fallback", "C07.wrapkeys", "`.key` on a wrapped JSON value (fromjson, json input) answers the value's own key exactly when the value has it - also when it holds null - and fq's extension keys only otherwise (C08.fallback obligations)", 2, nil)
			r.Import(sc, "C08.strnum", "C07.wrapnum", "tonumber of a wrapped JSON string accepts exactly the texts the engine's own number syntax accepts (C08.strnum obligation)", 1, nil)
		}
	})
	// named arguments: every --arg/--argjson/--rawfile/--decode-file entry becomes a variable of the program, whatever its value
	RegisterExtra("C17", func(r *fw.Run, p *fw.Program) {
		sc := r.Scratch()
		c07Eval(sc, p)
		r.Import(sc, "C07.eval", "C17.vars", "every named argument given on the command line is bound as a $variable of the program, a null value included: the variables loop of Interp.Eval binds every entry, names and values paired (C07.eval variables obligations)", 1,
			func(k string) bool { return strings.HasPrefix(k, "variables") })
	})
	// a program that fails under the reference engine fails under fq: whatever value the program raised (null and false
	// included) is recorded as a truthy error, so the run reports failure (C17.writes / C17.handlers obligations)
	RegisterExtra("C07", func(r *fw.Run, p *fw.Program) {
		sc := r.Scratch()
		if f := Get("C17"); f != nil {
			f(sc, p)
			r.Import(sc, "C17.writes", "C07.errexit", "every write of the three error memories of the CLI is a pre-evaluation reset or a truthy record: a program ending in error(null) / error(false) still makes fq fail as the reference engine does (C17.writes obligations)", 4, nil)
		}
	})
	// one evaluation must not change a value that later evaluations share (decode trees, jq arrays/objects)
	RegisterExtra("C18", func(r *fw.Run, p *fw.Program) {
		jqImmutAs(r, p, "C18.immut")
		// the interrupt stack is the one piece of state the evaluating goroutine shares with another goroutine
		sc20 := r.Scratch()
		if f := Get("C20"); f != nil {
			f(sc20, p)
			r.Import(sc20, "C20.lock", "C18.lock", "every access to the interrupt stack's mutable state, in every function, closure and helper, holds the Stack's mutex on all paths: no data race between an interrupt and evaluations starting or finishing (C20.lock obligations)", 15, nil)
		}
		sc := r.Scratch()
		if f := Get("C08"); f != nil {
			f(sc, p)
			r.Import(sc, "C08.kinds", "C18.lazyclone", "the lazy producers of a decode value's string/bytes read from a clone of the value's reader, never seek or read the value's own reader: its position is state every evaluation of the field shares (C08.kinds obligations)", 10, nil)
			r.Import(sc, "C08.pure", "C18.pure", "no JQValue method of fq's value wrappers writes through memory it did not allocate (math/big receivers are fresh): reading a decode value in one evaluation never changes what later evaluations see (C08.pure obligations)", 100, nil)
		}
	})
}
