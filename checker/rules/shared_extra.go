package rules

import "fqverif/fw"

// rules shared across properties, attached without touching the property's own files
func init() {
	RegisterExtra("C14", func(r *fw.Run, p *fw.Program) { jqImmutAs(r, p, "C14.immut") })
}
