package rules

import "fqverif/fw"

// rules shared across properties, attached without touching the property's own files
func init() {
	RegisterExtra("C14", func(r *fw.Run, p *fw.Program) { jqImmutAs(r, p, "C14.immut") })
	// values produced by fromjson / --argjson are gojqx wrappers: standard jq functions (has, keys, length, .[k], slices)
	// reach them through the JQValue methods, which must answer as the plain JSON value does (C08.iface)
	RegisterExtra("C07", func(r *fw.Run, p *fw.Program) {
		sc := r.Scratch()
		if f := Get("C08"); f != nil {
			f(sc, p)
			r.Import(sc, "C08.pure", "C07.wrappure", "standard functions applied to a fromjson / --argjson / JSON-input value (length, keys, has, index ...) only read it: no gojqx wrapper method writes through memory it did not allocate, math/big receivers are fresh (length of a negative big integer must not flip the number itself) (C08.pure obligations)", 100, nil)
			r.Import(sc, "C08.iface", "C07.wrappers", "the gojqx wrappers of JSON values (what fromjson, --argjson and decoded JSON hand to standard jq functions) answer length/index/slice/each/keys/has/key from one collection with the plain value's semantics (C08.iface obligations, without the recorded String.Index finding)", 25,
				func(k string) bool { return k != "String.Index:out-of-range" })
		}
	})
	// a program that fails under the reference engine fails under fq: whatever value the program raised (null and false
	// included) is recorded as a truthy error, so the run reports failure (C17.writes / C17.handlers obligations)
	RegisterExtra("C07", func(r *fw.Run, p *fw.Program) {
		sc := r.Scratch()
		if f := Get("C17"); f != nil {
			f(sc, p)
			r.Import(sc, "C17.writes", "C07.errexit", "every write of the three error memories of the CLI is a pre-evaluation reset or a truthy record: a program ending in error(null) / error(false) still makes fq fail as the reference engine does (C17.writes obligations)", 4, nil)
		}
	})
	// one evaluation must not change a value that later evaluations share (decode trees, jq arrays/objects)
	RegisterExtra("C18", func(r *fw.Run, p *fw.Program) {
		jqImmutAs(r, p, "C18.immut")
		// the interrupt stack is the one piece of state the evaluating goroutine shares with another goroutine
		sc20 := r.Scratch()
		if f := Get("C20"); f != nil {
			f(sc20, p)
			r.Import(sc20, "C20.lock", "C18.lock", "every access to the interrupt stack's mutable state, in every function, closure and helper, holds the Stack's mutex on all paths: no data race between an interrupt and evaluations starting or finishing (C20.lock obligations)", 15, nil)
		}
		sc := r.Scratch()
		if f := Get("C08"); f != nil {
			f(sc, p)
			r.Import(sc, "C08.pure", "C18.pure", "no JQValue method of fq's value wrappers writes through memory it did not allocate (math/big receivers are fresh): reading a decode value in one evaluation never changes what later evaluations see (C08.pure obligations)", 100, nil)
		}
	})
}
