package rules

import (
	"fmt"
	"go/token"
	"go/types"
	"sort"
	"strings"

	"golang.org/x/tools/go/ssa"

	"fqverif/fw"
)

// C12: paths and tree navigation are mutually consistent.
//
// Go side (this file): the extkey binding table, the root()/valuePath() walks, the resolvers
// (array index / struct key / each), the index bookkeeping of postProcess and the discipline of
// its call sites. jq side: c12_jq.go.

func init() { Register("C12", runC12) }

const (
	c12Value    = "(*pkg/decode.Value)"
	c12MDV      = "pkg/interp.makeDecodeValue"
	c12Compound = "as[*pkg/decode.Compound]"
)

func runC12(r *fw.Run, p *fw.Program) {
	r.Assumption("decode.(*Value).Walk visits every value of a buffer root exactly once (C03); gojq resolves getpath through JQValueIndex/JQValueKey")
	c12Keys(r, p)
	c12Roots(r, p)
	c12Path(r, p)
	c12Resolve(r, p)
	c12Index(r, p)
	c12Post(r, p)
	c12BufRoot(r, p)
	c12Name(r, p)
	c12JQ(r, p)
	// names are unique among struct siblings (else getpath(path) finds the first one): AddChild's duplicate test is fatal
	{
		sc := r.Scratch()
		runC03(sc, p)
		r.Import(sc, "C03.addchild", "C12.unique", "AddChild links the parent and refuses a duplicate struct field name with a no-return arm, keeping ByName and Children together: a path names at most one value (C03.addchild obligations); Value.Parent is written by AddChild only", 6, nil)
		c12ParentOwner(r.Rule("C12.unique", "", 0), p)
		// the name a child is filed under is the name valuePath reports; Remove takes out exactly the removed value and its own ByName entry
		r.Import(sc, "C03.byname", "C12.byname", "every ByName insert/delete is keyed by the Name of the very value inserted/removed and Remove filters Children by identity: .[name] of the remaining children still answers with the child reporting that name (C03.byname obligations)", 5, nil)
		// postProcess numbers children through Walk: it must reach every child of the start root, the start value itself, and call back after the children when asked to
		r.Import(sc, "C03.walk", "C12.walk", "Walk visits every element of Children from 0, calls Fn after the children unless PreOrder, skips under OneRoot exactly nested roots other than the start value, wrappers pass the constants of their names: postProcess's numbering reaches every compound of the root (C03.walk obligations)", 7, nil)
	}
	// a user field named like an extkey must not shadow navigation, and vice versa: layering helper decides every return
	c08KeyLayerAs(r, p, "C12.layer")
}

// c12KindValue returns the constant of interp.decodeValueValue as rendered by c12AP.
func c12KindValue(p *fw.Program) (string, bool) {
	pk := p.Pkg("pkg/interp")
	if pk == nil || pk.Types == nil {
		return "", false
	}
	c, ok := pk.Types.Scope().Lookup("decodeValueValue").(*types.Const)
	if !ok {
		return "", false
	}
	return c.Val().ExactString(), true
}

// ---------------------------------------------------------------------------
// C12.keys: binding table of the navigation extkeys

func c12Keys(r *fw.Run, p *fw.Program) {
	ru := r.Rule("C12.keys", "each navigation extkey arm of decodeValueBase.JQValueKey returns exactly the value of the same meaning: _root->Root(dv), _buffer_root->BufferRoot(dv), _format_root->FormatRoot(dv), _parent->dv.Parent (null at the top), _path->valuePath(dv), _name->dv.Name, _index->dv.Index unless -1; all as plain decode values", 7)
	fn := p.Fn("(pkg/interp.decodeValueBase).JQValueKey")
	if fn == nil || len(fn.Params) != 2 {
		ru.Undecided("anchor", "", "(pkg/interp.decodeValueBase).JQValueKey(name) not found")
		return
	}
	kind, ok := c12KindValue(p)
	if !ok {
		ru.Undecided("anchor", "", "constant interp.decodeValueValue not found")
		return
	}
	a := newC12AP()
	dv := "P0.dv"
	wrap := func(inner string) string { return c12MDV + "(" + inner + "," + kind + ")" }
	type want struct {
		key, expr, what string
	}
	table := []want{
		{"_root", wrap(c12Value + ".Root(" + dv + ")"), "Root()"},
		{"_buffer_root", wrap(c12Value + ".BufferRoot(" + dv + ")"), "BufferRoot()"},
		{"_format_root", wrap(c12Value + ".FormatRoot(" + dv + ")"), "FormatRoot()"},
		{"_path", "pkg/interp.valuePath(" + dv + ")", "valuePath(dv)"},
		{"_name", dv + ".Name", "dv.Name"},
	}
	for _, w := range table {
		arm := c12SwitchArm(fn, fn.Params[1], w.key)
		if arm == nil {
			ru.Undecided("key:"+w.key, p.Rel(fn.Pos()), "no arm compares the key parameter with \""+w.key+"\"")
			continue
		}
		rets := c12ArmReturns(arm)
		if len(rets) == 0 {
			ru.Fail("key:"+w.key, p.Rel(arm.Instrs[0].Pos()), "arm returns nothing of its own (falls through to null)")
			continue
		}
		good := true
		got := ""
		for _, ret := range rets {
			if len(ret.Results) != 1 || a.of(ret.Results[0]) != w.expr {
				good = false
				if len(ret.Results) == 1 {
					got = a.of(ret.Results[0])
				}
			}
		}
		ru.Check(good, "key:"+w.key, p.Rel(rets[0].Pos()), "returns "+w.what+" of the receiver's value",
			fmt.Sprintf("arm \"%s\" must return %s, returns %s: navigation key answers with a different node", w.key, w.expr, got))
	}
	// _parent: null when Parent == nil, otherwise the Parent field of the same value
	if arm := c12SwitchArm(fn, fn.Params[1], "_parent"); arm == nil {
		ru.Undecided("key:_parent", p.Rel(fn.Pos()), "no arm compares the key parameter with \"_parent\"")
	} else {
		nonNil, bad := 0, ""
		for _, ret := range c12ArmReturns(arm) {
			if len(ret.Results) != 1 {
				bad = "arity"
				continue
			}
			e := a.of(ret.Results[0])
			f := a.facts(ret.Block())
			switch {
			case e == "nil":
				if !f[dv+".Parent==nil"] {
					bad = "returns null where Parent may be non-nil (" + c12FactList(f) + ")"
				}
			case e == wrap(dv+".Parent"):
				nonNil++
				if !f[dv+".Parent!=nil"] {
					bad = "wraps dv.Parent without a dominating Parent != nil test: _parent of the top value is not null"
				}
			default:
				bad = "returns " + e + " instead of " + wrap(dv+".Parent")
			}
		}
		if nonNil == 0 && bad == "" {
			bad = "never returns the parent"
		}
		ru.Check(bad == "", "key:_parent", p.Rel(arm.Instrs[0].Pos()), "dv.Parent, null exactly when Parent == nil", "arm \"_parent\": "+bad)
	}
	// _index: dv.Index unless it is the struct sentinel -1 (the value postProcess stores, see C12.index)
	if arm := c12SwitchArm(fn, fn.Params[1], "_index"); arm == nil {
		ru.Undecided("key:_index", p.Rel(fn.Pos()), "no arm compares the key parameter with \"_index\"")
	} else {
		n, bad := 0, ""
		for _, ret := range c12ArmReturns(arm) {
			if len(ret.Results) != 1 {
				continue
			}
			e := a.of(ret.Results[0])
			f := a.facts(ret.Block())
			switch {
			case e == "nil":
			case e == dv+".Index":
				n++
				if !f[dv+".Index!=-1"] {
					bad = "returns Index without the Index != -1 test (" + c12FactList(f) + ")"
				}
			default:
				bad = "returns " + e + " instead of dv.Index"
			}
		}
		if n == 0 && bad == "" {
			bad = "never returns dv.Index"
		}
		ru.Check(bad == "", "key:_index", p.Rel(arm.Instrs[0].Pos()), "dv.Index unless -1", "arm \"_index\": "+bad)
	}
}

// ---------------------------------------------------------------------------
// C12.roots: (*Value).root walk and the three wrappers

func c12Roots(r *fw.Run, p *fw.Program) {
	ru := r.Rule("C12.roots", "Value.root(sub,fmt) walks Parent links from the receiver and stops exactly at Parent==nil, at sub&&IsRoot, or at fmt&&Format!=nil; Root/BufferRoot/FormatRoot call it with (false,false)/(true,false)/(true,true)", 7)
	// wrappers
	for _, w := range []struct{ name, flags string }{{"Root", "false,false"}, {"BufferRoot", "true,false"}, {"FormatRoot", "true,true"}} {
		fn := p.Fn(c12Value + "." + w.name)
		if fn == nil {
			ru.Undecided("wrapper:"+w.name, "", "method not found")
			continue
		}
		a := newC12AP()
		want := c12Value + ".root(P0," + w.flags + ")"
		good, got := true, ""
		n := 0
		fw.EachInstr(fn, func(ins ssa.Instruction) {
			if ret, ok := ins.(*ssa.Return); ok {
				n++
				if len(ret.Results) != 1 || a.of(ret.Results[0]) != want {
					good = false
					if len(ret.Results) == 1 {
						got = a.of(ret.Results[0])
					}
				}
			}
		})
		ru.Check(good && n > 0, "wrapper:"+w.name, p.Rel(fn.Pos()), "returns root(v,"+w.flags+")", fmt.Sprintf("%s must return %s, returns %s", w.name, want, got))
	}
	fn := p.Fn(c12Value + ".root")
	if fn == nil || len(fn.Params) != 3 {
		ru.Undecided("root:anchor", "", "(*decode.Value).root(findSubRoot, findFormatRoot) not found")
		return
	}
	pos := p.Rel(fn.Pos())
	// the walked variable: the phi every Return returns
	var x *ssa.Phi
	var rets []*ssa.Return
	okShape := true
	fw.EachInstr(fn, func(ins ssa.Instruction) {
		ret, ok := ins.(*ssa.Return)
		if !ok {
			return
		}
		rets = append(rets, ret)
		ph, ok := ret.Results[0].(*ssa.Phi)
		if !ok || (x != nil && ph != x) {
			okShape = false
			return
		}
		x = ph
	})
	if !okShape || x == nil {
		// a walk that returns the receiver unchanged (no loop variable) is a refutation, anything else undecided
		a := newC12AP()
		for _, ret := range rets {
			if a.of(ret.Results[0]) == "P0" {
				ru.Fail("root:return", pos, "root returns its receiver instead of the walked ancestor")
				return
			}
		}
		ru.Undecided("root:shape", pos, "root() does not return a single loop variable; rule needs re-anchoring")
		return
	}
	a := newC12AP()
	a.name(x, "X")
	// phi edges: receiver, and X.Parent
	edges := map[string]bool{}
	for _, e := range x.Edges {
		edges[a.of(e)] = true
	}
	ru.Check(len(edges) == 2 && edges["P0"] && edges["X.Parent"], "root:step", pos, "starts at the receiver and steps to X.Parent",
		"walk variable takes values {"+strings.Join(fw.SortedKeys(edges), ", ")+"}, expected {P0, X.Parent}")
	// exits
	type exit struct {
		facts map[string]bool
		pos   token.Pos
	}
	var exits []exit
	for _, ret := range rets {
		b := ret.Block()
		if len(b.Preds) <= 1 || len(b.Instrs) > 1 {
			exits = append(exits, exit{a.facts(b), ret.Pos()})
			continue
		}
		for _, pr := range b.Preds {
			exits = append(exits, exit{a.edgeFacts(pr, b), pr.Instrs[len(pr.Instrs)-1].Pos()})
		}
	}
	seen := map[string]bool{}
	for _, e := range exits {
		f := e.facts
		switch {
		case f["X.Parent==nil"]:
			seen["top"] = true
		case f["P1"] && f["X.IsRoot"] && f["X.Parent!=nil"]:
			seen["sub"] = true
		case f["P2"] && f["X.Format!=nil"] && f["X.Parent!=nil"]:
			seen["fmt"] = true
		default:
			ru.Fail("root:exit-other", p.Rel(e.pos), "walk stops under {"+c12FactList(f)+"}, which is none of Parent==nil / findSubRoot&&IsRoot / findFormatRoot&&Format!=nil")
		}
	}
	ru.Check(seen["top"], "root:exit-top", pos, "stops at Parent == nil", "no exit at Parent == nil")
	ru.Check(seen["sub"], "root:exit-sub", pos, "stops at findSubRoot && IsRoot", "no exit guarded by findSubRoot && X.IsRoot (flag and field must be the first parameter and IsRoot of the walked value)")
	ru.Check(seen["fmt"], "root:exit-fmt", pos, "stops at findFormatRoot && Format != nil", "no exit guarded by findFormatRoot && X.Format != nil")
}

// ---------------------------------------------------------------------------
// C12.path: valuePath

func c12Path(r *fw.Run, p *fw.Program) {
	ru := r.Rule("C12.path", "valuePath walks Parent links to the top and prepends v.Index under an array parent and v.Name under a struct parent (own field of the walked value, parent's IsArray)", 5)
	fn := p.Fn("pkg/interp.valuePath")
	if fn == nil || len(fn.Params) != 1 {
		ru.Undecided("anchor", "", "pkg/interp.valuePath(v) not found")
		return
	}
	pos := p.Rel(fn.Pos())
	valT := p.NamedType("pkg/decode", "Value")
	// walk phi: a phi of type *decode.Value with the parameter as an edge
	var x, parts *ssa.Phi
	fw.EachInstr(fn, func(ins ssa.Instruction) {
		ph, ok := ins.(*ssa.Phi)
		if !ok {
			return
		}
		if pt, ok := ph.Type().(*types.Pointer); ok && valT != nil && types.Identical(pt.Elem(), valT) {
			for _, e := range ph.Edges {
				if e == ssa.Value(fn.Params[0]) {
					x = ph
				}
			}
		}
	})
	var rets []*ssa.Return
	fw.EachInstr(fn, func(ins ssa.Instruction) {
		if ret, ok := ins.(*ssa.Return); ok {
			rets = append(rets, ret)
		}
	})
	if x == nil || len(rets) != 1 {
		ru.Undecided("shape", pos, "valuePath has no loop variable starting at its parameter / not a single return; rule needs re-anchoring")
		return
	}
	parts, _ = rets[0].Results[0].(*ssa.Phi)
	if parts == nil || parts.Block() != x.Block() {
		ru.Undecided("shape", pos, "valuePath does not return the path accumulated by the walk loop")
		return
	}
	a := newC12AP()
	a.name(x, "X")
	a.name(parts, "S")
	edges := map[string]bool{}
	for _, e := range x.Edges {
		edges[a.of(e)] = true
	}
	ru.Check(len(edges) == 2 && edges["P0"] && edges["X.Parent"], "step", pos, "starts at the value and steps to X.Parent",
		"walk variable takes values {"+strings.Join(fw.SortedKeys(edges), ", ")+"}, expected {P0, X.Parent}")
	// exit: only at X.Parent == nil
	rb := rets[0].Block()
	exitOK := true
	detail := ""
	check := func(f map[string]bool) {
		if !f["X.Parent==nil"] {
			exitOK = false
			detail = c12FactList(f)
		}
	}
	if len(rb.Preds) > 1 {
		for _, pr := range rb.Preds {
			check(a.edgeFacts(pr, rb))
		}
	} else {
		check(a.facts(rb))
	}
	ru.Check(exitOK, "exit", pos, "returns only when Parent == nil (path is relative to the top)", "returns under {"+detail+"}: path stops before the top of the tree")
	// appends
	isArr := c12Compound + "(X.Parent.V).IsArray"
	var idxApp, nameApp ssa.Value
	for _, c := range fw.CallsIn(fn) {
		if !fw.IsBuiltinCall(c, "append") {
			continue
		}
		call := c.(*ssa.Call)
		args := call.Common().Args
		elem, fresh := c12FreshSingleton(args[0])
		f := a.facts(call.Block())
		key := "append"
		switch {
		case !fresh && a.of(args[0]) == "S":
			ru.Fail("append-order", p.Rel(call.Pos()), "component appended after the accumulated path: path comes out leaf-first")
			continue
		case !fresh || a.of(args[1]) != "S":
			ru.Undecided("append-shape", p.Rel(call.Pos()), "append is not append([]any{component}, parts...)")
			continue
		}
		// the component may be chosen first and prepended once (`comp := v.Name; if IsArray { comp = v.Index }`):
		// one case per incoming edge of the choice
		type compCase struct {
			e string
			f map[string]bool
		}
		cases := []compCase{{a.of(elem), f}}
		if ph, ok := c12StripIface(elem).(*ssa.Phi); ok && ph != x && ph != parts {
			cases = nil
			for i, ev := range ph.Edges {
				ef := a.edgeFacts(ph.Block().Preds[i], ph.Block())
				for k2 := range f {
					ef[k2] = true
				}
				cases = append(cases, compCase{a.of(ev), ef})
			}
		}
		for _, cc := range cases {
			e, f := cc.e, cc.f
			switch {
			case f[isArr]:
				key = "array-parent"
				if ru.Check(e == "X.Index", key, p.Rel(call.Pos()), "under an array parent the component is X.Index", "under an array parent the component is "+e+", expected X.Index") {
					idxApp = call
				}
			case f["!"+isArr]:
				key = "struct-parent"
				if ru.Check(e == "X.Name", key, p.Rel(call.Pos()), "under a struct parent the component is X.Name", "under a struct parent the component is "+e+", expected X.Name") {
					nameApp = call
				}
			default:
				ru.Fail("append-guard", p.Rel(call.Pos()), "path component "+e+" chosen under {"+c12FactList(f)+"}, not under IsArray of the parent compound of the walked value")
			}
		}
	}
	if idxApp == nil {
		ru.Fail("array-parent:missing", pos, "no component X.Index is prepended under an array parent")
	}
	if nameApp == nil {
		ru.Fail("struct-parent:missing", pos, "no component X.Name is prepended under a struct parent")
	}
	// back edge of the accumulator: only the two appends or S itself
	okAcc := true
	var walk func(v ssa.Value, d int)
	walk = func(v ssa.Value, d int) {
		if v == ssa.Value(parts) || v == idxApp || v == nameApp || d > 4 {
			return
		}
		if ph, ok := v.(*ssa.Phi); ok {
			for _, e := range ph.Edges {
				walk(e, d+1)
			}
			return
		}
		if c, ok := v.(*ssa.Const); ok && (c.IsNil() || c.Value == nil) {
			return
		}
		okAcc = false
	}
	for _, e := range parts.Edges {
		walk(e, 0)
	}
	ru.Check(okAcc, "accumulate", pos, "the returned path is built only from the two prepends", "the accumulated path is overwritten by something other than the two prepends")
}

// c12FreshSingleton: v is `[]T{elem}` (slice of a fresh 1-element array with one store at index 0).
func c12FreshSingleton(v ssa.Value) (ssa.Value, bool) {
	sl, ok := v.(*ssa.Slice)
	if !ok || sl.Low != nil || sl.High != nil {
		return nil, false
	}
	al, ok := sl.X.(*ssa.Alloc)
	if !ok || al.Referrers() == nil {
		return nil, false
	}
	pt, ok := al.Type().Underlying().(*types.Pointer)
	if !ok {
		return nil, false
	}
	at, ok := pt.Elem().Underlying().(*types.Array)
	if !ok || at.Len() != 1 {
		return nil, false
	}
	var elem ssa.Value
	for _, ref := range *al.Referrers() {
		ia, ok := ref.(*ssa.IndexAddr)
		if !ok || ia.Referrers() == nil {
			continue
		}
		for _, r2 := range *ia.Referrers() {
			if st, ok := r2.(*ssa.Store); ok && st.Addr == ssa.Value(ia) {
				if elem != nil {
					return nil, false
				}
				elem = st.Val
			}
		}
	}
	return elem, elem != nil
}

// ---------------------------------------------------------------------------
// C12.resolve: how a path component is resolved back to a child

func c12Resolve(r *fw.Run, p *fw.Program) {
	ru := r.Rule("C12.resolve", "array index i resolves to Children[i], struct key k to ByName[k], and .[]/paths pair each child with its own position (arrays) or own Name (structs); makeDecodeValueOut dispatches on IsArray; gojq's index bound JQValueSliceLen is len(Children) and JQValueIndex answers null only for its negative markers; the field-presence closures answer ByName membership / 0<=i<len(Children); the layering helpers prefer the value's own field; JQValueKeys lists each child's own component", 14)
	c12ResolveMore(ru, p)
	kind, ok := c12KindValue(p)
	if !ok {
		ru.Undecided("anchor", "", "constant interp.decodeValueValue not found")
		return
	}
	wrap := func(inner string) string { return c12MDV + "(" + inner + "," + kind + ")" }
	nonNilReturns := func(fn *ssa.Function, a *c12AP) []string {
		var out []string
		fw.EachInstr(fn, func(ins ssa.Instruction) {
			if ret, ok := ins.(*ssa.Return); ok && len(ret.Results) == 1 {
				if e := a.of(ret.Results[0]); e != "nil" {
					out = append(out, e)
				}
			}
		})
		return out
	}
	// array index
	if fn := p.Fn("(pkg/interp.ArrayDecodeValue).JQValueIndex"); fn == nil {
		ru.Undecided("array-index", "", "(interp.ArrayDecodeValue).JQValueIndex not found")
	} else {
		a := newC12AP()
		want := wrap("P0.Compound.Children[P1]")
		got := nonNilReturns(fn, a)
		good := len(got) > 0
		for _, g := range got {
			if g != want {
				good = false
			}
		}
		ru.Check(good, "array-index", p.Rel(fn.Pos()), "returns Children[index]", "JQValueIndex must return "+want+", returns "+strings.Join(got, " | "))
	}
	// struct key: the value-key closure handed to valueOrFallbackKey
	if fn := p.Fn("(pkg/interp.StructDecodeValue).JQValueKey"); fn == nil {
		ru.Undecided("struct-key", "", "(interp.StructDecodeValue).JQValueKey not found")
	} else {
		var cl *ssa.Function
		for _, c := range fw.CallsIn(fn) {
			callee := c.Common().StaticCallee()
			if callee == nil || c12FnName(callee) != "pkg/interp.valueOrFallbackKey" || len(c.Common().Args) != 4 {
				continue
			}
			if mc, ok := c.Common().Args[3].(*ssa.MakeClosure); ok {
				cl = mc.Fn.(*ssa.Function)
			}
		}
		if cl == nil || len(cl.Params) != 1 {
			ru.Undecided("struct-key", p.Rel(fn.Pos()), "value-key closure passed to valueOrFallbackKey not resolvable")
		} else {
			a := newC12AP()
			want := wrap("F0.Compound.ByName[P0]")
			got := nonNilReturns(cl, a)
			good := len(got) > 0
			for _, g := range got {
				if g != want {
					good = false
				}
			}
			ru.Check(good, "struct-key", p.Rel(cl.Pos()), "returns ByName[name]", "struct key lookup must return "+want+", returns "+strings.Join(got, " | "))
		}
	}
	// each: Path/Value pairing
	pv := p.ByPath["github.com/wader/gojq"]
	for _, w := range []struct{ recv, key string }{{"ArrayDecodeValue", "array-each"}, {"StructDecodeValue", "struct-each"}} {
		fn := p.Fn("(pkg/interp." + w.recv + ").JQValueEach")
		if fn == nil || pv == nil {
			ru.Undecided(w.key, "", "(interp."+w.recv+").JQValueEach or gojq.PathValue not found")
			continue
		}
		pvT, _ := pv.Types.Scope().Lookup("PathValue").Type().(*types.Named)
		iPath, iVal := c12Field(pvT, "Path"), c12Field(pvT, "Value")
		a := newC12AP()
		var pathV, valV []string
		fw.EachInstr(fn, func(ins ssa.Instruction) {
			st, ok := ins.(*ssa.Store)
			if !ok {
				return
			}
			fa, ok := st.Addr.(*ssa.FieldAddr)
			if !ok {
				return
			}
			pt, ok := fa.X.Type().Underlying().(*types.Pointer)
			if !ok || pvT == nil || !types.Identical(pt.Elem(), pvT) {
				return
			}
			if fa.Field == iPath {
				pathV = append(pathV, a.of(st.Val))
			} else if fa.Field == iVal {
				valV = append(valV, a.of(st.Val))
			}
		})
		if len(pathV) != 1 || len(valV) != 1 {
			ru.Undecided(w.key, p.Rel(fn.Pos()), "not exactly one PathValue{Path,Value} construction")
			continue
		}
		// Value = makeDecodeValue(Children[i]); Path = i (array) or Children[i].Name (struct)
		pre := c12MDV + "(P0.Compound.Children["
		suf := "]," + kind + ")"
		if !strings.HasPrefix(valV[0], pre) || !strings.HasSuffix(valV[0], suf) {
			ru.Fail(w.key, p.Rel(fn.Pos()), "PathValue.Value is "+valV[0]+", expected a child of the receiver's Children")
			continue
		}
		idx := strings.TrimSuffix(strings.TrimPrefix(valV[0], pre), suf)
		wantPath := idx
		if w.recv == "StructDecodeValue" {
			wantPath = "P0.Compound.Children[" + idx + "].Name"
		}
		ru.Check(pathV[0] == wantPath, w.key, p.Rel(fn.Pos()), "each child is paired with its own path component", "PathValue.Path is "+pathV[0]+" but Value is child "+idx+" (expected Path "+wantPath+")")
	}
	// dispatch
	if fn := p.Fn("pkg/interp.makeDecodeValueOut"); fn == nil {
		ru.Undecided("dispatch", "", "interp.makeDecodeValueOut not found")
	} else {
		a := newC12AP()
		isArr := c12Compound + "(P0.V).IsArray"
		nArr, nStr, bad := 0, 0, ""
		for _, c := range fw.CallsIn(fn) {
			callee := c.Common().StaticCallee()
			if callee == nil {
				continue
			}
			n := c12FnName(callee)
			if n != "pkg/interp.NewArrayDecodeValue" && n != "pkg/interp.NewStructDecodeValue" {
				continue
			}
			f := a.facts(c.Block())
			args := c.Common().Args
			if len(args) != 3 || a.of(args[0]) != "P0" || a.of(args[2]) != c12Compound+"(P0.V)" {
				bad = n + " is not built from the value and its own compound"
			}
			if n == "pkg/interp.NewArrayDecodeValue" {
				nArr++
				if !f[isArr] {
					bad = "array view built where IsArray is not known true"
				}
			} else {
				nStr++
				if !f["!"+isArr] {
					bad = "struct view built where IsArray is not known false"
				}
			}
		}
		if bad == "" && (nArr == 0 || nStr == 0) {
			bad = "array or struct view never built"
		}
		ru.Check(bad == "", "dispatch", p.Rel(fn.Pos()), "array view iff IsArray", "makeDecodeValueOut: "+bad)
	}
}

// ---------------------------------------------------------------------------
// C12.index: postProcess index bookkeeping

type c12Loop struct {
	header *ssa.BasicBlock
	body   map[*ssa.BasicBlock]bool
}

// c12LoopOf: the innermost natural loop whose header dominates b and that contains b.
func c12LoopOf(b *ssa.BasicBlock) *c12Loop {
	for h := b; h != nil; h = h.Idom() {
		// h is a loop header if some pred of h is dominated by h
		isHeader := false
		for _, pr := range h.Preds {
			if pr == h || h.Dominates(pr) {
				isHeader = true
			}
		}
		if !isHeader {
			continue
		}
		body := map[*ssa.BasicBlock]bool{h: true}
		for _, x := range h.Parent().Blocks {
			if (x == h || h.Dominates(x)) && c12Reach(x, h, false) {
				body[x] = true
			}
		}
		if body[b] {
			return &c12Loop{header: h, body: body}
		}
	}
	return nil
}

// c12CountsFromZero: v is the induction value of a loop that starts at 0 and steps by 1
// (either `phi[-1, v]+1` as go/ssa emits for range loops, or `phi[0, phi+1]`).
func c12CountsFromZero(v ssa.Value) (*ssa.Phi, bool) {
	constInt := func(x ssa.Value) (int64, bool) {
		c, ok := x.(*ssa.Const)
		if !ok || c.Value == nil {
			return 0, false
		}
		return c.Int64(), true
	}
	if bo, ok := v.(*ssa.BinOp); ok && bo.Op == token.ADD {
		ph, ok := bo.X.(*ssa.Phi)
		one, ok2 := constInt(bo.Y)
		if !ok || !ok2 || one != 1 || len(ph.Edges) < 2 {
			return nil, false
		}
		start := false
		for _, e := range ph.Edges {
			if c, ok := constInt(e); ok && c == -1 {
				start = true
			} else if e != v {
				return nil, false
			}
		}
		return ph, start
	}
	if ph, ok := v.(*ssa.Phi); ok {
		start := false
		for _, e := range ph.Edges {
			if c, ok := constInt(e); ok && c == 0 {
				start = true
				continue
			}
			bo, ok := e.(*ssa.BinOp)
			one, ok2 := constInt(func() ssa.Value {
				if ok {
					return bo.Y
				}
				return nil
			}())
			if !ok || bo.Op != token.ADD || bo.X != ssa.Value(ph) || !ok2 || one != 1 {
				return nil, false
			}
		}
		return ph, start
	}
	return nil, false
}

func c12PostProcessClosure(p *fw.Program) (*ssa.Function, *ssa.Function) {
	pp := p.Fn(c12Value + ".postProcess")
	if pp == nil {
		return nil, nil
	}
	var cl *ssa.Function
	for _, c := range fw.CallsIn(pp) {
		callee := c.Common().StaticCallee()
		if callee == nil || !strings.HasPrefix(c12FnName(callee), c12Value+".Walk") {
			continue
		}
		for _, arg := range c.Common().Args {
			v := arg
			if ct, ok := v.(*ssa.ChangeType); ok {
				v = ct.X
			}
			switch x := v.(type) {
			case *ssa.MakeClosure:
				cl = x.Fn.(*ssa.Function)
			case *ssa.Function:
				cl = x
			}
		}
	}
	return pp, cl
}

func c12Index(r *fw.Run, p *fw.Program) {
	ru := r.Rule("C12.index", "Value.Index is written only by postProcess; there every child of an array gets Index = its position (loop from 0 over the whole final Children, never skipped, after any reordering), struct children and the compound itself get -1, and no compound leaves without it; Children is only changed by AddChild/Remove and Remove only by decoders; the walk is post-order (a compound resets its own Index before its parent numbers it)", 15)
	valT := p.NamedType("pkg/decode", "Value")
	iIndex := c12Field(valT, "Index")
	pp, cl := c12PostProcessClosure(p)
	if valT == nil || iIndex < 0 || pp == nil || cl == nil || len(cl.Params) < 1 {
		ru.Undecided("anchor", "", "decode.Value.Index / (*Value).postProcess / its walk callback not resolvable")
		return
	}
	c12WalkOrder(ru, p, pp)
	// ownership
	inPP := map[*ssa.Function]bool{}
	for _, f := range fw.WithClosures(pp) {
		inPP[f] = true
	}
	var stores []*ssa.Store
	for _, fn := range p.FqFunctions() {
		fw.EachInstr(fn, func(ins ssa.Instruction) {
			st, ok := ins.(*ssa.Store)
			if !ok || !isFieldAddrOf(st.Addr, valT, iIndex) {
				return
			}
			if inPP[fn] {
				if fn == cl {
					stores = append(stores, st)
				}
				ru.Ok("owner:"+fw.ShortFn(fn), p.Rel(st.Pos()), "Index written inside postProcess")
				return
			}
			ru.Fail("owner:"+fw.ShortFn(fn), p.Rel(st.Pos()), "Value.Index written outside postProcess: index no longer a function of the final position")
		})
	}
	// Children is only changed by AddChild (append) and Remove (delete), and Remove is only used
	// by decoders (they run inside DecodeFn, i.e. before the root's postProcess)
	compT := p.NamedType("pkg/decode", "Compound")
	iChildren := c12Field(compT, "Children")
	remove := p.Fn(c12Value + ".Remove")
	if compT == nil || iChildren < 0 || remove == nil {
		ru.Undecided("children:anchor", "", "decode.Compound.Children / (*Value).Remove not found")
	} else {
		for _, fn := range p.FqFunctions() {
			fw.EachInstr(fn, func(ins ssa.Instruction) {
				switch x := ins.(type) {
				case *ssa.Store:
					if !isFieldAddrOf(x.Addr, compT, iChildren) {
						return
					}
					name := fw.ShortFn(fn)
					_, fresh := x.Addr.(*ssa.FieldAddr).X.(*ssa.Alloc)
					cst, isConst := x.Val.(*ssa.Const)
					switch {
					case name == "(*pkg/decode.D).AddChild" || name == c12Value+".Remove":
						ru.Ok("children:"+name, p.Rel(x.Pos()), "the adder / the deleter")
					case fresh && isConst && cst.IsNil():
						ru.Ok("children:"+name, p.Rel(x.Pos()), "empty Children of a new compound")
					default:
						ru.Fail("children:"+name, p.Rel(x.Pos()), "Compound.Children rewritten outside AddChild/Remove: positions assigned by postProcess no longer describe the array")
					}
				case ssa.CallInstruction:
					if x.Common().StaticCallee() != remove {
						return
					}
					rel := pkgRel(fn)
					ru.Check(strings.HasPrefix(rel, "format/"), "remove:"+fw.ShortFn(fn), p.Rel(x.Pos()), "Remove used by a decoder (before postProcess)", "(*Value).Remove called from "+rel+", outside decoders: it deletes a child without re-indexing its siblings")
				}
			})
		}
	}
	a := newC12AP()
	comp := c12Compound + "(P0.V)"
	children := comp + ".Children"
	isArr := comp + ".IsArray"
	isComp := "is[*pkg/decode.Compound](P0.V)"
	pos := p.Rel(cl.Pos())

	var headers []*ssa.BasicBlock
	nArr, nStruct, nSelf := 0, 0, 0
	for _, st := range stores {
		fa := st.Addr.(*ssa.FieldAddr)
		base := a.of(fa.X)
		f := a.facts(st.Block())
		val := a.of(st.Val)
		if base == "P0" {
			nSelf++
			ru.Check(val == "-1" && f[isComp], "self", p.Rel(st.Pos()), "compound's own Index reset to -1 (its parent assigns the real one later)", "compound's own Index set to "+val+" under {"+c12FactList(f)+"}")
			continue
		}
		// child store: base must be Children[i] of the visited compound
		var ia *ssa.IndexAddr
		if ld, ok := fa.X.(*ssa.UnOp); ok {
			ia, _ = ld.X.(*ssa.IndexAddr)
		}
		if ia == nil || a.of(ia.X) != children {
			ru.Fail("child:target", p.Rel(st.Pos()), "Index stored into "+base+", which is not an element of the visited compound's Children")
			continue
		}
		lp := c12LoopOf(st.Block())
		key := "struct"
		if val != "-1" {
			key = "array"
		}
		if lp == nil {
			ru.Fail(key+":loop", p.Rel(st.Pos()), "Index store is not inside a loop over Children")
			continue
		}
		headers = append(headers, lp.header)
		// (1) loop covers 0..len(Children)-1
		ph, zero := c12CountsFromZero(ia.Index)
		covers := ph != nil && zero && ph.Block() == lp.header
		if covers {
			covers = false
			if ifi, ok := lp.header.Instrs[len(lp.header.Instrs)-1].(*ssa.If); ok {
				if bo, ok := ifi.Cond.(*ssa.BinOp); ok && bo.Op == token.LSS && (bo.X == ia.Index || bo.X == ssa.Value(ph)) {
					if a.of(bo.Y) == "len("+children+")" && lp.body[lp.header.Succs[0]] && !lp.body[lp.header.Succs[1]] {
						// for the `phi[0,phi+1]` form the bound is tested on phi, and phi must be the subscript
						covers = bo.X == ia.Index
					}
				}
			}
		}
		ru.Check(covers, key+":range", p.Rel(st.Pos()), "loop runs i = 0 .. len(Children)-1", "the loop around the Index store does not run i = 0,1,.. < len(Children) of the visited compound (subscript "+a.of(ia.Index)+")")
		// (2) no early exit and not skipped. Conditions on the compound itself (IsArray, being a
		// compound) are loop-invariant and may sit inside or outside the loop.
		want := "!" + isArr
		if key == "array" {
			want = isArr
		}
		all := map[string]bool{}
		skipped, extra := "", ""
		for _, g := range fw.Guards(st.Block()) {
			gb := g.If.Block()
			if gb == lp.header || (!lp.body[gb] && c12IsLoopHeader(gb)) {
				continue // this loop's own bound; "an earlier loop has finished"
			}
			m := map[string]bool{}
			a.addFact(m, g.Cond, g.True)
			for k := range m {
				all[k] = true
				if k == want || k == isComp {
					continue
				}
				if lp.body[gb] {
					skipped = "only when " + k
				} else {
					extra = k
				}
			}
		}
		for b := range lp.body {
			if b == lp.header {
				continue
			}
			for _, s := range b.Succs {
				if !lp.body[s] {
					skipped = "loop left early from block " + b.Comment
				}
			}
			if _, ok := b.Instrs[len(b.Instrs)-1].(*ssa.Return); ok {
				skipped = "return inside the loop"
			}
		}
		// an iteration must not be able to complete (reach a back edge) around the store, except
		// along the branch that contradicts the wanted IsArray outcome
		if skipped == "" {
			seen := map[*ssa.BasicBlock]bool{}
			stack := []*ssa.BasicBlock{lp.header.Succs[0]}
			for len(stack) > 0 && skipped == "" {
				b := stack[len(stack)-1]
				stack = stack[:len(stack)-1]
				if seen[b] || b == st.Block() || !lp.body[b] {
					continue
				}
				seen[b] = true
				for i, s := range b.Succs {
					if ifi, ok := b.Instrs[len(b.Instrs)-1].(*ssa.If); ok && len(b.Succs) == 2 {
						m := map[string]bool{}
						a.addFact(m, ifi.Cond, i == 0)
						if (m[isArr] || m["!"+isArr]) && !m[want] {
							continue
						}
					}
					if s == lp.header {
						skipped = "an iteration can complete without reaching the store (continue or conditional before it)"
						break
					}
					stack = append(stack, s)
				}
			}
		}
		ru.Check(skipped == "", key+":every", p.Rel(st.Pos()), "executed for every child (no continue/break before it)", "Index assignment is skipped for some children: "+skipped)
		// (3) stored value and guard
		if key == "array" {
			nArr++
			ru.Check(st.Val == ia.Index, "array:value", p.Rel(st.Pos()), "Children[i].Index = i", "Children["+a.of(ia.Index)+"].Index = "+val+": index differs from position")
			ru.Check(all[isArr] && extra == "", "array:guard", p.Rel(st.Pos()), "performed exactly when the compound is an array", "positions assigned under {"+c12FactList(all)+"}, expected exactly IsArray of the visited compound")
			// (4) after any reordering / rewrite of Children
			late := ""
			fw.EachInstr(cl, func(ins ssa.Instruction) {
				if !c12Reach(st.Block(), ins.Block(), false) {
					return
				}
				switch x := ins.(type) {
				case *ssa.Call:
					callee := x.Common().StaticCallee()
					if callee == nil {
						return
					}
					pk := fw.FnPkgPath(callee)
					if pk != "slices" && pk != "sort" {
						return
					}
					for _, arg := range x.Common().Args {
						if a.of(arg) == children {
							late = c12FnName(callee)
						}
					}
				case *ssa.Store:
					if a.of(x.Addr) == children {
						late = "store to Children"
					}
				}
			})
			ru.Check(late == "", "array:after-sort", p.Rel(st.Pos()), "no reordering of Children can follow the assignment", "Children can be reordered ("+late+") after positions were assigned")
		} else {
			nStruct++
			ru.Check(all["!"+isArr] && extra == "", "struct:guard", p.Rel(st.Pos()), "-1 exactly for struct children", "children get Index -1 under {"+c12FactList(all)+"}, expected exactly when the compound is not an array")
		}
	}
	if nArr == 0 {
		ru.Fail("array:missing", pos, "postProcess has no loop assigning Children[i].Index = i")
	}
	if nStruct == 0 {
		ru.Fail("struct:missing", pos, "postProcess has no loop resetting struct children's Index to -1 (_index would report 0 for every struct field)")
	}
	if nSelf == 0 {
		ru.Fail("self:missing", pos, "postProcess does not reset the compound's own Index")
	}
	// must-pass-through: a compound cannot leave the callback without passing one of the index loops
	var arm *ssa.BasicBlock
	for _, b := range cl.Blocks {
		if ifi, ok := b.Instrs[len(b.Instrs)-1].(*ssa.If); ok {
			m := map[string]bool{}
			a.addFact(m, ifi.Cond, true)
			if m[isComp] {
				arm = b.Succs[0]
			}
		}
	}
	if arm == nil {
		ru.Undecided("through", pos, "no type test of the visited value for *Compound")
	} else {
		hs := map[*ssa.BasicBlock]bool{}
		for _, h := range headers {
			hs[h] = true
		}
		leak := false
		seen := map[*ssa.BasicBlock]bool{}
		stack := []*ssa.BasicBlock{arm}
		for len(stack) > 0 {
			b := stack[len(stack)-1]
			stack = stack[:len(stack)-1]
			if seen[b] || hs[b] {
				continue
			}
			seen[b] = true
			if _, ok := b.Instrs[len(b.Instrs)-1].(*ssa.Return); ok {
				leak = true
			}
			stack = append(stack, b.Succs...)
		}
		ru.Check(!leak && len(headers) >= 2, "through", pos, "every compound passes an index loop before the callback returns", "a compound can leave postProcess's callback without passing an index-assignment loop")
	}
	// the callback never aborts the walk
	okNil := true
	fw.EachInstr(cl, func(ins ssa.Instruction) {
		if ret, ok := ins.(*ssa.Return); ok && (len(ret.Results) != 1 || a.of(ret.Results[0]) != "nil") {
			okNil = false
		}
	})
	ru.Check(okNil, "walk-complete", pos, "callback always returns nil (walk visits the whole buffer root)", "callback can return a non-nil error: the walk stops and later compounds keep stale indexes")
}

// ---------------------------------------------------------------------------
// C12.post: call sites of postProcess

func c12Post(r *fw.Run, p *fw.Program) {
	ru := r.Rule("C12.post", "every buffer root handed out is post-processed: decode() passes postProcess before every non-nil return unless !opts.IsRoot; functions creating a compound nested root pass it before returning; a caller-supplied decode callback that may panic cannot skip it once the root is attached; nothing adds children after it, including closures a decoder hands out through format in/out values", 9)
	pp := p.Fn(c12Value + ".postProcess")
	valT := p.NamedType("pkg/decode", "Value")
	compT := p.NamedType("pkg/decode", "Compound")
	optT := p.NamedType("pkg/decode", "Options")
	if pp == nil || valT == nil || compT == nil || optT == nil {
		ru.Undecided("anchor", "", "decode.(*Value).postProcess / Value / Compound / Options not found")
		return
	}
	iIsRoot := c12Field(valT, "IsRoot")
	iChildren := c12Field(compT, "Children")
	iOptRoot := c12Field(optT, "IsRoot")
	if iIsRoot < 0 || iChildren < 0 || iOptRoot < 0 {
		ru.Undecided("anchor", "", "fields Value.IsRoot / Compound.Children / Options.IsRoot not found")
		return
	}
	mut := c12Mutators(p, compT, iChildren, pp)
	c12Late(ru, p, mut)
	isDynCallback := func(c ssa.CallInstruction) bool {
		cc := c.Common()
		if cc.IsInvoke() || cc.StaticCallee() != nil {
			return false
		}
		if _, ok := cc.Value.(*ssa.Builtin); ok {
			return false
		}
		return true
	}
	// call sites
	type site struct {
		fn  *ssa.Function
		ins ssa.CallInstruction
	}
	var sites []site
	for _, fn := range p.FqFunctions() {
		for _, c := range fw.CallsIn(fn) {
			if c.Common().StaticCallee() == pp {
				sites = append(sites, site{fn, c})
			}
		}
	}
	if len(sites) == 0 {
		ru.Undecided("sites", "", "postProcess is never called")
	}
	siteFns := map[*ssa.Function][]ssa.CallInstruction{}
	ord := map[*ssa.Function]int{}
	for _, s := range sites {
		siteFns[s.fn] = append(siteFns[s.fn], s.ins)
		ord[s.fn]++
		key := fmt.Sprintf("%s#%d", fw.ShortFn(s.fn), ord[s.fn])
		a := newC12AP()
		recv := a.of(s.ins.Common().Args[0])
		_, deferred := s.ins.(*ssa.Defer)
		// (a) abort: a dynamic callback that receives the decoder of the value and can reach the call
		if deferred || s.fn.Recover != nil {
			ru.Ok("abort:"+key, p.Rel(s.ins.Pos()), "postProcess runs on the panic path too")
		} else {
			bad := ""
			for _, c := range fw.CallsIn(s.fn) {
				if !isDynCallback(c) {
					continue
				}
				before := c.Block() == s.ins.Block() && c12InstrIndex(c) < c12InstrIndex(s.ins)
				if !before && !(c.Block() != s.ins.Block() && c12Reach(c.Block(), s.ins.Block(), false)) {
					continue
				}
				for _, arg := range c.Common().Args {
					o := a.of(arg)
					if o != "" && (recv == o || strings.HasPrefix(recv, o+".")) {
						bad = "callback " + a.of(c.Common().Value) + "(" + o + ")"
					}
				}
			}
			ru.Check(bad == "", "abort:"+key, p.Rel(s.ins.Pos()), "no caller-supplied callback runs between attaching the root and postProcess",
				"a panic in "+bad+" (decoders signal errors by panicking) skips the non-deferred postProcess of "+recv+": the partial nested root stays in the tree with every child at Index 0 and unsorted")
		}
		// (b) nothing that adds/reorders children afterwards
		late := ""
		for _, c := range fw.CallsIn(s.fn) {
			after := c.Block() == s.ins.Block() && c12InstrIndex(c) > c12InstrIndex(s.ins)
			if !after && !c12Reach(s.ins.Block(), c.Block(), false) {
				continue
			}
			if callee := c.Common().StaticCallee(); callee != nil && mut[callee] {
				// adding the finished root to its parent is what hands it out; anything else is a mutation
				args := c.Common().Args
				if len(args) == 2 && c12FnName(callee) == "(*pkg/decode.D).AddChild" && a.of(args[1]) == recv {
					continue
				}
				late = c12FnName(callee)
			} else if isDynCallback(c) && !deferred {
				late = "callback " + a.of(c.Common().Value)
			}
		}
		if deferred {
			ru.Ok("last:"+key, p.Rel(s.ins.Pos()), "deferred: runs last")
		} else {
			ru.Check(late == "", "last:"+key, p.Rel(s.ins.Pos()), "no call that can add or reorder children follows postProcess", late+" can run after postProcess: children added later (gap fields, callback output) keep Index 0 / unsorted")
		}
	}
	// (c) must-pass-through
	through := func(fn *ssa.Function, exemptEdge func(pred, succ *ssa.BasicBlock) bool, want func(*ssa.Return) bool) (bool, *ssa.Return) {
		passes := map[*ssa.BasicBlock]bool{}
		for _, c := range siteFns[fn] {
			passes[c.Block()] = true
		}
		seen := map[*ssa.BasicBlock]bool{}
		stack := []*ssa.BasicBlock{fn.Blocks[0]}
		for len(stack) > 0 {
			b := stack[len(stack)-1]
			stack = stack[:len(stack)-1]
			if seen[b] || passes[b] {
				continue
			}
			seen[b] = true
			if ret, ok := b.Instrs[len(b.Instrs)-1].(*ssa.Return); ok && want(ret) {
				return false, ret
			}
			for _, s := range b.Succs {
				if exemptEdge != nil && exemptEdge(b, s) {
					continue
				}
				stack = append(stack, s)
			}
		}
		return true, nil
	}
	// decode()
	if dec := p.Fn("pkg/decode.decode"); dec == nil {
		ru.Undecided("through:decode", "", "pkg/decode.decode not found")
	} else {
		a := newC12AP()
		// the Options value the root decoder is created with
		optsOf := ""
		for _, c := range fw.CallsIn(dec) {
			if callee := c.Common().StaticCallee(); callee != nil && c12FnName(callee) == "pkg/decode.newDecoder" {
				for _, arg := range c.Common().Args {
					if types.Identical(arg.Type(), optT) {
						optsOf = a.of(arg)
					}
				}
			}
		}
		nExempt := 0
		exempt := func(pred, succ *ssa.BasicBlock) bool {
			ifi, ok := pred.Instrs[len(pred.Instrs)-1].(*ssa.If)
			if !ok || len(pred.Succs) != 2 {
				return false
			}
			m := map[string]bool{}
			a.addFact(m, ifi.Cond, pred.Succs[0] == succ)
			if optsOf != "" && m["!"+optsOf+".IsRoot"] {
				nExempt++
				return true
			}
			return false
		}
		ok, ret := through(dec, exempt, func(ret *ssa.Return) bool {
			return len(ret.Results) > 0 && a.of(ret.Results[0]) != "nil"
		})
		if optsOf == "" {
			ru.Undecided("through:decode", p.Rel(dec.Pos()), "decode() does not create its root through newDecoder(.., opts)")
		} else if ok {
			ru.Ok("through:decode", p.Rel(dec.Pos()), "every returned tree passed postProcess unless !opts.IsRoot")
		} else {
			ru.Fail("through:decode", p.Rel(ret.Pos()), "decode() can return a tree of a buffer root ("+optsOf+".IsRoot) that never passed postProcess: all indexes 0")
		}
		// newDecoder takes IsRoot from the same options
		if nd := p.Fn("pkg/decode.newDecoder"); nd == nil {
			ru.Undecided("isroot:newDecoder", "", "pkg/decode.newDecoder not found")
		} else {
			an := newC12AP()
			n, good := 0, true
			fw.EachInstr(nd, func(ins ssa.Instruction) {
				if st, ok := ins.(*ssa.Store); ok && isFieldAddrOf(st.Addr, valT, iIsRoot) {
					n++
					v := an.of(st.Val)
					if !strings.HasPrefix(v, "P") || !strings.HasSuffix(v, ".IsRoot") {
						good = false
					}
				}
			})
			ru.Check(n == 1 && good, "isroot:newDecoder", p.Rel(nd.Pos()), "root Value.IsRoot = opts.IsRoot (the flag decode() tests before postProcess)", "newDecoder does not set Value.IsRoot from its Options.IsRoot: roots and post-processing disagree")
		}
	}
	// creators of compound nested roots: store IsRoot = true and allocate a Compound
	for _, fn := range p.FqFunctions() {
		setsRoot := false
		var at token.Pos
		mkComp := false
		fw.EachInstr(fn, func(ins ssa.Instruction) {
			switch x := ins.(type) {
			case *ssa.Store:
				if isFieldAddrOf(x.Addr, valT, iIsRoot) {
					if c, ok := x.Val.(*ssa.Const); ok && c.Value != nil && c.Value.ExactString() == "true" {
						setsRoot = true
						at = x.Pos()
					}
				}
			case *ssa.Alloc:
				if pt, ok := x.Type().(*types.Pointer); ok && types.Identical(pt.Elem(), compT) {
					mkComp = true
				}
			}
		})
		if !setsRoot {
			continue
		}
		key := "through:" + fw.ShortFn(fn)
		if !mkComp {
			ru.Ok(key, p.Rel(at), "nested root is not a compound (no children to index)")
			continue
		}
		ok, ret := through(fn, nil, func(*ssa.Return) bool { return true })
		if ok {
			ru.Ok(key, p.Rel(at), "every return passes postProcess")
		} else {
			ru.Fail(key, p.Rel(ret.Pos()), "creates a compound buffer root (IsRoot = true) but can return without postProcess; the enclosing root's walk does not descend into nested roots, so its children keep Index 0")
		}
	}
}

// c12Mutators: pkg/decode functions that (transitively through static calls) store to
// Compound.Children, i.e. can add or delete children (AddChild, Remove, FillGaps, Field*...).
func c12Mutators(p *fw.Program, compT *types.Named, iChildren int, pp *ssa.Function) map[*ssa.Function]bool {
	mut := map[*ssa.Function]bool{}
	var decFns []*ssa.Function
	for _, fn := range p.FqFunctions() {
		if pkgRel(fn) == "pkg/decode" {
			decFns = append(decFns, fn)
		}
	}
	for _, fn := range decFns {
		fw.EachInstr(fn, func(ins ssa.Instruction) {
			if st, ok := ins.(*ssa.Store); ok && isFieldAddrOf(st.Addr, compT, iChildren) {
				if _, fresh := st.Addr.(*ssa.FieldAddr).X.(*ssa.Alloc); !fresh {
					mut[fn] = true
				}
			}
		})
	}
	for changed := true; changed; {
		changed = false
		for _, fn := range decFns {
			if mut[fn] || c12InClosureOf(fn, pp) {
				continue
			}
			for _, c := range fw.CallsIn(fn) {
				if callee := c.Common().StaticCallee(); callee != nil && mut[callee] {
					mut[fn] = true
					changed = true
					break
				}
			}
		}
	}
	return mut
}

// c12Late: closures a decoder hands out through a field of a format in/out value run after
// that decoder's DecodeFn returned - for a buffer root that is after its postProcess. They must
// not add or delete children.
func c12Late(ru *fw.Rule, p *fw.Program, mut map[*ssa.Function]bool) {
	n := 0
	ord := map[*ssa.Function]int{}
	for _, fn := range p.FqFunctions() {
		fw.EachInstr(fn, func(ins ssa.Instruction) {
			st, ok := ins.(*ssa.Store)
			if !ok {
				return
			}
			fa, ok := st.Addr.(*ssa.FieldAddr)
			if !ok {
				return
			}
			var cl *ssa.Function
			switch x := st.Val.(type) {
			case *ssa.MakeClosure:
				cl = x.Fn.(*ssa.Function)
			case *ssa.Function:
				cl = x
			}
			if cl == nil {
				return
			}
			pt, ok := fa.X.Type().Underlying().(*types.Pointer)
			if !ok {
				return
			}
			named, ok := pt.Elem().(*types.Named)
			if !ok || named.Obj().Pkg() == nil || named.Obj().Pkg().Path() != fw.Mod+"/format" {
				return
			}
			n++
			ord[fw.Top(fn)]++
			key := fmt.Sprintf("late:%s.%s:%s#%d", named.Obj().Name(), c12FieldName(fa.X.Type(), fa.Field), fw.ShortFn(fw.Top(fn)), ord[fw.Top(fn)])
			// static reachability from the closure
			via := map[*ssa.Function]*ssa.Function{cl: nil}
			queue := []*ssa.Function{cl}
			var hit *ssa.Function
			for len(queue) > 0 && hit == nil && len(via) < 4000 {
				f := queue[0]
				queue = queue[1:]
				next := append([]*ssa.Function{}, f.AnonFuncs...)
				for _, c := range fw.CallsIn(f) {
					if callee := c.Common().StaticCallee(); callee != nil {
						next = append(next, callee)
					}
				}
				for _, g := range next {
					if _, seen := via[g]; seen || !fw.InFq(g) {
						continue
					}
					via[g] = f
					if mut[g] {
						hit = g
						break
					}
					queue = append(queue, g)
				}
			}
			if hit == nil {
				ru.Ok(key, p.Rel(st.Pos()), "handed-out closure does not add or delete children")
				return
			}
			var chain []string
			for f := hit; f != nil; f = via[f] {
				chain = append([]string{fw.ShortFn(f)}, chain...)
			}
			ru.Fail(key, p.Rel(st.Pos()), "closure handed out through "+named.Obj().Name()+" runs after the decoder returned (after postProcess of its buffer root) and can add/delete children: "+strings.Join(chain, " -> ")+"; those children are never indexed, sorted or covered by their parent's range")
		})
	}
	if n == 0 {
		ru.Undecided("late", "", "no closure stored into a field of a format in/out value (anchor for post-decode callbacks moved)")
	}
}

func c12InClosureOf(fn, top *ssa.Function) bool {
	for f := fn; f != nil; f = f.Parent() {
		if f == top {
			return true
		}
	}
	return false
}

// ---------------------------------------------------------------------------
// C12.bufroot: which sub-decodes start a new buffer root

func c12BufRoot(r *fw.Run, p *fw.Program) {
	ru := r.Rule("C12.bufroot", "a sub-decode is marked as buffer root (Options.IsRoot) exactly when it reads another bit buffer than the calling decoder's own; the top-level decode of interp is a root; sub-decoders and values the field API builds are marked IsRoot exactly when their reader is not the decoder's own buffer", 14)
	optT := p.NamedType("pkg/decode", "Options")
	iRoot := c12Field(optT, "IsRoot")
	dec, pub := p.Fn("pkg/decode.decode"), p.Fn("pkg/decode.Decode")
	if optT == nil || iRoot < 0 || dec == nil || pub == nil {
		ru.Undecided("anchor", "", "decode.Options.IsRoot / decode.decode / decode.Decode not found")
		return
	}
	c12BufRootMakers(ru, p)
	for _, fn := range p.FqFunctions() {
		n := 0
		for _, c := range fw.CallsIn(fn) {
			callee := c.Common().StaticCallee()
			if callee != dec && callee != pub {
				continue
			}
			n++
			key := fmt.Sprintf("%s#%d", fw.ShortFn(fn), n)
			args := c.Common().Args
			a := newC12AP()
			if len(args) != 4 {
				ru.Undecided(key, p.Rel(c.Pos()), "unexpected signature")
				continue
			}
			reader := a.of(args[1])
			var lit *ssa.Alloc
			if ld, ok := args[3].(*ssa.UnOp); ok && ld.Op == token.MUL {
				lit, _ = ld.X.(*ssa.Alloc)
			}
			if lit == nil {
				if _, ok := args[3].(*ssa.Parameter); ok {
					ru.Ok(key, p.Rel(c.Pos()), "options forwarded from the caller")
				} else {
					ru.Undecided(key, p.Rel(c.Pos()), "decode options are not a literal")
				}
				continue
			}
			isRoot, known := false, true
			for _, ref := range *lit.Referrers() {
				fa, ok := ref.(*ssa.FieldAddr)
				if !ok || fa.Field != iRoot || fa.Referrers() == nil {
					continue
				}
				for _, r2 := range *fa.Referrers() {
					if st, ok := r2.(*ssa.Store); ok && st.Addr == ssa.Value(fa) {
						if cst, ok := st.Val.(*ssa.Const); ok && cst.Value != nil {
							isRoot = cst.Value.ExactString() == "true"
						} else {
							known = false
						}
					}
				}
			}
			if !known {
				ru.Undecided(key, p.Rel(c.Pos()), "Options.IsRoot is not a constant")
				continue
			}
			own := reader == "P0.bitBuf" && pkgRel(fn) == "pkg/decode"
			if own {
				ru.Check(!isRoot, key, p.Rel(c.Pos()), "decodes the decoder's own buffer: not a new root", "sub-decode of the decoder's own buffer is marked IsRoot: buffer_root/format_root and paths of its values stop inside the buffer")
			} else {
				ru.Check(isRoot, key, p.Rel(c.Pos()), "decodes another buffer ("+reader+"): new buffer root", "sub-decode of another buffer ("+reader+") is not marked IsRoot: buffer_root of its values is the enclosing buffer's root and the tree is never post-processed as a root")
			}
		}
	}
}

// ---------------------------------------------------------------------------
// C12.name: the name a value is filed under is the name it reports

func c12Name(r *fw.Run, p *fw.Program) {
	ru := r.Rule("C12.name", "Value.Name is only written while the value is not yet attached: in its constructing literal or before the AddChild of the same value (AddChild files it in ByName under the name it has then; valuePath reports the name it has later)", 6)
	valT := p.NamedType("pkg/decode", "Value")
	iName := c12Field(valT, "Name")
	addChild := p.Fn("(*pkg/decode.D).AddChild")
	if valT == nil || iName < 0 || addChild == nil {
		ru.Undecided("anchor", "", "decode.Value.Name / (*D).AddChild not found")
		return
	}
	for _, fn := range p.FqFunctions() {
		n := 0
		fw.EachInstr(fn, func(ins ssa.Instruction) {
			st, ok := ins.(*ssa.Store)
			if !ok || !isFieldAddrOf(st.Addr, valT, iName) {
				return
			}
			n++
			key := fmt.Sprintf("%s#%d", fw.ShortFn(fn), n)
			base := st.Addr.(*ssa.FieldAddr).X
			if al, ok := base.(*ssa.Alloc); ok && al.Heap {
				// fresh value: must not have been attached before the store
				bad := false
				for _, c := range fw.CallsIn(fn) {
					if c.Common().StaticCallee() == addChild && len(c.Common().Args) == 2 && c.Common().Args[1] == ssa.Value(al) && c12Before(c, st) {
						bad = true
					}
				}
				ru.Check(!bad, key, p.Rel(st.Pos()), "name of a freshly built value", "Name of a value is changed after AddChild filed it under its old name")
				return
			}
			a := newC12AP()
			b := a.of(base)
			var adds []ssa.CallInstruction
			for _, c := range fw.CallsIn(fn) {
				if c.Common().StaticCallee() == addChild && len(c.Common().Args) == 2 && a.of(c.Common().Args[1]) == b {
					adds = append(adds, c)
				}
			}
			if len(adds) == 0 {
				ru.Fail(key, p.Rel(st.Pos()), "renames "+b+", a value this function did not build and does not attach afterwards: its parent keeps it under the old name")
				return
			}
			good := true
			for _, c := range adds {
				if !c12Before(st, c) || c12Before(c, st) {
					good = false
				}
			}
			ru.Check(good, key, p.Rel(st.Pos()), "named before AddChild of the same value", "Name of "+b+" is written after (or not on every path before) its AddChild: ByName key and reported name differ")
		})
	}
}

// c12Before: x executes before y on every path to y (same block earlier, or x's block strictly
// dominates y's block).
func c12Before(x, y ssa.Instruction) bool {
	if x.Block() == y.Block() {
		return c12InstrIndex(x) < c12InstrIndex(y)
	}
	return x.Block().Dominates(y.Block())
}

func c12IsLoopHeader(h *ssa.BasicBlock) bool {
	for _, pr := range h.Preds {
		if pr == h || h.Dominates(pr) {
			return true
		}
	}
	return false
}

func c12InstrIndex(ins ssa.Instruction) int {
	for i, x := range ins.Block().Instrs {
		if x == ins {
			return i
		}
	}
	return -1
}

var _ = sort.Strings

// ---------------------------------------------------------------------------
// positive controls

func init() {
	add := func(id, rule, file, old, new, key string) {
		AddControl(Control{ID: id, Prop: "C12", Rule: rule, File: file, Old: old, New: new, ExpectKey: key})
	}
	const idec = "pkg/interp/decode.go"
	const iint = "pkg/interp/interp.go"
	const dval = "pkg/decode/value.go"
	const ddec = "pkg/decode/decode.go"
	const ijq = "pkg/interp/internal.jq"
	const djq = "pkg/interp/decode.jq"

	add("C12-keys-root-bufferroot", "C12.keys", idec, "makeDecodeValue(dv.Root(), decodeValueValue)", "makeDecodeValue(dv.BufferRoot(), decodeValueValue)", "key:_root")
	add("C12-keys-parent-kind", "C12.keys", idec, "return makeDecodeValue(dv.Parent, decodeValueValue)", "return makeDecodeValue(dv.Parent, decodeValueActual)", "key:_parent")
	add("C12-keys-parent-nonil", "C12.keys", idec, "if dv.Parent == nil {\n\t\t\treturn nil\n\t\t}", "if dv.Parent == nil && dv.IsRoot {\n\t\t\treturn nil\n\t\t}", "key:_parent")
	add("C12-keys-index-sentinel", "C12.keys", idec, "if dv.Index != -1 {", "if dv.Index != 0 {", "key:_index")
	add("C12-keys-path-parent", "C12.keys", idec, "return valuePath(dv)", "return valuePath(dv.BufferRoot())", "key:_path")

	add("C12-roots-wrapper-flags", "C12.roots", dval, "func (v *Value) BufferRoot() *Value { return v.root(true, false) }", "func (v *Value) BufferRoot() *Value { return v.root(false, true) }", "wrapper:BufferRoot")
	add("C12-roots-flag-swapped", "C12.roots", dval, "if findSubRoot && rootV.IsRoot {", "if findFormatRoot && rootV.IsRoot {", "root:exit")
	add("C12-roots-negated", "C12.roots", dval, "if findFormatRoot && rootV.Format != nil {", "if findFormatRoot && rootV.Format == nil {", "root:exit")
	add("C12-roots-return-receiver", "C12.roots", dval, "\t\trootV = rootV.Parent\n\t}\n\treturn rootV", "\t\trootV = rootV.Parent\n\t}\n\treturn v", "root:return")

	add("C12-path-parent-index", "C12.path", iint, "parts = append([]any{v.Index}, parts...)", "parts = append([]any{v.Parent.Index}, parts...)", "array-parent")
	add("C12-path-swapped", "C12.path", iint, "parts = append([]any{v.Name}, parts...)", "parts = append([]any{v.Index}, parts...)", "struct-parent")
	add("C12-path-order", "C12.path", iint, "parts = append([]any{v.Name}, parts...)", "parts = append(parts, v.Name)", "append-order")
	add("C12-path-stops-early", "C12.path", iint, "\tfor v.Parent != nil {\n\t\tswitch vv := v.Parent.V.(type) {", "\tfor v.Parent != nil && !v.IsRoot {\n\t\tswitch vv := v.Parent.V.(type) {", "exit")

	add("C12-resolve-index-off", "C12.resolve", idec, "return makeDecodeValue((v.Compound.Children)[index], decodeValueValue)", "return makeDecodeValue((v.Compound.Children)[index+1], decodeValueValue)", "array-index")
	add("C12-resolve-each-name", "C12.resolve", idec, "props[i] = gojq.PathValue{Path: f.Name, Value: makeDecodeValue(f, decodeValueValue)}", "props[i] = gojq.PathValue{Path: f.Description, Value: makeDecodeValue(f, decodeValueValue)}", "struct-each")
	add("C12-resolve-dispatch", "C12.resolve", idec, "\t\tif vv.IsArray {\n\t\t\treturn NewArrayDecodeValue(dv, out, vv)", "\t\tif !vv.IsArray {\n\t\t\treturn NewArrayDecodeValue(dv, out, vv)", "dispatch")

	add("C12-index-off-by-one", "C12.index", dval, "\t\t\t\t\tf.Index = i\n", "\t\t\t\t\tf.Index = i + 1\n", "array:value")
	add("C12-index-skipped", "C12.index", dval, "\t\t\t\tfor i, f := range vv.Children {\n\t\t\t\t\tf.Index = i\n", "\t\t\t\tfor i, f := range vv.Children {\n\t\t\t\t\tif f.IsRoot {\n\t\t\t\t\t\tcontinue\n\t\t\t\t\t}\n\t\t\t\t\tf.Index = i\n", "array:every")
	add("C12-index-before-sort", "C12.index", dval, "\t\t\tv.Index = -1\n\t\t\tif vv.IsArray {", "\t\t\tv.Index = -1\n\t\t\tslices.SortStableFunc(vv.Children, func(a, b *Value) int {\n\t\t\t\treturn cmp.Compare(a.Range.Start, b.Range.Start)\n\t\t\t})\n\t\t\tif !vv.IsArray {", "array:")
	add("C12-index-owner", "C12.index", ddec, "\tv.IsRoot = true\n", "\tv.IsRoot = true\n\tv.Index = -1\n", "owner:")
	add("C12-index-children-rewrite", "C12.index", "pkg/interp/decode.go", "func (v ArrayDecodeValue) JQValueSliceLen() any { return len(v.Compound.Children) }", "func (v ArrayDecodeValue) JQValueSliceLen() any {\n\tv.Compound.Children = v.Compound.Children[:len(v.Compound.Children):len(v.Compound.Children)]\n\treturn len(v.Compound.Children)\n}", "children:")
	add("C12-index-struct-dropped", "C12.index", dval, "\t\t\t\tfor _, f := range vv.Children {\n\t\t\t\t\tf.Index = -1\n\t\t\t\t}", "\t\t\t\tfor range vv.Children {\n\t\t\t\t}", "struct:missing")

	add("C12-post-decode-cond", "C12.post", ddec, "\t\tif opts.IsRoot {\n\t\t\td.Value.postProcess()", "\t\tif opts.IsRoot && opts.FillGaps {\n\t\t\td.Value.postProcess()", "through:decode")
	add("C12-post-fill-after", "C12.post", ddec, "\t\tif opts.IsRoot {\n\t\t\td.Value.postProcess()\n\t\t}\n", "\t\tif opts.IsRoot {\n\t\t\td.Value.postProcess()\n\t\t}\n\t\tif opts.FillGaps {\n\t\t\td.FillGaps(ranges.Range{Start: 0, Len: decodeRange.Len}, \"late\")\n\t\t}\n", "last:pkg/decode.decode")
	const rootHead = "\tcd := d.fieldDecoder(name, br, c)\n\tcd.Value.IsRoot = true\n\td.AddChild(cd.Value)\n\t// also post process partial tree if fn panics with a decode error,\n\t// walk of the parent root do not descend into this root\n"
	add("C12-post-nested-missing", "C12.post", ddec, "\tc := &Compound{IsArray: false}\n"+rootHead+"\tdefer cd.Value.postProcess()\n\tfn(cd)\n", "\tc := &Compound{IsArray: false}\n"+rootHead+"\tfn(cd)\n", "through:(*pkg/decode.D).FieldStructRootBitBufFn")
	add("C12-post-callback-after", "C12.post", ddec, "\tc := &Compound{IsArray: true}\n"+rootHead+"\tdefer cd.Value.postProcess()\n\tfn(cd)\n", "\tc := &Compound{IsArray: true}\n"+rootHead+"\tcd.Value.postProcess()\n\tfn(cd)\n", "last:(*pkg/decode.D).FieldArrayRootBitBufFn")
	add("C12-post-abort-skips", "C12.post", ddec, "\tc := &Compound{IsArray: false}\n"+rootHead+"\tdefer cd.Value.postProcess()\n\tfn(cd)\n", "\tc := &Compound{IsArray: false}\n"+rootHead+"\tfn(cd)\n\tcd.Value.postProcess()\n", "abort:(*pkg/decode.D).FieldStructRootBitBufFn")

	add("C12-post-late-closure", "C12.post", "format/tls/tls.go", "\t\treturn format.TCP_Stream_Out{InArg: tc}\n", "\t\treturn format.TCP_Stream_Out{InArg: tc, PostFn: func(any) { d.FieldValueStr(\"late\", \"x\") }}\n", "late:TCP_Stream_Out.PostFn:format/tls.decodeTLS#2")
	add("C12-bufroot-bitbuf", "C12.bufroot", ddec, "\t\tFillGaps:    true,\n\t\tIsRoot:      true,", "\t\tFillGaps:    true,\n\t\tIsRoot:      false,", "TryFieldFormatBitBuf")
	add("C12-bufroot-range", "C12.bufroot", ddec, "\t\tFillGaps:    true,\n\t\tIsRoot:      false,\n\t\tRange:       ranges.Range{Start: firstBit, Len: nBits},", "\t\tFillGaps:    true,\n\t\tIsRoot:      true,\n\t\tRange:       ranges.Range{Start: firstBit, Len: nBits},", "TryFieldFormatRange")

	add("C12-name-after-add", "C12.name", ddec, "\tv.Name = name\n\tv.RootReader = d.bitBuf\n\tv.Range = ranges.Range{Start: firstBit, Len: nBits}\n\td.AddChild(v)\n", "\tv.RootReader = d.bitBuf\n\tv.Range = ranges.Range{Start: firstBit, Len: nBits}\n\td.AddChild(v)\n\tv.Name = name\n", "FieldRangeFn")

	add("C12-jqkeys-buffer-root", "C12.jqkeys", djq, "def buffer_root: _decode_value(._buffer_root);", "def buffer_root: _decode_value(._format_root);", "def:buffer_root")
	add("C12-jqkeys-parents", "C12.jqkeys", djq, "        ( ._parent\n", "        ( ._buffer_root\n", "def:parents")

	add("C12-escape-no-backslash", "C12.escape", ijq, `def _escape_ident: gsub("(?<g>[\\\\\"])"; "\\\(.g)");`, `def _escape_ident: gsub("(?<g>[\\\"])"; "\\\(.g)");`, "_escape_ident:class")
	add("C12-escape-first-only", "C12.escape", ijq, `def _escape_ident: gsub("(?<g>[\\\\\"])"; "\\\(.g)");`, `def _escape_ident: sub("(?<g>[\\\\\"])"; "\\\(.g)");`, "_escape_ident:global")
	add("C12-escape-replacement", "C12.escape", ijq, `def _escape_ident: gsub("(?<g>[\\\\\"])"; "\\\(.g)");`, `def _escape_ident: gsub("(?<g>[\\\\\"])"; "\\\\\(.g)");`, "_escape_ident:replacement")
	add("C12-escape-ident-unanchored", "C12.escape", ijq, `test("^[a-zA-Z_][a-zA-Z_0-9]*$")`, `test("^[a-zA-Z_][a-zA-Z_0-9]*")`, "_is_ident")
	add("C12-escape-ident-dash", "C12.escape", ijq, `test("^[a-zA-Z_][a-zA-Z_0-9]*$")`, `test("^[a-zA-Z_][a-zA-Z_0-9-]*$")`, "_is_ident")

	add("C12-expr-unescaped", "C12.expr", ijq, `"\"\(_escape_ident)\""`, `"\"\(.)\""`, "_path_to_expr:quoted")
	add("C12-expr-no-null", "C12.expr", ijq, `_eval("null | path(\(.))"; {})`, `_eval("path(\(.))"; {})`, "_expr_to_path")
	add("C12-expr-brackets", "C12.expr", ijq, "        ( (\"[\" | _ansi_if($opts; \"array\"))\n        , _ansi_if($opts; \"number\")\n        , (\"]\" | _ansi_if($opts; \"array\"))", "        ( (\"[\" | _ansi_if($opts; \"array\"))\n        , (\"]\" | _ansi_if($opts; \"array\"))\n        , _ansi_if($opts; \"number\")", "_path_to_expr:index")
	add("C12-expr-string-cond", "C12.expr", ijq, `elif _is_ident then _ansi_if($opts; "objectkey")`, `elif _is_ident or _is_string then _ansi_if($opts; "objectkey")`, "_path_to_expr:unquoted:_is_string")
	add("C12-expr-leading-and", "C12.expr", ijq, `if length == 0 or (.[0] | type) != "string" then`, `if length > 0 and (.[0] | type) != "string" then`, "_path_to_expr:leading")
	add("C12-expr-leading-extra", "C12.expr", ijq, `if length == 0 or (.[0] | type) != "string" then`, `if length == 1 or (.[0] | type) != "string" then`, "_path_to_expr:leading")
	add("C12-expr-stages", "C12.expr", ijq, "  | map(\n      if _is_number then", "  | .[1:]\n  | map(\n      if _is_number then", "_path_to_expr:stages")
	add("C12-expr-colour", "C12.expr", ijq, "def _path_to_expr: _path_to_expr(null);", "def _path_to_expr: _path_to_expr({color: true});", "_path_to_expr/0:plain")
	add("C12-expr-ansi-if-else", "C12.expr", "pkg/interp/ansi.jq", "def _ansi_if($opts; $name):\n  if $opts.color then", "def _ansi_if($opts; $name):\n  if $opts.color | not then", "_ansi_if")
	add("C12-expr-is-number", "C12.expr", ijq, `def _is_number: type == "number";`, `def _is_number: type == "number" or type == "null";`, "def:_is_number")
	add("C12-jqkeys-decode-value-swapped", "C12.jqkeys", djq, "  if _is_decode_value then f\n  else ef", "  if _is_decode_value then ef\n  else f", "def:_decode_value/2")

	add("C12-resolve-index-marker", "C12.resolve", idec, "\tif index < 0 {\n\t\treturn nil\n\t}\n\treturn makeDecodeValue((v.Compound.Children)[index]", "\tif index <= 0 {\n\t\treturn nil\n\t}\n\treturn makeDecodeValue((v.Compound.Children)[index]", "array-index-marker")
	add("C12-resolve-slicelen", "C12.resolve", idec, "func (v ArrayDecodeValue) JQValueSliceLen() any { return len(v.Compound.Children) }", "func (v ArrayDecodeValue) JQValueSliceLen() any { return len(v.Compound.Children) - 1 }", "array-len:JQValueSliceLen")
	add("C12-resolve-struct-key-has", "C12.resolve", idec, "\t\t\t\treturn false\n\t\t\t}\n\t\t\tif v.Compound.ByName != nil {\n\t\t\t\tif _, ok := v.Compound.ByName[stringKey]; ok {", "\t\t\t\treturn false\n\t\t\t}\n\t\t\tif v.Compound.ByName != nil {\n\t\t\t\tif _, ok := v.Compound.ByName[stringKey]; !ok {", "struct-key-has")
	add("C12-resolve-array-has", "C12.resolve", idec, "return intKey >= 0 && intKey < len(v.Compound.Children)", "return intKey > 0 && intKey < len(v.Compound.Children)", "array-has")
	add("C12-resolve-array-has-upper", "C12.resolve", idec, "return intKey >= 0 && intKey < len(v.Compound.Children)", "return intKey >= 0 && intKey <= len(v.Compound.Children)", "array-has")
	add("C12-resolve-array-keys", "C12.resolve", idec, "\t\tvs[i] = i\n", "\t\tvs[i] = i + 1\n", "array-keys")
	add("C12-resolve-struct-keys", "C12.resolve", idec, "\t\tvs[i] = f.Name\n", "\t\tvs[i] = f.Description\n", "struct-keys")
	add("C12-resolve-fallback-key", "C12.resolve", idec, "\tv := valueHas(name)\n\tif b, ok := v.(bool); ok && b {", "\tv := valueHas(name)\n\tif b, ok := v.(bool); ok && !b {", "fallback-key")
	add("C12-resolve-fallback-has", "C12.resolve", idec, "\tv := valueHas(key)\n\tif b, ok := v.(bool); ok && !b {", "\tv := valueHas(key)\n\tif b, ok := v.(bool); ok && b {", "fallback-has")
	add("C12-index-preorder", "C12.index", dval, "if err := v.WalkRootPostOrder(func(v *Value, _ *Value, _ int, _ int) error {\n\t\tswitch vv := v.V.(type) {", "if err := v.WalkRootPreOrder(func(v *Value, _ *Value, _ int, _ int) error {\n\t\tswitch vv := v.V.(type) {", "walk-order")
	add("C12-byname-remove-key", "C12.byname", dval, "delete(fv.ByName, v.Name)", "delete(fv.ByName, p.Name)", "delete-key")
	add("C12-walk-skips-start", "C12.walk", dval, "if opts.OneRoot && wv != v && wv.IsRoot {", "if opts.OneRoot && wv.IsRoot {", "Walk:one-root-skip")
	add("C12-walk-post-before-children", "C12.walk", dval, "\t\tif !opts.PreOrder {\n\t\t\terr := opts.Fn(wv, rootV, depth, rootDepth+rootDepthDelta)", "\t\tif opts.PreOrder {\n\t\t\terr := opts.Fn(wv, rootV, depth, rootDepth+rootDepthDelta)", "Walk:order")
	add("C12-layer-extkey-first", "C12.layer", idec, "func (v StructDecodeValue) JQValueKey(name string) any {\n\treturn valueOrFallbackKey(", "func (v StructDecodeValue) JQValueKey(name string) any {\n\tif bv := v.decodeValueBase.JQValueKey(name); bv != nil {\n\t\treturn bv\n\t}\n\treturn valueOrFallbackKey(", "returns:StructDecodeValue.JQValueKey")
	add("C12-unique-parent-rehang", "C12.unique", ddec, "\tv.Name = name\n\tv.RootReader = d.bitBuf\n\tv.Range = ranges.Range{Start: firstBit, Len: nBits}\n\td.AddChild(v)\n", "\tv.Name = name\n\tv.RootReader = d.bitBuf\n\tv.Range = ranges.Range{Start: firstBit, Len: nBits}\n\td.AddChild(v)\n\tv.Parent = d.Value.Parent\n", "parent-owner:")
	add("C12-bufroot-maker-unmarked", "C12.bufroot", ddec, "\tc := &Compound{IsArray: false}\n\tcd := d.fieldDecoder(name, br, c)\n\tcd.Value.IsRoot = true\n", "\tc := &Compound{IsArray: false}\n\tcd := d.fieldDecoder(name, br, c)\n", "maker:(*pkg/decode.D).FieldStructRootBitBufFn")
	add("C12-bufroot-value-unmarked", "C12.bufroot", ddec, "\tv.RootReader = br\n\tv.IsRoot = true\n", "\tv.RootReader = br\n", "maker:(*pkg/decode.D).FieldRootBitBuf")
	add("C12-bufroot-own-marked", "C12.bufroot", ddec, "\tc := &Compound{IsArray: true}\n\tcd := d.fieldDecoder(name, d.bitBuf, c)\n\td.AddChild(cd.Value)\n", "\tc := &Compound{IsArray: true}\n\tcd := d.fieldDecoder(name, d.bitBuf, c)\n\tcd.Value.IsRoot = true\n\td.AddChild(cd.Value)\n", "maker:(*pkg/decode.D).FieldArray")
	add("C12-unique-errorf", "C12.unique", ddec, "d.Fatalf(\"%q already exist in struct %s\", v.Name, d.Value.Name)", "d.Errorf(\"%q already exist in struct %s\", v.Name, d.Value.Name)", "AddChild:duplicate-test")
	add("C12-expr-wrapper", "C12.expr", "pkg/interp/funcs.jq", "def expr_to_path: _expr_to_path;", "def expr_to_path: _path_to_expr;", "def:expr_to_path")
}
