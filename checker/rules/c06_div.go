package rules

import (
	"fmt"
	"go/token"
	"strings"

	"fqverif/fw"

	"golang.org/x/tools/go/ssa"
)

// C06.div: integer division in decoder code never divides by an unchecked input value
//
// An integer / or % by zero is an unrecoverable runtime panic. Rule: in the decoder packages every integer
// division or modulo with a non-constant divisor has the divisor proved non-zero at the site: by a dominating
// guard whose failing arm does not continue, an interval (reader width + offset, len of a non-empty table),
// a constant at every static call site (lifting), or a listed reason.
func c06Div(r *fw.Run, p *fw.Program) {
	ru := r.Rule("C06.div", "in decoder packages (format/..., pkg/decode) every integer / or % with a non-constant divisor has the divisor proved non-zero (dominating no-return guard, interval, or constant at every call site): a zero from the input is an unrecoverable divide-by-zero panic", 10)
	for _, fn := range p.FqFunctions() {
		pr := pkgRel(fn)
		if !strings.HasPrefix(pr, "format") && pr != "pkg/decode" {
			continue
		}
		if strings.HasPrefix(pr, "format/tls/tlsdecrypt") {
			continue // port of crypto/tls key schedule: no input-controlled divisors
		}
		if fn.TypeParams().Len() > 0 && len(fn.TypeArgs()) == 0 {
			continue
		}
		var env *fw.IntervalEnv
		ord := 0
		fw.EachInstr(fn, func(ins ssa.Instruction) {
			x, ok := ins.(*ssa.BinOp)
			if !ok || (x.Op != token.QUO && x.Op != token.REM) || !isIntT(x.Type()) {
				return
			}
			if c, ok := x.Y.(*ssa.Const); ok && c.Value != nil {
				return
			}
			if env == nil {
				env = newC13Env(fn)
				env.CallRange = readerCallRange
			}
			ord++
			key := fmt.Sprintf("%s|div|%d", fw.ShortFn(fn), ord)
			okD, why := provedOrLifted(p, fn, env, x.Y, x.Block(), needNonZero, 0)
			if okD {
				ru.Ok(key, p.Rel(x.Pos()), "divisor proved non-zero")
				return
			}
			if ex, found := c06DivExceptions[key]; found {
				if bad := ex.check(p, fn); bad != "" {
					ru.Fail(key, p.Rel(x.Pos()), "the exception for this division ("+ex.reason+") no longer holds: "+bad)
					return
				}
				ru.Except(key, p.Rel(x.Pos()), ex.reason+" [precondition checked]")
				return
			}
			if why != "" {
				why = " [" + why + "]"
			}
			ru.Fail(key, p.Rel(x.Pos()), "integer "+x.Op.String()+" by "+env.Poly.Of(x.Y).String()+" which is not proved non-zero: a zero in the input kills fq with 'integer divide by zero'"+why)
		})
	}
}

type c06DivException struct {
	reason string
	check  func(p *fw.Program, fn *ssa.Function) string
}

var c06DivExceptions = map[string]c06DivException{
	"format/fit.fieldUint|div|1":  {"divisor is expectedSizeMap[fDef.Type]; the function is only called from switch arms on fDef.Type whose case constants are all keys of expectedSizeMap, and every value of that table is a non-zero constant", c06FitSizeKeys},
	"format/fit.fieldSint|div|1":  {"same as fieldUint", c06FitSizeKeys},
	"format/fit.fieldFloat|div|1": {"same as fieldUint", c06FitSizeKeys},
	"format/postgres/common.RoundDown|div|1": {"helper without any caller in fq (only its unit test uses it)", func(p *fw.Program, fn *ssa.Function) string {
		if len(callersOf(p, fn)) != 0 {
			return "the helper now has callers: the divisor must be proved non-zero at each of them"
		}
		return ""
	}},
}

// c06FitSizeKeys: every static call site of fn is entered only through true edges of `x == "<const>"` tests whose
// constant is a key of format/fit.expectedSizeMap, and all values stored into that map are non-zero constants.
func c06FitSizeKeys(p *fw.Program, fn *ssa.Function) string {
	var g *ssa.Global
	for _, pk := range p.SSA.AllPackages() {
		if pk.Pkg.Path() == fw.Mod+"/format/fit" {
			g, _ = pk.Members["expectedSizeMap"].(*ssa.Global)
		}
	}
	if g == nil {
		return "format/fit.expectedSizeMap not found"
	}
	keys := map[string]bool{}
	bad := ""
	for _, f := range p.FqFunctions() {
		if f.Pkg == nil || f.Pkg != g.Pkg {
			continue
		}
		fw.EachInstr(f, func(ins ssa.Instruction) {
			mu, ok := ins.(*ssa.MapUpdate)
			if !ok {
				return
			}
			// map literal: updates of the map later stored into the global
			isG := false
			if u, ok := mu.Map.(*ssa.UnOp); ok && u.X == ssa.Value(g) {
				isG = true
			}
			if mk, ok := mu.Map.(*ssa.MakeMap); ok && mk.Referrers() != nil {
				for _, r := range *mk.Referrers() {
					if st, ok := r.(*ssa.Store); ok && st.Addr == ssa.Value(g) {
						isG = true
					}
				}
			}
			if !isG {
				return
			}
			k, kok := mu.Key.(*ssa.Const)
			v, vok := mu.Value.(*ssa.Const)
			if !kok || !vok || v.Value == nil || v.Uint64() == 0 {
				bad = "expectedSizeMap has a zero or non-constant entry"
				return
			}
			if s, ok := constString(k); ok {
				keys[s] = true
			}
		})
	}
	if bad != "" {
		return bad
	}
	if len(keys) < 8 {
		return "expectedSizeMap initialiser not recognised"
	}
	cs := callersOf(p, fn)
	if len(cs) == 0 {
		return "no static call site"
	}
	for _, c := range cs {
		b := c.Block()
		if len(b.Preds) == 0 {
			return "call site in " + fw.ShortFn(c.Parent()) + " is not inside a case arm"
		}
		for _, pr := range b.Preds {
			iff, ok := pr.Instrs[len(pr.Instrs)-1].(*ssa.If)
			if !ok || pr.Succs[0] != b {
				return "call site in " + fw.ShortFn(c.Parent()) + " is reachable other than through a matching case"
			}
			bo, ok := iff.Cond.(*ssa.BinOp)
			if !ok || bo.Op != token.EQL {
				return "call site in " + fw.ShortFn(c.Parent()) + " is guarded by something else than a string equality"
			}
			s, ok := constString(bo.Y)
			if !ok {
				s, ok = constString(bo.X)
			}
			if !ok || !keys[s] {
				return "case constant " + s + " is not a key of expectedSizeMap (size 0 -> division by zero)"
			}
		}
	}
	return ""
}
