package rules

import (
	"fmt"
	"go/token"
	"go/types"
	"sort"
	"strings"

	"golang.org/x/tools/go/ssa"

	"fqverif/fw"
)

// ---------------------------------------------------------------------------
// value patterns

// c09Pat is a structural pattern for an SSA value: a polynomial over role atoms, a call of a
// resolved callee with argument patterns (optionally one result of its tuple), or a struct
// composite literal given by its field stores.
type c09Pat struct {
	poly string
	call string
	args []c09Pat
	idx  int
	lit  map[string]c09Pat
	any  bool
}

func pP(s string) c09Pat { return c09Pat{poly: s, idx: -1} }
func pAny() c09Pat       { return c09Pat{any: true, idx: -1} }
func pCall(callee string, args ...c09Pat) c09Pat {
	return c09Pat{call: callee, args: args, idx: -1}
}
func pCallN(callee string, idx int, args ...c09Pat) c09Pat {
	return c09Pat{call: callee, args: args, idx: idx}
}
func pLit(kv ...any) c09Pat {
	m := map[string]c09Pat{}
	for i := 0; i+1 < len(kv); i += 2 {
		m[kv[i].(string)] = kv[i+1].(c09Pat)
	}
	return c09Pat{lit: m, idx: -1}
}

func (pt c09Pat) String() string {
	switch {
	case pt.any:
		return "_"
	case pt.call != "":
		var a []string
		for _, x := range pt.args {
			a = append(a, x.String())
		}
		s := pt.call + "(" + strings.Join(a, ", ") + ")"
		if pt.idx >= 0 {
			s += fmt.Sprintf("#%d", pt.idx)
		}
		return s
	case pt.lit != nil:
		var ks []string
		for k := range pt.lit {
			ks = append(ks, k)
		}
		sort.Strings(ks)
		var a []string
		for _, k := range ks {
			a = append(a, k+": "+pt.lit[k].String())
		}
		return "{" + strings.Join(a, ", ") + "}"
	}
	return pt.poly
}

// c09LitFields collects the stores into the fields of a composite-literal local.
func c09LitFields(a ssa.Value, prefix string, out map[string]ssa.Value) {
	if a.Referrers() == nil {
		return
	}
	for _, ref := range *a.Referrers() {
		fa, ok := ref.(*ssa.FieldAddr)
		if !ok || fa.X != a {
			continue
		}
		name := prefix + fieldNameOf(fa.X.Type(), fa.Field)
		if fa.Referrers() != nil {
			for _, r2 := range *fa.Referrers() {
				if st, ok := r2.(*ssa.Store); ok && st.Addr == ssa.Value(fa) {
					out[name] = st.Val
					// `r: ranges.Range{Len: l}` is lowered to a zero store of the whole sub-struct
					// followed by stores of the named fields: the zero store sets nothing
					if c, isC := st.Val.(*ssa.Const); isC && c.Value == nil {
						if _, isStruct := c.Type().Underlying().(*types.Struct); isStruct {
							delete(out, name)
						}
					}
				}
			}
		}
		c09LitFields(fa, name+".", out)
	}
}

// c09LitOf returns the composite-literal local a value was loaded from (nil if v is not one).
func (s *c09Sym) litOf(v ssa.Value) *ssa.Alloc {
	ld, ok := v.(*ssa.UnOp)
	if !ok || ld.Op != token.MUL {
		return nil
	}
	a, ok := ld.X.(*ssa.Alloc)
	if !ok {
		return nil
	}
	if _, isRoot := s.root[a]; isRoot {
		return nil
	}
	if c09WholeStore(a) != nil {
		return nil
	}
	return a
}

func (s *c09Sym) match(v ssa.Value, pt c09Pat) (bool, string) {
	if pt.any {
		return true, ""
	}
	v = c09StripIface(v)
	switch {
	case pt.call != "":
		if pt.idx >= 0 {
			ex, ok := v.(*ssa.Extract)
			if !ok || ex.Index != pt.idx {
				return false, fmt.Sprintf("got %s, want result #%d of %s", s.Desc(v), pt.idx, pt.call)
			}
			v = ex.Tuple
		}
		c, ok := v.(*ssa.Call)
		if !ok {
			return false, fmt.Sprintf("got %s, want a call of %s", s.Desc(v), pt.call)
		}
		name := c09CallName(c)
		if name != pt.call {
			return false, fmt.Sprintf("got a call of %s, want %s", name, pt.call)
		}
		args := c.Call.Args
		if c.Call.IsInvoke() {
			args = append([]ssa.Value{c.Call.Value}, args...)
		}
		if len(args) != len(pt.args) {
			return false, fmt.Sprintf("%s called with %d arguments, want %d", name, len(args), len(pt.args))
		}
		for i, a := range args {
			if ok, why := s.match(a, pt.args[i]); !ok {
				return false, fmt.Sprintf("%s argument %d: %s", pt.call, i, why)
			}
		}
		return true, ""
	case pt.lit != nil:
		a := s.litOf(v)
		if a == nil {
			return false, fmt.Sprintf("got %s, want a composite literal %s", s.Desc(v), pt.String())
		}
		return s.matchLit(a, pt)
	}
	return s.is(v, pt.poly)
}

func (s *c09Sym) matchLit(a *ssa.Alloc, pt c09Pat) (bool, string) {
	got := map[string]ssa.Value{}
	c09LitFields(a, "", got)
	var ks []string
	for k := range pt.lit {
		ks = append(ks, k)
	}
	sort.Strings(ks)
	for _, k := range ks {
		want := pt.lit[k]
		gv, ok := got[k]
		if !ok {
			// whole sub-struct given by its parts or unset = zero
			if want.poly == "0" {
				conflict := false
				for g := range got {
					if c09Overlap(g, k) {
						conflict = true
					}
				}
				if !conflict {
					continue
				}
			}
			return false, fmt.Sprintf("field %s is not set (want %s)", k, want.String())
		}
		if ok, why := s.match(gv, want); !ok {
			return false, fmt.Sprintf("field %s: %s", k, why)
		}
	}
	return true, ""
}

func c09CallName(c *ssa.Call) string {
	if c.Call.IsInvoke() {
		return "invoke:" + c.Call.Method.Name()
	}
	if f := c.Call.StaticCallee(); f != nil {
		return fw.ShortFn(f)
	}
	if b, ok := c.Call.Value.(*ssa.Builtin); ok {
		return "builtin:" + b.Name()
	}
	return "dynamic"
}

// c09FrontPad is the polynomial atom of (M - L%M) % M as the framework normalises it.
func c09FrontPad(L, M *fw.Poly) *fw.Poly {
	in := fw.PAtom("(" + L.String() + " % " + M.String() + ")")
	return fw.PAtom("(" + M.Sub(in).String() + " % " + M.String() + ")")
}

func c09Div(N, D *fw.Poly) *fw.Poly { return fw.PAtom("(" + N.String() + " / " + D.String() + ")") }
func c09Rem(N, D *fw.Poly) *fw.Poly { return fw.PAtom("(" + N.String() + " % " + D.String() + ")") }

// isCeilDiv: v == ceil(N/D) for N>=0, D>0: either (N+D-1)/D or q := N/D; if N%D != 0 { q++ }.
func (s *c09Sym) isCeilDiv(v ssa.Value, N, D *fw.Poly) (bool, string) {
	got := s.Of(v)
	if got.Equal(c09Div(N.Add(D).Sub(fw.PConst(1)), D)) {
		return true, got.String()
	}
	ph, ok := v.(*ssa.Phi)
	if !ok || len(ph.Edges) != 2 {
		return false, "got " + got.String() + ", want the quotient " + c09Div(N, D).String() + " rounded up"
	}
	q := c09Div(N, D)
	rem := c09Rem(N, D)
	p0, p1 := s.Of(ph.Edges[0]), s.Of(ph.Edges[1])
	iq := -1
	switch {
	case p0.Equal(q) && p1.Equal(q.Add(fw.PConst(1))):
		iq = 0
	case p1.Equal(q) && p0.Equal(q.Add(fw.PConst(1))):
		iq = 1
	default:
		return false, fmt.Sprintf("got phi{%s | %s}, want {%s | %s + 1}", p0, p1, q, q)
	}
	predQ, predQ1 := ph.Block().Preds[iq], ph.Block().Preds[1-iq]
	if !s.E().Proves(predQ1, fw.Cmp{P: rem, Rel: fw.NE}) {
		return false, "the +1 arm is not guarded by " + rem.String() + " != 0"
	}
	if predQ1.Idom() != predQ && !s.E().Proves(predQ, fw.Cmp{P: rem, Rel: fw.EQ}) {
		return false, "the quotient arm is not the complement of " + rem.String() + " != 0"
	}
	return true, "quotient of " + N.String() + " by " + D.String() + " rounded up"
}

// c09Arm returns the string constant the nearest dominating `name == "k"` guard selects.
func c09Arm(b *ssa.BasicBlock, name ssa.Value) string {
	for _, g := range fw.Guards(b) {
		g = g.Normalize()
		bo, ok := g.Cond.(*ssa.BinOp)
		if !ok || bo.Op != token.EQL || !g.True {
			continue
		}
		if bo.X == name {
			if k, ok := constString(bo.Y); ok {
				return k
			}
		}
		if bo.Y == name {
			if k, ok := constString(bo.X); ok {
				return k
			}
		}
	}
	return ""
}

func c09NamedIs(t types.Type, pkgRelPath, name string) bool {
	if p, ok := t.(*types.Pointer); ok {
		t = p.Elem()
	}
	n, ok := t.(*types.Named)
	if !ok || n.Obj().Pkg() == nil {
		return false
	}
	return n.Obj().Name() == name && n.Obj().Pkg().Path() == fw.Mod+"/"+pkgRelPath
}

// c09BinaryLits returns the Binary composite-literal locals of fn.
func (s *c09Sym) binaryLits() []*ssa.Alloc {
	var out []*ssa.Alloc
	fw.EachInstr(s.fn, func(ins ssa.Instruction) {
		a, ok := ins.(*ssa.Alloc)
		if !ok || !c09NamedIs(a.Type(), "pkg/interp", "Binary") {
			return
		}
		if _, isRoot := s.root[a]; isRoot || c09WholeStore(a) != nil {
			return
		}
		out = append(out, a)
	})
	return out
}

// summariseStop substitutes Range.Stop(x) by x.Start + x.Len for named x.
func (s *c09Sym) summariseStop() {
	for _, c := range c09CallsTo(s.fn, "("+fw.Mod+"/pkg/ranges.Range).Stop") {
		if pth, ok := s.path(c.Call.Args[0]); ok {
			s.summarise(c, fw.PAtom(pth+".Start").Add(fw.PAtom(pth+".Len")))
		}
	}
}

// ---------------------------------------------------------------------------
// C09.num

func c09Num(r *fw.Run, p *fw.Program) {
	ru := r.Rule("C09.num", "number->bits: the minimal BitLen bits of bi.Bytes() are selected by front padding (8-bitLen%8)%8, zero is one 0 bit; tonumber and .[i] right-shift the left-aligned bytes of exactly their range by (8-len%8)%8; tostring is the bytes of the range; toBytesBuffer copies exactly (r.Start, r.Len) of the binary's reader; .[i], tonumber and tostring return nothing but that value, a read error, or (for .[i]) null under index < 0; JQValueToString is JQValueToGoJQ", 16)

	if fn := c09Fn(ru, p, "pkg/interp.toBitReaderEx"); fn != nil {
		s := newC09Sym(fn)
		// bi = toBigInt(v).0
		var bi ssa.Value
		fw.EachInstr(fn, func(ins ssa.Instruction) {
			if ex, ok := ins.(*ssa.Extract); ok && ex.Index == 0 {
				if c := c09ExtractOf(ex, 0); c != nil && c09CallName(c) == "pkg/interp.toBigInt" && c.Call.Args[0] == ssa.Value(fn.Params[0]) {
					bi = ex
				}
			}
		})
		if bi == nil {
			ru.Undecided("toBitReaderEx:number", p.Rel(fn.Pos()), "toBigInt(v) not found in the number arm")
		} else {
			s.nameValue(bi, "bi")
			L := fw.PAtom("BitLen(bi)")
			found := false
			for _, c := range c09CallsTo(fn, fw.Mod+"/internal/bitiox.Range") {
				ok0, _ := s.match(c.Call.Args[0], pCall("pkg/bitio.NewBitReader", pCall("(*math/big.Int).Bytes", pP("bi")), pP("-1")))
				if !ok0 {
					continue
				}
				found = true
				pos := p.Rel(c.Pos())
				gp, gl := s.Of(c.Call.Args[1]), s.Of(c.Call.Args[2])
				ru.Check(gp.Equal(c09FrontPad(L, fw.PConst(8))), "toBitReaderEx:number-pad", pos, "start = "+gp.String(), "number->bits: range start is "+gp.String()+", want the front padding "+c09FrontPad(L, fw.PConst(8)).String()+" of bi.Bytes()")
				ru.Check(gl.Equal(L), "toBitReaderEx:number-len", pos, "len = "+gl.String(), "number->bits: range length is "+gl.String()+", want "+L.String())
				ru.Check(s.E().Proves(c.Block(), fw.Cmp{P: L, Rel: fw.NE}), "toBitReaderEx:number-nonzero", pos, "only for bitLen != 0", "minimal-width slice is not guarded by bitLen != 0")
				ret := false
				for _, rt := range c09Returns(fn) {
					if len(rt.Results) == 2 && c09ExtractOf(rt.Results[0], 0) == c && c09IsNilConst(rt.Results[1]) {
						ret = true
					}
				}
				ru.Check(ret, "toBitReaderEx:number-result", pos, "the ranged reader is returned", "the ranged reader of the number is not what is returned")
			}
			if !found {
				ru.Fail("toBitReaderEx:number-pad", p.Rel(fn.Pos()), "no bitiox.Range(NewBitReader(bi.Bytes(), -1), ...) found: numbers are not converted from their big-endian bytes")
			}
			// zero: one 0 bit
			zok, zwhy := false, "no NewBitReader(zero [1]byte, 1) guarded by bitLen == 0"
			for _, c := range c09CallsTo(fn, fw.Mod+"/pkg/bitio.NewBitReader") {
				k, ok := c09ConstInt(c.Call.Args[1])
				if !ok || k == -1 {
					continue
				}
				sl, isSl := c.Call.Args[0].(*ssa.Slice)
				if !isSl {
					continue
				}
				a, isA := sl.X.(*ssa.Alloc)
				if !isA || c09Escapes2(a) {
					zwhy = "the zero array is written to"
					continue
				}
				if k != 1 {
					zwhy = fmt.Sprintf("zero is converted to %d bits, want 1", k)
					continue
				}
				// big.Int.BitLen is never negative: bitLen <= 0 is bitLen == 0
				if !s.E().Proves(c.Block(), fw.Cmp{P: L, Rel: fw.EQ}) && !s.E().Proves(c.Block(), fw.Cmp{P: L, Rel: fw.LE}) {
					zwhy = "the one-bit zero reader is not guarded by bitLen == 0"
					continue
				}
				zok = true
			}
			ru.Check(zok, "toBitReaderEx:number-zero", p.Rel(fn.Pos()), "0 is one zero bit", "number->bits for 0: "+zwhy)
		}
	}

	// toBytesBuffer
	if fn := c09Fn(ru, p, "(pkg/interp.Binary).toBytesBuffer"); fn != nil {
		s := newC09Sym(fn)
		var rng *ssa.Call
		for _, c := range c09CallsTo(fn, fw.Mod+"/internal/bitiox.Range") {
			rng = c
		}
		if rng == nil {
			ru.Fail("toBytesBuffer:range", p.Rel(fn.Pos()), "toBytesBuffer does not slice with bitiox.Range")
		} else {
			ok, why := s.match(rng, pCall("internal/bitiox.Range", pP("recv.br"), pP("a0.Start"), pP("a0.Len")))
			ru.Check(ok, "toBytesBuffer:range", p.Rel(rng.Pos()), "Range(b.br, r.Start, r.Len)", "toBytesBuffer: "+why)
			okc := false
			for _, c := range c09CallsTo(fn, fw.Mod+"/internal/bitiox.CopyBits") {
				w := c09StripIface(c.Call.Args[0])
				src := c09ExtractOf(c09StripIface(c.Call.Args[1]), 0)
				if _, isAlloc := w.(*ssa.Alloc); isAlloc && src == rng {
					for _, rt := range c09Returns(fn) {
						if len(rt.Results) == 2 && rt.Results[0] == w && c09IsNilConst(rt.Results[1]) {
							okc = true
						}
					}
				}
			}
			ru.Check(okc, "toBytesBuffer:copy", p.Rel(fn.Pos()), "CopyBits(fresh buffer, ranged reader); buffer returned", "toBytesBuffer does not return a fresh buffer filled by CopyBits from the ranged reader")
		}
	}

	wholeBuf := pCallN("(pkg/interp.Binary).toBytesBuffer", 0, pP("recv"), pP("recv.r"))
	rsh := func(buf c09Pat) c09Pat {
		return pCall("(*math/big.Int).Rsh", pAny(), pCall("(*math/big.Int).SetBytes", pAny(), pCall("(*bytes.Buffer).Bytes", buf)), pAny())
	}
	retMatch := func(fn *ssa.Function, s *c09Sym, pt c09Pat) (*ssa.Call, string) {
		why := "no matching return"
		for _, rt := range c09Returns(fn) {
			if len(rt.Results) != 1 {
				continue
			}
			v := c09StripIface(rt.Results[0])
			c, ok := v.(*ssa.Call)
			if !ok {
				continue
			}
			ok2, w := s.match(c, pt)
			if ok2 {
				return c, ""
			}
			why = w
		}
		return nil, why
	}
	if fn := c09Fn(ru, p, "(pkg/interp.Binary).JQValueToNumber"); fn != nil {
		s := newC09Sym(fn)
		c, why := retMatch(fn, s, rsh(wholeBuf))
		ru.Check(c != nil, "JQValueToNumber:bytes", p.Rel(fn.Pos()), "Rsh(SetBytes(toBytesBuffer(b.r).Bytes()), ...)", "tonumber: "+why)
		if c != nil {
			okR, whyR := c09ReturnsOnly(fn, c, nil)
			ru.Check(okR, "JQValueToNumber:returns", p.Rel(fn.Pos()), "only the number or a read error is returned", "tonumber: "+whyR)
			got := s.Of(c.Call.Args[2])
			want := c09FrontPad(fw.PAtom("recv.r.Len"), fw.PConst(8))
			ru.Check(got.Equal(want), "JQValueToNumber:shift", p.Rel(c.Pos()), "shift = "+got.String(), "tonumber shifts right by "+got.String()+", want "+want.String())
		}
	}
	if fn := c09Fn(ru, p, "(pkg/interp.Binary).JQValueIndex"); fn != nil {
		s := newC09Sym(fn)
		idxBuf := pCallN("(pkg/interp.Binary).toBytesBuffer", 0, pP("recv"), pLit("Start", pP("recv.r.Start + a0*recv.unit"), "Len", pP("recv.unit")))
		c, why := retMatch(fn, s, rsh(idxBuf))
		ru.Check(c != nil, "JQValueIndex:range", p.Rel(fn.Pos()), "bits [r.Start+index*unit, +unit)", ".[i]: "+why)
		if c != nil {
			okR, whyR := c09ReturnsOnly(fn, c, func(b *ssa.BasicBlock) bool {
				return s.E().Proves(b, fw.Cmp{P: fw.PAtom("a0"), Rel: fw.LT})
			})
			ru.Check(okR, "JQValueIndex:returns", p.Rel(fn.Pos()), "null only for index < 0, otherwise the number or a read error", ".[i]: "+whyR)
			got := s.Of(c.Call.Args[2])
			want := c09FrontPad(fw.PAtom("recv.unit"), fw.PConst(8))
			ru.Check(got.Equal(want), "JQValueIndex:shift", p.Rel(c.Pos()), "shift = "+got.String(), ".[i] shifts right by "+got.String()+", want "+want.String())
		}
		// negative (= out of range, see gojq clampIndex) index gives null before any read
		okNeg, okGuard := false, false
		a0 := fw.PAtom("a0")
		for _, rt := range c09Returns(fn) {
			if len(rt.Results) == 1 && c09IsNilConst(rt.Results[0]) && s.E().Proves(rt.Block(), fw.Cmp{P: a0, Rel: fw.LT}) {
				okNeg = true
			}
		}
		for _, tc := range c09CallsTo(fn, "("+fw.Mod+"/pkg/interp.Binary).toBytesBuffer") {
			lo, _, hasLo, hasHi := s.bounds(tc.Block(), a0)
			if hasLo && lo == 0 && !hasHi {
				okGuard = true
			}
		}
		ru.Check(okNeg && okGuard, "JQValueIndex:negative", p.Rel(fn.Pos()), "index < 0 returns null, index >= 0 reads", ".[i]: the out-of-range marker (negative index) is not answered with null exactly for index < 0")
	}
	if fn := c09Fn(ru, p, "(pkg/interp.Binary).JQValueToGoJQ"); fn != nil {
		s := newC09Sym(fn)
		c, why := retMatch(fn, s, pCall("(*bytes.Buffer).String", wholeBuf))
		ru.Check(c != nil, "JQValueToGoJQ:bytes", p.Rel(fn.Pos()), "string of toBytesBuffer(b.r)", "tostring: "+why)
		if c != nil {
			okR, whyR := c09ReturnsOnly(fn, c, nil)
			ru.Check(okR, "JQValueToGoJQ:returns", p.Rel(fn.Pos()), "only the string or a read error is returned", "tostring: "+whyR)
		}
	}
	if fn := c09Fn(ru, p, "(pkg/interp.Binary).JQValueToString"); fn != nil {
		s := newC09Sym(fn)
		ok, why := false, "no single return"
		if rts := c09Returns(fn); len(rts) == 1 && len(rts[0].Results) == 1 {
			ok, why = s.match(rts[0].Results[0], pCall("(pkg/interp.Binary).JQValueToGoJQ", pP("recv")))
			if !ok {
				ok, _ = s.match(rts[0].Results[0], pCall("(*bytes.Buffer).String", wholeBuf))
			}
		}
		ru.Check(ok, "JQValueToString", p.Rel(fn.Pos()), "tostring is the bytes of the range (JQValueToGoJQ)", "tostring (JQValueToString): "+why)
	}
}

// c09Escapes2: a local array that is only sliced/loaded (never stored to).
func c09Escapes2(a *ssa.Alloc) bool {
	if a.Referrers() == nil {
		return false
	}
	for _, ref := range *a.Referrers() {
		switch x := ref.(type) {
		case *ssa.Slice, *ssa.DebugRef:
		case *ssa.UnOp:
			if x.Op != token.MUL {
				return true
			}
		default:
			return true
		}
	}
	return false
}

// ---------------------------------------------------------------------------
// C09.unit

type c09LitSpec struct {
	fn, arm string
	lit     c09Pat
}

func c09Unit(r *fw.Run, p *fw.Program) {
	ru := r.Rule("C09.unit", "unit arithmetic: length/size = r.Len/unit, start = r.Start/unit, stop = ceil((r.Start+r.Len)/unit); slice = (r.Start+start*unit, (end-start)*unit) keeping reader and unit; bits/bytes keys keep reader and range with unit 1/8; every other Binary construction (NewBinaryFromBitReader, openFile; decode value _bits/_bytes/ToBinary all over RootReader and InnerRange()) has the specified reader, range and unit; binaries are converted to readers by exactly their (r.Start, r.Len); slices and the bits/bytes/decode-value views carry no padding (pad unset); Binary.ToBinary is the receiver itself; each of these functions/arms returns nothing but that construction (or the zero value with an error; null for the bit views of a synthetic decode value): no shortcut hands out the receiver unsliced", 22)

	// summary used below: Range.Stop() = Start + Len
	if fn := c09Fn(ru, p, "(pkg/ranges.Range).Stop"); fn != nil {
		s := newC09Sym(fn)
		rts := c09Returns(fn)
		ok, why := false, "no single return"
		if len(rts) == 1 && len(rts[0].Results) == 1 {
			ok, why = s.is(rts[0].Results[0], "recv.Start + recv.Len")
		}
		ru.Check(ok, "Range.Stop", p.Rel(fn.Pos()), "Stop = Start + Len", "ranges.Range.Stop: "+why)
	}

	if fn := c09Fn(ru, p, "(pkg/interp.Binary).JQValueLength"); fn != nil {
		s := newC09Sym(fn)
		rts := c09Returns(fn)
		ok, why := false, "no single return"
		if len(rts) == 1 && len(rts[0].Results) == 1 {
			v := c09StripIface(rts[0].Results[0])
			ok, why = s.is(v, "(recv.r.Len / recv.unit)")
			if b, isB := v.Type().Underlying().(*types.Basic); ok && (!isB || b.Kind() != types.Int) {
				ok, why = false, "length is returned as "+v.Type().String()+", gojq's index/slice clamping requires int"
			}
		}
		ru.Check(ok, "JQValueLength", p.Rel(fn.Pos()), "int(r.Len / unit)", "length: "+why)
	}
	if fn := c09Fn(ru, p, "(pkg/interp.Binary).JQValueSliceLen"); fn != nil {
		s := newC09Sym(fn)
		rts := c09Returns(fn)
		ok, why := false, "no single return"
		if len(rts) == 1 && len(rts[0].Results) == 1 {
			ok, why = s.match(rts[0].Results[0], pCall("(pkg/interp.Binary).JQValueLength", pP("recv")))
			if !ok {
				// or the same quotient, as an int
				v := c09StripIface(rts[0].Results[0])
				if ok2, _ := s.is(v, "(recv.r.Len / recv.unit)"); ok2 {
					if b, isB := v.Type().Underlying().(*types.Basic); isB && b.Kind() == types.Int {
						ok, why = true, ""
					}
				}
			}
		}
		ru.Check(ok, "JQValueSliceLen", p.Rel(fn.Pos()), "slice bounds are clamped with the length in units", "JQValueSliceLen: "+why)
	}

	specs := []c09LitSpec{
		{"(pkg/interp.Binary).JQValueSlice", "", pLit("br", pP("recv.br"), "r.Start", pP("recv.r.Start + a0*recv.unit"), "r.Len", pP("a1*recv.unit - a0*recv.unit"), "unit", pP("recv.unit"), "pad", pP("0"))},
		{"(pkg/interp.Binary).JQValueKey", "bits", pLit("br", pP("recv.br"), "r", pP("recv.r"), "unit", pP("1"), "pad", pP("0"))},
		{"(pkg/interp.Binary).JQValueKey", "bytes", pLit("br", pP("recv.br"), "r", pP("recv.r"), "unit", pP("8"), "pad", pP("0"))},
		{"pkg/interp.NewBinaryFromBitReader", "", pLit("br", pP("a0"), "r.Start", pP("0"), "r.Len", pCallN("internal/bitiox.Len", 0, pP("a0")), "unit", pP("a1"), "pad", pP("a2"))},
		// the three binary views of a decode value agree on reader and range (which range InnerRange is belongs to C05)
		{"(pkg/interp.decodeValueBase).JQValueKey", "_bits", pLit("br", pP("recv.dv.RootReader"), "r", pCall("(*pkg/decode.Value).InnerRange", pP("recv.dv")), "unit", pP("1"), "pad", pP("0"))},
		{"(pkg/interp.decodeValueBase).JQValueKey", "_bytes", pLit("br", pP("recv.dv.RootReader"), "r", pCall("(*pkg/decode.Value).InnerRange", pP("recv.dv")), "unit", pP("8"), "pad", pP("0"))},
		{"(pkg/interp.decodeValueBase).ToBinary", "", pLit("br", pP("recv.dv.RootReader"), "r", pCall("(*pkg/decode.Value).InnerRange", pP("recv.dv")), "unit", pP("8"), "pad", pP("0"))},
	}
	syms := map[string]*c09Sym{}
	for _, sp := range specs {
		key := sp.fn
		if sp.arm != "" {
			key += ":" + sp.arm
		}
		key = "lit:" + strings.TrimPrefix(key, "(pkg/interp.")
		fn := p.Fn(sp.fn)
		if fn == nil || fn.Blocks == nil {
			ru.Undecided(key, "", "function "+sp.fn+" not found")
			continue
		}
		s := syms[sp.fn]
		if s == nil {
			s = newC09Sym(fn)
			s.summariseStop()
			syms[sp.fn] = s
		}
		var name ssa.Value
		if sp.arm != "" {
			for _, prm := range fn.Params {
				if b, ok := prm.Type().Underlying().(*types.Basic); ok && b.Kind() == types.String {
					name = prm
				}
			}
		}
		var hit *ssa.Alloc
		for _, a := range s.binaryLits() {
			if sp.arm == "" || c09Arm(a.Block(), name) == sp.arm {
				if hit != nil {
					hit = nil
					break
				}
				hit = a
			}
		}
		if hit == nil {
			ru.Fail(key, p.Rel(fn.Pos()), "no (unique) Binary{...} construction found here, want "+sp.lit.String())
			continue
		}
		// the literal is what is returned
		isHit := func(v ssa.Value) bool {
			if s.litOf(v) == hit {
				return true
			}
			// returned through a result variable the literal was assigned to
			if ld, isLd := v.(*ssa.UnOp); isLd && ld.Op == token.MUL {
				if a2, isA := ld.X.(*ssa.Alloc); isA && !c09Escapes(a2) {
					if st := c09WholeStore(a2); st != nil && s.litOf(st.Val) == hit {
						return true
					}
				}
			}
			return false
		}
		returned := false
		for _, rt := range c09Returns(fn) {
			for _, res := range rt.Results {
				if isHit(c09StripIface(res)) {
					returned = true
				}
			}
		}
		// and nothing else is: no shortcut hands out a binary (e.g. the receiver) that was not
		// built by the checked construction. Allowed besides it: the zero value together with an
		// error, and null for the bit views of a decode value (synthetic values, decided by C05).
		// The bits/bytes arms of Binary.JQValueKey are closed by the "-same" obligations below.
		if !(sp.arm != "" && sp.fn == "(pkg/interp.Binary).JQValueKey") {
			okC, whyC, nRet := true, "", 0
			for _, rt := range c09Returns(fn) {
				if len(rt.Results) == 0 || (sp.arm != "" && c09Arm(rt.Block(), name) != sp.arm) {
					continue
				}
				nRet++
				v := c09StripIface(rt.Results[0])
				zero := false
				if c, isC := v.(*ssa.Const); isC && c.Value == nil {
					zero = true
				}
				switch {
				case isHit(v):
				case len(rt.Results) == 2 && zero && !c09IsNilConst(rt.Results[1]):
				case sp.arm != "" && zero && len(rt.Results) == 1:
				default:
					okC, whyC = false, "a return ("+p.Rel(rt.Pos())+") hands out "+s.Desc(v)+" instead of the constructed Binary"
				}
			}
			ru.Check(okC && nRet >= 1, "returns:"+strings.TrimPrefix(key, "lit:"), p.Rel(fn.Pos()), fmt.Sprintf("%d returns: the constructed Binary, or a failure", nRet), "Binary construction bypassed: "+whyC+" (want only "+sp.lit.String()+")")
		}
		ok, why := s.matchLit(hit, sp.lit)
		if ok && !returned {
			ok, why = false, "the constructed Binary is not returned"
		}
		ru.Check(ok, key, p.Rel(hit.Pos()), sp.lit.String(), "Binary construction: "+why+" (want "+sp.lit.String()+")")
	}

	// Binary.JQValueKey scalar arms
	if fn := c09Fn(ru, p, "(pkg/interp.Binary).JQValueKey"); fn != nil {
		s := syms["(pkg/interp.Binary).JQValueKey"]
		if s == nil {
			s = newC09Sym(fn)
			s.summariseStop()
		}
		name := ssa.Value(fn.Params[1])
		seen := map[string]bool{}
		unit := fw.PAtom("recv.unit")
		for _, rt := range c09Returns(fn) {
			arm := c09Arm(rt.Block(), name)
			if len(rt.Results) != 1 {
				continue
			}
			v := c09StripIface(rt.Results[0])
			key := "Binary.JQValueKey:" + arm
			pos := p.Rel(rt.Pos())
			setInt := func() ssa.Value {
				if c, n := c09Callee(v); c != nil && n == "(*math/big.Int).SetInt64" {
					return c.Call.Args[1]
				}
				if c09IsIntType(v.Type()) {
					return v
				}
				return nil
			}
			switch arm {
			case "size", "start":
				seen[arm] = true
				num := fw.PAtom("recv.r.Len")
				if arm == "start" {
					num = fw.PAtom("recv.r.Start")
				}
				x := setInt()
				if x == nil {
					ru.Fail(key, pos, "."+arm+" is not an integer result")
					continue
				}
				got := s.Of(x)
				ru.Check(got.Equal(c09Div(num, unit)), key, pos, got.String(), "."+arm+" is "+got.String()+", want "+c09Div(num, unit).String())
			case "stop":
				seen[arm] = true
				x := setInt()
				if x == nil {
					ru.Fail(key, pos, ".stop is not an integer result")
					continue
				}
				ok, why := s.isCeilDiv(x, fw.PAtom("recv.r.Start").Add(fw.PAtom("recv.r.Len")), unit)
				ru.Check(ok, key, pos, why, ".stop: "+why)
			case "unit":
				seen[arm] = true
				ok, why := s.is(v, "recv.unit")
				ru.Check(ok, key, pos, "unit", ".unit: "+why)
			case "bits", "bytes":
				// either the literal (checked above) or the receiver itself when the unit already matches
				if s.litOf(v) != nil {
					continue
				}
				want := int64(1)
				if arm == "bytes" {
					want = 8
				}
				seen[arm+"-same"] = true
				ok, _ := s.is(v, "recv")
				lo, hi, hl, hh := s.bounds(rt.Block(), unit)
				ru.Check(ok && hl && hh && lo == want && hi == want, key+"-same", pos, "receiver returned only when its unit already matches", "."+arm+" returns a value other than the receiver, or returns it without unit == "+fmt.Sprint(want))
			}
		}
		for _, k := range []string{"size", "start", "stop", "unit"} {
			if !seen[k] {
				ru.Fail("Binary.JQValueKey:"+k, p.Rel(fn.Pos()), "key ."+k+" has no arm in Binary.JQValueKey")
			}
		}
	}

	if fn := c09Fn(ru, p, "(pkg/interp.Binary).ToBinary"); fn != nil {
		s := newC09Sym(fn)
		ok, why := false, "no return"
		for _, rt := range c09Returns(fn) {
			if len(rt.Results) == 2 {
				ok, why = s.is(rt.Results[0], "recv")
				if ok && !c09IsNilConst(rt.Results[1]) {
					ok, why = false, "an error is returned"
				}
			}
		}
		ru.Check(ok, "Binary.ToBinary", p.Rel(fn.Pos()), "a binary converts to itself (reader, range, unit kept)", "Binary.ToBinary: "+why)
	}
	if fn := c09Fn(ru, p, "(*pkg/interp.openFile).ToBinary"); fn != nil {
		s := newC09Sym(fn)
		ok, why := false, "no return"
		for _, rt := range c09Returns(fn) {
			if len(rt.Results) == 2 {
				ok, why = s.match(rt.Results[0], pCallN("pkg/interp.NewBinaryFromBitReader", 0, pP("recv.Binary.br"), pP("8"), pP("0")))
			}
		}
		ru.Check(ok, "openFile.ToBinary", p.Rel(fn.Pos()), "NewBinaryFromBitReader(of.br, 8, 0)", "openFile.ToBinary: "+why)
	}

	// binaries as members / inputs: exactly their range
	if fn := c09Fn(ru, p, "pkg/interp.toBitReaderEx"); fn != nil {
		s := newC09Sym(fn)
		ok, why := false, "no bitiox.Range call on the ToBinary arm"
		var pos token.Pos = fn.Pos()
		fw.EachInstr(fn, func(ins ssa.Instruction) {
			a, isA := ins.(*ssa.Alloc)
			if !isA || !c09NamedIs(a.Type(), "pkg/interp", "Binary") {
				return
			}
			st := c09WholeStore(a)
			if st == nil {
				return
			}
			if okb, _ := s.match(st.Val, pCallN("invoke:ToBinary", 0, pAny())); okb {
				s.nameAlloc(a, "bv")
			}
		})
		for _, c := range c09CallsTo(fn, fw.Mod+"/internal/bitiox.Range") {
			if s.Desc(c.Call.Args[0]) != "bv.br" {
				continue
			}
			pos = c.Pos()
			ok, why = s.match(c, pCall("internal/bitiox.Range", pP("bv.br"), pP("bv.r.Start"), pP("bv.r.Len")))
			if ok {
				ret := false
				for _, rt := range c09Returns(fn) {
					if len(rt.Results) == 2 && c09ExtractOf(rt.Results[0], 0) == c {
						ret = true
					}
				}
				if !ret {
					ok, why = false, "the ranged reader is not returned"
				}
			}
		}
		ru.Check(ok, "toBitReaderEx:binary", p.Rel(pos), "Range(bv.br, bv.r.Start, bv.r.Len)", "binary -> reader: "+why)
	}
}

// ---------------------------------------------------------------------------
// C09.pad

func c09Pad(r *fw.Run, p *fw.Program) {
	ru := r.Rule("C09.pad", "_toBits rejects unit<=0 and pad_to_units<0 before any division; pad modulus is unit*pad_to_units or unit when that is 0; bv.unit=unit; bv.pad=(P-len%P)%P; keep_range returns the ranged binary, otherwise a new binary over toReader() with the same unit and no pad; toReader slices (r.Start,r.Len) and prepends (never appends) b.pad zero bits", 10)
	fn := c09Fn(ru, p, "(*pkg/interp.Interp)._toBits")
	if fn != nil {
		s := newC09Sym(fn)
		// bv = toBinary(c).0
		var bv *ssa.Alloc
		fw.EachInstr(fn, func(ins ssa.Instruction) {
			a, isA := ins.(*ssa.Alloc)
			if !isA || !c09NamedIs(a.Type(), "pkg/interp", "Binary") {
				return
			}
			if st := c09WholeStore(a); st != nil {
				if ok, _ := s.match(st.Val, pCallN("pkg/interp.toBinary", 0, pP("a0"))); ok {
					bv = a
				}
			}
		})
		if bv == nil || !s.nameAlloc(bv, "bv") {
			ru.Undecided("_toBits:bv", p.Rel(fn.Pos()), "the binary converted from the input (toBinary(c)) was not found")
		} else {
			unit, ptu := fw.PAtom("a1.Unit"), fw.PAtom("a1.PadToUnits")
			// stores into bv
			stores := map[string]*ssa.Store{}
			for _, st := range s.allStores() {
				if strings.HasPrefix(st.path, "bv.") {
					if _, dup := stores[st.path]; dup {
						stores[st.path+"#dup"] = st.st
					}
					stores[st.path] = st.st
				}
			}
			var keys []string
			for k := range stores {
				keys = append(keys, k)
			}
			sort.Strings(keys)
			ru.Check(strings.Join(keys, ",") == "bv.pad,bv.unit", "_toBits:fields", p.Rel(fn.Pos()), "only unit and pad are set", "_toBits modifies {"+strings.Join(keys, ",")+"} of the converted binary, want exactly {bv.pad, bv.unit} (reader and range must be kept)")
			if st := stores["bv.unit"]; st != nil {
				ok, why := s.is(st.Val, "a1.Unit")
				ru.Check(ok, "_toBits:unit", p.Rel(st.Pos()), "bv.unit = opts.Unit", "_toBits unit: "+why)
			}
			if st := stores["bv.pad"]; st != nil {
				pos := p.Rel(st.Pos())
				// modulus
				var mod ssa.Value
				if bo, ok := st.Val.(*ssa.BinOp); ok && bo.Op == token.REM {
					mod = bo.Y
				}
				if mod == nil {
					ru.Fail("_toBits:pad", pos, "bv.pad is not computed as (P - len%P) % P")
				} else {
					M := s.Of(mod)
					got := s.Of(st.Val)
					want := c09FrontPad(fw.PAtom("bv.r.Len"), M)
					ru.Check(got.Equal(want), "_toBits:pad", pos, "pad = "+got.String(), "_toBits pad is "+got.String()+", want "+want.String())
					// modulus value
					prod := unit.Mul(ptu)
					okM, whyM := false, "modulus is "+M.String()
					if ph, isPhi := mod.(*ssa.Phi); isPhi && len(ph.Edges) == 2 {
						for i := 0; i < 2; i++ {
							pu, pp := s.Of(ph.Edges[i]), s.Of(ph.Edges[1-i])
							if pu.Equal(unit) && pp.Equal(prod) {
								bu, bp := ph.Block().Preds[i], ph.Block().Preds[1-i]
								if s.E().Proves(bu, fw.Cmp{P: prod, Rel: fw.EQ}) && (bu.Idom() == bp || s.E().Proves(bp, fw.Cmp{P: prod, Rel: fw.NE})) {
									okM = true
								} else {
									whyM = "unit replaces unit*pad_to_units under a condition other than unit*pad_to_units == 0"
								}
							}
						}
					}
					ru.Check(okM, "_toBits:modulus", pos, "P = unit*pad_to_units, or unit when that is 0", "_toBits pad modulus: "+whyM+", want unit*pad_to_units replaced by unit exactly when it is 0")
					// divisor guard
					lu, _, hlu, _ := s.bounds(st.Block(), unit)
					lp, _, hlp, _ := s.bounds(st.Block(), ptu)
					ru.Check(hlu && lu >= 1 && hlp && lp >= 0, "_toBits:guard", pos, "unit >= 1 and pad_to_units >= 0 dominate the modulo", "_toBits: `% pad` is not dominated by a rejection of unit <= 0 and pad_to_units < 0 (division by zero / negative padding)")
				}
			}
			// every return not dominated by the option guard is an error value, and there is one
			okErr, nErr := true, 0
			for _, rt := range c09Returns(fn) {
				if len(rt.Results) != 1 {
					continue
				}
				lu, _, hlu, _ := s.bounds(rt.Block(), unit)
				lp, _, hlp, _ := s.bounds(rt.Block(), ptu)
				if hlu && lu >= 1 && hlp && lp >= 0 {
					continue
				}
				v := c09StripIface(rt.Results[0])
				if types.TypeString(v.Type(), nil) == "error" && !c09IsNilConst(v) {
					nErr++
				} else {
					okErr = false
				}
			}
			ru.Check(okErr && nErr >= 1, "_toBits:reject", p.Rel(fn.Pos()), "invalid options return an error", "_toBits does not return an error for unit <= 0 / pad_to_units < 0")

			// keep_range
			var keep ssa.Value
			fw.EachInstr(fn, func(ins ssa.Instruction) {
				if v, ok := ins.(ssa.Value); ok {
					if pth, ok := s.path(v); ok && pth == "a1.KeepRange" {
						if _, isLoad := v.(*ssa.UnOp); isLoad {
							keep = v
						}
					}
				}
			})
			okKeep, okNew := false, false
			whyNew := "no NewBinaryFromBitReader result returned"
			for _, rt := range c09Returns(fn) {
				if len(rt.Results) != 1 || keep == nil {
					continue
				}
				v := c09StripIface(rt.Results[0])
				if ld, ok := v.(*ssa.UnOp); ok && ld.Op == token.MUL && ld.X == ssa.Value(bv) {
					if c09GuardIs(rt.Block(), keep, true) && c09StoreDominates(stores["bv.pad"], rt) && c09StoreDominates(stores["bv.unit"], rt) {
						okKeep = true
					}
					continue
				}
				if c09ExtractOf(v, 0) != nil && c09GuardIs(rt.Block(), keep, false) {
					var ok bool
					ok, whyNew = s.match(v, pCallN("pkg/interp.NewBinaryFromBitReader", 0, pCallN("(pkg/interp.Binary).toReader", 0, pAny()), pP("a1.Unit"), pP("0")))
					if ok {
						// toReader is called on bv after unit and pad were set
						c := c09ExtractOf(c09ExtractOf(v, 0).Call.Args[0], 0)
						if ld, isLd := c.Call.Args[0].(*ssa.UnOp); isLd && ld.X == ssa.Value(bv) && c09StoreDominates(stores["bv.pad"], ld) {
							okNew = true
						} else {
							whyNew = "toReader is not called on the padded binary"
						}
					}
				}
			}
			ru.Check(okKeep, "_toBits:keep_range", p.Rel(fn.Pos()), "keep_range returns the ranged binary with unit and pad set", "_toBits: keep_range=true does not return the converted binary itself (range kept) after unit and pad are set")
			ru.Check(okNew, "_toBits:new", p.Rel(fn.Pos()), "otherwise NewBinaryFromBitReader(bv.toReader(), unit, 0)", "_toBits: keep_range=false: "+whyNew)
		}
	}

	if fn := c09Fn(ru, p, "(pkg/interp.Binary).toReader"); fn != nil {
		s := newC09Sym(fn)
		var rng *ssa.Call
		for _, c := range c09CallsTo(fn, fw.Mod+"/internal/bitiox.Range") {
			rng = c
		}
		if rng == nil {
			ru.Fail("toReader:range", p.Rel(fn.Pos()), "toReader does not slice with bitiox.Range")
			return
		}
		ok, why := s.match(rng, pCall("internal/bitiox.Range", pP("recv.br"), pP("recv.r.Start"), pP("recv.r.Len")))
		ru.Check(ok, "toReader:range", p.Rel(rng.Pos()), "Range(b.br, b.r.Start, b.r.Len)", "toReader: "+why)
		pad := fw.PAtom("recv.pad")
		okPlain, okPad := false, false
		whyPad := "no NewMultiReader(zero, data) return"
		for _, rt := range c09Returns(fn) {
			if len(rt.Results) != 2 {
				continue
			}
			v := c09StripIface(rt.Results[0])
			if c09ExtractOf(v, 0) == rng && c09IsNilConst(rt.Results[1]) {
				if s.E().Proves(rt.Block(), fw.Cmp{P: pad, Rel: fw.EQ}) {
					okPlain = true
				}
				continue
			}
			mc := c09ExtractOf(v, 0)
			if mc == nil || c09CallName(mc) != "pkg/bitio.NewMultiReader" {
				continue
			}
			els := c09Varargs(mc.Call.Args[0])
			if len(els) != 2 {
				whyPad = fmt.Sprintf("NewMultiReader gets %d readers, want 2", len(els))
				continue
			}
			ok0, w0 := s.match(els[0], pCall("internal/bitiox.NewZeroAtSeeker", pP("recv.pad")))
			if !ok0 {
				whyPad = "first reader: " + w0 + " (padding must come first)"
				continue
			}
			if c09ExtractOf(c09StripIface(els[1]), 0) != rng {
				whyPad = "second reader is not the ranged data"
				continue
			}
			okPad = true
		}
		ru.Check(okPlain, "toReader:nopad", p.Rel(fn.Pos()), "pad == 0: the ranged reader itself", "toReader does not return the ranged reader exactly when pad == 0")
		ru.Check(okPad, "toReader:front", p.Rel(fn.Pos()), "NewMultiReader(NewZeroAtSeeker(pad), data)", "toReader: "+whyPad)
	}
}

func c09StoreDominates(st *ssa.Store, ins ssa.Instruction) bool {
	return st != nil && c09InstrDominates(st, ins)
}

// ---------------------------------------------------------------------------
// C09.zero

func c09Zero(r *fw.Run, p *fw.Program) {
	ru := r.Rule("C09.zero", "ZeroReadAtSeeker.ReadBitsAt reports min(nBits, size-off) bits and zeroes bitio.BitsByteCount(that) leading bytes of the buffer (every byte a bit is reported in); BitsByteCount is n/8 rounded up; constructor and clone keep the size; a successful read is only answered for 0 <= bitOff < size (EOF at the end, borrowed from C01.clamp)", 5)
	if fn := c09Fn(ru, p, "(*internal/bitiox.ZeroReadAtSeeker).ReadBitsAt"); fn != nil {
		s := newC09Sym(fn)
		n := fw.PAtom("min(" + c09SortedJoin(fw.PAtom("a1").String(), fw.PAtom("recv.nBits").Sub(fw.PAtom("a2")).String()) + ")")
		// min written as `x := a; if b < x { x = b }` is the same value as the builtin
		s.summariseMinPhis()
		// BitsByteCount is summarised as ceil8(x) (its definition is checked separately below)
		for _, c := range c09CallsTo(fn, fw.Mod+"/pkg/bitio.BitsByteCount") {
			s.summarise(c, fw.PAtom("ceil8("+s.Of(c.Call.Args[0]).String()+")"))
		}
		// success return
		okRet, whyRet := false, "no success return"
		for _, rt := range c09Returns(fn) {
			if len(rt.Results) == 2 && c09IsNilConst(rt.Results[1]) {
				got := s.Of(rt.Results[0])
				okRet = got.Equal(n)
				whyRet = "reports " + got.String() + " bits, want " + n.String()
			}
		}
		ru.Check(okRet, "ZeroReadAtSeeker.ReadBitsAt:count", p.Rel(fn.Pos()), n.String(), "zero reader "+whyRet)
		// zeroing loop
		var st *ssa.Store
		cnt := 0
		fw.EachInstr(fn, func(ins ssa.Instruction) {
			x, ok := ins.(*ssa.Store)
			if !ok {
				return
			}
			ia, ok := x.Addr.(*ssa.IndexAddr)
			if !ok || ia.X != ssa.Value(fn.Params[1]) {
				return
			}
			st = x
			cnt++
		})
		if st == nil || cnt != 1 {
			ru.Fail("ZeroReadAtSeeker.ReadBitsAt:fill", p.Rel(fn.Pos()), "no (single) store into the caller's buffer found")
		} else {
			pos := p.Rel(st.Pos())
			ia := st.Addr.(*ssa.IndexAddr)
			k, isC := c09ConstInt(st.Val)
			ok, why := isC && k == 0, "stored value is not the constant 0"
			if ok {
				ph, isPhi := ia.Index.(*ssa.Phi)
				if !isPhi || len(ph.Edges) != 2 {
					ok, why = false, "index is not a loop counter"
				} else {
					// i starts at 0 and steps by 1
					start, step := false, false
					for _, ed := range ph.Edges {
						if c, isC := c09ConstInt(ed); isC && c == 0 {
							start = true
						} else if bo, isB := ed.(*ssa.BinOp); isB && bo.Op == token.ADD && bo.X == ssa.Value(ph) {
							if c, isC := c09ConstInt(bo.Y); isC && c == 1 {
								step = true
							}
						}
					}
					if !start || !step {
						ok, why = false, "loop counter does not run 0,1,2,..."
					} else {
						// the body runs for i = 0 .. bound-1 (classic or rotated loop form)
						want := fw.PAtom("ceil8(" + n.String() + ")")
						gotB, whyB := s.countedLoopBound(ph, st.Block())
						switch {
						case gotB == nil:
							ok, why = false, "zero-fill loop bound not found: "+whyB
						case !gotB.Equal(want):
							ok, why = false, "zero-fill covers "+gotB.String()+" bytes, want "+want.String()+" (a trailing partial byte would keep stale bits)"
						}
					}
				}
			}
			ru.Check(ok, "ZeroReadAtSeeker.ReadBitsAt:fill", pos, "p[0:BitsByteCount(n)] = 0", "zero reader: "+why)
		}
	}
	if fn := c09Fn(ru, p, "pkg/bitio.BitsByteCount"); fn != nil {
		s := newC09Sym(fn)
		rts := c09Returns(fn)
		ok, why := false, "no single return"
		if len(rts) == 1 && len(rts[0].Results) == 1 {
			ok, why = s.isCeilDiv(rts[0].Results[0], fw.PAtom("a0"), fw.PConst(8))
		}
		ru.Check(ok, "bitio.BitsByteCount:ceil", p.Rel(fn.Pos()), why, "bitio.BitsByteCount: "+why)
	}
	if fn := c09Fn(ru, p, "internal/bitiox.NewZeroAtSeeker"); fn != nil {
		s := newC09Sym(fn)
		ok, why := false, "no constructed value returned"
		for _, rt := range c09Returns(fn) {
			if len(rt.Results) != 1 {
				continue
			}
			if a, isA := rt.Results[0].(*ssa.Alloc); isA {
				got := map[string]ssa.Value{}
				c09LitFields(a, "", got)
				if v, has := got["nBits"]; has {
					ok, why = s.is(v, "a0")
				} else {
					why = "nBits is not set"
				}
				if _, has := got["pos"]; has && ok {
					ok, why = false, "initial position is set"
				}
			}
		}
		ru.Check(ok, "NewZeroAtSeeker", p.Rel(fn.Pos()), "nBits = argument", "NewZeroAtSeeker: "+why)
	}
	if fn := c09Fn(ru, p, "(*internal/bitiox.ZeroReadAtSeeker).CloneReadAtSeeker"); fn != nil {
		s := newC09Sym(fn)
		ok, why := false, "no return"
		for _, rt := range c09Returns(fn) {
			if len(rt.Results) == 2 {
				ok, why = s.match(rt.Results[0], pCall("internal/bitiox.NewZeroAtSeeker", pP("recv.nBits")))
			}
		}
		ru.Check(ok, "ZeroReadAtSeeker.Clone", p.Rel(fn.Pos()), "clone has the same size", "ZeroReadAtSeeker.CloneReadAtSeeker: "+why)
	}
}

func c09SortedJoin(a ...string) string {
	sort.Strings(a)
	return strings.Join(a, ", ")
}

// summariseMinPhis substitutes min(a, b) for every two-way phi that selects, on each incoming
// edge, the operand proven not greater than the other one.
func (s *c09Sym) summariseMinPhis() {
	type sub struct {
		ph *ssa.Phi
		p  *fw.Poly
	}
	var subs []sub
	fw.EachInstr(s.fn, func(ins ssa.Instruction) {
		ph, ok := ins.(*ssa.Phi)
		if !ok || len(ph.Edges) != 2 || !c09IsIntType(ph.Type()) {
			return
		}
		pa, pb := s.Of(ph.Edges[0]), s.Of(ph.Edges[1])
		if pa.Equal(pb) {
			return
		}
		le := func(i int, x, y *fw.Poly) bool { // on edge i: x <= y
			facts := s.E().EdgeFacts(ph.Block().Preds[i], ph.Block())
			d := x.Sub(y)
			return fw.ProvesFrom(facts, fw.Cmp{P: d, Rel: fw.LE}) || fw.ProvesFrom(facts, fw.Cmp{P: d, Rel: fw.LT})
		}
		if le(0, pa, pb) && le(1, pb, pa) {
			subs = append(subs, sub{ph, fw.PAtom("min(" + c09SortedJoin(pa.String(), pb.String()) + ")")})
		}
	})
	for _, x := range subs {
		s.summarise(x.ph, x.p)
	}
}

// c09EdgeCmp: the integer comparison that holds when control flows from block x to its successor
// t because of x's own terminating If.
func (s *c09Sym) edgeCmp(x, t *ssa.BasicBlock) (fw.Cmp, bool) {
	if len(x.Instrs) == 0 || len(x.Succs) != 2 || x.Succs[0] == x.Succs[1] {
		return fw.Cmp{}, false
	}
	ifi, ok := x.Instrs[len(x.Instrs)-1].(*ssa.If)
	if !ok {
		return fw.Cmp{}, false
	}
	g := fw.Guard{Cond: ifi.Cond, True: x.Succs[0] == t}.Normalize()
	c, ok := s.E().CmpOf(g.Cond)
	if !ok {
		return fw.Cmp{}, false
	}
	if !g.True {
		c.Rel = c.Rel.Negate()
	}
	return c, true
}

// c09BoundFrom: c is `counter < B` in some spelling; returns B.
func c09BoundFrom(c fw.Cmp, counter *fw.Poly) *fw.Poly {
	switch c.Rel {
	case fw.LT: // counter - B < 0
		return counter.Sub(c.P)
	case fw.LE: // counter - (B-1) <= 0
		return counter.Sub(c.P).Add(fw.PConst(1))
	case fw.GT: // B - counter > 0
		return c.P.Add(counter)
	case fw.GE: // (B-1) - counter >= 0
		return c.P.Add(counter).Add(fw.PConst(1))
	}
	return nil
}

// countedLoopBound: ph is a counter 0,1,2,... (edges {0, ph+1}); returns B such that the block
// body is executed exactly for ph = 0 .. B-1. Two loop shapes are recognised:
//
//	classic:  head: ph = phi(0, ph+1); if ph < B goto body else done          (for i := 0; i < B; i++)
//	rotated:  pre: if 0 < B goto body else done; body: ph = phi(0, ph+1) ...; if ph+1 < B goto body
//	          (for i := range B)
//
// body must be executed on every iteration (it dominates the latch).
func (s *c09Sym) countedLoopBound(ph *ssa.Phi, body *ssa.BasicBlock) (*fw.Poly, string) {
	h := ph.Block()
	if len(ph.Edges) != 2 || len(h.Preds) != 2 {
		return nil, "counter is not a two-way phi"
	}
	var pre, latch *ssa.BasicBlock
	var next ssa.Value
	for i, ed := range ph.Edges {
		if c, isC := c09ConstInt(ed); isC && c == 0 {
			pre = h.Preds[i]
		} else {
			latch, next = h.Preds[i], ed
		}
	}
	if pre == nil || latch == nil {
		return nil, "counter does not start at 0"
	}
	if body != latch && !body.Dominates(latch) {
		return nil, "the body is not executed on every iteration"
	}
	mentions := func(p *fw.Poly, q *fw.Poly) bool {
		for _, a := range q.Atoms() {
			for _, b := range p.Atoms() {
				if a == b {
					return true
				}
			}
		}
		return false
	}
	iP := s.Of(ph)
	// classic: the head tests the counter
	if body != h {
		var t *ssa.BasicBlock
		for _, sc := range h.Succs {
			if sc == body || sc.Dominates(body) {
				t = sc
			}
		}
		if t != nil && len(t.Preds) == 1 {
			if c, ok := s.edgeCmp(h, t); ok {
				if b := c09BoundFrom(c, iP); b != nil && !mentions(b, iP) {
					return b, ""
				}
			}
		}
	}
	// rotated: tested before entering (counter 0) and at the latch (counter+1)
	if body == h || h.Dominates(body) {
		c0, ok0 := s.edgeCmp(pre, h)
		c1, ok1 := s.edgeCmp(latch, h)
		if ok0 && ok1 {
			b0 := c09BoundFrom(c0, fw.PConst(0))
			b1 := c09BoundFrom(c1, s.Of(next))
			if b0 != nil && b1 != nil && b0.Equal(b1) && !mentions(b0, iP) {
				return b0, ""
			}
			return nil, "entry test and continuation test of the loop do not agree on one bound"
		}
	}
	return nil, "no `counter < bound` test controls the loop"
}
