// fqverif decides structural necessary conditions of the fq properties C01..C20
// by static analysis of /repo's current working tree.
package main

import (
	"encoding/json"
	"flag"
	"fmt"
	"os"
	"os/exec"
	"path/filepath"
	"runtime/debug"
	"sort"
	"strconv"
	"strings"
	"sync"

	"fqverif/fw"
	"fqverif/rules"
)

func main() {
	prop := flag.String("property", "", "property id (C01..C20)")
	tier := flag.String("tier", os.Getenv("VERIF_TIER"), "quick|thorough")
	control := flag.String("control", "", "internal: run with this control overlay applied and print JSON verdict")
	goarch := flag.String("goarch", "", "internal: load with this GOARCH")
	list := flag.Bool("list", false, "list properties")
	flag.Parse()
	if *list {
		fmt.Println(strings.Join(rules.IDs(), " "))
		return
	}
	if *tier == "" {
		*tier = "quick"
	}
	seed, _ := strconv.Atoi(os.Getenv("VERIF_SEED"))
	fn := rules.Get(*prop)
	if fn == nil {
		fmt.Printf("unknown property %q\n", *prop)
		os.Exit(2)
	}
	if *control != "" {
		os.Exit(runControl(*prop, *control, fn))
	}
	run := fw.NewRun(*prop, *tier, seed)
	code := func() (code int) {
		defer func() {
			if e := recover(); e != nil {
				run.Fatal(fmt.Sprintf("checker panic: %v\n%s", e, debug.Stack()))
				code = run.Finish()
			}
		}()
		p, err := fw.Load(fw.LoadOpts{GOARCH: *goarch})
		if err != nil {
			run.Fatal("load: " + err.Error())
			return run.Finish()
		}
		run.Prog = p
		run.Configs = append(run.Configs, p.Config)
		fw.CurrentNR = fw.ComputeNoReturn(p)
		fn(run, p)
		if *tier == "thorough" {
			thorough(run, *prop)
		}
		return run.Finish()
	}()
	os.Exit(code)
}

// thorough adds: a second build configuration (GOARCH=386) in a subprocess and the positive controls.
func thorough(run *fw.Run, prop string) {
	self, _ := os.Executable()
	// second configuration
	cmd := exec.Command(self, "-property", prop, "-tier", "quick", "-goarch", "386")
	tmp, _ := os.MkdirTemp("", "fqverif386")
	defer os.RemoveAll(tmp)
	cmd.Env = append(os.Environ(), "VERIF_DIR="+tmp, "FQVERIF_KNOWN="+filepath.Join(fw.VerifDir(), "known_findings.json"))
	// the subprocess needs the known findings file: copy it
	if b, err := os.ReadFile(filepath.Join(fw.VerifDir(), "known_findings.json")); err == nil {
		_ = os.WriteFile(filepath.Join(tmp, "known_findings.json"), b, 0o644)
	}
	out, err := cmd.CombinedOutput()
	run.Configs = append(run.Configs, "linux/386 (subprocess)")
	if err != nil {
		run.Fatal("configuration linux/386: " + err.Error() + ": " + tail(string(out), 1500))
	}
	// controls
	cs := rules.ControlsFor(prop)
	if s := run.Seed; s != 0 {
		sort.SliceStable(cs, func(i, j int) bool { return (i*7+s)%len(cs) < (j*7+s)%len(cs) })
	}
	res := make([]fw.ControlResult, len(cs))
	var wg sync.WaitGroup
	sem := make(chan struct{}, 6)
	for i, c := range cs {
		wg.Add(1)
		go func(i int, c rules.Control) {
			defer wg.Done()
			sem <- struct{}{}
			defer func() { <-sem }()
			res[i] = execControl(self, prop, c)
		}(i, c)
	}
	wg.Wait()
	sort.Slice(res, func(i, j int) bool { return res[i].ID < res[j].ID })
	run.Controls = res
}

func tail(s string, n int) string {
	if len(s) > n {
		return s[len(s)-n:]
	}
	return s
}

func execControl(self, prop string, c rules.Control) fw.ControlResult {
	cmd := exec.Command(self, "-property", prop, "-control", c.ID)
	out, _ := cmd.Output()
	var r fw.ControlResult
	// last line is JSON
	lines := strings.Split(strings.TrimSpace(string(out)), "\n")
	if err := json.Unmarshal([]byte(lines[len(lines)-1]), &r); err != nil {
		return fw.ControlResult{ID: c.ID, Rule: c.Rule, Outcome: "broken", Detail: "no verdict from control subprocess: " + tail(string(out), 300)}
	}
	return r
}

// runControl loads the program with the control's overlay and reports whether the named rule fired.
func runControl(prop, id string, fn rules.PropFn) int {
	emit := func(r fw.ControlResult) int {
		b, _ := json.Marshal(r)
		fmt.Println(string(b))
		return 0
	}
	var c *rules.Control
	for _, x := range rules.ControlsFor(prop) {
		if x.ID == id {
			x := x
			c = &x
		}
	}
	if c == nil {
		return emit(fw.ControlResult{ID: id, Outcome: "broken", Detail: "unknown control"})
	}
	overlay, skipped, err := c.Overlay(fw.RepoDir())
	if err != nil {
		return emit(fw.ControlResult{ID: id, Rule: c.Rule, Outcome: "broken", Detail: err.Error()})
	}
	if skipped != "" {
		return emit(fw.ControlResult{ID: id, Rule: c.Rule, Outcome: "skipped", Detail: skipped})
	}
	tmp, _ := os.MkdirTemp("", "fqverifctl")
	defer os.RemoveAll(tmp)
	if b, err := os.ReadFile(filepath.Join(fw.VerifDir(), "known_findings.json")); err == nil {
		_ = os.WriteFile(filepath.Join(tmp, "known_findings.json"), b, 0o644)
	}
	os.Setenv("VERIF_DIR", tmp)
	run := fw.NewRun(prop, "control", 0)
	p, err := fw.Load(fw.LoadOpts{Overlay: overlay})
	if err != nil {
		return emit(fw.ControlResult{ID: id, Rule: c.Rule, Outcome: "broken", Detail: "control does not type-check: " + err.Error()})
	}
	run.Prog = p
	fw.CurrentNR = fw.ComputeNoReturn(p)
	func() {
		defer func() {
			if e := recover(); e != nil {
				run.Fatal(fmt.Sprintf("panic: %v", e))
			}
		}()
		fw.JQOverlay = overlay
		fn(run, p)
	}()
	// silence Finish output: redirect stdout
	old := os.Stdout
	devnull, _ := os.Open(os.DevNull)
	os.Stdout, _ = os.OpenFile(os.DevNull, os.O_WRONLY, 0)
	run.Finish()
	os.Stdout = old
	devnull.Close()
	b, _ := os.ReadFile(filepath.Join(tmp, "evidence", prop+".violations.json"))
	var rep struct {
		Violations []fw.Obligation `json:"violations"`
	}
	_ = json.Unmarshal(b, &rep)
	for _, v := range rep.Violations {
		if v.Rule == c.Rule && (c.ExpectKey == "" || strings.Contains(v.Key+" "+v.Msg, c.ExpectKey)) {
			return emit(fw.ControlResult{ID: id, Rule: c.Rule, Outcome: "fired", Detail: v.Key})
		}
	}
	var got []string
	for _, v := range rep.Violations {
		got = append(got, v.Rule+":"+v.Key)
	}
	return emit(fw.ControlResult{ID: id, Rule: c.Rule, Outcome: "missed", Detail: "rule did not report the seeded construct; reports: " + strings.Join(got, ", ")})
}
