package fw

import (
	"go/token"
	"go/types"
	"sort"
	"strings"

	"golang.org/x/tools/go/ssa"
)

// Guard is a branch condition known to hold (True) or not hold (!True) at a program point.
type Guard struct {
	Cond ssa.Value
	True bool
	If   *ssa.If
}

// CurrentNR is the no-return summary of the loaded program (set by the driver); Guards uses it
// so that "if bad { d.Fatalf(...) }" establishes !bad for the code after the if.
var CurrentNR *NoReturn

// Guards returns the branch conditions known at block b: for every dominator d of b ending in
// If, the condition holds (or not) when b is only reachable through one successor edge, either
// structurally or because the other arm never completes (no-return).
func Guards(b *ssa.BasicBlock) []Guard {
	var out []Guard
	for d := b.Idom(); d != nil; d = d.Idom() {
		ifi, ok := d.Instrs[len(d.Instrs)-1].(*ssa.If)
		if !ok {
			continue
		}
		t, f := d.Succs[0], d.Succs[1]
		td := edgeDominates(d, t, b)
		fd := edgeDominates(d, f, b)
		switch {
		case td && !fd:
			out = append(out, Guard{Cond: ifi.Cond, True: true, If: ifi})
		case fd && !td:
			out = append(out, Guard{Cond: ifi.Cond, True: false, If: ifi})
		case !td && !fd && CurrentNR != nil:
			tf := len(t.Preds) == 1 && CurrentNR.BlockFails(t)
			ff := len(f.Preds) == 1 && CurrentNR.BlockFails(f)
			if tf && !ff {
				out = append(out, Guard{Cond: ifi.Cond, True: false, If: ifi})
			} else if ff && !tf {
				out = append(out, Guard{Cond: ifi.Cond, True: true, If: ifi})
			}
		}
	}
	return out
}

// edgeDominates: every path from d to b goes through edge d->s. True when s dominates b and
// s's only predecessor is d (then the edge is the only way into s), or s==b with single pred.
func edgeDominates(d, s, b *ssa.BasicBlock) bool {
	if len(s.Preds) != 1 {
		// s has other preds; the edge dominates b only if all other preds are dominated by s (loops) - be conservative
		return false
	}
	return s == b || s.Dominates(b)
}

// ExpandGuards splits && / || conditions that go/ssa already lowered (it lowers them to control
// flow, so nothing to do) and strips NOT.
func (g Guard) Normalize() Guard {
	for {
		u, ok := g.Cond.(*ssa.UnOp)
		if !ok || u.Op != token.NOT {
			return g
		}
		g = Guard{Cond: u.X, True: !g.True, If: g.If}
	}
}

// Facts returns the integer comparison facts known at block b.
func (e *PolyEnv) Facts(b *ssa.BasicBlock) []Cmp {
	var out []Cmp
	for _, g := range Guards(b) {
		g = g.Normalize()
		c, ok := e.CmpOf(g.Cond)
		if !ok {
			continue
		}
		if !g.True {
			c.Rel = c.Rel.Negate()
		}
		out = append(out, c)
	}
	return out
}

// EdgeFacts returns the facts known when control flows from pred to succ: the facts at pred plus
// the outcome of pred's own terminating If.
func (e *PolyEnv) EdgeFacts(pred, succ *ssa.BasicBlock) []Cmp {
	out := e.Facts(pred)
	if ifi, ok := pred.Instrs[len(pred.Instrs)-1].(*ssa.If); ok && len(pred.Succs) == 2 && pred.Succs[0] != pred.Succs[1] {
		g := Guard{Cond: ifi.Cond, True: pred.Succs[0] == succ}.Normalize()
		if c, ok := e.CmpOf(g.Cond); ok {
			if !g.True {
				c.Rel = c.Rel.Negate()
			}
			out = append(out, c)
		}
	}
	return out
}

// ProvesFrom reports whether the given facts imply q.
func ProvesFrom(facts []Cmp, q Cmp) bool {
	for _, f := range facts {
		if f.Implies(q) {
			return true
		}
	}
	return false
}

// ProvesNV is Proves with store-version suffixes of field atoms ignored on both sides.
func (e *PolyEnv) ProvesNV(b *ssa.BasicBlock, q Cmp) bool {
	q.P = StripVersions(q.P)
	for _, f := range e.Facts(b) {
		f.P = StripVersions(f.P)
		if f.Implies(q) {
			return true
		}
	}
	return false
}

// Proves reports whether the facts at block b imply q.
func (e *PolyEnv) Proves(b *ssa.BasicBlock, q Cmp) bool {
	if c, ok := q.P.IsConst(); ok {
		switch q.Rel {
		case EQ:
			return c == 0
		case NE:
			return c != 0
		case LT:
			return c < 0
		case LE:
			return c <= 0
		case GT:
			return c > 0
		case GE:
			return c >= 0
		}
	}
	for _, f := range e.Facts(b) {
		if f.Implies(q) {
			return true
		}
	}
	return false
}

// ---------------------------------------------------------------------------

// NoReturn computes the set of fq functions none of whose paths reach a Return
// (they always panic / call a no-return function). Fixed point over static calls.
type NoReturn struct {
	set map[*ssa.Function]bool
}

func ComputeNoReturn(p *Program) *NoReturn {
	nr := &NoReturn{set: map[*ssa.Function]bool{}}
	fns := p.FqFunctions()
	// os.Exit, log.Fatal*, runtime.Goexit
	changed := true
	for changed {
		changed = false
		for _, fn := range fns {
			if nr.set[fn] {
				continue
			}
			if !nr.canReturn(fn) {
				nr.set[fn] = true
				changed = true
			}
		}
	}
	return nr
}

func (nr *NoReturn) Is(fn *ssa.Function) bool {
	if fn == nil {
		return false
	}
	if nr.set[fn] {
		return true
	}
	switch fn.String() {
	case "os.Exit", "log.Fatal", "log.Fatalf", "log.Fatalln", "runtime.Goexit", "log.Panic", "log.Panicf":
		return true
	}
	return false
}

// BlockCut reports whether control cannot pass beyond instruction index i (exclusive search):
// returns the index of the first instruction in b that never returns, or -1.
func (nr *NoReturn) CutIndex(b *ssa.BasicBlock) int {
	for i, ins := range b.Instrs {
		switch x := ins.(type) {
		case *ssa.Panic:
			return i
		case *ssa.Call:
			if nr.Is(x.Common().StaticCallee()) {
				return i
			}
		}
	}
	return -1
}

func (nr *NoReturn) canReturn(fn *ssa.Function) bool {
	if len(fn.Blocks) == 0 {
		return true
	}
	if fn.Recover != nil {
		return true
	}
	seen := map[*ssa.BasicBlock]bool{}
	stack := []*ssa.BasicBlock{fn.Blocks[0]}
	for len(stack) > 0 {
		b := stack[len(stack)-1]
		stack = stack[:len(stack)-1]
		if seen[b] {
			continue
		}
		seen[b] = true
		if nr.CutIndex(b) >= 0 {
			continue
		}
		if _, ok := b.Instrs[len(b.Instrs)-1].(*ssa.Return); ok {
			return true
		}
		stack = append(stack, b.Succs...)
	}
	return false
}

// BlockNoReturn: every path from the start of b ends in a no-return instruction before any Return
// (b is a "failing arm").
func (nr *NoReturn) BlockFails(b *ssa.BasicBlock) bool {
	seen := map[*ssa.BasicBlock]bool{}
	var rec func(b *ssa.BasicBlock) bool
	rec = func(b *ssa.BasicBlock) bool {
		if seen[b] {
			return true // cycle without exit: does not return
		}
		seen[b] = true
		if nr.CutIndex(b) >= 0 {
			return true
		}
		if _, ok := b.Instrs[len(b.Instrs)-1].(*ssa.Return); ok {
			return false
		}
		if len(b.Succs) == 0 {
			return true
		}
		for _, s := range b.Succs {
			if !rec(s) {
				return false
			}
		}
		return true
	}
	return rec(b)
}

// ---------------------------------------------------------------------------

// EachInstr calls f for every instruction of fn (not descending into closures).
func EachInstr(fn *ssa.Function, f func(ssa.Instruction)) {
	for _, b := range fn.Blocks {
		for _, ins := range b.Instrs {
			f(ins)
		}
	}
}

// WithClosures returns fn and all closures nested in it (transitively), in stable order.
func WithClosures(fn *ssa.Function) []*ssa.Function {
	out := []*ssa.Function{fn}
	for _, a := range fn.AnonFuncs {
		out = append(out, WithClosures(a)...)
	}
	return out
}

// CallsIn returns call instructions (Call, Go, Defer) in fn in block order.
func CallsIn(fn *ssa.Function) []ssa.CallInstruction {
	var out []ssa.CallInstruction
	EachInstr(fn, func(i ssa.Instruction) {
		if c, ok := i.(ssa.CallInstruction); ok {
			out = append(out, c)
		}
	})
	return out
}

// CalleeName returns the resolved static callee's full name ("" if dynamic); for interface
// invokes it returns "invoke:<iface type>.<method>".
func CalleeName(c ssa.CallInstruction) string {
	cc := c.Common()
	if cc.IsInvoke() {
		return "invoke:" + types.TypeString(cc.Value.Type(), nil) + "." + cc.Method.Name()
	}
	if f := cc.StaticCallee(); f != nil {
		if o := f.Origin(); o != nil {
			return o.String()
		}
		return f.String()
	}
	if b, ok := cc.Value.(*ssa.Builtin); ok {
		return "builtin:" + b.Name()
	}
	return ""
}

// ShortFn renders a function name without the module prefix.
func ShortFn(fn *ssa.Function) string {
	if fn == nil {
		return "<nil>"
	}
	return strings.ReplaceAll(fn.String(), Mod+"/", "")
}

// IsBuiltinCall reports a call to the named builtin.
func IsBuiltinCall(c ssa.CallInstruction, name string) bool {
	b, ok := c.Common().Value.(*ssa.Builtin)
	return ok && b.Name() == name
}

// Referrers-based: all uses of v (transitively through conversions/ChangeType/MakeInterface).
func UsesThroughConv(v ssa.Value) []ssa.Instruction {
	var out []ssa.Instruction
	seen := map[ssa.Value]bool{}
	var rec func(v ssa.Value)
	rec = func(v ssa.Value) {
		if seen[v] || v.Referrers() == nil {
			return
		}
		seen[v] = true
		for _, r := range *v.Referrers() {
			switch x := r.(type) {
			case *ssa.Convert:
				rec(x)
			case *ssa.ChangeType:
				rec(x)
			case *ssa.MakeInterface:
				rec(x)
			default:
				out = append(out, r)
			}
		}
	}
	rec(v)
	return out
}

// SortedKeys helper.
func SortedKeys[V any](m map[string]V) []string {
	var out []string
	for k := range m {
		out = append(out, k)
	}
	sort.Strings(out)
	return out
}

// Implements reports whether t or *t implements iface.
func Implements(t types.Type, iface *types.Interface) bool {
	if types.Implements(t, iface) {
		return true
	}
	if _, ok := t.(*types.Pointer); !ok {
		return types.Implements(types.NewPointer(t), iface)
	}
	return false
}
