package fw

// Abstract SSA interpreter used by the C01 bit-movement rules.
//
// It interprets go/ssa functions over a domain in which
//   - control integers (bit positions, counts, indexes) are affine in ONE unknown non-negative
//     integer base "B":  KB*B + C  with concrete KB, C  (so "firstBit = 8*B + o" keeps the byte
//     index symbolic as B+k while its alignment o is concrete),
//   - data (buffer bytes, the integer being read or written) are bit vectors whose every bit is
//     0, 1, bit j of a named symbolic source, or unknown (BvVec of c02_helpers.go),
//   - memory is a set of abstract arrays / cells holding such values.
//
// Branches must be decidable from the control integers; a branch on symbolic data aborts the
// interpretation ("undecided"), it is never guessed. No fq code is executed and no concrete input
// data exists: the result of interpreting Read64 for alignment o and width n is a bit vector
// naming, per result bit, which stream bit it is — for all inputs at once.

import (
	"fmt"
	"go/constant"
	"go/token"
	"go/types"
	"strings"

	"golang.org/x/tools/go/ssa"
)

type AVKind uint8

const (
	AVOpaque AVKind = iota
	AVInt           // KB*B + C (bools are 0/1)
	AVBits          // symbolic bit vector
	AVSlice
	AVPtr
	AVTuple
	AVErr // error-like token: Tag "nil" or a name
	AVFunc
	AVStruct // struct value
	AVUnknownInt
)

// AV is an abstract value.
type AV struct {
	K      AVKind
	KB, C  int64
	V      *BvVec
	Arr    *AArr
	OffKB  int64 // slice/pointer element offset = OffKB*B + Off
	Off    int64
	Len    int64 // slice length, -1 unknown
	Cap    int64
	Cell   *ACell
	Elems  []AV
	Tag    string
	Fn     *ssa.Function
	Bind   []AV
	Fields []AV
}

func AInt(c int64) AV       { return AV{K: AVInt, C: c} }
func AAff(kb, c int64) AV   { return AV{K: AVInt, KB: kb, C: c} }
func ABits(v BvVec) AV      { return AV{K: AVBits, V: &v} }
func AErr(tag string) AV    { return AV{K: AVErr, Tag: tag} }
func ATuple(e ...AV) AV     { return AV{K: AVTuple, Elems: e} }
func (a AV) IsConc() bool   { return a.K == AVInt && a.KB == 0 }
func (a AV) IsNilErr() bool { return a.K == AVErr && a.Tag == "nil" }
func ASliceOf(arr *AArr, offKB, off, ln int64) AV {
	return AV{K: AVSlice, Arr: arr, OffKB: offKB, Off: off, Len: ln, Cap: ln}
}

func (a AV) String() string {
	switch a.K {
	case AVInt:
		if a.KB == 0 {
			return fmt.Sprint(a.C)
		}
		return fmt.Sprintf("%d*B+%d", a.KB, a.C)
	case AVBits:
		return a.V.Describe()
	case AVErr:
		return "err:" + a.Tag
	case AVSlice:
		return fmt.Sprintf("slice(%s,%d*B+%d,len %d)", a.Arr.Name, a.OffKB, a.Off, a.Len)
	}
	return fmt.Sprintf("av%d", a.K)
}

// AArr is an abstract array: elements indexed relative to an optional symbolic base.
type AArr struct {
	Name    string
	KB      int64 // 1 when indexes are B+k, 0 when concrete
	Elems   map[int64]AV
	Default func(idx int64) AV
	Len     int64 // -1 unknown
	Written map[int64]bool
	Read    map[int64]bool
}

func NewAArr(name string, kb int64, ln int64, def func(idx int64) AV) *AArr {
	return &AArr{Name: name, KB: kb, Elems: map[int64]AV{}, Default: def, Len: ln, Written: map[int64]bool{}, Read: map[int64]bool{}}
}

func (a *AArr) Get(i int64) AV {
	a.Read[i] = true
	if v, ok := a.Elems[i]; ok {
		return v
	}
	if a.Default != nil {
		return a.Default(i)
	}
	return AInt(0)
}

func (a *AArr) Set(i int64, v AV) {
	a.Elems[i] = v
	a.Written[i] = true
}

// ByteAt returns element i as an 8-bit vector.
func (a *AArr) ByteAt(i int64) BvVec {
	return AToBits(a.Get(i), 8, false)
}

// ACell is a scalar or struct memory cell.
type ACell struct {
	Val    AV
	Fields []*ACell
}

// StreamByte is the symbolic byte k of a bit stream named src: value bit j (LSB = 0) is stream
// bit 8k+7-j (streams are numbered most significant bit first).
func StreamByte(src string, k int64) BvVec {
	v := BvVec{W: 8}
	for j := 0; j < 8; j++ {
		v.B[j] = BvBit{K: BvSrc, Src: src, I: int(8*k) + 7 - j}
	}
	return v
}

// SymWord is a w-bit symbolic integer named src (bit j = src.j).
func SymWord(src string, w int) BvVec {
	v := BvVec{W: w}
	for j := 0; j < w; j++ {
		v.B[j] = BvBit{K: BvSrc, Src: src, I: j}
	}
	return v
}

func ConstBits(c int64, w int, signed bool) BvVec {
	v := BvVec{W: w, Signed: signed}
	for j := 0; j < w; j++ {
		if uint64(c)>>uint(j)&1 == 1 {
			v.B[j] = BvBit{K: BvOne}
		}
	}
	return v
}

// AToBits converts an abstract value to a bit vector of width w.
func AToBits(a AV, w int, signed bool) BvVec {
	switch a.K {
	case AVBits:
		return BvResize(*a.V, w, signed)
	case AVInt:
		if a.KB == 0 {
			return ConstBits(a.C, w, signed)
		}
	}
	v := BvVec{W: w, Signed: signed}
	for j := 0; j < w; j++ {
		v.B[j] = BvBit{K: BvTop}
	}
	return v
}

// BvResize converts to width w with the extension the source signedness dictates.
func BvResize(v BvVec, w int, signed bool) BvVec {
	r := BvVec{W: w, Signed: signed}
	for j := 0; j < w; j++ {
		switch {
		case j < v.W:
			r.B[j] = v.B[j]
		case v.Signed && v.W > 0:
			r.B[j] = v.B[v.W-1]
		}
	}
	return r
}

func bvAllConst(v BvVec) (uint64, bool) {
	var u uint64
	for j := 0; j < v.W; j++ {
		switch v.B[j].K {
		case BvOne:
			u |= 1 << uint(j)
		case BvZero:
		default:
			return 0, false
		}
	}
	return u, true
}

// ---------------------------------------------------------------------------

// AHook models a callee: return ok=false to fall through to default handling.
type AHook func(it *AInterp, call *ssa.CallCommon, args []AV) (AV, bool)

// AInterp is the interpreter.
type AInterp struct {
	IntBits  int
	MaxSteps int
	Hooks    map[string]AHook // by SxCallee name
	Dyn      AHook            // dynamic (closure parameter) calls without a known function
	Globals  map[string]AV    // by "pkg.Name"
	steps    int
	depth    int
	// Trace of the outermost frame: blocks visited
	Trace []*ssa.BasicBlock
	Abort string
}

func NewAInterp(intBits int) *AInterp {
	it := &AInterp{IntBits: intBits, MaxSteps: 200000, Hooks: map[string]AHook{}, Globals: map[string]AV{}}
	it.stdHooks()
	return it
}

type aPanic struct{ msg string }
type aAbort struct{ msg string }

// Outcome of a call.
type AOutcome struct {
	Kind string // "return" | "panic" | "abort"
	Msg  string
	Res  AV
}

// Run interprets fn with args. The first outcome that is not a normal return is reported.
func (it *AInterp) Run(fn *ssa.Function, args []AV) (out AOutcome) {
	it.steps = 0
	it.depth = 0
	it.Trace = nil
	defer func() {
		if e := recover(); e != nil {
			switch x := e.(type) {
			case aPanic:
				out = AOutcome{Kind: "panic", Msg: x.msg}
			case aAbort:
				out = AOutcome{Kind: "abort", Msg: x.msg}
			default:
				panic(e)
			}
		}
	}()
	res := it.call(fn, args, nil)
	return AOutcome{Kind: "return", Res: res}
}

func (it *AInterp) abort(f string, a ...any)   { panic(aAbort{fmt.Sprintf(f, a...)}) }
func (it *AInterp) gopanic(f string, a ...any) { panic(aPanic{fmt.Sprintf(f, a...)}) }

func (it *AInterp) intInfo(t types.Type) (w int, signed bool, ok bool) {
	b, isB := t.Underlying().(*types.Basic)
	if !isB {
		return 0, false, false
	}
	if b.Info()&types.IsBoolean != 0 {
		return 1, false, true
	}
	if b.Info()&types.IsInteger == 0 {
		return 0, false, false
	}
	signed = b.Info()&types.IsUnsigned == 0
	switch b.Kind() {
	case types.Int8, types.Uint8:
		return 8, signed, true
	case types.Int16, types.Uint16:
		return 16, signed, true
	case types.Int32, types.Uint32:
		return 32, signed, true
	case types.Int64, types.Uint64, types.UntypedInt:
		return 64, signed, true
	}
	return it.IntBits, signed, true
}

func wrapInt(c int64, w int, signed bool) int64 {
	if w >= 64 {
		return c
	}
	u := uint64(c) & (1<<uint(w) - 1)
	if signed && u>>(uint(w)-1)&1 == 1 {
		return int64(u) - (1 << uint(w))
	}
	return int64(u)
}

func (it *AInterp) zero(t types.Type) AV {
	switch u := t.Underlying().(type) {
	case *types.Basic:
		if _, _, ok := it.intInfo(t); ok {
			return AInt(0)
		}
	case *types.Interface:
		if types.Identical(t, types.Universe.Lookup("error").Type()) {
			return AErr("nil")
		}
		return AErr("nil")
	case *types.Slice:
		return AV{K: AVSlice, Arr: NewAArr("nil", 0, 0, nil), Len: 0, Cap: 0}
	case *types.Struct:
		s := AV{K: AVStruct}
		for i := 0; i < u.NumFields(); i++ {
			s.Fields = append(s.Fields, it.zero(u.Field(i).Type()))
		}
		return s
	case *types.Pointer:
		return AV{K: AVPtr}
	}
	return AV{K: AVOpaque}
}

func (it *AInterp) newCell(t types.Type) *ACell {
	if st, ok := t.Underlying().(*types.Struct); ok {
		c := &ACell{}
		for i := 0; i < st.NumFields(); i++ {
			c.Fields = append(c.Fields, it.newCell(st.Field(i).Type()))
		}
		return c
	}
	return &ACell{Val: it.zero(t)}
}

func (it *AInterp) loadCell(c *ACell) AV {
	if c.Fields != nil {
		s := AV{K: AVStruct}
		for _, f := range c.Fields {
			s.Fields = append(s.Fields, it.loadCell(f))
		}
		return s
	}
	return c.Val
}

func (it *AInterp) storeCell(c *ACell, v AV) {
	if c.Fields != nil && v.K == AVStruct && len(v.Fields) == len(c.Fields) {
		for i, f := range c.Fields {
			it.storeCell(f, v.Fields[i])
		}
		return
	}
	c.Val = v
}

type aFrame struct {
	fn   *ssa.Function
	vals map[ssa.Value]AV
	top  bool
}

func (it *AInterp) get(fr *aFrame, v ssa.Value) AV {
	switch x := v.(type) {
	case *ssa.Const:
		return it.constAV(x)
	case *ssa.Function:
		return AV{K: AVFunc, Fn: x}
	case *ssa.Global:
		return AV{K: AVPtr, Tag: "global:" + x.Pkg.Pkg.Name() + "." + x.Name()}
	case *ssa.Builtin:
		return AV{K: AVOpaque, Tag: "builtin:" + x.Name()}
	}
	if a, ok := fr.vals[v]; ok {
		return a
	}
	it.abort("value %s used before definition in %s", v.Name(), fr.fn.Name())
	return AV{}
}

func (it *AInterp) constAV(c *ssa.Const) AV {
	if c.Value == nil {
		switch c.Type().Underlying().(type) {
		case *types.Interface:
			return AErr("nil")
		}
		return it.zero(c.Type())
	}
	switch c.Value.Kind() {
	case constant.Bool:
		if constant.BoolVal(c.Value) {
			return AInt(1)
		}
		return AInt(0)
	case constant.Int:
		if i, ok := constant.Int64Val(c.Value); ok {
			return AInt(i)
		}
		if u, ok := constant.Uint64Val(c.Value); ok {
			return AInt(int64(u))
		}
	case constant.String:
		return AV{K: AVOpaque, Tag: "str:" + constant.StringVal(c.Value)}
	}
	return AV{K: AVOpaque}
}

func (it *AInterp) call(fn *ssa.Function, args []AV, bind []AV) AV {
	if fn.Blocks == nil {
		it.abort("call of %s: no body", fn.String())
	}
	it.depth++
	if it.depth > 40 {
		it.abort("call depth")
	}
	defer func() { it.depth-- }()
	fr := &aFrame{fn: fn, vals: map[ssa.Value]AV{}, top: it.depth == 1}
	for i, p := range fn.Params {
		if i < len(args) {
			fr.vals[p] = args[i]
		}
	}
	for i, fv := range fn.FreeVars {
		if i < len(bind) {
			fr.vals[fv] = bind[i]
		}
	}
	var prev *ssa.BasicBlock
	b := fn.Blocks[0]
	for {
		if fr.top {
			it.Trace = append(it.Trace, b)
		}
		// phis first (parallel)
		var phiVals []AV
		var phis []*ssa.Phi
		for _, ins := range b.Instrs {
			ph, ok := ins.(*ssa.Phi)
			if !ok {
				break
			}
			idx := -1
			for i, p := range b.Preds {
				if p == prev {
					idx = i
				}
			}
			if idx < 0 {
				it.abort("phi without predecessor")
			}
			phis = append(phis, ph)
			phiVals = append(phiVals, it.get(fr, ph.Edges[idx]))
		}
		for i, ph := range phis {
			fr.vals[ph] = phiVals[i]
		}
		for _, ins := range b.Instrs[len(phis):] {
			it.steps++
			if it.steps > it.MaxSteps {
				it.abort("step limit (non-terminating abstract loop?)")
			}
			switch x := ins.(type) {
			case *ssa.If:
				c := it.get(fr, x.Cond)
				if !c.IsConc() {
					it.abort("branch in %s on a value that is not a known control integer: %s", fn.Name(), x.Cond.Name())
				}
				prev = b
				if c.C != 0 {
					b = b.Succs[0]
				} else {
					b = b.Succs[1]
				}
			case *ssa.Jump:
				prev = b
				b = b.Succs[0]
			case *ssa.Return:
				switch len(x.Results) {
				case 0:
					return AV{K: AVTuple}
				case 1:
					return it.get(fr, x.Results[0])
				}
				var es []AV
				for _, r := range x.Results {
					es = append(es, it.get(fr, r))
				}
				return ATuple(es...)
			case *ssa.Panic:
				v := it.get(fr, x.X)
				it.gopanic("explicit panic in %s (%s)", fn.Name(), v.Tag)
			default:
				it.exec(fr, ins)
				continue
			}
			break
		}
	}
}

func (it *AInterp) exec(fr *aFrame, ins ssa.Instruction) {
	switch x := ins.(type) {
	case *ssa.DebugRef, *ssa.RunDefers:
	case *ssa.Alloc:
		et := x.Type().Underlying().(*types.Pointer).Elem()
		if at, ok := et.Underlying().(*types.Array); ok {
			arr := NewAArr("local:"+x.Comment, 0, at.Len(), func(int64) AV { return AInt(0) })
			fr.vals[x] = AV{K: AVPtr, Arr: arr, Tag: "array"}
		} else {
			fr.vals[x] = AV{K: AVPtr, Cell: it.newCell(et)}
		}
	case *ssa.BinOp:
		fr.vals[x] = it.binop(fr, x)
	case *ssa.UnOp:
		fr.vals[x] = it.unop(fr, x)
	case *ssa.Convert:
		fr.vals[x] = it.convert(it.get(fr, x.X), x.X.Type(), x.Type())
	case *ssa.ChangeType:
		fr.vals[x] = it.get(fr, x.X)
	case *ssa.ChangeInterface:
		fr.vals[x] = it.get(fr, x.X)
	case *ssa.MakeInterface:
		fr.vals[x] = it.get(fr, x.X)
	case *ssa.Phi:
		it.abort("phi not at block start")
	case *ssa.IndexAddr:
		fr.vals[x] = it.indexAddr(it.get(fr, x.X), it.get(fr, x.Index))
	case *ssa.Index:
		base := it.get(fr, x.X)
		idx := it.get(fr, x.Index)
		if base.K == AVStruct || !idx.IsConc() {
			it.abort("index of array value")
		}
		fr.vals[x] = AV{K: AVOpaque}
	case *ssa.FieldAddr:
		p := it.get(fr, x.X)
		if p.K != AVPtr || p.Cell == nil || x.Field >= len(p.Cell.Fields) {
			it.abort("field address of unknown object in %s", fr.fn.Name())
		}
		fr.vals[x] = AV{K: AVPtr, Cell: p.Cell.Fields[x.Field]}
	case *ssa.Field:
		s := it.get(fr, x.X)
		if s.K != AVStruct || x.Field >= len(s.Fields) {
			fr.vals[x] = AV{K: AVOpaque}
		} else {
			fr.vals[x] = s.Fields[x.Field]
		}
	case *ssa.Slice:
		fr.vals[x] = it.slice(fr, x)
	case *ssa.Store:
		it.store(it.get(fr, x.Addr), it.get(fr, x.Val))
	case *ssa.MakeSlice:
		ln := it.get(fr, x.Len)
		cp := it.get(fr, x.Cap)
		if !ln.IsConc() || !cp.IsConc() {
			it.abort("make with a symbolic length")
		}
		if ln.C < 0 || cp.C < ln.C {
			it.gopanic("makeslice: len out of range")
		}
		arr := NewAArr("make", 0, cp.C, func(int64) AV { return AInt(0) })
		fr.vals[x] = AV{K: AVSlice, Arr: arr, Len: ln.C, Cap: cp.C}
	case *ssa.MakeClosure:
		var bs []AV
		for _, b := range x.Bindings {
			bs = append(bs, it.get(fr, b))
		}
		fr.vals[x] = AV{K: AVFunc, Fn: x.Fn.(*ssa.Function), Bind: bs}
	case *ssa.Extract:
		t := it.get(fr, x.Tuple)
		if t.K != AVTuple || x.Index >= len(t.Elems) {
			fr.vals[x] = AV{K: AVOpaque}
		} else {
			fr.vals[x] = t.Elems[x.Index]
		}
	case *ssa.Call:
		fr.vals[x] = it.doCall(fr, x.Common())
	case *ssa.TypeAssert:
		v := it.get(fr, x.X)
		if x.CommaOk {
			fr.vals[x] = ATuple(v, AV{K: AVUnknownInt})
		} else {
			fr.vals[x] = v
		}
	case *ssa.Defer, *ssa.Go:
		it.abort("defer/go not modelled")
	default:
		it.abort("instruction %T not modelled (in %s)", ins, fr.fn.Name())
	}
}

func (it *AInterp) store(p AV, v AV) {
	if p.K != AVPtr {
		it.abort("store through a non-pointer")
	}
	switch {
	case p.Arr != nil && p.Tag == "elem":
		p.Arr.Set(p.Off, v)
	case p.Cell != nil:
		it.storeCell(p.Cell, v)
	case strings.HasPrefix(p.Tag, "global:"):
		it.abort("store to %s", p.Tag)
	default:
		it.abort("store to unknown address")
	}
}

func (it *AInterp) load(p AV) AV {
	if p.K != AVPtr {
		it.abort("load through a non-pointer")
	}
	switch {
	case p.Arr != nil && p.Tag == "elem":
		return p.Arr.Get(p.Off)
	case p.Cell != nil:
		return it.loadCell(p.Cell)
	case strings.HasPrefix(p.Tag, "global:"):
		if g, ok := it.Globals[p.Tag[7:]]; ok {
			return g
		}
		return AV{K: AVOpaque, Tag: p.Tag}
	case p.Arr != nil && p.Tag == "array":
		return AV{K: AVOpaque}
	}
	it.abort("load from unknown address")
	return AV{}
}

func (it *AInterp) indexAddr(base, idx AV) AV {
	if idx.K != AVInt {
		it.abort("index is not a control integer")
	}
	switch {
	case base.K == AVSlice:
		if idx.KB != 0 && base.OffKB != 0 {
			it.abort("index with two symbolic bases")
		}
		if idx.KB == 0 && base.Len >= 0 && (idx.C < 0 || idx.C >= base.Len) {
			it.gopanic("index out of range [%d] with length %d", idx.C, base.Len)
		}
		if idx.KB == 0 && idx.C < 0 {
			it.gopanic("index out of range [%d]", idx.C)
		}
		kb := base.OffKB + idx.KB
		if kb != base.Arr.KB {
			it.abort("index base %d*B into array %s with base %d*B", kb, base.Arr.Name, base.Arr.KB)
		}
		return AV{K: AVPtr, Arr: base.Arr, Off: base.Off + idx.C, Tag: "elem"}
	case base.K == AVPtr && base.Arr != nil && base.Tag == "array":
		if idx.KB != 0 {
			it.abort("symbolic index into a fixed array")
		}
		if idx.C < 0 || (base.Arr.Len >= 0 && idx.C >= base.Arr.Len) {
			it.gopanic("index out of range [%d] with length %d", idx.C, base.Arr.Len)
		}
		return AV{K: AVPtr, Arr: base.Arr, Off: idx.C, Tag: "elem"}
	}
	it.abort("index into unknown object")
	return AV{}
}

func (it *AInterp) slice(fr *aFrame, x *ssa.Slice) AV {
	base := it.get(fr, x.X)
	var s AV
	switch {
	case base.K == AVSlice:
		s = base
	case base.K == AVPtr && base.Arr != nil && base.Tag == "array":
		s = AV{K: AVSlice, Arr: base.Arr, Len: base.Arr.Len, Cap: base.Arr.Len}
	default:
		it.abort("slice of unknown object")
	}
	lo := AInt(0)
	if x.Low != nil {
		lo = it.get(fr, x.Low)
	}
	if lo.K != AVInt {
		it.abort("slice bound is not a control integer")
	}
	r := s
	r.OffKB = s.OffKB + lo.KB
	r.Off = s.Off + lo.C
	if r.OffKB != s.Arr.KB && r.OffKB != 0 {
		it.abort("slice base mismatch")
	}
	if x.High != nil {
		hi := it.get(fr, x.High)
		if hi.K != AVInt || hi.KB != lo.KB {
			it.abort("slice length is not a known control integer")
		}
		r.Len = hi.C - lo.C
		if r.Len < 0 {
			it.gopanic("slice bounds out of range [%d:%d]", lo.C, hi.C)
		}
		if lo.KB == 0 && s.Cap >= 0 && hi.C > s.Cap {
			it.gopanic("slice bounds out of range [:%d] with capacity %d", hi.C, s.Cap)
		}
	} else {
		if lo.KB == 0 && s.Len >= 0 {
			r.Len = s.Len - lo.C
			if r.Len < 0 {
				it.gopanic("slice bounds out of range [%d:%d]", lo.C, s.Len)
			}
		} else {
			r.Len = -1
		}
	}
	r.Cap = -1
	if x.Max != nil {
		mx := it.get(fr, x.Max)
		if mx.K == AVInt && mx.KB == lo.KB {
			r.Cap = mx.C - lo.C
			if r.Cap < r.Len {
				it.gopanic("slice bounds out of range [::%d] with length %d", mx.C, r.Len)
			}
		}
	} else if lo.KB == 0 && s.Cap >= 0 {
		r.Cap = s.Cap - lo.C
	}
	if lo.KB == 0 && lo.C < 0 {
		it.gopanic("slice bounds out of range [%d:]", lo.C)
	}
	return r
}

func (it *AInterp) convert(v AV, from, to types.Type) AV {
	w, signed, ok := it.intInfo(to)
	if !ok {
		return AV{K: AVOpaque}
	}
	switch v.K {
	case AVInt:
		if v.KB != 0 {
			return v
		}
		fw, fs, fok := it.intInfo(from)
		c := v.C
		if fok {
			c = wrapInt(c, fw, fs)
		}
		return AInt(wrapInt(c, w, signed))
	case AVBits:
		return ABits(BvResize(*v.V, w, signed))
	case AVUnknownInt:
		return v
	}
	return AV{K: AVOpaque}
}

func (it *AInterp) unop(fr *aFrame, x *ssa.UnOp) AV {
	v := it.get(fr, x.X)
	switch x.Op {
	case token.MUL:
		return it.load(v)
	case token.NOT:
		if v.IsConc() {
			return AInt(1 - v.C)
		}
		it.abort("! of unknown")
	case token.SUB:
		if v.K == AVInt {
			w, s, _ := it.intInfo(x.Type())
			if v.KB == 0 {
				return AInt(wrapInt(-v.C, w, s))
			}
			return AAff(-v.KB, -v.C)
		}
	case token.XOR:
		w, s, _ := it.intInfo(x.Type())
		if v.IsConc() {
			return AInt(wrapInt(^v.C, w, s))
		}
		if v.K == AVBits {
			r := BvVec{W: w, Signed: s}
			for j := 0; j < w; j++ {
				switch v.V.B[j].K {
				case BvZero:
					r.B[j] = BvBit{K: BvOne}
				case BvOne:
				default:
					r.B[j] = BvBit{K: BvTop}
				}
			}
			return ABits(r)
		}
	}
	return AV{K: AVOpaque}
}

func b2i(b bool) AV {
	if b {
		return AInt(1)
	}
	return AInt(0)
}

func (it *AInterp) binop(fr *aFrame, x *ssa.BinOp) AV {
	a, b := it.get(fr, x.X), it.get(fr, x.Y)
	w, signed, isInt := it.intInfo(x.X.Type())
	// error / nil comparisons
	if a.K == AVErr || b.K == AVErr {
		if a.K == AVErr && b.K == AVErr {
			switch x.Op {
			case token.EQL:
				return b2i(a.Tag == b.Tag)
			case token.NEQ:
				return b2i(a.Tag != b.Tag)
			}
		}
		it.abort("comparison of an error with an unknown value")
	}
	if !isInt {
		it.abort("binary operator %s on non-integers in %s", x.Op, fr.fn.Name())
	}
	if a.K == AVInt && b.K == AVInt {
		return it.intOp(x.Op, a, b, w, signed, x)
	}
	if (a.K == AVBits || a.IsConc()) && (b.K == AVBits || b.IsConc()) {
		return it.bitsOp(x, a, b, w, signed)
	}
	it.abort("operator %s on %s and %s in %s", x.Op, a, b, fr.fn.Name())
	return AV{}
}

func (it *AInterp) intOp(op token.Token, a, b AV, w int, signed bool, x *ssa.BinOp) AV {
	rw, rs, _ := it.intInfo(x.Type())
	if a.KB != 0 || b.KB != 0 {
		switch op {
		case token.ADD:
			return AAff(a.KB+b.KB, a.C+b.C)
		case token.SUB:
			return AAff(a.KB-b.KB, a.C-b.C)
		case token.MUL:
			if b.KB == 0 {
				return AAff(a.KB*b.C, a.C*b.C)
			}
			if a.KB == 0 {
				return AAff(b.KB*a.C, b.C*a.C)
			}
		case token.SHL:
			if b.KB == 0 && b.C >= 0 && b.C < 32 {
				return AAff(a.KB<<uint(b.C), a.C<<uint(b.C))
			}
		case token.SHR, token.QUO:
			d := int64(0)
			if op == token.SHR && b.KB == 0 && b.C >= 0 && b.C < 32 {
				d = 1 << uint(b.C)
			} else if op == token.QUO && b.KB == 0 && b.C > 0 {
				d = b.C
			}
			if d > 0 && a.KB%d == 0 && a.C >= 0 {
				return AAff(a.KB/d, a.C/d)
			}
		case token.AND, token.REM:
			d := int64(0)
			if op == token.AND && b.KB == 0 && b.C > 0 && (b.C+1)&b.C == 0 {
				d = b.C + 1
			} else if op == token.REM && b.KB == 0 && b.C > 0 {
				d = b.C
			}
			if d > 0 && a.KB%d == 0 && a.C >= 0 {
				return AInt(a.C % d)
			}
		case token.EQL, token.NEQ, token.LSS, token.LEQ, token.GTR, token.GEQ:
			if a.KB == b.KB {
				return cmpInt(op, a.C, b.C, true)
			}
		}
		it.Abort = "affine"
		it.abort("operator %s on position values %s, %s cannot be kept affine in the unknown base", op, a, b)
	}
	x1, y1 := a.C, b.C
	switch op {
	case token.ADD:
		return AInt(wrapInt(x1+y1, rw, rs))
	case token.SUB:
		return AInt(wrapInt(x1-y1, rw, rs))
	case token.MUL:
		return AInt(wrapInt(x1*y1, rw, rs))
	case token.QUO:
		if y1 == 0 {
			it.gopanic("integer divide by zero")
		}
		if signed {
			return AInt(wrapInt(x1/y1, rw, rs))
		}
		return AInt(wrapInt(int64(uint64(x1)/uint64(y1)), rw, rs))
	case token.REM:
		if y1 == 0 {
			it.gopanic("integer divide by zero")
		}
		if signed {
			return AInt(wrapInt(x1%y1, rw, rs))
		}
		return AInt(wrapInt(int64(uint64(x1)%uint64(y1)), rw, rs))
	case token.AND:
		return AInt(wrapInt(x1&y1, rw, rs))
	case token.OR:
		return AInt(wrapInt(x1|y1, rw, rs))
	case token.XOR:
		return AInt(wrapInt(x1^y1, rw, rs))
	case token.AND_NOT:
		return AInt(wrapInt(x1&^y1, rw, rs))
	case token.SHL, token.SHR:
		_, ys, _ := it.intInfo(x.Y.Type())
		if ys && y1 < 0 {
			it.gopanic("negative shift amount")
		}
		n := uint64(y1)
		if op == token.SHL {
			if n >= 64 {
				return AInt(0)
			}
			return AInt(wrapInt(int64(uint64(x1)<<n), rw, rs))
		}
		if signed {
			if n >= 64 {
				n = 63
			}
			return AInt(wrapInt(x1>>n, rw, rs))
		}
		ux := uint64(x1)
		if w < 64 {
			ux &= 1<<uint(w) - 1
		}
		if n >= 64 {
			return AInt(0)
		}
		return AInt(wrapInt(int64(ux>>n), rw, rs))
	case token.EQL, token.NEQ, token.LSS, token.LEQ, token.GTR, token.GEQ:
		return cmpInt(op, x1, y1, signed)
	}
	it.abort("integer operator %s", op)
	return AV{}
}

func cmpInt(op token.Token, a, b int64, signed bool) AV {
	var lt, eq bool
	if signed {
		lt, eq = a < b, a == b
	} else {
		lt, eq = uint64(a) < uint64(b), a == b
	}
	switch op {
	case token.EQL:
		return b2i(eq)
	case token.NEQ:
		return b2i(!eq)
	case token.LSS:
		return b2i(lt)
	case token.LEQ:
		return b2i(lt || eq)
	case token.GTR:
		return b2i(!lt && !eq)
	}
	return b2i(!lt)
}

func (it *AInterp) bitsOp(x *ssa.BinOp, a, b AV, w int, signed bool) AV {
	rw, rs, _ := it.intInfo(x.Type())
	switch x.Op {
	case token.SHL, token.SHR:
		if !b.IsConc() {
			it.abort("shift of data by a symbolic amount")
		}
		_, ys, _ := it.intInfo(x.Y.Type())
		if ys && b.C < 0 {
			it.gopanic("negative shift amount")
		}
		av := AToBits(a, w, signed)
		n := int(b.C)
		if uint64(b.C) > 128 {
			n = 128
		}
		r := BvVec{W: rw, Signed: rs}
		for j := 0; j < rw; j++ {
			var k int
			if x.Op == token.SHL {
				k = j - n
			} else {
				k = j + n
			}
			switch {
			case k < 0:
			case k >= w:
				if x.Op == token.SHR && signed {
					r.B[j] = av.B[w-1]
				}
			default:
				r.B[j] = av.B[k]
			}
		}
		return ABits(r)
	case token.AND, token.OR, token.XOR, token.AND_NOT:
		av, bv := AToBits(a, w, signed), AToBits(b, w, signed)
		r := BvVec{W: rw, Signed: rs}
		for j := 0; j < rw; j++ {
			r.B[j] = bvBitOp(x.Op, av.B[j], bv.B[j])
		}
		return ABits(r)
	case token.ADD:
		av, bv := AToBits(a, w, signed), AToBits(b, w, signed)
		r := BvVec{W: rw, Signed: rs}
		for j := 0; j < rw; j++ {
			if av.B[j].K != BvZero && bv.B[j].K != BvZero {
				for k := j; k < rw; k++ {
					r.B[k] = BvBit{K: BvTop}
				}
				break
			}
			r.B[j] = bvBitOp(token.OR, av.B[j], bv.B[j])
		}
		return ABits(r)
	case token.EQL, token.NEQ, token.LSS, token.LEQ, token.GTR, token.GEQ:
		av, bv := AToBits(a, w, signed), AToBits(b, w, signed)
		ua, ok1 := bvAllConst(av)
		ub, ok2 := bvAllConst(bv)
		if ok1 && ok2 {
			return cmpInt(x.Op, int64(ua), int64(ub), false)
		}
		it.abort("comparison on symbolic data (%s)", x.Op)
	}
	r := BvVec{W: rw, Signed: rs}
	for j := 0; j < rw; j++ {
		r.B[j] = BvBit{K: BvTop}
	}
	return ABits(r)
}

func (it *AInterp) doCall(fr *aFrame, cc *ssa.CallCommon) AV {
	var args []AV
	if cc.IsInvoke() {
		args = append(args, it.get(fr, cc.Value))
	}
	for _, a := range cc.Args {
		args = append(args, it.get(fr, a))
	}
	name := SxCallee(cc)
	if h, ok := it.Hooks[name]; ok {
		if r, ok := h(it, cc, args); ok {
			return r
		}
	}
	if b, ok := cc.Value.(*ssa.Builtin); ok {
		return it.builtin(b.Name(), cc, args)
	}
	if cc.IsInvoke() {
		it.abort("interface call %s not modelled", name)
	}
	if f := cc.StaticCallee(); f != nil {
		if mc, ok := cc.Value.(*ssa.MakeClosure); ok {
			var bs []AV
			for _, b := range mc.Bindings {
				bs = append(bs, it.get(fr, b))
			}
			return it.call(f, args, bs)
		}
		if f.Blocks != nil && InFq(f) {
			return it.call(f, args, nil)
		}
		it.abort("call of %s not modelled", name)
	}
	fv := it.get(fr, cc.Value)
	if fv.K == AVFunc && fv.Fn != nil {
		return it.call(fv.Fn, args, fv.Bind)
	}
	if it.Dyn != nil {
		if r, ok := it.Dyn(it, cc, append([]AV{fv}, args...)); ok {
			return r
		}
	}
	it.abort("dynamic call not modelled")
	return AV{}
}

func (it *AInterp) builtin(name string, cc *ssa.CallCommon, args []AV) AV {
	switch name {
	case "len", "cap":
		if args[0].K == AVSlice {
			n := args[0].Len
			if name == "cap" {
				n = args[0].Cap
			}
			if n >= 0 {
				return AInt(n)
			}
			return AV{K: AVUnknownInt}
		}
	case "min", "max":
		if args[0].K == AVInt && args[1].K == AVInt && args[0].KB == args[1].KB {
			r := args[0]
			for _, a := range args[1:] {
				if (name == "min" && a.C < r.C) || (name == "max" && a.C > r.C) {
					r = a
				}
			}
			return r
		}
	case "copy":
		d, s := args[0], args[1]
		if d.K == AVSlice && s.K == AVSlice && d.Len >= 0 && s.Len >= 0 {
			n := d.Len
			if s.Len < n {
				n = s.Len
			}
			tmp := make([]AV, n)
			for i := int64(0); i < n; i++ {
				tmp[i] = s.Arr.Get(s.Off + i)
			}
			for i := int64(0); i < n; i++ {
				d.Arr.Set(d.Off+i, tmp[i])
			}
			return AInt(n)
		}
	}
	it.abort("builtin %s not modelled for these operands", name)
	return AV{}
}

// stdHooks: byte-order helpers of encoding/binary as lane moves, formatting as opaque.
func (it *AInterp) stdHooks() {
	get := func(n int) AHook {
		return func(it *AInterp, cc *ssa.CallCommon, args []AV) (AV, bool) {
			s := args[len(args)-1]
			if s.K != AVSlice {
				return AV{}, false
			}
			if s.Len >= 0 && s.Len < int64(n) {
				it.gopanic("index out of range [%d] with length %d (binary.BigEndian.Uint%d)", n-1, s.Len, 8*n)
			}
			r := BvVec{W: 8 * n}
			for i := 0; i < n; i++ {
				bv := s.Arr.ByteAt(s.Off + int64(i))
				for j := 0; j < 8; j++ {
					r.B[8*(n-1-i)+j] = bv.B[j]
				}
			}
			return ABits(r), true
		}
	}
	put := func(n int) AHook {
		return func(it *AInterp, cc *ssa.CallCommon, args []AV) (AV, bool) {
			s, v := args[len(args)-2], args[len(args)-1]
			if s.K != AVSlice {
				return AV{}, false
			}
			if s.Len >= 0 && s.Len < int64(n) {
				it.gopanic("index out of range [%d] with length %d (binary.BigEndian.PutUint%d)", n-1, s.Len, 8*n)
			}
			bv := AToBits(v, 8*n, false)
			for i := 0; i < n; i++ {
				b := BvVec{W: 8}
				for j := 0; j < 8; j++ {
					b.B[j] = bv.B[8*(n-1-i)+j]
				}
				s.Arr.Set(s.Off+int64(i), ABits(b))
			}
			return AV{K: AVTuple}, true
		}
	}
	for _, n := range []int{2, 4, 8} {
		it.Hooks[fmt.Sprintf("(encoding/binary.bigEndian).Uint%d", 8*n)] = get(n)
		it.Hooks[fmt.Sprintf("(encoding/binary.bigEndian).PutUint%d", 8*n)] = put(n)
	}
	opaque := func(it *AInterp, cc *ssa.CallCommon, args []AV) (AV, bool) { return AV{K: AVOpaque, Tag: "fmt"}, true }
	it.Hooks["fmt.Sprintf"] = opaque
	it.Hooks["fmt.Errorf"] = func(it *AInterp, cc *ssa.CallCommon, args []AV) (AV, bool) { return AErr("fmt.Errorf"), true }
}

// NewCellOf allocates an abstract zero-valued object of type t (struct fields become cells).
func (it *AInterp) NewCellOf(t types.Type) *ACell { return it.newCell(t) }

// GoPanic lets a model (hook) raise a run-time panic in the interpreted program.
func (it *AInterp) GoPanic(msg string) { panic(aPanic{msg}) }
