package fw

// Helpers added for C20 (engine E10, lockset): variable-cell resolution, canonical owner keys,
// a flow-sensitive must/may lockset over the SSA CFG, instruction-level reachability and
// path enumeration for small acyclic functions.

import (
	"go/token"
	"strconv"

	"golang.org/x/tools/go/ssa"
)

// ---------------------------------------------------------------------------
// variable cells

// MakeClosuresOf returns the MakeClosure instructions in parent that create fn.
func MakeClosuresOf(fn *ssa.Function) []*ssa.MakeClosure {
	par := fn.Parent()
	if par == nil {
		return nil
	}
	var out []*ssa.MakeClosure
	EachInstr(par, func(ins ssa.Instruction) {
		if mc, ok := ins.(*ssa.MakeClosure); ok && mc.Fn == ssa.Value(fn) {
			out = append(out, mc)
		}
	})
	return out
}

// CellAlloc follows a variable cell (an Alloc, or a FreeVar bound to one) to the Alloc that
// backs it, chasing closure bindings upwards. nil when v is not such a cell.
func CellAlloc(v ssa.Value) *ssa.Alloc {
	for i := 0; i < 10; i++ {
		switch x := v.(type) {
		case *ssa.Alloc:
			return x
		case *ssa.FreeVar:
			fn := x.Parent()
			idx := -1
			for j, fv := range fn.FreeVars {
				if fv == x {
					idx = j
				}
			}
			mcs := MakeClosuresOf(fn)
			if idx < 0 || len(mcs) != 1 || idx >= len(mcs[0].Bindings) {
				return nil
			}
			v = mcs[0].Bindings[idx]
		default:
			return nil
		}
	}
	return nil
}

// CellStores lists the stores into the cell (whole-variable stores, in the declaring function
// and every closure nested in it). escaped reports that the cell's address is used in any other
// way than load / store / closure capture, so that the list may be incomplete.
func CellStores(a *ssa.Alloc) (stores []*ssa.Store, escaped bool) {
	if a == nil || a.Parent() == nil {
		return nil, true
	}
	for _, fn := range WithClosures(a.Parent()) {
		EachInstr(fn, func(ins ssa.Instruction) {
			switch x := ins.(type) {
			case *ssa.Store:
				if CellAlloc(x.Addr) == a {
					if _, direct := x.Addr.(*ssa.FieldAddr); !direct {
						stores = append(stores, x)
					}
				}
				if c := CellAlloc(x.Val); c == a {
					escaped = true
				}
			case *ssa.UnOp, *ssa.MakeClosure, *ssa.DebugRef, *ssa.FieldAddr, *ssa.IndexAddr:
			default:
				for _, op := range ins.Operands(nil) {
					if *op != nil && CellAlloc(*op) == a {
						escaped = true
					}
				}
			}
		})
	}
	return
}

// CellValue: v is a load of a single-assignment variable cell: returns the one stored value.
func CellValue(v ssa.Value) (ssa.Value, bool) {
	u, ok := v.(*ssa.UnOp)
	if !ok || u.Op != token.MUL {
		return nil, false
	}
	switch u.X.(type) {
	case *ssa.Alloc, *ssa.FreeVar:
	default:
		return nil, false
	}
	a := CellAlloc(u.X)
	if a == nil {
		return nil, false
	}
	st, esc := CellStores(a)
	if esc || len(st) != 1 {
		return nil, false
	}
	return st[0].Val, true
}

// Resolve strips type changes and loads of single-assignment cells until a defining value is reached.
func C20Resolve(v ssa.Value) ssa.Value {
	for i := 0; i < 20; i++ {
		switch x := v.(type) {
		case *ssa.ChangeType:
			v = x.X
			continue
		case *ssa.MakeInterface:
			v = x.X
			continue
		case *ssa.ChangeInterface:
			v = x.X
			continue
		}
		if w, ok := CellValue(v); ok {
			v = w
			continue
		}
		return v
	}
	return v
}

// OwnerKey is a canonical name of the object a (pointer or struct) value designates, stable
// across a function and the closures nested in it: "<function>:<ssa name>" of the resolved
// defining value, with ".<i>" per field step. "" when the value has no stable identity (phi ...).
func OwnerKey(v ssa.Value) string {
	v = C20Resolve(v)
	switch x := v.(type) {
	case *ssa.Parameter:
		return x.Parent().String() + ":" + x.Name()
	case *ssa.FreeVar:
		return x.Parent().String() + ":fv:" + x.Name()
	case *ssa.Global:
		return x.String()
	case *ssa.Alloc:
		return x.Parent().String() + ":" + x.Name()
	case *ssa.FieldAddr:
		o := OwnerKey(x.X)
		if o == "" {
			return ""
		}
		return o + "." + strconv.Itoa(x.Field)
	case *ssa.Field:
		o := OwnerKey(x.X)
		if o == "" {
			return ""
		}
		return o + "." + strconv.Itoa(x.Field)
	case *ssa.UnOp:
		if x.Op == token.MUL {
			o := OwnerKey(x.X)
			if o == "" {
				return ""
			}
			return "*" + o
		}
		return ""
	case *ssa.Phi, *ssa.Const:
		return ""
	case *ssa.Call, *ssa.Extract, *ssa.MakeClosure, *ssa.MakeChan, *ssa.MakeMap, *ssa.MakeSlice:
		if v.Parent() == nil {
			return ""
		}
		return v.Parent().String() + ":" + v.Name()
	}
	return ""
}

// ---------------------------------------------------------------------------
// lock operations

type LockOp int

const (
	LockNone LockOp = iota
	LockAcquire
	LockRelease
	LockRAcquire
	LockRRelease
)

// MutexOp classifies a call of sync.Mutex / sync.RWMutex methods; addr is the mutex address.
func MutexOp(c *ssa.CallCommon) (LockOp, ssa.Value) {
	f := c.StaticCallee()
	if f == nil || len(c.Args) == 0 {
		return LockNone, nil
	}
	switch f.String() {
	case "(*sync.Mutex).Lock", "(*sync.RWMutex).Lock":
		return LockAcquire, c.Args[0]
	case "(*sync.Mutex).Unlock", "(*sync.RWMutex).Unlock":
		return LockRelease, c.Args[0]
	case "(*sync.RWMutex).RLock":
		return LockRAcquire, c.Args[0]
	case "(*sync.RWMutex).RUnlock":
		return LockRRelease, c.Args[0]
	}
	return LockNone, nil
}

// MutexKey names the mutex at addr: "<owner key>#<field index>" for a mutex field, the global's
// name for a package-level mutex, "" when the address has no stable identity.
func MutexKey(addr ssa.Value) string {
	switch x := addr.(type) {
	case *ssa.FieldAddr:
		o := OwnerKey(x.X)
		if o == "" {
			return ""
		}
		return o + "#" + strconv.Itoa(x.Field)
	case *ssa.Global:
		return x.String()
	}
	return ""
}

// LockSet maps mutex key -> mode (1 exclusive, 2 shared).
type LockSet map[string]int

func (s LockSet) clone() LockSet {
	o := LockSet{}
	for k, v := range s {
		o[k] = v
	}
	return o
}

func (s LockSet) equal(o LockSet) bool {
	if len(s) != len(o) {
		return false
	}
	for k, v := range s {
		if o[k] != v {
			return false
		}
	}
	return true
}

// LockFlow is the flow-sensitive lockset of one function body: Must = held on every path,
// May = held on some path.
type LockFlow struct {
	Fn    *ssa.Function
	Entry LockSet
	// Kill reports instructions (calls into code that may unlock) after which no lock is
	// assumed held any more.
	Kill func(ssa.Instruction) bool

	hasDefer bool
	must     map[*ssa.BasicBlock]LockSet // absent = top (not yet reached)
	may      map[*ssa.BasicBlock]LockSet
}

const unknownMutex = "?"

// deferredReleases: the keys released by deferred calls registered before ins on all paths.
func (lf *LockFlow) deferredReleases(at ssa.Instruction) (keys map[string]bool, all bool) {
	keys = map[string]bool{}
	EachInstr(lf.Fn, func(ins ssa.Instruction) {
		d, ok := ins.(*ssa.Defer)
		if !ok || !instrDominates(d, at) {
			return
		}
		if op, addr := MutexOp(d.Common()); op == LockRelease || op == LockRRelease {
			if k := MutexKey(addr); k != "" {
				keys[k] = true
			} else {
				all = true
			}
			return
		}
		// deferred closure that unlocks
		if mc, ok := d.Common().Value.(*ssa.MakeClosure); ok {
			if cf, ok := mc.Fn.(*ssa.Function); ok {
				EachInstr(cf, func(x ssa.Instruction) {
					if c, ok := x.(*ssa.Call); ok {
						if op, addr := MutexOp(c.Common()); op == LockRelease || op == LockRRelease {
							if k := MutexKey(addr); k != "" {
								keys[k] = true
							} else {
								all = true
							}
						}
					}
				})
			}
		}
	})
	return
}

func instrDominates(a, b ssa.Instruction) bool {
	if a.Block() == b.Block() {
		for _, x := range a.Block().Instrs {
			if x == a {
				return true
			}
			if x == b {
				return false
			}
		}
		return false
	}
	return a.Block().Dominates(b.Block())
}

// Releases reports whether ins may release the mutex key (explicit unlock of that or of an
// unidentified mutex, the run of the deferred calls, or a call into code that may unlock).
func (lf *LockFlow) Releases(ins ssa.Instruction, key string) bool {
	switch x := ins.(type) {
	case *ssa.Call:
		if op, addr := MutexOp(x.Common()); op == LockRelease || op == LockRRelease {
			k := MutexKey(addr)
			return k == "" || k == key
		}
		return lf.Kill != nil && lf.Kill(ins)
	case *ssa.RunDefers:
		return lf.hasDefer
	}
	return false
}

func (lf *LockFlow) transfer(st LockSet, ins ssa.Instruction, must bool) {
	switch x := ins.(type) {
	case *ssa.Call:
		op, addr := MutexOp(x.Common())
		switch op {
		case LockAcquire, LockRAcquire:
			mode := 1
			if op == LockRAcquire {
				mode = 2
			}
			if k := MutexKey(addr); k != "" {
				st[k] = mode
			} else if !must {
				st[unknownMutex] = mode
			}
		case LockRelease, LockRRelease:
			if k := MutexKey(addr); k != "" {
				delete(st, k)
			} else if must {
				for k := range st {
					delete(st, k)
				}
			}
		default:
			if must && lf.Kill != nil && lf.Kill(ins) {
				for k := range st {
					delete(st, k)
				}
			}
		}
	case *ssa.RunDefers:
		if !lf.hasDefer {
			return
		}
		if must {
			for k := range st {
				delete(st, k)
			}
			return
		}
		keys, all := lf.deferredReleases(ins)
		for k := range st {
			if all || keys[k] {
				delete(st, k)
			}
		}
	}
}

// NewLockFlow computes the must- and may-locksets of fn to a fixed point.
func NewLockFlow(fn *ssa.Function, entry LockSet, kill func(ssa.Instruction) bool) *LockFlow {
	lf := &LockFlow{Fn: fn, Entry: entry, Kill: kill, must: map[*ssa.BasicBlock]LockSet{}, may: map[*ssa.BasicBlock]LockSet{}}
	if entry == nil {
		lf.Entry = LockSet{}
	}
	EachInstr(fn, func(ins ssa.Instruction) {
		if _, ok := ins.(*ssa.Defer); ok {
			lf.hasDefer = true
		}
	})
	if len(fn.Blocks) == 0 {
		return lf
	}
	for _, must := range []bool{true, false} {
		in := lf.must
		if !must {
			in = lf.may
		}
		in[fn.Blocks[0]] = lf.Entry.clone()
		if fn.Recover != nil {
			in[fn.Recover] = LockSet{}
		}
		work := []*ssa.BasicBlock{fn.Blocks[0]}
		if fn.Recover != nil {
			work = append(work, fn.Recover)
		}
		for iter := 0; len(work) > 0 && iter < 10000; iter++ {
			b := work[0]
			work = work[1:]
			st := in[b].clone()
			for _, ins := range b.Instrs {
				lf.transfer(st, ins, must)
			}
			for _, s := range b.Succs {
				old, seen := in[s]
				var nw LockSet
				switch {
				case !seen:
					nw = st.clone()
				case must:
					nw = LockSet{}
					for k, v := range old {
						if w, ok := st[k]; ok {
							if w > v {
								v = w // shared on one path: only shared on the join
							}
							nw[k] = v
						}
					}
				default:
					nw = old.clone()
					for k, v := range st {
						if w, ok := nw[k]; !ok || v < w {
							nw[k] = v
						}
					}
				}
				if !seen || !nw.equal(old) {
					in[s] = nw
					work = append(work, s)
				}
			}
		}
	}
	return lf
}

func (lf *LockFlow) at(ins ssa.Instruction, must bool) LockSet {
	in := lf.must
	if !must {
		in = lf.may
	}
	b := ins.Block()
	st0, ok := in[b]
	if !ok {
		return LockSet{}
	}
	st := st0.clone()
	for _, x := range b.Instrs {
		if x == ins {
			break
		}
		lf.transfer(st, x, must)
	}
	return st
}

// MustAt returns the locks held on every path just before ins executes.
func (lf *LockFlow) MustAt(ins ssa.Instruction) LockSet { return lf.at(ins, true) }

// MayAt returns the locks held on some path just before ins executes.
func (lf *LockFlow) MayAt(ins ssa.Instruction) LockSet { return lf.at(ins, false) }

// ---------------------------------------------------------------------------
// instruction-level reachability

// InstrReach reports whether some execution path leads from just after `from` to `to` without
// executing `avoid` (avoid may be nil; if avoid == from the path must not come back to from).
func InstrReach(from, to, avoid ssa.Instruction) bool {
	if from == nil || to == nil || from.Block() == nil || to.Block() == nil || from.Parent() != to.Parent() {
		return false
	}
	// scan the rest of from's block
	b := from.Block()
	start := -1
	for i, x := range b.Instrs {
		if x == from {
			start = i + 1
			break
		}
	}
	if start < 0 {
		return false
	}
	scan := func(b *ssa.BasicBlock, i int) (found, blocked bool) {
		for ; i < len(b.Instrs); i++ {
			x := b.Instrs[i]
			if x == to {
				return true, false
			}
			if avoid != nil && x == avoid {
				return false, true
			}
		}
		return false, false
	}
	found, blocked := scan(b, start)
	if found {
		return true
	}
	if blocked {
		return false
	}
	seen := map[*ssa.BasicBlock]bool{}
	stack := append([]*ssa.BasicBlock{}, b.Succs...)
	for len(stack) > 0 {
		x := stack[len(stack)-1]
		stack = stack[:len(stack)-1]
		if seen[x] {
			continue
		}
		seen[x] = true
		found, blocked := scan(x, 0)
		if found {
			return true
		}
		if blocked {
			continue
		}
		stack = append(stack, x.Succs...)
	}
	return false
}

// ---------------------------------------------------------------------------
// path enumeration (small acyclic bodies)

// Decision is the outcome of one If on a path.
type Decision struct {
	If    *ssa.If
	Taken bool // true = first successor (condition held)
}

// Path is one entry-to-exit path.
type Path struct {
	Blocks    []*ssa.BasicBlock
	Decisions []Decision
}

// Last returns the terminating instruction of the path.
func (p Path) Last() ssa.Instruction {
	b := p.Blocks[len(p.Blocks)-1]
	return b.Instrs[len(b.Instrs)-1]
}

// Passes reports whether ins is executed on the path.
func (p Path) Passes(ins ssa.Instruction) bool {
	for _, b := range p.Blocks {
		if b == ins.Block() {
			return true
		}
	}
	return false
}

// PassesBefore reports whether a is executed before b on the path.
func (p Path) PassesBefore(a, b ssa.Instruction) bool {
	ia, ib := -1, -1
	for i, blk := range p.Blocks {
		if blk == a.Block() && ia < 0 {
			ia = i
		}
		if blk == b.Block() {
			ib = i
		}
	}
	if ia < 0 || ib < 0 {
		return false
	}
	if ia != ib {
		return ia < ib
	}
	for _, x := range a.Block().Instrs {
		if x == a {
			return true
		}
		if x == b {
			return false
		}
	}
	return false
}

// EnumPaths enumerates all paths from the entry block to a block without successors. ok=false
// when the body has a cycle or more than limit paths (the caller must then report undecided).
func EnumPaths(fn *ssa.Function, limit int) (paths []Path, ok bool) {
	if len(fn.Blocks) == 0 {
		return nil, false
	}
	ok = true
	var rec func(b *ssa.BasicBlock, blocks []*ssa.BasicBlock, dec []Decision)
	rec = func(b *ssa.BasicBlock, blocks []*ssa.BasicBlock, dec []Decision) {
		if !ok {
			return
		}
		for _, x := range blocks {
			if x == b {
				ok = false
				return
			}
		}
		blocks = append(append([]*ssa.BasicBlock{}, blocks...), b)
		if len(b.Succs) == 0 {
			if len(paths) >= limit {
				ok = false
				return
			}
			paths = append(paths, Path{Blocks: blocks, Decisions: append([]Decision{}, dec...)})
			return
		}
		ifi, isIf := b.Instrs[len(b.Instrs)-1].(*ssa.If)
		for i, s := range b.Succs {
			d := dec
			if isIf && len(b.Succs) == 2 {
				d = append(append([]Decision{}, dec...), Decision{If: ifi, Taken: i == 0})
			}
			rec(s, blocks, d)
		}
	}
	rec(fn.Blocks[0], nil, nil)
	return paths, ok
}
