package fw

import (
	"go/constant"
	"go/token"
	"go/types"
	"sort"
	"strconv"
	"strings"

	"golang.org/x/tools/go/ssa"
)

// SymEnv renders SSA values of one function as canonical expression strings ("symbolic
// descriptors"). The rendering is independent of local names, register numbers, declaration
// order and source positions:
//
//	parameters          P0, P1, ... (receiver is P0)
//	free variables      FV0, FV1, ...
//	constants           8, "md5", nil, true
//	field of a value    X.f            field through a pointer   X->f
//	calls               pkg/interp.toBinary(P1)     invoke.Sum(x,nil)     builtin len(x)
//	tuple component     call#0
//	operators           (a % b)   commutative operands sorted
//	phi                 phi{a|b}  edges sorted, duplicates removed
//
// Loads from a local variable (an Alloc that does not escape) are resolved through the stores
// to it: a load of path p yields the unique dominating store to p or to a prefix of p; a load
// of a whole struct that was assembled by field stores yields a composite {f:..,g:..}
// (upd(base){..} when a whole-value store is overridden field-wise).
type SymEnv struct {
	Fn    *ssa.Function
	memo  map[ssa.Value]string
	busy  map[ssa.Value]bool
	depth int
}

func NewSymEnv(fn *ssa.Function) *SymEnv {
	return &SymEnv{Fn: fn, memo: map[ssa.Value]string{}, busy: map[ssa.Value]bool{}}
}

// ShortName strips the module prefix from a qualified name.
func ShortName(s string) string { return strings.ReplaceAll(s, Mod+"/", "") }

// StripConv removes value-preserving wrappers (interface conversions, type changes, integer conversions).
func StripConv(v ssa.Value) ssa.Value {
	for {
		switch x := v.(type) {
		case *ssa.MakeInterface:
			v = x.X
		case *ssa.ChangeInterface:
			v = x.X
		case *ssa.ChangeType:
			v = x.X
		case *ssa.Convert:
			if isIntType(x.Type()) && isIntType(x.X.Type()) {
				v = x.X
			} else {
				return v
			}
		default:
			return v
		}
	}
}

// AddrPath decomposes an address into its base (an Alloc, a pointer-valued expression or a
// global) and the field / constant-index path below it.
func AddrPath(a ssa.Value) (ssa.Value, []string) {
	switch x := a.(type) {
	case *ssa.FieldAddr:
		b, p := AddrPath(x.X)
		return b, append(append([]string{}, p...), fieldName(x.X.Type(), x.Field))
	case *ssa.IndexAddr:
		if c, ok := x.Index.(*ssa.Const); ok && c.Value != nil {
			if _, isArr := symDeref(x.X.Type()).Underlying().(*types.Array); isArr {
				b, p := AddrPath(x.X)
				return b, append(append([]string{}, p...), "["+c.Value.ExactString()+"]")
			}
		}
	}
	return a, nil
}

func symDeref(t types.Type) types.Type {
	if p, ok := t.Underlying().(*types.Pointer); ok {
		return p.Elem()
	}
	return t
}

// symAllocEscapes: the address of the local (or of one of its parts) is used other than by
// loads, stores to it, and further address arithmetic.
func symAllocEscapes(a *ssa.Alloc) bool {
	esc := false
	var walk func(v ssa.Value)
	walk = func(v ssa.Value) {
		if v.Referrers() == nil {
			return
		}
		for _, r := range *v.Referrers() {
			switch x := r.(type) {
			case *ssa.FieldAddr:
				walk(x)
			case *ssa.IndexAddr:
				if x.X == v {
					walk(x)
				} else {
					esc = true
				}
			case *ssa.UnOp:
				if x.Op != token.MUL {
					esc = true
				}
			case *ssa.Store:
				if x.Addr != v {
					esc = true // the address itself is stored somewhere
				}
			case *ssa.DebugRef:
			case *ssa.Slice:
				// slice of a local array (varargs): treated as read-only view
			default:
				esc = true
			}
		}
	}
	walk(a)
	return esc
}

type symAllocStore struct {
	path []string
	st   *ssa.Store
}

func symStoresTo(a *ssa.Alloc) []symAllocStore {
	var out []symAllocStore
	fn := a.Parent()
	if fn == nil {
		return nil
	}
	for _, b := range fn.Blocks {
		for _, ins := range b.Instrs {
			st, ok := ins.(*ssa.Store)
			if !ok {
				continue
			}
			base, p := AddrPath(st.Addr)
			if base == ssa.Value(a) {
				out = append(out, symAllocStore{p, st})
			}
		}
	}
	return out
}

func symIsPrefix(p, q []string) bool {
	if len(p) > len(q) {
		return false
	}
	for i := range p {
		if p[i] != q[i] {
			return false
		}
	}
	return true
}

func symInstrBefore(a, b ssa.Instruction) bool {
	if a.Block() == b.Block() {
		for _, x := range a.Block().Instrs {
			if x == a {
				return true
			}
			if x == b {
				return false
			}
		}
		return false
	}
	return a.Block().Dominates(b.Block())
}

// Of renders v.
func (e *SymEnv) Of(v ssa.Value) string {
	if s, ok := e.memo[v]; ok {
		return s
	}
	if e.busy[v] {
		return "cyc"
	}
	e.busy[v] = true
	e.depth++
	var s string
	if e.depth > 60 {
		s = "deep"
	} else {
		s = e.of(v)
	}
	e.depth--
	delete(e.busy, v)
	e.memo[v] = s
	return s
}

func symConstStr(c *ssa.Const) string {
	if c.Value == nil {
		if symIsZeroStruct(c.Type()) {
			return "zero"
		}
		return "nil"
	}
	switch c.Value.Kind() {
	case constant.Int:
		return c.Value.ExactString()
	case constant.Bool:
		if constant.BoolVal(c.Value) {
			return "true"
		}
		return "false"
	case constant.String:
		return strconv.Quote(constant.StringVal(c.Value))
	}
	return c.Value.ExactString()
}

func symIsZeroStruct(t types.Type) bool {
	switch t.Underlying().(type) {
	case *types.Struct, *types.Array:
		return true
	}
	return false
}

func (e *SymEnv) calleeName(cc *ssa.CallCommon) string {
	if cc.IsInvoke() {
		return "invoke." + cc.Method.Name()
	}
	if f := cc.StaticCallee(); f != nil {
		if o := f.Origin(); o != nil {
			f = o
		}
		return ShortName(f.String())
	}
	if b, ok := cc.Value.(*ssa.Builtin); ok {
		return b.Name()
	}
	return "dyn[" + e.Of(cc.Value) + "]"
}

// CallDesc renders a call as callee(args).
func (e *SymEnv) CallDesc(c ssa.CallInstruction) string {
	cc := c.Common()
	var args []string
	if cc.IsInvoke() {
		args = append(args, e.Of(cc.Value))
	}
	for _, a := range cc.Args {
		args = append(args, e.Of(a))
	}
	name := e.calleeName(cc)
	if b, ok := cc.Value.(*ssa.Builtin); ok && (b.Name() == "min" || b.Name() == "max") {
		sort.Strings(args)
	}
	return name + "(" + strings.Join(args, ",") + ")"
}

func (e *SymEnv) of(v ssa.Value) string {
	switch x := v.(type) {
	case *ssa.Const:
		return symConstStr(x)
	case *ssa.Parameter:
		for i, p := range x.Parent().Params {
			if p == x {
				return "P" + strconv.Itoa(i)
			}
		}
		return "P?"
	case *ssa.FreeVar:
		for i, p := range x.Parent().FreeVars {
			if p == x {
				return "FV" + strconv.Itoa(i)
			}
		}
		return "FV?"
	case *ssa.Global:
		return ShortName(x.Pkg.Pkg.Path()) + "." + x.Name()
	case *ssa.Function:
		return "fn:" + ShortName(x.String())
	case *ssa.MakeClosure:
		return "closure:" + ShortName(x.Fn.String())
	case *ssa.MakeInterface:
		return e.Of(x.X)
	case *ssa.ChangeInterface:
		return e.Of(x.X)
	case *ssa.ChangeType:
		return e.Of(x.X)
	case *ssa.Convert:
		if isIntType(x.Type()) && isIntType(x.X.Type()) {
			return e.Of(x.X)
		}
		return "conv<" + ShortName(types.TypeString(x.Type(), nil)) + ">(" + e.Of(x.X) + ")"
	case *ssa.Call:
		return e.CallDesc(x)
	case *ssa.Extract:
		return e.Of(x.Tuple) + "#" + strconv.Itoa(x.Index)
	case *ssa.TypeAssert:
		return "assert<" + ShortName(types.TypeString(x.AssertedType, nil)) + ">(" + e.Of(x.X) + ")"
	case *ssa.BinOp:
		a, b := e.Of(x.X), e.Of(x.Y)
		switch x.Op {
		case token.ADD, token.MUL, token.EQL, token.NEQ, token.AND, token.OR, token.XOR:
			if a > b {
				a, b = b, a
			}
		}
		return "(" + a + " " + x.Op.String() + " " + b + ")"
	case *ssa.UnOp:
		switch x.Op {
		case token.MUL:
			return e.load(x)
		case token.NOT:
			return "!" + e.Of(x.X)
		case token.SUB:
			return "-" + e.Of(x.X)
		}
		return x.Op.String() + e.Of(x.X)
	case *ssa.Field:
		return e.Of(x.X) + "." + fieldName(x.X.Type(), x.Field)
	case *ssa.FieldAddr, *ssa.IndexAddr:
		b, p := AddrPath(v)
		if len(p) == 0 {
			if ia, ok := v.(*ssa.IndexAddr); ok {
				return "&" + e.Of(ia.X) + "[" + e.Of(ia.Index) + "]"
			}
		}
		return "&" + e.baseName(b) + "->" + strings.Join(p, ".")
	case *ssa.Alloc:
		return e.baseName(x)
	case *ssa.Phi:
		set := map[string]bool{}
		for _, ed := range x.Edges {
			set[e.Of(ed)] = true
		}
		var parts []string
		for k := range set {
			parts = append(parts, k)
		}
		sort.Strings(parts)
		if len(parts) == 1 {
			return parts[0]
		}
		return "phi{" + strings.Join(parts, "|") + "}"
	case *ssa.Slice:
		s := "slice(" + e.Of(x.X)
		for _, b := range []ssa.Value{x.Low, x.High, x.Max} {
			if b != nil {
				s += "," + e.Of(b)
			} else {
				s += ","
			}
		}
		return s + ")"
	case *ssa.Index:
		return e.Of(x.X) + "[" + e.Of(x.Index) + "]"
	case *ssa.Lookup:
		return e.Of(x.X) + "[" + e.Of(x.Index) + "]"
	case *ssa.Range:
		return "range(" + e.Of(x.X) + ")"
	case *ssa.Next:
		return "next(" + e.Of(x.Iter) + ")"
	case *ssa.MakeSlice:
		return "makeslice<" + ShortName(types.TypeString(x.Type(), nil)) + ">"
	case *ssa.MakeMap:
		return "makemap<" + ShortName(types.TypeString(x.Type(), nil)) + ">"
	case *ssa.Builtin:
		return "builtin:" + x.Name()
	}
	return "?" + ShortName(types.TypeString(v.Type(), nil))
}

func (e *SymEnv) baseName(b ssa.Value) string {
	if a, ok := b.(*ssa.Alloc); ok {
		return "&local<" + ShortName(types.TypeString(symDeref(a.Type()), nil)) + ">"
	}
	return e.Of(b)
}

// load renders *addr.
func (e *SymEnv) load(u *ssa.UnOp) string {
	base, path := AddrPath(u.X)
	a, isAlloc := base.(*ssa.Alloc)
	if !isAlloc {
		if len(path) == 0 {
			return "*" + e.Of(base)
		}
		return e.Of(base) + "->" + strings.Join(path, ".")
	}
	if symAllocEscapes(a) {
		s := "esc" + e.baseName(a)
		if len(path) > 0 {
			s += "->" + strings.Join(path, ".")
		}
		return s
	}
	return e.resolve(a, path, u)
}

// resolve renders the content of local a at path as seen by instruction at.
func (e *SymEnv) resolve(a *ssa.Alloc, path []string, at ssa.Instruction) string {
	var covering []symAllocStore // stores to path or a prefix of it
	var below []symAllocStore    // stores strictly below path
	for _, s := range symStoresTo(a) {
		switch {
		case symIsPrefix(s.path, path):
			covering = append(covering, s)
		case symIsPrefix(path, s.path):
			below = append(below, s)
		}
	}
	// a covering store is dead for this load when a later covering store lies between it and the load
	if at != nil && len(covering) > 1 {
		var live []symAllocStore
		for _, s1 := range covering {
			killed := false
			for _, s2 := range covering {
				if s1.st != s2.st && symInstrBefore(s1.st, s2.st) && symInstrBefore(s2.st, at) {
					killed = true
				}
			}
			if !killed {
				live = append(live, s1)
			}
		}
		covering = live
	}
	baseDesc := ""
	switch len(covering) {
	case 0:
		baseDesc = "zero"
	case 1:
		s := covering[0]
		if at != nil && !symInstrBefore(s.st, at) {
			baseDesc = "multi{zero|" + e.sel(e.Of(s.st.Val), path[len(s.path):]) + "}"
		} else {
			baseDesc = e.sel(e.Of(s.st.Val), path[len(s.path):])
		}
	default:
		set := map[string]bool{}
		for _, s := range covering {
			set[e.sel(e.Of(s.st.Val), path[len(s.path):])] = true
		}
		var parts []string
		for k := range set {
			parts = append(parts, k)
		}
		sort.Strings(parts)
		baseDesc = "multi{" + strings.Join(parts, "|") + "}"
	}
	if len(below) == 0 {
		return baseDesc
	}
	fields := map[string][]string{}
	for _, s := range below {
		dead := false
		for _, c := range covering {
			if at != nil && symInstrBefore(s.st, c.st) && symInstrBefore(c.st, at) {
				dead = true
			}
		}
		if dead {
			continue
		}
		k := strings.Join(s.path[len(path):], ".")
		fields[k] = append(fields[k], e.Of(s.st.Val))
	}
	var keys []string
	for k := range fields {
		keys = append(keys, k)
	}
	sort.Strings(keys)
	var parts []string
	for _, k := range keys {
		vs := fields[k]
		sort.Strings(vs)
		d := vs[0]
		if len(vs) > 1 {
			d = "multi{" + strings.Join(vs, "|") + "}"
		}
		parts = append(parts, k+":"+d)
	}
	comp := "{" + strings.Join(parts, ",") + "}"
	if baseDesc == "zero" {
		return comp
	}
	return "upd(" + baseDesc + ")" + comp
}

func (e *SymEnv) sel(desc string, rest []string) string {
	if len(rest) == 0 {
		return desc
	}
	if desc == "zero" {
		return "zero"
	}
	return desc + "." + strings.Join(rest, ".")
}

// Fields returns the flat field map of a struct value assembled in a non-escaping local:
// v is the load of the whole local (or the local's address, for &T{...}). base is the
// descriptor of a whole-value store that the field stores override ("" if none). ok=false
// when v is not of that shape.
func (e *SymEnv) Fields(v ssa.Value) (fields map[string]string, base string, ok bool) {
	v = StripConv(v)
	var a *ssa.Alloc
	var at ssa.Instruction
	switch x := v.(type) {
	case *ssa.UnOp:
		if x.Op != token.MUL {
			return nil, "", false
		}
		b, p := AddrPath(x.X)
		al, isAlloc := b.(*ssa.Alloc)
		if !isAlloc || len(p) != 0 {
			return nil, "", false
		}
		a, at = al, x
	case *ssa.Alloc:
		a = x
	default:
		return nil, "", false
	}
	fields = map[string]string{}
	for _, s := range symStoresTo(a) {
		if len(s.path) == 0 {
			if base != "" {
				base = "multi"
			} else {
				base = e.Of(s.st.Val)
			}
			continue
		}
		k := strings.Join(s.path, ".")
		d := e.Of(s.st.Val)
		if at != nil && !symInstrBefore(s.st, at) {
			d = "multi{zero|" + d + "}"
		}
		if old, dup := fields[k]; dup && old != d {
			d = "multi{" + old + "|" + d + "}"
		}
		fields[k] = d
	}
	return fields, base, true
}

// IsZeroDesc reports descriptors of zero values.
func IsZeroDesc(s string) bool {
	switch s {
	case "", "0", "zero", "nil", "false", `""`:
		return true
	}
	return false
}

// VarArgs returns the element values of a variadic argument built at the call site
// (slice of a local array filled by constant-index stores), in index order.
func VarArgs(v ssa.Value) ([]ssa.Value, bool) {
	sl, ok := v.(*ssa.Slice)
	if !ok {
		if c, isC := v.(*ssa.Const); isC && c.Value == nil {
			return nil, true
		}
		return nil, false
	}
	a, ok := sl.X.(*ssa.Alloc)
	if !ok {
		return nil, false
	}
	arr, ok := symDeref(a.Type()).Underlying().(*types.Array)
	if !ok {
		return nil, false
	}
	out := make([]ssa.Value, arr.Len())
	for _, s := range symStoresTo(a) {
		if len(s.path) != 1 {
			return nil, false
		}
		i, err := strconv.Atoi(strings.Trim(s.path[0], "[]"))
		if err != nil || i < 0 || i >= len(out) || out[i] != nil {
			return nil, false
		}
		out[i] = s.st.Val
	}
	for _, x := range out {
		if x == nil {
			return nil, false
		}
	}
	return out, true
}

// BlockReaches reports whether to is reachable from from (from itself included).
func BlockReaches(from, to *ssa.BasicBlock) bool {
	if from == to {
		return true
	}
	return blockReaches(from, to, false)
}

// PathCond is one branch decision on a path.
type PathCond struct {
	Cond ssa.Value
	True bool
}

// RetPath is one acyclic entry-to-return path of a function.
type RetPath struct {
	Conds []PathCond
	Ret   *ssa.Return
}

// EnumRetPaths enumerates the acyclic paths from entry to Return instructions; ok=false if
// the function has a cycle on such a path or more than max paths.
func EnumRetPaths(fn *ssa.Function, max int) ([]RetPath, bool) {
	var out []RetPath
	ok := true
	on := map[*ssa.BasicBlock]bool{}
	var rec func(b *ssa.BasicBlock, conds []PathCond)
	rec = func(b *ssa.BasicBlock, conds []PathCond) {
		if !ok {
			return
		}
		if on[b] {
			ok = false
			return
		}
		on[b] = true
		defer delete(on, b)
		last := b.Instrs[len(b.Instrs)-1]
		switch x := last.(type) {
		case *ssa.Return:
			out = append(out, RetPath{Conds: append([]PathCond{}, conds...), Ret: x})
			if len(out) > max {
				ok = false
			}
		case *ssa.If:
			rec(b.Succs[0], append(append([]PathCond{}, conds...), PathCond{x.Cond, true}))
			rec(b.Succs[1], append(append([]PathCond{}, conds...), PathCond{x.Cond, false}))
		default:
			for _, s := range b.Succs {
				rec(s, conds)
			}
		}
	}
	if len(fn.Blocks) == 0 {
		return nil, false
	}
	rec(fn.Blocks[0], nil)
	return out, ok
}

// CallsTo returns the calls in fn (not its closures) whose static callee renders as short name.
func CallsTo(fn *ssa.Function, short string) []*ssa.Call {
	var out []*ssa.Call
	EachInstr(fn, func(i ssa.Instruction) {
		c, ok := i.(*ssa.Call)
		if !ok {
			return
		}
		f := c.Common().StaticCallee()
		if f == nil {
			return
		}
		if o := f.Origin(); o != nil {
			f = o
		}
		if ShortName(f.String()) == short {
			out = append(out, c)
		}
	})
	return out
}
