package fw

// Role-based term rendering of SSA values (used by the C08 rules, generic).
//
// A TermEnv renders every SSA value of one function as a canonical string that does not depend
// on local names, register numbers of straight-line code, or on whether a struct receiver was
// spilled to a stack slot: the receiver is "recv", parameters are "arg0..", closures see their
// captured variables as the terms bound in the parent, `x.f.g` chains are access paths, an
// element read through a sub-slice `s[lo:hi][i]` is the element `lo+i` of `s`, integers are
// polynomials in normal form (fw.Poly). Two values with the same term denote the same value
// provided the functions called are pure in their arguments (assumption stated by the rules).

import (
	"reflect"
	"fmt"
	"go/constant"
	"go/token"
	"go/types"
	"sort"
	"strconv"
	"strings"

	"golang.org/x/tools/go/ssa"
)

type TermEnv struct {
	Fn     *ssa.Function
	Parent *TermEnv
	bind   map[*ssa.FreeVar]ssa.Value
	subst  map[ssa.Value]string
	memo   map[ssa.Value]string
	imemo  map[ssa.Value]*Poly
	depth  int // closure nesting depth
	inl    int // inlining depth
	busy   map[ssa.Value]bool
}

func NewTermEnv(fn *ssa.Function) *TermEnv {
	e := &TermEnv{Fn: fn, memo: map[ssa.Value]string{}, imemo: map[ssa.Value]*Poly{}, busy: map[ssa.Value]bool{}}
	if p := fn.Parent(); p != nil {
		e.Parent = NewTermEnv(p)
		e.depth = e.Parent.depth + 1
		e.bind = map[*ssa.FreeVar]ssa.Value{}
		EachInstr(p, func(ins ssa.Instruction) {
			mc, ok := ins.(*ssa.MakeClosure)
			if !ok || mc.Fn != ssa.Value(fn) {
				return
			}
			for i, fv := range fn.FreeVars {
				if _, done := e.bind[fv]; !done && i < len(mc.Bindings) {
					e.bind[fv] = mc.Bindings[i]
				}
			}
		})
	}
	return e
}

func qual(p *types.Package) string {
	if p == nil {
		return ""
	}
	return strings.TrimPrefix(strings.TrimPrefix(p.Path(), Mod), "/")
}

// TypeStr renders a type with module-relative package paths.
func TypeStr(t types.Type) string { return types.TypeString(t, qual) }

func fnName(f *ssa.Function) string {
	if f == nil {
		return "?"
	}
	if o := f.Origin(); o != nil {
		f = o
	}
	return strings.ReplaceAll(f.String(), Mod+"/", "")
}

// IsIntT reports an integer basic type.
func IsIntT(t types.Type) bool { return isIntType(t) }

func (e *TermEnv) paramName(p *ssa.Parameter) string {
	idx := -1
	for i, q := range e.Fn.Params {
		if q == p {
			idx = i
		}
	}
	if idx < 0 {
		return "?param"
	}
	if e.Fn.Signature.Recv() != nil {
		if idx == 0 {
			return "recv"
		}
		idx--
	}
	return "arg" + strconv.Itoa(idx) + strings.Repeat("'", e.depth)
}

// storeThrough reports whether any Store writes through address a (or a field/element address derived from it),
// other than the instruction `except`.
func storeThrough(a ssa.Value, except ssa.Instruction, seen map[ssa.Value]bool) bool {
	if seen[a] || a.Referrers() == nil {
		return false
	}
	seen[a] = true
	for _, r := range *a.Referrers() {
		switch x := r.(type) {
		case *ssa.Store:
			if x.Addr == a && r != except {
				return true
			}
		case *ssa.FieldAddr:
			if storeThrough(x, except, seen) {
				return true
			}
		case *ssa.IndexAddr:
			if x.X == a && storeThrough(x, except, seen) {
				return true
			}
		case *ssa.MakeClosure:
			fn, _ := x.Fn.(*ssa.Function)
			if fn == nil {
				return true
			}
			for i, b := range x.Bindings {
				if b == a && i < len(fn.FreeVars) && storeThrough(fn.FreeVars[i], nil, seen) {
					return true
				}
			}
		}
	}
	return false
}

type allocInfo struct {
	kind    string // "spill", "lit", "opaque"
	whole   ssa.Value
	fields  map[string]ssa.Value // field path -> stored value (lit)
	indices map[int64]ssa.Value  // array literal
}

func analyseAlloc(a *ssa.Alloc) allocInfo {
	var whole []*ssa.Store
	if a.Referrers() == nil {
		return allocInfo{kind: "opaque"}
	}
	for _, r := range *a.Referrers() {
		if st, ok := r.(*ssa.Store); ok && st.Addr == ssa.Value(a) {
			whole = append(whole, st)
		}
	}
	if len(whole) == 1 {
		if storeThrough(a, whole[0], map[ssa.Value]bool{}) {
			return allocInfo{kind: "opaque"}
		}
		return allocInfo{kind: "spill", whole: whole[0].Val}
	}
	if len(whole) > 1 {
		return allocInfo{kind: "opaque"}
	}
	info := allocInfo{kind: "lit", fields: map[string]ssa.Value{}, indices: map[int64]ssa.Value{}}
	ok := true
	var rec func(addr ssa.Value, path string)
	rec = func(addr ssa.Value, path string) {
		if addr.Referrers() == nil {
			return
		}
		for _, r := range *addr.Referrers() {
			switch x := r.(type) {
			case *ssa.FieldAddr:
				rec(x, path+"."+fieldName(x.X.Type(), x.Field))
			case *ssa.IndexAddr:
				c, isC := x.Index.(*ssa.Const)
				if !isC || path != "" {
					if storeThrough(x, nil, map[ssa.Value]bool{}) {
						ok = false
					}
					continue
				}
				i, _ := constant.Int64Val(c.Value)
				n := 0
				for _, rr := range *x.Referrers() {
					if st, isSt := rr.(*ssa.Store); isSt && st.Addr == ssa.Value(x) {
						n++
						info.indices[i] = st.Val
					}
				}
				if n > 1 {
					ok = false
				}
			case *ssa.Store:
				if x.Addr == addr && path != "" {
					if _, dup := info.fields[path]; dup {
						ok = false
					}
					info.fields[path] = x.Val
				}
			case *ssa.MakeClosure:
				fn, _ := x.Fn.(*ssa.Function)
				if fn == nil {
					ok = false
					continue
				}
				for i, b := range x.Bindings {
					if b == addr && i < len(fn.FreeVars) && storeThrough(fn.FreeVars[i], nil, map[ssa.Value]bool{}) {
						ok = false
					}
				}
			}
		}
	}
	rec(a, "")
	if !ok {
		return allocInfo{kind: "opaque"}
	}
	return info
}

func (e *TermEnv) allocContent(a *ssa.Alloc) string {
	info := analyseAlloc(a)
	switch info.kind {
	case "spill":
		return e.Term(info.whole)
	case "lit":
		pt, _ := a.Type().Underlying().(*types.Pointer)
		if pt != nil {
			if _, isArr := pt.Elem().Underlying().(*types.Array); isArr {
				var keys []int64
				for k := range info.indices {
					keys = append(keys, k)
				}
				sort.Slice(keys, func(i, j int) bool { return keys[i] < keys[j] })
				var parts []string
				for _, k := range keys {
					parts = append(parts, e.Term(info.indices[k]))
				}
				return "[" + strings.Join(parts, ", ") + "]"
			}
		}
		var parts []string
		for _, k := range SortedKeys(info.fields) {
			parts = append(parts, strings.TrimPrefix(k, ".")+": "+e.Term(info.fields[k]))
		}
		tn := "?"
		if pt != nil {
			tn = TypeStr(pt.Elem())
		}
		return tn + "{" + strings.Join(parts, "; ") + "}"
	}
	return "?" + a.Name() + "@" + e.Fn.Name()
}

// LitFields returns the field-path -> value map of a composite literal built in a stack slot and then
// loaded as a whole (v is the load, or a MakeInterface of it); ok=false if v is not such a literal.
func LitFields(v ssa.Value) (t types.Type, fields map[string]ssa.Value, ok bool) {
	for {
		switch x := v.(type) {
		case *ssa.MakeInterface:
			v = x.X
			continue
		case *ssa.ChangeType:
			v = x.X
			continue
		}
		break
	}
	var a *ssa.Alloc
	switch x := v.(type) {
	case *ssa.UnOp:
		if x.Op != token.MUL {
			return nil, nil, false
		}
		a, _ = x.X.(*ssa.Alloc)
	case *ssa.Alloc:
		a = x
	}
	if a == nil {
		return nil, nil, false
	}
	info := analyseAlloc(a)
	if info.kind != "lit" {
		return nil, nil, false
	}
	pt, _ := a.Type().Underlying().(*types.Pointer)
	if pt == nil {
		return nil, nil, false
	}
	out := map[string]ssa.Value{}
	for k, val := range info.fields {
		out[strings.TrimPrefix(k, ".")] = val
	}
	return pt.Elem(), out, true
}

// Addr renders the location a pointer-valued v points to.
func (e *TermEnv) Addr(v ssa.Value) string {
	switch x := v.(type) {
	case *ssa.Alloc:
		return e.allocContent(x)
	case *ssa.FieldAddr:
		return e.Addr(x.X) + "." + fieldName(x.X.Type(), x.Field)
	case *ssa.IndexAddr:
		return e.elem(x.X, x.Index)
	case *ssa.FreeVar:
		if b, ok := e.bind[x]; ok && e.Parent != nil {
			return e.Parent.Addr(b)
		}
		return "free:" + x.Name()
	case *ssa.ChangeType:
		return e.Addr(x.X)
	case *ssa.Call:
		// ssa:wrapnilchk(p, ...) returns p
		if b, ok := x.Call.Value.(*ssa.Builtin); ok && b.Name() == "ssa:wrapnilchk" {
			return e.Addr(x.Call.Args[0])
		}
	}
	return e.Term(v)
}

// SliceWindow strips sub-slicing: returns the underlying sequence value and the offset polynomial.
func (e *TermEnv) SliceWindow(v ssa.Value) (base ssa.Value, off *Poly) {
	off = PConst(0)
	for {
		switch x := v.(type) {
		case *ssa.Slice:
			if _, isPtr := x.X.Type().Underlying().(*types.Pointer); isPtr {
				return v, off
			}
			if x.Low != nil {
				off = off.Add(e.Int(x.Low))
			}
			v = x.X
			continue
		case *ssa.ChangeType:
			v = x.X
			continue
		}
		return v, off
	}
}

func (e *TermEnv) elem(seq ssa.Value, idx ssa.Value) string {
	if _, isPtr := seq.Type().Underlying().(*types.Pointer); isPtr {
		return "elem(" + e.Addr(seq) + ", " + e.Int(idx).String() + ")"
	}
	base, off := e.SliceWindow(seq)
	return "elem(" + e.Term(base) + ", " + off.Add(e.Int(idx)).String() + ")"
}

// ElemOf decomposes an element read (load of IndexAddr, Index, or string Lookup): the underlying sequence
// term and the effective index.
func (e *TermEnv) ElemOf(v ssa.Value) (seq string, idx *Poly, ok bool) {
	switch x := v.(type) {
	case *ssa.UnOp:
		if x.Op == token.MUL {
			if ia, isIA := x.X.(*ssa.IndexAddr); isIA {
				return e.ElemOfAddr(ia)
			}
		}
	case *ssa.Index:
		base, off := e.SliceWindow(x.X)
		return e.Term(base), off.Add(e.Int(x.Index)), true
	case *ssa.Lookup:
		if b, isB := x.X.Type().Underlying().(*types.Basic); isB && b.Info()&types.IsString != 0 {
			return e.Term(x.X), e.Int(x.Index), true
		}
	}
	return "", nil, false
}

func (e *TermEnv) ElemOfAddr(ia *ssa.IndexAddr) (seq string, idx *Poly, ok bool) {
	if _, isPtr := ia.X.Type().Underlying().(*types.Pointer); isPtr {
		return e.Addr(ia.X), e.Int(ia.Index), true
	}
	base, off := e.SliceWindow(ia.X)
	return e.Term(base), off.Add(e.Int(ia.Index)), true
}

func sameSignWiden(from, to types.Type) bool {
	fb, ok1 := from.Underlying().(*types.Basic)
	tb, ok2 := to.Underlying().(*types.Basic)
	if !ok1 || !ok2 {
		return false
	}
	fu := fb.Info()&types.IsUnsigned != 0
	tu := tb.Info()&types.IsUnsigned != 0
	size := func(b *types.Basic) int {
		switch b.Kind() {
		case types.Int8, types.Uint8:
			return 8
		case types.Int16, types.Uint16:
			return 16
		case types.Int32, types.Uint32:
			return 32
		}
		return 64
	}
	return fu == tu && size(tb) >= size(fb)
}

// Int renders an integer-typed value as a polynomial over term atoms.
func (e *TermEnv) Int(v ssa.Value) *Poly {
	if p, ok := e.imemo[v]; ok {
		return p
	}
	p := e.int(v)
	e.imemo[v] = p
	return p
}

func (e *TermEnv) int(v ssa.Value) *Poly {
	switch x := v.(type) {
	case *ssa.Const:
		if x.Value != nil && x.Value.Kind() == constant.Int {
			if i, ok := constant.Int64Val(x.Value); ok {
				return PConst(i)
			}
		}
	case *ssa.BinOp:
		if isIntType(x.Type()) {
			switch x.Op {
			case token.ADD:
				return e.Int(x.X).Add(e.Int(x.Y))
			case token.SUB:
				return e.Int(x.X).Sub(e.Int(x.Y))
			case token.MUL:
				return e.Int(x.X).Mul(e.Int(x.Y))
			}
		}
	case *ssa.UnOp:
		if x.Op == token.SUB && isIntType(x.Type()) {
			return e.Int(x.X).Neg()
		}
	case *ssa.Convert:
		if isIntType(x.Type()) && isIntType(x.X.Type()) && sameSignWiden(x.X.Type(), x.Type()) {
			return e.Int(x.X)
		}
	case *ssa.ChangeType:
		if isIntType(x.X.Type()) {
			return e.Int(x.X)
		}
	case *ssa.Call:
		if b, ok := x.Call.Value.(*ssa.Builtin); ok && b.Name() == "len" {
			return e.lenOf(x.Call.Args[0])
		}
	}
	return PAtom(e.atom(v))
}

func (e *TermEnv) lenOf(seq ssa.Value) *Poly {
	switch x := seq.(type) {
	case *ssa.Slice:
		if _, isPtr := x.X.Type().Underlying().(*types.Pointer); !isPtr {
			var hi *Poly
			if x.High != nil {
				hi = e.Int(x.High)
			} else {
				hi = e.lenOf(x.X)
			}
			if x.Low != nil {
				return hi.Sub(e.Int(x.Low))
			}
			return hi
		}
	case *ssa.ChangeType:
		return e.lenOf(x.X)
	case *ssa.MakeSlice:
		return e.Int(x.Len)
	}
	return PAtom("len(" + e.Term(seq) + ")")
}

// Term renders v.
func (e *TermEnv) Term(v ssa.Value) string {
	if v == nil || (reflect.ValueOf(v).Kind() == reflect.Ptr && reflect.ValueOf(v).IsNil()) {
		return "?none" // e.g. the value of a defer/go call instruction
	}
	if s, ok := e.subst[v]; ok {
		return s
	}
	if s, ok := e.memo[v]; ok {
		return s
	}
	if e.busy[v] {
		return "?cycle:" + v.Name()
	}
	e.busy[v] = true
	var s string
	if isIntType(v.Type()) {
		s = e.Int(v).String()
	} else {
		s = e.atom(v)
	}
	delete(e.busy, v)
	e.memo[v] = s
	return s
}

func (e *TermEnv) ordinal(v ssa.Value) string {
	n := 0
	for _, b := range e.Fn.Blocks {
		for _, ins := range b.Instrs {
			if fmt.Sprintf("%T", ins) == fmt.Sprintf("%T", v) {
				n++
				if val, ok := ins.(ssa.Value); ok && val == v {
					return strconv.Itoa(n)
				}
			}
		}
	}
	return v.Name()
}

func pureGetter(f *ssa.Function) bool {
	if f == nil || len(f.Blocks) != 1 || !InFq(f) || f.Signature.Results().Len() != 1 {
		return false
	}
	for _, ins := range f.Blocks[0].Instrs {
		switch x := ins.(type) {
		case *ssa.Return, *ssa.FieldAddr, *ssa.Field, *ssa.IndexAddr, *ssa.Index, *ssa.Slice,
			*ssa.ChangeType, *ssa.MakeInterface, *ssa.DebugRef, *ssa.Alloc:
		case *ssa.UnOp:
			if x.Op != token.MUL {
				return false
			}
		case *ssa.Store:
			if _, ok := x.Addr.(*ssa.Alloc); !ok {
				return false
			}
		case *ssa.Call:
			if b, ok := x.Call.Value.(*ssa.Builtin); !ok || b.Name() != "len" {
				return false
			}
		default:
			return false
		}
	}
	return true
}

// atom renders a non-arithmetic value.
func (e *TermEnv) atom(v ssa.Value) string {
	if s, ok := e.subst[v]; ok {
		return s
	}
	switch x := v.(type) {
	case *ssa.Const:
		if x.Value == nil {
			if _, isStruct := x.Type().Underlying().(*types.Struct); isStruct {
				return TypeStr(x.Type()) + "{}"
			}
			return "nil"
		}
		return x.Value.ExactString()
	case *ssa.Parameter:
		return e.paramName(x)
	case *ssa.FreeVar:
		if b, ok := e.bind[x]; ok && e.Parent != nil {
			return e.Parent.Term(b)
		}
		return "free:" + x.Name()
	case *ssa.Alloc:
		return "&" + e.allocContent(x)
	case *ssa.Global:
		return qual(x.Pkg.Pkg) + "." + x.Name()
	case *ssa.Function:
		return "func " + fnName(x)
	case *ssa.Builtin:
		return "builtin " + x.Name()
	case *ssa.MakeInterface:
		return e.Term(x.X)
	case *ssa.ChangeInterface:
		return e.Term(x.X)
	case *ssa.ChangeType:
		return e.Term(x.X)
	case *ssa.Convert:
		return "conv<" + TypeStr(x.Type().Underlying()) + ">(" + e.Term(x.X) + ")"
	case *ssa.FieldAddr:
		return "&" + e.Addr(x)
	case *ssa.IndexAddr:
		return "&" + e.Addr(x)
	case *ssa.Field:
		return e.Term(x.X) + "." + fieldName(x.X.Type(), x.Field)
	case *ssa.Index:
		return e.elem(x.X, x.Index)
	case *ssa.UnOp:
		switch x.Op {
		case token.MUL:
			return e.Addr(x.X)
		case token.NOT:
			return "!(" + e.Term(x.X) + ")"
		case token.ARROW:
			return "recv<-" + e.Term(x.X)
		default:
			return x.Op.String() + "(" + e.Term(x.X) + ")"
		}
	case *ssa.BinOp:
		a, b := e.Term(x.X), e.Term(x.Y)
		switch x.Op {
		case token.EQL, token.NEQ, token.AND, token.OR, token.XOR:
			if a > b {
				a, b = b, a
			}
		}
		return "(" + a + " " + x.Op.String() + " " + b + ")"
	case *ssa.Slice:
		if _, isPtr := x.X.Type().Underlying().(*types.Pointer); isPtr {
			if x.Low == nil && x.High == nil {
				return e.Addr(x.X)
			}
			return "slice(" + e.Addr(x.X) + ", " + e.optInt(x.Low, "0") + ", " + e.optInt(x.High, "end") + ")"
		}
		base, off := e.SliceWindow(x)
		return "slice(" + e.Term(base) + ", " + off.String() + ", " + off.Add(e.lenOf(x)).String() + ")"
	case *ssa.Lookup:
		if b, isB := x.X.Type().Underlying().(*types.Basic); isB && b.Info()&types.IsString != 0 {
			return e.elem(x.X, x.Index)
		}
		s := "lookup(" + e.Term(x.X) + ", " + e.Term(x.Index) + ")"
		if !x.CommaOk {
			return s + ".v"
		}
		return s
	case *ssa.TypeAssert:
		s := "assert<" + TypeStr(x.AssertedType) + ">(" + e.Term(x.X) + ")"
		if !x.CommaOk {
			return s + ".v"
		}
		return s
	case *ssa.Range:
		return "range#" + e.ordinal(x) + "(" + e.Term(x.X) + ")"
	case *ssa.Next:
		return "next(" + e.Term(x.Iter) + ")"
	case *ssa.Extract:
		switch t := x.Tuple.(type) {
		case *ssa.Lookup, *ssa.TypeAssert:
			if x.Index == 0 {
				return e.Term(t) + ".v"
			}
			return e.Term(t) + ".ok"
		case *ssa.Next:
			return e.Term(t) + [...]string{".ok", ".key", ".val"}[x.Index]
		}
		return e.Term(x.Tuple) + "#" + strconv.Itoa(x.Index)
	case *ssa.Phi:
		return "phi@b" + strconv.Itoa(x.Block().Index) + "." + x.Name()
	case *ssa.MakeSlice:
		return "makeslice#" + e.ordinal(x)
	case *ssa.MakeMap:
		return "makemap#" + e.ordinal(x)
	case *ssa.MakeClosure:
		fn, _ := x.Fn.(*ssa.Function)
		var bs []string
		for _, b := range x.Bindings {
			bs = append(bs, e.Term(b))
		}
		if fn != nil && strings.HasSuffix(fn.Name(), "$bound") {
			return "bound " + BoundMethodName(fn) + "(" + strings.Join(bs, ", ") + ")"
		}
		return "closure " + fnName(fn) + "[" + strings.Join(bs, ", ") + "]"
	case *ssa.Call:
		return e.call(x)
	}
	return "?" + v.Name() + "@" + e.Fn.Name()
}

func (e *TermEnv) optInt(v ssa.Value, def string) string {
	if v == nil {
		return def
	}
	return e.Int(v).String()
}

// BoundMethodName returns "<receiver type>.<method>" of a bound-method wrapper.
func BoundMethodName(fn *ssa.Function) string {
	if fn == nil {
		return "?"
	}
	if o, ok := fn.Object().(*types.Func); ok && o != nil {
		if sig, ok := o.Type().(*types.Signature); ok && sig.Recv() != nil {
			return TypeStr(sig.Recv().Type()) + "." + o.Name()
		}
	}
	return strings.TrimSuffix(fnName(fn), "$bound")
}

func (e *TermEnv) call(c *ssa.Call) string {
	cc := c.Common()
	var args []string
	for _, a := range cc.Args {
		args = append(args, e.Term(a))
	}
	if cc.IsInvoke() {
		return "invoke " + e.Term(cc.Value) + "." + cc.Method.Name() + "(" + strings.Join(args, ", ") + ")"
	}
	if b, ok := cc.Value.(*ssa.Builtin); ok {
		if b.Name() == "ssa:wrapnilchk" {
			return e.Term(cc.Args[0])
		}
		return b.Name() + "(" + strings.Join(args, ", ") + ")"
	}
	if f := cc.StaticCallee(); f != nil {
		if e.inl < 2 && pureGetter(f) {
			sub := NewTermEnv(f)
			sub.inl = e.inl + 1
			sub.subst = map[ssa.Value]string{}
			for i, p := range f.Params {
				if i < len(args) {
					sub.subst[p] = args[i]
				}
			}
			ret := f.Blocks[0].Instrs[len(f.Blocks[0].Instrs)-1].(*ssa.Return)
			return sub.Term(ret.Results[0])
		}
		return "call " + fnName(f) + "(" + strings.Join(args, ", ") + ")"
	}
	return "dyn " + e.Term(cc.Value) + "(" + strings.Join(args, ", ") + ")"
}

// ---------------------------------------------------------------------------
// guards on blocks and edges

// Cond is a rendered branch condition with its polarity.
type Cond struct {
	Val  ssa.Value
	True bool
}

// BlockConds returns the normalised branch conditions known at b.
func BlockConds(b *ssa.BasicBlock) []Cond {
	var out []Cond
	for _, g := range Guards(b) {
		g = g.Normalize()
		out = append(out, Cond{Val: g.Cond, True: g.True})
	}
	return out
}

// EdgeConds returns the conditions known when control flows along pred -> succ.
func EdgeConds(pred, succ *ssa.BasicBlock) []Cond {
	out := BlockConds(pred)
	if ifi, ok := pred.Instrs[len(pred.Instrs)-1].(*ssa.If); ok && pred.Succs[0] != pred.Succs[1] {
		g := Guard{Cond: ifi.Cond, True: pred.Succs[0] == succ, If: ifi}.Normalize()
		out = append(out, Cond{Val: g.Cond, True: g.True})
	}
	return out
}

// RetCase is one way a function returns: the value of result #i and the conditions known on that way.
type RetCase struct {
	Val   ssa.Value
	Conds []Cond
	Block *ssa.BasicBlock // block the value comes from (the returning block, or the phi predecessor)
	Succ  *ssa.BasicBlock // phi block when the value flows along the edge Block->Succ, else nil
}

// ReturnCases flattens the returns of fn (result index ri) through phi nodes.
func ReturnCases(fn *ssa.Function, ri int) []RetCase {
	var out []RetCase
	var flat func(v ssa.Value, conds []Cond, b, succ *ssa.BasicBlock, depth int)
	flat = func(v ssa.Value, conds []Cond, b, succ *ssa.BasicBlock, depth int) {
		if mi, ok := v.(*ssa.MakeInterface); ok {
			if ph, isPhi := mi.X.(*ssa.Phi); isPhi && depth < 4 {
				v = ph
			}
		}
		if ph, ok := v.(*ssa.Phi); ok && depth < 4 {
			for i, ed := range ph.Edges {
				pred := ph.Block().Preds[i]
				flat(ed, append(append([]Cond{}, conds...), EdgeConds(pred, ph.Block())...), pred, ph.Block(), depth+1)
			}
			return
		}
		out = append(out, RetCase{Val: v, Conds: conds, Block: b, Succ: succ})
	}
	for _, b := range fn.Blocks {
		ret, ok := b.Instrs[len(b.Instrs)-1].(*ssa.Return)
		if !ok || ri >= len(ret.Results) {
			continue
		}
		flat(ret.Results[ri], BlockConds(b), b, nil, 0)
	}
	return out
}

// GE renders an integer comparison with polarity as the canonical fact "Q >= 0", "Q == 0" or "Q != 0".
func (e *TermEnv) GE(c Cond) (string, bool) {
	b, ok := c.Val.(*ssa.BinOp)
	if !ok || !isIntType(b.X.Type()) {
		return "", false
	}
	x, y := e.Int(b.X), e.Int(b.Y)
	op := b.Op
	if !c.True {
		switch op {
		case token.LSS:
			op = token.GEQ
		case token.LEQ:
			op = token.GTR
		case token.GTR:
			op = token.LEQ
		case token.GEQ:
			op = token.LSS
		case token.EQL:
			op = token.NEQ
		case token.NEQ:
			op = token.EQL
		}
	}
	switch op {
	case token.LSS:
		return y.Sub(x).Sub(PConst(1)).String() + " >= 0", true
	case token.LEQ:
		return y.Sub(x).String() + " >= 0", true
	case token.GTR:
		return x.Sub(y).Sub(PConst(1)).String() + " >= 0", true
	case token.GEQ:
		return x.Sub(y).String() + " >= 0", true
	case token.EQL, token.NEQ:
		d := x.Sub(y)
		if n := d.Neg(); n.String() < d.String() {
			d = n
		}
		if op == token.EQL {
			return d.String() + " == 0", true
		}
		return d.String() + " != 0", true
	}
	return "", false
}

// CondStr renders any condition: integer comparisons canonically, others as +term / -term.
func (e *TermEnv) CondStr(c Cond) string {
	if s, ok := e.GE(c); ok {
		return s
	}
	if c.True {
		return "+" + e.Term(c.Val)
	}
	return "-" + e.Term(c.Val)
}

func (e *TermEnv) CondStrs(cs []Cond) []string {
	var out []string
	for _, c := range cs {
		out = append(out, e.CondStr(c))
	}
	sort.Strings(out)
	return out
}

// Conj decomposes a boolean value built from && into its conjuncts (as conditions). ok=false if the
// value has another shape.
func Conj(v ssa.Value) ([]Cond, bool) {
	for {
		if mi, ok := v.(*ssa.MakeInterface); ok {
			v = mi.X
			continue
		}
		break
	}
	ph, ok := v.(*ssa.Phi)
	if !ok {
		return []Cond{{Val: v, True: true}}, true
	}
	// a && b: phi [false from the block testing a, b from the rhs block]
	var out []Cond
	var rhs ssa.Value
	for i, ed := range ph.Edges {
		if c, isC := ed.(*ssa.Const); isC && c.Value != nil && c.Value.Kind() == constant.Bool {
			if constant.BoolVal(c.Value) {
				return nil, false
			}
			pred := ph.Block().Preds[i]
			ifi, isIf := pred.Instrs[len(pred.Instrs)-1].(*ssa.If)
			if !isIf || pred.Succs[1] != ph.Block() {
				return nil, false
			}
			sub, ok := Conj(ifi.Cond)
			if !ok {
				return nil, false
			}
			out = append(out, sub...)
			continue
		}
		if rhs != nil {
			return nil, false
		}
		rhs = ed
	}
	if rhs == nil {
		return nil, false
	}
	sub, ok := Conj(rhs)
	if !ok {
		return nil, false
	}
	return append(out, sub...), true
}

// ---------------------------------------------------------------------------
// counting loops

// IndexRange recognises v as the index of a counting loop that takes every value lo..hi-1 exactly once
// per loop execution in increasing order:
//   - range-style:  p = phi[-1, x]; x = p+1; header tests x < H           -> v == x, [0, H)
//   - for-style:    p = phi[0, p+1]; header tests p < H                    -> v == p, [0, H)
//   - map counter:  p = phi[0, p+1] in the header of a range-over-map loop -> v == p, [0, len(map))
func (e *TermEnv) IndexRange(v ssa.Value) (lo, hi *Poly, loop *ssa.BasicBlock, ok bool) {
	var ph *ssa.Phi
	var step ssa.Value
	if b, isB := v.(*ssa.BinOp); isB && b.Op == token.ADD {
		if p, isP := b.X.(*ssa.Phi); isP {
			if c, isC := e.Int(b.Y).IsConst(); isC && c == 1 {
				ph, step = p, v
			}
		}
	}
	if ph == nil {
		p, isP := v.(*ssa.Phi)
		if !isP {
			return nil, nil, nil, false
		}
		ph = p
	}
	hdr := ph.Block()
	var init ssa.Value
	for i, ed := range ph.Edges {
		pred := hdr.Preds[i]
		if hdr.Dominates(pred) { // back edge
			if step != nil {
				if ed != step {
					return nil, nil, nil, false
				}
			} else {
				d := e.Int(ed).Sub(e.Int(ph))
				if c, isC := d.IsConst(); !isC || c != 1 {
					return nil, nil, nil, false
				}
			}
		} else {
			if init != nil && init != ed {
				return nil, nil, nil, false
			}
			init = ed
		}
	}
	if init == nil {
		return nil, nil, nil, false
	}
	ic, isC := e.Int(init).IsConst()
	if !isC {
		return nil, nil, nil, false
	}
	ifi, isIf := hdr.Instrs[len(hdr.Instrs)-1].(*ssa.If)
	if !isIf {
		return nil, nil, nil, false
	}
	if step != nil {
		if ic != -1 {
			return nil, nil, nil, false
		}
		cmp, isCmp := ifi.Cond.(*ssa.BinOp)
		if !isCmp || cmp.Op != token.LSS || cmp.X != step {
			return nil, nil, nil, false
		}
		return PConst(0), e.Int(cmp.Y), hdr, true
	}
	if ic != 0 {
		return nil, nil, nil, false
	}
	switch c := ifi.Cond.(type) {
	case *ssa.BinOp:
		if c.Op == token.LSS && c.X == ssa.Value(ph) {
			return PConst(0), e.Int(c.Y), hdr, true
		}
	case *ssa.Extract:
		if nx, isNext := c.Tuple.(*ssa.Next); isNext && c.Index == 0 && !nx.IsString {
			if rg, isR := nx.Iter.(*ssa.Range); isR {
				if _, isMap := rg.X.Type().Underlying().(*types.Map); isMap {
					return PConst(0), PAtom("len(" + e.Term(rg.X) + ")"), hdr, true
				}
			}
		}
	}
	return nil, nil, nil, false
}

// InLoop reports whether block b belongs to the natural loop with header hdr.
func InLoop(hdr, b *ssa.BasicBlock) bool {
	if !hdr.Dominates(b) {
		return false
	}
	return blockReaches(b, hdr, false) || b == hdr
}

// EdgeCond returns the condition that holds on the edge pred->succ (ok=false for unconditional edges).
func EdgeCond(pred, succ *ssa.BasicBlock) (Cond, bool) {
	ifi, ok := pred.Instrs[len(pred.Instrs)-1].(*ssa.If)
	if !ok || pred.Succs[0] == pred.Succs[1] {
		return Cond{}, false
	}
	g := Guard{Cond: ifi.Cond, True: pred.Succs[0] == succ, If: ifi}.Normalize()
	return Cond{Val: g.Cond, True: g.True}, true
}

// ReachAvoiding returns the blocks reachable from `from` (inclusive) using only edges whose condition
// does not satisfy del, and never entering a block in stop.
func ReachAvoiding(from *ssa.BasicBlock, del func(Cond) bool, stop map[*ssa.BasicBlock]bool) map[*ssa.BasicBlock]bool {
	seen := map[*ssa.BasicBlock]bool{}
	stack := []*ssa.BasicBlock{from}
	for len(stack) > 0 {
		b := stack[len(stack)-1]
		stack = stack[:len(stack)-1]
		if seen[b] || stop[b] {
			continue
		}
		seen[b] = true
		for _, s := range b.Succs {
			if c, ok := EdgeCond(b, s); ok && del != nil && del(c) {
				continue
			}
			stack = append(stack, s)
		}
	}
	return seen
}

// CaseReachable reports whether return case rc can be taken when the edges satisfying del are removed.
func CaseReachable(fn *ssa.Function, rc RetCase, del func(Cond) bool) bool {
	seen := ReachAvoiding(fn.Blocks[0], del, nil)
	if !seen[rc.Block] {
		return false
	}
	if rc.Succ != nil {
		if c, ok := EdgeCond(rc.Block, rc.Succ); ok && del(c) {
			return false
		}
	}
	return true
}

// SliceLitElems returns the element values of a slice literal (`[]T{a, b, c}`: a Slice of a stack array).
func SliceLitElems(v ssa.Value) ([]ssa.Value, bool) {
	for {
		switch x := v.(type) {
		case *ssa.MakeInterface:
			v = x.X
			continue
		case *ssa.ChangeType:
			v = x.X
			continue
		}
		break
	}
	sl, ok := v.(*ssa.Slice)
	if !ok || sl.Low != nil || sl.High != nil {
		return nil, false
	}
	a, ok := sl.X.(*ssa.Alloc)
	if !ok {
		return nil, false
	}
	info := analyseAlloc(a)
	if info.kind != "lit" {
		return nil, false
	}
	pt, _ := a.Type().Underlying().(*types.Pointer)
	arr, _ := pt.Elem().Underlying().(*types.Array)
	if arr == nil || int64(len(info.indices)) != arr.Len() {
		return nil, false
	}
	out := make([]ssa.Value, arr.Len())
	for i, val := range info.indices {
		out[i] = val
	}
	return out, true
}

// Resolve strips interface/type changes and loads of single-assignment stack slots (a local captured by
// a closure lives in such a slot): the value originally assigned.
func Resolve(v ssa.Value) ssa.Value {
	for i := 0; i < 16; i++ {
		switch x := v.(type) {
		case *ssa.MakeInterface:
			v = x.X
			continue
		case *ssa.ChangeType:
			v = x.X
			continue
		case *ssa.UnOp:
			if x.Op == token.MUL {
				if a, ok := x.X.(*ssa.Alloc); ok {
					if info := analyseAlloc(a); info.kind == "spill" {
						v = info.whole
						continue
					}
				}
			}
		}
		break
	}
	return v
}

// AffineRange generalises IndexRange to v = p + K where p is the counter of a for-style loop
// `for p := init; p < H; p++` and K, init, H do not change in the loop: v takes every value
// init+K .. H+K-1 exactly once per loop execution in increasing order.
func (e *TermEnv) AffineRange(v ssa.Value) (lo, hi *Poly, loop *ssa.BasicBlock, ok bool) {
	if lo, hi, loop, ok = e.IndexRange(v); ok {
		return
	}
	// the loop counter inside v
	var ph *ssa.Phi
	var find func(x ssa.Value, depth int)
	find = func(x ssa.Value, depth int) {
		if depth > 6 || ph != nil {
			return
		}
		switch y := x.(type) {
		case *ssa.Phi:
			ph = y
		case *ssa.BinOp:
			if y.Op == token.ADD || y.Op == token.SUB {
				find(y.X, depth+1)
				find(y.Y, depth+1)
			}
		case *ssa.Convert:
			find(y.X, depth+1)
		case *ssa.ChangeType:
			find(y.X, depth+1)
		}
	}
	find(v, 0)
	if ph == nil || !isIntType(ph.Type()) {
		return nil, nil, nil, false
	}
	hdr := ph.Block()
	var init ssa.Value
	for i, ed := range ph.Edges {
		if hdr.Dominates(hdr.Preds[i]) {
			if c, isC := e.Int(ed).Sub(e.Int(ph)).IsConst(); !isC || c != 1 {
				return nil, nil, nil, false
			}
		} else {
			if init != nil && init != ed {
				return nil, nil, nil, false
			}
			init = ed
		}
	}
	if init == nil {
		return nil, nil, nil, false
	}
	ifi, isIf := hdr.Instrs[len(hdr.Instrs)-1].(*ssa.If)
	if !isIf {
		return nil, nil, nil, false
	}
	cmp, isCmp := ifi.Cond.(*ssa.BinOp)
	if !isCmp || cmp.Op != token.LSS || cmp.X != ssa.Value(ph) || !InLoop(hdr, hdr.Succs[0]) {
		return nil, nil, nil, false
	}
	a := e.Int(ph).String()
	pv := e.Int(v)
	if pv.Coef(a) != 1 {
		return nil, nil, nil, false
	}
	k := pv.Sub(PAtom(a))
	H, I := e.Int(cmp.Y), e.Int(init)
	for _, q := range []*Poly{k, H, I} {
		for _, at := range q.Atoms() {
			if strings.Contains(at, "phi@") {
				return nil, nil, nil, false
			}
		}
	}
	return I.Add(k), H.Add(k), hdr, true
}
