package fw

// Helpers added for property C02 (scalar readers):
//
//   - Sx: a canonical S-expression of the computation tree of an SSA value. Parameters are named
//     by position, integer +,-,* are put in polynomial normal form, sxCommutative operators are
//     sorted, integer<->integer conversions are elided, phis are sets. It is the "normal form of a
//     value" that rules compare small facts against (an argument of a call, a returned value, a
//     branch condition). It never depends on local names, registers, lines or declaration order.
//   - BvEnv: bit-level abstract interpretation of integer SSA expressions (every result bit is
//     0, 1, bit j of a named source, or unknown). Used to decide byte/bit permutations exactly
//     (ReverseBytes64 arms, float80 assembly, IEEE field moves) independent of how the masks and
//     shifts are written.

import (
	"fmt"
	"go/constant"
	"go/token"
	"go/types"
	"sort"
	"strconv"
	"strings"

	"golang.org/x/tools/go/ssa"
)

// ---------------------------------------------------------------------------
// Sx

// SxEnv canonicalises values of one function (closures get their own env with Lambda depth).
type SxEnv struct {
	Fn      *ssa.Function
	prefix  string // parameter prefix ("p" for the function itself, "q" for lambdas)
	parent  *SxEnv
	memo    map[ssa.Value]string
	phiStk  []*ssa.Phi
	bind    map[*ssa.FreeVar]ssa.Value // free variable -> bound value in the parent
	penv    *SxEnv
	MaxSize int
	// Alias gives short names to chosen values (e.g. the result of the one reader call) so that
	// the facts compared by rules stay small.
	Alias    map[ssa.Value]string
	busyCell map[*ssa.Alloc]bool
	// InlinePure (opt-in) renders a call of an unexported, single-block, side-effect free fq
	// function with one result as the expression it returns (see sxInlinable), so that extracting
	// such a helper out of an anchored function does not change the canonical forms.
	InlinePure bool
	// KeepNarrowing (opt-in) keeps integer conversions to a narrower type visible as (conv T x):
	// they truncate, so they are not value preserving (int/uint count as 64 bits wide); left shifts
	// in a type narrower than 64 bits are marked (<<32 ..), and a[:n] is rendered as a[0:n].
	KeepNarrowing bool
	NoInline      func(*ssa.Function) bool
	inlineDepth   int
}

// ResetMemo must be called after changing Alias.
func (e *SxEnv) ResetMemo() { e.memo = map[ssa.Value]string{} }

// With returns a copy of e with the given aliases.
func (e *SxEnv) With(alias map[ssa.Value]string) *SxEnv {
	c := *e
	c.Alias = alias
	c.memo = map[ssa.Value]string{}
	c.phiStk = nil
	c.busyCell = nil
	return &c
}

func NewSxEnv(fn *ssa.Function) *SxEnv {
	return &SxEnv{Fn: fn, prefix: "p", memo: map[ssa.Value]string{}, MaxSize: 4000}
}

// ParamName is the canonical name of parameter i of the env's function ("recv" for a receiver).
func (e *SxEnv) paramName(p *ssa.Parameter) string {
	for i, q := range e.Fn.Params {
		if q == p {
			if i == 0 && e.Fn.Signature.Recv() != nil {
				return "recv"
			}
			k := i
			if e.Fn.Signature.Recv() != nil {
				k = i - 1
			}
			return e.prefix + strconv.Itoa(k)
		}
	}
	return "param?"
}

func sxIsInt(t types.Type) bool { return isIntType(t) }

func sxCommutative(op token.Token) bool {
	switch op {
	case token.ADD, token.MUL, token.AND, token.OR, token.XOR, token.EQL, token.NEQ:
		return true
	}
	return false
}

// Of returns the canonical expression of v.
func (e *SxEnv) Of(v ssa.Value) string {
	if v == nil {
		return "_"
	}
	if a, ok := e.Alias[v]; ok {
		return a
	}
	if s, ok := e.memo[v]; ok {
		return s
	}
	s := e.of(v)
	if len(s) > e.MaxSize {
		s = s[:e.MaxSize] + "...<truncated>"
	}
	if _, isPhi := v.(*ssa.Phi); !isPhi || len(e.phiStk) == 0 {
		e.memo[v] = s
	}
	return s
}

func (e *SxEnv) poly(v ssa.Value) *Poly {
	switch x := v.(type) {
	case *ssa.Const:
		if x.Value != nil && x.Value.Kind() == constant.Int {
			if i, ok := constant.Int64Val(x.Value); ok {
				return PConst(i)
			}
		}
	case *ssa.Convert:
		if sxIsInt(x.Type()) && sxIsInt(x.X.Type()) && !(e.KeepNarrowing && sxNarrows(x.X.Type(), x.Type())) {
			return e.poly(x.X)
		}
	case *ssa.ChangeType:
		if sxIsInt(x.Type()) && sxIsInt(x.X.Type()) {
			return e.poly(x.X)
		}
	case *ssa.BinOp:
		if sxIsInt(x.Type()) {
			switch x.Op {
			case token.ADD:
				return e.poly(x.X).Add(e.poly(x.Y))
			case token.SUB:
				return e.poly(x.X).Sub(e.poly(x.Y))
			case token.MUL:
				return e.poly(x.X).Mul(e.poly(x.Y))
			case token.SHL:
				if c, ok := bvConstShift(x.Y); ok && c < 62 && !(e.KeepNarrowing && sxIntWidth(x.Type()) < 64) {
					if _, isC := x.X.(*ssa.Const); !isC {
						return e.poly(x.X).MulC(1 << uint(c))
					}
				}
			}
		}
	case *ssa.UnOp:
		if x.Op == token.SUB && sxIsInt(x.Type()) {
			return e.poly(x.X).Neg()
		}
	}
	return PAtom(e.Of(v))
}

func sxConst(c *ssa.Const) string {
	if c.Value == nil {
		return "nil"
	}
	switch c.Value.Kind() {
	case constant.Int:
		return c.Value.ExactString()
	case constant.Bool:
		if constant.BoolVal(c.Value) {
			return "true"
		}
		return "false"
	case constant.String:
		return strconv.Quote(constant.StringVal(c.Value))
	}
	return c.Value.ExactString()
}

func sxShortCallee(f *ssa.Function) string {
	if o := f.Origin(); o != nil {
		f = o
	}
	return strings.ReplaceAll(f.String(), Mod+"/", "")
}

func (e *SxEnv) of(v ssa.Value) string {
	switch x := v.(type) {
	case *ssa.Const:
		return sxConst(x)
	case *ssa.Parameter:
		return e.paramName(x)
	case *ssa.FreeVar:
		if e.bind != nil {
			if b, ok := e.bind[x]; ok && e.penv != nil {
				return "&" + e.penv.cellValue(b)
			}
		}
		for i, f := range e.Fn.FreeVars {
			if f == x {
				return "fv" + strconv.Itoa(i)
			}
		}
		return "fv?"
	case *ssa.Global:
		return "g:" + x.Pkg.Pkg.Name() + "." + x.Name()
	case *ssa.Function:
		if x.Parent() != nil {
			return e.lambda(x, nil)
		}
		return "fn:" + sxShortCallee(x)
	case *ssa.Builtin:
		return "builtin:" + x.Name()
	case *ssa.Convert:
		if sxIsInt(x.Type()) && sxIsInt(x.X.Type()) && !(e.KeepNarrowing && sxNarrows(x.X.Type(), x.Type())) {
			return e.Of(x.X)
		}
		return "(conv " + types.TypeString(x.Type(), sxQual) + " " + e.Of(x.X) + ")"
	case *ssa.ChangeType:
		return e.Of(x.X)
	case *ssa.ChangeInterface:
		return e.Of(x.X)
	case *ssa.MakeInterface:
		return e.Of(x.X)
	case *ssa.BinOp:
		if sxIsInt(x.Type()) {
			switch x.Op {
			case token.ADD, token.SUB, token.MUL:
				return e.poly(x).String()
			case token.SHL:
				if c, ok := bvConstShift(x.Y); ok && c < 62 && !(e.KeepNarrowing && sxIntWidth(x.Type()) < 64) {
					if _, isC := x.X.(*ssa.Const); !isC {
						return e.poly(x).String()
					}
				}
			}
		}
		a, b := e.Of(x.X), e.Of(x.Y)
		if x.Op == token.SHL && e.KeepNarrowing && sxIsInt(x.Type()) && sxIntWidth(x.Type()) < 64 {
			// a left shift in a type narrower than 64 bits drops the bits shifted beyond it
			return "(<<" + strconv.Itoa(sxIntWidth(x.Type())) + " " + a + " " + b + ")"
		}
		op := x.Op
		switch op {
		case token.LSS:
			op, a, b = token.GTR, b, a
		case token.LEQ:
			op, a, b = token.GEQ, b, a
		}
		if sxCommutative(op) && a > b {
			a, b = b, a
		}
		return "(" + op.String() + " " + a + " " + b + ")"
	case *ssa.UnOp:
		switch x.Op {
		case token.SUB:
			if sxIsInt(x.Type()) {
				return e.poly(x).String()
			}
			return "(neg " + e.Of(x.X) + ")"
		case token.NOT:
			return "(! " + e.Of(x.X) + ")"
		case token.XOR:
			return "(^ " + e.Of(x.X) + ")"
		case token.MUL:
			return e.load(x.X)
		case token.ARROW:
			return "(recv " + e.Of(x.X) + ")"
		}
	case *ssa.FieldAddr:
		return "(& " + e.Of(x.X) + "." + fieldName(x.X.Type(), x.Field) + ")"
	case *ssa.Field:
		return e.Of(x.X) + "." + fieldName(x.X.Type(), x.Field)
	case *ssa.IndexAddr:
		return "(&idx " + e.Of(x.X) + " " + e.Of(x.Index) + ")"
	case *ssa.Index:
		return "(idx " + e.Of(x.X) + " " + e.Of(x.Index) + ")"
	case *ssa.Slice:
		lo := e.Of(x.Low)
		if x.Low == nil && e.KeepNarrowing {
			lo = "0" // a[:n] is a[0:n]
		}
		return "(slice " + e.Of(x.X) + " " + lo + " " + e.Of(x.High) + " " + e.Of(x.Max) + ")"
	case *ssa.Alloc:
		return "alloc:" + types.TypeString(x.Type().Underlying().(*types.Pointer).Elem(), sxQual)
	case *ssa.MakeSlice:
		return "(make " + types.TypeString(x.Type(), sxQual) + " " + e.Of(x.Len) + " " + e.Of(x.Cap) + ")"
	case *ssa.Extract:
		return "(#" + strconv.Itoa(x.Index) + " " + e.Of(x.Tuple) + ")"
	case *ssa.TypeAssert:
		return "(assert " + types.TypeString(x.AssertedType, sxQual) + " " + e.Of(x.X) + ")"
	case *ssa.MakeClosure:
		return e.lambda(x.Fn.(*ssa.Function), x.Bindings)
	case *ssa.Call:
		return e.call(x.Common())
	case *ssa.Phi:
		for i, p := range e.phiStk {
			if p == x {
				return "@" + strconv.Itoa(len(e.phiStk)-1-i)
			}
		}
		e.phiStk = append(e.phiStk, x)
		set := map[string]bool{}
		for _, ed := range x.Edges {
			// values computed under an open phi must not be memoised (they may mention @k)
			saved := e.memo
			e.memo = map[ssa.Value]string{}
			set[e.Of(ed)] = true
			e.memo = saved
		}
		e.phiStk = e.phiStk[:len(e.phiStk)-1]
		var parts []string
		for s := range set {
			parts = append(parts, s)
		}
		sort.Strings(parts)
		if len(parts) == 1 && !strings.Contains(parts[0], "@") {
			return parts[0]
		}
		return "phi{" + strings.Join(parts, " | ") + "}"
	}
	return "?" + fmt.Sprintf("%T", v)
}

func sxQual(p *types.Package) string { return p.Name() }

// load canonicalises *addr.
func (e *SxEnv) load(addr ssa.Value) string {
	switch a := addr.(type) {
	case *ssa.FieldAddr:
		return e.Of(a.X) + "." + fieldName(a.X.Type(), a.Field)
	case *ssa.IndexAddr:
		return "(idx " + e.Of(a.X) + " " + e.Of(a.Index) + ")"
	case *ssa.Global:
		return "g:" + a.Pkg.Pkg.Name() + "." + a.Name()
	case *ssa.Alloc:
		return e.cellValue(a)
	case *ssa.FreeVar:
		if e.bind != nil && e.penv != nil {
			if b, ok := e.bind[a]; ok {
				return e.penv.cellValue(b)
			}
		}
		return "(load " + e.Of(a) + ")"
	}
	return "(load " + e.Of(addr) + ")"
}

// cellValue: the value held by a local cell (Alloc) when it has exactly one store of a whole value
// and is otherwise only read / captured; else an opaque description of the cell with its stores.
func (e *SxEnv) cellValue(cell ssa.Value) string {
	al, ok := cell.(*ssa.Alloc)
	if !ok {
		return "(load " + e.Of(cell) + ")"
	}
	if e.busyCell == nil {
		e.busyCell = map[*ssa.Alloc]bool{}
	}
	if e.busyCell[al] {
		return "cell@"
	}
	e.busyCell[al] = true
	defer delete(e.busyCell, al)
	var stores []*ssa.Store
	fieldStores := map[string]string{}
	other := false
	if al.Referrers() != nil {
		for _, r := range *al.Referrers() {
			switch x := r.(type) {
			case *ssa.Store:
				if x.Addr == ssa.Value(al) {
					stores = append(stores, x)
				} else {
					other = true
				}
			case *ssa.UnOp, *ssa.MakeClosure, *ssa.DebugRef:
			case *ssa.FieldAddr:
				if x.Referrers() != nil {
					for _, rr := range *x.Referrers() {
						if st, ok := rr.(*ssa.Store); ok && st.Addr == ssa.Value(x) {
							fieldStores[fieldName(x.X.Type(), x.Field)] = e.Of(st.Val)
						}
					}
				}
			default:
				other = true
			}
		}
	}
	if len(stores) == 1 && len(fieldStores) == 0 && !other {
		return e.Of(stores[0].Val)
	}
	if len(stores) == 0 && len(fieldStores) > 0 && !other {
		var ks []string
		for k := range fieldStores {
			ks = append(ks, k)
		}
		sort.Strings(ks)
		var parts []string
		for _, k := range ks {
			parts = append(parts, k+":"+fieldStores[k])
		}
		return "{" + strings.Join(parts, " ") + "}"
	}
	var vals []string
	for _, s := range stores {
		vals = append(vals, e.Of(s.Val))
	}
	sort.Strings(vals)
	return "cell{" + strings.Join(vals, " | ") + "}"
}

func (e *SxEnv) call(cc *ssa.CallCommon) string {
	var parts []string
	if cc.IsInvoke() {
		parts = append(parts, "invoke", cc.Method.Name(), e.Of(cc.Value))
	} else if f := cc.StaticCallee(); f != nil {
		if _, isClosure := cc.Value.(*ssa.MakeClosure); isClosure {
			parts = append(parts, "callclosure", e.Of(cc.Value))
		} else if s, ok := e.inlined(f, cc.Args); ok {
			return s
		} else {
			parts = append(parts, "call", sxShortCallee(f))
		}
	} else if b, ok := cc.Value.(*ssa.Builtin); ok {
		parts = append(parts, b.Name())
	} else {
		parts = append(parts, "calldyn", e.Of(cc.Value))
	}
	var args []string
	for _, a := range cc.Args {
		args = append(args, e.Of(a))
	}
	if b, ok := cc.Value.(*ssa.Builtin); ok && (b.Name() == "min" || b.Name() == "max") {
		sort.Strings(args)
	}
	parts = append(parts, args...)
	return "(" + strings.Join(parts, " ") + ")"
}

// lambda renders a closure by the canonical form of what it returns (single-return closures) with
// its own parameters named q0.., free variables resolved through the bindings.
func (e *SxEnv) lambda(fn *ssa.Function, bindings []ssa.Value) string {
	sub := &SxEnv{Fn: fn, prefix: e.prefix + "q", memo: map[ssa.Value]string{}, MaxSize: e.MaxSize, penv: e, bind: map[*ssa.FreeVar]ssa.Value{}}
	sub.InlinePure, sub.KeepNarrowing, sub.NoInline = e.InlinePure, e.KeepNarrowing, e.NoInline
	if e.prefix != "p" {
		sub.prefix = e.prefix + "q"
	} else {
		sub.prefix = "q"
	}
	for i, fv := range fn.FreeVars {
		if i < len(bindings) {
			sub.bind[fv] = bindings[i]
		}
	}
	var rets []string
	for _, b := range fn.Blocks {
		if r, ok := b.Instrs[len(b.Instrs)-1].(*ssa.Return); ok {
			var rs []string
			for _, v := range r.Results {
				rs = append(rs, sub.Of(v))
			}
			rets = append(rets, strings.Join(rs, ", "))
		}
	}
	sort.Strings(rets)
	return "(lambda " + strings.Join(rets, " || ") + ")"
}

// SubEnv returns the environment of a closure created by mc inside e's function.
func (e *SxEnv) SubEnv(mc *ssa.MakeClosure) *SxEnv {
	return e.SubEnvFn(mc.Fn.(*ssa.Function), mc.Bindings)
}

// SubEnvFn is SubEnv for an anonymous function given with its bindings (none for a function
// literal that captures nothing, which go/ssa represents as a plain *ssa.Function).
func (e *SxEnv) SubEnvFn(fn *ssa.Function, bindings []ssa.Value) *SxEnv {
	sub := &SxEnv{Fn: fn, prefix: "q", memo: map[ssa.Value]string{}, MaxSize: e.MaxSize, penv: e, bind: map[*ssa.FreeVar]ssa.Value{}}
	sub.InlinePure, sub.KeepNarrowing, sub.NoInline = e.InlinePure, e.KeepNarrowing, e.NoInline
	for i, fv := range fn.FreeVars {
		if i < len(bindings) {
			sub.bind[fv] = bindings[i]
		}
	}
	return sub
}

// SxAnonArg returns the anonymous function passed as v (closure or capture-free literal).
func SxAnonArg(v ssa.Value) (*ssa.Function, []ssa.Value, bool) {
	switch x := v.(type) {
	case *ssa.MakeClosure:
		return x.Fn.(*ssa.Function), x.Bindings, true
	case *ssa.Function:
		if x.Parent() != nil {
			return x, nil, true
		}
	}
	return nil, nil, false
}

// GuardSx returns the canonical guards known at block b: "+cond" / "-cond".
func (e *SxEnv) GuardSx(b *ssa.BasicBlock) []string {
	var out []string
	for _, g := range Guards(b) {
		g = g.Normalize()
		s := e.Of(g.Cond)
		if g.True {
			out = append(out, "+"+s)
		} else {
			out = append(out, "-"+s)
		}
	}
	sort.Strings(out)
	return out
}

// HasGuard reports whether one of the guards at b equals want ("+cond"/"-cond").
func (e *SxEnv) HasGuard(b *ssa.BasicBlock, want string) bool {
	for _, g := range e.GuardSx(b) {
		if g == want {
			return true
		}
	}
	return false
}

// ---------------------------------------------------------------------------
// BvEnv

type BvKind uint8

const (
	BvZero BvKind = iota
	BvOne
	BvSrc
	BvTop
)

// BvBit is the abstract value of one bit.
type BvBit struct {
	K   BvKind
	Src string // source name for BvSrc
	I   int    // bit index within the source
}

func (b BvBit) String() string {
	switch b.K {
	case BvZero:
		return "0"
	case BvOne:
		return "1"
	case BvSrc:
		return b.Src + "." + strconv.Itoa(b.I)
	}
	return "T"
}

// BvVec is an abstract integer: W significant bits (bits >= W are zero and meaningless).
type BvVec struct {
	W      int
	Signed bool
	B      [64]BvBit
}

// BvEnv evaluates integer SSA values of one function bit by bit.
type BvEnv struct {
	Fn      *ssa.Function
	IntBits int // width of int/uint/uintptr (64 or 32)
	Name    func(v ssa.Value) (string, bool)
	memo    map[ssa.Value]BvVec
	busy    map[ssa.Value]bool
}

func NewBvEnv(fn *ssa.Function, intBits int) *BvEnv {
	return &BvEnv{Fn: fn, IntBits: intBits, memo: map[ssa.Value]BvVec{}, busy: map[ssa.Value]bool{}}
}

func (e *BvEnv) widthOf(t types.Type) (int, bool, bool) {
	b, ok := t.Underlying().(*types.Basic)
	if !ok || b.Info()&types.IsInteger == 0 {
		return 0, false, false
	}
	signed := b.Info()&types.IsUnsigned == 0
	switch b.Kind() {
	case types.Int8, types.Uint8:
		return 8, signed, true
	case types.Int16, types.Uint16:
		return 16, signed, true
	case types.Int32, types.Uint32:
		return 32, signed, true
	case types.Int64, types.Uint64:
		return 64, signed, true
	case types.Int, types.Uint, types.Uintptr:
		return e.IntBits, signed, true
	case types.UntypedInt:
		return 64, true, true
	}
	return 0, false, false
}

func (e *BvEnv) top(w int, signed bool) BvVec {
	r := BvVec{W: w, Signed: signed}
	for i := 0; i < w; i++ {
		r.B[i] = BvBit{K: BvTop}
	}
	return r
}

func (e *BvEnv) source(name string, w int, signed bool) BvVec {
	r := BvVec{W: w, Signed: signed}
	for i := 0; i < w; i++ {
		r.B[i] = BvBit{K: BvSrc, Src: name, I: i}
	}
	return r
}

func (e *BvEnv) constVec(c *ssa.Const, w int, signed bool) BvVec {
	r := BvVec{W: w, Signed: signed}
	if c.Value == nil || c.Value.Kind() != constant.Int {
		return e.top(w, signed)
	}
	var u uint64
	if x, ok := constant.Uint64Val(c.Value); ok {
		u = x
	} else if x, ok := constant.Int64Val(c.Value); ok {
		u = uint64(x)
	} else {
		return e.top(w, signed)
	}
	for i := 0; i < w; i++ {
		if u>>uint(i)&1 == 1 {
			r.B[i] = BvBit{K: BvOne}
		}
	}
	return r
}

func bvConstShift(v ssa.Value) (int, bool) {
	for {
		if c, ok := v.(*ssa.Convert); ok {
			v = c.X
			continue
		}
		break
	}
	c, ok := v.(*ssa.Const)
	if !ok || c.Value == nil || c.Value.Kind() != constant.Int {
		return 0, false
	}
	i, ok := constant.Int64Val(c.Value)
	if !ok || i < 0 || i > 1<<20 {
		return 0, false
	}
	return int(i), true
}

// Of evaluates v; ok=false when v is not an integer.
func (e *BvEnv) Of(v ssa.Value) (BvVec, bool) {
	w, signed, ok := e.widthOf(v.Type())
	if !ok {
		return BvVec{}, false
	}
	if r, ok := e.memo[v]; ok {
		return r, true
	}
	if e.busy[v] {
		return e.top(w, signed), true
	}
	e.busy[v] = true
	r := e.of(v, w, signed)
	delete(e.busy, v)
	e.memo[v] = r
	return r, true
}

func (e *BvEnv) of(v ssa.Value, w int, signed bool) BvVec {
	if e.Name != nil {
		if n, ok := e.Name(v); ok {
			return e.source(n, w, signed)
		}
	}
	switch x := v.(type) {
	case *ssa.Const:
		return e.constVec(x, w, signed)
	case *ssa.Convert, *ssa.ChangeType:
		var in ssa.Value
		if c, ok := x.(*ssa.Convert); ok {
			in = c.X
		} else {
			in = x.(*ssa.ChangeType).X
		}
		src, ok := e.Of(in)
		if !ok {
			return e.top(w, signed)
		}
		r := BvVec{W: w, Signed: signed}
		for i := 0; i < w; i++ {
			switch {
			case i < src.W:
				r.B[i] = src.B[i]
			case src.Signed:
				r.B[i] = src.B[src.W-1]
				if r.B[i].K == BvSrc {
					// a replicated sign bit is a copy of that source bit
				}
			default:
				r.B[i] = BvBit{K: BvZero}
			}
		}
		return r
	case *ssa.BinOp:
		switch x.Op {
		case token.AND, token.OR, token.XOR, token.AND_NOT:
			a, ok1 := e.Of(x.X)
			b, ok2 := e.Of(x.Y)
			if !ok1 || !ok2 {
				return e.top(w, signed)
			}
			r := BvVec{W: w, Signed: signed}
			for i := 0; i < w; i++ {
				r.B[i] = bvBitOp(x.Op, a.B[i], b.B[i])
			}
			return r
		case token.SHL, token.SHR:
			a, ok := e.Of(x.X)
			if !ok {
				return e.top(w, signed)
			}
			c, isC := bvConstShift(x.Y)
			if !isC {
				return e.top(w, signed)
			}
			r := BvVec{W: w, Signed: signed}
			for i := 0; i < w; i++ {
				var j int
				if x.Op == token.SHL {
					j = i - c
				} else {
					j = i + c
				}
				switch {
				case j < 0:
					r.B[i] = BvBit{K: BvZero}
				case j >= w:
					if x.Op == token.SHR && signed {
						r.B[i] = a.B[w-1]
					} else {
						r.B[i] = BvBit{K: BvZero}
					}
				default:
					r.B[i] = a.B[j]
				}
			}
			return r
		case token.ADD:
			// disjoint addition is OR
			a, ok1 := e.Of(x.X)
			b, ok2 := e.Of(x.Y)
			if ok1 && ok2 {
				disjoint := true
				for i := 0; i < w; i++ {
					if a.B[i].K != BvZero && b.B[i].K != BvZero {
						disjoint = false
					}
				}
				if disjoint {
					r := BvVec{W: w, Signed: signed}
					for i := 0; i < w; i++ {
						r.B[i] = bvBitOp(token.OR, a.B[i], b.B[i])
					}
					return r
				}
			}
		}
		return e.top(w, signed)
	case *ssa.UnOp:
		if x.Op == token.XOR {
			a, ok := e.Of(x.X)
			if ok {
				r := BvVec{W: w, Signed: signed}
				for i := 0; i < w; i++ {
					switch a.B[i].K {
					case BvZero:
						r.B[i] = BvBit{K: BvOne}
					case BvOne:
						r.B[i] = BvBit{K: BvZero}
					default:
						r.B[i] = BvBit{K: BvTop}
					}
				}
				return r
			}
		}
		if x.Op == token.MUL {
			if path, ok := AccessPath(x.X); ok {
				return e.source(path, w, signed)
			}
		}
	case *ssa.Phi:
		var r BvVec
		first := true
		for _, ed := range x.Edges {
			a, ok := e.Of(ed)
			if !ok {
				return e.top(w, signed)
			}
			if first {
				r = a
				r.W, r.Signed = w, signed
				first = false
				continue
			}
			for i := 0; i < w; i++ {
				if r.B[i] != a.B[i] {
					r.B[i] = BvBit{K: BvTop}
				}
			}
		}
		return r
	case *ssa.Parameter:
		return e.source("param:"+x.Name(), w, signed)
	case *ssa.Field:
		if path, ok := AccessPath(x); ok {
			return e.source(path, w, signed)
		}
	}
	return e.source("v:"+v.Name(), w, signed)
}

func bvBitOp(op token.Token, a, b BvBit) BvBit {
	switch op {
	case token.AND:
		switch {
		case a.K == BvZero || b.K == BvZero:
			return BvBit{K: BvZero}
		case a.K == BvOne:
			return b
		case b.K == BvOne:
			return a
		case a == b && a.K == BvSrc:
			return a
		}
	case token.OR:
		switch {
		case a.K == BvOne || b.K == BvOne:
			return BvBit{K: BvOne}
		case a.K == BvZero:
			return b
		case b.K == BvZero:
			return a
		case a == b && a.K == BvSrc:
			return a
		}
	case token.XOR:
		switch {
		case a.K == BvZero:
			return b
		case b.K == BvZero:
			return a
		case a.K == BvOne && b.K == BvOne:
			return BvBit{K: BvZero}
		case a == b && a.K == BvSrc:
			return BvBit{K: BvZero}
		}
	case token.AND_NOT:
		switch {
		case a.K == BvZero || b.K == BvOne:
			return BvBit{K: BvZero}
		case b.K == BvZero:
			return a
		}
	}
	return BvBit{K: BvTop}
}

// Describe renders a bit vector compactly as runs: "[hi..lo]=src[hi..lo]".
func (v BvVec) Describe() string {
	var parts []string
	i := v.W - 1
	for i >= 0 {
		b := v.B[i]
		j := i
		for j-1 >= 0 {
			n := v.B[j-1]
			if n.K != b.K {
				break
			}
			if b.K == BvSrc && (n.Src != b.Src || n.I != v.B[j].I-1) {
				break
			}
			j--
		}
		switch b.K {
		case BvSrc:
			parts = append(parts, fmt.Sprintf("[%d..%d]=%s[%d..%d]", i, j, b.Src, b.I, v.B[j].I))
		case BvZero:
			parts = append(parts, fmt.Sprintf("[%d..%d]=0", i, j))
		case BvOne:
			parts = append(parts, fmt.Sprintf("[%d..%d]=1", i, j))
		default:
			parts = append(parts, fmt.Sprintf("[%d..%d]=?", i, j))
		}
		i = j - 1
	}
	return strings.Join(parts, " ")
}

// C02IntBits returns the width of int for the loaded configuration.
func (p *Program) C02IntBits() int {
	if strings.Contains(p.Config, "/386") {
		return 32
	}
	return 64
}

// SxCallee names the callee of a call the way Sx prints it: "(*pkg/decode.D).TryUintBits",
// "pkg/bitio.ReadFull", "invoke:SeekBits", "builtin:len", "dyn".
func SxCallee(cc *ssa.CallCommon) string {
	if cc.IsInvoke() {
		return "invoke:" + cc.Method.Name()
	}
	if f := cc.StaticCallee(); f != nil {
		if _, isClosure := cc.Value.(*ssa.MakeClosure); isClosure {
			return "closure"
		}
		return sxShortCallee(f)
	}
	if b, ok := cc.Value.(*ssa.Builtin); ok {
		return "builtin:" + b.Name()
	}
	return "dyn"
}

// EdgeGuards returns the guards under which phi takes an edge whose canonical value is edgeSx:
// the guards of the predecessor block plus the condition of the predecessor's own branch.
func (e *SxEnv) EdgeGuards(phi *ssa.Phi, edgeSx string) ([]string, bool) {
	b := phi.Block()
	for i, ed := range phi.Edges {
		if e.Of(ed) != edgeSx {
			continue
		}
		pred := b.Preds[i]
		gs := e.GuardSx(pred)
		if ifi, ok := pred.Instrs[len(pred.Instrs)-1].(*ssa.If); ok && pred.Succs[0] != pred.Succs[1] {
			g := Guard{Cond: ifi.Cond, True: pred.Succs[0] == b}.Normalize()
			s := e.Of(g.Cond)
			if g.True {
				gs = append(gs, "+"+s)
			} else {
				gs = append(gs, "-"+s)
			}
		}
		return gs, true
	}
	return nil, false
}

// SxStripConv removes integer conversions / change-type wrappers.
func SxStripConv(v ssa.Value) ssa.Value {
	for {
		switch x := v.(type) {
		case *ssa.Convert:
			if isIntType(x.Type()) && isIntType(x.X.Type()) {
				v = x.X
				continue
			}
		case *ssa.ChangeType:
			v = x.X
			continue
		}
		return v
	}
}

// Poly returns the polynomial normal form of an integer value (atoms are canonical sub-expressions).
func (e *SxEnv) Poly(v ssa.Value) *Poly { return e.poly(v) }

// EdgeGuardVals is EdgeGuards returning the guards as values (for arithmetic on their operands).
func (e *SxEnv) EdgeGuardVals(phi *ssa.Phi, edgeSx string) ([]Guard, bool) {
	b := phi.Block()
	for i, ed := range phi.Edges {
		if e.Of(ed) != edgeSx {
			continue
		}
		pred := b.Preds[i]
		var gs []Guard
		for _, g := range Guards(pred) {
			gs = append(gs, g.Normalize())
		}
		if ifi, ok := pred.Instrs[len(pred.Instrs)-1].(*ssa.If); ok && pred.Succs[0] != pred.Succs[1] {
			gs = append(gs, Guard{Cond: ifi.Cond, True: pred.Succs[0] == b, If: ifi}.Normalize())
		}
		return gs, true
	}
	return nil, false
}

// AffineBounds derives lo <= atom <= hi from integer comparison guards whose two sides differ by
// +-atom plus a constant (e.g. "atom - 15360 >= 2047" false).
func (e *SxEnv) AffineBounds(gs []Guard, atom string) (lo, hi *int64) {
	setLo := func(v int64) {
		if lo == nil || v > *lo {
			x := v
			lo = &x
		}
	}
	setHi := func(v int64) {
		if hi == nil || v < *hi {
			x := v
			hi = &x
		}
	}
	for _, g := range gs {
		bo, ok := g.Cond.(*ssa.BinOp)
		if !ok || !isIntType(bo.X.Type()) {
			continue
		}
		d := e.poly(bo.X).Sub(e.poly(bo.Y)) // d OP 0
		a := d.Coef(atom)
		if (a != 1 && a != -1) || len(d.Atoms()) != 1 {
			continue
		}
		c := d.Const()
		// a*atom + c OP 0
		op := bo.Op
		if !g.True {
			switch op {
			case token.LSS:
				op = token.GEQ
			case token.LEQ:
				op = token.GTR
			case token.GTR:
				op = token.LEQ
			case token.GEQ:
				op = token.LSS
			case token.EQL:
				op = token.NEQ
			case token.NEQ:
				op = token.EQL
			}
		}
		if a == -1 {
			// -atom + c OP 0  <=>  atom - c OP' 0
			c = -c
			switch op {
			case token.LSS:
				op = token.GTR
			case token.LEQ:
				op = token.GEQ
			case token.GTR:
				op = token.LSS
			case token.GEQ:
				op = token.LEQ
			}
		}
		// atom + c OP 0  => atom OP -c
		k := -c
		switch op {
		case token.LSS:
			setHi(k - 1)
		case token.LEQ:
			setHi(k)
		case token.GTR:
			setLo(k + 1)
		case token.GEQ:
			setLo(k)
		case token.EQL:
			setLo(k)
			setHi(k)
		}
	}
	return
}

// sxIntWidth: bit width of an integer type, int/uint/uintptr counted as 64.
func sxIntWidth(t types.Type) int {
	b, ok := t.Underlying().(*types.Basic)
	if !ok {
		return 64
	}
	switch b.Kind() {
	case types.Int8, types.Uint8:
		return 8
	case types.Int16, types.Uint16:
		return 16
	case types.Int32, types.Uint32:
		return 32
	}
	return 64
}

func sxNarrows(from, to types.Type) bool { return sxIntWidth(to) < sxIntWidth(from) }
