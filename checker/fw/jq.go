package fw

import (
	"fmt"
	"os"
	"path/filepath"
	"sort"
	"strings"

	"github.com/wader/gojq"
)

// JQOverlay lets controls replace bundled jq sources in memory (absolute path -> content).
var JQOverlay map[string][]byte

// JQFile is one bundled jq source parsed with the jq parser fq embeds.
type JQFile struct {
	Rel   string
	Src   string
	Query *gojq.Query
}

// JQDef is a function definition with its lexical context.
type JQDef struct {
	File   *JQFile
	Def    *gojq.FuncDef
	Parent *JQDef // enclosing def for nested definitions
	Order  int    // order of appearance in the file (top level)
}

func (d *JQDef) Key() string { return fmt.Sprintf("%s/%d", d.Def.Name, len(d.Def.Args)) }

// JQ is the model of all bundled, non-testdata jq sources (engine E8).
type JQ struct {
	Files []*JQFile
	Defs  []*JQDef // all defs incl. nested, in file/appearance order
}

// LoadJQ parses every *.jq under pkg/ and format/ that is not in a testdata directory.
func LoadJQ(repo string) (*JQ, error) {
	j := &JQ{}
	var paths []string
	for _, root := range []string{"pkg", "format"} {
		err := filepath.Walk(filepath.Join(repo, root), func(path string, info os.FileInfo, err error) error {
			if err != nil {
				return err
			}
			if info.IsDir() && info.Name() == "testdata" {
				return filepath.SkipDir
			}
			if !info.IsDir() && strings.HasSuffix(path, ".jq") && !strings.HasPrefix(info.Name(), ".") {
				paths = append(paths, path)
			}
			return nil
		})
		if err != nil {
			return nil, err
		}
	}
	sort.Strings(paths)
	for _, path := range paths {
		var b []byte
		if ob, ok := JQOverlay[path]; ok {
			b = ob
		} else {
			var err error
			b, err = os.ReadFile(path)
			if err != nil {
				return nil, err
			}
		}
		q, err := gojq.Parse(string(b))
		if err != nil {
			return nil, fmt.Errorf("%s: jq parse error: %v", path, err)
		}
		rel, _ := filepath.Rel(repo, path)
		f := &JQFile{Rel: rel, Src: string(b), Query: q}
		j.Files = append(j.Files, f)
		for i, fd := range q.FuncDefs {
			j.addDef(f, fd, nil, i)
		}
	}
	if len(j.Files) < 40 {
		return nil, fmt.Errorf("only %d jq files found", len(j.Files))
	}
	return j, nil
}

func (j *JQ) addDef(f *JQFile, fd *gojq.FuncDef, parent *JQDef, order int) {
	d := &JQDef{File: f, Def: fd, Parent: parent, Order: order}
	j.Defs = append(j.Defs, d)
	WalkJQ(fd.Body, func(n any) bool {
		if q, ok := n.(*gojq.Query); ok {
			for i, sub := range q.FuncDefs {
				j.addDef(f, sub, d, i)
			}
		}
		return true
	}, true)
}

// File returns the file by repo-relative name.
func (j *JQ) File(rel string) *JQFile {
	for _, f := range j.Files {
		if f.Rel == rel {
			return f
		}
	}
	return nil
}

// TopDefs returns all top-level definitions name/arity in any file.
func (j *JQ) TopDefs(name string, arity int) []*JQDef {
	var out []*JQDef
	for _, d := range j.Defs {
		if d.Parent == nil && d.Def.Name == name && (arity < 0 || len(d.Def.Args) == arity) {
			out = append(out, d)
		}
	}
	return out
}

// Def returns the last top-level definition name/arity in file rel ("" = any file; last wins).
func (j *JQ) Def(rel, name string, arity int) *JQDef {
	var out *JQDef
	for _, d := range j.Defs {
		if d.Parent == nil && d.Def.Name == name && (arity < 0 || len(d.Def.Args) == arity) && (rel == "" || d.File.Rel == rel) {
			out = d
		}
	}
	return out
}

// Nested returns the definition name/arity nested (at any depth) in d.
func (j *JQ) Nested(d *JQDef, name string, arity int) *JQDef {
	for _, x := range j.Defs {
		if x.Def.Name != name || (arity >= 0 && len(x.Def.Args) != arity) {
			continue
		}
		for p := x.Parent; p != nil; p = p.Parent {
			if p == d {
				return x
			}
		}
	}
	return nil
}

// WalkJQ visits every *gojq.Query, *gojq.Term, *gojq.Func ... node under n (pre-order). The
// visitor returns false to prune. If skipNestedDefs, bodies of nested FuncDefs are not entered.
func WalkJQ(n any, visit func(any) bool, skipNestedDefs bool) {
	var wq func(q *gojq.Query)
	var wt func(t *gojq.Term)
	var wp func(p *gojq.Pattern)
	ws := func(s *gojq.String) {
		if s == nil {
			return
		}
		if !visit(s) {
			return
		}
		for _, q := range s.Queries {
			wq(q)
		}
	}
	wi := func(ix *gojq.Index) {
		if ix == nil {
			return
		}
		if !visit(ix) {
			return
		}
		ws(ix.Str)
		wq(ix.Start)
		wq(ix.End)
	}
	wp = func(p *gojq.Pattern) {
		if p == nil {
			return
		}
		if !visit(p) {
			return
		}
		for _, a := range p.Array {
			wp(a)
		}
		for _, o := range p.Object {
			ws(o.KeyString)
			wq(o.KeyQuery)
			wp(o.Val)
		}
	}
	wq = func(q *gojq.Query) {
		if q == nil {
			return
		}
		if !visit(q) {
			return
		}
		if !skipNestedDefs {
			for _, fd := range q.FuncDefs {
				if visit(fd) {
					wq(fd.Body)
				}
			}
		}
		wt(q.Term)
		wq(q.Left)
		wq(q.Right)
	}
	wt = func(t *gojq.Term) {
		if t == nil {
			return
		}
		if !visit(t) {
			return
		}
		wi(t.Index)
		if t.Func != nil && visit(t.Func) {
			for _, a := range t.Func.Args {
				wq(a)
			}
		}
		if t.Object != nil && visit(t.Object) {
			for _, kv := range t.Object.KeyVals {
				if !visit(kv) {
					continue
				}
				ws(kv.KeyString)
				wq(kv.KeyQuery)
				wq(kv.Val)
			}
		}
		if t.Array != nil {
			wq(t.Array.Query)
		}
		if t.Unary != nil {
			wt(t.Unary.Term)
		}
		ws(t.Str)
		if t.If != nil && visit(t.If) {
			wq(t.If.Cond)
			wq(t.If.Then)
			for _, e := range t.If.Elif {
				wq(e.Cond)
				wq(e.Then)
			}
			wq(t.If.Else)
		}
		if t.Try != nil && visit(t.Try) {
			wq(t.Try.Body)
			wq(t.Try.Catch)
		}
		if t.Reduce != nil && visit(t.Reduce) {
			wq(t.Reduce.Query)
			wp(t.Reduce.Pattern)
			wq(t.Reduce.Start)
			wq(t.Reduce.Update)
		}
		if t.Foreach != nil && visit(t.Foreach) {
			wq(t.Foreach.Query)
			wp(t.Foreach.Pattern)
			wq(t.Foreach.Start)
			wq(t.Foreach.Update)
			wq(t.Foreach.Extract)
		}
		if t.Label != nil && visit(t.Label) {
			wq(t.Label.Body)
		}
		wq(t.Query)
		for _, s := range t.SuffixList {
			if !visit(s) {
				continue
			}
			wi(s.Index)
			if s.Bind != nil && visit(s.Bind) {
				for _, p := range s.Bind.Patterns {
					wp(p)
				}
				wq(s.Bind.Body)
			}
		}
	}
	switch x := n.(type) {
	case *gojq.Query:
		wq(x)
	case *gojq.Term:
		wt(x)
	case *gojq.FuncDef:
		wq(x.Body)
	}
}

// JQCalls returns the function calls (name/arity) made anywhere inside n, including nested defs.
func JQCalls(n any) []*gojq.Func {
	var out []*gojq.Func
	WalkJQ(n, func(x any) bool {
		if f, ok := x.(*gojq.Func); ok {
			out = append(out, f)
		}
		return true
	}, false)
	return out
}

// JQFuncKey is "name/arity" of a call.
func JQFuncKey(f *gojq.Func) string { return fmt.Sprintf("%s/%d", f.Name, len(f.Args)) }

// JQStr renders a query canonically (the embedded printer), "" for nil.
func JQStr(q *gojq.Query) string {
	if q == nil {
		return ""
	}
	return q.String()
}

// JQConstString returns the literal value when q is a plain string literal.
func JQConstString(q *gojq.Query) (string, bool) {
	if q == nil || q.Term == nil || q.Left != nil || len(q.FuncDefs) > 0 {
		return "", false
	}
	t := q.Term
	if t.Type == gojq.TermTypeString && t.Str != nil && len(t.Str.Queries) == 0 && len(t.SuffixList) == 0 {
		return t.Str.Str, true
	}
	return "", false
}

// JQConstNumber returns the literal when q is a plain number literal.
func JQConstNumber(q *gojq.Query) (string, bool) {
	if q == nil || q.Term == nil || q.Left != nil || len(q.FuncDefs) > 0 {
		return "", false
	}
	t := q.Term
	if t.Type == gojq.TermTypeNumber && len(t.SuffixList) == 0 {
		return t.Number, true
	}
	return "", false
}

// JQIsCall reports whether q is exactly a call name(args...) (no suffixes, no operators) and returns it.
func JQIsCall(q *gojq.Query, name string, arity int) *gojq.Func {
	if q == nil || q.Term == nil || q.Left != nil || len(q.FuncDefs) > 0 {
		return nil
	}
	t := q.Term
	if t.Type == gojq.TermTypeQuery && t.Query != nil && len(t.SuffixList) == 0 {
		return JQIsCall(t.Query, name, arity)
	}
	if t.Type != gojq.TermTypeFunc || t.Func == nil || len(t.SuffixList) > 0 {
		return nil
	}
	if (name == "" || t.Func.Name == name) && (arity < 0 || len(t.Func.Args) == arity) {
		return t.Func
	}
	return nil
}

// JQPipeline flattens a|b|c into [a b c].
func JQPipeline(q *gojq.Query) []*gojq.Query {
	if q == nil {
		return nil
	}
	if q.Op == gojq.OpPipe && q.Left != nil && len(q.FuncDefs) == 0 {
		return append(JQPipeline(q.Left), JQPipeline(q.Right)...)
	}
	if q.Term != nil && q.Term.Type == gojq.TermTypeQuery && len(q.Term.SuffixList) == 0 && q.Left == nil && len(q.FuncDefs) == 0 {
		return JQPipeline(q.Term.Query)
	}
	return []*gojq.Query{q}
}
