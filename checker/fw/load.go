// Package fw is the shared machinery of the fq static checker: program
// loading (go/packages + go/ssa), symbol lookup, obligations, verdicts and
// evidence.
package fw

import (
	"fmt"
	"go/ast"
	"go/token"
	"go/types"
	"os"
	"path/filepath"
	"sort"
	"strings"

	"golang.org/x/tools/go/callgraph"
	"golang.org/x/tools/go/callgraph/cha"
	"golang.org/x/tools/go/callgraph/vta"
	"golang.org/x/tools/go/packages"
	"golang.org/x/tools/go/ssa"
	"golang.org/x/tools/go/ssa/ssautil"
)

const Mod = "github.com/wader/fq"

// Program is the loaded, type-checked fq module with its SSA form.
type Program struct {
	Repo   string
	Config string // description of build configuration
	Fset   *token.FileSet
	Roots  []*packages.Package          // packages of the fq module
	ByPath map[string]*packages.Package // all packages incl. dependencies
	SSA    *ssa.Program
	AllFns map[*ssa.Function]bool

	cg      *callgraph.Graph
	fnIndex map[string]*ssa.Function
}

// LoadOpts selects the build configuration.
type LoadOpts struct {
	Repo    string
	Overlay map[string][]byte
	GOARCH  string
	Tags    string
}

func RepoDir() string {
	if d := os.Getenv("FQ_REPO"); d != "" {
		return d
	}
	return "/repo"
}

// Load loads ./... of the fq module. Any type error or an empty package set is an error.
func Load(o LoadOpts) (*Program, error) {
	if o.Repo == "" {
		o.Repo = RepoDir()
	}
	env := []string{}
	for _, e := range os.Environ() {
		if strings.HasPrefix(e, "GOWORK=") || strings.HasPrefix(e, "GOFLAGS=") || strings.HasPrefix(e, "GOARCH=") {
			continue
		}
		env = append(env, e)
	}
	env = append(env, "GOWORK=off", "GOFLAGS=-mod=mod", "GOPROXY=off", "GOSUMDB=off", "GOTOOLCHAIN=local", "CGO_ENABLED=0")
	cfgDesc := "linux/amd64"
	if o.GOARCH != "" {
		env = append(env, "GOARCH="+o.GOARCH)
		cfgDesc = "linux/" + o.GOARCH
	}
	cfg := &packages.Config{
		Mode:    packages.LoadAllSyntax,
		Dir:     o.Repo,
		Env:     env,
		Overlay: o.Overlay,
	}
	if o.Tags != "" {
		cfg.BuildFlags = []string{"-tags=" + o.Tags}
		cfgDesc += " tags=" + o.Tags
	}
	pkgs, err := packages.Load(cfg, "./...")
	if err != nil {
		return nil, fmt.Errorf("packages.Load: %w", err)
	}
	if len(pkgs) == 0 {
		return nil, fmt.Errorf("no packages loaded from %s", o.Repo)
	}
	var errs []string
	packages.Visit(pkgs, nil, func(p *packages.Package) {
		for _, e := range p.Errors {
			errs = append(errs, e.Error())
		}
	})
	if len(errs) > 0 {
		if len(errs) > 10 {
			errs = errs[:10]
		}
		return nil, fmt.Errorf("type/load errors: %s", strings.Join(errs, "; "))
	}
	p := &Program{Repo: o.Repo, Config: cfgDesc, Fset: pkgs[0].Fset, ByPath: map[string]*packages.Package{}}
	for _, pk := range pkgs {
		if pk.PkgPath == Mod || strings.HasPrefix(pk.PkgPath, Mod+"/") {
			p.Roots = append(p.Roots, pk)
		}
	}
	sort.Slice(p.Roots, func(i, j int) bool { return p.Roots[i].PkgPath < p.Roots[j].PkgPath })
	packages.Visit(pkgs, nil, func(pk *packages.Package) { p.ByPath[pk.PkgPath] = pk })
	if len(p.Roots) < 100 {
		return nil, fmt.Errorf("only %d fq packages loaded (expected >= 100)", len(p.Roots))
	}
	prog, _ := ssautil.AllPackages(pkgs, ssa.InstantiateGenerics)
	prog.Build()
	p.SSA = prog
	p.AllFns = ssautil.AllFunctions(prog)
	p.fnIndex = map[string]*ssa.Function{}
	for fn := range p.AllFns {
		p.fnIndex[fn.String()] = fn
	}
	return p, nil
}

// Pkg returns the package with path Mod/rel ("" = root).
func (p *Program) Pkg(rel string) *packages.Package {
	path := Mod
	if rel != "" {
		path = Mod + "/" + rel
	}
	if pk, ok := p.ByPath[path]; ok {
		return pk
	}
	return p.ByPath[rel]
}

// Fn looks up a function by its go/ssa String(), with the module prefix optional:
// "pkg/bitio.Read64", "(*pkg/bitio.SectionReader).ReadBitsAt".
func (p *Program) Fn(name string) *ssa.Function {
	if f, ok := p.fnIndex[name]; ok {
		return f
	}
	full := name
	if strings.HasPrefix(name, "(*") {
		full = "(*" + Mod + "/" + name[2:]
	} else if strings.HasPrefix(name, "(") {
		full = "(" + Mod + "/" + name[1:]
	} else {
		full = Mod + "/" + name
	}
	return p.fnIndex[full]
}

// InFq reports whether fn (or its outermost parent / generic origin) is declared in the fq module.
func InFq(fn *ssa.Function) bool {
	return strings.HasPrefix(FnPkgPath(fn), Mod)
}

// FnPkgPath returns the package path of the outermost declaring function.
func FnPkgPath(fn *ssa.Function) string {
	for fn.Parent() != nil {
		fn = fn.Parent()
	}
	if fn.Pkg != nil {
		return fn.Pkg.Pkg.Path()
	}
	if o := fn.Origin(); o != nil && o.Pkg != nil {
		return o.Pkg.Pkg.Path()
	}
	if fn.Object() != nil && fn.Object().Pkg() != nil {
		return fn.Object().Pkg().Path()
	}
	return ""
}

// Top returns the outermost enclosing function.
func Top(fn *ssa.Function) *ssa.Function {
	for fn.Parent() != nil {
		fn = fn.Parent()
	}
	return fn
}

// Rel returns the position as repo-relative file:line.
func (p *Program) Rel(pos token.Pos) string {
	if !pos.IsValid() {
		return "?"
	}
	ps := p.Fset.Position(pos)
	f := ps.Filename
	if r, err := filepath.Rel(p.Repo, f); err == nil && !strings.HasPrefix(r, "..") {
		f = r
	}
	return fmt.Sprintf("%s:%d", f, ps.Line)
}

// RelFile returns the repo-relative filename of pos.
func (p *Program) RelFile(pos token.Pos) string {
	s := p.Rel(pos)
	if i := strings.LastIndex(s, ":"); i >= 0 {
		return s[:i]
	}
	return s
}

// CallGraph returns the (lazily built) VTA call graph over all functions.
func (p *Program) CallGraph() *callgraph.Graph {
	if p.cg == nil {
		p.cg = vta.CallGraph(p.AllFns, cha.CallGraph(p.SSA))
	}
	return p.cg
}

// Reachable returns all functions reachable from roots in the VTA call graph.
func (p *Program) Reachable(roots []*ssa.Function) map[*ssa.Function]bool {
	cg := p.CallGraph()
	reach := map[*ssa.Function]bool{}
	var stack []*ssa.Function
	for _, r := range roots {
		if !reach[r] {
			reach[r] = true
			stack = append(stack, r)
		}
	}
	for len(stack) > 0 {
		f := stack[len(stack)-1]
		stack = stack[:len(stack)-1]
		// closures created by f are considered reachable with f (they may be
		// called through values the graph resolves anyway; this keeps it monotone)
		for _, a := range f.AnonFuncs {
			if !reach[a] {
				reach[a] = true
				stack = append(stack, a)
			}
		}
		n := cg.Nodes[f]
		if n == nil {
			continue
		}
		for _, e := range n.Out {
			c := e.Callee.Func
			if !reach[c] {
				reach[c] = true
				stack = append(stack, c)
			}
		}
	}
	return reach
}

// FqFunctions returns all SSA functions (incl. closures, generic instances) declared in fq, sorted.
func (p *Program) FqFunctions() []*ssa.Function {
	var out []*ssa.Function
	for fn := range p.AllFns {
		if InFq(fn) && fn.Blocks != nil {
			out = append(out, fn)
		}
	}
	sort.Slice(out, func(i, j int) bool {
		if out[i].String() != out[j].String() {
			return out[i].String() < out[j].String()
		}
		return out[i].Pos() < out[j].Pos()
	})
	return out
}

// NamedType looks up a named type in a package (rel to module, or full path).
func (p *Program) NamedType(rel, name string) *types.Named {
	pk := p.Pkg(rel)
	if pk == nil || pk.Types == nil {
		return nil
	}
	o := pk.Types.Scope().Lookup(name)
	if o == nil {
		return nil
	}
	n, _ := o.Type().(*types.Named)
	return n
}

// FuncDecl finds the AST declaration of a function or method: recv "" for functions.
func (p *Program) FuncDecl(rel, recv, name string) (*ast.FuncDecl, *packages.Package) {
	pk := p.Pkg(rel)
	if pk == nil {
		return nil, nil
	}
	for _, f := range pk.Syntax {
		for _, d := range f.Decls {
			fd, ok := d.(*ast.FuncDecl)
			if !ok || fd.Name.Name != name {
				continue
			}
			if recv == "" && fd.Recv == nil {
				return fd, pk
			}
			if recv != "" && fd.Recv != nil && len(fd.Recv.List) == 1 {
				t := fd.Recv.List[0].Type
				if s, ok := t.(*ast.StarExpr); ok {
					t = s.X
				}
				if ix, ok := t.(*ast.IndexExpr); ok {
					t = ix.X
				}
				if id, ok := t.(*ast.Ident); ok && id.Name == recv {
					return fd, pk
				}
			}
		}
	}
	return nil, pk
}
